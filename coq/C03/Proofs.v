(* C03 — proofs, part 1: the operational model refines the ideal verdict (for every scope, every tree). *)
From Coq Require Import ZArith QArith Bool List Lia.
Require Import QV.C03.Model QV.C03.Spec.
Import ListNotations.
Open Scope Z_scope.

(* ------------------------------------------------------------------------------------------------------------ *)
(* induction principle for the nested template type *)
Section PtInd.
  Variable P : pt -> Prop.
  Hypothesis HAtom : forall k chs reads dur cs ms, P (Atom k chs reads dur cs ms).
  Hypothesis HAMC : forall subs cs ms, Forall P subs -> P (AMC subs cs ms).
  Hypothesis HPar : forall inner ow, P inner -> P (Par inner ow).
  Hypothesis HAri : forall inner sa sc, P inner -> P (Ari inner sa sc).
  Hypothesis HSeq : forall subs cs ms, Forall P subs -> P (Seq subs cs ms).
  Hypothesis HRep : forall body count cs ms, P body -> P (Rep body count cs ms).
  Hypothesis HFor : forall body i a b st cs ms, P body -> P (For body i a b st cs ms).
  Hypothesis HMap : forall inner m cs, P inner -> P (Map inner m cs).
  Hypothesis HRen : forall inner r, P inner -> P (Ren inner r).
  Hypothesis HParT : forall inner owt, P inner -> P (ParT inner owt).

  Fixpoint pt_ind' (p : pt) : P p :=
    match p with
    | Atom k chs reads dur cs ms => HAtom k chs reads dur cs ms
    | AMC subs cs ms =>
        HAMC subs cs ms ((fix go (l : list pt) : Forall P l :=
                            match l with [] => Forall_nil P | q :: r => Forall_cons q (pt_ind' q) (go r) end) subs)
    | Par inner ow => HPar inner ow (pt_ind' inner)
    | Ari inner sa sc => HAri inner sa sc (pt_ind' inner)
    | Seq subs cs ms =>
        HSeq subs cs ms ((fix go (l : list pt) : Forall P l :=
                            match l with [] => Forall_nil P | q :: r => Forall_cons q (pt_ind' q) (go r) end) subs)
    | Rep body count cs ms => HRep body count cs ms (pt_ind' body)
    | For body i a b st cs ms => HFor body i a b st cs ms (pt_ind' body)
    | Map inner m cs => HMap inner m cs (pt_ind' inner)
    | Ren inner r => HRen inner r (pt_ind' inner)
    | ParT inner owt => HParT inner owt (pt_ind' inner)
    end.
End PtInd.

Lemma wf_subs : forall l,
  (fix all (l : list pt) : Prop := match l with [] => True | q :: r => wf q /\ all r end) l <-> Forall wf l.
Proof.
  induction l as [|q r IH]; split; intro H; auto.
  - destruct H as [H1 H2]. constructor; auto. apply IH; auto.
  - inversion H; subst. split; auto. apply IH; auto.
Qed.

(* ------------------------------------------------------------------------------------------------------------ *)
(* verd / refines algebra *)
Lemma first_fail_app : forall a b,
  first_fail (a ++ b) = match first_fail a with Some e => Some e | None => first_fail b end.
Proof. induction a as [|x a IH]; intros; cbn; auto. destruct x; auto. Qed.

Lemma verd_app : forall A (a b : list ob) (k : result A), verd (a ++ b) k = verd a (verd b k).
Proof.
  intros. unfold verd. rewrite map_app, first_fail_app.
  destruct (first_fail (map ob_stat a)); auto.
Qed.

Lemma verd_nil : forall A (k : result A), verd [] k = k.
Proof. reflexivity. Qed.

Lemma verd_cons : forall A o (l : list ob) (k : result A), verd (o :: l) k = verd [o] (verd l k).
Proof. intros. change (o :: l) with ([o] ++ l). apply verd_app. Qed.

Section Ref.
Variable D : Prop.
Lemma refines_refl : forall A (a : result A), refinesD D a a.
Proof. left; auto. Qed.
Lemma refines_missing : forall A (b : result A), refinesD D (Err Missing) b.
Proof. right; left; auto. Qed.
Hint Resolve refines_refl refines_missing : c03.

(* sequencing: a step that refinesD D `verd l (Ok x0)` followed by a continuation *)
Lemma bind_ref : forall A B (a : result A) (l : list ob) (x0 : A) (f : A -> result B) (K : result B),
  refinesD D a (verd l (Ok x0)) -> refinesD D (f x0) K -> refinesD D (bind a f) (verd l K).
Proof.
  intros A B a l x0 f K Ha Hf. unfold verd in *.
  destruct (first_fail (map ob_stat l)) as [e|].
  - destruct Ha as [-> | [-> | [Hb [-> | HD]]]]; cbn; auto with c03;
      inversion Hb; subst; right; right; auto.
  - destruct Ha as [-> | [-> | [Hb Ha]]]; cbn; auto with c03. discriminate.
Qed.

(* the continuation may depend on a fact about x0 *)
Lemma bind_ref' : forall A B (a : result A) (l : list ob) (x0 : A) (f : A -> result B) (K : result B),
  refinesD D a (verd l (Ok x0)) -> (first_fail (map ob_stat l) = None -> refinesD D (f x0) K) ->
  refinesD D (bind a f) (verd l K).
Proof.
  intros A B a l x0 f K Ha Hf. unfold verd in *.
  destruct (first_fail (map ob_stat l)) as [e|].
  - destruct Ha as [-> | [-> | [Hb [-> | HD]]]]; cbn; auto with c03;
      inversion Hb; subst; right; right; auto.
  - destruct Ha as [-> | [-> | [Hb Ha]]]; cbn; auto with c03. discriminate.
Qed.

(* ------------------------------------------------------------------------------------------------------------ *)
(* primitive steps *)
Lemma validate_ref : forall s cs, refinesD D (validate s cs) (verd (obs_c (lookup s) cs) (Ok tt)).
Proof.
  intros s cs. induction cs as [|c r IH]; cbn [validate obs_c map]; auto with c03.
  fold (obs_c (lookup s) r). rewrite verd_cons.
  unfold fulfilled.
  destruct (keys_ok s); cbn [negb bind]; auto with c03.
  destruct (subset (cvars c) (skeys s)); cbn [negb bind]; auto with c03.
  unfold verd at 1. cbn [map first_fail ob_stat].
  destruct (ceval (lookup s) c) as [[|]|]; cbn; auto with c03.
Qed.

Lemma eval_all_ref : forall s es, refinesD D (eval_all s es) (verd (obs_r (lookup s) es) (Ok tt)).
Proof.
  intros s es. induction es as [|e r IH]; cbn [eval_all obs_r map]; auto with c03.
  fold (obs_r (lookup s) r). rewrite verd_cons. unfold verd at 1. cbn [map first_fail ob_stat].
  destruct (eval (lookup s) e); cbn; auto with c03.
Qed.

Lemma meas_ref : forall s ms, refinesD D (meas s ms) (verd (obs_m (lookup s) ms) (Ok tt)).
Proof.
  intros s ms. induction ms as [|[b l] r IH]; cbn [meas obs_m flat_map]; auto with c03.
  fold (obs_m (lookup s) r). cbn [fst snd app].
  rewrite verd_cons. rewrite (verd_cons _ (ONN l (lookup s))).
  unfold verd at 1 2. cbn [map first_fail ob_stat].
  destruct (eval (lookup s) b) as [bv|]; cbn; auto with c03.
  destruct (eval (lookup s) l) as [lv|]; cbn.
  - destruct (Qlt_b bv 0); cbn; auto with c03.
    destruct (Qlt_b lv 0); cbn; auto with c03.
  - destruct (Qlt_b bv 0); cbn; auto with c03.
Qed.

Lemma eval_int_ref : forall B s e (f : Z -> result B) (K : result B),
  (forall z, int_of (lookup s) e = Some z -> refinesD D (f z) K) ->
  refinesD D (bind (eval_int s e) f) (verd [OI e (lookup s)] K).
Proof.
  intros B s e f K H. unfold eval_int, verd, int_of in *. cbn [map first_fail ob_stat].
  destruct (eval (lookup s) e) as [q|]; cbn; auto with c03.
  destruct (to_int q) as [z|]; cbn; auto with c03.
Qed.

Lemma eval_nz_ref : forall B s e (f : Z -> result B) (K : result B),
  (forall z, int_of (lookup s) e = Some z -> z <> 0 -> refinesD D (f z) K) ->
  refinesD D (bind (eval_int s e) (fun z => if z =? 0 then Err Other else f z)) (verd [ONZ e (lookup s)] K).
Proof.
  intros B s e f K H. unfold eval_int, verd, int_of in *. cbn [map first_fail ob_stat].
  destruct (eval (lookup s) e) as [q|]; cbn; auto with c03.
  destruct (to_int q) as [z|]; cbn; auto with c03.
  destruct (Z.eqb_spec z 0); cbn; auto with c03.
Qed.

Lemma is_zero_ref : forall B s e (f : bool -> result B) (K : result B),
  (eval (lookup s) e <> None -> refinesD D (f (negb (nonzero (lookup s) e))) K) ->
  refinesD D (bind (is_zero s e) f) (verd [OR e (lookup s)] K).
Proof.
  intros B s e f K H. unfold is_zero, verd, nonzero in *. cbn [map first_fail ob_stat].
  destruct (eval (lookup s) e) as [q|]; cbn; auto with c03.
  rewrite negb_involutive in H. apply H. discriminate.
Qed.

End Ref.
#[export] Hint Resolve refines_refl refines_missing : c03.

(* ------------------------------------------------------------------------------------------------------------ *)
(* coincidence for the atomic part of the specification: only declared names are read *)
Definition agree (X : list ident) (r1 r2 : env) : Prop := forall x, In x X -> r1 x = r2 x.

Lemma agree_app : forall X Y r1 r2, agree (X ++ Y) r1 r2 <-> agree X r1 r2 /\ agree Y r1 r2.
Proof.
  unfold agree; intros; split.
  - intro H; split; intros; apply H; apply in_or_app; auto.
  - intros [H1 H2] x Hx. apply in_app_or in Hx as [?|?]; auto.
Qed.

Lemma eval_agree : forall e r1 r2, agree (vars e) r1 r2 -> eval r1 e = eval r2 e.
Proof.
  induction e; cbn; intros r1 r2 H; auto.
  - apply H; left; auto.
  - apply agree_app in H as [H1 H2]. rewrite (IHe1 _ _ H1), (IHe2 _ _ H2); auto.
  - apply agree_app in H as [H1 H2]. rewrite (IHe1 _ _ H1), (IHe2 _ _ H2); auto.
  - apply agree_app in H as [H1 H2]. rewrite (IHe1 _ _ H1), (IHe2 _ _ H2); auto.
Qed.

Lemma ceval_agree : forall c r1 r2, agree (cvars c) r1 r2 -> ceval r1 c = ceval r2 c.
Proof.
  intros [op l r] r1 r2 H. cbn in *. apply agree_app in H as [H1 H2].
  rewrite (eval_agree l _ _ H1), (eval_agree r _ _ H2); auto.
Qed.

Lemma ob_stat_abs : forall o, ob_stat o = astat (ob_abs o).
Proof. destruct o; reflexivity. Qed.
Lemma map_stat_abs : forall l, map ob_stat l = map astat (map ob_abs l).
Proof. intros. rewrite map_map. apply map_ext. apply ob_stat_abs. Qed.

Lemma peval_agree : forall e r1 r2, agree (vars e) r1 r2 -> peval r1 e = peval r2 e.
Proof.
  induction e; cbn; intros r1 r2 H; auto.
  - rewrite (H x); [auto|left; auto].
  - apply agree_app in H as [H1 H2]. rewrite (IHe1 _ _ H1), (IHe2 _ _ H2); auto.
  - apply agree_app in H as [H1 H2]. rewrite (IHe1 _ _ H1), (IHe2 _ _ H2); auto.
  - apply agree_app in H as [H1 H2]. rewrite (IHe1 _ _ H1), (IHe2 _ _ H2); auto.
Qed.
Lemma res_closed_agree : forall e r1 r2, agree (vars e) r1 r2 -> res_closed r1 e = res_closed r2 e.
Proof. intros. unfold res_closed. rewrite (peval_agree e _ _ H); auto. Qed.

Lemma obs_c_agree_a : forall cs r1 r2, agree (cvars_l cs) r1 r2 ->
  map ob_abs (obs_c r1 cs) = map ob_abs (obs_c r2 cs).
Proof.
  induction cs as [|c cs IH]; intros r1 r2 H; cbn; auto.
  unfold cvars_l in H; cbn in H. apply agree_app in H as [H1 H2].
  rewrite (ceval_agree c _ _ H1). f_equal. apply IH; auto.
Qed.

Lemma obs_r_agree_a : forall es r1 r2, agree (vars_l es) r1 r2 ->
  map ob_abs (obs_r r1 es) = map ob_abs (obs_r r2 es).
Proof.
  induction es as [|e es IH]; intros r1 r2 H; cbn; auto.
  unfold vars_l in H; cbn in H. apply agree_app in H as [H1 H2].
  rewrite (eval_agree e _ _ H1). f_equal. apply IH; auto.
Qed.

Lemma obs_f_agree_a : forall es r1 r2, agree (vars_l es) r1 r2 ->
  map ob_abs (obs_f r1 es) = map ob_abs (obs_f r2 es).
Proof.
  induction es as [|e es IH]; intros r1 r2 H; cbn; auto.
  unfold vars_l in H; cbn in H. apply agree_app in H as [H1 H2].
  rewrite (eval_agree e _ _ H1), (res_closed_agree e _ _ H1). f_equal. apply IH; auto.
Qed.

Lemma obs_m_agree_a : forall ms r1 r2, agree (mvars_l ms) r1 r2 ->
  map ob_abs (obs_m r1 ms) = map ob_abs (obs_m r2 ms).
Proof.
  induction ms as [|[b l] ms IH]; intros r1 r2 H; cbn; auto.
  unfold mvars_l in H; cbn in H. apply agree_app in H as [H1 H2]. apply agree_app in H1 as [Hb Hl].
  rewrite (eval_agree b _ _ Hb), (eval_agree l _ _ Hl). do 2 f_equal. apply IH; auto.
Qed.

Lemma obs_c_agree : forall cs r1 r2, agree (cvars_l cs) r1 r2 -> map ob_stat (obs_c r1 cs) = map ob_stat (obs_c r2 cs).
Proof. intros. rewrite !map_stat_abs. f_equal. apply obs_c_agree_a; auto. Qed.
Lemma obs_r_agree : forall es r1 r2, agree (vars_l es) r1 r2 -> map ob_stat (obs_r r1 es) = map ob_stat (obs_r r2 es).
Proof. intros. rewrite !map_stat_abs. f_equal. apply obs_r_agree_a; auto. Qed.
Lemma obs_m_agree : forall ms r1 r2, agree (mvars_l ms) r1 r2 -> map ob_stat (obs_m r1 ms) = map ob_stat (obs_m r2 ms).
Proof. intros. rewrite !map_stat_abs. f_equal. apply obs_m_agree_a; auto. Qed.

Lemma positive_agree : forall e r1 r2, agree (vars e) r1 r2 -> positive r1 e = positive r2 e.
Proof. intros. unfold positive. rewrite (eval_agree e _ _ H); auto. Qed.

(* the expressions of the kept channels are among the expressions of all channels *)
Lemma kept_vars : forall dr l x, In x (vars_l (kept dr l)) -> In x (vars_l (map snd l)).
Proof.
  intros dr l x H. unfold vars_l, kept in *. apply in_flat_map in H as [e [He Hx]]. apply in_flat_map. exists e. split; auto.
  apply in_map_iff in He as [ce [<- Hce]]. apply filter_In in Hce as [Hce _]. apply in_map; auto.
Qed.
Lemma kept_combine_vars : forall dr chs reads x, In x (vars_l (kept dr (combine chs reads))) -> In x (vars_l reads).
Proof.
  intros dr chs reads x H. apply kept_vars in H. unfold vars_l in *. apply in_flat_map in H as [e [He Hx]].
  apply in_flat_map. exists e. split; auto. apply in_map_iff in He as [[c e'] [<- Hce]]. cbn.
  eapply in_combine_r; eauto.
Qed.

Lemma nonzero_agree : forall e r1 r2, agree (vars e) r1 r2 -> nonzero r1 e = nonzero r2 e.
Proof. intros. unfold nonzero. rewrite (eval_agree e _ _ H); auto. Qed.

Lemma mem_in : forall x l, mem x l = true <-> In x l.
Proof.
  intros x l. unfold mem. rewrite existsb_exists. split.
  - intros [y [Hy He]]. apply N.eqb_eq in He. subst; auto.
  - intro H. exists x. split; auto. apply N.eqb_refl.
Qed.

Lemma subset_in : forall a b, subset a b = true <-> (forall x, In x a -> In x b).
Proof.
  intros a b. unfold subset. rewrite forallb_forall. split; intros H x Hx.
  - apply mem_in. auto.
  - apply mem_in. auto.
Qed.

Lemma assoc_in_keys : forall A x (m : list (ident * A)), In x (map fst m) -> assoc x m <> None.
Proof.
  induction m as [|[k v] m IH]; cbn; intros H; [tauto|].
  destruct (N.eqb_spec x k); [discriminate|]. destruct H as [H|H]; [congruence|auto].
Qed.

(* an environment obtained by a mapping agrees, on the mapped keys, for outer environments agreeing on the
   variables of the mapping expressions *)
Lemma map_env_agree : forall m X r1 r2,
  agree (vars_l (map snd m)) r1 r2 -> (forall x, In x X -> In x (map fst m)) ->
  agree X (map_env r1 m) (map_env r2 m).
Proof.
  intros m X r1 r2 H Hk x Hx. unfold map_env.
  specialize (Hk x Hx). clear Hx. induction m as [|[k e] m IH]; cbn in *; [tauto|].
  unfold vars_l in H; cbn in H. apply agree_app in H as [H1 H2].
  destruct (N.eqb_spec x k).
  - apply eval_agree; auto.
  - destruct Hk as [Hk|Hk]; [congruence|]. apply IH; auto.
Qed.

Lemma agree_sub : forall X Y r1 r2, (forall x, In x X -> In x Y) -> agree Y r1 r2 -> agree X r1 r2.
Proof. unfold agree; auto. Qed.

Lemma flat_map_in_sub : forall (q : pt) l, In q l -> forall x, In x (pnames q) -> In x (flat_map pnames l).
Proof. intros q l Hq x Hx. apply in_flat_map. exists q; auto. Qed.

Definition atomic_coincide_a (p : pt) : Prop :=
  wf p -> forall r1 r2 drop, agree (pnames p) r1 r2 ->
    map ob_abs (obs_build p r1 drop) = map ob_abs (obs_build p r2 drop)
    /\ wave p r1 drop = wave p r2 drop
    /\ map ob_abs (obs_meas p r1) = map ob_abs (obs_meas p r2).

Lemma atomic_coincidence_a : forall p, atomic_coincide_a p.
Proof.
  induction p using pt_ind'; unfold atomic_coincide_a; intros Hwf r1 r2 drop Hag; cbn [pnames] in Hag.
  - (* Atom *)
    apply agree_app in Hag as [Hr Hag]. apply agree_app in Hag as [Hd Hag]. apply agree_app in Hag as [Hm Hc].
    cbn [obs_build wave obs_meas]. split; [|split].
    + rewrite !map_app. rewrite (obs_c_agree_a cs _ _ Hc). f_equal.
      destruct k.
      * rewrite !map_app. rewrite (obs_r_agree_a reads _ _ Hr). cbn. rewrite (eval_agree dur _ _ Hd); auto.
      * destruct (adrop chs drop); auto. cbn. rewrite (eval_agree dur _ _ Hd). f_equal.
        rewrite (nonzero_agree dur _ _ Hd). destruct (nonzero r2 dur); auto. apply obs_r_agree_a; auto.
      * destruct (adrop chs drop); auto. cbn. rewrite (eval_agree dur _ _ Hd). f_equal. apply obs_f_agree_a; auto.
      * cbn. rewrite (eval_agree dur _ _ Hd). f_equal.
        rewrite (positive_agree dur _ _ Hd). destruct (positive r2 dur); auto. apply obs_r_agree_a.
        eapply agree_sub; [|exact Hr]. apply kept_combine_vars.
    + unfold atom_wave. rewrite (nonzero_agree dur _ _ Hd), (positive_agree dur _ _ Hd); auto.
    + apply obs_m_agree_a; auto.
  - (* AMC *)
    apply agree_app in Hag as [Hm Hag]. apply agree_app in Hag as [Hc Hs].
    cbn [wf] in Hwf. destruct Hwf as [_ Hwf]. apply wf_subs in Hwf.
    assert (Hall : forall q, In q subs ->
              map ob_abs (obs_build q r1 drop) = map ob_abs (obs_build q r2 drop)
              /\ wave q r1 drop = wave q r2 drop
              /\ map ob_abs (obs_meas q r1) = map ob_abs (obs_meas q r2)).
    { intros q Hq. rewrite Forall_forall in H, Hwf. apply (H q Hq (Hwf q Hq)).
      eapply agree_sub; [|exact Hs]. apply flat_map_in_sub; auto. }
    clear H Hwf Hs. cbn [obs_build wave obs_meas]. split; [|split].
    + rewrite !map_app. rewrite (obs_c_agree_a cs _ _ Hc). f_equal.
      induction subs as [|q subs IH]; cbn; auto. rewrite !map_app.
      rewrite (proj1 (Hall q (or_introl eq_refl))). f_equal. apply IH. intros; apply Hall; right; auto.
    + induction subs as [|q subs IH]; cbn; auto.
      rewrite (proj1 (proj2 (Hall q (or_introl eq_refl)))). f_equal. apply IH. intros; apply Hall; right; auto.
    + rewrite !map_app. rewrite (obs_m_agree_a ms _ _ Hm). f_equal.
      induction subs as [|q subs IH]; cbn; auto. rewrite !map_app.
      rewrite (proj2 (proj2 (Hall q (or_introl eq_refl)))). f_equal. apply IH. intros; apply Hall; right; auto.
  - (* Par *)
    apply agree_app in Hag as [Hi Ho]. cbn [wf] in Hwf.
    destruct (IHp Hwf r1 r2 drop Hi) as [H1 [H2 H3]].
    cbn [obs_build wave obs_meas]. split; [|split]; auto.
    rewrite !map_app, H1, H2. f_equal. destruct (wave p r2 drop); auto. apply obs_r_agree_a.
    eapply agree_sub; [|exact Ho]. apply kept_vars.
  - (* Ari *)
    apply agree_app in Hag as [Hi Ho]. cbn [wf] in Hwf.
    destruct (IHp Hwf r1 r2 drop Hi) as [H1 [H2 H3]].
    cbn [obs_build wave obs_meas]. split; [|split]; auto.
    rewrite !map_app, H1, H2. f_equal. destruct (wave p r2 drop); auto. apply obs_r_agree_a.
    apply agree_app in Ho as [Ha Hc]. unfold vars_l. rewrite flat_map_app. apply agree_app. split; auto.
    eapply agree_sub; [|exact Hc]. apply kept_vars.
  - cbn; auto.
  - cbn; auto.
  - cbn; auto.
  - (* Map *)
    apply agree_app in Hag as [Hm Hc]. cbn [wf] in Hwf. destruct Hwf as [Hsub Hwf].
    assert (Hag' : agree (pnames p) (map_env r1 m) (map_env r2 m)).
    { apply map_env_agree; auto. apply subset_in; auto. }
    destruct (IHp Hwf _ _ drop Hag') as [H1 [H2 H3]].
    cbn [obs_build wave obs_meas]. split; [|split]; auto.
    rewrite !map_app, H1. f_equal. apply obs_c_agree_a; auto.
  - (* Ren *)
    cbn [wf] in Hwf. cbn [obs_build wave obs_meas]. apply IHp; auto.
  - (* ParT *)
    apply agree_app in Hag as [Hi Ho]. cbn [wf] in Hwf.
    destruct (IHp Hwf r1 r2 drop Hi) as [H1 [H2 H3]].
    cbn [obs_build wave obs_meas]. split; [|split]; auto.
    rewrite !map_app, H1, H2. f_equal. destruct (wave p r2 drop); auto. apply obs_f_agree_a.
    eapply agree_sub; [|exact Ho]. apply kept_vars.
Qed.

Lemma atomic_coincidence : forall p, wf p -> forall r1 r2 drop, agree (pnames p) r1 r2 ->
    map ob_stat (obs_build p r1 drop) = map ob_stat (obs_build p r2 drop)
    /\ wave p r1 drop = wave p r2 drop
    /\ map ob_stat (obs_meas p r1) = map ob_stat (obs_meas p r2).
Proof.
  intros p Hwf r1 r2 drop Hag. destruct (atomic_coincidence_a p Hwf r1 r2 drop Hag) as [H1 [H2 H3]].
  rewrite !map_stat_abs, H1, H3. auto.
Qed.
