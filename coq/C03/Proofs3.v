(* C03 — proofs, part 3: consequences of the refinement in terms of visible constraints / needed values. *)
From Coq Require Import ZArith QArith Bool List Lia.
Require Import QV.C03.Model QV.C03.Spec QV.C03.Proofs QV.C03.Proofs2.
Import ListNotations.
Open Scope Z_scope.

Lemma first_fail_none : forall l, first_fail l = None <-> forallb stat_ok l = true.
Proof.
  induction l as [|x l IH]; cbn; [tauto|]. destruct x; cbn; try tauto; split; discriminate.
Qed.

Lemma first_fail_some : forall l e, first_fail l = Some e ->
  In (match e with Missing => FMissing | Violated => FViolated | Other => FOther end) l.
Proof.
  induction l as [|x l IH]; cbn; intros e H; [discriminate|].
  destruct x; try (inversion H; subst; left; reflexivity). right; auto.
Qed.

Lemma forallb_map' : forall A B (f : A -> B) (g : B -> bool) l, forallb g (map f l) = forallb (fun x => g (f x)) l.
Proof. induction l; cbn; auto. rewrite IHl; auto. Qed.

Lemma all_hold_ff : forall p rho drop,
  all_hold p rho drop = true <-> first_fail (map ob_stat (obs p rho drop)) = None.
Proof.
  intros. unfold all_hold. rewrite first_fail_none, forallb_map'. tauto.
Qed.

(* an accepted instantiation: every obligation of every reached node holds *)
Lemma accepted_sound : forall p s drop b, wf p -> guard_C03_function_zero p (lookup s) drop = true ->
  run p s drop = Ok b ->
  all_hold p (lookup s) drop = true /\ b = plays p (lookup s) drop.
Proof.
  intros p s drop b Hwf Hg Hr. pose proof (run_ref p Hwf s drop Hg) as H. rewrite Hr in H.
  apply refines_ok_inv in H. unfold verdict, verd in H.
  destruct (first_fail (map ob_stat (obs p (lookup s) drop))) eqn:E; [discriminate|].
  inversion H; subst. split; auto. apply all_hold_ff; auto.
Qed.

Lemma all_hold_visible : forall p rho drop, all_hold p rho drop = true ->
  forall c r, In (c, r) (visible p rho drop) -> ceval r c = Some true.
Proof.
  intros p rho drop H c r Hin. unfold visible in Hin. apply in_flat_map in Hin as [o [Ho Hin]].
  unfold all_hold in H. rewrite forallb_forall in H. specialize (H o Ho).
  destruct o; cbn in Hin; try tauto. destruct Hin as [Hin|[]]. inversion Hin; subst.
  cbn in H. destruct (ceval r c) as [[|]|]; auto; discriminate.
Qed.

Lemma all_hold_none_missing : forall p rho drop, all_hold p rho drop = true -> none_missing p rho drop = true.
Proof.
  intros p rho drop H. unfold all_hold, none_missing in *. rewrite forallb_forall in *.
  intros o Ho. specialize (H o Ho). destruct (ob_stat o); auto; discriminate.
Qed.

(* a rejection with a constraint violation is justified by a visible constraint that is false *)
Lemma violated_sound : forall p s drop, wf p -> guard_C03_function_zero p (lookup s) drop = true ->
  run p s drop = Err Violated ->
  exists c r, In (c, r) (visible p (lookup s) drop) /\ ceval r c = Some false.
Proof.
  intros p s drop Hwf Hg Hr. pose proof (run_ref p Hwf s drop Hg) as H. rewrite Hr in H.
  destruct H as [H|[H|[_ [H|[]]]]]; try discriminate.
  unfold verdict, verd in H.
  destruct (first_fail (map ob_stat (obs p (lookup s) drop))) as [e|] eqn:E; [|discriminate].
  inversion H; subst. apply first_fail_some in E. apply in_map_iff in E as [o [Ho Hin]].
  destruct o; cbn in Ho;
    try (destruct (eval rho e) as [q|]; try discriminate;
         try (destruct (to_int q) as [z|]; try discriminate; try (destruct (z =? 0); discriminate));
         try (destruct (Qlt_b q 0); discriminate)).
  destruct (ceval rho c) as [[|]|] eqn:Ec; try discriminate.
  exists c, rho. split; auto. unfold visible. apply in_flat_map. exists (OC c rho). split; auto. left; auto.
Qed.

(* a needed value that is missing never yields a program *)
Lemma missing_never_ok : forall p s drop b, wf p -> guard_C03_function_zero p (lookup s) drop = true ->
  none_missing p (lookup s) drop = false -> run p s drop <> Ok b.
Proof.
  intros p s drop b Hwf Hg Hm Hr. destruct (accepted_sound p s drop b Hwf Hg Hr) as [H _].
  apply all_hold_none_missing in H. congruence.
Qed.
