(* C03 — correspondence cases.  A case is a user-level template tree, two parameter assignments (the second one is a
   variant of the first: extra names added / irrelevant values changed), the set of dropped channels, and what the real
   code did: sorted `parameter_names`, the kind of outcome of `create_program` for both assignments, and `same`:
   when both calls returned a program, whether the two programs are equal (loop structure, repetition counts,
   measurement windows, sampled voltages of every waveform; compared by the harness).
   check_corr: the operational model (Model.v) reproduces the observation.
   check_spec: the property's clauses evaluated from the independent specification (Spec.v: visible constraints,
               needed values) on the implementation's observation. *)
From Coq Require Import ZArith QArith Bool List.
Require Import QV.common.Util QV.C03.Model QV.C03.Spec.
Import ListNotations.
Open Scope Z_scope.

Inductive outcome := OProg | ONone | OMissing | OViolated | OOther.

Inductive case :=
| CCase (p : pt) (drop : list ident) (names : list ident)
        (values : list (ident * Q)) (out : outcome)
        (values2 : list (ident * Q)) (out2 : outcome) (same : bool)
(* a *history*: `create_program` called several times, in this order, on the very same template object (the model and
   the specification are functions of the tree and the assignment, so every call is judged on its own: nothing a
   previous call left behind may matter); `same`: calls with identical assignments that returned a program returned
   equal programs *)
| CHist (p : pt) (drop : list ident) (names : list ident)
        (steps : list (list (ident * Q) * outcome)) (same : bool)
| CCrash.

Definition outcome_eqb (a b : outcome) : bool :=
  match a, b with
  | OProg, OProg | ONone, ONone | OMissing, OMissing | OViolated, OViolated | OOther, OOther => true
  | _, _ => false
  end.

Definition outcome_of (r : result bool) : outcome :=
  match r with
  | Ok true => OProg
  | Ok false => ONone
  | Err Missing => OMissing
  | Err Violated => OViolated
  | Err Other => OOther
  end.

Definition set_eqb (a b : list ident) : bool := subset a b && subset b a.

Definition is_error (o : outcome) : bool :=
  match o with OMissing | OViolated | OOther => true | _ => false end.

(* With every declared name supplied the outcome kinds must agree exactly.  With a declared name absent several
   errors can apply at once (missing parameter / violated constraint); which one is raised first is an order of
   evaluation the property does not fix, so only "some error" is compared there (a harmless reordering of the checks
   must stay silent).  check_corr_exact below is the exact comparison; it is not part of the verdict. *)
Definition outcome_match (names : list ident) (values : list (ident * Q)) (model impl : outcome) : bool :=
  outcome_eqb model impl
  || (negb (subset names (map fst values)) && is_error model && is_error impl).

Definition check_corr (c : case) : bool :=
  match c with
  | CCase p drop names values out values2 out2 _ =>
      set_eqb (pnames (construct p)) names
      && outcome_match names values (outcome_of (create_program p values drop)) out
      && outcome_match names values2 (outcome_of (create_program p values2 drop)) out2
  | CHist p drop names steps _ =>
      set_eqb (pnames (construct p)) names
      && forallb (fun s => outcome_match names (fst s) (outcome_of (create_program p (fst s) drop)) (snd s)) steps
  | CCrash => false
  end.

(* exact outcome kinds also for incomplete assignments: the model follows the order of evaluation of the code as it is
   (validate_scope before the reads, keys()/as_dict() forcing, eager mapping inside atomic parents).  Measured by
   `tools`-free experiment `c03.exact_order_report` (notes/C03.md); not gating. *)
Definition check_corr_exact (c : case) : bool :=
  match c with
  | CCase p drop names values out values2 out2 _ =>
      outcome_eqb (outcome_of (create_program p values drop)) out
      && outcome_eqb (outcome_of (create_program p values2 drop)) out2
  | CHist p drop names steps _ =>
      forallb (fun s => outcome_eqb (outcome_of (create_program p (fst s) drop)) (snd s)) steps
  | CCrash => false
  end.

(* ---- specification side ---- *)
Definition env_of (values : list (ident * Q)) : env := fun x => assoc x values.

(* clauses (a), (c), (d) for one assignment; `names` = the declared parameter names (as observed) *)
Definition spec_one (p : pt) (drop : list ident) (names : list ident) (values : list (ident * Q)) (out : outcome) : bool :=
  let rho := env_of values in
  let complete := subset names (map fst values) in
  (* (a) all declared names supplied: never "missing parameter" *)
  (if complete then negb (outcome_eqb out OMissing) else true)
  &&
  (if negb (none_missing p rho drop) then
     (* (d) a needed value is missing: an error, never a program (and never None) *)
     is_error out
   else if all_hold p rho drop then
     (* (c) all needed present, every visible constraint true: accepted; with a declared name absent the code may
        still ask for it (keys()/as_dict() evaluate eagerly) *)
     outcome_eqb out (if plays p rho drop then OProg else ONone)
     || (negb complete && outcome_eqb out OMissing)
   else if some_other p rho drop then
     (* ill-formed numbers (non-integer count, negative window, zero step): some error *)
     is_error out && implb complete (negb (outcome_eqb out OMissing))
     && implb (outcome_eqb out OViolated) (some_violated p rho drop)
   else
     (* (c) a visible constraint is false, everything else fine: constraint violation *)
     outcome_eqb out OViolated || (negb complete && outcome_eqb out OMissing)).

Definition agree_on (names : list ident) (v1 v2 : list (ident * Q)) : bool :=
  forallb (fun x => opt_eqb Qeq_bool (assoc x v1) (assoc x v2)) names.

Definition check_spec (c : case) : bool :=
  match c with
  | CCase p drop names values out values2 out2 same =>
      spec_one p drop names values out
      && spec_one p drop names values2 out2
      (* (b) values of undeclared names never change the result: same kind of outcome, equal programs *)
      && (if agree_on names values values2 then outcome_eqb out out2 && same else true)
  | CHist p drop names steps same =>
      (* every call of the history obeys (a), (c), (d) on its own assignment, whatever was instantiated before;
         (b) along the history: two calls that agree on the declared names have the same kind of outcome, and equal
         programs (`same`, compared by the harness for identical assignments) *)
      forallb (fun s => spec_one p drop names (fst s) (snd s)) steps
      && forallb (fun s1 => forallb (fun s2 => if agree_on names (fst s1) (fst s2)
                                               then outcome_eqb (snd s1) (snd s2) else true) steps) steps
      && same
  | CCrash => false
  end.

(* the executable guard of the known finding function-zero-factor-hides-missing-parameter on the user-level tree, for
   both assignments: the harness classifies a case rejected by check_spec as the known finding iff this is false *)
Definition check_guard (c : case) : bool :=
  match c with
  | CCase p drop _ values _ values2 _ _ =>
      guard_C03_function_zero_tight p (env_of values) drop && guard_C03_function_zero_tight p (env_of values2) drop
  | CHist p drop _ steps _ => forallb (fun s => guard_C03_function_zero_tight p (env_of (fst s)) drop) steps
  | CCrash => true
  end.

(* ---- classification of a case rejected by check_spec as the known finding (harness `classify`; NOT part of the
   verdict, so it may use the model).  Round 5: the guard alone is not enough (any other violation on an input of the
   guarded class would be filed under the finding, and the check does not look at check_corr for such a case):
   the case is the known finding iff
     * the implementation does exactly what the faithful model -- which exhibits the finding -- does (check_corr), and
     * every clause of check_spec holds except clause (d) for assignments on which the guard is false, a needed value
       is missing and a result (program / None) was returned. ---- *)
(* round 6: the exact guard (Spec.guard_C03_function_zero_tight: only the obligations up to and including the first
   failing one) -- with the round-2 guard an assignment whose vanishing function atom lies BEHIND the first failing
   obligation was inside the class although the theorems (Props.C03_missing_exact_guard) cover it *)
Definition finding_form (p : pt) (drop : list ident) (values : list (ident * Q)) (out : outcome) : bool :=
  negb (guard_C03_function_zero_tight p (env_of values) drop) && negb (none_missing p (env_of values) drop)
  && (outcome_eqb out OProg || outcome_eqb out ONone).
Definition spec_one_k (p : pt) (drop : list ident) (names : list ident) (values : list (ident * Q)) (out : outcome) : bool :=
  finding_form p drop values out || spec_one p drop names values out.

Definition check_known (c : case) : bool :=
  check_corr c &&
  match c with
  | CCase p drop names values out values2 out2 same =>
      spec_one_k p drop names values out
      && spec_one_k p drop names values2 out2
      && (if agree_on names values values2 then outcome_eqb out out2 && same else true)
  | CHist p drop names steps same =>
      forallb (fun s => spec_one_k p drop names (fst s) (snd s)) steps
      && forallb (fun s1 => forallb (fun s2 => if agree_on names (fst s1) (fst s2)
                                               then outcome_eqb (snd s1) (snd s2) else true) steps) steps
      && same
  | CCrash => false
  end.
