(* C03 — proofs, part 8: the operational model reads the scope only through the declared names — two assignments
   that agree on the declared names give the same result, also when declared names are absent (clause b, full). *)
From Coq Require Import ZArith QArith Bool List Lia.
Require Import QV.C03.Model QV.C03.Spec QV.C03.Proofs QV.C03.Proofs2 QV.C03.Proofs4 QV.C03.Proofs5 QV.C03.Proofs6 QV.C03.Proofs7.
Import ListNotations.
Open Scope Z_scope.

(* the part of a scope the model can observe through a name set X: values and key membership of the names in X ... *)
Definition A (X : list ident) (s1 s2 : scope) : Prop :=
  forall x, In x X -> lookup s1 x = lookup s2 x /\ (In x (skeys s1) <-> In x (skeys s2)).
(* ... and globally: whether keys()/as_dict() succeed, and which keys have no value *)
Definition bad (s : scope) (k : ident) : Prop := In k (skeys s) /\ lookup s k = None.
Definition I (s1 s2 : scope) : Prop :=
  keys_ok s1 = keys_ok s2 /\ forced_ok s1 = forced_ok s2 /\ (forall k, bad s1 k <-> bad s2 k).
Definition R (X : list ident) (s1 s2 : scope) : Prop := I s1 s2 /\ A X s1 s2.

Lemma R_sub : forall X X' s1 s2, (forall x, In x X' -> In x X) -> R X s1 s2 -> R X' s1 s2.
Proof. intros X X' s1 s2 H [HI HA]. split; auto. intros x Hx. apply HA; auto. Qed.

Lemma R_app : forall X Y s1 s2, R (X ++ Y) s1 s2 -> R X s1 s2 /\ R Y s1 s2.
Proof. intros. split; eapply R_sub; try exact H; intros; apply in_or_app; auto. Qed.

Lemma R_agree : forall X s1 s2, R X s1 s2 -> agree X (lookup s1) (lookup s2).
Proof. intros X s1 s2 [_ HA] x Hx. apply HA; auto. Qed.

Lemma assoc_none_iff : forall A0 x (m : list (ident * A0)), assoc x m = None <-> ~ In x (map fst m).
Proof.
  intros. split; [apply assoc_none_notin|].
  intro H. destruct (assoc x m) eqn:E; auto. exfalso. apply H. apply assoc_some_in in E.
  apply in_map_iff. exists (x, a); auto.
Qed.

(* allsome s <-> no bad key *)
Lemma allsome_bad : forall s,
  forallb (fun k => is_some (lookup s k)) (skeys s) = true <-> (forall k, ~ bad s k).
Proof.
  intros s. rewrite forallb_forall. unfold bad. split.
  - intros H k [Hk Hn]. specialize (H k Hk). rewrite Hn in H. discriminate.
  - intros H k Hk. destruct (lookup s k) eqn:E; auto. exfalso. apply (H k); auto.
Qed.

Lemma bool_eq_iff : forall a b : bool, (a = true <-> b = true) -> a = b.
Proof. intros [|] [|] H; auto; [symmetry|]; apply H; auto. Qed.

(* ---- base: two dictionaries ---- *)
Lemma R_dict : forall X v1 v2, (forall x, In x X -> assoc x v1 = assoc x v2) -> R X (SDict v1) (SDict v2).
Proof.
  intros X v1 v2 H. split.
  - split; [reflexivity|split; [reflexivity|]]. intros k. unfold bad. cbn.
    split; intros [Hk Hn]; exfalso; eapply assoc_in_keys; eauto.
  - intros x Hx. cbn. split; auto. specialize (H x Hx).
    split; intro Hk.
    + destruct (assoc x v2) eqn:E.
      * apply assoc_some_in in E. apply in_map_iff. exists (x, q); auto.
      * exfalso. apply (assoc_in_keys _ x v1 Hk). congruence.
    + destruct (assoc x v1) eqn:E.
      * apply assoc_some_in in E. apply in_map_iff. exists (x, q); auto.
      * exfalso. apply (assoc_in_keys _ x v2 Hk). congruence.
Qed.

(* ---- MappedScope ---- *)
Lemma bad_mapped : forall s m k,
  bad (SMapped s m) k <->
  (exists e, assoc k m = Some e /\ eval (lookup s) e = None) \/ (assoc k m = None /\ bad s k).
Proof.
  intros s m k. unfold bad. cbn [skeys lookup]. unfold map_env. split.
  - intros [Hk Hn]. destruct (assoc k m) eqn:E; [left; eauto|right].
    split; auto. split; auto. apply in_app_or in Hk as [Hk|Hk]; auto.
    exfalso. eapply assoc_none_notin; eauto.
  - intros [[e [E Hn]]|[E [Hk Hn]]]; rewrite E.
    + split; auto. apply in_or_app. left. apply assoc_some_in in E. apply in_map_iff. exists (k, e); auto.
    + split; auto. apply in_or_app; auto.
Qed.

Lemma R_mapped : forall X X' s1 s2 m, R X s1 s2 ->
  (forall x, In x (vars_l (map snd m)) -> In x X) -> (forall x, In x X' -> In x (map fst m)) ->
  R X' (SMapped s1 m) (SMapped s2 m).
Proof.
  intros X X' s1 s2 m [[HK [HF HB]] HA] Hv Hk.
  assert (Hev : forall k e, assoc k m = Some e -> eval (lookup s1) e = eval (lookup s2) e).
  { intros k e E. apply eval_agree. intros x Hx. apply HA. apply Hv. unfold vars_l. apply in_flat_map.
    exists e. split; auto. apply in_map_iff. exists (k, e). split; auto. eapply assoc_some_in; eauto. }
  assert (HB' : forall k, bad (SMapped s1 m) k <-> bad (SMapped s2 m) k).
  { intros k. rewrite !bad_mapped. split.
    - intros [[e [E Hn]]|[E Hb]]; [left; exists e; split; auto; rewrite <- (Hev k e E); auto|right; split; auto; apply HB; auto].
    - intros [[e [E Hn]]|[E Hb]]; [left; exists e; split; auto; rewrite (Hev k e E); auto|right; split; auto; apply HB; auto]. }
  split.
  - split; [exact HK|split; [|exact HB']].
    cbn [forced_ok]. rewrite HK. f_equal. apply bool_eq_iff.
    change (map fst m ++ skeys s1) with (skeys (SMapped s1 m)).
    change (map fst m ++ skeys s2) with (skeys (SMapped s2 m)).
    rewrite !allsome_bad. split; intros H k Hb; apply (H k); apply HB'; auto.
  - intros x Hx. specialize (Hk x Hx). cbn [lookup skeys]. unfold map_env. split.
    + destruct (assoc x m) eqn:E; [eapply Hev; eauto|]. exfalso. eapply assoc_none_notin; eauto.
    + split; intros _; apply in_or_app; auto.
Qed.

(* ---- RangeScope ---- *)
Lemma R_range : forall X X' s1 s2 i v, R X s1 s2 ->
  (forall x, In x X' -> x = i \/ In x X) -> R X' (SRange s1 i v) (SRange s2 i v).
Proof.
  intros X X' s1 s2 i v [[HK [HF HB]] HA] Hx'. split.
  - split; [exact HF|split; [exact HF|]]. intros k. unfold bad. cbn [skeys lookup]. unfold upd.
    destruct (N.eqb_spec k i).
    + split; intros [_ H]; discriminate.
    + specialize (HB k). unfold bad in HB. split; intros [[Hk|Hk] Hn]; try congruence.
      * destruct (proj1 HB (conj Hk Hn)); split; auto. right; auto.
      * destruct (proj2 HB (conj Hk Hn)); split; auto. right; auto.
  - intros x Hx. cbn [skeys lookup]. unfold upd. destruct (N.eqb_spec x i).
    + split; auto. subst. split; intros _; left; auto.
    + destruct (Hx' x Hx) as [?|Hin]; [contradiction|]. destruct (HA x Hin) as [H1 H2]. split; auto.
      split; intros [?|Hk]; try congruence; right; apply H2; auto.
Qed.

(* ---- primitives ---- *)
Lemma subset_R : forall X Y s1 s2, R X s1 s2 -> (forall x, In x Y -> In x X) ->
  subset Y (skeys s1) = subset Y (skeys s2).
Proof.
  intros X Y s1 s2 [_ HA] H. apply bool_eq_iff. rewrite !subset_in.
  split; intros Hs x Hx; apply (HA x (H x Hx)); auto.
Qed.

Lemma fulfilled_R : forall s1 s2 c, R (cvars c) s1 s2 -> fulfilled s1 c = fulfilled s2 c.
Proof.
  intros s1 s2 c HR. unfold fulfilled. pose proof HR as [[HK HI] HA]. rewrite HK.
  rewrite (subset_R (cvars c) (cvars c) s1 s2); auto.
  rewrite (ceval_agree c (lookup s1) (lookup s2)); auto. apply R_agree; auto.
Qed.

Lemma validate_R : forall s1 s2 cs, R (cvars_l cs) s1 s2 -> validate s1 cs = validate s2 cs.
Proof.
  induction cs as [|c r IH]; intros HR; cbn [validate]; auto.
  unfold cvars_l in HR; cbn in HR. apply R_app in HR as [H1 H2].
  rewrite (fulfilled_R _ _ _ H1). destruct (fulfilled s2 c) as [[|]|]; cbn; auto.
Qed.

Lemma eval_all_R : forall s1 s2 es, R (vars_l es) s1 s2 -> eval_all s1 es = eval_all s2 es.
Proof.
  induction es as [|e r IH]; intros HR; cbn [eval_all]; auto.
  unfold vars_l in HR; cbn in HR. apply R_app in HR as [H1 H2].
  rewrite (eval_agree e _ _ (R_agree _ _ _ H1)). destruct (eval (lookup s2) e); auto.
Qed.

Lemma meas_R : forall s1 s2 ms, R (mvars_l ms) s1 s2 -> meas s1 ms = meas s2 ms.
Proof.
  induction ms as [|[b l] r IH]; intros HR; cbn [meas]; auto.
  unfold mvars_l in HR; cbn in HR. apply R_app in HR as [H1 H2]. apply R_app in H1 as [Hb Hl].
  rewrite (eval_agree b _ _ (R_agree _ _ _ Hb)), (eval_agree l _ _ (R_agree _ _ _ Hl)).
  destruct (eval (lookup s2) b); auto. destruct (eval (lookup s2) l); auto.
  destruct (Qlt_b q 0 || Qlt_b q0 0); auto.
Qed.

Lemma eval_int_R : forall s1 s2 e, R (vars e) s1 s2 -> eval_int s1 e = eval_int s2 e.
Proof. intros. unfold eval_int. rewrite (eval_agree e _ _ (R_agree _ _ _ H)); auto. Qed.

Lemma is_zero_R : forall s1 s2 e, R (vars e) s1 s2 -> is_zero s1 e = is_zero s2 e.
Proof. intros. unfold is_zero. rewrite (eval_agree e _ _ (R_agree _ _ _ H)); auto. Qed.

Lemma eval_mapping_R : forall s1 s2 m, R (vars_l (map snd m)) s1 s2 -> eval_mapping s1 m = eval_mapping s2 m.
Proof.
  induction m as [|[k e] m IH]; intros HR; cbn [eval_mapping]; auto.
  cbn in HR. unfold vars_l in HR; cbn in HR. apply R_app in HR as [H1 H2].
  rewrite (eval_agree e _ _ (R_agree _ _ _ H1)), IH; auto.
Qed.

Lemma eager_R : forall s1 s2 m cs, R (vars_l (map snd m) ++ cvars_l cs) s1 s2 -> eager s1 m cs = eager s2 m cs.
Proof.
  intros s1 s2 m cs HR. unfold eager.
  rewrite (subset_R _ (vars_l (map snd m) ++ cvars_l cs) s1 s2 HR); auto.
  pose proof HR as [[HK HI] HA]. rewrite HK. apply R_app in HR as [H1 H2].
  rewrite (validate_R _ _ _ H2), (eval_mapping_R _ _ _ H1); auto.
Qed.

Lemma is_pos_R : forall s1 s2 e, R (vars e) s1 s2 -> is_pos s1 e = is_pos s2 e.
Proof. intros. unfold is_pos. rewrite (eval_agree e _ _ (R_agree _ _ _ H)); auto. Qed.

Lemma closed_all_R : forall s1 s2 es, R (vars_l es) s1 s2 ->
  forallb (res_closed (lookup s1)) es = forallb (res_closed (lookup s2)) es.
Proof.
  induction es as [|e r IH]; intros HR; cbn [forallb]; auto.
  unfold vars_l in HR; cbn in HR. apply R_app in HR as [H1 H2].
  rewrite (res_closed_agree e _ _ (R_agree _ _ _ H1)), IH; auto.
Qed.

Lemma scalar_R : forall s1 s2 es, R (vars_l es) s1 s2 -> scalar s1 es = scalar s2 es.
Proof.
  intros s1 s2 es HR. unfold scalar. destruct es as [|e r]; auto.
  pose proof HR as [[HK [HF HB]] HA]. rewrite HF, (eval_all_R _ _ _ HR); auto.
Qed.

Lemma tdep_R : forall s1 s2 owt dr, R (vars_l (map snd owt)) s1 s2 -> tdep s1 owt dr = tdep s2 owt dr.
Proof.
  intros s1 s2 owt dr HR. unfold tdep. pose proof HR as [[HK [HF HB]] HA]. rewrite HF.
  assert (Hc : forallb (res_closed (lookup s1)) (kept dr owt) = forallb (res_closed (lookup s2)) (kept dr owt)).
  { apply closed_all_R. eapply R_sub; [|exact HR]. apply kept_vars. }
  destruct (kept dr owt); auto. rewrite Hc; auto.
Qed.

Lemma R_kept : forall s1 s2 dr l, R (vars_l (map snd l)) s1 s2 -> R (vars_l (kept dr l)) s1 s2.
Proof. intros. eapply R_sub; [|exact H]. apply kept_vars. Qed.

Lemma R_vars_app : forall s1 s2 a b, R (vars_l a) s1 s2 -> R (vars_l b) s1 s2 -> R (vars_l (a ++ b)) s1 s2.
Proof.
  intros s1 s2 a b [HI Ha] [_ Hb]. split; auto. intros x Hx. unfold vars_l in Hx. rewrite flat_map_app in Hx.
  apply in_app_or in Hx as [Hx|Hx]; auto.
Qed.

Lemma build_atom_R : forall k chs reads dur cs s1 s2 drop,
  R (vars_l reads ++ vars dur ++ cvars_l cs) s1 s2 ->
  build_atom k chs reads dur cs s1 drop = build_atom k chs reads dur cs s2 drop.
Proof.
  intros k chs reads dur cs s1 s2 drop HR. unfold build_atom.
  rewrite (subset_R _ (vars_l reads ++ vars dur ++ cvars_l cs) s1 s2 HR); auto.
  pose proof HR as [[HK [HF HB]] HA]. rewrite HK, HF.
  apply R_app in HR as [Hr H]. apply R_app in H as [Hd Hc].
  rewrite (validate_R _ _ _ Hc), (eval_all_R _ _ _ Hr), (is_zero_R _ _ _ Hd), (is_pos_R _ _ _ Hd),
          (closed_all_R _ _ _ Hr).
  rewrite (eval_all_R s1 s2 (kept drop (combine chs reads))); auto.
  eapply R_sub; [|exact Hr]. apply kept_combine_vars.
Qed.

Lemma fold_or_ext : forall X (f g : X -> result bool) l, (forall x, In x l -> f x = g x) -> fold_or f l = fold_or g l.
Proof.
  induction l as [|q r IH]; intros H; cbn [fold_or]; auto.
  rewrite (H q (or_introl eq_refl)), IH; auto. intros; apply H; right; auto.
Qed.
Lemma fold_unit_ext : forall X (f g : X -> result unit) l, (forall x, In x l -> f x = g x) ->
  fold_unit f l = fold_unit g l.
Proof.
  induction l as [|q r IH]; intros H; cbn [fold_unit]; auto.
  rewrite (H q (or_introl eq_refl)), IH; auto. intros; apply H; right; auto.
Qed.

(* ---- atomic nodes ---- *)
Definition build_R_ok (p : pt) : Prop :=
  wf p -> forall s1 s2 drop, R (pnames p) s1 s2 ->
    build p s1 drop = build p s2 drop /\ meas_at p s1 = meas_at p s2.

Lemma build_R : forall p, build_R_ok p.
Proof.
  induction p using pt_ind'; unfold build_R_ok; intros Hwf s1 s2 drop HR; cbn [pnames] in HR;
    cbn [build meas_at]; auto.
  - apply R_app in HR as [Hr H]. apply R_app in H as [Hd H]. apply R_app in H as [Hm Hc]. split.
    + apply build_atom_R. destruct Hr as [HI Hr]. split; auto. intros x Hx.
      apply in_app_or in Hx as [Hx|Hx]; [apply Hr; auto|].
      apply in_app_or in Hx as [Hx|Hx]; [apply Hd; auto|apply Hc; auto].
    + apply meas_R; auto.
  - apply R_app in HR as [Hm H0]. apply R_app in H0 as [Hc Hs].
    cbn [wf] in Hwf. destruct Hwf as [_ Hwf]. apply wf_subs in Hwf. rewrite Forall_forall in H, Hwf.
    assert (Hq : forall q, In q subs -> build q s1 drop = build q s2 drop /\ meas_at q s1 = meas_at q s2).
    { intros q Hq. apply H; auto. eapply R_sub; [|exact Hs]. apply flat_map_in_sub; auto. }
    split.
    + rewrite (validate_R _ _ _ Hc).
      rewrite (fold_or_ext _ (fun q => build q s1 drop) (fun q => build q s2 drop) subs); auto.
      intros q Hin. apply Hq; auto.
    + rewrite (meas_R _ _ _ Hm).
      rewrite (fold_unit_ext _ (fun q => meas_at q s1) (fun q => meas_at q s2) subs); auto.
      intros q Hin. apply Hq; auto.
  - apply R_app in HR as [Hi Ho]. cbn [wf] in Hwf. destruct (IHp Hwf s1 s2 drop Hi) as [H1 H2].
    split; auto. rewrite H1, (eval_all_R _ _ _ (R_kept _ _ drop _ Ho)); auto.
  - apply R_app in HR as [Hi Ho]. apply R_app in Ho as [Ha Hc]. cbn [wf] in Hwf.
    destruct (IHp Hwf s1 s2 drop Hi) as [H1 H2]. split; auto.
    rewrite H1, (scalar_R s1 s2 (sa ++ kept drop sc)); auto. apply R_vars_app; auto. apply R_kept; auto.
  - rewrite (eager_R _ _ _ _ HR); auto.
  - (* ParT *)
    apply R_app in HR as [Hi Ho]. cbn [wf] in Hwf. destruct (IHp Hwf s1 s2 drop Hi) as [H1 H2].
    split; auto. rewrite H1, (tdep_R _ _ _ drop Ho); auto.
Qed.

(* ---- _create_program ---- *)
Definition run_R_ok (p : pt) : Prop :=
  wf p -> forall s1 s2 drop, R (pnames p) s1 s2 -> run p s1 drop = run p s2 drop.

Lemma run_R : forall p, run_R_ok p.
Proof.
  induction p using pt_ind'; unfold run_R_ok; intros Hwf s1 s2 drop HR.
  - destruct (build_R _ Hwf s1 s2 drop HR) as [H1 H2]. cbn [run]. rewrite H1, H2; auto.
  - destruct (build_R _ Hwf s1 s2 drop HR) as [H1 H2]. cbn [run]. rewrite H1, H2; auto.
  - cbn [pnames] in HR. apply R_app in HR as [Hi Ho]. cbn [wf] in Hwf. cbn [run].
    rewrite (eval_all_R _ _ _ (R_kept _ _ drop _ Ho)), (IHp Hwf s1 s2 drop Hi); auto.
  - cbn [pnames] in HR. apply R_app in HR as [Hi Ho]. apply R_app in Ho as [Ha Hc]. cbn [wf] in Hwf. cbn [run].
    rewrite (scalar_R s1 s2 (sa ++ kept drop sc)), (IHp Hwf s1 s2 drop Hi); auto.
    apply R_vars_app; auto. apply R_kept; auto.
  - cbn [pnames] in HR. apply R_app in HR as [Hc H0]. apply R_app in H0 as [Hm Hs].
    cbn [wf] in Hwf. apply wf_subs in Hwf. rewrite Forall_forall in H, Hwf. cbn [run].
    rewrite (validate_R _ _ _ Hc), (meas_R _ _ _ Hm).
    rewrite (fold_or_ext _ (fun q => run q s1 drop) (fun q => run q s2 drop) subs); auto.
    intros q Hq. apply H; auto. eapply R_sub; [|exact Hs]. apply flat_map_in_sub; auto.
  - cbn [pnames] in HR. apply R_app in HR as [Hb H0]. apply R_app in H0 as [Hc H0]. apply R_app in H0 as [Hm Hn].
    cbn [wf] in Hwf. cbn [run].
    rewrite (validate_R _ _ _ Hc), (eval_int_R _ _ _ Hn), (meas_R _ _ _ Hm), (IHp Hwf s1 s2 drop Hb); auto.
  - cbn [pnames] in HR. apply R_app in HR as [Hb H0]. apply R_app in H0 as [Hr H0]. apply R_app in H0 as [Hc Hm].
    apply R_app in Hr as [Ha Hr]. apply R_app in Hr as [Hb' Hst]. cbn [wf] in Hwf. cbn [run].
    rewrite (validate_R _ _ _ Hc), (eval_int_R _ _ _ Ha), (eval_int_R _ _ _ Hb'), (eval_int_R _ _ _ Hst),
            (meas_R _ _ _ Hm).
    destruct (validate s2 cs); cbn [bind]; auto. destruct (eval_int s2 a); cbn [bind]; auto.
    destruct (eval_int s2 b); cbn [bind]; auto. destruct (eval_int s2 st); cbn [bind]; auto.
    match goal with |- context [?z =? 0] => destruct (z =? 0); auto end. destruct (meas s2 ms); cbn [bind]; auto.
    apply fold_or_ext. intros v _. apply IHp; auto.
    eapply R_range; [exact Hb|]. intros x Hx. destruct (N.eq_dec x i); auto. right. apply remove_id_in; auto.
  - cbn [pnames] in HR. apply R_app in HR as [Hm Hc]. cbn [wf] in Hwf. destruct Hwf as [Hsub Hwf].
    rewrite subset_in in Hsub. cbn [run]. rewrite (validate_R _ _ _ Hc).
    destruct (validate s2 cs); cbn [bind]; auto. apply IHp; auto.
    eapply R_mapped; [exact Hm| |exact Hsub]. auto.
  - (* Ren *) cbn [pnames] in HR. cbn [wf] in Hwf. cbn [run]. apply IHp; auto.
  - (* ParT *) cbn [pnames] in HR. apply R_app in HR as [Hi Ho]. cbn [wf] in Hwf. cbn [run].
    rewrite (tdep_R _ _ _ drop Ho), (IHp Hwf s1 s2 drop Hi); auto.
Qed.

(* clause (b) in full: assignments that agree on the declared names give the same result *)
Lemma irrelevant_full : forall u v1 v2 drop, uok u ->
  (forall x, In x (pnames (construct u)) -> assoc x v1 = assoc x v2) ->
  create_program u v1 drop = create_program u v2 drop.
Proof.
  intros u v1 v2 drop Hu H. unfold create_program.
  apply (run_R (construct u) (construct_wf u Hu)). apply R_dict; auto.
Qed.

(* non-vacuity: an incomplete assignment (declared name 2 absent) and one with another extra name *)
Example ex_incomplete :
  create_program Proofs7.ex_tree [(0%N, 1%Q)] [] = create_program Proofs7.ex_tree [(0%N, 1%Q); (9%N, 5%Q)] [].
Proof. apply irrelevant_full; [exact Proofs7.ex_uok|]. intros x Hx. vm_compute in Hx.
  repeat (destruct Hx as [<-|Hx]; [reflexivity|]). destruct Hx. Qed.
Print Assumptions irrelevant_full.
