(* C03 — round 5 (audit): the helper functions that Model.v and Spec.v share are characterised on their own (no theorem
   before looked inside them, so model and specification could have shared an error there); the guard of the known
   finding is tightened where the unguarded refinement already decides the outcome; the remaining over-approximation
   of the guard is exhibited. *)
From Coq Require Import ZArith QArith Bool List Lia ZifyBool.
Require Import QV.C03.Model QV.C03.Spec QV.C03.Proofs QV.C03.Proofs2 QV.C03.Proofs5 QV.C03.Proofs9.
Import ListNotations.
Ltac Zify.zify_post_hook ::= Z.to_euclidean_division_equations.
Open Scope Z_scope.

(* ---- zrange a b st = list(range(a, b, st)): exactly the values a + k*st, k >= 0, strictly before b in the direction
   of st ---- *)
Lemma zrange_spec : forall a b st v, st <> 0 ->
  (In v (zrange a b st) <-> exists k, 0 <= k /\ v = a + k * st /\ (if 0 <? st then v < b else b < v)).
Proof.
  intros a b st v Hs. unfold zrange. rewrite in_map_iff. split.
  - intros [k [Hv Hk]]. apply in_seq in Hk. exists (Z.of_nat k). split; [lia|]. split; [lia|].
    destruct (0 <? st) eqn:E; nia.
  - intros [k [Hk [Hv Hb]]]. exists (Z.to_nat k). split; [rewrite Z2Nat.id; lia|]. apply in_seq.
    destruct (0 <? st) eqn:E; nia.
Qed.

(* ... in increasing k (the order of the iterations) and without repetition *)
Lemma zrange_nth : forall a b st k, (k < length (zrange a b st))%nat -> nth k (zrange a b st) 0 = a + Z.of_nat k * st.
Proof.
  intros a b st k Hk. unfold zrange in *. rewrite map_length, seq_length in Hk.
  set (f := fun k0 : nat => a + Z.of_nat k0 * st) in *.
  rewrite (nth_indep _ 0 (f 0%nat)) by (rewrite map_length, seq_length; auto).
  rewrite map_nth, seq_nth by auto. reflexivity.
Qed.

(* ---- ren_drop r dr: the inner channels a MappingPT with channel_mapping r hands down as "mapped to None", when dr
   are the outer channels mapped to None: an inner channel without entry keeps its name; one with an entry is dropped
   iff its target is None or a dropped outer channel ---- *)
Lemma ren_drop_spec : forall r dr c,
  In c (ren_drop r dr) <->
  (In c dr /\ assoc c r = None) \/
  (exists t, In (c, t) r /\ match t with Some o => In o dr | None => True end).
Proof.
  intros r dr c. unfold ren_drop. rewrite in_app_iff, filter_In, in_map_iff. split.
  - intros [[H1 H2]|[[c' t] [E H]]].
    + left. split; auto. destruct (assoc c r); [discriminate|reflexivity].
    + right. cbn in E. subst c'. apply filter_In in H. destruct H as [H1 H2]. exists t. split; auto.
      cbn in H2. destruct t; auto. apply mem_in; auto.
  - intros [[H1 H2]|[t [H1 H2]]].
    + left. split; auto. rewrite H2. reflexivity.
    + right. exists (c, t). split; auto. apply filter_In. split; auto. cbn. destruct t; auto. apply mem_in; auto.
Qed.

(* kept dr l: the values of the channels that are not dropped, in order; adrop: every channel of the atom is dropped *)
Lemma kept_spec : forall dr l e, In e (kept dr l) <-> exists c, In (c, e) l /\ ~ In c dr.
Proof.
  intros dr l e. unfold kept. rewrite in_map_iff. split.
  - intros [[c e'] [E H]]. cbn in E. subst e'. apply filter_In in H. destruct H as [H1 H2]. exists c. split; auto.
    cbn in H2. intro Hc. apply mem_in in Hc. rewrite Hc in H2. discriminate.
  - intros [c [H1 H2]]. exists (c, e). split; auto. apply filter_In. split; auto. cbn.
    destruct (mem c dr) eqn:E; auto. apply mem_in in E. contradiction.
Qed.
Lemma adrop_spec : forall chs dr, adrop chs dr = true <-> forall c, In c chs -> In c dr.
Proof.
  intros chs dr. unfold adrop. rewrite forallb_forall. split; intros H c Hc; apply mem_in; auto.
Qed.

(* to_int q = Some z iff q is the integer z *)
Lemma to_int_spec : forall q z, to_int q = Some z -> Qeq q (inject_Z z).
Proof.
  intros q z H. unfold to_int in H. destruct (Pos.eqb (Qden (Qred q)) 1) eqn:E; [|discriminate].
  inversion H; subst; clear H. apply Pos.eqb_eq in E. rewrite <- (Qred_correct q) at 1.
  destruct (Qred q) as [n d]. cbn in *. subst d. unfold Qeq, inject_Z. cbn. lia.
Qed.

(* ---- the guard, tightened: when the ideal verdict is not "missing value" (an earlier obligation is violated or
   ill-formed) the unguarded refinement already forces an error, whatever function atoms come later ---- *)
Lemma first_fail_none : forall l, first_fail l = None -> forallb (fun s => negb (stat_missing s)) l = true.
Proof. induction l as [|s r IH]; cbn; auto. destruct s; cbn; try discriminate. auto. Qed.

Lemma verdict_ok_none_missing : forall p rho drop b, verdict p rho drop = Ok b -> none_missing p rho drop = true.
Proof.
  intros p rho drop b H. unfold verdict, verd in H.
  destruct (first_fail (map ob_stat (obs p rho drop))) eqn:E; [discriminate|].
  unfold none_missing. rewrite (forallb_stat (fun s => negb (stat_missing s))). apply first_fail_none; auto.
Qed.

Lemma user_missing_tight : forall u values drop b, uok u ->
  (guard_C03_function_zero u (lookup (SDict values)) drop = true
   \/ verdict u (lookup (SDict values)) drop <> Err Missing) ->
  none_missing u (lookup (SDict values)) drop = false -> create_program u values drop <> Ok b.
Proof.
  intros u values drop b Hu [Hg|Hv] Hm.
  - apply user_missing; auto.
  - intro Hc. destruct (user_refines_u u values drop Hu) as [H|[H|[H _]]].
    + rewrite Hc in H. symmetry in H. apply verdict_ok_none_missing in H. congruence.
    + congruence.
    + contradiction.
Qed.

(* what is left of the over-approximation: the guard quantifies over ALL obligations in instantiation order, also those
   behind the first failing one.  Here the first sequence member lacks the value of name 3 (ideal verdict and model:
   missing parameter), the vanishing function atom behind it is never reached by the code, yet the guard is false. *)
Definition ex_guard_over : pt :=
  Seq [Atom KTable [7%N] [EVar 3%N; EVar 3%N] (EConst 2) [] []; ex_fzero] [] [].
Example ex_guard_overapprox :
  guard_C03_function_zero ex_guard_over (lookup (SDict [(0%N, 0%Q)])) [] = false
  /\ verdict ex_guard_over (lookup (SDict [(0%N, 0%Q)])) [] = Err Missing
  /\ create_program ex_guard_over [(0%N, 0%Q)] [] = Err Missing.
Proof. repeat split; vm_compute; reflexivity. Qed.
(* ... and an input that only the tightened hypothesis admits: a violated constraint in front of the vanishing atom *)
Definition ex_guard_tight : pt :=
  Seq [Atom KTable [7%N] [EVar 0%N; EVar 0%N] (EConst 2) [Constr OGt (EVar 0%N) (EConst 1)] []; ex_fzero] [] [].
Example ex_missing_tight_nonvacuous :
  guard_C03_function_zero ex_guard_tight (lookup (SDict [(0%N, 0%Q)])) [] = false
  /\ verdict ex_guard_tight (lookup (SDict [(0%N, 0%Q)])) [] = Err Violated
  /\ none_missing ex_guard_tight (lookup (SDict [(0%N, 0%Q)])) [] = false
  /\ create_program ex_guard_tight [(0%N, 0%Q)] [] = Err Violated.
Proof. repeat split; vm_compute; reflexivity. Qed.

(* ---- non-vacuity of the guarded theorems on a tree WITH function atoms (on Proofs7.ex_tree the guard is true only
   because there is no function atom): complete and accepted (C03_constraints_sound), complete and violated with
   well-formed numbers (C03_constraints_reject, C03_violation_justified), a needed name missing that does not vanish
   (C03_missing, C03_refines: the code raises ValueError where the ideal verdict is "missing") ---- *)
Definition ex_fseq : pt :=
  Seq [Atom KFunction [7%N] [EMul (EVar 0%N) (EVar 5%N)] (EConst 2) [Constr OLt (EVar 0%N) (EConst 3)] [];
       Rep ex_fzero (EVar 0%N) [] []] [] [].
Example ex_guarded_nonvacuous :
  uok ex_fseq
  /\ (guard_C03_function_zero ex_fseq (lookup (SDict [(0%N, 1%Q); (5%N, 2%Q)])) [] = true
      /\ create_program ex_fseq [(0%N, 1%Q); (5%N, 2%Q)] [] = Ok true)
  /\ (guard_C03_function_zero ex_fseq (lookup (SDict [(0%N, 4%Q); (5%N, 2%Q)])) [] = true
      /\ all_hold ex_fseq (lookup (SDict [(0%N, 4%Q); (5%N, 2%Q)])) [] = false
      /\ some_other ex_fseq (lookup (SDict [(0%N, 4%Q); (5%N, 2%Q)])) [] = false
      /\ create_program ex_fseq [(0%N, 4%Q); (5%N, 2%Q)] [] = Err Violated)
  /\ (guard_C03_function_zero ex_fseq (lookup (SDict [(0%N, 1%Q)])) [] = true
      /\ none_missing ex_fseq (lookup (SDict [(0%N, 1%Q)])) [] = false
      /\ verdict ex_fseq (lookup (SDict [(0%N, 1%Q)])) [] = Err Missing
      /\ create_program ex_fseq [(0%N, 1%Q)] [] = Err Other).
Proof. split; [cbn; tauto|]. repeat split; vm_compute; reflexivity. Qed.
