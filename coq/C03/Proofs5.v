(* C03 — proofs, part 5: the constructors establish the well-formedness the theorems assume. *)
From Coq Require Import ZArith QArith Bool List Lia.
Require Import QV.C03.Model QV.C03.Spec QV.C03.Proofs QV.C03.Proofs2 QV.C03.Proofs4.
Import ListNotations.
Open Scope Z_scope.

(* user-level precondition: the parts of an AtomicMultiChannelPT are atomic (TypeError otherwise) *)
Fixpoint uok (p : pt) : Prop :=
  match p with
  | Atom _ _ _ _ _ _ => True
  | AMC subs _ _ =>
      forallb atomic subs = true /\
      (fix all (l : list pt) : Prop := match l with [] => True | q :: r => uok q /\ all r end) subs
  | Seq subs _ _ => (fix all (l : list pt) : Prop := match l with [] => True | q :: r => uok q /\ all r end) subs
  | Par inner _ => uok inner
  | Ari inner _ _ => uok inner
  | Rep body _ _ _ => uok body
  | For body _ _ _ _ _ _ => uok body
  | Map inner _ _ => uok inner
  | Ren inner _ => uok inner
  | ParT inner _ => uok inner
  end.

Lemma uok_subs : forall l,
  (fix all (l : list pt) : Prop := match l with [] => True | q :: r => uok q /\ all r end) l <-> Forall uok l.
Proof.
  induction l as [|q r IH]; split; intro H; auto.
  - destruct H as [H1 H2]. constructor; auto. apply IH; auto.
  - inversion H; subst. split; auto. apply IH; auto.
Qed.

Lemma mem_dedup : forall x l, In x (dedup l) <-> In x l.
Proof.
  induction l as [|y l IH]; cbn; [tauto|].
  destruct (mem y l) eqn:E.
  - rewrite IH. split; auto. intros [->|H]; auto. apply mem_in; auto.
  - cbn. rewrite IH. tauto.
Qed.

Lemma complete_keys : forall inner m x, In x (pnames inner) -> In x (map fst (complete_mapping inner m)).
Proof.
  intros inner m x Hx. unfold complete_mapping. rewrite map_app. apply in_or_app.
  destruct (assoc x m) eqn:E.
  - left. apply assoc_some_in in E. apply in_map_iff. exists (x, e); auto.
  - right. rewrite map_map. cbn. rewrite map_id. apply filter_In. split; [apply mem_dedup; auto|].
    rewrite E; auto.
Qed.

Lemma atomic_mk_map : forall inner m cs, atomic (mk_map inner m cs) = atomic inner.
Proof.
  intros inner m cs. unfold mk_map. destruct inner; auto. destruct cs0; auto.
Qed.

Lemma atomic_construct : forall p, atomic (construct p) = atomic p.
Proof.
  induction p using pt_ind'; cbn [construct atomic]; auto.
  - induction H as [|q r Hq Hr IH]; cbn; auto. rewrite Hq, IH; auto.
  - rewrite atomic_mk_map; auto.
Qed.

Lemma wf_mk_map : forall inner m cs, wf inner -> wf (mk_map inner m cs).
Proof.
  intros inner m cs Hwf. unfold mk_map.
  assert (Hgen : wf (Map inner (complete_mapping inner m) cs)).
  { cbn [wf]. split; auto. apply subset_in. intros x Hx. apply complete_keys; auto. }
  destruct inner; auto. destruct cs0; auto.
  cbn [wf] in *. destruct Hwf as [Hs Hw]. split; auto.
  rewrite map_map. cbn. exact Hs.
Qed.

Lemma construct_wf : forall p, uok p -> wf (construct p).
Proof.
  induction p using pt_ind'; cbn [uok construct wf]; intros Hu; auto.
  - destruct Hu as [Ha Hu]. apply uok_subs in Hu. split.
    + rewrite forallb_forall in *. intros q Hq. apply in_map_iff in Hq as [q' [<- Hq']].
      rewrite atomic_construct. auto.
    + apply wf_subs. rewrite Forall_forall in *. intros q Hq. apply in_map_iff in Hq as [q' [<- Hq']]. auto.
  - apply uok_subs in Hu. apply wf_subs. rewrite Forall_forall in *.
    intros q Hq. apply in_map_iff in Hq as [q' [<- Hq']]. auto.
  - apply wf_mk_map; auto.
Qed.

(* ---- top level: create_program with a dictionary of values ---- *)
Lemma dict_covers : forall values X, (forall x, In x X -> In x (map fst values)) -> covers (SDict values) X.
Proof. intros values X H x Hx. cbn. split; auto. apply assoc_in_keys; auto. Qed.

Lemma create_program_sufficient : forall p values drop, uok p ->
  (forall x, In x (pnames (construct p)) -> In x (map fst values)) ->
  create_program p values drop <> Err Missing.
Proof.
  intros p values drop Hu H. unfold create_program.
  apply (run_nm (construct p) (construct_wf p Hu) (SDict values) drop); cbn; auto.
  apply dict_covers; auto.
Qed.

(* with all declared names supplied the model agrees with the ideal verdict, except that a missing *needed* value
   (impossible when the declared names cover the needed ones) would surface as another error *)
Lemma complete_agrees : forall p s drop, wf p -> good s -> covers s (pnames p) ->
  run p s drop = verdict p (lookup s) drop \/ verdict p (lookup s) drop = Err Missing.
Proof.
  intros p s drop Hwf G C. destruct (run_ref_u p Hwf s drop) as [H|[H|[H _]]]; auto.
  exfalso. exact (run_nm p Hwf s drop G C H).
Qed.
