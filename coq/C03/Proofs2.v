(* C03 — proofs, part 2: run refines the ideal verdict (all trees, all scopes). *)
From Coq Require Import ZArith QArith Bool List Lia.
Require Import QV.C03.Model QV.C03.Spec QV.C03.Proofs.
Import ListNotations.
Open Scope Z_scope.

Ltac fin := cbn [bind negb]; auto with c03.

(* ------------------------------------------------------------------------------------------------------------ *)
(* the symbolic residual of an expression that can be evaluated is closed *)
Definition allconst (p : poly) : Prop := forallb (fun t => is_nil (fst t)) p = true.

Lemma padd1_const : forall c p, allconst p -> allconst (padd1 [] c p).
Proof.
  unfold allconst. induction p as [|[m' c'] r IH]; cbn; auto. intros H.
  destruct m' as [|x m']; cbn in H; [|discriminate]. cbn. exact H.
Qed.
Lemma padd_const : forall p q, allconst p -> allconst q -> allconst (padd p q).
Proof.
  unfold padd. induction p as [|[m c] r IH]; cbn; auto. intros q H Hq. unfold allconst in H. cbn in H.
  apply andb_prop in H as [H1 H2]. destruct m; [|discriminate]. apply padd1_const. apply IH; auto.
Qed.
Lemma pscale_const : forall c p, allconst p -> allconst (pscale [] c p).
Proof.
  unfold allconst, pscale. induction p as [|[m c'] r IH]; cbn; auto. intros H.
  destruct m as [|x m]; cbn in H; [|discriminate]. cbn. auto.
Qed.
Lemma pmul_const : forall p q, allconst p -> allconst q -> allconst (pmul p q).
Proof.
  unfold pmul. induction p as [|[m c] r IH]; cbn; auto. intros q H Hq. unfold allconst in H. cbn in H.
  apply andb_prop in H as [H1 H2]. destruct m; [|discriminate]. apply padd_const; [apply pscale_const; auto|apply IH; auto].
Qed.
Lemma pneg_const : forall p, allconst p -> allconst (pneg p).
Proof.
  unfold allconst, pneg. induction p as [|[m c] r IH]; cbn; auto. intros H.
  destruct m as [|x m]; cbn in H; [|discriminate]. cbn. auto.
Qed.
Lemma peval_const : forall rho e q, eval rho e = Some q -> allconst (peval rho e).
Proof.
  induction e; cbn; intros q0 H.
  - reflexivity.
  - rewrite H. reflexivity.
  - destruct (eval rho e1) eqn:E1; [|discriminate]. destruct (eval rho e2) eqn:E2; [|discriminate].
    apply padd_const; eauto.
  - destruct (eval rho e1) eqn:E1; [|discriminate]. destruct (eval rho e2) eqn:E2; [|discriminate].
    apply padd_const; [|apply pneg_const]; eauto.
  - destruct (eval rho e1) eqn:E1; [|discriminate]. destruct (eval rho e2) eqn:E2; [|discriminate].
    apply pmul_const; eauto.
Qed.
Lemma eval_closed : forall rho e q, eval rho e = Some q -> res_closed rho e = true.
Proof.
  intros rho e q H. apply peval_const in H. unfold res_closed, allconst in *.
  rewrite forallb_forall in *. intros t Ht. rewrite (H t Ht). reflexivity.
Qed.

(* ------------------------------------------------------------------------------------------------------------ *)
(* D = "the deviation is allowed": a function expression with a missing name whose residual is closed *)
Definition fdev (D : Prop) (l : list ob) : Prop := forall e r, In (OF e r) l -> vanishes r e = true -> D.

Lemma fdev_app : forall D a b, fdev D (a ++ b) -> fdev D a /\ fdev D b.
Proof. intros D a b H. split; intros e r Hin; apply H; apply in_or_app; auto. Qed.
Lemma fdev_cons : forall D o l, fdev D (o :: l) -> fdev D l.
Proof. intros D o l H e r Hin. apply H. right; auto. Qed.
Lemma fdev_flat_map : forall D X (f : X -> list ob) l, fdev D (flat_map f l) -> forall x, In x l -> fdev D (f x).
Proof. intros D X f l H x Hx e r Hin. apply H. apply in_flat_map. exists x; auto. Qed.
Lemma fdev_abs : forall D l1 l2, map ob_abs l1 = map ob_abs l2 -> fdev D l1 -> fdev D l2.
Proof.
  intros D l1 l2 H H1 e r Hin Hv. apply (in_map ob_abs) in Hin. rewrite <- H in Hin.
  apply in_map_iff in Hin as [o [Ho Hin]]. destruct o; cbn in Ho; try discriminate.
  inversion Ho as [[He Hev Hc]]. subst e0. apply (H1 e rho Hin). unfold vanishes in *. rewrite Hev, Hc. exact Hv.
Qed.
Lemma fdev_False : forall p rho drop, guard_C03_function_zero p rho drop = true -> fdev False (obs p rho drop).
Proof.
  intros p rho drop H e r Hin Hv. unfold guard_C03_function_zero in H. rewrite forallb_forall in H.
  specialize (H _ Hin). cbn in H. rewrite Hv in H. discriminate.
Qed.
Lemma fdev_True : forall l, fdev True l.
Proof. intros l e r _ _. exact Logic.I. Qed.

Lemma refines_ok_inv0 : forall A (x : A) b, refinesD False (Ok x) b -> b = Ok x.
Proof. intros A x b [H|[H|[_ [H|[]]]]]; try discriminate; auto. Qed.

(* constraint validation never deviates *)
Lemma validate_ok : forall s cs, validate s cs = Ok tt -> first_fail (map ob_stat (obs_c (lookup s) cs)) = None.
Proof.
  intros s cs H. pose proof (validate_ref False s cs) as Hv. rewrite H in Hv. apply refines_ok_inv0 in Hv.
  unfold verd in Hv. destruct (first_fail (map ob_stat (obs_c (lookup s) cs))); [discriminate|auto].
Qed.

Section Ref.
Variable D : Prop.
Local Notation refines := (refinesD D).

(* ------------------------------------------------------------------------------------------------------------ *)
(* eager mapping (MappingPT inside an atomic parent) *)
Lemma eval_mapping_err : forall s m e, eval_mapping s m = Err e -> e = Missing.
Proof.
  induction m as [|[k ex] m IH]; cbn; intros e H; [discriminate|].
  destruct (eval (lookup s) ex); [|congruence].
  destruct (eval_mapping s m); cbn in H; [discriminate|]. inversion H; subst. apply IH; auto.
Qed.

Lemma eval_mapping_lookup : forall s m l, eval_mapping s m = Ok l ->
  forall x, assoc x l = match assoc x m with Some e => eval (lookup s) e | None => None end.
Proof.
  induction m as [|[k ex] m IH]; cbn; intros l H x.
  - inversion H; subst; auto.
  - destruct (eval (lookup s) ex) eqn:E; [|discriminate].
    destruct (eval_mapping s m) as [l'|] eqn:E2; cbn in H; [|discriminate]. inversion H; subst. cbn.
    destruct (N.eqb x k); auto.
Qed.

Lemma eager_agree : forall s m l X, eval_mapping s m = Ok l -> (forall x, In x X -> In x (map fst m)) ->
  agree X (lookup (SDict l)) (map_env (lookup s) m).
Proof.
  intros s m l X H Hk x Hx. cbn. unfold map_env. rewrite (eval_mapping_lookup _ _ _ H).
  destruct (assoc x m) eqn:E; auto. exfalso. eapply assoc_in_keys; eauto.
Qed.

Lemma refines_ok_invD : forall A (x : A) b, refines (Ok x) b -> b = Ok x \/ (b = Err Missing /\ D).
Proof. intros A x b [H|[H|[Hb [H|H]]]]; try discriminate; auto. Qed.

Lemma eager_ref : forall B s m cs (f : scope -> result B) K,
  (forall l, eval_mapping s m = Ok l -> validate s cs = Ok tt -> refines (f (SDict l)) K) ->
  refines (bind (eager s m cs) f) (verd (obs_c (lookup s) cs) K).
Proof.
  intros B s m cs f K H. unfold eager.
  destruct (keys_ok s); fin.
  destruct (subset _ (skeys s)); fin.
  pose proof (validate_ref D s cs) as Hv.
  destruct (validate s cs) as [[]|e] eqn:Ev.
  - unfold verd in *. rewrite (validate_ok _ _ Ev).
    cbn [bind]. destruct (eval_mapping s m) as [l|e] eqn:Em.
    + cbn [bind]. auto.
    + apply eval_mapping_err in Em. subst. fin.
  - cbn [bind]. change (Err e) with (bind (@Err unit e) (fun _ => K)).
    eapply bind_ref; [exact Hv|apply refines_refl].
Qed.

Lemma eager_ok : forall s m cs s', eager s m cs = Ok s' ->
  exists l, s' = SDict l /\ eval_mapping s m = Ok l /\ validate s cs = Ok tt.
Proof.
  intros s m cs s' H. unfold eager in H.
  destruct (keys_ok s); cbn in H; [|discriminate].
  destruct (subset _ (skeys s)); cbn in H; [|discriminate].
  destruct (validate s cs) as [[]|]; cbn in H; [|discriminate].
  destruct (eval_mapping s m) as [l|]; cbn in H; [|discriminate].
  inversion H; subst. exists l; auto.
Qed.

(* transport along status-equal obligation lists *)
Lemma verd_stat_eq : forall A (l1 l2 : list ob) (k : result A),
  map ob_stat l1 = map ob_stat l2 -> verd l1 k = verd l2 k.
Proof. intros. unfold verd. rewrite H; auto. Qed.

(* ------------------------------------------------------------------------------------------------------------ *)
(* atomic nodes *)
Lemma eval_all_exact : forall s es,
  (eval_all s es = Ok tt /\ first_fail (map ob_stat (obs_r (lookup s) es)) = None)
  \/ (eval_all s es = Err Missing /\ first_fail (map ob_stat (obs_r (lookup s) es)) = Some Missing).
Proof.
  induction es as [|e r IH]; cbn; auto.
  destruct (eval (lookup s) e); cbn; auto.
Qed.

Lemma is_pos_ref : forall B s e (f : bool -> result B) (K : result B),
  (eval (lookup s) e <> None -> refines (f (positive (lookup s) e)) K) ->
  refines (bind (is_pos s e) f) (verd [OR e (lookup s)] K).
Proof.
  intros B s e f K H. unfold is_pos, verd, positive in *. cbn [map first_fail ob_stat].
  destruct (eval (lookup s) e) as [q|]; cbn; auto with c03. apply H. discriminate.
Qed.

Lemma scalar_ref : forall s es, refines (scalar s es) (verd (obs_r (lookup s) es) (Ok tt)).
Proof.
  intros s es. unfold scalar. destruct es as [|e r]; [apply refines_refl|].
  destruct (forced_ok s); fin. apply eval_all_ref.
Qed.

(* the expression of a function atom: the only place where the code deviates *)
Lemma func_reads_ref : forall rho reads, fdev D (obs_f rho reads) ->
  refines (if forallb (res_closed rho) reads then Ok true else Err Other) (verd (obs_f rho reads) (Ok true)).
Proof.
  induction reads as [|e r IH]; intros HD; cbn [forallb obs_f map]; [apply refines_refl|].
  fold (obs_f rho r). rewrite verd_cons. unfold verd at 1. cbn [map first_fail ob_stat].
  destruct (eval rho e) as [q|] eqn:E.
  - rewrite (eval_closed _ _ _ E). cbn [andb]. apply IH. eapply fdev_cons; eauto.
  - destruct (res_closed rho e) eqn:Ec; cbn [andb].
    + right; right. split; auto. right. apply (HD e rho); [left; auto|]. unfold vanishes. rewrite Ec, E. reflexivity.
    + right; right. auto.
Qed.

Lemma func_reads_ref_g : forall B (v : B) rho reads, fdev D (obs_f rho reads) ->
  refines (if forallb (res_closed rho) reads then Ok v else Err Other) (verd (obs_f rho reads) (Ok v)).
Proof.
  intros B v rho. induction reads as [|e r IH]; intros HD; cbn [forallb obs_f map]; [apply refines_refl|].
  fold (obs_f rho r). rewrite verd_cons. unfold verd at 1. cbn [map first_fail ob_stat].
  destruct (eval rho e) as [q|] eqn:E.
  - rewrite (eval_closed _ _ _ E). cbn [andb]. apply IH. eapply fdev_cons; eauto.
  - destruct (res_closed rho e) eqn:Ec; cbn [andb].
    + right; right. split; auto. right. apply (HD e rho); [left; auto|]. unfold vanishes. rewrite Ec, E. reflexivity.
    + right; right. auto.
Qed.

(* the time dependent values of a ParallelChannelPT: the same deviation as in a function atom *)
Lemma tdep_ref : forall s owt drop, fdev D (obs_f (lookup s) (kept drop owt)) ->
  refines (tdep s owt drop) (verd (obs_f (lookup s) (kept drop owt)) (Ok tt)).
Proof.
  intros s owt drop HD. unfold tdep.
  destruct (kept drop owt) as [|e es] eqn:Ek; [apply refines_refl|].
  destruct (forced_ok s); fin.
  apply func_reads_ref_g; auto.
Qed.

Lemma build_atom_ref : forall k chs reads dur cs s drop,
  fdev D (obs_build (Atom k chs reads dur cs []) (lookup s) drop) ->
  refines (build_atom k chs reads dur cs s drop)
          (verd (obs_build (Atom k chs reads dur cs []) (lookup s) drop)
                (Ok (atom_wave k dur (lookup s) (adrop chs drop)))).
Proof.
  intros k chs reads dur cs s drop HD. unfold build_atom. cbn [obs_build] in *. rewrite verd_app.
  apply fdev_app in HD as [_ HD].
  eapply bind_ref; [apply validate_ref|].
  destruct k.
  - (* table *)
    destruct (keys_ok s); fin. destruct (subset _ (skeys s)); fin.
    rewrite verd_app. eapply bind_ref; [apply eval_all_ref|].
    apply is_zero_ref. intros _. cbv beta. unfold atom_wave. rewrite negb_involutive.
    rewrite andb_comm. apply refines_refl.
  - (* point *)
    unfold atom_wave. destruct (adrop chs drop); cbn [negb andb]; [apply refines_refl|].
    rewrite verd_cons. apply is_zero_ref. intros _. cbv beta.
    destruct (nonzero (lookup s) dur); cbn [negb].
    + eapply bind_ref; [apply eval_all_ref|apply refines_refl].
    + apply refines_refl.
  - (* function *)
    unfold atom_wave. destruct (adrop chs drop); cbn [negb]; [apply refines_refl|].
    destruct (forced_ok s); fin.
    rewrite verd_cons. apply is_zero_ref. intros _.
    apply func_reads_ref. eapply fdev_cons; eauto.
  - (* constant *)
    unfold atom_wave. rewrite verd_cons. apply is_pos_ref. intros _.
    destruct (positive (lookup s) dur).
    + rewrite andb_true_r. eapply bind_ref; [apply eval_all_ref|apply refines_refl].
    + rewrite andb_false_r. apply refines_refl.
Qed.

(* ------------------------------------------------------------------------------------------------------------ *)
(* list loops *)
Lemma fold_or_ref : forall X (f : X -> result bool) (obsf : X -> list ob) (wv : X -> bool) l,
  (forall x, In x l -> refines (f x) (verd (obsf x) (Ok (wv x)))) ->
  refines (fold_or f l) (verd (flat_map obsf l) (Ok (existsb wv l))).
Proof.
  induction l as [|q r IH]; intros H; cbn [fold_or flat_map existsb].
  - apply refines_refl.
  - rewrite verd_app. eapply bind_ref; [apply H; left; auto|].
    eapply bind_ref; [apply IH; intros; apply H; right; auto|apply refines_refl].
Qed.

Lemma fold_unit_ref : forall X (f : X -> result unit) (obsf : X -> list ob) l,
  (forall x, In x l -> refines (f x) (verd (obsf x) (Ok tt))) ->
  refines (fold_unit f l) (verd (flat_map obsf l) (Ok tt)).
Proof.
  induction l as [|q r IH]; intros H; cbn [fold_unit flat_map].
  - apply refines_refl.
  - rewrite verd_app. eapply bind_ref; [apply H; left; auto|]. apply IH; intros; apply H; right; auto.
Qed.

Lemma fold_or_ok : forall X (f : X -> result bool) l w, fold_or f l = Ok w -> forall x, In x l -> exists w', f x = Ok w'.
Proof.
  induction l as [|q r IH]; intros w H x Hx; [destruct Hx|].
  cbn [fold_or] in H. destruct (f q) as [wq|] eqn:Eq; cbn [bind] in H; [|discriminate].
  destruct (fold_or f r) as [wr|] eqn:Er; cbn [bind] in H; [|discriminate].
  destruct Hx as [<-|Hx]; eauto.
Qed.

(* ------------------------------------------------------------------------------------------------------------ *)
(* build_waveform / get_measurement_windows of atomic nodes *)
Definition build_ok (p : pt) : Prop :=
  wf p -> atomic p = true -> forall s drop, fdev D (obs_build p (lookup s) drop) ->
    refines (build p s drop) (verd (obs_build p (lookup s) drop) (Ok (wave p (lookup s) drop))).

Lemma build_ref : forall p, build_ok p.
Proof.
  induction p using pt_ind'; unfold build_ok; intros Hwf Hat s drop HD; cbn [atomic] in Hat; try discriminate.
  - exact (build_atom_ref k chs reads dur cs s drop HD).
  - cbn [build obs_build wave] in *. rewrite verd_app. eapply bind_ref; [apply validate_ref|].
    apply fdev_app in HD as [_ HD].
    cbn [wf] in Hwf. destruct Hwf as [_ Hwf]. apply wf_subs in Hwf.
    apply fold_or_ref with (f := fun q => build q s drop) (obsf := fun q => obs_build q (lookup s) drop)
                           (wv := fun q => wave q (lookup s) drop).
    intros q Hq. rewrite Forall_forall in H, Hwf. apply H; auto.
    + rewrite forallb_forall in Hat. auto.
    + eapply fdev_flat_map in HD; eauto.
  - (* Par (below an atomic composite) *)
    cbn [build obs_build wave] in *. cbn [wf] in Hwf. rewrite verd_app. apply fdev_app in HD as [HD _].
    eapply bind_ref'; [apply IHp; auto|]. intros _.
    destruct (wave p (lookup s) drop); [|apply refines_refl].
    eapply bind_ref; [apply eval_all_ref|apply refines_refl].
  - (* Ari *)
    cbn [build obs_build wave] in *. cbn [wf] in Hwf. rewrite verd_app. apply fdev_app in HD as [HD _].
    eapply bind_ref'; [apply IHp; auto|]. intros _.
    destruct (wave p (lookup s) drop); [|apply refines_refl].
    eapply bind_ref; [apply scalar_ref|apply refines_refl].
  - cbn [build obs_build wave] in *. cbn [wf] in Hwf. destruct Hwf as [Hsub Hwf].
    rewrite verd_app. apply fdev_app in HD as [_ HD]. apply eager_ref. intros l Hl Hv.
    destruct (atomic_coincidence_a p Hwf (lookup (SDict l)) (map_env (lookup s) m) drop) as [C1 [C2 C3]].
    { eapply eager_agree; eauto. apply subset_in; auto. }
    assert (HD' : fdev D (obs_build p (lookup (SDict l)) drop)) by (eapply fdev_abs; [symmetry; exact C1|exact HD]).
    specialize (IHp Hwf Hat (SDict l) drop HD').
    rewrite <- (verd_stat_eq _ _ _ _ (eq_trans (map_stat_abs _) (eq_trans (f_equal (map astat) C1) (eq_sym (map_stat_abs _))))), <- C2.
    exact IHp.
  - (* Ren *)
    cbn [build obs_build wave] in *. cbn [wf] in Hwf. apply IHp; auto.
  - (* ParT *)
    cbn [build obs_build wave] in *. cbn [wf] in Hwf. rewrite verd_app. apply fdev_app in HD as [HD HD2].
    eapply bind_ref'; [apply IHp; auto|]. intros _.
    destruct (wave p (lookup s) drop); [|apply refines_refl].
    eapply bind_ref; [apply tdep_ref; auto|apply refines_refl].
Qed.

Definition meas_at_ok (p : pt) : Prop :=
  wf p -> atomic p = true -> forall s drop w, build p s drop = Ok w ->
    refines (meas_at p s) (verd (obs_meas p (lookup s)) (Ok tt)).

Lemma meas_at_ref : forall p, meas_at_ok p.
Proof.
  induction p using pt_ind'; unfold meas_at_ok; intros Hwf Hat s drop w Hb; cbn [atomic] in Hat; try discriminate.
  - cbn [meas_at obs_meas]. apply meas_ref.
  - cbn [meas_at obs_meas]. rewrite verd_app. eapply bind_ref; [apply meas_ref|].
    cbn [wf] in Hwf. destruct Hwf as [_ Hwf]. apply wf_subs in Hwf.
    cbn [build] in Hb. destruct (validate s cs) as [[]|]; cbn [bind] in Hb; [|discriminate].
    apply fold_unit_ref with (f := fun q => meas_at q s) (obsf := fun q => obs_meas q (lookup s)).
    intros q Hq. rewrite Forall_forall in H, Hwf. rewrite forallb_forall in Hat.
    destruct (fold_or_ok _ _ _ _ Hb q Hq) as [w' Hw']. eapply H; eauto.
  - (* Par *)
    cbn [meas_at obs_meas]. cbn [wf] in Hwf. cbn [build] in Hb.
    destruct (build p s drop) as [w'|] eqn:Eb; cbn [bind] in Hb; [|discriminate]. eapply IHp; eauto.
  - (* Ari *)
    cbn [meas_at obs_meas]. cbn [wf] in Hwf. cbn [build] in Hb.
    destruct (build p s drop) as [w'|] eqn:Eb; cbn [bind] in Hb; [|discriminate]. eapply IHp; eauto.
  - cbn [meas_at obs_meas]. cbn [wf] in Hwf. destruct Hwf as [Hsub Hwf].
    cbn [build] in Hb. destruct (eager s m cs) as [s'|] eqn:Ee; cbn [bind] in Hb; [|discriminate].
    destruct (eager_ok _ _ _ _ Ee) as [l [-> [Hl Hv]]]. cbn [bind].
    destruct (atomic_coincidence p Hwf (lookup (SDict l)) (map_env (lookup s) m) drop) as [C1 [C2 C3]].
    { eapply eager_agree; eauto. apply subset_in; auto. }
    rewrite <- (verd_stat_eq _ _ _ _ C3). eapply IHp; eauto.
  - (* Ren *)
    cbn [meas_at obs_meas]. cbn [wf] in Hwf. cbn [build] in Hb. eapply IHp; eauto.
  - (* ParT *)
    cbn [meas_at obs_meas]. cbn [wf] in Hwf. cbn [build] in Hb.
    destruct (build p s drop) as [w'|] eqn:Eb; cbn [bind] in Hb; [|discriminate]. eapply IHp; eauto.
Qed.

(* ------------------------------------------------------------------------------------------------------------ *)
(* _create_program *)
Lemma run_atomic_ref : forall p s drop, wf p -> atomic p = true -> fdev D (obs_build p (lookup s) drop) ->
  refines (bind (build p s drop) (fun w => if w then bind (meas_at p s) (fun _ => Ok true) else Ok false))
          (verd (obs_build p (lookup s) drop ++ (if wave p (lookup s) drop then obs_meas p (lookup s) else []))
                (Ok (wave p (lookup s) drop))).
Proof.
  intros p s drop Hwf Hat HD. rewrite verd_app.
  pose proof (build_ref p Hwf Hat s drop HD) as Hb.
  destruct (build p s drop) as [w|e] eqn:Eb.
  - apply refines_ok_invD in Hb. unfold verd at 1. unfold verd in Hb.
    destruct (first_fail (map ob_stat (obs_build p (lookup s) drop))).
    + destruct Hb as [Hb|[Hb HD']]; [discriminate|]. right; right. auto.
    + destruct Hb as [Hb|[Hb HD']]; [|discriminate].
      inversion Hb as [Hw]. cbn [bind]. clear Hb.
      destruct (wave p (lookup s) drop) eqn:Ew; subst w.
      * eapply bind_ref; [eapply meas_at_ref; eauto|apply refines_refl].
      * apply refines_refl.
  - cbn [bind].
    change (@Err bool e) with (bind (@Err bool e)
       (fun _ => verd (if wave p (lookup s) drop then obs_meas p (lookup s) else []) (Ok (wave p (lookup s) drop)))).
    eapply bind_ref; [exact Hb|apply refines_refl].
Qed.

Definition run_ok (p : pt) : Prop :=
  wf p -> forall s drop, fdev D (obs p (lookup s) drop) -> refines (run p s drop) (verdict p (lookup s) drop).

Lemma run_ref_D : forall p, run_ok p.
Proof.
  induction p using pt_ind'; unfold run_ok, verdict; intros Hwf s drop HD.
  - (* Atom *) apply run_atomic_ref; auto. cbn [obs] in HD. apply fdev_app in HD as [HD _]. auto.
  - (* AMC *) apply run_atomic_ref; auto; [cbn [wf] in Hwf; cbn [atomic]; tauto|].
    cbn [obs] in HD. apply fdev_app in HD as [HD _]. auto.
  - (* Par *)
    cbn [run obs plays] in *. rewrite verd_app. cbn [wf] in Hwf. apply fdev_app in HD as [_ HD].
    eapply bind_ref; [apply eval_all_ref|]. apply IHp; auto.
  - (* Ari *)
    cbn [run obs plays] in *. rewrite verd_app. cbn [wf] in Hwf. apply fdev_app in HD as [_ HD].
    eapply bind_ref; [apply scalar_ref|]. apply IHp; auto.
  - (* Seq *)
    cbn [run obs plays] in *. rewrite !verd_app. eapply bind_ref; [apply validate_ref|].
    eapply bind_ref; [apply meas_ref|].
    apply fdev_app in HD as [_ HD]. apply fdev_app in HD as [_ HD].
    cbn [wf] in Hwf. apply wf_subs in Hwf. rewrite Forall_forall in H, Hwf.
    apply fold_or_ref with (f := fun q => run q s drop) (obsf := fun q => obs q (lookup s) drop)
                           (wv := fun q => plays q (lookup s) drop).
    intros q Hq. apply H; auto. eapply fdev_flat_map in HD; eauto.
  - (* Rep *)
    cbn [run obs plays] in *. rewrite verd_app. eapply bind_ref; [apply validate_ref|]. cbn [wf] in Hwf.
    apply fdev_app in HD as [_ HD]. apply fdev_cons in HD.
    rewrite verd_cons. apply eval_int_ref. intros n Hn. rewrite Hn in *.
    destruct (0 <? n).
    + rewrite verd_app. eapply bind_ref; [apply meas_ref|]. apply fdev_app in HD as [_ HD]. apply IHp; auto.
    + apply refines_refl.
  - (* For *)
    cbn [run obs plays] in *. rewrite verd_app. eapply bind_ref; [apply validate_ref|]. cbn [wf] in Hwf.
    apply fdev_app in HD as [_ HD]. do 3 apply fdev_cons in HD.
    rewrite verd_cons. apply eval_int_ref. intros a' Ha.
    rewrite verd_cons. apply eval_int_ref. intros b' Hb.
    rewrite verd_cons. apply eval_nz_ref. intros st' Hst Hnz.
    unfold range_of in *. rewrite Ha, Hb, Hst in *. destruct (Z.eqb_spec st' 0); [contradiction|].
    rewrite verd_app. eapply bind_ref; [apply meas_ref|]. apply fdev_app in HD as [_ HD].
    apply fold_or_ref with (f := fun v => run p (SRange s i v) drop)
                           (obsf := fun v => obs p (upd (lookup s) i (inject_Z v)) drop)
                           (wv := fun v => plays p (upd (lookup s) i (inject_Z v)) drop).
    intros v Hv. apply (IHp Hwf (SRange s i v) drop). cbn [lookup].
    eapply fdev_flat_map in HD; eauto.
  - (* Map *)
    cbn [run obs plays] in *. rewrite verd_app. eapply bind_ref; [apply validate_ref|]. cbn [wf] in Hwf.
    apply fdev_app in HD as [_ HD].
    apply (IHp (proj2 Hwf) (SMapped s m) drop). exact HD.
  - (* Ren *)
    cbn [run obs plays] in *. cbn [wf] in Hwf. apply IHp; auto.
  - (* ParT *)
    cbn [run obs plays] in *. rewrite verd_app. cbn [wf] in Hwf. apply fdev_app in HD as [HD1 HD].
    eapply bind_ref; [apply tdep_ref; auto|]. apply IHp; auto.
Qed.
End Ref.

(* with the guard: the original refinement; without: where the ideal verdict is "missing" the code may do anything *)
Lemma run_ref : forall p, wf p -> forall s drop, guard_C03_function_zero p (lookup s) drop = true ->
  refines (run p s drop) (verdict p (lookup s) drop).
Proof. intros p Hwf s drop Hg. apply (run_ref_D False p Hwf s drop). apply fdev_False; auto. Qed.

Lemma run_ref_u : forall p, wf p -> forall s drop, refines_u (run p s drop) (verdict p (lookup s) drop).
Proof. intros p Hwf s drop. apply (run_ref_D True p Hwf s drop). apply fdev_True. Qed.

Lemma refines_ok_inv : forall A (x : A) b, refines (Ok x) b -> b = Ok x.
Proof. exact refines_ok_inv0. Qed.
