(* C03 — proofs, part 2: run refines the ideal verdict (all trees, all scopes). *)
From Coq Require Import ZArith QArith Bool List Lia.
Require Import QV.C03.Model QV.C03.Spec QV.C03.Proofs.
Import ListNotations.
Open Scope Z_scope.

Ltac fin := cbn [bind negb]; auto with c03.

(* ------------------------------------------------------------------------------------------------------------ *)
(* eager mapping (MappingPT inside an atomic parent) *)
Lemma eval_mapping_err : forall s m e, eval_mapping s m = Err e -> e = Missing.
Proof.
  induction m as [|[k ex] m IH]; cbn; intros e H; [discriminate|].
  destruct (eval (lookup s) ex); [|congruence].
  destruct (eval_mapping s m); cbn in H; [discriminate|]. inversion H; subst. apply IH; auto.
Qed.

Lemma eval_mapping_lookup : forall s m l, eval_mapping s m = Ok l ->
  forall x, assoc x l = match assoc x m with Some e => eval (lookup s) e | None => None end.
Proof.
  induction m as [|[k ex] m IH]; cbn; intros l H x.
  - inversion H; subst; auto.
  - destruct (eval (lookup s) ex) eqn:E; [|discriminate].
    destruct (eval_mapping s m) as [l'|] eqn:E2; cbn in H; [|discriminate]. inversion H; subst. cbn.
    destruct (N.eqb x k); auto.
Qed.

Lemma eager_agree : forall s m l X, eval_mapping s m = Ok l -> (forall x, In x X -> In x (map fst m)) ->
  agree X (lookup (SDict l)) (map_env (lookup s) m).
Proof.
  intros s m l X H Hk x Hx. cbn. unfold map_env. rewrite (eval_mapping_lookup _ _ _ H).
  destruct (assoc x m) eqn:E; auto. exfalso. eapply assoc_in_keys; eauto.
Qed.

Lemma refines_ok_inv : forall A (x : A) b, refines (Ok x) b -> b = Ok x.
Proof. intros A x b [H|[H|[_ H]]]; try discriminate; auto. Qed.

Lemma eager_ref : forall B s m cs (f : scope -> result B) K,
  (forall l, eval_mapping s m = Ok l -> validate s cs = Ok tt -> refines (f (SDict l)) K) ->
  refines (bind (eager s m cs) f) (verd (obs_c (lookup s) cs) K).
Proof.
  intros B s m cs f K H. unfold eager.
  destruct (keys_ok s); fin.
  destruct (subset _ (skeys s)); fin.
  pose proof (validate_ref s cs) as Hv.
  destruct (validate s cs) as [[]|e] eqn:Ev.
  - apply refines_ok_inv in Hv. unfold verd in *.
    destruct (first_fail (map ob_stat (obs_c (lookup s) cs))); [discriminate|].
    cbn [bind]. destruct (eval_mapping s m) as [l|e] eqn:Em.
    + cbn [bind]. auto.
    + apply eval_mapping_err in Em. subst. fin.
  - cbn [bind]. change (Err e) with (bind (@Err unit e) (fun _ => K)).
    eapply bind_ref; [exact Hv|apply refines_refl].
Qed.

Lemma eager_ok : forall s m cs s', eager s m cs = Ok s' ->
  exists l, s' = SDict l /\ eval_mapping s m = Ok l /\ validate s cs = Ok tt.
Proof.
  intros s m cs s' H. unfold eager in H.
  destruct (keys_ok s); cbn in H; [|discriminate].
  destruct (subset _ (skeys s)); cbn in H; [|discriminate].
  destruct (validate s cs) as [[]|]; cbn in H; [|discriminate].
  destruct (eval_mapping s m) as [l|]; cbn in H; [|discriminate].
  inversion H; subst. exists l; auto.
Qed.

(* transport along status-equal obligation lists *)
Lemma verd_stat_eq : forall A (l1 l2 : list ob) (k : result A),
  map ob_stat l1 = map ob_stat l2 -> verd l1 k = verd l2 k.
Proof. intros. unfold verd. rewrite H; auto. Qed.

(* ------------------------------------------------------------------------------------------------------------ *)
(* atomic nodes *)
Lemma eval_all_exact : forall s es,
  (eval_all s es = Ok tt /\ first_fail (map ob_stat (obs_r (lookup s) es)) = None)
  \/ (eval_all s es = Err Missing /\ first_fail (map ob_stat (obs_r (lookup s) es)) = Some Missing).
Proof.
  induction es as [|e r IH]; cbn; auto.
  destruct (eval (lookup s) e); cbn; auto.
Qed.

Lemma build_atom_ref : forall k reads dur cs s drop,
  refines (build_atom k reads dur cs s drop)
          (verd (obs_build (Atom k reads dur cs []) (lookup s) drop) (Ok (atom_wave k dur (lookup s) drop))).
Proof.
  intros. unfold build_atom. cbn [obs_build]. rewrite verd_app.
  eapply bind_ref; [apply validate_ref|].
  destruct k.
  - (* table *)
    destruct (keys_ok s); fin. destruct (subset _ (skeys s)); fin.
    rewrite verd_app. eapply bind_ref; [apply eval_all_ref|].
    apply is_zero_ref. intros _. cbv beta. unfold atom_wave. rewrite negb_involutive.
    rewrite andb_comm. apply refines_refl.
  - (* point *)
    unfold atom_wave. destruct drop; cbn [negb andb]; [apply refines_refl|].
    rewrite verd_cons. apply is_zero_ref. intros _. cbv beta.
    destruct (nonzero (lookup s) dur); cbn [negb].
    + eapply bind_ref; [apply eval_all_ref|apply refines_refl].
    + apply refines_refl.
  - (* function *)
    unfold atom_wave. destruct drop; cbn [negb]; [apply refines_refl|].
    destruct (forced_ok s); fin.
    rewrite verd_cons. apply is_zero_ref. intros _.
    destruct (eval_all_exact s reads) as [[H1 H2]|[H1 H2]]; rewrite H1; unfold verd; rewrite H2.
    + apply refines_refl.
    + right; right; auto.
Qed.

(* ------------------------------------------------------------------------------------------------------------ *)
(* list loops *)
Lemma fold_or_ref : forall X (f : X -> result bool) (obsf : X -> list ob) (wv : X -> bool) l,
  (forall x, In x l -> refines (f x) (verd (obsf x) (Ok (wv x)))) ->
  refines (fold_or f l) (verd (flat_map obsf l) (Ok (existsb wv l))).
Proof.
  induction l as [|q r IH]; intros H; cbn [fold_or flat_map existsb].
  - apply refines_refl.
  - rewrite verd_app. eapply bind_ref; [apply H; left; auto|].
    eapply bind_ref; [apply IH; intros; apply H; right; auto|apply refines_refl].
Qed.

Lemma fold_unit_ref : forall X (f : X -> result unit) (obsf : X -> list ob) l,
  (forall x, In x l -> refines (f x) (verd (obsf x) (Ok tt))) ->
  refines (fold_unit f l) (verd (flat_map obsf l) (Ok tt)).
Proof.
  induction l as [|q r IH]; intros H; cbn [fold_unit flat_map].
  - apply refines_refl.
  - rewrite verd_app. eapply bind_ref; [apply H; left; auto|]. apply IH; intros; apply H; right; auto.
Qed.

Lemma fold_or_ok : forall X (f : X -> result bool) l w, fold_or f l = Ok w -> forall x, In x l -> exists w', f x = Ok w'.
Proof.
  induction l as [|q r IH]; intros w H x Hx; [destruct Hx|].
  cbn [fold_or] in H. destruct (f q) as [wq|] eqn:Eq; cbn [bind] in H; [|discriminate].
  destruct (fold_or f r) as [wr|] eqn:Er; cbn [bind] in H; [|discriminate].
  destruct Hx as [<-|Hx]; eauto.
Qed.

(* ------------------------------------------------------------------------------------------------------------ *)
(* build_waveform / get_measurement_windows of atomic nodes *)
Definition build_ok (p : pt) : Prop :=
  wf p -> atomic p = true -> forall s drop,
    refines (build p s drop) (verd (obs_build p (lookup s) drop) (Ok (wave p (lookup s) drop))).

Lemma build_ref : forall p, build_ok p.
Proof.
  induction p using pt_ind'; unfold build_ok; intros Hwf Hat s drop; cbn [atomic] in Hat; try discriminate.
  - exact (build_atom_ref k reads dur cs s drop).
  - cbn [build obs_build wave]. rewrite verd_app. eapply bind_ref; [apply validate_ref|].
    cbn [wf] in Hwf. destruct Hwf as [_ Hwf]. apply wf_subs in Hwf.
    apply fold_or_ref with (f := fun q => build q s drop) (obsf := fun q => obs_build q (lookup s) drop)
                           (wv := fun q => wave q (lookup s) drop).
    intros q Hq. rewrite Forall_forall in H, Hwf. apply H; auto.
    rewrite forallb_forall in Hat. auto.
  - cbn [build obs_build wave]. cbn [wf] in Hwf. destruct Hwf as [Hsub Hwf].
    rewrite verd_app. apply eager_ref. intros l Hl Hv.
    specialize (IHp Hwf Hat (SDict l) drop).
    destruct (atomic_coincidence p Hwf (lookup (SDict l)) (map_env (lookup s) m) drop) as [C1 [C2 C3]].
    { eapply eager_agree; eauto. apply subset_in; auto. }
    rewrite <- (verd_stat_eq _ _ _ _ C1), <- C2. exact IHp.
Qed.

Definition meas_at_ok (p : pt) : Prop :=
  wf p -> atomic p = true -> forall s drop w, build p s drop = Ok w ->
    refines (meas_at p s) (verd (obs_meas p (lookup s)) (Ok tt)).

Lemma meas_at_ref : forall p, meas_at_ok p.
Proof.
  induction p using pt_ind'; unfold meas_at_ok; intros Hwf Hat s drop w Hb; cbn [atomic] in Hat; try discriminate.
  - cbn [meas_at obs_meas]. apply meas_ref.
  - cbn [meas_at obs_meas]. rewrite verd_app. eapply bind_ref; [apply meas_ref|].
    cbn [wf] in Hwf. destruct Hwf as [_ Hwf]. apply wf_subs in Hwf.
    cbn [build] in Hb. destruct (validate s cs) as [[]|]; cbn [bind] in Hb; [|discriminate].
    apply fold_unit_ref with (f := fun q => meas_at q s) (obsf := fun q => obs_meas q (lookup s)).
    intros q Hq. rewrite Forall_forall in H, Hwf. rewrite forallb_forall in Hat.
    destruct (fold_or_ok _ _ _ _ Hb q Hq) as [w' Hw']. eapply H; eauto.
  - cbn [meas_at obs_meas]. cbn [wf] in Hwf. destruct Hwf as [Hsub Hwf].
    cbn [build] in Hb. destruct (eager s m cs) as [s'|] eqn:Ee; cbn [bind] in Hb; [|discriminate].
    destruct (eager_ok _ _ _ _ Ee) as [l [-> [Hl Hv]]]. cbn [bind].
    destruct (atomic_coincidence p Hwf (lookup (SDict l)) (map_env (lookup s) m) drop) as [C1 [C2 C3]].
    { eapply eager_agree; eauto. apply subset_in; auto. }
    rewrite <- (verd_stat_eq _ _ _ _ C3). eapply IHp; eauto.
Qed.

(* ------------------------------------------------------------------------------------------------------------ *)
(* _create_program *)
Lemma run_atomic_ref : forall p s drop, wf p -> atomic p = true ->
  refines (bind (build p s drop) (fun w => if w then bind (meas_at p s) (fun _ => Ok true) else Ok false))
          (verd (obs_build p (lookup s) drop ++ (if wave p (lookup s) drop then obs_meas p (lookup s) else []))
                (Ok (wave p (lookup s) drop))).
Proof.
  intros p s drop Hwf Hat. rewrite verd_app.
  pose proof (build_ref p Hwf Hat s drop) as Hb.
  destruct (build p s drop) as [w|e] eqn:Eb.
  - apply refines_ok_inv in Hb. unfold verd at 1. unfold verd in Hb.
    destruct (first_fail (map ob_stat (obs_build p (lookup s) drop))); [discriminate|].
    inversion Hb as [Hw]. cbn [bind]. clear Hb.
    destruct (wave p (lookup s) drop) eqn:Ew; subst w.
    + eapply bind_ref; [eapply meas_at_ref; eauto|apply refines_refl].
    + apply refines_refl.
  - cbn [bind].
    change (@Err bool e) with (bind (@Err bool e)
       (fun _ => verd (if wave p (lookup s) drop then obs_meas p (lookup s) else []) (Ok (wave p (lookup s) drop)))).
    eapply bind_ref; [exact Hb|apply refines_refl].
Qed.

Definition run_ok (p : pt) : Prop :=
  wf p -> forall s drop, refines (run p s drop) (verdict p (lookup s) drop).

Lemma run_ref : forall p, run_ok p.
Proof.
  induction p using pt_ind'; unfold run_ok, verdict; intros Hwf s drop.
  - (* Atom *) apply run_atomic_ref; auto.
  - (* AMC *) apply run_atomic_ref; auto. cbn [wf] in Hwf. cbn [atomic]. tauto.
  - (* Par *)
    cbn [run obs plays]. rewrite verd_app. cbn [wf] in Hwf.
    destruct drop.
    + cbn [bind]. rewrite verd_nil. apply IHp; auto.
    + eapply bind_ref; [apply eval_all_ref|]. apply IHp; auto.
  - (* Seq *)
    cbn [run obs plays]. rewrite !verd_app. eapply bind_ref; [apply validate_ref|].
    eapply bind_ref; [apply meas_ref|].
    cbn [wf] in Hwf. apply wf_subs in Hwf. rewrite Forall_forall in H, Hwf.
    apply fold_or_ref with (f := fun q => run q s drop) (obsf := fun q => obs q (lookup s) drop)
                           (wv := fun q => plays q (lookup s) drop).
    intros q Hq. apply H; auto.
  - (* Rep *)
    cbn [run obs plays]. rewrite verd_app. eapply bind_ref; [apply validate_ref|]. cbn [wf] in Hwf.
    rewrite verd_cons. apply eval_int_ref. intros n Hn. rewrite Hn.
    destruct (0 <? n).
    + rewrite verd_app. eapply bind_ref; [apply meas_ref|]. apply IHp; auto.
    + apply refines_refl.
  - (* For *)
    cbn [run obs plays]. rewrite verd_app. eapply bind_ref; [apply validate_ref|]. cbn [wf] in Hwf.
    rewrite verd_cons. apply eval_int_ref. intros a' Ha.
    rewrite verd_cons. apply eval_int_ref. intros b' Hb.
    rewrite verd_cons. apply eval_nz_ref. intros st' Hst Hnz.
    unfold range_of. rewrite Ha, Hb, Hst. destruct (Z.eqb_spec st' 0); [contradiction|].
    rewrite verd_app. eapply bind_ref; [apply meas_ref|].
    apply fold_or_ref with (f := fun v => run p (SRange s i v) drop)
                           (obsf := fun v => obs p (upd (lookup s) i (inject_Z v)) drop)
                           (wv := fun v => plays p (upd (lookup s) i (inject_Z v)) drop).
    intros v _. apply (IHp Hwf (SRange s i v) drop).
  - (* Map *)
    cbn [run obs plays]. rewrite verd_app. eapply bind_ref; [apply validate_ref|]. cbn [wf] in Hwf.
    apply (IHp (proj2 Hwf) (SMapped s m) drop).
Qed.
