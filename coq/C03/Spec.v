(* C03 — the independent specification: which constraints are *visible* and which values are *needed* when a template
   is instantiated, defined compositionally over functional environments (no scope objects, no keys()/as_dict(),
   no eager/lazy distinction, no atomic/non-atomic code paths).

   A node is *reached* when instantiation gets to it: the root; every child of a sequence / multi-channel node; the
   body of a repetition iff the count is > 0; the body of a for-loop once per index value; the template wrapped by a
   mapping / parallel-channel node.  A reached node sees the environment obtained from the caller's assignment by all
   enclosing mappings (simultaneous, lazily evaluated) and loop indices (innermost binding wins).

   `obs p rho drop` lists, in instantiation order, the obligations of all reached nodes:
     OC c rho'   constraint c of a reached node must evaluate to true in the environment rho' that node sees
     OR e rho'   expression e is read (a needed value: all its variables must have values)
     OF e rho'   e is the expression of a function atom (needed like OR; kept apart because the code deviates here)
     OI e rho'   e is read and must be an integer (repetition count, range bounds)
     ONZ e rho'  e must be a non-zero integer (range step)
     ONN e rho'  e is read and must be >= 0 (measurement window)                                              *)
From Coq Require Import ZArith QArith Bool List.
Require Import QV.C03.Model.
Import ListNotations.
Open Scope Z_scope.

Inductive ob :=
| OC (c : constr) (rho : env)
| OR (e : expr) (rho : env)
| OF (e : expr) (rho : env)
| OI (e : expr) (rho : env)
| ONZ (e : expr) (rho : env)
| ONN (e : expr) (rho : env).

Inductive ostat := Holds | FMissing | FViolated | FOther.

Definition ob_stat (o : ob) : ostat :=
  match o with
  | OC c rho => match ceval rho c with Some true => Holds | Some false => FViolated | None => FMissing end
  | OR e rho | OF e rho => match eval rho e with Some _ => Holds | None => FMissing end
  | OI e rho => match eval rho e with
                | Some q => match to_int q with Some _ => Holds | None => FOther end
                | None => FMissing end
  | ONZ e rho => match eval rho e with
                 | Some q => match to_int q with Some z => if z =? 0 then FOther else Holds | None => FOther end
                 | None => FMissing end
  | ONN e rho => match eval rho e with
                 | Some q => if Qlt_b q 0 then FOther else Holds
                 | None => FMissing end
  end.

(* obligations with the environment evaluated away: what is asked (constraint / expression) and its value *)
Inductive ob_a :=
| AC (c : constr) (v : option bool)
| AR (e : expr) (v : option Q)
| AF (e : expr) (v : option Q) (closed : bool)
| AI (e : expr) (v : option Q)
| ANZ (e : expr) (v : option Q)
| ANN (e : expr) (v : option Q).
Definition ob_abs (o : ob) : ob_a :=
  match o with
  | OC c r => AC c (ceval r c)
  | OR e r => AR e (eval r e)
  | OF e r => AF e (eval r e) (res_closed r e)
  | OI e r => AI e (eval r e)
  | ONZ e r => ANZ e (eval r e)
  | ONN e r => ANN e (eval r e)
  end.
Definition astat (a : ob_a) : ostat :=
  match a with
  | AC _ v => match v with Some true => Holds | Some false => FViolated | None => FMissing end
  | AR _ v | AF _ v _ => match v with Some _ => Holds | None => FMissing end
  | AI _ v => match v with
              | Some q => match to_int q with Some _ => Holds | None => FOther end
              | None => FMissing end
  | ANZ _ v => match v with
               | Some q => match to_int q with Some z => if z =? 0 then FOther else Holds | None => FOther end
               | None => FMissing end
  | ANN _ v => match v with
               | Some q => if Qlt_b q 0 then FOther else Holds
               | None => FMissing end
  end.

Definition obs_c (rho : env) (cs : list constr) : list ob := map (fun c => OC c rho) cs.
Definition obs_r (rho : env) (es : list expr) : list ob := map (fun e => OR e rho) es.
Definition obs_f (rho : env) (es : list expr) : list ob := map (fun e => OF e rho) es.
Definition obs_m (rho : env) (ms : list (expr * expr)) : list ob :=
  flat_map (fun m => [ONN (fst m) rho; ONN (snd m) rho]) ms.

Definition int_of (rho : env) (e : expr) : option Z :=
  match eval rho e with Some q => to_int q | None => None end.
Definition nonzero (rho : env) (e : expr) : bool :=
  match eval rho e with Some q => negb (Qeq_bool q 0) | None => false end.
Definition positive (rho : env) (e : expr) : bool :=
  match eval rho e with Some q => Qlt_b 0 q | None => false end.

(* does the atom yield a waveform (given that its obligations hold) *)
Definition atom_wave (k : akind) (dur : expr) (rho : env) (drop : bool) : bool :=
  match k with
  | KTable | KPoint => negb drop && nonzero rho dur
  | KFunction => negb drop
  | KConst => negb drop && positive rho dur
  end.

(* does an atomic node yield a waveform (given that its obligations hold) *)
Fixpoint wave (p : pt) (rho : env) (drop : list ident) {struct p} : bool :=
  match p with
  | Atom k chs _ dur _ _ => atom_wave k dur rho (adrop chs drop)
  | AMC subs _ _ => existsb (fun q => wave q rho drop) subs
  | Par inner _ => wave inner rho drop
  | Ari inner _ _ => wave inner rho drop
  | Map inner m _ => wave inner (map_env rho m) drop
  | Ren inner r => wave inner rho (ren_drop r drop)
  | ParT inner _ => wave inner rho drop
  | _ => false
  end.

(* obligations of building the waveform of an atomic node *)
Fixpoint obs_build (p : pt) (rho : env) (drop : list ident) {struct p} : list ob :=
  match p with
  | Atom k chs reads dur cs _ =>
      obs_c rho cs ++
      match k with
      | KTable => obs_r rho reads ++ [OR dur rho]          (* a table instantiates its entries even when dropped *)
      | KPoint => if adrop chs drop then [] else OR dur rho :: (if nonzero rho dur then obs_r rho reads else [])
      | KFunction => if adrop chs drop then [] else OR dur rho :: obs_f rho reads
      | KConst => OR dur rho :: (if positive rho dur then obs_r rho (kept drop (combine chs reads)) else [])
      end
  | AMC subs cs _ => obs_c rho cs ++ flat_map (fun q => obs_build q rho drop) subs
  | Par inner ow => obs_build inner rho drop ++ (if wave inner rho drop then obs_r rho (kept drop ow) else [])
  | Ari inner sa sc =>
      obs_build inner rho drop ++ (if wave inner rho drop then obs_r rho (sa ++ kept drop sc) else [])
  | Map inner m cs => obs_c rho cs ++ obs_build inner (map_env rho m) drop
  | Ren inner r => obs_build inner rho (ren_drop r drop)
  | ParT inner owt => obs_build inner rho drop ++ (if wave inner rho drop then obs_f rho (kept drop owt) else [])
  | _ => []
  end.

(* measurement windows of an atomic node (evaluated only when a waveform exists) *)
Fixpoint obs_meas (p : pt) (rho : env) {struct p} : list ob :=
  match p with
  | Atom _ _ _ _ _ ms => obs_m rho ms
  | AMC subs _ ms => obs_m rho ms ++ flat_map (fun q => obs_meas q rho) subs
  | Par inner _ => obs_meas inner rho
  | Ari inner _ _ => obs_meas inner rho
  | Map inner m _ => obs_meas inner (map_env rho m)
  | Ren inner _ => obs_meas inner rho
  | ParT inner _ => obs_meas inner rho
  | _ => []
  end.

Definition range_of (rho : env) (a b st : expr) : option (list Z) :=
  match int_of rho a, int_of rho b, int_of rho st with
  | Some a', Some b', Some st' => if st' =? 0 then None else Some (zrange a' b' st')
  | _, _, _ => None
  end.

Fixpoint obs (p : pt) (rho : env) (drop : list ident) {struct p} : list ob :=
  match p with
  | Atom _ _ _ _ _ _ | AMC _ _ _ =>
      obs_build p rho drop ++ (if wave p rho drop then obs_meas p rho else [])
  | Par inner ow => obs_r rho (kept drop ow) ++ obs inner rho drop
  | Ari inner sa sc => obs_r rho (sa ++ kept drop sc) ++ obs inner rho drop
  | Seq subs cs ms => obs_c rho cs ++ obs_m rho ms ++ flat_map (fun q => obs q rho drop) subs
  | Rep body count cs ms =>
      obs_c rho cs ++ OI count rho ::
      match int_of rho count with
      | Some n => if 0 <? n then obs_m rho ms ++ obs body rho drop else []
      | None => []
      end
  | For body i a b st cs ms =>
      obs_c rho cs ++ OI a rho :: OI b rho :: ONZ st rho ::
      match range_of rho a b st with
      | Some vs => obs_m rho ms ++ flat_map (fun v => obs body (upd rho i (inject_Z v)) drop) vs
      | None => []
      end
  | Map inner m cs => obs_c rho cs ++ obs inner (map_env rho m) drop
  | Ren inner r => obs inner rho (ren_drop r drop)
  | ParT inner owt => obs_f rho (kept drop owt) ++ obs inner rho drop
  end.

(* is anything played (given that all obligations hold) *)
Fixpoint plays (p : pt) (rho : env) (drop : list ident) {struct p} : bool :=
  match p with
  | Atom _ _ _ _ _ _ | AMC _ _ _ => wave p rho drop
  | Par inner _ => plays inner rho drop
  | Ari inner _ _ => plays inner rho drop
  | Seq subs _ _ => existsb (fun q => plays q rho drop) subs
  | Rep body count _ _ =>
      match int_of rho count with Some n => if 0 <? n then plays body rho drop else false | None => false end
  | For body i a b st _ _ =>
      match range_of rho a b st with
      | Some vs => existsb (fun v => plays body (upd rho i (inject_Z v)) drop) vs
      | None => false
      end
  | Map inner m _ => plays inner (map_env rho m) drop
  | Ren inner r => plays inner rho (ren_drop r drop)
  | ParT inner _ => plays inner rho drop
  end.

(* the visible constraints with the environment their node sees; the needed reads *)
Definition visible (p : pt) (rho : env) (drop : list ident) : list (constr * env) :=
  flat_map (fun o => match o with OC c r => [(c, r)] | _ => [] end) (obs p rho drop).
Definition is_read (o : ob) : bool := match o with OC _ _ => false | _ => true end.

Definition stat_ok (s : ostat) : bool := match s with Holds => true | _ => false end.
Definition stat_missing (s : ostat) : bool := match s with FMissing => true | _ => false end.

(* every visible constraint is true / every needed value is present / numbers are well-formed *)
Definition all_hold (p : pt) (rho : env) (drop : list ident) : bool :=
  forallb (fun o => stat_ok (ob_stat o)) (obs p rho drop).
Definition none_missing (p : pt) (rho : env) (drop : list ident) : bool :=
  forallb (fun o => negb (stat_missing (ob_stat o))) (obs p rho drop).
Definition some_violated (p : pt) (rho : env) (drop : list ident) : bool :=
  existsb (fun o => match ob_stat o with FViolated => true | _ => false end) (obs p rho drop).
Definition some_other (p : pt) (rho : env) (drop : list ident) : bool :=
  existsb (fun o => match ob_stat o with FOther => true | _ => false end) (obs p rho drop).

(* the verdict of the ideal (lazy) instantiation: the first obligation that fails decides *)
Fixpoint first_fail (l : list ostat) : option err :=
  match l with
  | [] => None
  | Holds :: r => first_fail r
  | FMissing :: _ => Some Missing
  | FViolated :: _ => Some Violated
  | FOther :: _ => Some Other
  end.
Definition verd {A} (l : list ob) (k : result A) : result A :=
  match first_fail (map ob_stat l) with
  | Some e => Err e
  | None => k
  end.
Definition verdict (p : pt) (rho : env) (drop : list ident) : result bool :=
  verd (obs p rho drop) (Ok (plays p rho drop)).

(* how the operational result may differ from the ideal verdict: it may report a missing parameter where the ideal
   instantiation would not have needed it (keys()/as_dict() evaluate eagerly), and it may report another error
   where a needed value is missing (FunctionPT: ValueError for a free variable) *)
Definition refinesD (D : Prop) {A} (a b : result A) : Prop :=
  a = b \/ a = Err Missing \/ (b = Err Missing /\ (a = Err Other \/ D)).
Definition refines {A} (a b : result A) : Prop := refinesD False a b.
(* without the guard below: where the ideal verdict is "missing", the code may do anything (FunctionPT) *)
Definition refines_u {A} (a b : result A) : Prop := refinesD True a b.

(* structural well-formedness established by the constructors: a mapping has an entry for every parameter of the
   template it wraps (MappingPT.__init__ fills in the identity) ... *)
Fixpoint atomic (p : pt) : bool :=
  match p with
  | Atom _ _ _ _ _ _ => true
  | AMC subs _ _ => forallb atomic subs
  | Par inner _ => atomic inner
  | Ari inner _ _ => atomic inner
  | Map inner _ _ => atomic inner
  | Ren inner _ => atomic inner
  | ParT inner _ => atomic inner
  | _ => false
  end.

(* ... and the parts of an AtomicMultiChannelPT are atomic (its constructor raises TypeError otherwise).  Round 4: a
   ParallelChannelPT around an atomic template is atomic as well (since /repo bae1029 the class has
   get_measurement_windows = the windows of the inner template).  `Par inner []` below an atomic composite is a
   ParallelChannelPT without overwritten channels, NOT a TimeReversalPT: the mirrored windows of a time reversed
   part evaluate the inner duration once more, which is not modelled (the harness never generates it). *)
Fixpoint wf (p : pt) : Prop :=
  match p with
  | Atom _ _ _ _ _ _ => True
  | AMC subs _ _ =>
      forallb atomic subs = true /\
      (fix all (l : list pt) : Prop := match l with [] => True | q :: r => wf q /\ all r end) subs
  | Seq subs _ _ => (fix all (l : list pt) : Prop := match l with [] => True | q :: r => wf q /\ all r end) subs
  | Par inner _ => wf inner
  | Ari inner _ _ => wf inner
  | Rep body _ _ _ => wf body
  | For body _ _ _ _ _ _ => wf body
  | Map inner m _ => subset (pnames inner) (map fst m) = true /\ wf inner
  | Ren inner _ => wf inner
  | ParT inner _ => wf inner
  end.

(* ---- the known deviation of the code: FunctionPT substitutes symbolically, a name without value that cancels in the
   residual goes unnoticed.  vanishes: the expression cannot be evaluated, yet nothing is left of the missing names *)
Definition vanishes (rho : env) (e : expr) : bool := res_closed rho e && negb (is_some (eval rho e)).
Definition guard_C03_function_zero (p : pt) (rho : env) (drop : list ident) : bool :=
  forallb (fun o => match o with OF e r => negb (vanishes r e) | _ => true end) (obs p rho drop).

(* ---- the guard made exact (round 6).  Only the obligations up to and including the first one that does not hold
   can matter: nothing behind it is ever reached, neither by the ideal instantiation nor by the code.
   `upto_fail l`: the prefix of l that ends with its first failing obligation (all of l when every obligation holds).
   The tight guard is false exactly when the obligation that decides the ideal verdict is the expression of a function
   atom (or a time dependent ParallelChannelPT value) whose missing name vanishes symbolically. ---- *)
Fixpoint upto_fail (l : list ob) : list ob :=
  match l with
  | [] => []
  | o :: r => o :: (if stat_ok (ob_stat o) then upto_fail r else [])
  end.
Definition guard_C03_function_zero_tight (p : pt) (rho : env) (drop : list ident) : bool :=
  forallb (fun o => match o with OF e r => negb (vanishes r e) | _ => true end) (upto_fail (obs p rho drop)).
