(* C03 — proofs, part 7: coincidence — the ideal verdict reads only declared names; irrelevance of other names. *)
From Coq Require Import ZArith QArith Bool List Lia.
Require Import QV.C03.Model QV.C03.Spec QV.C03.Proofs QV.C03.Proofs2 QV.C03.Proofs4 QV.C03.Proofs5 QV.C03.Proofs6.
Import ListNotations.
Open Scope Z_scope.

Lemma flat_map_stat_ext : forall X (f g : X -> list ob) l,
  (forall x, In x l -> map ob_stat (f x) = map ob_stat (g x)) ->
  map ob_stat (flat_map f l) = map ob_stat (flat_map g l).
Proof.
  induction l as [|x l IH]; intros H; cbn; auto. rewrite !map_app, (H x (or_introl eq_refl)). f_equal.
  apply IH. intros; apply H; right; auto.
Qed.

Lemma existsb_ext_in : forall X (f g : X -> bool) l, (forall x, In x l -> f x = g x) -> existsb f l = existsb g l.
Proof.
  induction l as [|x l IH]; intros H; cbn; auto. rewrite (H x (or_introl eq_refl)). f_equal.
  apply IH. intros; apply H; right; auto.
Qed.

Lemma int_of_agree : forall e r1 r2, agree (vars e) r1 r2 -> int_of r1 e = int_of r2 e.
Proof. intros. unfold int_of. rewrite (eval_agree e _ _ H); auto. Qed.

Lemma remove_id_in' : forall x i l, In x l -> x <> i -> In x (remove_id i l).
Proof. exact remove_id_in. Qed.

Lemma flat_map_abs_ext : forall X (f g : X -> list ob) l,
  (forall x, In x l -> map ob_abs (f x) = map ob_abs (g x)) ->
  map ob_abs (flat_map f l) = map ob_abs (flat_map g l).
Proof.
  induction l as [|x l IH]; intros H; cbn; auto. rewrite !map_app, (H x (or_introl eq_refl)). f_equal.
  apply IH. intros; apply H; right; auto.
Qed.

Definition coincide_a (p : pt) : Prop :=
  wf p -> forall r1 r2 drop, agree (pnames p) r1 r2 ->
    map ob_abs (obs p r1 drop) = map ob_abs (obs p r2 drop) /\ plays p r1 drop = plays p r2 drop.

Lemma coincidence_a : forall p, coincide_a p.
Proof.
  induction p using pt_ind'; unfold coincide_a; intros Hwf r1 r2 drop Hag.
  - destruct (atomic_coincidence_a _ Hwf r1 r2 drop Hag) as [H1 [H2 H3]].
    cbn [obs plays]. split; auto. rewrite !map_app, H1, H2. f_equal. destruct (wave _ r2 drop); auto.
  - destruct (atomic_coincidence_a _ Hwf r1 r2 drop Hag) as [H1 [H2 H3]].
    cbn [obs plays]. split; auto. rewrite !map_app, H1, H2. f_equal. destruct (wave _ r2 drop); auto.
  - cbn [pnames] in Hag. apply agree_app in Hag as [Hi Ho]. cbn [wf] in Hwf.
    destruct (IHp Hwf r1 r2 drop Hi) as [H1 H2]. cbn [obs plays]. split; auto.
    rewrite !map_app, H1. f_equal. apply obs_r_agree_a. eapply agree_sub; [|exact Ho]. apply kept_vars.
  - cbn [pnames] in Hag. apply agree_app in Hag as [Hi Ho]. cbn [wf] in Hwf.
    destruct (IHp Hwf r1 r2 drop Hi) as [H1 H2]. cbn [obs plays]. split; auto.
    rewrite !map_app, H1. f_equal. apply obs_r_agree_a.
    apply agree_app in Ho as [Ha Hc]. unfold vars_l. rewrite flat_map_app. apply agree_app. split; auto.
    eapply agree_sub; [|exact Hc]. apply kept_vars.
  - cbn [pnames] in Hag. apply agree_app in Hag as [Hc Hag]. apply agree_app in Hag as [Hm Hs].
    cbn [wf] in Hwf. apply wf_subs in Hwf. rewrite Forall_forall in H, Hwf.
    assert (Hq : forall q, In q subs -> map ob_abs (obs q r1 drop) = map ob_abs (obs q r2 drop)
                                       /\ plays q r1 drop = plays q r2 drop).
    { intros q Hq. apply H; auto. eapply agree_sub; [|exact Hs]. apply flat_map_in_sub; auto. }
    cbn [obs plays]. split.
    + rewrite !map_app, (obs_c_agree_a cs _ _ Hc), (obs_m_agree_a ms _ _ Hm). do 2 f_equal.
      apply flat_map_abs_ext. intros q Hin. apply Hq; auto.
    + apply existsb_ext_in. intros q Hin. apply Hq; auto.
  - cbn [pnames] in Hag. apply agree_app in Hag as [Hb Hag]. apply agree_app in Hag as [Hc Hag].
    apply agree_app in Hag as [Hm Hn]. cbn [wf] in Hwf.
    destruct (IHp Hwf r1 r2 drop Hb) as [H1 H2]. cbn [obs plays].
    rewrite (int_of_agree count _ _ Hn). split.
    + rewrite !map_app, (obs_c_agree_a cs _ _ Hc). f_equal. cbn [map ob_abs]. rewrite (eval_agree count _ _ Hn).
      f_equal. destruct (int_of r2 count); auto. destruct (0 <? z); auto.
      rewrite !map_app, (obs_m_agree_a ms _ _ Hm), H1; auto.
    + destruct (int_of r2 count); auto. destruct (0 <? z); auto.
  - cbn [pnames] in Hag. apply agree_app in Hag as [Hb Hag]. apply agree_app in Hag as [Hr Hag].
    apply agree_app in Hag as [Hc Hm]. apply agree_app in Hr as [Ha Hr]. apply agree_app in Hr as [Hb' Hst].
    cbn [wf] in Hwf.
    assert (Hv : forall v, map ob_abs (obs p (upd r1 i (inject_Z v)) drop)
                           = map ob_abs (obs p (upd r2 i (inject_Z v)) drop)
                           /\ plays p (upd r1 i (inject_Z v)) drop = plays p (upd r2 i (inject_Z v)) drop).
    { intros v. apply IHp; auto. intros x Hx. unfold upd. destruct (N.eqb_spec x i); auto.
      apply Hb. apply remove_id_in; auto. }
    assert (Hrg : range_of r1 a b st = range_of r2 a b st).
    { unfold range_of. rewrite (int_of_agree a _ _ Ha), (int_of_agree b _ _ Hb'), (int_of_agree st _ _ Hst); auto. }
    cbn [obs plays]. rewrite Hrg. split.
    + rewrite !map_app, (obs_c_agree_a cs _ _ Hc). f_equal. cbn [map ob_abs].
      rewrite (eval_agree a _ _ Ha), (eval_agree b _ _ Hb'), (eval_agree st _ _ Hst). do 3 f_equal.
      destruct (range_of r2 a b st); auto.
      rewrite !map_app, (obs_m_agree_a ms _ _ Hm). f_equal. apply flat_map_abs_ext. intros v _. apply Hv.
    + destruct (range_of r2 a b st); auto. apply existsb_ext_in. intros v _. apply Hv.
  - cbn [pnames] in Hag. apply agree_app in Hag as [Hm Hc]. cbn [wf] in Hwf. destruct Hwf as [Hsub Hwf].
    rewrite subset_in in Hsub.
    destruct (IHp Hwf (map_env r1 m) (map_env r2 m) drop (map_env_agree _ _ _ _ Hm Hsub)) as [H1 H2].
    cbn [obs plays]. split; auto. rewrite !map_app, (obs_c_agree_a cs _ _ Hc), H1; auto.
  - (* Ren *) cbn [pnames] in Hag. cbn [wf] in Hwf. cbn [obs plays]. apply IHp; auto.
  - (* ParT *) cbn [pnames] in Hag. apply agree_app in Hag as [Hi Ho]. cbn [wf] in Hwf.
    destruct (IHp Hwf r1 r2 drop Hi) as [H1 H2]. cbn [obs plays]. split; auto.
    rewrite !map_app, H1. f_equal. apply obs_f_agree_a. eapply agree_sub; [|exact Ho]. apply kept_vars.
Qed.


Lemma coincidence : forall p, wf p -> forall r1 r2 drop, agree (pnames p) r1 r2 ->
    map ob_stat (obs p r1 drop) = map ob_stat (obs p r2 drop) /\ plays p r1 drop = plays p r2 drop.
Proof.
  intros p Hwf r1 r2 drop Hag. destruct (coincidence_a p Hwf r1 r2 drop Hag) as [H1 H2].
  rewrite !map_stat_abs, H1. auto.
Qed.

Lemma verdict_agree : forall p r1 r2 drop, wf p -> agree (pnames p) r1 r2 -> verdict p r1 drop = verdict p r2 drop.
Proof.
  intros p r1 r2 drop Hwf Hag. destruct (coincidence p Hwf r1 r2 drop Hag) as [H1 H2].
  unfold verdict, verd. rewrite H1, H2; auto.
Qed.

(* two assignments that both supply the declared names and agree on them give the same result *)
Lemma irrelevant_complete : forall p v1 v2 drop, uok p ->
  (forall x, In x (pnames (construct p)) -> In x (map fst v1) /\ In x (map fst v2) /\ assoc x v1 = assoc x v2) ->
  create_program p v1 drop = create_program p v2 drop.
Proof.
  intros p v1 v2 drop Hu H. unfold create_program.
  pose proof (construct_wf p Hu) as Hwf.
  rewrite (complete_exact _ (SDict v1) drop Hwf), (complete_exact _ (SDict v2) drop Hwf); cbn; auto.
  - apply verdict_agree; auto. intros x Hx. apply H; auto.
  - apply dict_covers. intros x Hx. apply H; auto.
  - apply dict_covers. intros x Hx. apply H; auto.
Qed.

(* (c) as an equivalence, for assignments that supply every declared name *)
Lemma complete_iff : forall p values drop b, uok p ->
  (forall x, In x (pnames (construct p)) -> In x (map fst values)) ->
  (create_program p values drop = Ok b <->
   all_hold (construct p) (lookup (SDict values)) drop = true /\ b = plays (construct p) (lookup (SDict values)) drop).
Proof.
  intros p values drop b Hu H. unfold create_program.
  rewrite (complete_exact _ (SDict values) drop (construct_wf p Hu)); cbn [good]; auto; [|apply dict_covers; auto].
  unfold verdict, verd. rewrite Proofs3.all_hold_ff.
  destruct (first_fail (map ob_stat (obs (construct p) (lookup (SDict values)) drop))).
  - split; [discriminate|intros [? _]; discriminate].
  - split; [intros Hb; inversion Hb; auto|intros [_ ->]; auto].
Qed.

Lemma complete_violated : forall p values drop, uok p ->
  (forall x, In x (pnames (construct p)) -> In x (map fst values)) ->
  all_hold (construct p) (lookup (SDict values)) drop = false ->
  some_other (construct p) (lookup (SDict values)) drop = false ->
  create_program p values drop = Err Violated.
Proof.
  intros p values drop Hu H Hah Hso. unfold create_program.
  pose proof (construct_wf p Hu) as Hwf.
  assert (C : covers (SDict values) (pnames (construct p))) by (apply dict_covers; auto).
  rewrite (complete_exact _ (SDict values) drop Hwf); cbn [good]; auto.
  pose proof (verdict_not_missing _ _ drop Hwf (covers_closed _ _ C)) as Hnm.
  unfold verdict, verd in *.
  destruct (first_fail (map ob_stat (obs (construct p) (lookup (SDict values)) drop))) as [e|] eqn:E.
  - destruct e; auto; [congruence|].
    exfalso. apply Proofs3.first_fail_some in E. apply in_map_iff in E as [o [Ho Hin]].
    unfold some_other in Hso. assert (Hex : existsb (fun o => match ob_stat o with FOther => true | _ => false end)
                 (obs (construct p) (lookup (SDict values)) drop) = true).
    { apply existsb_exists. exists o. rewrite Ho. auto. }
    congruence.
  - apply Proofs3.all_hold_ff in E. congruence.
Qed.

(* non-vacuity: a tree with a mapping, a loop and constraints that satisfies every hypothesis used above *)
Definition ex_tree : pt :=
  Map (For (Seq [Atom KTable [7%N] [EVar 1%N; EVar 3%N] (EConst 2) [Constr OLt (EVar 3%N) (EConst 5)] [];
                 Rep (Atom KPoint [7%N] [EVar 1%N; EVar 1%N] (EConst 1) [Constr OLe (EVar 1%N) (EVar 2%N)] []) (EVar 3%N) [] []]
                [] [])
           3%N (EConst 0) (EVar 2%N) (EConst 1) [] [])
      [(1%N, EAdd (EVar 0%N) (EConst 1))] [Constr OGt (EVar 0%N) (EConst 0)].
Definition ex_values : list (ident * Q) := [(0%N, 1%Q); (2%N, 3%Q)].

Example ex_uok : uok ex_tree.
Proof. cbn. tauto. Qed.
Example ex_declared : forall x, In x (pnames (construct ex_tree)) -> In x (map fst ex_values).
Proof. intros x H. vm_compute in H. vm_compute. tauto. Qed.
Example ex_runs : create_program ex_tree ex_values [] = Ok true.
Proof. vm_compute. reflexivity. Qed.
Example ex_rejects : create_program ex_tree [(0%N, 0%Q); (2%N, 3%Q)] [] = Err Violated.
Proof. vm_compute. reflexivity. Qed.
