(* C03 — round 6: the guard of the known finding made exact.  The refinement `run p s drop` vs the ideal verdict is
   re-proved (all trees, all scopes) under the hypothesis that no function expression *up to and including the first
   failing obligation* vanishes; the round-2 proof needed this for every obligation of the whole instantiation, also
   those behind the first failing one, which neither the ideal instantiation nor the code ever reaches
   (Proofs10.ex_guard_overapprox).  Same structure as Proofs2 Section Ref; the sequencing lemma is bind_ref', whose
   continuation may assume that everything before it holds. *)
From Coq Require Import ZArith QArith Bool List Lia.
Require Import QV.C03.Model QV.C03.Spec QV.C03.Proofs QV.C03.Proofs2 QV.C03.Proofs3 QV.C03.Proofs5 QV.C03.Proofs9
               QV.C03.Proofs10.
Import ListNotations.
Open Scope Z_scope.

Ltac fin := cbn [bind negb]; auto with c03.

(* ---- upto_fail ---- *)
Lemma upto_app : forall a b,
  upto_fail (a ++ b) = match first_fail (map ob_stat a) with None => a ++ upto_fail b | Some _ => upto_fail a end.
Proof.
  induction a as [|o a IH]; intros b; cbn [app upto_fail map first_fail]; auto.
  destruct (ob_stat o); cbn [stat_ok]; try reflexivity.
  rewrite IH. destruct (first_fail (map ob_stat a)); reflexivity.
Qed.

Lemma upto_incl : forall l o, In o (upto_fail l) -> In o l.
Proof.
  induction l as [|x l IH]; cbn [upto_fail]; intros o H; auto.
  destruct H as [H|H]; [left; auto|]. destruct (stat_ok (ob_stat x)); [right; auto|destruct H].
Qed.

Lemma upto_abs : forall l1 l2, map ob_abs l1 = map ob_abs l2 -> map ob_abs (upto_fail l1) = map ob_abs (upto_fail l2).
Proof.
  induction l1 as [|o1 l1 IH]; destruct l2 as [|o2 l2]; cbn [map upto_fail]; intros H; try discriminate; auto.
  inversion H as [[H1 H2]]. rewrite (ob_stat_abs o1), (ob_stat_abs o2), H1.
  destruct (stat_ok (astat (ob_abs o2))); cbn [map]; f_equal; auto.
Qed.

(* the deviation hypothesis on the prefix that is reached *)
Definition fdevP (D : Prop) (l : list ob) : Prop := fdev D (upto_fail l).

Lemma fdevP_of_fdev : forall D l, fdev D l -> fdevP D l.
Proof. intros D l H e r Hin. apply H. apply upto_incl; auto. Qed.
Lemma fdevP_l : forall D a b, fdevP D (a ++ b) -> fdevP D a.
Proof.
  unfold fdevP. intros D a b H. rewrite upto_app in H. destruct (first_fail (map ob_stat a)); auto.
  apply fdev_app in H as [H _]. intros e r Hin. apply H. apply upto_incl; auto.
Qed.
Lemma fdevP_r : forall D a b, fdevP D (a ++ b) -> first_fail (map ob_stat a) = None -> fdevP D b.
Proof. unfold fdevP. intros D a b H Ha. rewrite upto_app, Ha in H. apply fdev_app in H as [_ H]. auto. Qed.
Lemma fdevP_cons : forall D o l, fdevP D (o :: l) -> ob_stat o = Holds -> fdevP D l.
Proof. unfold fdevP. intros D o l H Ho. cbn [upto_fail] in H. rewrite Ho in H. cbn [stat_ok] in H. eapply fdev_cons; eauto. Qed.
Lemma fdevP_abs : forall D l1 l2, map ob_abs l1 = map ob_abs l2 -> fdevP D l1 -> fdevP D l2.
Proof. unfold fdevP. intros D l1 l2 H. apply fdev_abs. apply upto_abs; auto. Qed.

Lemma oi_holds : forall rho e z, int_of rho e = Some z -> ob_stat (OI e rho) = Holds.
Proof. unfold int_of. intros rho e z H. cbn. destruct (eval rho e); [rewrite H; reflexivity|discriminate]. Qed.
Lemma onz_holds : forall rho e z, int_of rho e = Some z -> z <> 0 -> ob_stat (ONZ e rho) = Holds.
Proof.
  unfold int_of. intros rho e z H Hz. cbn. destruct (eval rho e); [rewrite H|discriminate].
  destruct (Z.eqb_spec z 0); [contradiction|reflexivity].
Qed.
Lemma or_holds : forall rho e, eval rho e <> None -> ob_stat (OR e rho) = Holds.
Proof. intros rho e H. cbn. destruct (eval rho e); [reflexivity|contradiction H; reflexivity]. Qed.

Section RefP.
Variable D : Prop.
Local Notation refines := (refinesD D).

Lemma func_reads_refP : forall B (v : B) rho reads, fdevP D (obs_f rho reads) ->
  refines (if forallb (res_closed rho) reads then Ok v else Err Other) (verd (obs_f rho reads) (Ok v)).
Proof.
  intros B v rho. induction reads as [|e r IH]; intros HD; cbn [forallb obs_f map]; [apply refines_refl|].
  fold (obs_f rho r). rewrite verd_cons. unfold verd at 1. cbn [map first_fail ob_stat].
  destruct (eval rho e) as [q|] eqn:E.
  - rewrite (eval_closed _ _ _ E). cbn [andb]. apply IH. eapply fdevP_cons; [exact HD|]. cbn. rewrite E. reflexivity.
  - destruct (res_closed rho e) eqn:Ec; cbn [andb].
    + right; right. split; auto. right. unfold fdevP in HD. cbn [obs_f map upto_fail] in HD.
      apply (HD e rho); [left; auto|]. unfold vanishes. rewrite Ec, E. reflexivity.
    + right; right. auto.
Qed.

Lemma tdep_refP : forall s owt drop, fdevP D (obs_f (lookup s) (kept drop owt)) ->
  refines (tdep s owt drop) (verd (obs_f (lookup s) (kept drop owt)) (Ok tt)).
Proof.
  intros s owt drop HD. unfold tdep.
  destruct (kept drop owt) as [|e es] eqn:Ek; [apply refines_refl|].
  destruct (forced_ok s); fin.
  apply func_reads_refP; auto.
Qed.

Lemma build_atom_refP : forall k chs reads dur cs s drop,
  fdevP D (obs_build (Atom k chs reads dur cs []) (lookup s) drop) ->
  refines (build_atom k chs reads dur cs s drop)
          (verd (obs_build (Atom k chs reads dur cs []) (lookup s) drop)
                (Ok (atom_wave k dur (lookup s) (adrop chs drop)))).
Proof.
  intros k chs reads dur cs s drop HD. unfold build_atom. cbn [obs_build] in *. rewrite verd_app.
  eapply bind_ref'; [apply validate_ref|]. intros Hcs. apply fdevP_r in HD; [|exact Hcs].
  destruct k.
  - (* table *)
    destruct (keys_ok s); fin. destruct (subset _ (skeys s)); fin.
    rewrite verd_app. eapply bind_ref; [apply eval_all_ref|].
    apply is_zero_ref. intros _. cbv beta. unfold atom_wave. rewrite negb_involutive.
    rewrite andb_comm. apply refines_refl.
  - (* point *)
    unfold atom_wave. destruct (adrop chs drop); cbn [negb andb]; [apply refines_refl|].
    rewrite verd_cons. apply is_zero_ref. intros _. cbv beta.
    destruct (nonzero (lookup s) dur); cbn [negb].
    + eapply bind_ref; [apply eval_all_ref|apply refines_refl].
    + apply refines_refl.
  - (* function *)
    unfold atom_wave. destruct (adrop chs drop); cbn [negb]; [apply refines_refl|].
    destruct (forced_ok s); fin.
    rewrite verd_cons. apply is_zero_ref. intros Hd.
    apply func_reads_refP. eapply fdevP_cons; [exact HD|]. apply or_holds; auto.
  - (* constant *)
    unfold atom_wave. rewrite verd_cons. apply is_pos_ref. intros _.
    destruct (positive (lookup s) dur).
    + rewrite andb_true_r. eapply bind_ref; [apply eval_all_ref|apply refines_refl].
    + rewrite andb_false_r. apply refines_refl.
Qed.

Lemma fold_or_refP : forall X (f : X -> result bool) (obsf : X -> list ob) (wv : X -> bool) l,
  fdevP D (flat_map obsf l) ->
  (forall x, In x l -> fdevP D (obsf x) -> refines (f x) (verd (obsf x) (Ok (wv x)))) ->
  refines (fold_or f l) (verd (flat_map obsf l) (Ok (existsb wv l))).
Proof.
  induction l as [|q r IH]; intros HD H; cbn [fold_or flat_map existsb] in *.
  - apply refines_refl.
  - rewrite verd_app. eapply bind_ref'; [apply H; [left; auto|eapply fdevP_l; eauto]|]. intros Hq.
    eapply bind_ref; [apply IH; [eapply fdevP_r; eauto|intros; apply H; auto; right; auto]|apply refines_refl].
Qed.

Definition build_okP (p : pt) : Prop :=
  wf p -> atomic p = true -> forall s drop, fdevP D (obs_build p (lookup s) drop) ->
    refines (build p s drop) (verd (obs_build p (lookup s) drop) (Ok (wave p (lookup s) drop))).

Lemma build_refP : forall p, build_okP p.
Proof.
  induction p using pt_ind'; unfold build_okP; intros Hwf Hat s drop HD; cbn [atomic] in Hat; try discriminate.
  - exact (build_atom_refP k chs reads dur cs s drop HD).
  - cbn [build obs_build wave] in *. rewrite verd_app. eapply bind_ref'; [apply validate_ref|]. intros Hcs.
    apply fdevP_r in HD; [|exact Hcs].
    cbn [wf] in Hwf. destruct Hwf as [_ Hwf]. apply wf_subs in Hwf.
    apply fold_or_refP with (f := fun q => build q s drop) (obsf := fun q => obs_build q (lookup s) drop)
                            (wv := fun q => wave q (lookup s) drop); [exact HD|].
    intros q Hq HDq. rewrite Forall_forall in H, Hwf. apply H; auto.
    rewrite forallb_forall in Hat. auto.
  - (* Par (below an atomic composite) *)
    cbn [build obs_build wave] in *. cbn [wf] in Hwf. rewrite verd_app. apply fdevP_l in HD.
    eapply bind_ref'; [apply IHp; auto|]. intros _.
    destruct (wave p (lookup s) drop); [|apply refines_refl].
    eapply bind_ref; [apply eval_all_ref|apply refines_refl].
  - (* Ari *)
    cbn [build obs_build wave] in *. cbn [wf] in Hwf. rewrite verd_app. apply fdevP_l in HD.
    eapply bind_ref'; [apply IHp; auto|]. intros _.
    destruct (wave p (lookup s) drop); [|apply refines_refl].
    eapply bind_ref; [apply scalar_ref|apply refines_refl].
  - (* Map *)
    cbn [build obs_build wave] in *. cbn [wf] in Hwf. destruct Hwf as [Hsub Hwf].
    rewrite verd_app. apply eager_ref. intros l Hl Hv.
    apply fdevP_r in HD; [|apply validate_ok; exact Hv].
    destruct (atomic_coincidence_a p Hwf (lookup (SDict l)) (map_env (lookup s) m) drop) as [C1 [C2 C3]].
    { eapply eager_agree; eauto. apply subset_in; auto. }
    assert (HD' : fdevP D (obs_build p (lookup (SDict l)) drop)) by (eapply fdevP_abs; [symmetry; exact C1|exact HD]).
    specialize (IHp Hwf Hat (SDict l) drop HD').
    rewrite <- (verd_stat_eq _ _ _ _ (eq_trans (map_stat_abs _) (eq_trans (f_equal (map astat) C1) (eq_sym (map_stat_abs _))))), <- C2.
    exact IHp.
  - (* Ren *)
    cbn [build obs_build wave] in *. cbn [wf] in Hwf. apply IHp; auto.
  - (* ParT *)
    cbn [build obs_build wave] in *. cbn [wf] in Hwf. rewrite verd_app.
    eapply bind_ref'; [apply IHp; auto; eapply fdevP_l; eauto|]. intros Hb.
    apply fdevP_r in HD; [|exact Hb].
    destruct (wave p (lookup s) drop); [|apply refines_refl].
    eapply bind_ref; [apply tdep_refP; auto|apply refines_refl].
Qed.

Lemma run_atomic_refP : forall p s drop, wf p -> atomic p = true -> fdevP D (obs_build p (lookup s) drop) ->
  refines (bind (build p s drop) (fun w => if w then bind (meas_at p s) (fun _ => Ok true) else Ok false))
          (verd (obs_build p (lookup s) drop ++ (if wave p (lookup s) drop then obs_meas p (lookup s) else []))
                (Ok (wave p (lookup s) drop))).
Proof.
  intros p s drop Hwf Hat HD. rewrite verd_app.
  pose proof (build_refP p Hwf Hat s drop HD) as Hb.
  destruct (build p s drop) as [w|e] eqn:Eb.
  - apply refines_ok_invD in Hb. unfold verd at 1. unfold verd in Hb.
    destruct (first_fail (map ob_stat (obs_build p (lookup s) drop))).
    + destruct Hb as [Hb|[Hb HD']]; [discriminate|]. right; right. auto.
    + destruct Hb as [Hb|[Hb HD']]; [|discriminate].
      inversion Hb as [Hw]. cbn [bind]. clear Hb.
      destruct (wave p (lookup s) drop) eqn:Ew; subst w.
      * eapply bind_ref; [eapply meas_at_ref; eauto|apply refines_refl].
      * apply refines_refl.
  - cbn [bind].
    change (@Err bool e) with (bind (@Err bool e)
       (fun _ => verd (if wave p (lookup s) drop then obs_meas p (lookup s) else []) (Ok (wave p (lookup s) drop)))).
    eapply bind_ref; [exact Hb|apply refines_refl].
Qed.

Definition run_okP (p : pt) : Prop :=
  wf p -> forall s drop, fdevP D (obs p (lookup s) drop) -> refines (run p s drop) (verdict p (lookup s) drop).

Lemma run_ref_DP : forall p, run_okP p.
Proof.
  induction p using pt_ind'; unfold run_okP, verdict; intros Hwf s drop HD.
  - (* Atom *) apply run_atomic_refP; auto. cbn [obs] in HD. eapply fdevP_l; eauto.
  - (* AMC *) apply run_atomic_refP; auto; [cbn [wf] in Hwf; cbn [atomic]; tauto|].
    cbn [obs] in HD. eapply fdevP_l; eauto.
  - (* Par *)
    cbn [run obs plays] in *. rewrite verd_app. cbn [wf] in Hwf.
    eapply bind_ref'; [apply eval_all_ref|]. intros H1. apply IHp; auto. eapply fdevP_r; eauto.
  - (* Ari *)
    cbn [run obs plays] in *. rewrite verd_app. cbn [wf] in Hwf.
    eapply bind_ref'; [apply scalar_ref|]. intros H1. apply IHp; auto. eapply fdevP_r; eauto.
  - (* Seq *)
    cbn [run obs plays] in *. rewrite !verd_app. eapply bind_ref'; [apply validate_ref|]. intros H1.
    eapply bind_ref'; [apply meas_ref|]. intros H2.
    apply fdevP_r in HD; [|exact H1]. apply fdevP_r in HD; [|exact H2].
    cbn [wf] in Hwf. apply wf_subs in Hwf. rewrite Forall_forall in H, Hwf.
    apply fold_or_refP with (f := fun q => run q s drop) (obsf := fun q => obs q (lookup s) drop)
                            (wv := fun q => plays q (lookup s) drop); [exact HD|].
    intros q Hq HDq. apply H; auto.
  - (* Rep *)
    cbn [run obs plays] in *. rewrite verd_app. eapply bind_ref'; [apply validate_ref|]. intros H1. cbn [wf] in Hwf.
    apply fdevP_r in HD; [|exact H1].
    rewrite verd_cons. apply eval_int_ref. intros n Hn.
    apply fdevP_cons in HD; [|eapply oi_holds; eauto]. rewrite Hn in *.
    destruct (0 <? n).
    + rewrite verd_app. eapply bind_ref'; [apply meas_ref|]. intros H2. apply fdevP_r in HD; [|exact H2]. apply IHp; auto.
    + apply refines_refl.
  - (* For *)
    cbn [run obs plays] in *. rewrite verd_app. eapply bind_ref'; [apply validate_ref|]. intros H1. cbn [wf] in Hwf.
    apply fdevP_r in HD; [|exact H1].
    rewrite verd_cons. apply eval_int_ref. intros a' Ha. apply fdevP_cons in HD; [|eapply oi_holds; eauto].
    rewrite verd_cons. apply eval_int_ref. intros b' Hb. apply fdevP_cons in HD; [|eapply oi_holds; eauto].
    rewrite verd_cons. apply eval_nz_ref. intros st' Hst Hnz. apply fdevP_cons in HD; [|eapply onz_holds; eauto].
    unfold range_of in *. rewrite Ha, Hb, Hst in *. destruct (Z.eqb_spec st' 0); [contradiction|].
    rewrite verd_app. eapply bind_ref'; [apply meas_ref|]. intros H2. apply fdevP_r in HD; [|exact H2].
    apply fold_or_refP with (f := fun v => run p (SRange s i v) drop)
                            (obsf := fun v => obs p (upd (lookup s) i (inject_Z v)) drop)
                            (wv := fun v => plays p (upd (lookup s) i (inject_Z v)) drop); [exact HD|].
    intros v Hv HDv. apply (IHp Hwf (SRange s i v) drop). cbn [lookup]. exact HDv.
  - (* Map *)
    cbn [run obs plays] in *. rewrite verd_app. eapply bind_ref'; [apply validate_ref|]. intros H1. cbn [wf] in Hwf.
    apply fdevP_r in HD; [|exact H1].
    apply (IHp (proj2 Hwf) (SMapped s m) drop). exact HD.
  - (* Ren *)
    cbn [run obs plays] in *. cbn [wf] in Hwf. apply IHp; auto.
  - (* ParT *)
    cbn [run obs plays] in *. rewrite verd_app. cbn [wf] in Hwf.
    eapply bind_ref'; [apply tdep_refP; eapply fdevP_l; eauto|]. intros H1.
    apply IHp; auto. eapply fdevP_r; eauto.
Qed.
End RefP.

(* ---- the tight guard ---- *)
Lemma fdevP_False : forall p rho drop, guard_C03_function_zero_tight p rho drop = true -> fdevP False (obs p rho drop).
Proof.
  intros p rho drop H e r Hin Hv. unfold guard_C03_function_zero_tight in H. rewrite forallb_forall in H.
  specialize (H _ Hin). cbn in H. rewrite Hv in H. discriminate.
Qed.

Lemma run_ref_tight : forall p, wf p -> forall s drop, guard_C03_function_zero_tight p (lookup s) drop = true ->
  refines (run p s drop) (verdict p (lookup s) drop).
Proof. intros p Hwf s drop Hg. apply (run_ref_DP False p Hwf s drop). apply fdevP_False; auto. Qed.

(* the tight guard is implied by the round-2 guard ... *)
Lemma guard_tight_weaker : forall p rho drop,
  guard_C03_function_zero p rho drop = true -> guard_C03_function_zero_tight p rho drop = true.
Proof.
  unfold guard_C03_function_zero, guard_C03_function_zero_tight. intros p rho drop H.
  rewrite forallb_forall in *. intros o Ho. apply H. apply upto_incl; auto.
Qed.

(* ... and it is exact: false iff the obligation that decides the ideal verdict (everything before it holds) is a
   function expression whose missing name vanishes *)
Lemma guard_tight_false_iff : forall p rho drop,
  guard_C03_function_zero_tight p rho drop = false <->
  exists a e r b, obs p rho drop = a ++ OF e r :: b /\ first_fail (map ob_stat a) = None /\ vanishes r e = true.
Proof.
  intros p rho drop. unfold guard_C03_function_zero_tight. generalize (obs p rho drop) as l.
  induction l as [|o l IH]; cbn [upto_fail forallb].
  - split; [discriminate|]. intros [a [e [r [b [H _]]]]]. destruct a; discriminate.
  - split.
    + intros H. apply andb_false_iff in H as [H|H].
      * destruct o; try discriminate. exists [], e, rho0, l. repeat split; auto.
        apply negb_false_iff in H. auto.
      * destruct (ob_stat o) eqn:Eo; cbn [stat_ok] in H; try discriminate.
        apply IH in H as [a [e [r [b [H1 [H2 H3]]]]]]. exists (o :: a), e, r, b. rewrite H1. repeat split; auto.
        cbn [map first_fail]. rewrite Eo. auto.
    + intros [a [e [r [b [H1 [H2 H3]]]]]]. destruct a as [|o' a]; cbn [app] in H1; inversion H1; subst.
      * rewrite H3. reflexivity.
      * cbn [map first_fail] in H2. destruct (ob_stat o') eqn:Eo; try discriminate. cbn [stat_ok].
        apply andb_false_iff. right. apply IH. exists a, e, r, b. auto.
Qed.

Lemma vanishes_missing : forall r e, vanishes r e = true -> ob_stat (OF e r) = FMissing.
Proof.
  unfold vanishes. intros r e H. apply andb_prop in H as [_ H]. cbn. destruct (eval r e); [discriminate|reflexivity].
Qed.

(* where the tight guard is false the ideal verdict is "missing value" *)
Lemma guard_tight_false_missing : forall p rho drop,
  guard_C03_function_zero_tight p rho drop = false -> verdict p rho drop = Err Missing.
Proof.
  intros p rho drop H. apply guard_tight_false_iff in H as [a [e [r [b [H1 [H2 H3]]]]]].
  unfold verdict. rewrite H1, verd_app. unfold verd at 1. rewrite H2. rewrite verd_cons. unfold verd at 1.
  cbn [map first_fail]. rewrite (vanishes_missing _ _ H3). reflexivity.
Qed.

(* ---- user level (through the constructors) ---- *)
Lemma construct_guard_tight : forall u rho drop, uok u ->
  guard_C03_function_zero_tight (construct u) rho drop = guard_C03_function_zero_tight u rho drop.
Proof.
  intros u rho drop Hu. unfold guard_C03_function_zero_tight. rewrite !guard_abs.
  rewrite (upto_abs _ _ (proj1 (construct_obs u Hu rho drop))). reflexivity.
Qed.

Lemma user_refines_tight : forall u values drop, uok u ->
  guard_C03_function_zero_tight u (lookup (SDict values)) drop = true ->
  refines (create_program u values drop) (verdict u (lookup (SDict values)) drop).
Proof.
  intros u values drop Hu Hg. rewrite <- (construct_verdict u _ drop Hu). unfold create_program.
  apply run_ref_tight; [apply construct_wf; auto|]. rewrite construct_guard_tight; auto.
Qed.

(* (d) with the exact guard *)
Lemma user_missing_exact : forall u values drop b, uok u ->
  guard_C03_function_zero_tight u (lookup (SDict values)) drop = true ->
  none_missing u (lookup (SDict values)) drop = false -> create_program u values drop <> Ok b.
Proof.
  intros u values drop b Hu Hg Hm Hc. pose proof (user_refines_tight u values drop Hu Hg) as H.
  rewrite Hc in H. apply refines_ok_inv in H. apply verdict_ok_none_missing in H. congruence.
Qed.

(* (c only-if) and "a violation is justified" with the exact guard *)
Lemma user_sound_exact : forall u values drop b, uok u ->
  guard_C03_function_zero_tight u (lookup (SDict values)) drop = true -> create_program u values drop = Ok b ->
  (forall c r, In (c, r) (visible u (lookup (SDict values)) drop) -> ceval r c = Some true)
  /\ none_missing u (lookup (SDict values)) drop = true /\ b = plays u (lookup (SDict values)) drop.
Proof.
  intros u values drop b Hu Hg Hc. pose proof (user_refines_tight u values drop Hu Hg) as H.
  rewrite Hc in H. apply refines_ok_inv in H. unfold verdict, verd in H.
  destruct (first_fail (map ob_stat (obs u (lookup (SDict values)) drop))) eqn:E; [discriminate|].
  inversion H; subst. apply all_hold_ff in E.
  split; [apply all_hold_visible; auto|split; [apply all_hold_none_missing; auto|auto]].
Qed.

Lemma violated_sound_tight : forall p s drop, wf p -> guard_C03_function_zero_tight p (lookup s) drop = true ->
  run p s drop = Err Violated ->
  exists c r, In (c, r) (visible p (lookup s) drop) /\ ceval r c = Some false.
Proof.
  intros p s drop Hwf Hg Hr. pose proof (run_ref_tight p Hwf s drop Hg) as H. rewrite Hr in H.
  destruct H as [H|[H|[_ [H|[]]]]]; try discriminate.
  unfold verdict, verd in H.
  destruct (first_fail (map ob_stat (obs p (lookup s) drop))) as [e|] eqn:E; [|discriminate].
  inversion H; subst. apply first_fail_some in E. apply in_map_iff in E as [o [Ho Hin]].
  destruct o; cbn in Ho;
    try (destruct (eval rho e) as [q|]; try discriminate;
         try (destruct (to_int q) as [z|]; try discriminate; try (destruct (z =? 0); discriminate));
         try (destruct (Qlt_b q 0); discriminate)).
  destruct (ceval rho c) as [[|]|] eqn:Ec; try discriminate.
  exists c, rho. split; auto. unfold visible. apply in_flat_map. exists (OC c rho). split; auto. left; auto.
Qed.

Lemma user_violation_justified_exact : forall u values drop, uok u ->
  guard_C03_function_zero_tight u (lookup (SDict values)) drop = true -> create_program u values drop = Err Violated ->
  exists c r, In (c, r) (visible u (lookup (SDict values)) drop) /\ ceval r c = Some false.
Proof.
  intros u values drop Hu Hg Hr. unfold create_program in Hr.
  rewrite <- (construct_guard_tight u _ drop Hu) in Hg.
  destruct (violated_sound_tight _ _ _ (construct_wf u Hu) Hg Hr) as [c [r [Hin Hc]]].
  destruct (Forall2_in_l _ _ _ _ _ _ (construct_visible u (lookup (SDict values)) drop Hu) Hin) as [[c' r'] [Hin' [E1 E2]]].
  cbn in E1, E2. subst c'. exists c, r'. split; auto. congruence.
Qed.

(* ---- examples: the over-approximation exhibited in round 5 is gone, the finding itself stays outside ---- *)
Example ex_tight_closes_overapprox :
  guard_C03_function_zero ex_guard_over (lookup (SDict [(0%N, 0%Q)])) [] = false
  /\ guard_C03_function_zero_tight ex_guard_over (lookup (SDict [(0%N, 0%Q)])) [] = true
  /\ none_missing ex_guard_over (lookup (SDict [(0%N, 0%Q)])) [] = false
  /\ create_program ex_guard_over [(0%N, 0%Q)] [] = Err Missing.
Proof. repeat split; vm_compute; reflexivity. Qed.
Example ex_tight_still_excludes_finding :
  guard_C03_function_zero_tight ex_fzero (lookup (SDict [(0%N, 0%Q)])) [] = false
  /\ guard_C03_function_zero_tight ex_fzero (lookup (SDict [(0%N, 1%Q)])) [] = true
  /\ guard_C03_function_zero_tight ex_guard_tight (lookup (SDict [(0%N, 0%Q)])) [] = true.
Proof. repeat split; vm_compute; reflexivity. Qed.
