(* C03 — proofs, part 9: the specification on the user-level tree equals the specification on the constructed tree
   (MappingPT.__init__: identity completion of partial mappings, merging of nested mappings = composition). *)
From Coq Require Import ZArith QArith Bool List Lia.
Require Import QV.C03.Model QV.C03.Spec QV.C03.Proofs QV.C03.Proofs2 QV.C03.Proofs3 QV.C03.Proofs4 QV.C03.Proofs5
               QV.C03.Proofs6 QV.C03.Proofs7.
Import ListNotations.
Open Scope Z_scope.

(* ---- the five components of the specification of a node ---- *)
Definition five (p : pt) (rho : env) (drop : list ident) :=
  (map ob_abs (obs p rho drop), plays p rho drop,
   map ob_abs (obs_build p rho drop), wave p rho drop, map ob_abs (obs_meas p rho)).

Lemma five_agree : forall p r1 r2 drop, wf p -> agree (pnames p) r1 r2 -> five p r1 drop = five p r2 drop.
Proof.
  intros p r1 r2 drop Hwf Hag. unfold five.
  destruct (coincidence_a p Hwf r1 r2 drop Hag) as [H1 H2].
  destruct (atomic_coincidence_a p Hwf r1 r2 drop Hag) as [H3 [H4 H5]].
  rewrite H1, H2, H3, H4, H5. reflexivity.
Qed.

Definition five_map (cs : list constr) (rho : env) (f : list ob_a * bool * list ob_a * bool * list ob_a) :=
  match f with (a, b, c, d, e) => (map ob_abs (obs_c rho cs) ++ a, b, map ob_abs (obs_c rho cs) ++ c, d, e) end.

Lemma five_Map : forall inner m cs rho drop,
  five (Map inner m cs) rho drop = five_map cs rho (five inner (map_env rho m) drop).
Proof. intros. unfold five, five_map. cbn [obs plays obs_build wave obs_meas]. rewrite !map_app. reflexivity. Qed.

(* ---- MappingPT.__init__ ---- *)
Lemma assoc_app : forall A0 x (a b : list (ident * A0)),
  assoc x (a ++ b) = match assoc x a with Some v => Some v | None => assoc x b end.
Proof. induction a as [|[k v] a IH]; intros b; cbn; auto. destruct (N.eqb x k); auto. Qed.

Lemma assoc_ids : forall x l, assoc x (map (fun p => (p, EVar p)) l) = if mem x l then Some (EVar x) else None.
Proof.
  induction l as [|y l IH]; cbn; auto. destruct (N.eqb_spec x y); subst; cbn; auto.
Qed.

(* identity completion does not change the mapped environment *)
Lemma map_env_complete : forall inner m rho x, map_env rho (complete_mapping inner m) x = map_env rho m x.
Proof.
  intros. unfold map_env, complete_mapping. rewrite assoc_app. destruct (assoc x m); auto.
  rewrite assoc_ids. destruct (mem x _); auto.
Qed.

(* substitution = evaluation in the mapped environment *)
Lemma subst_eval : forall m rho e, eval rho (subst m e) = eval (map_env rho m) e.
Proof.
  induction e; cbn; auto; try (rewrite IHe1, IHe2; auto).
  unfold map_env. destruct (assoc x m); auto.
Qed.

Lemma assoc_map_snd : forall A0 B0 (f : A0 -> B0) x (m : list (ident * A0)),
  assoc x (map (fun pe => (fst pe, f (snd pe))) m) = option_map f (assoc x m).
Proof. induction m as [|[k v] m IH]; cbn; auto. destruct (N.eqb x k); auto. Qed.

(* merging a nested mapping = composing the environments, on the keys of the inner mapping *)
Lemma map_env_merge : forall m1 m2 rho x, In x (map fst m2) ->
  map_env rho (map (fun pe => (fst pe, subst m1 (snd pe))) m2) x = map_env (map_env rho m1) m2 x.
Proof.
  intros m1 m2 rho x Hx. unfold map_env at 1 2. rewrite assoc_map_snd.
  destruct (assoc x m2) eqn:E; cbn; [apply subst_eval|]. exfalso. eapply assoc_none_notin; eauto.
Qed.

Lemma mk_map_five : forall ci m cs rho drop, wf ci ->
  five (mk_map ci m cs) rho drop = five (Map ci m cs) rho drop.
Proof.
  intros ci m cs rho drop Hwf.
  assert (Hgen : five (Map ci (complete_mapping ci m) cs) rho drop = five (Map ci m cs) rho drop).
  { rewrite !five_Map. f_equal. apply five_agree; auto. intros x _. apply map_env_complete. }
  unfold mk_map. destruct ci; auto. destruct cs0; auto.
  rewrite <- Hgen. clear Hgen. rewrite five_Map. rewrite (five_Map (Map ci m0 [])). rewrite (five_Map ci m0 []).
  cbn [wf] in Hwf. destruct Hwf as [Hsub Hwf]. rewrite subset_in in Hsub.
  set (m1 := complete_mapping (Map ci m0 []) m).
  rewrite (five_agree ci (map_env rho (map (fun pe => (fst pe, subst m1 (snd pe))) m0))
                      (map_env (map_env rho m1) m0) drop Hwf).
  - destruct (five ci (map_env (map_env rho m1) m0) drop) as [[[[a b] c] d] e]. reflexivity.
  - intros x Hx. apply map_env_merge. auto.
Qed.

Lemma existsb_map : forall X Y (f : Y -> bool) (g : X -> Y) l, existsb f (map g l) = existsb (fun x => f (g x)) l.
Proof. induction l; cbn; auto. rewrite IHl; auto. Qed.
Lemma flat_map_map : forall X Y Z (f : Y -> list Z) (g : X -> Y) l, flat_map f (map g l) = flat_map (fun x => f (g x)) l.
Proof. induction l; cbn; auto. rewrite IHl; auto. Qed.

Definition construct_ok (u : pt) : Prop := uok u -> forall rho drop, five (construct u) rho drop = five u rho drop.

Lemma five_inv : forall p q r1 r2 d1 d2, five p r1 d1 = five q r2 d2 ->
  map ob_abs (obs p r1 d1) = map ob_abs (obs q r2 d2) /\ plays p r1 d1 = plays q r2 d2 /\
  map ob_abs (obs_build p r1 d1) = map ob_abs (obs_build q r2 d2) /\ wave p r1 d1 = wave q r2 d2 /\
  map ob_abs (obs_meas p r1) = map ob_abs (obs_meas q r2).
Proof. unfold five. intros. inversion H. auto. Qed.

Lemma construct_five : forall u, construct_ok u.
Proof.
  induction u using pt_ind'; unfold construct_ok; intros Hu rho drop; cbn [uok] in Hu.
  - reflexivity.
  - destruct Hu as [_ Hu]. apply uok_subs in Hu. rewrite Forall_forall in H, Hu.
    assert (Hq : forall q, In q subs -> forall r d, five (construct q) r d = five q r d) by (intros; apply H; auto).
    assert (Hb : map ob_abs (flat_map (fun q => obs_build q rho drop) (map construct subs))
                 = map ob_abs (flat_map (fun q => obs_build q rho drop) subs)).
    { rewrite flat_map_map. apply flat_map_abs_ext. intros q Hin. apply (five_inv _ _ _ _ _ _ (Hq q Hin rho drop)). }
    assert (Hw : existsb (fun q => wave q rho drop) (map construct subs) = existsb (fun q => wave q rho drop) subs).
    { rewrite existsb_map. apply existsb_ext_in. intros q Hin. apply (five_inv _ _ _ _ _ _ (Hq q Hin rho drop)). }
    assert (Hm : map ob_abs (flat_map (fun q => obs_meas q rho) (map construct subs))
                 = map ob_abs (flat_map (fun q => obs_meas q rho) subs)).
    { rewrite flat_map_map. apply flat_map_abs_ext. intros q Hin. apply (five_inv _ _ _ _ _ _ (Hq q Hin rho drop)). }
    unfold five. cbn [construct obs plays obs_build wave obs_meas]. rewrite !map_app, Hb, Hw, Hm.
    destruct (existsb (fun q => wave q rho drop) subs); rewrite ?map_app, ?Hm; reflexivity.
  - specialize (IHu Hu). destruct (five_inv _ _ _ _ _ _ (IHu rho drop)) as [H1 [H2 [H3 [H4 H5]]]].
    unfold five. cbn [construct obs plays obs_build wave obs_meas]. rewrite !map_app, H1, H2, H3, H4, H5. reflexivity.
  - specialize (IHu Hu). destruct (five_inv _ _ _ _ _ _ (IHu rho drop)) as [H1 [H2 [H3 [H4 H5]]]].
    unfold five. cbn [construct obs plays obs_build wave obs_meas]. rewrite !map_app, H1, H2, H3, H4, H5. reflexivity.
  - apply uok_subs in Hu. rewrite Forall_forall in H, Hu.
    assert (Hq : forall q, In q subs -> forall r d, five (construct q) r d = five q r d) by (intros; apply H; auto).
    unfold five. cbn [construct obs plays obs_build wave obs_meas]. rewrite !map_app. do 4 f_equal.
    + f_equal. f_equal. rewrite flat_map_map. apply flat_map_abs_ext. intros q Hin.
      apply (five_inv _ _ _ _ _ _ (Hq q Hin rho drop)).
    + rewrite existsb_map. apply existsb_ext_in. intros q Hin. apply (five_inv _ _ _ _ _ _ (Hq q Hin rho drop)).
  - specialize (IHu Hu). destruct (five_inv _ _ _ _ _ _ (IHu rho drop)) as [H1 [H2 _]].
    unfold five. cbn [construct obs plays obs_build wave obs_meas]. rewrite !map_app. cbn [map]. rewrite H2.
    destruct (int_of rho count); auto. destruct (0 <? z); auto. rewrite !map_app, H1. reflexivity.
  - specialize (IHu Hu).
    assert (Hv : forall v, map ob_abs (obs (construct u) (upd rho i (inject_Z v)) drop)
                           = map ob_abs (obs u (upd rho i (inject_Z v)) drop)
                           /\ plays (construct u) (upd rho i (inject_Z v)) drop = plays u (upd rho i (inject_Z v)) drop).
    { intros v. destruct (five_inv _ _ _ _ _ _ (IHu (upd rho i (inject_Z v)) drop)) as [H1 [H2 _]]. auto. }
    unfold five. cbn [construct obs plays obs_build wave obs_meas]. rewrite !map_app. cbn [map].
    destruct (range_of rho a b st); auto. rewrite !map_app.
    rewrite (flat_map_abs_ext _ (fun v => obs (construct u) (upd rho i (inject_Z v)) drop)
                                (fun v => obs u (upd rho i (inject_Z v)) drop) l) by (intros; apply Hv).
    rewrite (existsb_ext_in _ (fun v => plays (construct u) (upd rho i (inject_Z v)) drop)
                              (fun v => plays u (upd rho i (inject_Z v)) drop) l) by (intros; apply Hv).
    reflexivity.
  - specialize (IHu Hu). cbn [construct]. rewrite mk_map_five by (apply construct_wf; auto).
    rewrite !five_Map. f_equal. apply IHu.
  - (* Ren *) specialize (IHu Hu). exact (IHu rho (ren_drop r drop)).
  - (* ParT *) specialize (IHu Hu). destruct (five_inv _ _ _ _ _ _ (IHu rho drop)) as [H1 [H2 [H3 [H4 H5]]]].
    unfold five. cbn [construct obs plays obs_build wave obs_meas]. rewrite !map_app, H1, H2, H3, H4, H5. reflexivity.
Qed.

(* the specification of the constructed tree = the specification of the user-level tree *)
Lemma construct_obs : forall u, uok u -> forall rho drop,
  map ob_abs (obs (construct u) rho drop) = map ob_abs (obs u rho drop)
  /\ plays (construct u) rho drop = plays u rho drop.
Proof. intros u Hu rho drop. destruct (five_inv _ _ _ _ _ _ (construct_five u Hu rho drop)) as [H1 [H2 _]]. auto. Qed.

(* ---- corollaries ---- *)
Lemma construct_stat : forall u rho drop, uok u ->
  map ob_stat (obs (construct u) rho drop) = map ob_stat (obs u rho drop).
Proof. intros. rewrite !map_stat_abs. f_equal. apply construct_obs; auto. Qed.

Lemma construct_verdict : forall u rho drop, uok u -> verdict (construct u) rho drop = verdict u rho drop.
Proof.
  intros u rho drop Hu. unfold verdict, verd. rewrite (construct_stat u rho drop Hu).
  rewrite (proj2 (construct_obs u Hu rho drop)). reflexivity.
Qed.

Lemma forallb_stat : forall (f : ostat -> bool) l, forallb (fun o => f (ob_stat o)) l = forallb f (map ob_stat l).
Proof. intros. rewrite Proofs3.forallb_map'. reflexivity. Qed.
Lemma existsb_stat : forall (f : ostat -> bool) l, existsb (fun o => f (ob_stat o)) l = existsb f (map ob_stat l).
Proof. induction l; cbn; auto. rewrite IHl; auto. Qed.

Lemma construct_all_hold : forall u rho drop, uok u -> all_hold (construct u) rho drop = all_hold u rho drop.
Proof. intros. unfold all_hold. rewrite !(forallb_stat stat_ok), construct_stat; auto. Qed.
Lemma construct_none_missing : forall u rho drop, uok u -> none_missing (construct u) rho drop = none_missing u rho drop.
Proof.
  intros. unfold none_missing. rewrite !(forallb_stat (fun s => negb (stat_missing s))), construct_stat; auto.
Qed.
Lemma construct_some_violated : forall u rho drop, uok u -> some_violated (construct u) rho drop = some_violated u rho drop.
Proof.
  intros. unfold some_violated.
  rewrite !(existsb_stat (fun s => match s with FViolated => true | _ => false end)), construct_stat; auto.
Qed.
Lemma construct_some_other : forall u rho drop, uok u -> some_other (construct u) rho drop = some_other u rho drop.
Proof.
  intros. unfold some_other.
  rewrite !(existsb_stat (fun s => match s with FOther => true | _ => false end)), construct_stat; auto.
Qed.

Definition gA (a : ob_a) : bool := match a with AF _ v c => negb (c && negb (is_some v)) | _ => true end.
Lemma guard_abs : forall l,
  forallb (fun o => match o with OF e r => negb (vanishes r e) | _ => true end) l = forallb gA (map ob_abs l).
Proof. induction l as [|o l IH]; cbn; auto. rewrite IH. destruct o; reflexivity. Qed.
Lemma construct_guard : forall u rho drop, uok u ->
  guard_C03_function_zero (construct u) rho drop = guard_C03_function_zero u rho drop.
Proof.
  intros u rho drop Hu. unfold guard_C03_function_zero. rewrite !guard_abs.
  rewrite (proj1 (construct_obs u Hu rho drop)). reflexivity.
Qed.

(* the visible constraints: same constraints in the same order with the same truth values *)
Definition vis_rel (a b : constr * env) : Prop := fst a = fst b /\ ceval (snd a) (fst a) = ceval (snd b) (fst b).

Lemma visible_abs : forall l1 l2, map ob_abs l1 = map ob_abs l2 ->
  Forall2 vis_rel (flat_map (fun o => match o with OC c r => [(c, r)] | _ => [] end) l1)
                  (flat_map (fun o => match o with OC c r => [(c, r)] | _ => [] end) l2).
Proof.
  induction l1 as [|o1 l1 IH]; intros [|o2 l2] H; cbn in H; try discriminate; [constructor|].
  inversion H as [[Ho Hl]]. cbn [flat_map].
  destruct o1, o2; cbn in Ho; try discriminate; cbn [app]; auto.
  inversion Ho; subst. constructor; auto. split; auto.
Qed.

Lemma construct_visible : forall u rho drop, uok u ->
  Forall2 vis_rel (visible (construct u) rho drop) (visible u rho drop).
Proof. intros. unfold visible. apply visible_abs. apply construct_obs; auto. Qed.

Lemma Forall2_in_r : forall X Y (Rel : X -> Y -> Prop) l1 l2 y, Forall2 Rel l1 l2 -> In y l2 -> exists x, In x l1 /\ Rel x y.
Proof.
  induction 1; intros Hy; [destruct Hy|]. destruct Hy as [<-|Hy]; [exists x; split; [left|]; auto|].
  destruct (IHForall2 Hy) as [x' [H1 H2]]. exists x'; split; [right|]; auto.
Qed.
Lemma Forall2_in_l : forall X Y (Rel : X -> Y -> Prop) l1 l2 x, Forall2 Rel l1 l2 -> In x l1 -> exists y, In y l2 /\ Rel x y.
Proof.
  induction 1; intros Hx; [destruct Hx|]. destruct Hx as [<-|Hx]; [exists y; split; [left|]; auto|].
  destruct (IHForall2 Hx) as [y' [H1 H2]]. exists y'; split; [right|]; auto.
Qed.

(* ---- the top-level results with the specification applied to the user-level tree ---- *)
Lemma user_refines : forall u values drop, uok u ->
  guard_C03_function_zero u (lookup (SDict values)) drop = true ->
  refines (create_program u values drop) (verdict u (lookup (SDict values)) drop).
Proof.
  intros u values drop Hu Hg. rewrite <- (construct_verdict u _ drop Hu). unfold create_program.
  apply run_ref; [apply construct_wf; auto|]. rewrite construct_guard; auto.
Qed.

Lemma user_refines_u : forall u values drop, uok u ->
  refines_u (create_program u values drop) (verdict u (lookup (SDict values)) drop).
Proof.
  intros u values drop Hu. rewrite <- (construct_verdict u _ drop Hu). unfold create_program.
  apply run_ref_u. apply construct_wf; auto.
Qed.

Lemma user_iff : forall u values drop b, uok u ->
  (forall x, In x (pnames (construct u)) -> In x (map fst values)) ->
  (create_program u values drop = Ok b <->
   all_hold u (lookup (SDict values)) drop = true /\ b = plays u (lookup (SDict values)) drop).
Proof.
  intros u values drop b Hu H. rewrite (complete_iff u values drop b Hu H).
  rewrite (construct_all_hold u _ drop Hu), (proj2 (construct_obs u Hu _ drop)). tauto.
Qed.

Lemma user_violated : forall u values drop, uok u ->
  (forall x, In x (pnames (construct u)) -> In x (map fst values)) ->
  all_hold u (lookup (SDict values)) drop = false -> some_other u (lookup (SDict values)) drop = false ->
  create_program u values drop = Err Violated.
Proof.
  intros u values drop Hu H H1 H2. apply complete_violated; auto.
  - rewrite construct_all_hold; auto.
  - rewrite construct_some_other; auto.
Qed.

Lemma user_sound : forall u values drop b, uok u ->
  guard_C03_function_zero u (lookup (SDict values)) drop = true -> create_program u values drop = Ok b ->
  (forall c r, In (c, r) (visible u (lookup (SDict values)) drop) -> ceval r c = Some true)
  /\ none_missing u (lookup (SDict values)) drop = true /\ b = plays u (lookup (SDict values)) drop.
Proof.
  intros u values drop b Hu Hg Hr. unfold create_program in Hr.
  rewrite <- (construct_guard u _ drop Hu) in Hg.
  destruct (accepted_sound _ _ _ _ (construct_wf u Hu) Hg Hr) as [H1 H2].
  rewrite (construct_all_hold u _ drop Hu) in H1. rewrite (proj2 (construct_obs u Hu _ drop)) in H2.
  split; [apply all_hold_visible; auto|split; [apply all_hold_none_missing; auto|auto]].
Qed.

Lemma user_violation_justified : forall u values drop, uok u ->
  guard_C03_function_zero u (lookup (SDict values)) drop = true -> create_program u values drop = Err Violated ->
  exists c r, In (c, r) (visible u (lookup (SDict values)) drop) /\ ceval r c = Some false.
Proof.
  intros u values drop Hu Hg Hr. unfold create_program in Hr.
  rewrite <- (construct_guard u _ drop Hu) in Hg.
  destruct (violated_sound _ _ _ (construct_wf u Hu) Hg Hr) as [c [r [Hin Hc]]].
  destruct (Forall2_in_l _ _ _ _ _ _ (construct_visible u (lookup (SDict values)) drop Hu) Hin) as [[c' r'] [Hin' [E1 E2]]].
  cbn in E1, E2. subst c'. exists c, r'. split; auto. congruence.
Qed.

Lemma user_missing : forall u values drop b, uok u ->
  guard_C03_function_zero u (lookup (SDict values)) drop = true ->
  none_missing u (lookup (SDict values)) drop = false ->
  create_program u values drop <> Ok b.
Proof.
  intros u values drop b Hu Hg Hm. unfold create_program. apply missing_never_ok; [apply construct_wf; auto| |].
  - rewrite construct_guard; auto.
  - rewrite construct_none_missing; auto.
Qed.

(* the known finding: without the guard clause (d) fails -- FunctionPT('(p0*p5)*t') with p0 = 0 and p5 missing *)
Definition ex_fzero : pt := Atom KFunction [7%N] [EMul (EVar 0%N) (EVar 5%N)] (EConst 2) [] [].
Lemma missing_refuted : exists u values drop b, uok u /\ none_missing u (lookup (SDict values)) drop = false /\
  create_program u values drop = Ok b.
Proof. exists ex_fzero, [(0%N, 0%Q)], [], true. split; [exact Logic.I|]. split; vm_compute; reflexivity. Qed.
(* ... and the guard excludes exactly this; it holds e.g. when the factor is not 0 (the code then raises ValueError) *)
Example ex_fzero_guard_false : guard_C03_function_zero ex_fzero (lookup (SDict [(0%N, 0%Q)])) [] = false.
Proof. vm_compute. reflexivity. Qed.
Example ex_fzero_guard_true : guard_C03_function_zero ex_fzero (lookup (SDict [(0%N, 1%Q)])) [] = true
  /\ create_program ex_fzero [(0%N, 1%Q)] [] = Err Other.
Proof. split; vm_compute; reflexivity. Qed.

(* non-vacuity: a tree in which a nested mapping is merged and a partial mapping is completed *)
Definition ex_nested : pt :=
  Map (Map (Atom KTable [7%N] [EVar 1%N; EVar 2%N] (EConst 2) [Constr OLt (EVar 1%N) (EVar 2%N)] [])
           [(1%N, EAdd (EVar 3%N) (EConst 1))] [])
      [(3%N, EMul (EVar 4%N) (EConst 2))] [Constr OGe (EVar 4%N) (EConst 0)].
Example ex_nested_merged :
  construct ex_nested =
  Map (Atom KTable [7%N] [EVar 1%N; EVar 2%N] (EConst 2) [Constr OLt (EVar 1%N) (EVar 2%N)] [])
      [(1%N, EAdd (EMul (EVar 4%N) (EConst 2)) (EConst 1)); (2%N, EVar 2%N)] [Constr OGe (EVar 4%N) (EConst 0)].
Proof. reflexivity. Qed.
Example ex_nested_runs : create_program ex_nested [(4%N, 1%Q); (2%N, 5%Q)] [] = Ok true.
Proof. vm_compute. reflexivity. Qed.

(* non-vacuity of the channel renaming: ConstantPT on inner channel 1 (amplitude p0), renamed to outer channel 2.
   Dropping outer channel 2 drops the inner channel (nothing evaluated, no waveform); dropping an outer channel
   called 1 does not (the amplitude is needed: p0 missing) *)
Definition ex_ren : pt := Map (Ren (Atom KConst [1%N] [EVar 0%N] (EConst 2) [] []) [(1%N, Some 2%N)]) [] [].
Example ex_ren_drop : create_program ex_ren [] [2%N] = Ok false /\ create_program ex_ren [] [1%N] = Err Missing
  /\ create_program ex_ren [(0%N, 1%Q)] [1%N] = Ok true.
Proof. repeat split; vm_compute; reflexivity. Qed.

(* round 4, the shapes of the seeded changes C03-5 / C03-6, decided by the model and by the specification:
   (1) ForLoopPT(i) > MappingPT{i := k, v := i} > RepetitionPT > FunctionPT(v*t) constrained on i: the atom below the
       repetition sees the *mapped* i (= k), not the loop index.  Names: i = 0, v = 1, k = 2; channel 7. *)
Definition ex_frame (c : constr) : pt :=
  For (Map (Rep (Atom KFunction [7%N] [EVar 1%N] (EConst 4) [c] []) (EConst 2) [] [])
           [(0%N, EVar 2%N); (1%N, EVar 0%N)] [])
      0%N (EConst 0) (EConst 3) (EConst 1) [] [].
Example ex_frame_rebind :
  pnames (construct (ex_frame (Constr OLt (EVar 0%N) (EConst 5)))) = [2%N]
  /\ create_program (ex_frame (Constr OLt (EVar 0%N) (EConst 5))) [(2%N, 7%Q)] [] = Err Violated
  /\ some_violated (ex_frame (Constr OLt (EVar 0%N) (EConst 5))) (lookup (SDict [(2%N, 7%Q)])) [] = true
  /\ create_program (ex_frame (Constr OGt (EVar 0%N) (EConst 2))) [(2%N, 7%Q)] [] = Ok true
  /\ all_hold (ex_frame (Constr OGt (EVar 0%N) (EConst 2))) (lookup (SDict [(2%N, 7%Q)])) [] = true.
Proof. repeat split; vm_compute; reflexivity. Qed.
(* (2) a loop over 0, -1, -2 whose body (a sequence, the same object in every iteration) demands i > -2: the last
       iteration violates the constraint although hash(-1) = hash(-2) in Python -- the model has no memory; and the
       same template instantiated with a = -1 and then with a = -2 (every call is judged on its own) *)
Definition ex_hash_loop : pt :=
  For (Seq [Atom KFunction [7%N] [EAdd (EVar 0%N) (EVar 1%N)] (EConst 4) [] []]
           [Constr OGt (EVar 0%N) (EConst (-2))] [])
      0%N (EConst 0) (EConst (-3)) (EConst (-1)) [] [].
Definition ex_hash_rep : pt :=
  Rep (Atom KFunction [7%N] [EVar 1%N] (EConst 4) [] []) (EConst 2) [Constr OGt (EVar 1%N) (EConst (-2))] [].
Example ex_hash_collision :
  create_program ex_hash_loop [(1%N, 1%Q)] [] = Err Violated
  /\ some_violated ex_hash_loop (lookup (SDict [(1%N, 1%Q)])) [] = true
  /\ create_program ex_hash_rep [(1%N, (-1)%Q)] [] = Ok true
  /\ create_program ex_hash_rep [(1%N, (-2)%Q)] [] = Err Violated.
Proof. repeat split; vm_compute; reflexivity. Qed.

(* (3) time dependent ParallelChannelPT values (ParT): ParallelChannelPT(ConstantPT(2, {7: x1}), {8: x2 * t}).  The
       value is needed iff channel 8 is kept; a missing x2 is an error (AssertionError in the code), unless it is
       multiplied by a supplied 0 (the known finding, excluded by the guard); below an AtomicMultiChannelPT the same *)
Definition ex_part (e : expr) : pt := ParT (Atom KConst [7%N] [EVar 1%N] (EConst 2) [] []) [(8%N, e)].
Example ex_part_runs :
  pnames (construct (ex_part (EVar 2%N))) = [1%N; 2%N]
  /\ create_program (ex_part (EVar 2%N)) [(1%N, 1%Q); (2%N, 0%Q)] [] = Ok true
  /\ create_program (ex_part (EVar 2%N)) [(1%N, 1%Q)] [] = Err Other
  /\ create_program (ex_part (EVar 2%N)) [(1%N, 1%Q)] [8%N] = Ok true
  /\ create_program (ex_part (EVar 2%N)) [(1%N, 1%Q); (9%N, 5%Q)] [8%N] = Ok true
  /\ create_program (AMC [ex_part (EVar 2%N)] [] []) [(1%N, 1%Q)] [] = Err Other
  /\ guard_C03_function_zero (ex_part (EMul (EVar 2%N) (EVar 3%N))) (lookup (SDict [(1%N, 1%Q); (2%N, 0%Q)])) [] = false
  /\ create_program (ex_part (EMul (EVar 2%N) (EVar 3%N))) [(1%N, 1%Q); (2%N, 0%Q)] [] = Ok true.
Proof. repeat split; vm_compute; reflexivity. Qed.

Print Assumptions construct_obs.
Print Assumptions user_iff.
Print Assumptions user_sound.
