(* C03 — operational model of parameter handling in qupulse's pulse templates (definitions only, executable).

   Mirrors, for the template classes anchored by C03,
     * `parameter_names` of every class                                              -> pnames
     * the constructors where they rewrite the tree (MappingPT: completion of a partial parameter mapping,
       merging of a directly nested unnamed MappingPT *without* constraints)       -> construct
     * the scope classes DictScope / MappedScope / RangeScope (lookup, membership, `keys()` / `as_dict()` which
       evaluate every mapped parameter)                                              -> scope, lookup, skeys, forced_ok
     * ParameterConstraint.is_fulfilled / ParameterConstrainer.validate_*            -> fulfilled, validate
     * `_internal_create_program` / `build_waveform` / `get_measurement_windows` of Table/Point/Function,
       AtomicMultiChannelPT, ParallelChannelPT, SequencePT, RepetitionPT, ForLoopPT, MappingPT as far as parameters,
       constraints and "is anything played" are concerned                           -> build, meas_at, run
     * ConstantPT (atom kind KConst), ArithmeticPT with a scalar operand (Ari), ArithmeticAtomicPT (AAt, an
       AMC of its two operands), TimeReversalPT (Rev, a transparent wrapper), per-channel dropping (`dr` = the set of
       channels mapped to None), to_single_waveform (transparent for parameters: nothing to model)
     * the channel_mapping of a MappingPT (Ren inner r, user-level `Map (Ren inner r) m cs`): an inner channel is
       dropped iff the outer channel it is renamed to is (get_updated_channel_mapping)  -> ren_drop
     * FunctionPT substitutes the supplied values *symbolically* (sympy): what is left of the expression is modelled
       as a polynomial normal form over the names without value                      -> peval, res_closed
   Voltages and waveform contents are not modelled. *)
From Coq Require Import ZArith QArith Bool List.
Import ListNotations.
Open Scope Z_scope.

Definition ident := N.
Definition env := ident -> option Q.

(* ---------------------------------------------------------------- expressions ---------------------------------- *)
Inductive expr :=
| EConst (q : Q)
| EVar (x : ident)
| EAdd (a b : expr)
| ESub (a b : expr)
| EMul (a b : expr).

Inductive cmpop := OLt | OLe | OGt | OGe | OEq.
Inductive constr := Constr (op : cmpop) (l r : expr).

Fixpoint vars (e : expr) : list ident :=
  match e with
  | EConst _ => []
  | EVar x => [x]
  | EAdd a b | ESub a b | EMul a b => vars a ++ vars b
  end.
Definition cvars (c : constr) : list ident := match c with Constr _ l r => vars l ++ vars r end.
Definition vars_l (es : list expr) : list ident := flat_map vars es.
Definition cvars_l (cs : list constr) : list ident := flat_map cvars cs.
Definition mvars_l (ms : list (expr * expr)) : list ident := flat_map (fun m => vars (fst m) ++ vars (snd m)) ms.

(* None = a variable has no value *)
Fixpoint eval (rho : env) (e : expr) : option Q :=
  match e with
  | EConst q => Some q
  | EVar x => rho x
  | EAdd a b => match eval rho a, eval rho b with Some u, Some v => Some (u + v)%Q | _, _ => None end
  | ESub a b => match eval rho a, eval rho b with Some u, Some v => Some (u - v)%Q | _, _ => None end
  | EMul a b => match eval rho a, eval rho b with Some u, Some v => Some (u * v)%Q | _, _ => None end
  end.

Definition Qlt_b (a b : Q) : bool := negb (Qle_bool b a).
Definition cmp_eval (op : cmpop) (a b : Q) : bool :=
  match op with
  | OLt => Qlt_b a b
  | OLe => Qle_bool a b
  | OGt => Qlt_b b a
  | OGe => Qle_bool b a
  | OEq => Qeq_bool a b
  end.
Definition ceval (rho : env) (c : constr) : option bool :=
  match c with Constr op l r =>
    match eval rho l, eval rho r with Some a, Some b => Some (cmp_eval op a b) | _, _ => None end
  end.

Fixpoint assoc {A} (x : ident) (l : list (ident * A)) : option A :=
  match l with
  | [] => None
  | (k, v) :: r => if N.eqb x k then Some v else assoc x r
  end.
Definition mem (x : ident) (l : list ident) : bool := existsb (N.eqb x) l.
Definition subset (a b : list ident) : bool := forallb (fun x => mem x b) a.

(* simultaneous substitution (Expression.evaluate_symbolic with a mapping of expressions) *)
Fixpoint subst (m : list (ident * expr)) (e : expr) : expr :=
  match e with
  | EConst q => EConst q
  | EVar x => match assoc x m with Some e' => e' | None => EVar x end
  | EAdd a b => EAdd (subst m a) (subst m b)
  | ESub a b => ESub (subst m a) (subst m b)
  | EMul a b => EMul (subst m a) (subst m b)
  end.

(* ---------------------------------------------------------------- symbolic residual -------------------------- *)
(* Expression.evaluate_symbolic(numbers): sympy substitutes and re-normalises.  On the + - * fragment the residual is
   modelled by the expanded polynomial over the names that have no value: monomial = sorted list of names,
   coefficients in Q; a term whose coefficient is 0 has disappeared (0*x -> 0, x - x -> 0). *)
Definition mono := list ident.
Definition poly := list (mono * Q).
Fixpoint ins (x : ident) (m : mono) : mono :=
  match m with
  | [] => [x]
  | y :: r => if N.leb x y then x :: m else y :: ins x r
  end.
Definition mmul (a b : mono) : mono := fold_right ins b a.
Fixpoint mono_eqb (a b : mono) : bool :=
  match a, b with
  | [], [] => true
  | x :: a', y :: b' => N.eqb x y && mono_eqb a' b'
  | _, _ => false
  end.
Fixpoint padd1 (m : mono) (c : Q) (p : poly) : poly :=
  match p with
  | [] => [(m, c)]
  | (m', c') :: r => if mono_eqb m m' then (m', Qred (c' + c)) :: r else (m', c') :: padd1 m c r
  end.
Definition padd (p q : poly) : poly := fold_right (fun t acc => padd1 (fst t) (snd t) acc) q p.
Definition pscale (m : mono) (c : Q) (p : poly) : poly := map (fun t => (mmul m (fst t), Qred (c * snd t))) p.
Definition pmul (p q : poly) : poly := fold_right (fun t acc => padd (pscale (fst t) (snd t) q) acc) [] p.
Definition pneg (p : poly) : poly := map (fun t => (fst t, Qopp (snd t))) p.
Fixpoint peval (rho : env) (e : expr) : poly :=
  match e with
  | EConst q => [([], q)]
  | EVar x => match rho x with Some q => [([], q)] | None => [([x], 1%Q)] end
  | EAdd a b => padd (peval rho a) (peval rho b)
  | ESub a b => padd (peval rho a) (pneg (peval rho b))
  | EMul a b => pmul (peval rho a) (peval rho b)
  end.
Definition is_nil {A} (l : list A) : bool := match l with [] => true | _ => false end.
(* no name is left in the residual *)
Definition res_closed (rho : env) (e : expr) : bool :=
  forallb (fun t => is_nil (fst t) || Qeq_bool (snd t) 0) (peval rho e).

(* ---------------------------------------------------------------- results -------------------------------------- *)
Inductive err := Missing      (* ParameterNotProvidedException / ExpressionVariableMissingException *)
               | Violated     (* ParameterConstraintViolation *)
               | Other.       (* any other exception (ValueError: not an integer, negative measurement window, ...) *)
Inductive result (A : Type) := Ok (a : A) | Err (e : err).
Arguments Ok {A} a. Arguments Err {A} e.
Definition bind {A B} (r : result A) (f : A -> result B) : result B :=
  match r with Ok a => f a | Err e => Err e end.

(* ---------------------------------------------------------------- scopes --------------------------------------- *)
Inductive scope :=
| SDict (values : list (ident * Q))                      (* DictScope, or a plain dict *)
| SMapped (inner : scope) (m : list (ident * expr))      (* MappedScope: lazy, mapping expressions read `inner` *)
| SRange (inner : scope) (i : ident) (v : Z).            (* RangeScope (loop index) *)

Definition map_env (rho : env) (m : list (ident * expr)) : env :=
  fun x => match assoc x m with Some e => eval rho e | None => rho x end.
Definition upd (rho : env) (i : ident) (v : Q) : env :=
  fun x => if N.eqb x i then Some v else rho x.

(* scope[x] *)
Fixpoint lookup (s : scope) {struct s} : env :=
  match s with
  | SDict vs => fun x => assoc x vs
  | SMapped s' m => map_env (lookup s') m
  | SRange s' i v => upd (lookup s') i (inject_Z v)
  end.

(* `x in scope` / members of scope.keys() *)
Fixpoint skeys (s : scope) : list ident :=
  match s with
  | SDict vs => map fst vs
  | SMapped s' m => map fst m ++ skeys s'
  | SRange s' i _ => i :: skeys s'
  end.

Definition is_some {A} (o : option A) : bool := match o with Some _ => true | None => false end.

(* forced_ok s: scope.as_dict() succeeds (MappedScope.as_dict evaluates every key);
   keys_ok s:   scope.keys() succeeds (RangeScope.keys() goes through as_dict()) *)
Fixpoint forced_ok (s : scope) : bool :=
  match s with
  | SDict _ => true
  | SMapped s' m => keys_ok s' && forallb (fun k => is_some (lookup s k)) (skeys s)
  | SRange s' _ _ => forced_ok s'
  end
with keys_ok (s : scope) : bool :=
  match s with
  | SDict _ => true
  | SMapped s' _ => keys_ok s'
  | SRange s' _ _ => forced_ok s'
  end.

(* ---------------------------------------------------------------- constraints ---------------------------------- *)
(* ParameterConstraint.is_fulfilled(scope): affected_parameters <= scope.keys() else ParameterNotProvided;
   then Expression.evaluate_in_scope *)
Definition fulfilled (s : scope) (c : constr) : result bool :=
  if negb (keys_ok s) then Err Missing
  else if negb (subset (cvars c) (skeys s)) then Err Missing
  else match ceval (lookup s) c with Some b => Ok b | None => Err Missing end.

(* validate_scope / validate_parameter_constraints: in order, first failure raises *)
Fixpoint validate (s : scope) (cs : list constr) : result unit :=
  match cs with
  | [] => Ok tt
  | c :: r => bind (fulfilled s c) (fun b => if b then validate s r else Err Violated)
  end.

(* evaluate_in_scope of a list of expressions (only success/failure matters) *)
Fixpoint eval_all (s : scope) (es : list expr) : result unit :=
  match es with
  | [] => Ok tt
  | e :: r => match eval (lookup s) e with Some _ => eval_all s r | None => Err Missing end
  end.

(* MeasurementDefiner.get_measurement_windows: begin, length evaluated; negative -> ValueError *)
Fixpoint meas (s : scope) (ms : list (expr * expr)) : result unit :=
  match ms with
  | [] => Ok tt
  | (b, l) :: r =>
      match eval (lookup s) b with
      | None => Err Missing
      | Some bv => match eval (lookup s) l with
                   | None => Err Missing
                   | Some lv => if Qlt_b bv 0 || Qlt_b lv 0 then Err Other else meas s r
                   end
      end
  end.

(* checked_int_cast on an exact value *)
Definition to_int (q : Q) : option Z :=
  let r := Qred q in if Pos.eqb (Qden r) 1 then Some (Qnum r) else None.
Definition eval_int (s : scope) (e : expr) : result Z :=
  match eval (lookup s) e with
  | None => Err Missing
  | Some q => match to_int q with Some z => Ok z | None => Err Other end
  end.

(* list(range(a, b, st)), st <> 0 *)
Definition zrange (a b st : Z) : list Z :=
  let n := if 0 <? st then (b - a + st - 1) / st else (a - b + (- st) - 1) / (- st) in
  map (fun k => a + Z.of_nat k * st) (seq 0 (Z.to_nat n)).

(* ---------------------------------------------------------------- templates ------------------------------------ *)
Inductive akind := KTable | KPoint | KFunction | KConst.   (* KConst: ConstantPT, reads = amplitudes aligned with chs *)

Inductive pt :=
| Atom (k : akind) (chs : list ident) (reads : list expr) (dur : expr) (cs : list constr) (ms : list (expr * expr))
| AMC (subs : list pt) (cs : list constr) (ms : list (expr * expr))         (* AtomicMultiChannelPT *)
| Par (inner : pt) (ow : list (ident * expr))                                (* ParallelChannelPT: channel, value *)
| Ari (inner : pt) (sa : list expr) (sc : list (ident * expr))               (* ArithmeticPT with a scalar operand:
                                                                                 one expression (sa) or per channel (sc) *)
| Seq (subs : list pt) (cs : list constr) (ms : list (expr * expr))
| Rep (body : pt) (count : expr) (cs : list constr) (ms : list (expr * expr))
| For (body : pt) (idx : ident) (start stop step : expr) (cs : list constr) (ms : list (expr * expr))
| Map (inner : pt) (m : list (ident * expr)) (cs : list constr)
| Ren (inner : pt) (r : list (ident * option ident))                               (* the channel_mapping of a MappingPT:
                                                                                 inner channel -> outer channel *)
| ParT (inner : pt) (owt : list (ident * expr)).                              (* ParallelChannelPT whose values are all
                                                                                 time dependent: channel, e for e*t *)

(* ArithmeticAtomicPT(lhs, op, rhs, measurements): both operands are built, a waveform exists iff one of them has one;
   windows = own + lhs + rhs; no constraints.  TimeReversalPT delegates to the inner template. *)
Definition AAt (lhs rhs : pt) (ms : list (expr * expr)) : pt := AMC [lhs; rhs] [] ms.
Definition Rev (inner : pt) : pt := Par inner [].

(* channels: dr = channels mapped to None *)
Definition adrop (chs dr : list ident) : bool := forallb (fun c => mem c dr) chs.
Definition kept (dr : list ident) (l : list (ident * expr)) : list expr :=
  map snd (filter (fun ce => negb (mem (fst ce) dr)) l).

(* MappingPT.get_updated_channel_mapping: an inner channel is mapped to None iff the outer channel it is renamed to
   is (channels without entry keep their name), or the MappingPT itself maps it to None (round 4) *)
Definition ren_drop (r : list (ident * option ident)) (dr : list ident) : list ident :=
  filter (fun c => negb (is_some (assoc c r))) dr
  ++ map fst (filter (fun cr => match snd cr with Some o => mem o dr | None => true end) r).

Definition remove_id (x : ident) (l : list ident) : list ident := filter (fun y => negb (N.eqb y x)) l.

(* parameter_names of each class (as a list; compared as a set) *)
Fixpoint pnames (p : pt) : list ident :=
  match p with
  | Atom _ _ reads dur cs ms => vars_l reads ++ vars dur ++ mvars_l ms ++ cvars_l cs
  | AMC subs cs ms => mvars_l ms ++ cvars_l cs ++ flat_map pnames subs
  | Par inner ow => pnames inner ++ vars_l (map snd ow)
  | Ari inner sa sc => pnames inner ++ vars_l sa ++ vars_l (map snd sc)
  | Seq subs cs ms => cvars_l cs ++ mvars_l ms ++ flat_map pnames subs
  | Rep body count cs ms => pnames body ++ cvars_l cs ++ mvars_l ms ++ vars count
  | For body i a b st cs ms =>
      remove_id i (pnames body) ++ (vars a ++ vars b ++ vars st) ++ cvars_l cs ++ mvars_l ms
  | Map inner m cs => vars_l (map snd m) ++ cvars_l cs
  | Ren inner _ => pnames inner
  | ParT inner owt => pnames inner ++ vars_l (map snd owt)
  end.

Fixpoint dedup (l : list ident) : list ident :=
  match l with
  | [] => []
  | x :: r => if mem x r then dedup r else x :: dedup r
  end.

(* MappingPulseTemplate.__init__: missing parameter mappings are filled with the identity; an unnamed inner
   MappingPT without parameter constraints is merged (mapping expressions substituted) *)
Definition complete_mapping (inner : pt) (m : list (ident * expr)) : list (ident * expr) :=
  m ++ map (fun p => (p, EVar p)) (filter (fun p => negb (is_some (assoc p m))) (dedup (pnames inner))).

Definition mk_map (inner : pt) (m : list (ident * expr)) (cs : list constr) : pt :=
  let m1 := complete_mapping inner m in
  match inner with
  | Map inner2 m2 [] => Map inner2 (map (fun pe => (fst pe, subst m1 (snd pe))) m2) cs
  | _ => Map inner m1 cs
  end.

(* user-level tree -> constructed objects *)
Fixpoint construct (p : pt) : pt :=
  match p with
  | Atom k chs reads dur cs ms => Atom k chs reads dur cs ms
  | AMC subs cs ms => AMC (map construct subs) cs ms
  | Par inner ow => Par (construct inner) ow
  | Ari inner sa sc => Ari (construct inner) sa sc
  | Seq subs cs ms => Seq (map construct subs) cs ms
  | Rep body count cs ms => Rep (construct body) count cs ms
  | For body i a b st cs ms => For (construct body) i a b st cs ms
  | Map inner m cs => mk_map (construct inner) m cs
  | Ren inner r => Ren (construct inner) r
  | ParT inner owt => ParT (construct inner) owt
  end.

(* ---------------------------------------------------------------- instantiation -------------------------------- *)
Definition is_zero (s : scope) (e : expr) : result bool :=
  match eval (lookup s) e with Some q => Ok (Qeq_bool q 0) | None => Err Missing end.

Definition is_pos (s : scope) (e : expr) : result bool :=
  match eval (lookup s) e with Some q => Ok (Qlt_b 0 q) | None => Err Missing end.

(* build_waveform of TablePT / PointPT / FunctionPT / ConstantPT.  drop = every channel of the atom is mapped to None.
   Result: does a waveform exist. *)
Definition build_atom (k : akind) (chs : list ident) (reads : list expr) (dur : expr) (cs : list constr) (s : scope)
  (dr : list ident) : result bool :=
  let drop := adrop chs dr in
  bind (validate s cs) (fun _ =>
  match k with
  | KTable =>
      (* get_entries_instantiated: table_parameters <= set(parameters.keys()), every entry instantiated,
         duration 0 -> {} ; channels filtered afterwards *)
      if negb (keys_ok s) then Err Missing
      else if negb (subset (vars_l reads ++ vars dur ++ cvars_l cs) (skeys s)) then Err Missing
      else bind (eval_all s reads) (fun _ => bind (is_zero s dur) (fun z => Ok (negb z && negb drop)))
  | KPoint =>
      (* all channels dropped -> None; duration == 0 -> None; then the entries (of all channels) are instantiated *)
      if drop then Ok false
      else bind (is_zero s dur) (fun z => if z then Ok false else bind (eval_all s reads) (fun _ => Ok true))
  | KFunction =>
      (* channel dropped -> None; expression.evaluate_symbolic(parameters) iterates parameters.items() (as_dict) and
         substitutes symbolically; duration evaluated; a name left in the residual -> ValueError.  A name without
         value that cancels (0*x) goes unnoticed. *)
      if drop then Ok false
      else if negb (forced_ok s) then Err Missing
      else bind (is_zero s dur) (fun _ =>
           if forallb (res_closed (lookup s)) reads then Ok true else Err Other)
  | KConst =>
      (* duration evaluated first (also when dropped); duration > 0: amplitudes of the kept channels evaluated;
         waveform iff a channel is kept *)
      bind (is_pos s dur) (fun pos =>
        if pos then bind (eval_all s (kept dr (combine chs reads))) (fun _ => Ok (negb drop)) else Ok false)
  end).

(* ArithmeticPT._get_scalar_value: value._evaluate_to_time_dependent(scope) = evaluate_numeric( **scope ): every key of
   the scope is evaluated (as_dict); a single expression is evaluated always, a per-channel mapping only for the
   kept channels *)
Definition scalar (s : scope) (es : list expr) : result unit :=
  match es with
  | [] => Ok tt
  | _ => if negb (forced_ok s) then Err Missing else eval_all s es
  end.

(* MappingPT.map_parameter_values (used when the parent is atomic): eager *)
Fixpoint eval_mapping (s : scope) (m : list (ident * expr)) : result (list (ident * Q)) :=
  match m with
  | [] => Ok []
  | (p, e) :: r => match eval (lookup s) e with
                   | None => Err Missing
                   | Some q => bind (eval_mapping s r) (fun l => Ok ((p, q) :: l))
                   end
  end.
Definition eager (s : scope) (m : list (ident * expr)) (cs : list constr) : result scope :=
  if negb (keys_ok s) then Err Missing
  else if negb (subset (vars_l (map snd m) ++ cvars_l cs) (skeys s)) then Err Missing
  else bind (validate s cs) (fun _ => bind (eval_mapping s m) (fun l => Ok (SDict l))).

(* ParallelChannelPT._get_overwritten_channels_values with time dependent values e*t (t is not a parameter): each
   kept value is substituted symbolically (evaluate_symbolic iterates parameters.items() = as_dict: every key forced;
   no check that the names are present); ParallelChannelTransformation then asserts that only t is left
   (AssertionError).  Nothing is evaluated when every such channel is dropped (/repo 1b3543b). *)
Definition tdep (s : scope) (owt : list (ident * expr)) (dr : list ident) : result unit :=
  match kept dr owt with
  | [] => Ok tt
  | es => if negb (forced_ok s) then Err Missing
          else if forallb (res_closed (lookup s)) es then Ok tt else Err Other
  end.

Definition ms_of (p : pt) : list (expr * expr) :=
  match p with
  | Atom _ _ _ _ _ ms | AMC _ _ ms | Seq _ _ ms | Rep _ _ _ ms | For _ _ _ _ _ _ ms => ms
  | _ => []
  end.

(* children in order; the first error is raised; result = any child produced something *)
Definition fold_or {X} (f : X -> result bool) : list X -> result bool :=
  fix go (l : list X) : result bool :=
    match l with
    | [] => Ok false
    | q :: r => bind (f q) (fun w => bind (go r) (fun w' => Ok (w || w')))
    end.
Definition fold_unit {X} (f : X -> result unit) : list X -> result unit :=
  fix go (l : list X) : result unit :=
    match l with
    | [] => Ok tt
    | q :: r => bind (f q) (fun _ => go r)
    end.

(* build_waveform in atomic context *)
Fixpoint build (p : pt) (s : scope) (drop : list ident) {struct p} : result bool :=
  match p with
  | Atom k chs reads dur cs _ => build_atom k chs reads dur cs s drop
  | AMC subs cs _ =>
      bind (validate s cs) (fun _ => fold_or (fun q => build q s drop) subs)
  | Par inner ow =>
      bind (build inner s drop) (fun w => if w then bind (eval_all s (kept drop ow)) (fun _ => Ok true) else Ok false)
  | Ari inner sa sc =>
      bind (build inner s drop) (fun w =>
        if w then bind (scalar s (sa ++ kept drop sc)) (fun _ => Ok true) else Ok false)
  | Map inner m cs => bind (eager s m cs) (fun s' => build inner s' drop)
  | Ren inner r => build inner s (ren_drop r drop)
  | ParT inner owt =>
      bind (build inner s drop) (fun w => if w then bind (tdep s owt drop) (fun _ => Ok true) else Ok false)
  | _ => Err Other
  end.

(* get_measurement_windows in atomic context *)
Fixpoint meas_at (p : pt) (s : scope) {struct p} : result unit :=
  match p with
  | Atom _ _ _ _ _ ms => meas s ms
  | AMC subs _ ms =>
      bind (meas s ms) (fun _ => fold_unit (fun q => meas_at q s) subs)
  | Par inner _ => meas_at inner s
  | Ari inner _ _ => meas_at inner s
  | Map inner m cs => bind (eager s m cs) (fun s' => meas_at inner s')
  | Ren inner _ => meas_at inner s
  | ParT inner _ => meas_at inner s
  | _ => Err Other
  end.

(* _create_program: Ok b, b = something was appended to the program *)
Fixpoint run (p : pt) (s : scope) (drop : list ident) {struct p} : result bool :=
  match p with
  | Atom _ _ _ _ _ _ | AMC _ _ _ =>
      bind (build p s drop) (fun w => if w then bind (meas_at p s) (fun _ => Ok true) else Ok false)
  | Par inner ow =>
      bind (eval_all s (kept drop ow)) (fun _ => run inner s drop)
  | Ari inner sa sc =>
      bind (scalar s (sa ++ kept drop sc)) (fun _ => run inner s drop)
  | Seq subs cs ms =>
      bind (validate s cs) (fun _ => bind (meas s ms) (fun _ => fold_or (fun q => run q s drop) subs))
  | Rep body count cs ms =>
      bind (validate s cs) (fun _ => bind (eval_int s count) (fun n =>
        if 0 <? n then bind (meas s ms) (fun _ => run body s drop) else Ok false))
  | For body i a b st cs ms =>
      bind (validate s cs) (fun _ =>
      bind (eval_int s a) (fun a' => bind (eval_int s b) (fun b' => bind (eval_int s st) (fun st' =>
      if st' =? 0 then Err Other else
      bind (meas s ms) (fun _ => fold_or (fun v => run body (SRange s i v) drop) (zrange a' b' st'))))))
  | Map inner m cs => bind (validate s cs) (fun _ => run inner (SMapped s m) drop)
  | Ren inner r => run inner s (ren_drop r drop)
  | ParT inner owt => bind (tdep s owt drop) (fun _ => run inner s drop)
  end.

(* PulseTemplate.create_program(parameters=values, channel_mapping=...) on the constructed template *)
Definition create_program (p : pt) (values : list (ident * Q)) (drop : list ident) : result bool :=
  run (construct p) (SDict values) drop.
