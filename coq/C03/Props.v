(* C03 — property theorems (statements only; proofs live in Proofs*.v).

   run p s drop            operational model of PulseTemplate._create_program on the constructed template p with
                           scope object s and the set `drop` of channels mapped to None (Model.v);
                           create_program u values drop = run (construct u) (SDict values) drop
   verdict p rho drop      the ideal lazy verdict over obs p rho drop, the obligations of all reached nodes (Spec.v)
   visible / all_hold / none_missing / plays   the specification's visible constraints, "everything holds",
                           "no needed value missing", "something is played"
   ob_abs                  an obligation with its environment evaluated away (what is asked + its value)
   wf p                    every mapping has an entry for every parameter of its template, parts of a multi-channel
                           atom are atomic; established by the constructors (C03_construct_wf)
   uok u                   user-level precondition of construct: parts of an AtomicMultiChannelPT are atomic
   guard_C03_function_zero p rho drop   no reached function atom has an expression that cannot be evaluated but
                           whose symbolic residual is closed (known finding function-zero-factor-hides-missing-parameter)
   Ren inner r             the channel_mapping of a MappingPT (inner channel -> outer channel); every theorem below
                           quantifies over trees with renamings and over the set `drop` of dropped outer channels
   refines a b             a = b, or a = Err Missing, or b = Err Missing and a = Err Other
   refines_u a b           a = b, or a = Err Missing, or b = Err Missing                                              *)
From Coq Require Import ZArith QArith Bool List.
Require Import QV.C03.Model QV.C03.Spec QV.C03.Proofs QV.C03.Proofs2 QV.C03.Proofs3 QV.C03.Proofs4 QV.C03.Proofs5
               QV.C03.Proofs6 QV.C03.Proofs7 QV.C03.Proofs8 QV.C03.Proofs9 QV.C03.Proofs10 QV.C03.Proofs11.

Theorem C03_construct_wf : forall u, uok u -> wf (construct u).
Proof. exact construct_wf. Qed.
Print Assumptions C03_construct_wf.

(* MappingPT.__init__ (identity completion, merging of nested mappings) preserves the specification: the obligations
   (what is asked and its value, in order) and whether something plays.  Hence every theorem below speaks about the
   specification of the user-level tree u, which is what check_spec evaluates. *)
Theorem C03_construct_spec : forall u, uok u -> forall rho drop,
  map ob_abs (obs (construct u) rho drop) = map ob_abs (obs u rho drop)
  /\ plays (construct u) rho drop = plays u rho drop.
Proof. exact construct_obs. Qed.
Print Assumptions C03_construct_spec.

(* every scope, every constructed tree: the model agrees with the ideal verdict, or reports a missing parameter, or
   reports another error where the ideal verdict reports a missing value *)
Theorem C03_refines : forall p s drop, wf p -> guard_C03_function_zero p (lookup s) drop = true ->
  refines (run p s drop) (verdict p (lookup s) drop).
Proof. intros p s drop H. exact (run_ref p H s drop). Qed.
Print Assumptions C03_refines.

(* ... without the guard: where the ideal verdict is "missing value" the model (= the code) may do anything *)
Theorem C03_refines_unguarded : forall p s drop, wf p -> refines_u (run p s drop) (verdict p (lookup s) drop).
Proof. intros p s drop H. exact (run_ref_u p H s drop). Qed.
Print Assumptions C03_refines_unguarded.

Theorem C03_user_refines : forall u values drop, uok u ->
  guard_C03_function_zero u (lookup (SDict values)) drop = true ->
  refines (create_program u values drop) (verdict u (lookup (SDict values)) drop).
Proof. exact user_refines. Qed.
Print Assumptions C03_user_refines.

(* (a) values for the declared names suffice: never "missing parameter" *)
Theorem C03_sufficient : forall u values drop, uok u ->
  (forall x, In x (pnames (construct u)) -> In x (map fst values)) ->
  create_program u values drop <> Err Missing.
Proof. exact create_program_sufficient. Qed.
Print Assumptions C03_sufficient.

(* (b) assignments that agree on the declared names give the same result (extra names, other values for them),
   also when declared names are absent from both *)
Theorem C03_irrelevant : forall u v1 v2 drop, uok u ->
  (forall x, In x (pnames (construct u)) -> assoc x v1 = assoc x v2) ->
  create_program u v1 drop = create_program u v2 drop.
Proof. exact irrelevant_full. Qed.
Print Assumptions C03_irrelevant.

(* (c) with every declared name supplied: accepted iff every obligation of every reached node holds (all visible
   constraints true, counts/ranges integral, windows non-negative); a program iff something plays *)
Theorem C03_constraints : forall u values drop b, uok u ->
  (forall x, In x (pnames (construct u)) -> In x (map fst values)) ->
  (create_program u values drop = Ok b <->
   all_hold u (lookup (SDict values)) drop = true /\ b = plays u (lookup (SDict values)) drop).
Proof. exact user_iff. Qed.
Print Assumptions C03_constraints.

(* (c) ... otherwise, numbers being well-formed, a constraint violation is raised *)
Theorem C03_constraints_reject : forall u values drop, uok u ->
  (forall x, In x (pnames (construct u)) -> In x (map fst values)) ->
  all_hold u (lookup (SDict values)) drop = false -> some_other u (lookup (SDict values)) drop = false ->
  create_program u values drop = Err Violated.
Proof. exact user_violated. Qed.
Print Assumptions C03_constraints_reject.

(* (c, only-if, any assignment) a result is returned only if every visible constraint is true in the environment its
   node sees and no needed value is missing *)
Theorem C03_constraints_sound : forall u values drop b, uok u ->
  guard_C03_function_zero u (lookup (SDict values)) drop = true -> create_program u values drop = Ok b ->
  (forall c r, In (c, r) (visible u (lookup (SDict values)) drop) -> ceval r c = Some true)
  /\ none_missing u (lookup (SDict values)) drop = true /\ b = plays u (lookup (SDict values)) drop.
Proof. exact user_sound. Qed.
Print Assumptions C03_constraints_sound.

(* the same for an arbitrary scope object and constructed tree *)
Theorem C03_constraints_sound_scope : forall p s drop b, wf p -> guard_C03_function_zero p (lookup s) drop = true ->
  run p s drop = Ok b ->
  (forall c r, In (c, r) (visible p (lookup s) drop) -> ceval r c = Some true)
  /\ none_missing p (lookup s) drop = true /\ b = plays p (lookup s) drop.
Proof.
  intros p s drop b Hwf Hg Hr. destruct (accepted_sound p s drop b Hwf Hg Hr) as [H1 H2].
  split; [apply all_hold_visible; auto|split; [apply all_hold_none_missing; auto|auto]].
Qed.
Print Assumptions C03_constraints_sound_scope.

(* (c, never rejects wrongly, any assignment) a violation is raised only for a false visible constraint *)
Theorem C03_violation_justified : forall u values drop, uok u ->
  guard_C03_function_zero u (lookup (SDict values)) drop = true -> create_program u values drop = Err Violated ->
  exists c r, In (c, r) (visible u (lookup (SDict values)) drop) /\ ceval r c = Some false.
Proof. exact user_violation_justified. Qed.
Print Assumptions C03_violation_justified.

(* (d) a missing needed value never yields a program (nor None) -- under the guard ... *)
Theorem C03_missing : forall u values drop b, uok u ->
  guard_C03_function_zero u (lookup (SDict values)) drop = true ->
  none_missing u (lookup (SDict values)) drop = false -> create_program u values drop <> Ok b.
Proof. exact user_missing. Qed.
Print Assumptions C03_missing.

(* ... and not without it: FunctionPT('(p0*p5)*t') with p0 = 0, p5 missing yields a program (known finding) *)
Theorem C03_missing_refuted : exists u values drop b, uok u /\
  none_missing u (lookup (SDict values)) drop = false /\ create_program u values drop = Ok b.
Proof. exact missing_refuted. Qed.
Print Assumptions C03_missing_refuted.

(* (d), guard tightened (round 5): the guard is needed only where the ideal verdict is "missing value"; when an earlier
   obligation is violated / ill-formed, no function atom behind it matters.  (What is still excluded although harmless:
   Proofs10.ex_guard_overapprox.) *)
Theorem C03_missing_tight : forall u values drop b, uok u ->
  (guard_C03_function_zero u (lookup (SDict values)) drop = true
   \/ verdict u (lookup (SDict values)) drop <> Err Missing) ->
  none_missing u (lookup (SDict values)) drop = false -> create_program u values drop <> Ok b.
Proof. exact user_missing_tight. Qed.
Print Assumptions C03_missing_tight.

(* ---- round 6: the guard made exact.  guard_C03_function_zero_tight looks only at the obligations up to and including
   the first failing one (Spec.upto_fail); it is false exactly when the obligation that decides the ideal verdict is a
   function expression (function atom / time dependent ParallelChannelPT value) whose missing name vanishes
   symbolically -- the known finding itself, nothing more.  Refinement, (c only-if) and (d) hold under it. ---- *)
Theorem C03_guard_exact : forall p rho drop,
  guard_C03_function_zero_tight p rho drop = false <->
  exists a e r b, obs p rho drop = a ++ OF e r :: b /\ first_fail (map ob_stat a) = None /\ vanishes r e = true.
Proof. exact guard_tight_false_iff. Qed.
Print Assumptions C03_guard_exact.

Theorem C03_guard_exact_weaker : forall p rho drop,
  guard_C03_function_zero p rho drop = true -> guard_C03_function_zero_tight p rho drop = true.
Proof. exact guard_tight_weaker. Qed.
Print Assumptions C03_guard_exact_weaker.

Theorem C03_refines_exact_guard : forall u values drop, uok u ->
  guard_C03_function_zero_tight u (lookup (SDict values)) drop = true ->
  refines (create_program u values drop) (verdict u (lookup (SDict values)) drop).
Proof. exact user_refines_tight. Qed.
Print Assumptions C03_refines_exact_guard.

Theorem C03_refines_exact_guard_scope : forall p s drop, wf p ->
  guard_C03_function_zero_tight p (lookup s) drop = true -> refines (run p s drop) (verdict p (lookup s) drop).
Proof. intros p s drop H. exact (run_ref_tight p H s drop). Qed.
Print Assumptions C03_refines_exact_guard_scope.

Theorem C03_missing_exact_guard : forall u values drop b, uok u ->
  guard_C03_function_zero_tight u (lookup (SDict values)) drop = true ->
  none_missing u (lookup (SDict values)) drop = false -> create_program u values drop <> Ok b.
Proof. exact user_missing_exact. Qed.
Print Assumptions C03_missing_exact_guard.

Theorem C03_constraints_sound_exact_guard : forall u values drop b, uok u ->
  guard_C03_function_zero_tight u (lookup (SDict values)) drop = true -> create_program u values drop = Ok b ->
  (forall c r, In (c, r) (visible u (lookup (SDict values)) drop) -> ceval r c = Some true)
  /\ none_missing u (lookup (SDict values)) drop = true /\ b = plays u (lookup (SDict values)) drop.
Proof. exact user_sound_exact. Qed.
Print Assumptions C03_constraints_sound_exact_guard.

Theorem C03_violation_justified_exact_guard : forall u values drop, uok u ->
  guard_C03_function_zero_tight u (lookup (SDict values)) drop = true -> create_program u values drop = Err Violated ->
  exists c r, In (c, r) (visible u (lookup (SDict values)) drop) /\ ceval r c = Some false.
Proof. exact user_violation_justified_exact. Qed.
Print Assumptions C03_violation_justified_exact_guard.

(* ---- the helper functions that the operational model AND the specification use (Model.v: zrange, ren_drop, kept,
   adrop) characterised on their own: loop index values = Python's range; which inner channels a renaming MappingPT
   drops; which overwriting values / atoms are kept.  No theorem above looks inside them. ---- *)
Theorem C03_range_values : forall a b st v, (st <> 0)%Z ->
  (In v (zrange a b st) <-> exists k, (0 <= k /\ v = a + k * st /\ (if 0 <? st then v < b else b < v))%Z).
Proof. exact zrange_spec. Qed.
Print Assumptions C03_range_values.

Theorem C03_range_order : forall a b st k, (k < length (zrange a b st))%nat ->
  nth k (zrange a b st) 0%Z = (a + Z.of_nat k * st)%Z.
Proof. exact zrange_nth. Qed.
Print Assumptions C03_range_order.

Theorem C03_channel_drop : forall r dr c,
  In c (ren_drop r dr) <->
  (In c dr /\ assoc c r = None) \/
  (exists t, In (c, t) r /\ match t with Some o => In o dr | None => True end).
Proof. exact ren_drop_spec. Qed.
Print Assumptions C03_channel_drop.

Theorem C03_kept_values : forall dr l e, In e (kept dr l) <-> exists c, In (c, e) l /\ ~ In c dr.
Proof. exact kept_spec. Qed.
Print Assumptions C03_kept_values.
