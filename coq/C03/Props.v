(* C03 — property theorems (statements only; proofs live in Proofs*.v). *)
From Coq Require Import ZArith QArith Bool List.
Require Import QV.C03.Model QV.C03.Spec.
