(* C03 — property theorems (statements only; proofs live in Proofs*.v). *)
From Coq Require Import ZArith QArith Bool List.
Require Import QV.C03.Model QV.C03.Spec QV.C03.Proofs QV.C03.Proofs2 QV.C03.Proofs3.

(* The operational model (scope objects, keys()/as_dict(), eager mapping inside atomic parents, per-class order of
   evaluation) refines the ideal lazy verdict over the list of obligations of all reached nodes: it agrees with it,
   or reports a missing parameter, or reports another error where the ideal verdict reports a missing value. *)
Theorem C03_refines : forall p s drop, wf p -> refines (run p s drop) (verdict p (lookup s) drop).
Proof. intros p s drop H. exact (run_ref p H s drop). Qed.
Print Assumptions C03_refines.

(* (c, only-if) a program (or None) is returned only if every obligation of every reached node holds; in particular
   every visible constraint is true in the environment its node sees; the result is a program iff something plays *)
Theorem C03_constraints_sound : forall p s drop b, wf p -> run p s drop = Ok b ->
  (forall c r, In (c, r) (visible p (lookup s) drop) -> ceval r c = Some true)
  /\ none_missing p (lookup s) drop = true /\ b = plays p (lookup s) drop.
Proof.
  intros p s drop b Hwf Hr. destruct (accepted_sound p s drop b Hwf Hr) as [H1 H2].
  split; [apply all_hold_visible; auto|split; [apply all_hold_none_missing; auto|auto]].
Qed.
Print Assumptions C03_constraints_sound.

(* (c, never rejects wrongly) a constraint violation is raised only if a visible constraint is false *)
Theorem C03_violation_justified : forall p s drop, wf p -> run p s drop = Err Violated ->
  exists c r, In (c, r) (visible p (lookup s) drop) /\ ceval r c = Some false.
Proof. exact violated_sound. Qed.
Print Assumptions C03_violation_justified.

(* (d) a missing needed value never yields a program *)
Theorem C03_missing : forall p s drop b, wf p -> none_missing p (lookup s) drop = false -> run p s drop <> Ok b.
Proof. exact missing_never_ok. Qed.
Print Assumptions C03_missing.
