(* C03 — proofs, part 6: with values for all declared names no obligation of the specification is "missing",
   hence the model agrees exactly with the ideal verdict. *)
From Coq Require Import ZArith QArith Bool List Lia.
Require Import QV.C03.Model QV.C03.Spec QV.C03.Proofs QV.C03.Proofs2 QV.C03.Proofs3 QV.C03.Proofs4 QV.C03.Proofs5.
Import ListNotations.
Open Scope Z_scope.

Definition closed (rho : env) (X : list ident) : Prop := forall x, In x X -> rho x <> None.
Definition NM (l : list ob) : Prop := forall o, In o l -> ob_stat o <> FMissing.

Lemma closed_app : forall rho X Y, closed rho (X ++ Y) <-> closed rho X /\ closed rho Y.
Proof.
  unfold closed; intros; split.
  - intro H; split; intros; apply H; apply in_or_app; auto.
  - intros [H1 H2] x Hx. apply in_app_or in Hx as [?|?]; auto.
Qed.
Lemma closed_sub : forall rho X Y, (forall x, In x X -> In x Y) -> closed rho Y -> closed rho X.
Proof. unfold closed; auto. Qed.
Lemma NM_app : forall a b, NM (a ++ b) <-> NM a /\ NM b.
Proof.
  unfold NM; intros; split.
  - intro H; split; intros; apply H; apply in_or_app; auto.
  - intros [H1 H2] o Ho. apply in_app_or in Ho as [?|?]; auto.
Qed.
Lemma NM_nil : NM [].
Proof. intros o []. Qed.
Lemma NM_cons : forall o l, ob_stat o <> FMissing -> NM l -> NM (o :: l).
Proof. intros o l H1 H2 o' [<-|H]; auto. Qed.
Lemma NM_flat_map : forall X (f : X -> list ob) l, (forall x, In x l -> NM (f x)) -> NM (flat_map f l).
Proof. intros X f l H o Ho. apply in_flat_map in Ho as [x [Hx Ho]]. exact (H x Hx o Ho). Qed.

Lemma closed_eval : forall rho e, closed rho (vars e) -> eval rho e <> None.
Proof. intros. apply eval_some; auto. Qed.

Lemma stat_OR : forall rho e, closed rho (vars e) -> ob_stat (OR e rho) <> FMissing.
Proof. intros rho e H. cbn. destruct (eval rho e) eqn:E; [discriminate|exfalso; exact (closed_eval _ _ H E)]. Qed.
Lemma stat_OF : forall rho e, closed rho (vars e) -> ob_stat (OF e rho) <> FMissing.
Proof. intros rho e H. cbn. destruct (eval rho e) eqn:E; [discriminate|exfalso; exact (closed_eval _ _ H E)]. Qed.
Lemma stat_OI : forall rho e, closed rho (vars e) -> ob_stat (OI e rho) <> FMissing.
Proof.
  intros rho e H. cbn. destruct (eval rho e) eqn:E; [|exfalso; exact (closed_eval _ _ H E)].
  destruct (to_int q); discriminate.
Qed.
Lemma stat_ONZ : forall rho e, closed rho (vars e) -> ob_stat (ONZ e rho) <> FMissing.
Proof.
  intros rho e H. cbn. destruct (eval rho e) eqn:E; [|exfalso; exact (closed_eval _ _ H E)].
  destruct (to_int q); [destruct (z =? 0)|]; discriminate.
Qed.
Lemma stat_ONN : forall rho e, closed rho (vars e) -> ob_stat (ONN e rho) <> FMissing.
Proof.
  intros rho e H. cbn. destruct (eval rho e) eqn:E; [|exfalso; exact (closed_eval _ _ H E)].
  destruct (Qlt_b q 0); discriminate.
Qed.

Lemma NM_obs_c : forall rho cs, closed rho (cvars_l cs) -> NM (obs_c rho cs).
Proof.
  induction cs as [|[op l r] cs IH]; intros C; cbn; [apply NM_nil|].
  unfold cvars_l in C; cbn in C. apply closed_app in C as [C1 C2]. apply closed_app in C1 as [Cl Cr].
  apply NM_cons; [|apply IH; auto]. cbn.
  destruct (eval rho l) eqn:El; [|exfalso; exact (closed_eval _ _ Cl El)].
  destruct (eval rho r) eqn:Er; [|exfalso; exact (closed_eval _ _ Cr Er)].
  destruct (cmp_eval op q q0); discriminate.
Qed.
Lemma NM_obs_r : forall rho es, closed rho (vars_l es) -> NM (obs_r rho es).
Proof.
  induction es as [|e es IH]; intros C; cbn; [apply NM_nil|].
  unfold vars_l in C; cbn in C. apply closed_app in C as [C1 C2].
  apply NM_cons; [apply stat_OR; auto|apply IH; auto].
Qed.
Lemma NM_obs_f : forall rho es, closed rho (vars_l es) -> NM (obs_f rho es).
Proof.
  induction es as [|e es IH]; intros C; cbn; [apply NM_nil|].
  unfold vars_l in C; cbn in C. apply closed_app in C as [C1 C2].
  apply NM_cons; [apply stat_OF; auto|apply IH; auto].
Qed.
Lemma closed_kept : forall rho dr l, closed rho (vars_l (map snd l)) -> closed rho (vars_l (kept dr l)).
Proof. intros. eapply closed_sub; [|exact H]. apply kept_vars. Qed.
Lemma NM_obs_m : forall rho ms, closed rho (mvars_l ms) -> NM (obs_m rho ms).
Proof.
  induction ms as [|[b l] ms IH]; intros C; cbn; [apply NM_nil|].
  unfold mvars_l in C; cbn in C. apply closed_app in C as [C1 C2]. apply closed_app in C1 as [Cb Cl].
  apply NM_cons; [apply stat_ONN; auto|]. apply NM_cons; [apply stat_ONN; auto|apply IH; auto].
Qed.

Lemma closed_map_env : forall rho m X, closed rho (vars_l (map snd m)) -> (forall x, In x X -> In x (map fst m)) ->
  closed (map_env rho m) X.
Proof.
  intros rho m X C Hk x Hx. unfold map_env. destruct (assoc x m) eqn:E.
  - apply closed_eval. eapply closed_sub; [|exact C]. intros y Hy. unfold vars_l. apply in_flat_map.
    exists e. split; auto. apply in_map_iff. exists (x, e). split; auto. eapply assoc_some_in; eauto.
  - exfalso. eapply assoc_none_notin; eauto.
Qed.

Definition atomic_closed (p : pt) : Prop :=
  wf p -> forall rho drop, closed rho (pnames p) -> NM (obs_build p rho drop) /\ NM (obs_meas p rho).

Lemma atomic_closed_all : forall p, atomic_closed p.
Proof.
  induction p using pt_ind'; unfold atomic_closed; intros Hwf rho drop C; cbn [pnames] in C;
    cbn [obs_build obs_meas]; try (split; apply NM_nil).
  - apply closed_app in C as [Cr C]. apply closed_app in C as [Cd C]. apply closed_app in C as [Cm Cc].
    split; [|apply NM_obs_m; auto]. apply NM_app. split; [apply NM_obs_c; auto|].
    destruct k.
    + apply NM_app; split; [apply NM_obs_r; auto|]. apply NM_cons; [apply stat_OR; auto|apply NM_nil].
    + destruct (adrop chs drop); [apply NM_nil|]. apply NM_cons; [apply stat_OR; auto|].
      destruct (nonzero rho dur); [apply NM_obs_r; auto|apply NM_nil].
    + destruct (adrop chs drop); [apply NM_nil|]. apply NM_cons; [apply stat_OR; auto|apply NM_obs_f; auto].
    + apply NM_cons; [apply stat_OR; auto|]. destruct (positive rho dur); [|apply NM_nil].
      apply NM_obs_r. eapply closed_sub; [|exact Cr]. apply kept_combine_vars.
  - apply closed_app in C as [Cm C]. apply closed_app in C as [Cc Cs].
    cbn [wf] in Hwf. destruct Hwf as [_ Hwf]. apply wf_subs in Hwf. rewrite Forall_forall in H, Hwf.
    assert (Hq : forall q, In q subs -> NM (obs_build q rho drop) /\ NM (obs_meas q rho)).
    { intros q Hq. apply H; auto. eapply closed_sub; [|exact Cs]. apply flat_map_in_sub; auto. }
    split; apply NM_app; split.
    + apply NM_obs_c; auto.
    + apply NM_flat_map. intros q Hin. apply Hq; auto.
    + apply NM_obs_m; auto.
    + apply NM_flat_map. intros q Hin. apply Hq; auto.
  - apply closed_app in C as [Ci Co]. cbn [wf] in Hwf. destruct (IHp Hwf rho drop Ci) as [H1 H2].
    split; [|exact H2]. apply NM_app; split; auto.
    destruct (wave p rho drop); [apply NM_obs_r; apply closed_kept; auto|apply NM_nil].
  - apply closed_app in C as [Ci Co]. cbn [wf] in Hwf. destruct (IHp Hwf rho drop Ci) as [H1 H2].
    split; auto. apply NM_app; split; auto.
    destruct (wave p rho drop); [|apply NM_nil]. apply NM_obs_r.
    apply closed_app in Co as [Ca Cc]. unfold vars_l. rewrite flat_map_app. apply closed_app. split; auto.
    apply closed_kept; auto.
  - apply closed_app in C as [Cm Cc]. cbn [wf] in Hwf. destruct Hwf as [Hsub Hwf]. rewrite subset_in in Hsub.
    destruct (IHp Hwf (map_env rho m) drop (closed_map_env _ _ _ Cm Hsub)) as [H1 H2].
    split; auto. apply NM_app; split; auto. apply NM_obs_c; auto.
  - (* Ren *) cbn [wf] in Hwf. apply IHp; auto.
  - (* ParT *)
    apply closed_app in C as [Ci Co]. cbn [wf] in Hwf. destruct (IHp Hwf rho drop Ci) as [H1 H2].
    split; [|exact H2]. apply NM_app; split; auto.
    destruct (wave p rho drop); [apply NM_obs_f; apply closed_kept; auto|apply NM_nil].
Qed.

Definition obs_closed (p : pt) : Prop :=
  wf p -> forall rho drop, closed rho (pnames p) -> NM (obs p rho drop).

Lemma obs_closed_all : forall p, obs_closed p.
Proof.
  induction p using pt_ind'; unfold obs_closed; intros Hwf rho drop C.
  - destruct (atomic_closed_all _ Hwf rho drop C) as [H1 H2].
    cbn [obs]. apply NM_app; split; auto. destruct (wave _ rho drop); auto. apply NM_nil.
  - destruct (atomic_closed_all _ Hwf rho drop C) as [H1 H2].
    cbn [obs]. apply NM_app; split; auto. destruct (wave _ rho drop); auto. apply NM_nil.
  - cbn [pnames] in C. apply closed_app in C as [Ci Co]. cbn [wf] in Hwf. cbn [obs].
    apply NM_app; split; [apply NM_obs_r; apply closed_kept; auto|apply IHp; auto].
  - cbn [pnames] in C. apply closed_app in C as [Ci Co]. cbn [wf] in Hwf. cbn [obs].
    apply NM_app; split; [|apply IHp; auto]. apply NM_obs_r.
    apply closed_app in Co as [Ca Cc]. unfold vars_l. rewrite flat_map_app. apply closed_app. split; auto.
    apply closed_kept; auto.
  - cbn [pnames] in C. apply closed_app in C as [Cc C]. apply closed_app in C as [Cm Cs].
    cbn [wf] in Hwf. apply wf_subs in Hwf. rewrite Forall_forall in H, Hwf. cbn [obs].
    apply NM_app; split; [apply NM_obs_c; auto|]. apply NM_app; split; [apply NM_obs_m; auto|].
    apply NM_flat_map. intros q Hq. apply H; auto. eapply closed_sub; [|exact Cs]. apply flat_map_in_sub; auto.
  - cbn [pnames] in C. apply closed_app in C as [Cb C]. apply closed_app in C as [Cc C].
    apply closed_app in C as [Cm Cn]. cbn [wf] in Hwf. cbn [obs].
    apply NM_app; split; [apply NM_obs_c; auto|]. apply NM_cons; [apply stat_OI; auto|].
    destruct (int_of rho count); [|apply NM_nil]. destruct (0 <? z); [|apply NM_nil].
    apply NM_app; split; [apply NM_obs_m; auto|apply IHp; auto].
  - cbn [pnames] in C. apply closed_app in C as [Cb C]. apply closed_app in C as [Cr C].
    apply closed_app in C as [Cc Cm]. apply closed_app in Cr as [Ca Cr]. apply closed_app in Cr as [Cb' Cst].
    cbn [wf] in Hwf. cbn [obs].
    apply NM_app; split; [apply NM_obs_c; auto|]. apply NM_cons; [apply stat_OI; auto|].
    apply NM_cons; [apply stat_OI; auto|]. apply NM_cons; [apply stat_ONZ; auto|].
    destruct (range_of rho a b st); [|apply NM_nil].
    apply NM_app; split; [apply NM_obs_m; auto|]. apply NM_flat_map. intros v _. apply IHp; auto.
    intros x Hx. unfold upd. destruct (N.eqb_spec x i); [discriminate|]. apply Cb. apply remove_id_in; auto.
  - cbn [pnames] in C. apply closed_app in C as [Cm Cc]. cbn [wf] in Hwf. destruct Hwf as [Hsub Hwf].
    rewrite subset_in in Hsub. cbn [obs]. apply NM_app; split; [apply NM_obs_c; auto|].
    apply IHp; auto. apply closed_map_env; auto.
  - (* Ren *) cbn [pnames] in C. cbn [wf] in Hwf. cbn [obs]. apply IHp; auto.
  - (* ParT *) cbn [pnames] in C. apply closed_app in C as [Ci Co]. cbn [wf] in Hwf. cbn [obs].
    apply NM_app; split; [apply NM_obs_f; apply closed_kept; auto|apply IHp; auto].
Qed.

Lemma verdict_not_missing : forall p rho drop, wf p -> closed rho (pnames p) -> verdict p rho drop <> Err Missing.
Proof.
  intros p rho drop Hwf C. unfold verdict, verd.
  destruct (first_fail (map ob_stat (obs p rho drop))) as [e|] eqn:E; [|discriminate].
  intro H. inversion H; subst. apply first_fail_some in E. apply in_map_iff in E as [o [Ho Hin]].
  exact (obs_closed_all p Hwf rho drop C o Hin Ho).
Qed.

Lemma covers_closed : forall s X, covers s X -> closed (lookup s) X.
Proof. intros s X H x Hx. apply H; auto. Qed.

(* all declared names supplied: the model is exactly the ideal verdict *)
Lemma complete_exact : forall p s drop, wf p -> good s -> covers s (pnames p) ->
  run p s drop = verdict p (lookup s) drop.
Proof.
  intros p s drop Hwf G C. destruct (complete_agrees p s drop Hwf G C) as [H|H]; auto.
  exfalso. exact (verdict_not_missing p (lookup s) drop Hwf (covers_closed _ _ C) H).
Qed.
