(* C03 — proofs, part 4: values for the declared names suffice (no "missing parameter"). *)
From Coq Require Import ZArith QArith Bool List Lia.
Require Import QV.C03.Model QV.C03.Spec QV.C03.Proofs QV.C03.Proofs2.
Import ListNotations.
Open Scope Z_scope.

(* every mapping expression of every MappedScope layer is evaluable *)
Fixpoint good (s : scope) : Prop :=
  match s with
  | SDict _ => True
  | SMapped s' m => good s' /\ forall k e, In (k, e) m -> eval (lookup s') e <> None
  | SRange s' _ _ => good s'
  end.

Definition covers (s : scope) (X : list ident) : Prop :=
  forall x, In x X -> In x (skeys s) /\ lookup s x <> None.

Lemma assoc_some_in : forall A x (m : list (ident * A)) v, assoc x m = Some v -> In (x, v) m.
Proof.
  induction m as [|[k w] m IH]; cbn; intros v H; [discriminate|].
  destruct (N.eqb_spec x k); [inversion H; subst; auto|right; auto].
Qed.

Lemma assoc_none_notin : forall A x (m : list (ident * A)), assoc x m = None -> ~ In x (map fst m).
Proof.
  induction m as [|[k w] m IH]; cbn; intros H; [tauto|].
  destruct (N.eqb_spec x k); [discriminate|]. intros [?|?]; [congruence|]. apply IH; auto.
Qed.

Lemma good_total : forall s, good s ->
  (forall k, In k (skeys s) -> lookup s k <> None) /\ forced_ok s = true /\ keys_ok s = true.
Proof.
  induction s as [vs|s IH m|s IH i v]; cbn [good skeys lookup forced_ok keys_ok]; intros G.
  - split; auto. intros k Hk. apply assoc_in_keys; auto.
  - destruct G as [G Hm]. destruct (IH G) as [T [F K]].
    assert (Tot : forall k, In k (map fst m ++ skeys s) -> map_env (lookup s) m k <> None).
    { intros k Hk. unfold map_env. destruct (assoc k m) eqn:E.
      - eapply Hm. eapply assoc_some_in; eauto.
      - apply T. apply in_app_or in Hk as [Hk|Hk]; auto. exfalso. eapply assoc_none_notin; eauto. }
    split; auto. split; auto. rewrite K. cbn. apply forallb_forall. intros k Hk.
    specialize (Tot k Hk). destruct (map_env (lookup s) m k); auto; congruence.
  - destruct (IH G) as [T [F K]]. split; auto.
    intros k Hk. unfold upd. destruct (N.eqb_spec k i); [discriminate|].
    destruct Hk as [Hk|Hk]; [congruence|auto].
Qed.

Lemma eval_some : forall rho e, (forall x, In x (vars e) -> rho x <> None) -> eval rho e <> None.
Proof.
  induction e; cbn; intros H; try discriminate.
  - apply H; auto.
  - destruct (eval rho e1) eqn:E1; [|exfalso; apply IHe1; auto; intros; apply H; apply in_or_app; auto].
    destruct (eval rho e2) eqn:E2; [discriminate|exfalso; apply IHe2; auto; intros; apply H; apply in_or_app; auto].
  - destruct (eval rho e1) eqn:E1; [|exfalso; apply IHe1; auto; intros; apply H; apply in_or_app; auto].
    destruct (eval rho e2) eqn:E2; [discriminate|exfalso; apply IHe2; auto; intros; apply H; apply in_or_app; auto].
  - destruct (eval rho e1) eqn:E1; [|exfalso; apply IHe1; auto; intros; apply H; apply in_or_app; auto].
    destruct (eval rho e2) eqn:E2; [discriminate|exfalso; apply IHe2; auto; intros; apply H; apply in_or_app; auto].
Qed.

Lemma covers_app : forall s X Y, covers s (X ++ Y) <-> covers s X /\ covers s Y.
Proof.
  unfold covers; intros; split.
  - intro H; split; intros; apply H; apply in_or_app; auto.
  - intros [H1 H2] x Hx. apply in_app_or in Hx as [?|?]; auto.
Qed.

Lemma covers_sub : forall s X Y, (forall x, In x X -> In x Y) -> covers s Y -> covers s X.
Proof. unfold covers; auto. Qed.

Lemma covers_eval : forall s e, covers s (vars e) -> eval (lookup s) e <> None.
Proof. intros s e H. apply eval_some. intros x Hx. apply H; auto. Qed.

Lemma covers_subset : forall s X, covers s X -> subset X (skeys s) = true.
Proof. intros s X H. apply subset_in. intros x Hx. apply H; auto. Qed.

Definition nm {A} (r : result A) : Prop := r <> Err Missing.

Lemma bind_nm : forall A B (a : result A) (f : A -> result B),
  nm a -> (forall x, a = Ok x -> nm (f x)) -> nm (bind a f).
Proof.
  intros A B a f Ha Hf. destruct a as [x|e]; cbn; auto. unfold nm in *. congruence.
Qed.

Lemma validate_nm : forall s cs, good s -> covers s (cvars_l cs) -> nm (validate s cs).
Proof.
  intros s cs G. destruct (good_total s G) as [_ [_ K]].
  induction cs as [|c r IH]; intros C; cbn [validate]; [discriminate|].
  unfold cvars_l in C; cbn in C. apply covers_app in C as [C1 C2].
  unfold fulfilled. rewrite K, (covers_subset _ _ C1). cbn [negb].
  destruct c as [op l rr]. cbn [ceval]. cbn [cvars] in C1. apply covers_app in C1 as [Cl Cr].
  destruct (eval (lookup s) l) eqn:El; [|exfalso; exact (covers_eval _ _ Cl El)].
  destruct (eval (lookup s) rr) eqn:Er; [|exfalso; exact (covers_eval _ _ Cr Er)].
  cbn [bind]. destruct (cmp_eval op q q0); [apply IH; auto|discriminate].
Qed.

Lemma eval_all_ok : forall s es, covers s (vars_l es) -> eval_all s es = Ok tt.
Proof.
  induction es as [|e r IH]; intros C; cbn; auto.
  unfold vars_l in C; cbn in C. apply covers_app in C as [C1 C2].
  destruct (eval (lookup s) e) eqn:E; [apply IH; auto|exfalso; exact (covers_eval _ _ C1 E)].
Qed.

Lemma meas_nm : forall s ms, covers s (mvars_l ms) -> nm (meas s ms).
Proof.
  induction ms as [|[b l] r IH]; intros C; cbn [meas]; [discriminate|].
  unfold mvars_l in C; cbn in C. apply covers_app in C as [C1 C2]. apply covers_app in C1 as [Cb Cl].
  destruct (eval (lookup s) b) eqn:Eb; [|exfalso; exact (covers_eval _ _ Cb Eb)].
  destruct (eval (lookup s) l) eqn:El; [|exfalso; exact (covers_eval _ _ Cl El)].
  destruct (Qlt_b q 0 || Qlt_b q0 0); [discriminate|apply IH; auto].
Qed.

Lemma eval_int_nm : forall s e, covers s (vars e) -> nm (eval_int s e).
Proof.
  intros s e C. unfold eval_int. destruct (eval (lookup s) e) eqn:E; [|exfalso; exact (covers_eval _ _ C E)].
  destruct (to_int q); discriminate.
Qed.

Lemma is_zero_nm : forall s e, covers s (vars e) -> nm (is_zero s e).
Proof.
  intros s e C. unfold is_zero. destruct (eval (lookup s) e) eqn:E; [discriminate|exfalso; exact (covers_eval _ _ C E)].
Qed.

Lemma is_pos_nm : forall s e, covers s (vars e) -> nm (is_pos s e).
Proof.
  intros s e C. unfold is_pos. destruct (eval (lookup s) e) eqn:E; [discriminate|exfalso; exact (covers_eval _ _ C E)].
Qed.

Lemma covers_kept : forall s dr l, covers s (vars_l (map snd l)) -> covers s (vars_l (kept dr l)).
Proof. intros. eapply covers_sub; [|exact H]. apply kept_vars. Qed.

Lemma fold_or_nm : forall X (f : X -> result bool) l, (forall x, In x l -> nm (f x)) -> nm (fold_or f l).
Proof.
  induction l as [|q r IH]; intros H; cbn [fold_or]; [discriminate|].
  apply bind_nm; [apply H; left; auto|]. intros w _. apply bind_nm; [apply IH; intros; apply H; right; auto|].
  intros; discriminate.
Qed.

Lemma fold_unit_nm : forall X (f : X -> result unit) l, (forall x, In x l -> nm (f x)) -> nm (fold_unit f l).
Proof.
  induction l as [|q r IH]; intros H; cbn [fold_unit]; [discriminate|].
  apply bind_nm; [apply H; left; auto|]. intros w _. apply IH; intros; apply H; right; auto.
Qed.

Lemma eval_mapping_keys : forall s m l, eval_mapping s m = Ok l -> map fst l = map fst m.
Proof.
  induction m as [|[k e] m IH]; cbn; intros l H; [inversion H; auto|].
  destruct (eval (lookup s) e); [|discriminate].
  destruct (eval_mapping s m) as [l'|]; cbn in H; [|discriminate]. inversion H; subst. cbn. f_equal; auto.
Qed.

Lemma eval_mapping_nm : forall s m, covers s (vars_l (map snd m)) -> nm (eval_mapping s m).
Proof.
  induction m as [|[k e] m IH]; intros C; cbn [eval_mapping]; [discriminate|].
  cbn in C. unfold vars_l in C; cbn in C. apply covers_app in C as [C1 C2].
  destruct (eval (lookup s) e) eqn:E; [|exfalso; exact (covers_eval _ _ C1 E)].
  apply bind_nm; [apply IH; auto|]. intros; discriminate.
Qed.

Lemma eager_nm : forall B s m cs (f : scope -> result B), good s -> covers s (vars_l (map snd m) ++ cvars_l cs) ->
  (forall l, eval_mapping s m = Ok l -> nm (f (SDict l))) -> nm (bind (eager s m cs) f).
Proof.
  intros B s m cs f G C Hf. destruct (good_total s G) as [_ [_ K]].
  unfold eager. rewrite K, (covers_subset _ _ C). cbn [negb]. apply covers_app in C as [C1 C2].
  apply bind_nm.
  - apply bind_nm; [apply validate_nm; auto|]. intros _ _.
    apply bind_nm; [apply eval_mapping_nm; auto|]. intros; discriminate.
  - intros s' Hs'. destruct (validate s cs); cbn in Hs'; [|discriminate].
    destruct (eval_mapping s m) as [l|] eqn:El; cbn in Hs'; [|discriminate]. inversion Hs'; subst. auto.
Qed.

Lemma eager_covers : forall s m l X, eval_mapping s m = Ok l -> (forall x, In x X -> In x (map fst m)) ->
  covers (SDict l) X.
Proof.
  intros s m l X Hl Hk x Hx. cbn. rewrite (eval_mapping_keys _ _ _ Hl). split; auto.
  apply assoc_in_keys. rewrite (eval_mapping_keys _ _ _ Hl). auto.
Qed.

Lemma scalar_nm : forall s es, good s -> covers s (vars_l es) -> nm (scalar s es).
Proof.
  intros s es G C. unfold scalar. destruct es as [|e r]; [discriminate|].
  destruct (good_total s G) as [_ [F _]]. rewrite F. cbn [negb]. rewrite (eval_all_ok _ _ C). discriminate.
Qed.

Lemma tdep_nm : forall s owt drop, good s -> nm (tdep s owt drop).
Proof.
  intros s owt drop G. destruct (good_total s G) as [_ [F _]]. unfold tdep.
  rewrite F. cbn [negb]. destruct (kept drop _); [discriminate|].
  destruct (forallb _ _); discriminate.
Qed.

Definition build_nm_ok (p : pt) : Prop :=
  wf p -> atomic p = true -> forall s drop, good s -> covers s (pnames p) ->
    nm (build p s drop) /\ nm (meas_at p s).

Lemma build_nm : forall p, build_nm_ok p.
Proof.
  induction p using pt_ind'; unfold build_nm_ok; intros Hwf Hat s drop G C; cbn [atomic] in Hat; try discriminate;
    cbn [pnames] in C.
  - apply covers_app in C as [Cr C]. apply covers_app in C as [Cd C]. apply covers_app in C as [Cm Cc].
    destruct (good_total s G) as [_ [F K]].
    split; [|apply meas_nm; auto].
    cbn [build]. unfold build_atom. apply bind_nm; [apply validate_nm; auto|]. intros _ _.
    destruct k.
    + rewrite K. cbn [negb].
      assert (Hs : subset (vars_l reads ++ vars dur ++ cvars_l cs) (skeys s) = true).
      { apply covers_subset. apply covers_app; split; auto. apply covers_app; split; auto. }
      rewrite Hs. cbn [negb]. rewrite (eval_all_ok _ _ Cr). cbn [bind].
      apply bind_nm; [apply is_zero_nm; auto|]. intros; discriminate.
    + destruct (adrop chs drop); [discriminate|].
      apply bind_nm; [apply is_zero_nm; auto|]. intros z _. destruct z; [discriminate|].
      rewrite (eval_all_ok _ _ Cr). discriminate.
    + destruct (adrop chs drop); [discriminate|]. rewrite F. cbn [negb].
      apply bind_nm; [apply is_zero_nm; auto|]. intros z _. destruct (forallb _ reads); discriminate.
    + apply bind_nm; [apply is_pos_nm; auto|]. intros pos _. destruct pos; [|discriminate].
      rewrite (eval_all_ok s (kept drop (combine chs reads))); [discriminate|].
      eapply covers_sub; [|exact Cr]. apply kept_combine_vars.
  - apply covers_app in C as [Cm C]. apply covers_app in C as [Cc Cs].
    cbn [wf] in Hwf. destruct Hwf as [_ Hwf]. apply wf_subs in Hwf.
    rewrite Forall_forall in H, Hwf. rewrite forallb_forall in Hat.
    assert (Hq : forall q, In q subs -> nm (build q s drop) /\ nm (meas_at q s)).
    { intros q Hq. apply H; auto. eapply covers_sub; [|exact Cs]. apply flat_map_in_sub; auto. }
    split.
    + cbn [build]. apply bind_nm; [apply validate_nm; auto|]. intros _ _.
      apply fold_or_nm. intros q Hin. apply Hq; auto.
    + cbn [meas_at]. apply bind_nm; [apply meas_nm; auto|]. intros _ _.
      apply fold_unit_nm. intros q Hin. apply Hq; auto.
  - (* Par (below an atomic composite) *)
    apply covers_app in C as [Ci Co]. cbn [wf] in Hwf. destruct (IHp Hwf Hat s drop G Ci) as [Hb Hm].
    split; [|exact Hm]. cbn [build]. apply bind_nm; auto. intros w _. destruct w; [|discriminate].
    rewrite (eval_all_ok s (kept drop ow)); [discriminate|]. apply covers_kept; auto.
  - (* Ari *)
    apply covers_app in C as [Ci Co]. cbn [wf] in Hwf. destruct (IHp Hwf Hat s drop G Ci) as [Hb Hm].
    split; [|exact Hm]. cbn [build]. apply bind_nm; auto. intros w _. destruct w; [|discriminate].
    apply bind_nm; [|intros; discriminate]. apply scalar_nm; auto.
    apply covers_app in Co as [Ca Cc]. unfold vars_l. rewrite flat_map_app. apply covers_app. split; auto.
    apply covers_kept; auto.
  - cbn [wf] in Hwf. destruct Hwf as [Hsub Hwf]. rewrite subset_in in Hsub.
    split.
    + cbn [build]. apply eager_nm; auto. intros l Hl.
      apply IHp; cbn; auto. eapply eager_covers; eauto.
    + cbn [meas_at]. apply eager_nm; auto. intros l Hl.
      apply (IHp Hwf Hat (SDict l) drop); cbn; auto. eapply eager_covers; eauto.
  - (* Ren *)
    cbn [wf] in Hwf. cbn [build meas_at]. apply IHp; auto.
  - (* ParT *)
    apply covers_app in C as [Ci Co]. cbn [wf] in Hwf. destruct (IHp Hwf Hat s drop G Ci) as [Hb Hm].
    split; [|exact Hm]. cbn [build]. apply bind_nm; auto. intros w _. destruct w; [|discriminate].
    apply bind_nm; [apply tdep_nm; auto|intros; discriminate].
Qed.

Lemma remove_id_in : forall x i l, In x l -> x <> i -> In x (remove_id i l).
Proof.
  intros. unfold remove_id. apply filter_In. split; auto. destruct (N.eqb_spec x i); auto.
Qed.

Definition run_nm_ok (p : pt) : Prop :=
  wf p -> forall s drop, good s -> covers s (pnames p) -> nm (run p s drop).

Lemma run_atomic_nm : forall p s drop, wf p -> atomic p = true -> good s -> covers s (pnames p) ->
  nm (bind (build p s drop) (fun w => if w then bind (meas_at p s) (fun _ => Ok true) else Ok false)).
Proof.
  intros p s drop Hwf Hat G C. destruct (build_nm p Hwf Hat s drop G C) as [Hb Hm].
  apply bind_nm; auto. intros w _. destruct w; [|discriminate].
  apply bind_nm; auto. intros; discriminate.
Qed.

Lemma run_nm : forall p, run_nm_ok p.
Proof.
  induction p using pt_ind'; unfold run_nm_ok; intros Hwf s drop G C.
  - apply run_atomic_nm; auto.
  - apply run_atomic_nm; auto. cbn [wf] in Hwf. cbn [atomic]. tauto.
  - cbn [run]. cbn [pnames] in C. apply covers_app in C as [Ci Co]. cbn [wf] in Hwf.
    apply bind_nm.
    + rewrite (eval_all_ok s (kept drop ow)); [discriminate|]. apply covers_kept; auto.
    + intros _ _. apply IHp; auto.
  - (* Ari *)
    cbn [run]. cbn [pnames] in C. apply covers_app in C as [Ci Co]. cbn [wf] in Hwf.
    apply bind_nm.
    + apply scalar_nm; auto.
      apply covers_app in Co as [Ca Cc]. unfold vars_l. rewrite flat_map_app. apply covers_app. split; auto.
      apply covers_kept; auto.
    + intros _ _. apply IHp; auto.
  - cbn [run]. cbn [pnames] in C. apply covers_app in C as [Cc C]. apply covers_app in C as [Cm Cs].
    cbn [wf] in Hwf. apply wf_subs in Hwf. rewrite Forall_forall in H, Hwf.
    apply bind_nm; [apply validate_nm; auto|]. intros _ _.
    apply bind_nm; [apply meas_nm; auto|]. intros _ _.
    apply fold_or_nm. intros q Hq. apply H; auto. eapply covers_sub; [|exact Cs]. apply flat_map_in_sub; auto.
  - cbn [run]. cbn [pnames] in C. apply covers_app in C as [Cb C]. apply covers_app in C as [Cc C].
    apply covers_app in C as [Cm Cn]. cbn [wf] in Hwf.
    apply bind_nm; [apply validate_nm; auto|]. intros _ _.
    apply bind_nm; [apply eval_int_nm; auto|]. intros n _.
    destruct (0 <? n); [|discriminate].
    apply bind_nm; [apply meas_nm; auto|]. intros _ _. apply IHp; auto.
  - cbn [run]. cbn [pnames] in C. apply covers_app in C as [Cb C]. apply covers_app in C as [Cr C].
    apply covers_app in C as [Cc Cm]. apply covers_app in Cr as [Ca Cr]. apply covers_app in Cr as [Cb' Cst].
    cbn [wf] in Hwf.
    apply bind_nm; [apply validate_nm; auto|]. intros _ _.
    apply bind_nm; [apply eval_int_nm; auto|]. intros a' _.
    apply bind_nm; [apply eval_int_nm; auto|]. intros b' _.
    apply bind_nm; [apply eval_int_nm; auto|]. intros st' _.
    destruct (st' =? 0); [discriminate|].
    apply bind_nm; [apply meas_nm; auto|]. intros _ _.
    apply fold_or_nm. intros v _. apply IHp; auto.
    intros x Hx. cbn [skeys lookup]. unfold upd. destruct (N.eqb_spec x i).
    + split; [left; auto|discriminate].
    + destruct (Cb x (remove_id_in _ _ _ Hx n)) as [H1 H2]. split; [right; auto|auto].
  - cbn [run]. cbn [pnames] in C. apply covers_app in C as [Cm Cc].
    cbn [wf] in Hwf. destruct Hwf as [Hsub Hwf]. rewrite subset_in in Hsub.
    apply bind_nm; [apply validate_nm; auto|]. intros _ _.
    assert (Hm : forall k e, In (k, e) m -> eval (lookup s) e <> None).
    { intros k e Hin. apply covers_eval. eapply covers_sub; [|exact Cm].
      intros x Hx. unfold vars_l. apply in_flat_map. exists e. split; auto.
      apply in_map_iff. exists (k, e); auto. }
    apply IHp; auto.
    + cbn [good]. split; auto.
    + intros x Hx. specialize (Hsub x Hx). cbn [skeys lookup]. split; [apply in_or_app; auto|].
      unfold map_env. destruct (assoc x m) eqn:E.
      * eapply Hm. eapply assoc_some_in; eauto.
      * exfalso. eapply assoc_none_notin; eauto.
  - (* Ren *)
    cbn [run]. cbn [pnames] in C. cbn [wf] in Hwf. apply IHp; auto.
  - (* ParT *)
    cbn [run]. cbn [pnames] in C. apply covers_app in C as [Ci Co]. cbn [wf] in Hwf.
    apply bind_nm; [apply tdep_nm; auto|]. intros _ _. apply IHp; auto.
Qed.
