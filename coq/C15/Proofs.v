(* C15 — proofs about the model (Model.v) against the specification (Spec.v). *)
From Coq Require Import ZArith NArith Bool List Lia.
Require Import QV.C15.Model QV.C15.Spec.
Import ListNotations.
Open Scope Z_scope.

(* ------------------------------------------------------------------------------------------------------------ *)
(* list / membership helpers *)
Lemma mem_app x a b : mem x (a ++ b) = mem x a || mem x b.
Proof. unfold mem. apply existsb_app. Qed.

Lemma mem_true_iff x l : mem x l = true <-> In x l.
Proof.
  unfold mem. rewrite existsb_exists. split.
  - intros [y [Hy E]]. apply N.eqb_eq in E. subst. exact Hy.
  - intros H. exists x. split; [exact H|apply N.eqb_refl].
Qed.

Lemma mem_cons x y l : mem x (y :: l) = N.eqb x y || mem x l.
Proof. reflexivity. Qed.
Lemma mem_nil x : mem x [] = false.
Proof. reflexivity. Qed.

Lemma mem_filter x f l : mem x (filter f l) = mem x l && f x.
Proof.
  induction l as [|y l IH]; [reflexivity|]. cbn [filter].
  destruct (f y) eqn:Fy; rewrite ?mem_cons, IH; destruct (N.eqb x y) eqn:E; cbn [orb andb]; try reflexivity;
    apply N.eqb_eq in E; subst; rewrite Fy; rewrite ?andb_false_r; reflexivity.
Qed.

Lemma lookup_mem_fst {A} x (m : list (name * A)) :
  mem x (map fst m) = match lookup x m with Some _ => true | None => false end.
Proof.
  induction m as [|[k v] m IH]; [reflexivity|]. cbn [map fst lookup]. rewrite mem_cons.
  destruct (N.eqb x k); cbn [orb]; [reflexivity|exact IH].
Qed.

(* members of  map fst (filter g m)  when g only looks at the key *)
Lemma mem_map_fst_filter {A} x (g : name -> bool) (m : list (name * A)) :
  mem x (map fst (filter (fun xe => g (fst xe)) m)) = mem x (map fst m) && g x.
Proof.
  induction m as [|[k v] m IH]; [reflexivity|]. cbn [filter map fst].
  destruct (g k) eqn:G; cbn [map fst]; rewrite ?mem_cons, IH; destruct (N.eqb x k) eqn:E; cbn [orb andb];
    try reflexivity; apply N.eqb_eq in E; subst; rewrite G; rewrite ?andb_false_r; reflexivity.
Qed.

Lemma existsb_ext' {A} (f g : A -> bool) l : (forall x, f x = g x) -> existsb f l = existsb g l.
Proof. intros H. induction l; cbn; [reflexivity|]. rewrite H, IHl. reflexivity. Qed.

Lemma filter_ext' {A} (f g : A -> bool) l : (forall x, f x = g x) -> filter f l = filter g l.
Proof. intros H. induction l; cbn; [reflexivity|]. rewrite H, IHl. reflexivity. Qed.

Lemma eval_ext f g e : (forall x, f x = g x) -> eval f e = eval g e.
Proof. intros H. induction e; cbn; try rewrite IHe1, IHe2; auto. Qed.

(* ------------------------------------------------------------------------------------------------------------ *)
(* T1: the key set reported by get_volatile_parameters is exactly "depends on a volatile parameter" *)
Lemma vkeys_depends : forall s x, mem x (vkeys s) = depends s x.
Proof.
  induction s as [vals vol|inner IH m|a sa IHa b sb IHb]; intros x; cbn [vkeys depends].
  - reflexivity.
  - destruct (vkeys inner) as [|v0 vs] eqn:EV.
    + cbn. destruct (lookup x m) as [e|].
      * symmetry. rewrite (existsb_ext' _ (fun _ => false)).
        { induction (vars e); cbn; auto. }
        intros y. rewrite <- IH. reflexivity.
      * rewrite <- IH. reflexivity.
    + rewrite mem_app, mem_filter.
      rewrite (mem_map_fst_filter x (fun k => match lookup k m with
                                               | Some e => intersects (vars e) (v0 :: vs)
                                               | None => false end) m).
      rewrite lookup_mem_fst.
      destruct (lookup x m) as [e|]; cbn [andb orb].
      * rewrite andb_false_r. cbn [orb]. unfold intersects.
        apply existsb_ext'. intros y. rewrite <- IH. reflexivity.
      * rewrite andb_true_r, orb_false_r. apply IH.
  - rewrite mem_app.
    assert (E : forall n s0, mem x (if mem n (vkeys s0) then [n] else []) = N.eqb x n && mem n (vkeys s0)).
    { intros n s0. destruct (mem n (vkeys s0)); cbn; [rewrite orb_false_r, andb_true_r|rewrite andb_false_r]; reflexivity. }
    rewrite !E.
    destruct (N.eqb x a) eqn:Ea; destruct (N.eqb x b) eqn:Eb; cbn;
      try (apply N.eqb_eq in Ea; subst a); try (apply N.eqb_eq in Eb; subst b);
      rewrite ?IHa, ?IHb; reflexivity.
Qed.

Lemma intersects_depends e s : intersects (vars e) (vkeys s) = existsb (depends s) (vars e).
Proof. unfold intersects. apply existsb_ext'. intros y. apply vkeys_depends. Qed.

(* ------------------------------------------------------------------------------------------------------------ *)
(* T2: create_program of the model = the independent instantiation of Spec.v *)

Lemma spec_inst_ext : forall p s1 s2 d1 d2,
  (forall x, s1 x = s2 x) -> (forall x, d1 x = d2 x) -> spec_inst p s1 d1 = spec_inst p s2 d2.
Proof.
  fix IH 1. intros p s1 s2 d1 d2 Hs Hd. destruct p as [w|l|e m body|mp body]; cbn [spec_inst].
  - reflexivity.
  - induction l as [|q r IHr]; [reflexivity|].
    rewrite (IH q s1 s2 d1 d2 Hs Hd). rewrite IHr. reflexivity.
  - rewrite (eval_ext s1 s2 e Hs). destruct (eval s2 e) as [v|]; [|reflexivity].
    destruct (v <=? 0); [reflexivity|].
    rewrite (IH body s1 s2 d1 d2 Hs Hd).
    rewrite (existsb_ext' d1 d2 _ Hd), (filter_ext' d1 d2 _ Hd). reflexivity.
  - apply IH.
    + intros x. unfold map_sigma. destruct (lookup x mp); [apply eval_ext; exact Hs|apply Hs].
    + intros x. unfold map_delta. destruct (lookup x mp); [apply existsb_ext'; exact Hd|apply Hd].
Qed.

Definition res_obs (r : result (list prog * bool)) : option (list otree) :=
  match r with Ok (ks, _) => Some (map obs_of ks) | Err _ => None end.

(* errors of the model are exactly the evaluation failures of the specification *)
Lemma cp_meets_spec : forall p s, res_obs (cp p s) = spec_inst p (get_param s) (depends s).
Proof.
  fix IH 1. intros p s. destruct p as [w|l|e m body|mp body]; cbn [cp spec_inst].
  - reflexivity.
  - induction l as [|q r IHr]; [reflexivity|].
    rewrite <- (IH q s). destruct (cp q s) as [[k1 m1]|k]; cbn [res_obs]; [|reflexivity].
    rewrite <- IHr.
    match goal with |- context [match ?X with Ok _ => _ | Err _ => _ end] => destruct X as [[k2 m2]|k'] end;
      cbn [res_obs]; [rewrite map_app|]; reflexivity.
  - destruct (eval (get_param s) e) as [v|] eqn:EV; [|reflexivity].
    destruct (0 <? v) eqn:Pv.
    + assert (Hle : (v <=? 0) = false) by lia. rewrite Hle.
      rewrite <- (IH body s). destruct (cp body s) as [[ks km]|k]; cbn [res_obs]; [|reflexivity].
      destruct ks as [|k0 ks']; [reflexivity|]. cbn [map].
      cbn [res_obs map obs_of]. f_equal. f_equal. f_equal.
      * unfold cnt. cbn [rep_of]. rewrite intersects_depends.
        destruct (existsb (depends s) (vars e)); cbn [int_of_rep]; [rewrite EV; f_equal; lia|reflexivity].
      * rewrite intersects_depends.
        destruct (existsb (depends s) (vars e)); cbn [dep_keys]; [|reflexivity].
        f_equal. f_equal. apply filter_ext'. intros x. apply vkeys_depends.
    + assert (Hle : (v <=? 0) = true) by lia. rewrite Hle. reflexivity.
  - rewrite (IH body (SMapped s mp)). apply spec_inst_ext.
    + intros x. cbn [get_param]. unfold map_sigma. reflexivity.
    + intros x. cbn [depends]. unfold map_delta. reflexivity.
Qed.

Definition prog_obs (r : result (option prog)) : option (option otree) :=
  match r with Ok (Some t) => Some (Some (obs_of t)) | Ok None => Some None | Err _ => None end.

Lemma create_program_meets_spec : forall p vals V,
  prog_obs (create_program p vals V) = spec_program p vals V.
Proof.
  intros p vals V. unfold create_program, spec_program.
  assert (H := cp_meets_spec p (SDict vals V)).
  rewrite (spec_inst_ext p (env_of vals) (get_param (SDict vals V)) (fun x => mem x V) (depends (SDict vals V)))
    by reflexivity.
  rewrite <- H. destruct (cp p (SDict vals V)) as [[ks m]|k]; cbn [res_obs]; [|reflexivity].
  destruct ks as [|k0 ks']; reflexivity.
Qed.

(* ------------------------------------------------------------------------------------------------------------ *)
(* T3: updating the volatile counts of an instantiated program = instantiating with the new values *)
Lemma vkeys_change : forall us s, vkeys (change us s) = vkeys s.
Proof.
  intros us. induction s as [vals vol|inner IH m|a sa IHa b sb IHb]; cbn [change vkeys].
  - reflexivity.
  - rewrite IH. reflexivity.
  - rewrite IHa, IHb. reflexivity.
Qed.

Lemma depends_change us s x : depends (change us s) x = depends s x.
Proof. rewrite <- !vkeys_depends, vkeys_change. reflexivity. Qed.

Lemma lookup_override x us vals :
  lookup x (override us vals) =
  match lookup x vals with
  | Some v => Some (match lookup x us with Some v' => v' | None => v end)
  | None => None
  end.
Proof.
  induction vals as [|[k v] vals IH]; [reflexivity|]. cbn [override map fst snd lookup].
  destruct (N.eqb x k) eqn:E; [apply N.eqb_eq in E; subst; reflexivity|exact IH].
Qed.

Lemma keys_in_lookup us V x : keys_in us V = true -> mem x V = false -> lookup x us = None.
Proof.
  induction us as [|[k v] us IH]; intros H Hx; [reflexivity|]. cbn [keys_in forallb fst] in H.
  apply andb_prop in H as [H1 H2]. cbn [lookup].
  destruct (N.eqb x k) eqn:E; [apply N.eqb_eq in E; subst; congruence|]. apply IH; assumption.
Qed.

Lemma eval_ext_vars f g e : (forall x, In x (vars e) -> f x = g x) -> eval f e = eval g e.
Proof.
  induction e; cbn [eval vars]; intros H; try reflexivity.
  - apply H. left. reflexivity.
  - rewrite IHe1, IHe2; [reflexivity| |]; intros x Hx; apply H; apply in_or_app; auto.
  - rewrite IHe1, IHe2; [reflexivity| |]; intros x Hx; apply H; apply in_or_app; auto.
  - rewrite IHe1, IHe2; [reflexivity| |]; intros x Hx; apply H; apply in_or_app; auto.
Qed.

Lemma existsb_false_in {A} (f : A -> bool) l : existsb f l = false -> forall x, In x l -> f x = false.
Proof.
  induction l as [|y l IH]; intros H x Hx; [destruct Hx|]. cbn in H. apply orb_false_elim in H as [H1 H2].
  destruct Hx as [->|Hx]; auto.
Qed.

(* a name that does not depend on a volatile parameter keeps its value under an update of volatile parameters *)
Lemma get_param_change_nondep : forall us s x,
  root_vol_ok us s = true -> depends s x = false -> get_param (change us s) x = get_param s x.
Proof.
  intros us. induction s as [vals vol|inner IH m|a sa IHa b sb IHb]; intros x Hok Hd; cbn [change get_param].
  - cbn in Hok, Hd. change (map _ vals) with (override us vals). rewrite lookup_override.
    rewrite (keys_in_lookup us vol x Hok Hd). destruct (lookup x vals); reflexivity.
  - cbn [root_vol_ok] in Hok. cbn [depends] in Hd. destruct (lookup x m) as [e|].
    + apply eval_ext_vars. intros y Hy. apply IH; [exact Hok|]. eapply existsb_false_in; eauto.
    + apply IH; assumption.
  - cbn [root_vol_ok] in Hok. apply andb_prop in Hok as [Ha Hb]. cbn [depends] in Hd.
    apply orb_false_elim in Hd as [H1 H2].
    destruct (N.eqb x a) eqn:Ea; [apply IHa; [exact Ha|]; cbn in H1; exact H1|].
    destruct (N.eqb x b) eqn:Eb; [apply IHb; [exact Hb|]; cbn in H2; exact H2|]. reflexivity.
Qed.

Lemma update_is_reinstantiate_cp : forall p s us ks m,
  root_vol_ok us s = true -> allpos p s = true -> allpos p (change us s) = true ->
  cp p s = Ok (ks, m) -> cp p (change us s) = Ok (map (update us) ks, m).
Proof.
  fix IH 1. intros p s us ks m Hok Hp Hp' Hcp. destruct p as [w|l|e mm body|mp body].
  - cbn in Hcp |- *. inversion Hcp; subst. reflexivity.
  - cbn [cp] in Hcp |- *. cbn [allpos] in Hp, Hp'.
    revert ks m Hp Hp' Hcp. induction l as [|q r IHr]; intros ks m Hp Hp' Hcp.
    + inversion Hcp; subst. reflexivity.
    + cbn [forallb] in Hp, Hp'. apply andb_prop in Hp as [Hq Hr]. apply andb_prop in Hp' as [Hq' Hr'].
      destruct (cp q s) as [[k1 m1]|k] eqn:E1; [|discriminate].
      rewrite (IH q s us k1 m1 Hok Hq Hq' E1).
      match type of Hcp with context [match ?X with Ok _ => _ | Err _ => _ end] => destruct X as [[k2 m2]|k'] eqn:E2 end;
        [|discriminate].
      rewrite (IHr k2 m2 Hr Hr' eq_refl). inversion Hcp; subst. rewrite map_app. reflexivity.
  - cbn [cp] in Hcp |- *. cbn [allpos] in Hp, Hp'.
    destruct (eval (get_param s) e) as [v|] eqn:EV; [|discriminate].
    destruct (eval (get_param (change us s)) e) as [v'|] eqn:EV'; [|discriminate].
    apply andb_prop in Hp as [Hv Hb]. apply andb_prop in Hp' as [Hv' Hb'].
    rewrite Hv in Hcp. rewrite Hv'.
    destruct (cp body s) as [[kb km]|k] eqn:EB; [|discriminate].
    rewrite (IH body s us kb km Hok Hb Hb' EB).
    destruct kb as [|k0 kb']; [inversion Hcp; subst; reflexivity|]. cbn [map].
    inversion Hcp; subst. cbn [map update]. f_equal. f_equal. f_equal. f_equal.
    rewrite vkeys_change. rewrite intersects_depends.
    destruct (existsb (depends s) (vars e)) eqn:ED; cbn [upd_rep]; [reflexivity|].
    f_equal. assert (E : eval (get_param (change us s)) e = eval (get_param s) e).
    { apply eval_ext_vars. intros y Hy. apply get_param_change_nondep; [exact Hok|]. eapply existsb_false_in; eauto. }
    rewrite E in EV'. congruence.
  - cbn [cp allpos] in *. apply (IH body (SMapped s mp) us ks m); assumption.
Qed.

Lemma change_dict us vals V : change us (SDict vals V) = SDict (override us vals) V.
Proof. reflexivity. Qed.

Lemma update_is_reinstantiate : forall p vals V us t,
  keys_in us V = true ->
  guard_C15_zero_count p vals V = true -> guard_C15_zero_count p (override us vals) V = true ->
  create_program p vals V = Ok (Some t) ->
  create_program p (override us vals) V = Ok (Some (update us t)).
Proof.
  intros p vals V us t Hk Hg Hg' Hc. unfold create_program in *. unfold guard_C15_zero_count in *.
  destruct (cp p (SDict vals V)) as [[ks m]|k] eqn:E; [|discriminate].
  rewrite <- change_dict.
  rewrite (update_is_reinstantiate_cp p (SDict vals V) us ks m Hk Hg Hg' E).
  destruct ks as [|k0 ks']; [discriminate|]. inversion Hc; subst. reflexivity.
Qed.

Lemma update_sequence_is_reinstantiate : forall ups p vals V t,
  guard_C15_zero_count_seq p vals V ups = true ->
  create_program p vals V = Ok (Some t) ->
  create_program p (override_all ups vals) V = Ok (Some (update_all ups t)).
Proof.
  induction ups as [|us r IH]; intros p vals V t Hg Hc; [exact Hc|].
  cbn [guard_C15_zero_count_seq] in Hg. apply andb_prop in Hg as [G0 Hg]. apply andb_prop in Hg as [Hk Hr].
  cbn [override_all update_all fold_left]. apply IH; [exact Hr|].
  apply update_is_reinstantiate; try assumption.
  destruct r; cbn [guard_C15_zero_count_seq] in Hr; apply andb_prop in Hr as [G1 _]; exact G1.
Qed.

(* the faithful model of the unchanged code violates the unguarded statement: a count that is 0 at instantiation *)
Lemma update_zero_count_refuted :
  exists p vals V us t,
    keys_in us V = true /\ create_program p vals V = Ok (Some t) /\
    create_program p (override us vals) V <> Ok (Some (update us t)).
Proof.
  exists (PSeq [PRep (EVar 1%N) false (PAtom 0%N); PAtom 1%N]), [(1%N, 0)], [1%N], [(1%N, 2)].
  eexists. split; [reflexivity|]. split; [vm_compute; reflexivity|]. vm_compute. discriminate.
Qed.

(* non-vacuity: a nested, mapped, multiplied template with two updates satisfies all hypotheses *)
Definition ex_pt : pt :=
  PMap [(1%N, EAdd (EVar 4%N) (EConst 1))]
       (PRep (EMul (EConst 2) (EVar 1%N)) false (PSeq [PAtom 0%N; PRep (EMul (EVar 1%N) (EVar 2%N)) true (PAtom 1%N)])).
Lemma ex_guard : guard_C15_zero_count_seq ex_pt [(2%N, 3); (4%N, 1)] [4%N] [[(4%N, 2)]; [(4%N, 5)]] = true.
Proof. vm_compute. reflexivity. Qed.
Lemma ex_changes : exists t, create_program ex_pt [(2%N, 3); (4%N, 1)] [4%N] = Ok (Some t) /\
                             obs_of (update_all [[(4%N, 2)]; [(4%N, 5)]] t) <> obs_of t.
Proof. eexists. split; [vm_compute; reflexivity|]. vm_compute. discriminate. Qed.

(* ------------------------------------------------------------------------------------------------------------ *)
(* T4: merging / cleanup keep volatility and commute with updates *)
Lemma prog_ind' (P : prog -> Prop) :
  (forall r m w ch, Forall P ch -> P (Node r m w ch)) -> forall t, P t.
Proof.
  intros H. fix IH 1. intros [r m w ch]. apply H.
  induction ch as [|c ch IHch]; constructor; [apply IH|exact IHch].
Qed.

Lemma upd_merge_rep us r rc : upd_rep us (merge_rep r rc) = merge_rep (upd_rep us r) (upd_rep us rc).
Proof. destruct r, rc; reflexivity. Qed.

Lemma is_vol_merge_rep r rc : is_vol (merge_rep r rc) = is_vol r || is_vol rc.
Proof. destruct r, rc; reflexivity. Qed.

Lemma mergeable_update us t : mergeable (update us t) = mergeable t.
Proof.
  destruct t as [r m w [|[rc mc wc chc] [|c2 ch]]]; cbn; try reflexivity.
  destruct rc; reflexivity.
Qed.

Lemma merge_update us t : merge (update us t) = update us (merge t).
Proof.
  destruct t as [r m w [|[rc mc wc chc] [|c2 ch]]]; cbn [update map merge]; try reflexivity.
  cbn [update]. rewrite upd_merge_rep. reflexivity.
Qed.

Definition cleanup_child (c : prog) : list prog :=
  match c with
  | Node _ _ cw [] => match cw with None => [] | Some _ => [c] end
  | _ => match cleanup c with
         | Node _ _ None [] => []
         | c' => [c']
         end
  end.

Lemma cleanup_unfold r m w ch :
  cleanup (Node r m w ch) =
  let t' := Node r m w (flat_map cleanup_child ch) in if mergeable t' then merge t' else t'.
Proof. reflexivity. Qed.

Lemma cleanup_update : forall us t, cleanup (update us t) = update us (cleanup t).
Proof.
  intros us. induction t as [r m w ch IH] using prog_ind'.
  cbn [update]. rewrite !cleanup_unfold. cbv zeta.
  assert (E : flat_map cleanup_child (map (update us) ch) = map (update us) (flat_map cleanup_child ch)).
  { induction IH as [|c ch Hc _ IHch]; [reflexivity|]. cbn [map flat_map]. rewrite map_app, IHch. f_equal.
    destruct c as [rc mc wc [|c1 chc]].
    - cbn. destruct wc; reflexivity.
    - change (cleanup_child (update us (Node rc mc wc (c1 :: chc))))
        with (match cleanup (update us (Node rc mc wc (c1 :: chc))) with Node _ _ None [] => [] | c' => [c'] end).
      change (cleanup_child (Node rc mc wc (c1 :: chc)))
        with (match cleanup (Node rc mc wc (c1 :: chc)) with Node _ _ None [] => [] | c' => [c'] end).
      rewrite Hc. destruct (cleanup (Node rc mc wc (c1 :: chc))) as [r' m' [w'|] [|x xs]]; reflexivity. }
  rewrite E.
  change (Node (upd_rep us r) m w (map (update us) (flat_map cleanup_child ch)))
    with (update us (Node r m w (flat_map cleanup_child ch))).
  rewrite mergeable_update. destruct (mergeable (Node r m w (flat_map cleanup_child ch))); [apply merge_update|reflexivity].
Qed.

(* the merged count is the product of the two counts (one of them non-negative; both negative: see below) *)
Lemma merge_rep_count r rc a b :
  int_of_rep r = Some a -> int_of_rep rc = Some b ->
  (match r, rc with Vol _ _, Vol _ _ => False | _, _ => True end) -> 0 <= a -> 0 <= b ->
  int_of_rep (merge_rep r rc) = Some (a * b).
Proof.
  destruct r as [x|e s], rc as [y|ec sc]; cbn [int_of_rep merge_rep eval]; intros Ha Hb Hn H0 H1.
  - inversion Ha; inversion Hb; reflexivity.
  - inversion Ha; subst. destruct (eval (get_param sc) ec) as [v|]; [|discriminate]. inversion Hb; subst. f_equal. nia.
  - inversion Hb; subst. destruct (eval (get_param s) e) as [v|]; [|discriminate]. inversion Ha; subst. f_equal. nia.
  - destruct Hn.
Qed.

(* two volatile counts: the joint scope evaluates the product of the raw values *)
Lemma merge_rep_count_joint e s ec sc v1 v2 :
  eval (get_param s) e = Some v1 -> eval (get_param sc) ec = Some v2 ->
  int_of_rep (merge_rep (Vol e s) (Vol ec sc)) = Some (Z.max 0 (v1 * v2)).
Proof.
  intros H1 H2. cbn [merge_rep int_of_rep eval get_param]. cbn. rewrite H1, H2. reflexivity.
Qed.

(* ... which is not the product of the clamped counts when both raw values are negative *)
Lemma merge_joint_negative_refuted :
  exists r rc a b, int_of_rep r = Some a /\ int_of_rep rc = Some b /\ int_of_rep (merge_rep r rc) <> Some (a * b).
Proof.
  exists (Vol (EVar 1%N) (SDict [(1%N, -1)] [1%N])), (Vol (EVar 1%N) (SDict [(1%N, -2)] [1%N])), 0, 0.
  repeat split; vm_compute; discriminate.
Qed.

(* dependency keys of a merged joint count: both operands are reported *)
Lemma merge_joint_dep_keys e s ec sc :
  intersects (vars e) (vkeys s) = true -> intersects (vars ec) (vkeys sc) = true ->
  dep_keys (merge_rep (Vol e s) (Vol ec sc)) = Some [JP; JC].
Proof.
  intros H1 H2. cbn [merge_rep dep_keys vars app filter].
  assert (A : mem JP (vkeys (SJoint JP (SMapped s [(JP, e)]) JC (SMapped sc [(JC, ec)]))) = true).
  { rewrite vkeys_depends. cbn [depends lookup]. rewrite N.eqb_refl. cbn [andb orb].
    rewrite <- intersects_depends, H1. reflexivity. }
  assert (B : mem JC (vkeys (SJoint JP (SMapped s [(JP, e)]) JC (SMapped sc [(JC, ec)]))) = true).
  { rewrite vkeys_depends. cbn [depends lookup]. rewrite N.eqb_refl.
    rewrite <- intersects_depends, H2. cbn. reflexivity. }
  rewrite A, B. reflexivity.
Qed.

(* cleaned-up updated program = cleaned-up re-instantiated program *)
Lemma cleanup_update_is_reinstantiate : forall ups p vals V t,
  guard_C15_zero_count_seq p vals V ups = true ->
  create_program p vals V = Ok (Some t) ->
  exists t', create_program p (override_all ups vals) V = Ok (Some t') /\
             cleanup t' = update_all ups (cleanup t).
Proof.
  intros ups p vals V t Hg Hc. exists (update_all ups t). split.
  - apply update_sequence_is_reinstantiate; assumption.
  - clear. revert t. induction ups as [|us r IH]; intros t; [reflexivity|].
    cbn [update_all fold_left]. fold (update_all r (update us t)). fold (update_all r (update us (cleanup t))).
    rewrite IH, cleanup_update. reflexivity.
Qed.

(* ------------------------------------------------------------------------------------------------------------ *)
(* T5: flatten_and_balance: when no volatile loop is unrolled (no VolatileModificationWarning) every decision is
   independent of the volatile values, so flattening commutes with updates *)
Lemma depth_cons r m w c ch :
  depth (Node r m w (c :: ch)) = 1 + fold_right (fun c acc => Z.max (depth c) acc) 0 (c :: ch).
Proof. reflexivity. Qed.
Lemma balanced_cons r m w c ch :
  balanced (Node r m w (c :: ch)) = forallb (fun e => (depth e =? depth c) && balanced e) (c :: ch).
Proof. reflexivity. Qed.

Lemma depth_update us : forall t, depth (update us t) = depth t.
Proof.
  induction t as [r m w ch IH] using prog_ind'. destruct ch as [|c ch]; [reflexivity|].
  cbn [update map]. rewrite !depth_cons. f_equal.
  change (update us c :: map (update us) ch) with (map (update us) (c :: ch)).
  induction IH as [|x xs Hx _ IHxs]; [reflexivity|]. cbn [map fold_right]. rewrite Hx, IHxs. reflexivity.
Qed.

Lemma balanced_update us : forall t, balanced (update us t) = balanced t.
Proof.
  induction t as [r m w ch IH] using prog_ind'. destruct ch as [|c ch]; [reflexivity|].
  cbn [update map]. rewrite !balanced_cons. rewrite depth_update. generalize (depth c). intros d0.
  change (update us c :: map (update us) ch) with (map (update us) (c :: ch)).
  induction IH as [|x xs Hx _ IHxs]; [reflexivity|]. cbn [map forallb]. rewrite depth_update, Hx, IHxs. reflexivity.
Qed.

Lemma cnt_update_fixed us t : is_vol (rep_of t) = false -> cnt (update us t) = cnt t.
Proof. destruct t as [[n|e s] m w ch]; cbn; [reflexivity|discriminate]. Qed.

Lemma map_repeat_list {A B} (f : A -> B) n l : map f (repeat_list n l) = repeat_list n (map f l).
Proof. induction n; cbn; [reflexivity|]. rewrite map_app, IHn. reflexivity. Qed.

Lemma unrolled_update us t :
  is_vol (rep_of t) = false -> unrolled (update us t) = map (update us) (unrolled t).
Proof.
  intros H. unfold unrolled. rewrite (cnt_update_fixed us t H), map_repeat_list.
  destruct t; reflexivity.
Qed.

Lemma fab_warn_true : forall f d todo l w, fab f d todo true = Ok (l, w) -> w = true.
Proof.
  induction f as [|f IH]; intros d todo l w H; [discriminate|]. cbn [fab] in H.
  destruct todo as [|sub rest]; [inversion H; reflexivity|].
  destruct (depth sub <? d - 1); [eapply IH; eauto|].
  destruct (negb (balanced sub)).
  { destruct sub as [r m wf ch]. destruct (fab f (d - 1) ch true) as [[ch' w']|k] eqn:E; [|discriminate].
    apply IH in E. subst. eapply IH; eauto. }
  destruct (depth sub =? d - 1).
  { destruct (fab f d rest true) as [[l' w']|k] eqn:E; [|discriminate]. apply IH in E. inversion H; subst; reflexivity. }
  destruct (mergeable sub); [eapply IH; eauto|].
  destruct sub as [r m wf [|c ch]].
  - destruct (fab f d rest true) as [[l' w']|k] eqn:E; [|discriminate]. apply IH in E. inversion H; subst; reflexivity.
  - cbn [orb] in H. eapply IH; eauto.
Qed.

Lemma fab_update : forall us f d todo l,
  fab f d todo false = Ok (l, false) ->
  fab f d (map (update us) todo) false = Ok (map (update us) l, false).
Proof.
  intros us. induction f as [|f IH]; intros d todo l H; [discriminate|]. cbn [fab] in H |- *.
  destruct todo as [|sub rest]; [inversion H; reflexivity|]. cbn [map].
  rewrite depth_update, balanced_update, mergeable_update.
  destruct (depth sub <? d - 1).
  { change (encapsulate (update us sub) :: map (update us) rest) with (map (update us) (encapsulate sub :: rest)).
    apply IH. exact H. }
  destruct (negb (balanced sub)).
  { destruct sub as [r m wf ch]. cbn [update].
    destruct (fab f (d - 1) ch false) as [[ch' w']|k] eqn:E; [|discriminate].
    destruct w'; [apply fab_warn_true in H; discriminate|].
    rewrite (IH _ _ _ E).
    change (Node (upd_rep us r) m wf (map (update us) ch') :: map (update us) rest)
      with (map (update us) (Node r m wf ch' :: rest)).
    apply IH. exact H. }
  destruct (depth sub =? d - 1).
  { destruct (fab f d rest false) as [[l' w']|k] eqn:E; [|discriminate]. inversion H; subst.
    rewrite (IH _ _ _ E). reflexivity. }
  destruct (mergeable sub).
  { rewrite merge_update. change (update us (merge sub) :: map (update us) rest) with (map (update us) (merge sub :: rest)).
    apply IH. exact H. }
  destruct sub as [r m wf [|c ch]].
  - cbn [update map]. destruct (fab f d rest false) as [[l' w']|k] eqn:E; [|discriminate]. inversion H; subst.
    rewrite (IH _ _ _ E). reflexivity.
  - cbn [orb] in H. destruct (is_vol r) eqn:Vr; [apply fab_warn_true in H; discriminate|].
    change (update us (Node r m wf (c :: ch))) with (Node (upd_rep us r) m wf (update us c :: map (update us) ch)).
    assert (Vr' : is_vol (upd_rep us r) = false) by (destruct r; [reflexivity|discriminate]).
    cbn [orb]. rewrite Vr'.
    change (Node (upd_rep us r) m wf (update us c :: map (update us) ch)) with (update us (Node r m wf (c :: ch))).
    rewrite unrolled_update by exact Vr. rewrite <- map_app. apply IH. exact H.
Qed.

(* ------------------------------------------------------------------------------------------------------------ *)
(* T6 (partial): TaborProgram.update_volatile_parameters *)
Lemma map_replace_nth_same {A B} (f : A -> B) : forall l n x y,
  nth_error l n = Some y -> f x = f y -> map f (replace_nth n x l) = map f l.
Proof.
  induction l as [|z l IH]; intros n x y Hn Hf; [destruct n; discriminate|].
  destruct n as [|n]; cbn in *.
  - inversion Hn; subst. rewrite Hf. reflexivity.
  - f_equal. eapply IH; eauto.
Qed.

(* update_volatile_parameters never changes which table / waveform an entry refers to nor the volatile marks, and every
   reported modification carries the new value of the count recorded at that position *)
Lemma update_positions_shape : forall us ps adv tabs adv' tabs' ms,
  update_positions us ps adv tabs = (adv', tabs', ms) ->
  map snd adv' = map snd adv /\ shape_tabs tabs' = shape_tabs tabs /\
  forall m, In m ms -> exists r, In (mod_pos m, r) ps /\ mod_count m = newval us r.
Proof.
  intros us. induction ps as [|[p r] rest IH]; intros adv tabs adv' tabs' ms H.
  - inversion H; subst. repeat split; intros m [].
  - cbn [update_positions] in H. change (match int_of_rep (upd_rep us r) with Some v => v | None => -1 end) with (newval us r) in H.
    assert (Skip : update_positions us rest adv tabs = (adv', tabs', ms) ->
                   map snd adv' = map snd adv /\ shape_tabs tabs' = shape_tabs tabs /\
                   forall m, In m ms -> exists r0, In (mod_pos m, r0) ((p, r) :: rest) /\ mod_count m = newval us r0).
    { intros H0. destruct (IH _ _ _ _ _ H0) as [A [B C]]. repeat split; auto.
      intros m Hm. destruct (C m Hm) as [r0 [I E]]. exists r0. split; [right; exact I|exact E]. }
    destruct p as [a|a q].
    + destruct (nth_error adv a) as [[old el]|] eqn:Ea; [|auto].
      destruct (newval us r =? old); [auto|].
      destruct (update_positions us rest (replace_nth a (newval us r, el) adv) tabs) as [[adv1 tabs1] ms1] eqn:E1.
      inversion H; subst. destruct (IH _ _ _ _ _ E1) as [A [B C]]. repeat split.
      * rewrite A. eapply map_replace_nth_same; eauto.
      * exact B.
      * intros m [<-|Hm]; [exists r; split; [left; reflexivity|reflexivity]|].
        destruct (C m Hm) as [r0 [I E]]. exists r0. split; [right; exact I|exact E].
    + destruct (nth_error adv a) as [[old el]|] eqn:Ea; [|auto].
      destruct (nth_error tabs (pred el)) as [tb|] eqn:Et; [|auto].
      destruct (nth_error tb q) as [en|] eqn:Eq; [|auto].
      destruct (newval us r =? te_count en); [auto|].
      destruct (update_positions us rest adv
                  (replace_nth (pred el) (replace_nth q (mkTent (newval us r) (te_wf en) (te_vol en)) tb) tabs))
        as [[adv1 tabs1] ms1] eqn:E1.
      inversion H; subst. destruct (IH _ _ _ _ _ E1) as [A [B C]]. repeat split.
      * exact A.
      * rewrite B. unfold shape_tabs. eapply map_replace_nth_same; eauto.
        eapply map_replace_nth_same; eauto.
      * intros m [<-|Hm]; [exists r; split; [left; reflexivity|reflexivity]|].
        destruct (C m Hm) as [r0 [I E]]. exists r0. split; [right; exact I|exact E].
Qed.
