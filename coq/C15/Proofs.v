(* C15 — proofs *)
From Coq Require Import ZArith NArith Bool List Lia.
Require Import QV.C15.Model QV.C15.Spec.
Import ListNotations.
Open Scope Z_scope.

Lemma update_fixed_root : forall us n m w ch, rep_of (update us (Node (Fixed n) m w ch)) = Fixed n.
Proof. reflexivity. Qed.
