(* C15 — error analysis of counts evaluated in binary64 (ModelF.v): nearest-integer characterisation of the update
   path, truncation is off by one below every integer, relative error of round53, and the quotient theorem:
   fl(fl(K*Y) / fl(Y)) is read as K by the update path AND by a fresh instantiation, without a warning, for K < 2^20. *)
From Coq Require Import ZArith NArith QArith Qround Qabs Qpower Bool List Lia Lqa.
Require Import QV.C15.Model QV.C15.ModelQ QV.C15.ModelF QV.C15.Proofs_q QV.C15.Proofs_f.
Open Scope Q_scope.


Lemma Qfloor_unique q k : inject_Z k <= q -> q < inject_Z (k + 1) -> Qfloor q = k.
Proof.
  intros L U. pose proof (Qfloor_le q) as A. pose proof (Qlt_floor q) as B.
  assert (H1 : (Qfloor q < k + 1)%Z) by (rewrite Zlt_Qlt; eapply Qle_lt_trans; eauto).
  assert (H2 : (k < Qfloor q + 1)%Z) by (rewrite Zlt_Qlt; eapply Qle_lt_trans; eauto).
  lia.
Qed.

(* rounding returns the integer the value is meant to be whenever the accumulated float error is below 1/2 *)
Lemma round_half_even_nearest q k : Qabs (q - inject_Z k) < 1 # 2 -> round_half_even q = k.
Proof.
  intros H. apply Qabs_Qlt_condition in H. destruct H as [Lo Hi].
  unfold round_half_even.
  destruct (Qlt_le_dec q (inject_Z k)) as [B|B].
  - assert (F : Qfloor q = (k - 1)%Z).
    { apply Qfloor_unique.
      - unfold Z.sub. rewrite inject_Z_plus, inject_Z_opp. change (inject_Z 1) with 1. lra.
      - replace (k - 1 + 1)%Z with k by lia. exact B. }
    rewrite F. unfold Z.sub. rewrite inject_Z_plus, inject_Z_opp. change (inject_Z 1) with 1.
    destruct (Qcompare_spec (q - (inject_Z k + - (1))) (1 # 2)) as [C|C|C]; try lra. f_equal. lia.
  - assert (F : Qfloor q = k).
    { apply Qfloor_unique; [exact B|]. rewrite inject_Z_plus. change (inject_Z 1) with 1. lra. }
    rewrite F. destruct (Qcompare_spec (q - inject_Z k) (1 # 2)) as [C|C|C]; try lra. reflexivity.
Qed.

Lemma count_update_nearest q k : Qabs (q - inject_Z k) < 1 # 2 -> count_update q = Z.max 0 k.
Proof. intros H. unfold count_update. rewrite (round_half_even_nearest q k H). reflexivity. Qed.

(* ... while truncation loses one as soon as the value is below the integer at all *)
Lemma Qtrunc_below q k : 0 <= q -> inject_Z k - 1 <= q -> q < inject_Z k -> Qtrunc q = (k - 1)%Z.
Proof.
  intros P Lo Hi. unfold Qtrunc. assert (E : Qle_bool 0 q = true) by (apply Qle_bool_iff; exact P). rewrite E.
  apply Qfloor_unique.
  - unfold Z.sub. rewrite inject_Z_plus, inject_Z_opp. change (inject_Z 1) with 1. lra.
  - replace (k - 1 + 1)%Z with k by lia. exact Hi.
Qed.

(* general form of the 0.3 / 0.1 example: for EVERY value that is_integer accepts and that lies below its integer k >= 1,
   rounding yields k (what a fresh instantiation yields) and truncation k - 1 *)
Lemma truncation_off_by_one fl q k :
  0 <= q -> (1 <= k)%Z -> is_integer_f fl q = true -> inject_Z k - (1 # 2) < q -> q < inject_Z k ->
  count_update q = k /\ count_fresh_tol fl q = Some k /\ count_update_trunc fl q = (k - 1)%Z.
Proof.
  intros P K I Lo Hi.
  assert (N : Qabs (q - inject_Z k) < 1 # 2) by (apply Qabs_Qlt_condition; split; lra).
  assert (U : count_update q = k) by (rewrite (count_update_nearest q k N); lia).
  split; [exact U|]. split.
  - rewrite (is_integer_fresh fl q I), U. reflexivity.
  - unfold count_update_trunc. rewrite I. rewrite (Qtrunc_below q k P); [lia| lra | exact Hi].
Qed.



Lemma Qpow2_power e : Qpow2 e == 2 ^ e.
Proof.
  destruct e as [|p|p]; cbn [Qpow2].
  - reflexivity.
  - rewrite Zpower_Qpower by lia. reflexivity.
  - change (2 ^ Z.neg p) with (/ (2 ^ Z.pos p)). change 2 with (inject_Z 2).
    rewrite <- Zpower_Qpower by lia. rewrite <- Pos2Z.inj_pow. reflexivity.
Qed.

Lemma Qpow2_plus a b : Qpow2 (a + b) == Qpow2 a * Qpow2 b.
Proof. rewrite !Qpow2_power. apply Qpower_plus. discriminate. Qed.

Lemma Qpow2_pos e : 0 < Qpow2 e.
Proof.
  destruct e as [|p|p]; cbn [Qpow2]; try reflexivity.
  change 0 with (inject_Z 0). rewrite <- Zlt_Qlt. apply Z.pow_pos_nonneg; lia.
Qed.

Lemma Qpow2_nonneg_Z n : (0 <= n)%Z -> Qpow2 n == inject_Z (2 ^ n).
Proof. destruct n; intros H; try reflexivity. lia. Qed.

Lemma Qabs_make n d : Qabs (n # d) == inject_Z (Z.abs n) / inject_Z (Z.pos d).
Proof. unfold Qabs. rewrite Qmake_Qdiv. reflexivity. Qed.

(* 2 ^ ilog2Q q <= |q| *)
Lemma ilog2Q_lower q : ~ q == 0 -> Qpow2 (ilog2Q q) <= Qabs q.
Proof.
  intros NZ. unfold ilog2Q.
  set (k := (Z.log2 (Z.abs (Qnum q)) - Z.log2 (Z.pos (Qden q)))%Z).
  destruct (Qle_bool (Qpow2 k) (Qabs q)) eqn:E; [apply Qle_bool_iff; exact E|].
  destruct q as [n d]. cbn [Qnum Qden] in *.
  assert (N0 : n <> 0%Z). { intros ->. apply NZ. reflexivity. }
  set (a := Z.log2 (Z.abs n)) in *. set (b := Z.log2 (Z.pos d)) in *.
  assert (A : (2 ^ a <= Z.abs n)%Z) by (apply Z.log2_spec; lia).
  assert (B : (Z.pos d < 2 ^ (b + 1))%Z) by (replace (b + 1)%Z with (Z.succ b) by lia; apply Z.log2_spec; lia).
  assert (a0 : (0 <= a)%Z) by apply Z.log2_nonneg. assert (b0 : (0 <= b)%Z) by apply Z.log2_nonneg.
  rewrite Qabs_make.
  assert (D : 0 < inject_Z (Z.pos d)) by reflexivity.
  apply Qle_shift_div_l; [exact D|].
  apply Qle_trans with (Qpow2 (k - 1) * inject_Z (2 ^ (b + 1))).
  - apply Qmult_le_l; [apply Qpow2_pos|]. rewrite <- Zle_Qle. lia.
  - rewrite <- (Qpow2_nonneg_Z (b + 1)) by lia. rewrite <- Qpow2_plus.
    replace (k - 1 + (b + 1))%Z with a by (unfold k; lia).
    rewrite (Qpow2_nonneg_Z a a0). rewrite <- Zle_Qle. exact A.
Qed.

(* the update path never moves a count by more than 1/2 from the value of its expression *)
Lemma round_half_even_error q : Qabs (inject_Z (round_half_even q) - q) <= 1 # 2.
Proof.
  pose proof (Qfloor_le q) as A. pose proof (Qlt_floor q) as B. rewrite inject_Z_plus in B. change (inject_Z 1) with 1 in B.
  unfold round_half_even. apply Qabs_Qle_condition.
  destruct (Qcompare_spec (q - inject_Z (Qfloor q)) (1 # 2)) as [C|C|C].
  - destruct (Z.even (Qfloor q)); [|rewrite inject_Z_plus; change (inject_Z 1) with 1]; split; lra.
  - split; lra.
  - rewrite inject_Z_plus. change (inject_Z 1) with 1. split; lra.
Qed.

(* relative error of one binary64 rounding: at most 2^-53 *)
Lemma round53_error q : Qabs (round53 q - q) <= Qabs q * (1 # 2 ^ 53).
Proof.
  unfold round53. destruct (Qeq_bool q 0) eqn:E0.
  - apply Qeq_bool_iff in E0. rewrite E0. cbn. discriminate.
  - assert (NZ : ~ q == 0). { intros H. apply Qeq_bool_iff in H. rewrite H in E0. discriminate. }
    pose proof (ilog2Q_lower q NZ) as L.
    set (e := (ilog2Q q - 52)%Z) in *.
    set (s := Qpow2 e). assert (S0 : 0 < s) by apply Qpow2_pos.
    assert (I : Qpow2 (- e) * s == 1).
    { unfold s. rewrite <- Qpow2_plus. replace (- e + e)%Z with 0%Z by lia. reflexivity. }
    set (x := q * Qpow2 (- e)).
    assert (X : x * s == q). { unfold x. rewrite <- Qmult_assoc, I. ring. }
    pose proof (round_half_even_error x) as R.
    assert (EQ : inject_Z (round_half_even x) * s - q == (inject_Z (round_half_even x) - x) * s).
    { rewrite <- X at 1. ring. }
    rewrite EQ, Qabs_Qmult, (Qabs_pos s) by (apply Qlt_le_weak; exact S0).
    assert (S52 : Qpow2 (ilog2Q q) == s * inject_Z (2 ^ 52)).
    { replace (ilog2Q q) with (e + 52)%Z by (unfold e; lia). rewrite Qpow2_plus. reflexivity. }
    rewrite S52 in L.
    apply Qle_trans with ((1 # 2) * s).
    + apply Qmult_le_compat_r; [exact R|apply Qlt_le_weak; exact S0].
    + assert (C : inject_Z (2 ^ 52) == 4503599627370496) by reflexivity. rewrite C in L.
      assert (C2 : (1 # 2 ^ 53) == 1 # 9007199254740992) by reflexivity. rewrite C2. lra.
Qed.


Definition U : Q := 1 # 2 ^ 53.

(* error propagation through  fl( fl(X) / fl(Y) )  when X = K * Y exactly *)
Lemma quotient_chain (X Y x y t q K : Q) :
  0 < Y -> 0 <= K -> X == K * Y ->
  Qabs (x - X) <= Qabs X * U -> Qabs (y - Y) <= Qabs Y * U ->
  t * y == x -> Qabs (q - t) <= Qabs t * U ->
  Qabs (q - K) <= K * (1 # 2 ^ 51).
Proof.
  intros HY HK HX Ex Ey Ht Eq.
  assert (X0 : 0 <= X) by (rewrite HX; nra).
  rewrite (Qabs_pos X X0) in Ex. rewrite (Qabs_pos Y) in Ey by lra.
  apply Qabs_Qle_condition in Ex. apply Qabs_Qle_condition in Ey. destruct Ex as [Ex1 Ex2], Ey as [Ey1 Ey2].
  unfold U in *. assert (C : (1 # 2 ^ 53) == 1 # 9007199254740992) by reflexivity. rewrite C in *.
  assert (C2 : (1 # 2 ^ 51) == 1 # 2251799813685248) by reflexivity. rewrite C2.
  assert (y0 : 0 < y) by nra.
  assert (T1 : (t - K) * y <= 3 * K * (1 # 9007199254740992) * y) by nra.
  assert (T2 : - (3 * K * (1 # 9007199254740992) * y) <= (t - K) * y) by nra.
  assert (B1 : t - K <= 3 * K * (1 # 9007199254740992)) by nra.
  assert (B2 : - (3 * K * (1 # 9007199254740992)) <= t - K) by nra.
  assert (t0 : 0 <= t) by nra.
  rewrite (Qabs_pos t t0) in Eq. apply Qabs_Qle_condition in Eq. destruct Eq as [Eq1 Eq2].
  apply Qabs_Qle_condition. split; nra.
Qed.

Lemma rnd_error z : Qabs (rnd true z - z) <= Qabs z * U.
Proof.
  unfold rnd. remember (Qred z) as w eqn:Hw.
  assert (W : w == z) by (rewrite Hw; apply Qred_correct).
  pose proof (round53_error w) as H.
  assert (E : Qred (round53 w) - z == round53 w - w) by (rewrite Qred_correct, <- W; reflexivity).
  rewrite E, <- W. exact H.
Qed.

(* X = K * Y exactly (the decimal intent, e.g. 0.3 = 3 * 0.1); the parameters are the doubles nearest to X and Y; the
   count expression x / y is evaluated in binary64.  For every K < 2^20 the update path and a fresh instantiation read
   the result as K and the update emits no "no integer" warning - whatever side of K the float lands on. *)
Lemma float_quotient_count (X Y : Q) (K : Z) (nx ny : name) env :
  0 < Y -> (0 <= K < 2 ^ 20)%Z -> X == inject_Z K * Y ->
  env nx = Some (rnd true X) -> env ny = Some (rnd true Y) ->
  exists q, evalF true env (FDiv (FVar nx) (FVar ny)) = Some q /\
            count_update q = K /\ count_fresh_tol true q = Some K /\ update_warns true q = false.
Proof.
  intros HY [K0 K1] HX Ex Ey. cbn [evalF]. rewrite Ex, Ey.
  pose proof (rnd_error X) as EX. pose proof (rnd_error Y) as EY.
  set (x := rnd true X) in *. set (y := rnd true Y) in *.
  assert (Kq : 0 <= inject_Z K) by (change 0 with (inject_Z 0); rewrite <- Zle_Qle; exact K0).
  assert (Kb : inject_Z K <= 1048576).
  { change 1048576 with (inject_Z (2 ^ 20)). rewrite <- Zle_Qle. lia. }
  assert (y0 : 0 < y).
  { rewrite (Qabs_pos Y) in EY by lra. apply Qabs_Qle_condition in EY. destruct EY as [E1 E2]. unfold U in *.
    assert (C : (1 # 2 ^ 53) == 1 # 9007199254740992) by reflexivity. rewrite C in *. nra. }
  assert (NZ : Qeq_bool y 0 = false).
  { destruct (Qeq_bool y 0) eqn:E; [|reflexivity]. apply Qeq_bool_iff in E. rewrite E in y0. discriminate. }
  rewrite NZ. eexists. split; [reflexivity|].
  set (t := x / y). set (q := rnd true t).
  assert (Ht : t * y == x). { unfold t. field. intros E. rewrite E in y0. discriminate. }
  pose proof (quotient_chain X Y x y t q (inject_Z K) HY Kq HX EX EY Ht (rnd_error t)) as B.
  assert (C2 : (1 # 2 ^ 51) == 1 # 2251799813685248) by reflexivity. rewrite C2 in B.
  assert (N : Qabs (q - inject_Z K) < 1 # 2).
  { eapply Qle_lt_trans; [exact B|]. nra. }
  assert (R : round_half_even q = K) by (apply round_half_even_nearest; exact N).
  assert (Uq : count_update q = K) by (unfold count_update; rewrite R; lia).
  assert (I : is_integer_f true q = true).
  { unfold is_integer_f, near_diff. rewrite R. pose proof (rnd_error (q - inject_Z K)) as D.
    unfold Qlt_bool. apply negb_true_iff. destruct (Qle_bool EPS (Qabs (rnd true (q - inject_Z K)))) eqn:E; [|reflexivity].
    apply Qle_bool_iff in E. exfalso.
    assert (T : Qabs (rnd true (q - inject_Z K)) <= Qabs (q - inject_Z K) * (1 + U)).
    { set (z := q - inject_Z K) in *. set (r := rnd true z) in *.
      apply Qabs_Qle_condition in D. destruct D as [D1 D2].
      pose proof (Qabs_nonneg z) as Z0. pose proof (Qabs_triangle (r - z) z) as TR.
      assert (RR : r - z + z == r) by ring. rewrite RR in TR.
      assert (D3 : Qabs (r - z) <= Qabs z * U) by (apply Qabs_Qle_condition; split; assumption). lra. }
    unfold U, EPS in *. assert (C : (1 # 2 ^ 53) == 1 # 9007199254740992) by reflexivity. rewrite C in *.
    pose proof (Qabs_nonneg (q - inject_Z K)) as Z0. nra. }
  split; [exact Uq|]. split.
  - rewrite (is_integer_fresh true q I), Uq. reflexivity.
  - unfold update_warns. rewrite I. reflexivity.
Qed.


(* a float value within K * 2^-51 of an integer K < 2^20 is read as K on both paths, without a warning *)
Lemma count_from_bound q (K : Z) :
  (0 <= K < 2 ^ 20)%Z -> Qabs (q - inject_Z K) <= inject_Z K * (1 # 2 ^ 51) ->
  count_update q = K /\ count_fresh_tol true q = Some K /\ update_warns true q = false.
Proof.
  intros [K0 K1] B.
  assert (Kq : 0 <= inject_Z K) by (change 0 with (inject_Z 0); rewrite <- Zle_Qle; exact K0).
  assert (Kb : inject_Z K <= 1048576).
  { change 1048576 with (inject_Z (2 ^ 20)). rewrite <- Zle_Qle. lia. }
  assert (C2 : (1 # 2 ^ 51) == 1 # 2251799813685248) by reflexivity. rewrite C2 in B.
  assert (N : Qabs (q - inject_Z K) < 1 # 2).
  { eapply Qle_lt_trans; [exact B|]. nra. }
  assert (R : round_half_even q = K) by (apply round_half_even_nearest; exact N).
  assert (Uq : count_update q = K) by (unfold count_update; rewrite R; lia).
  assert (I : is_integer_f true q = true).
  { unfold is_integer_f, near_diff. rewrite R. pose proof (rnd_error (q - inject_Z K)) as D.
    unfold Qlt_bool. apply negb_true_iff. destruct (Qle_bool EPS (Qabs (rnd true (q - inject_Z K)))) eqn:E; [|reflexivity].
    apply Qle_bool_iff in E. exfalso.
    assert (T : Qabs (rnd true (q - inject_Z K)) <= Qabs (q - inject_Z K) * (1 + U)).
    { set (z := q - inject_Z K) in *. set (r := rnd true z) in *.
      pose proof (Qabs_nonneg z) as Z0. pose proof (Qabs_triangle (r - z) z) as TR.
      assert (RR : r - z + z == r) by ring. rewrite RR in TR. lra. }
    unfold U, EPS in *. assert (C : (1 # 2 ^ 53) == 1 # 9007199254740992) by reflexivity. rewrite C in *.
    pose proof (Qabs_nonneg (q - inject_Z K)) as Z0. nra. }
  split; [exact Uq|]. split.
  - rewrite (is_integer_fresh true q I), Uq. reflexivity.
  - unfold update_warns. rewrite I. reflexivity.
Qed.

Lemma product_chain (X Y x y q K : Q) :
  0 <= X -> 0 <= Y -> K == X * Y ->
  Qabs (x - X) <= Qabs X * U -> Qabs (y - Y) <= Qabs Y * U ->
  Qabs (q - x * y) <= Qabs (x * y) * U ->
  Qabs (q - K) <= K * (1 # 2 ^ 51).
Proof.
  intros HX HY HK Ex Ey Eq.
  rewrite (Qabs_pos X HX) in Ex. rewrite (Qabs_pos Y HY) in Ey.
  apply Qabs_Qle_condition in Ex. apply Qabs_Qle_condition in Ey. destruct Ex as [Ex1 Ex2], Ey as [Ey1 Ey2].
  unfold U in *. assert (C : (1 # 2 ^ 53) == 1 # 9007199254740992) by reflexivity. rewrite C in *.
  assert (C2 : (1 # 2 ^ 51) == 1 # 2251799813685248) by reflexivity. rewrite C2.
  assert (x0 : 0 <= x) by nra. assert (y0 : 0 <= y) by nra.
  assert (t0 : 0 <= x * y) by nra.
  rewrite (Qabs_pos _ t0) in Eq. apply Qabs_Qle_condition in Eq. destruct Eq as [Eq1 Eq2].
  assert (P1 : x * y <= X * Y * (1 + 3 * (1 # 9007199254740992))) by nra.
  assert (P2 : X * Y * (1 - 2 * (1 # 9007199254740992)) <= x * y) by nra.
  assert (XY : 0 <= X * Y) by nra.
  apply Qabs_Qle_condition. rewrite HK. split; nra.
Qed.

(* products: X * Y = K exactly (0.57 * 100), both parameters nearest doubles; and a literal factor: c * X = K *)
Lemma float_product_count (X Y : Q) (K : Z) (nx ny : name) env :
  0 <= X -> 0 <= Y -> (0 <= K < 2 ^ 20)%Z -> inject_Z K == X * Y ->
  env nx = Some (rnd true X) -> env ny = Some (rnd true Y) ->
  exists q, evalF true env (FMul (FVar nx) (FVar ny)) = Some q /\
            count_update q = K /\ count_fresh_tol true q = Some K /\ update_warns true q = false.
Proof.
  intros HX HY HK E Ex Ey. cbn [evalF]. rewrite Ex, Ey. eexists. split; [reflexivity|].
  apply count_from_bound; [exact HK|].
  exact (product_chain X Y _ _ _ _ HX HY E (rnd_error X) (rnd_error Y) (rnd_error _)).
Qed.

Lemma float_scaled_count (c X : Q) (K : Z) (nx : name) env :
  0 <= c -> 0 <= X -> (0 <= K < 2 ^ 20)%Z -> inject_Z K == c * X ->
  env nx = Some (rnd true X) ->
  exists q, evalF true env (FMul (FConst c) (FVar nx)) = Some q /\
            count_update q = K /\ count_fresh_tol true q = Some K /\ update_warns true q = false.
Proof.
  intros Hc HX HK E Ex. cbn [evalF]. rewrite Ex. eexists. split; [reflexivity|].
  apply count_from_bound; [exact HK|].
  apply (product_chain c X c (rnd true X) _ (inject_Z K) Hc HX E); [|exact (rnd_error X)|exact (rnd_error _)].
  assert (Z0 : c - c == 0) by ring. rewrite Z0. cbn [Qabs Z.abs Qnum]. pose proof (Qabs_nonneg c). unfold U. 
  apply Qmult_le_0_compat; [exact H|discriminate].
Qed.
