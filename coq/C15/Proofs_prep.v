(* C15 — prepare_program_for_advanced_sequence_mode commutes with updates that keep every decision. *)
From Coq Require Import ZArith NArith Bool List Lia.
Require Import QV.C15.Model QV.C15.Spec QV.C15.Proofs.
Import ListNotations.
Open Scope Z_scope.

(* ------------------------------------------------------------------------------------------------------------ *)
(* update preserves structure *)
Lemma kids_update us t : kids (update us t) = map (update us) (kids t).
Proof. destruct t; reflexivity. Qed.
Lemma rep_of_update us t : rep_of (update us t) = upd_rep us (rep_of t).
Proof. destruct t; reflexivity. Qed.
Lemma is_vol_upd_rep us r : is_vol (upd_rep us r) = is_vol r.
Proof. destruct r; reflexivity. Qed.
Lemma is_vol_update us t : is_vol (rep_of (update us t)) = is_vol (rep_of t).
Proof. rewrite rep_of_update. apply is_vol_upd_rep. Qed.
Lemma len_update us t : len (update us t) = len t.
Proof. unfold len. rewrite kids_update, map_length. reflexivity. Qed.

Lemma nth_error_map' {A B} (f : A -> B) : forall l n,
  nth_error (map f l) n = match nth_error l n with Some x => Some (f x) | None => None end.
Proof. induction l as [|x l IH]; intros [|n]; cbn; auto. Qed.

Lemma map_replace_nth {A B} (f : A -> B) : forall l n x,
  map f (replace_nth n x l) = replace_nth n (f x) (map f l).
Proof. induction l as [|y l IH]; intros [|n] x; cbn; try reflexivity. rewrite IH. reflexivity. Qed.
Lemma map_remove_nth {A B} (f : A -> B) : forall l n, map f (remove_nth n l) = remove_nth n (map f l).
Proof. induction l as [|y l IH]; intros [|n]; cbn; try reflexivity. rewrite IH. reflexivity. Qed.
Lemma map_insert_after {A B} (f : A -> B) : forall l n x y,
  map f (insert_after n x y l) = insert_after n (f x) (f y) (map f l).
Proof. induction l as [|z l IH]; intros [|n] x y; cbn; try reflexivity. rewrite IH. reflexivity. Qed.

Lemma update_set_kids us ch t : update us (set_kids ch t) = set_kids (map (update us) ch) (update us t).
Proof. destruct t; reflexivity. Qed.
Lemma update_set_rep_fixed us n t : update us (set_rep (Fixed n) t) = set_rep (Fixed n) (update us t).
Proof. destruct t; reflexivity. Qed.

Lemma cnt_fixed us t : is_vol (rep_of t) = false -> cnt (update us t) = cnt t.
Proof. apply cnt_update_fixed. Qed.

(* ------------------------------------------------------------------------------------------------------------ *)
(* the warning flag only goes up *)
Lemma split_until_warn_true : forall f mn ch ch' w idx,
  split_until f mn ch true = Ok (ch', w, idx) -> w = true.
Proof.
  induction f as [|f IH]; intros mn ch ch' w idx H; cbn [split_until] in H.
  - destruct (mn <=? Z.of_nat (length ch)); [inversion H; reflexivity|discriminate].
  - destruct (mn <=? Z.of_nat (length ch)); [inversion H; reflexivity|].
    destruct (split_index ch) as [i|]; [|discriminate].
    destruct (nth_error ch i) as [c|]; [|discriminate]. cbn [orb] in H.
    destruct (split_until f mn _ true) as [[[ch1 w1] idx1]|k] eqn:E; [|discriminate].
    apply IH in E. inversion H; subst. reflexivity.
Qed.

Lemma cpu_warn_true st mn st' w d :
  check_partial_unroll st mn true = Ok (Some (st', w, d)) -> w = true.
Proof.
  unfold check_partial_unroll. destruct (is_vol (rep_of st)); [discriminate|].
  destruct (mn <=? _); [|discriminate].
  destruct (split_until _ _ _ true) as [[[ch w1] idx]|k] eqn:E; [|discriminate].
  apply split_until_warn_true in E. intros H; inversion H; subst. reflexivity.
Qed.

Lemma push_inv d r t w tr : push d r = Ok (t, w, tr) -> exists tr', r = Ok (t, w, tr') /\ tr = d :: tr'.
Proof.
  unfold push. destruct r as [[[t0 w0] tr0]|k]; [|discriminate]. intros H; inversion H; subst. eauto.
Qed.

Lemma prepare_warn_true : forall f mn mx i tabs t w tr, prepare f mn mx i tabs true = Ok (t, w, tr) -> w = true.
Proof.
  induction f as [|f IH]; intros mn mx i tabs t w tr H; [discriminate|]. cbn [prepare] in H.
  destruct (nth_error tabs i) as [ti|]; [|inversion H; reflexivity].
  destruct (mx <? len ti); [discriminate|].
  destruct (len ti <? mn); [|apply push_inv in H; destruct H as [tr' [H _]]; eapply IH; eauto].
  destruct (cnt ti <=? 0); [discriminate|].
  assert (CPU : forall (K : result (list prog * bool * list dec)),
            match check_partial_unroll ti mn true with
            | Err k => Err k
            | Ok (Some (ti', w', d)) => push d (prepare f mn mx (S i) (replace_nth i ti' tabs) w')
            | Ok None => K
            end = Ok (t, w, tr) ->
            (K = Ok (t, w, tr) -> w = true) -> w = true).
  { intros K HK HKK. destruct (check_partial_unroll ti mn true) as [[[[ti' w'] d]|]|k] eqn:E; [| auto |discriminate].
    apply cpu_warn_true in E. subst w'. apply push_inv in HK. destruct HK as [tr' [HK _]]. eapply IH; eauto. }
  destruct ((cnt ti =? 1) && negb (is_vol (rep_of ti))).
  - destruct (match i with O => None | S j => check_merge_with_next tabs j mx end) as [tabs'|].
    { apply push_inv in H. destruct H as [tr' [H _]]. eapply IH; eauto. }
    destruct (check_merge_with_next tabs i mx) as [tabs'|].
    { apply push_inv in H. destruct H as [tr' [H _]]. eapply IH; eauto. }
    eapply CPU; [exact H|]. clear H. intros H.
    assert (NX : match nth_error tabs (S i) with
                 | Some nxt =>
                     if (1 <? cnt nxt) && (len ti + len nxt <? mx)
                     then push DExtNext (prepare f mn mx i (ext_next i ti nxt tabs) (true || is_vol (rep_of nxt)))
                     else Err ETabor
                 | None => Err ETabor
                 end = Ok (t, w, tr) -> w = true).
    { intros HN. destruct (nth_error tabs (S i)) as [nxt|]; [|discriminate].
      destruct ((1 <? cnt nxt) && (len ti + len nxt <? mx)); [|discriminate].
      apply push_inv in HN. destruct HN as [tr' [HN _]]. cbn [orb] in HN. eapply IH; eauto. }
    destruct (match i with O => None | S j => nth_error tabs j end) as [prev|]; [|auto].
    destruct ((1 <? cnt prev) && (len ti + len prev <? mx)); [|auto].
    apply push_inv in H. destruct H as [tr' [H _]]. cbn [orb] in H. eapply IH; eauto.
  - eapply CPU; [exact H|]. discriminate.
Qed.

(* ------------------------------------------------------------------------------------------------------------ *)
(* lock step: split_one_child loop *)
Lemma split_until_update us : forall f mn ch ch' idx ch2 w2,
  split_until f mn ch false = Ok (ch', false, idx) ->
  split_until f mn (map (update us) ch) false = Ok (ch2, w2, idx) ->
  ch2 = map (update us) ch' /\ w2 = false.
Proof.
  induction f as [|f IH]; intros mn ch ch' idx ch2 w2 H1 H2; cbn [split_until] in H1, H2;
    rewrite map_length in H2.
  - destruct (mn <=? Z.of_nat (length ch)); [|discriminate].
    inversion H1; subst. inversion H2; subst. split; reflexivity.
  - destruct (mn <=? Z.of_nat (length ch)).
    { inversion H1; subst. inversion H2; subst. split; reflexivity. }
    destruct (split_index ch) as [i|]; [|discriminate].
    destruct (nth_error ch i) as [c|] eqn:Ec; [|discriminate].
    destruct (split_until f mn _ (false || is_vol (rep_of c))) as [[[ch1 w1] idx1]|k] eqn:E1; [|discriminate].
    inversion H1; subst ch1 w1 idx. clear H1.
    destruct (is_vol (rep_of c)) eqn:Vc; [apply split_until_warn_true in E1; discriminate|]. cbn [orb] in E1.
    destruct (split_index (map (update us) ch)) as [i2|]; [|discriminate].
    destruct (nth_error (map (update us) ch) i2) as [c2|] eqn:Ec2; [|discriminate].
    destruct (split_until f mn _ (false || is_vol (rep_of c2))) as [[[ch3 w3] idx3]|k] eqn:E2; [|discriminate].
    inversion H2; subst ch3 w3 i2 idx3. clear H2.
    rewrite nth_error_map', Ec in Ec2. inversion Ec2; subst c2. clear Ec2.
    rewrite is_vol_update, Vc in E2. cbn [orb] in E2. rewrite (cnt_fixed us c Vc) in E2.
    rewrite <- !update_set_rep_fixed, <- map_insert_after in E2.
    eapply IH; eauto.
Qed.

Lemma cpu_dec st mn w st' w' d :
  check_partial_unroll st mn w = Ok (Some (st', w', d)) -> exists u idx, d = DUnroll u idx.
Proof.
  unfold check_partial_unroll. destruct (is_vol (rep_of st)); [discriminate|].
  destruct (mn <=? _); [|discriminate].
  destruct (split_until _ _ _ w) as [[[ch w1] idx]|k]; [|discriminate].
  intros H; inversion H; subst. eauto.
Qed.

Lemma cpu_update us st mn st' d st2 w2 :
  check_partial_unroll st mn false = Ok (Some (st', false, d)) ->
  check_partial_unroll (update us st) mn false = Ok (Some (st2, w2, d)) ->
  st2 = update us st' /\ w2 = false.
Proof.
  unfold check_partial_unroll. rewrite is_vol_update.
  destruct (is_vol (rep_of st)) eqn:Vs; [discriminate|].
  rewrite (cnt_fixed us st Vs), kids_update.
  set (total := fold_right (fun c acc => cnt c + acc) 0 (kids st)).
  set (total2 := fold_right (fun c acc => cnt c + acc) 0 (map (update us) (kids st))).
  destruct (mn <=? total * cnt st); [|discriminate].
  destruct (mn <=? total2 * cnt st); [|discriminate].
  intros H1 H2.
  destruct (split_until (Z.to_nat mn) mn (kids (if total <? mn then _ else st)) false)
    as [[[ch1 w1] idx1]|k] eqn:E1; [|discriminate].
  inversion H1; subst st' w1 d. clear H1.
  destruct (split_until (Z.to_nat mn) mn (kids (if total2 <? mn then _ else update us st)) false)
    as [[[ch3 w3] idx3]|k] eqn:E2; [|discriminate].
  inversion H2 as [[Hs Hw Hu Hi]]. subst st2 w3 idx3. clear H2.
  rewrite Hu in E2 |- *.
  assert (K : (if total <? mn
               then Node (Fixed 1) match update us st with Node _ m _ _ => m end
                         match update us st with Node _ _ w _ => w end (unrolled (update us st))
               else update us st)
              = update us (if total <? mn
                           then Node (Fixed 1) match st with Node _ m _ _ => m end
                                     match st with Node _ _ w _ => w end (unrolled st)
                           else st)).
  { destruct (total <? mn); [|reflexivity]. rewrite (unrolled_update us st Vs). destruct st; reflexivity. }
  rewrite K in E2 |- *. rewrite kids_update in E2.
  destruct (split_until_update us _ _ _ _ _ _ _ E1 E2) as [-> ->].
  rewrite update_set_kids. split; reflexivity.
Qed.

(* with the repaired code _check_merge_with_next never looks at a volatile count *)
Lemma cmwn_update us tabs n mx :
  check_merge_with_next (map (update us) tabs) n mx
  = match check_merge_with_next tabs n mx with Some t => Some (map (update us) t) | None => None end.
Proof.
  unfold check_merge_with_next. rewrite !nth_error_map'.
  destruct (nth_error tabs n) as [a|]; [|reflexivity].
  destruct (nth_error tabs (S n)) as [b|]; [|reflexivity].
  rewrite !is_vol_update, !len_update.
  destruct (is_vol (rep_of a)) eqn:Va.
  { destruct (cnt (update us a) =? 1), (cnt (update us b) =? 1), (cnt a =? 1), (cnt b =? 1); reflexivity. }
  destruct (is_vol (rep_of b)) eqn:Vb.
  { destruct (cnt (update us a) =? 1), (cnt (update us b) =? 1), (cnt a =? 1), (cnt b =? 1); reflexivity. }
  rewrite (cnt_fixed us a Va), (cnt_fixed us b Vb).
  destruct ((cnt a =? 1) && (cnt b =? 1) && negb false && negb false && (len a + len b <? mx)); [|reflexivity].
  rewrite map_remove_nth, map_replace_nth, update_set_kids, map_app, !kids_update. reflexivity.
Qed.

Lemma ext_prev_update us i ti prev tabs : is_vol (rep_of prev) = false ->
  ext_prev i (update us ti) (update us prev) (map (update us) tabs) = map (update us) (ext_prev i ti prev tabs).
Proof.
  intros V. unfold ext_prev. rewrite (cnt_fixed us prev V).
  rewrite !map_replace_nth, update_set_rep_fixed, update_set_kids, map_app, !kids_update. reflexivity.
Qed.
Lemma ext_next_update us i ti nxt tabs : is_vol (rep_of nxt) = false ->
  ext_next i (update us ti) (update us nxt) (map (update us) tabs) = map (update us) (ext_next i ti nxt tabs).
Proof.
  intros V. unfold ext_next. rewrite (cnt_fixed us nxt V).
  rewrite !map_replace_nth, update_set_rep_fixed, update_set_kids, map_app, !kids_update. reflexivity.
Qed.

Lemma b_update us ti :
  (cnt (update us ti) =? 1) && negb (is_vol (rep_of (update us ti))) = (cnt ti =? 1) && negb (is_vol (rep_of ti)).
Proof.
  rewrite is_vol_update. destruct (is_vol (rep_of ti)) eqn:V; cbn [negb].
  - rewrite !andb_false_r. reflexivity.
  - rewrite (cnt_fixed us ti V). reflexivity.
Qed.

Lemma prev_map us (i : nat) tabs :
  match i with O => None | S j => nth_error (map (update us) tabs) j end
  = match (match i with O => None | S j => nth_error tabs j end) with Some x => Some (update us x) | None => None end.
Proof. destruct i; [reflexivity|apply nth_error_map']. Qed.

Lemma merge_prev_map us (i : nat) tabs mx :
  match i with O => None | S j => check_merge_with_next (map (update us) tabs) j mx end
  = match (match i with O => None | S j => check_merge_with_next tabs j mx end) with
    | Some t => Some (map (update us) t) | None => None end.
Proof. destruct i; [reflexivity|apply cmwn_update]. Qed.

(* ------------------------------------------------------------------------------------------------------------ *)
(* the theorem: same decisions, no warning => prepare commutes with update *)
Lemma prepare_update us : forall f mn mx i tabs tabs' tr tabs2 w2,
  prepare f mn mx i tabs false = Ok (tabs', false, tr) ->
  prepare f mn mx i (map (update us) tabs) false = Ok (tabs2, w2, tr) ->
  tabs2 = map (update us) tabs' /\ w2 = false.
Proof.
  induction f as [|f IH]; intros mn mx i tabs tabs' tr tabs2 w2 H1 H2; [discriminate|].
  cbn [prepare] in H1, H2. rewrite !nth_error_map' in H2.
  destruct (nth_error tabs i) as [ti|] eqn:Ei.
  2:{ inversion H1; subst. inversion H2; subst. split; reflexivity. }
  rewrite !len_update in H2.
  destruct (mx <? len ti); [discriminate|].
  destruct (len ti <? mn).
  2:{ apply push_inv in H1. destruct H1 as [tr1 [H1 ->]]. apply push_inv in H2. destruct H2 as [tr2 [H2 E]].
      inversion E; subst tr2. eapply IH; eauto. }
  destruct (cnt ti <=? 0); [discriminate|].
  destruct (cnt (update us ti) <=? 0); [discriminate|].
  rewrite b_update, merge_prev_map, cmwn_update, prev_map in H2.
  (* lock step through _check_partial_unroll, continuations K1 / K2 when it returns False in both runs *)
  assert (CPU : forall K1 K2,
     match check_partial_unroll ti mn false with
     | Err k => Err k
     | Ok (Some (ti', w', d)) => push d (prepare f mn mx (S i) (replace_nth i ti' tabs) w')
     | Ok None => K1
     end = Ok (tabs', false, tr) ->
     match check_partial_unroll (update us ti) mn false with
     | Err k => Err k
     | Ok (Some (ti', w', d)) => push d (prepare f mn mx (S i) (replace_nth i ti' (map (update us) tabs)) w')
     | Ok None => K2
     end = Ok (tabs2, w2, tr) ->
     (K1 = Ok (tabs', false, tr) -> K2 = Ok (tabs2, w2, tr) -> tabs2 = map (update us) tabs' /\ w2 = false) ->
     (forall u idx tr', K1 = Ok (tabs', false, DUnroll u idx :: tr') -> False) ->
     (forall u idx tr', K2 = Ok (tabs2, w2, DUnroll u idx :: tr') -> False) ->
     tabs2 = map (update us) tabs' /\ w2 = false).
  { intros K1 K2 A1 A2 Cont Hd1 Hd2.
    destruct (check_partial_unroll ti mn false) as [[[[ti1 w1] d1]|]|k1] eqn:C1; [| |discriminate];
      destruct (check_partial_unroll (update us ti) mn false) as [[[[ti2 w3] d2]|]|k2] eqn:C2; try discriminate.
    - apply push_inv in A1. destruct A1 as [tr1 [A1 ->]]. apply push_inv in A2. destruct A2 as [tr2 [A2 E]].
      inversion E; subst d2 tr2.
      destruct w1; [apply prepare_warn_true in A1; discriminate|].
      destruct (cpu_update us _ _ _ _ _ _ C1 C2) as [-> ->].
      rewrite <- map_replace_nth in A2. eapply IH; eauto.
    - exfalso. destruct (cpu_dec _ _ _ _ _ _ C1) as [u [idx ->]].
      apply push_inv in A1. destruct A1 as [tr1 [_ ->]]. eapply Hd2; eauto.
    - exfalso. destruct (cpu_dec _ _ _ _ _ _ C2) as [u [idx ->]].
      apply push_inv in A2. destruct A2 as [tr2 [_ ->]]. eapply Hd1; eauto.
    - auto. }
  destruct ((cnt ti =? 1) && negb (is_vol (rep_of ti))).
  2:{ eapply CPU; [exact H1|exact H2| | |]; intros; discriminate. }
  destruct (match i with O => None | S j => check_merge_with_next tabs j mx end) as [tm|].
  { apply push_inv in H1. destruct H1 as [tr1 [H1 ->]]. apply push_inv in H2. destruct H2 as [tr2 [H2 E]].
    inversion E; subst tr2. eapply IH; eauto. }
  destruct (check_merge_with_next tabs i mx) as [tm|].
  { apply push_inv in H1. destruct H1 as [tr1 [H1 ->]]. apply push_inv in H2. destruct H2 as [tr2 [H2 E]].
    inversion E; subst tr2. eapply IH; eauto. }
  (* the "next neighbour" branch in lock step *)
  assert (NXT : forall tr0,
     match nth_error tabs (S i) with
     | Some nxt =>
         if (1 <? cnt nxt) && (len ti + len nxt <? mx)
         then push DExtNext (prepare f mn mx i (ext_next i ti nxt tabs) (false || is_vol (rep_of nxt)))
         else Err ETabor
     | None => Err ETabor
     end = Ok (tabs', false, tr0) ->
     match match nth_error tabs (S i) with Some x => Some (update us x) | None => None end with
     | Some nxt =>
         if (1 <? cnt nxt) && (len ti + len nxt <? mx)
         then push DExtNext (prepare f mn mx i (ext_next i (update us ti) nxt (map (update us) tabs))
                                     (false || is_vol (rep_of nxt)))
         else Err ETabor
     | None => Err ETabor
     end = Ok (tabs2, w2, tr0) ->
     tabs2 = map (update us) tabs' /\ w2 = false).
  { intros tr0 A1 A2. destruct (nth_error tabs (S i)) as [nxt|]; [|discriminate].
    rewrite len_update in A2.
    destruct ((1 <? cnt nxt) && (len ti + len nxt <? mx)) eqn:Cn; [|discriminate].
    apply push_inv in A1. destruct A1 as [tr1 [A1 ->]].
    destruct (is_vol (rep_of nxt)) eqn:Vn; [cbn [orb] in A1; apply prepare_warn_true in A1; discriminate|].
    rewrite (cnt_fixed us nxt Vn), Cn in A2.
    apply push_inv in A2. destruct A2 as [tr2 [A2 E]]. inversion E; subst tr2.
    rewrite is_vol_update, Vn in A2. cbn [orb] in A1, A2. rewrite ext_next_update in A2 by exact Vn.
    eapply IH; eauto. }
  assert (NXH : forall t w tr0 (K : result (list prog * bool * list dec)),
     match nth_error tabs (S i) with
     | Some nxt =>
         if (1 <? cnt nxt) && (len ti + len nxt <? mx)
         then push DExtNext (prepare f mn mx i (ext_next i ti nxt tabs) (false || is_vol (rep_of nxt)))
         else Err ETabor
     | None => Err ETabor
     end = Ok (t, w, tr0) -> exists tr1, tr0 = DExtNext :: tr1).
  { intros t w tr0 _ A. destruct (nth_error tabs (S i)) as [nxt|]; [|discriminate].
    destruct ((1 <? cnt nxt) && (len ti + len nxt <? mx)); [|discriminate].
    apply push_inv in A. destruct A as [tr1 [_ ->]]. eauto. }
  assert (NXH2 : forall t w tr0,
     match match nth_error tabs (S i) with Some x => Some (update us x) | None => None end with
     | Some nxt =>
         if (1 <? cnt nxt) && (len ti + len nxt <? mx)
         then push DExtNext (prepare f mn mx i (ext_next i (update us ti) nxt (map (update us) tabs))
                                     (false || is_vol (rep_of nxt)))
         else Err ETabor
     | None => Err ETabor
     end = Ok (t, w, tr0) -> exists tr1, tr0 = DExtNext :: tr1).
  { intros t w tr0 A. destruct (nth_error tabs (S i)) as [nxt|]; [|discriminate].
    destruct ((1 <? cnt (update us nxt)) && (len ti + len (update us nxt) <? mx)); [|discriminate].
    apply push_inv in A. destruct A as [tr1 [_ ->]]. eauto. }
  eapply CPU; [exact H1|exact H2| | |].
  - (* both runs extend the table by a neighbour's iteration *)
    intros A1 A2.
    destruct (match i with O => None | S j => nth_error tabs j end) as [prev|]; [|eapply NXT; eauto].
    rewrite len_update in A2.
    destruct ((1 <? cnt prev) && (len ti + len prev <? mx)) eqn:Cp.
    + apply push_inv in A1. destruct A1 as [tr1 [A1 ->]].
      destruct (is_vol (rep_of prev)) eqn:Vp; [cbn [orb] in A1; apply prepare_warn_true in A1; discriminate|].
      rewrite (cnt_fixed us prev Vp), Cp in A2.
      apply push_inv in A2. destruct A2 as [tr2 [A2 E]]. inversion E; subst tr2.
      rewrite is_vol_update, Vp in A2. cbn [orb] in A1, A2. rewrite ext_prev_update in A2 by exact Vp.
      eapply IH; eauto.
    + destruct ((1 <? cnt (update us prev)) && (len ti + len prev <? mx)); [|eapply NXT; eauto].
      exfalso. apply push_inv in A2. destruct A2 as [tr2 [_ E]].
      destruct (NXH _ _ _ (Err EFail) A1) as [tr1 E1]. congruence.
  - intros u idx tr' A.
    destruct (match i with O => None | S j => nth_error tabs j end) as [prev|].
    + destruct ((1 <? cnt prev) && (len ti + len prev <? mx)).
      * apply push_inv in A. destruct A as [tr1 [_ E]]. discriminate.
      * destruct (NXH _ _ _ (Err EFail) A) as [tr1 E1]. discriminate.
    + destruct (NXH _ _ _ (Err EFail) A) as [tr1 E1]. discriminate.
  - intros u idx tr' A.
    destruct (match i with O => None | S j => nth_error tabs j end) as [prev|].
    + destruct ((1 <? cnt (update us prev)) && (len ti + len (update us prev) <? mx)).
      * apply push_inv in A. destruct A as [tr1 [_ E]]. discriminate.
      * destruct (NXH2 _ _ _ A) as [tr1 E1]. discriminate.
    + destruct (NXH2 _ _ _ A) as [tr1 E1]. discriminate.
Qed.

(* ------------------------------------------------------------------------------------------------------------ *)
(* the hypotheses are satisfiable by a compilation that really restructures tables holding volatile entries, and the
   same-decisions hypothesis cannot be dropped: an update can flip a count-dependent decision *)
Definition ex_leaf (w : N) : prog := Node (Fixed 1) false (Some w) [].
Definition ex_vleaf (w : N) (n : Z) : prog := Node (Vol (EVar 1%N) (SDict [(1%N, n)] [1%N])) false (Some w) [].
Definition ex_tabs_a : list prog :=
  [Node (Fixed 1) false None [ex_leaf 0]; Node (Fixed 3) false None [ex_vleaf 1 2; ex_leaf 2]].
Definition ex_tabs_b : list prog :=
  [Node (Fixed 1) false None [ex_vleaf 0 1; Node (Fixed 2) false (Some 1%N) []];
   Node (Fixed 3) false None [ex_leaf 3; ex_leaf 4; ex_leaf 4]].

Lemma prepare_update_nonvacuous : exists us f mn mx tabs tabs' tr,
  prepare f mn mx 0 tabs false = Ok (tabs', false, tr) /\
  prepare f mn mx 0 (map (update us) tabs) false = Ok (map (update us) tabs', false, tr) /\
  map (update us) tabs' <> tabs' /\
  existsb (fun d => match d with DSkip => false | _ => true end) tr = true.
Proof.
  exists [(1%N, 3)], 20%nat, 2, 8, ex_tabs_a.
  destruct (prepare 20 2 8 0 ex_tabs_a false) as [[[t w] tr]|k] eqn:E; vm_compute in E; [|discriminate].
  inversion E; subst t w tr. eexists _, _. split; [reflexivity|].
  split; [vm_compute; reflexivity|]. split; [vm_compute; discriminate|vm_compute; reflexivity].
Qed.

Lemma prepare_update_needs_same_trace : exists us f mn mx tabs tabs' tr tabs2 w2 tr2,
  prepare f mn mx 0 tabs false = Ok (tabs', false, tr) /\
  prepare f mn mx 0 (map (update us) tabs) false = Ok (tabs2, w2, tr2) /\
  tr2 <> tr /\ tabs2 <> map (update us) tabs'.
Proof.
  exists [(1%N, 0)], 20%nat, 3, 8, ex_tabs_b.
  destruct (prepare 20 3 8 0 ex_tabs_b false) as [[[t w] tr]|k] eqn:E; vm_compute in E; [|discriminate].
  inversion E; subst t w tr.
  destruct (prepare 20 3 8 0 (map (update [(1%N, 0)]) ex_tabs_b) false) as [[[t2 w2] tr2]|k] eqn:E2;
    vm_compute in E2; [|discriminate].
  inversion E2; subst t2 w2 tr2.
  eexists _, _, _, _, _. split; [reflexivity|]. split; [reflexivity|].
  split; [discriminate|vm_compute; discriminate].
Qed.

(* ------------------------------------------------------------------------------------------------------------ *)
(* setup_advanced_sequence_mode up to the parser: flatten_and_balance(2) + prepare commute with the update *)
Lemma adv_tables_update us f mn mx t1 tabs tr tabs2 w2 :
  adv_tables f mn mx t1 = Ok (tabs, false, tr) ->
  adv_tables f mn mx (update us t1) = Ok (tabs2, w2, tr) ->
  tabs2 = map (update us) tabs /\ w2 = false.
Proof.
  unfold adv_tables. rewrite kids_update. intros H1 H2.
  destruct (fab f 2 (kids t1) false) as [[ch w1]|k] eqn:F1; [|discriminate].
  destruct w1; [apply prepare_warn_true in H1; discriminate|].
  rewrite (fab_update us _ _ _ _ F1) in H2. eapply prepare_update; eauto.
Qed.

(* root encapsulation: same decision => the tree handed to the sequencing set-up commutes with the update *)
Lemma root_enc_update us t : root_enc (update us t) = root_enc t ->
  (if root_enc (update us t) then encapsulate (update us t) else update us t)
  = update us (if root_enc t then encapsulate t else t).
Proof. intros ->. destruct (root_enc t); reflexivity. Qed.
