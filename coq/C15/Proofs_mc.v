(* C15 — make_compatible commutes with updates when it emitted no VolatileModificationWarning and the run on the
   updated program takes the same decisions. *)
From Coq Require Import ZArith NArith Bool List Lia.
Require Import QV.C15.Model QV.C15.ModelMC.
Import ListNotations.
Open Scope Z_scope.

Lemma cprog_ind' (P : cprog -> Prop) :
  (forall r w ch, Forall P ch -> P (CNode r w ch)) -> forall t, P t.
Proof.
  intros H. fix IH 1. intros [r w ch]. apply H.
  induction ch as [|c ch IHch]; constructor; [apply IH|exact IHch].
Qed.

Lemma is_vol_upd us r : is_vol (upd_rep us r) = is_vol r.
Proof. destruct r; reflexivity. Qed.
Lemma rcount_upd_fixed us r : is_vol r = false -> rcount (upd_rep us r) = rcount r.
Proof. destruct r; [reflexivity|discriminate]. Qed.
Lemma crep_cupdate us t : crep (cupdate us t) = upd_rep us (crep t).
Proof. destruct t; reflexivity. Qed.

Lemma has_vol_desc_cons r w c ch :
  has_vol_desc (CNode r w (c :: ch)) = (is_vol (crep c) || has_vol_desc c) || has_vol_desc (CNode r w ch).
Proof. reflexivity. Qed.

Lemma flat_map_to_wf_novol us : forall ch,
  Forall (fun c => is_vol (crep c) = false -> has_vol_desc c = false -> to_wf (cupdate us c) = to_wf c) ch ->
  existsb (fun c => is_vol (crep c) || has_vol_desc c) ch = false ->
  flat_map to_wf (map (cupdate us) ch) = flat_map to_wf ch.
Proof.
  induction ch as [|c ch IH]; intros F E; [reflexivity|]. cbn in E |- *.
  apply orb_false_iff in E. destruct E as [E1 E2]. apply orb_false_iff in E1. destruct E1 as [V D].
  inversion F; subst. rewrite (H1 V D), (IH H2 E2). reflexivity.
Qed.

(* a sub-program without volatile counts is concatenated to the same waveform before and after an update *)
Lemma to_wf_novol us : forall t, is_vol (crep t) = false -> has_vol_desc t = false -> to_wf (cupdate us t) = to_wf t.
Proof.
  induction t as [r w ch IH] using cprog_ind'. intros V D. cbn [crep] in V. cbn [cupdate to_wf].
  rewrite (rcount_upd_fixed us r V).
  destruct ch as [|c ch]; [reflexivity|].
  change (map (cupdate us) (c :: ch)) with (cupdate us c :: map (cupdate us) ch).
  change (cupdate us c :: map (cupdate us) ch) with (map (cupdate us) (c :: ch)).
  cbn [has_vol_desc] in D. rewrite (flat_map_to_wf_novol us (c :: ch) IH D). reflexivity.
Qed.

Lemma is_compat_action_novol (al : N -> Z) mn q t : is_compat al mn q t = (LAction, false) -> is_vol (crep t) = false.
Proof.
  destruct t as [r w ch]. cbn [is_compat crep].
  destruct (cdur al (CNode r w ch) <? mn); [discriminate|].
  destruct (0 <? cdur al (CNode r w ch) mod q); [discriminate|].
  destruct ch as [|c ch].
  - destruct ((cbody al (CNode r w []) <? mn) || negb (cbody al (CNode r w []) mod q =? 0)); intros H; inversion H; auto.
  - destruct (forallb _ _); intros H; [discriminate|]. injection H as H1. apply orb_false_iff in H1. destruct H1; assumption.
Qed.

Section MC.
Variables (us : list (name * Z)) (al : N -> Z) (mn q : Z).

Definition mcF (rp : bool) (c : cprog) : cprog * bool * ctr :=
  match fst (is_compat al mn q c) with
  | LAction => mc_rec rp al mn q c
  | _ => (c, false, CTr [] false [])
  end.

Definition commutes (t : cprog) : Prop :=
  is_vol (crep t) = false -> forall t' tr t2 w2,
  mc_rec true al mn q t = (t', false, tr) -> mc_rec true al mn q (cupdate us t) = (t2, w2, tr) -> t2 = cupdate us t'.

Lemma mc_children : forall l,
  Forall commutes l ->
  map fst (map (is_compat al mn q) (map (cupdate us) l)) = map fst (map (is_compat al mn q) l) ->
  existsb snd (map (is_compat al mn q) l) = false ->
  existsb (fun x => snd (fst x)) (map (mcF true) l) = false ->
  map snd (map (mcF true) (map (cupdate us) l)) = map snd (map (mcF true) l) ->
  map (fun x => fst (fst x)) (map (mcF true) (map (cupdate us) l)) = map (cupdate us) (map (fun x => fst (fst x)) (map (mcF true) l)).
Proof.
  induction l as [|c l IH]; intros F L W S T; [reflexivity|].
  inversion F as [|? ? Fc Fl]; subst.
  cbn [map] in L, W, S, T |- *. cbn [existsb] in W, S.
  apply orb_false_iff in W. destruct W as [Wc Wl]. apply orb_false_iff in S. destruct S as [Sc Sl].
  inversion L as [[Lc Ll]]. inversion T as [[Tc Tl]].
  rewrite (IH Fl Ll Wl Sl Tl). f_equal.
  unfold mcF in *. rewrite Lc in *.
  destruct (is_compat al mn q c) as [lv wc] eqn:E. cbn [fst snd] in *. subst wc.
  destruct lv; try reflexivity.
  destruct (mc_rec true al mn q c) as [[c' w1] tr1] eqn:M1. destruct (mc_rec true al mn q (cupdate us c)) as [[c2 w2] tr2] eqn:M2.
  cbn [fst snd] in *. subst w1 tr2.
  apply (Fc (is_compat_action_novol _ _ _ _ E) c' tr1 c2 w2 M1 M2).
Qed.

Lemma mc_rec_inner rp r w ch : ch <> [] ->
  mc_rec rp al mn q (CNode r w ch) =
  let rs := map (is_compat al mn q) ch in
  if existsb incompatible (map fst rs) then
    let keep := (cbody al (CNode r w ch) mod q =? 0) && (mn <=? cbody al (CNode r w ch)) in
    (CNode (if keep then r else Fixed 1)
           (Some (if keep then to_wf (CNode (Fixed 1) w ch) else to_wf (CNode r w ch))) [],
     existsb snd rs || (rp && has_vol_desc (CNode r w ch)), CTr (map fst rs) keep [])
  else (CNode r w (map (fun x => fst (fst x)) (map (mcF rp) ch)),
        existsb snd rs || existsb (fun x => snd (fst x)) (map (mcF rp) ch),
        CTr (map fst rs) false (map snd (map (mcF rp) ch))).
Proof. destruct ch; [congruence|reflexivity]. Qed.

Lemma mc_rec_update : forall t, commutes t.
Proof.
  induction t as [r w ch IH] using cprog_ind'. intros V t' tr t2 w2 H1 H2. cbn [crep] in V.
  destruct (match ch with [] => true | _ => false end) eqn:Em.
  - destruct ch; [|discriminate].
    cbn [cupdate map mc_rec] in H1, H2. inversion H1; inversion H2; subst. cbn [cupdate map]. f_equal. f_equal.
    rewrite (rcount_upd_fixed us r V). reflexivity.
  - assert (NE : ch <> []) by (intros ->; discriminate).
    assert (NE2 : map (cupdate us) ch <> []) by (destruct ch; [congruence|discriminate]).
    assert (U : cupdate us (CNode r w ch) = CNode (upd_rep us r) w (map (cupdate us) ch)) by reflexivity.
    rewrite U in H2. rewrite mc_rec_inner in H1 by exact NE. rewrite mc_rec_inner in H2 by exact NE2.
    cbv zeta in H1, H2. cbn [andb] in H1, H2. clear Em U.
    remember ((cbody al (CNode r w ch) mod q =? 0) && (mn <=? cbody al (CNode r w ch))) as k1 eqn:Ek1.
    remember ((cbody al (CNode (upd_rep us r) w (map (cupdate us) ch)) mod q =? 0) &&
              (mn <=? cbody al (CNode (upd_rep us r) w (map (cupdate us) ch)))) as k2 eqn:Ek2.
    clear Ek1 Ek2.
    destruct (existsb incompatible (map fst (map (is_compat al mn q) ch))) eqn:I1;
      destruct (existsb incompatible (map fst (map (is_compat al mn q) (map (cupdate us) ch)))) eqn:I2;
      injection H1 as Ht Hw Htr; injection H2 as Ht2 Hw2 Htr2; subst tr; injection Htr2 as Lv Kp.
    + (* children concatenated in both runs *)
      apply orb_false_iff in Hw. destruct Hw as [_ D]. subst t' t2.
      subst k2. cbn [cupdate map]. f_equal.
      * destruct k1; reflexivity.
      * f_equal.
        assert (D1 : has_vol_desc (CNode (Fixed 1) w ch) = false) by exact D.
        pose proof (to_wf_novol us (CNode (Fixed 1) w ch) eq_refl D1) as T1.
        pose proof (to_wf_novol us (CNode r w ch) V D) as T2.
        destruct k1; [exact T1|exact T2].
    + rewrite Lv in I2. congruence.
    + rewrite Lv in I2. congruence.
    + (* recursion into the children that need an action *)
      apply orb_false_iff in Hw. destruct Hw as [W S]. subst t' t2.
      cbn [cupdate]. f_equal. apply mc_children; assumption.
Qed.

Lemma make_compatible_update t t' tr t2 w2 :
  make_compatible true al mn q t = Ok (t', false, tr) ->
  make_compatible true al mn q (cupdate us t) = Ok (t2, w2, tr) ->
  t2 = cupdate us t'.
Proof.
  unfold make_compatible. intros H1 H2.
  destruct (is_compat al mn q t) as [lv w0] eqn:E1. destruct (is_compat al mn q (cupdate us t)) as [lv2 w02] eqn:E2.
  destruct lv; try discriminate; destruct lv2; try discriminate.
  - inversion H1; inversion H2; subst. reflexivity.
  - destruct (mc_rec true al mn q (cupdate us t)) as [[? ?] ?]. inversion H1; inversion H2; subst. discriminate.
  - destruct (mc_rec true al mn q t) as [[? ?] ?]. inversion H1; inversion H2; subst. discriminate.
  - destruct (mc_rec true al mn q t) as [[c' w1] tr1] eqn:M1. destruct (mc_rec true al mn q (cupdate us t)) as [[c2 w2'] tr2] eqn:M2.
    inversion H1; inversion H2; subst. apply orb_false_iff in H3. destruct H3 as [-> ->].
    match goal with H : CTr _ _ _ = CTr _ _ _ |- _ => inversion H; subst end.
    eapply mc_rec_update; eauto. eapply is_compat_action_novol; eauto.
Qed.

(* the repair changes the warning flag only *)
Lemma mc_rec_rp_irrel : forall t,
  fst (fst (mc_rec false al mn q t)) = fst (fst (mc_rec true al mn q t)) /\
  snd (mc_rec false al mn q t) = snd (mc_rec true al mn q t).
Proof.
  induction t as [r w ch IH] using cprog_ind'.
  destruct (match ch with [] => true | _ => false end) eqn:Em.
  - destruct ch; [|discriminate]. split; reflexivity.
  - assert (NE : ch <> []) by (intros ->; discriminate). rewrite !mc_rec_inner by exact NE. cbv zeta.
    destruct (existsb incompatible (map fst (map (is_compat al mn q) ch))); [split; reflexivity|]. cbn [fst snd].
    assert (A : map (fun x => fst (fst x)) (map (mcF false) ch) = map (fun x => fst (fst x)) (map (mcF true) ch) /\
                map snd (map (mcF false) ch) = map snd (map (mcF true) ch)).
    { clear NE Em. induction ch as [|c ch IHc]; [split; reflexivity|]. inversion IH as [|? ? Hc Hl]; subst.
      destruct (IHc Hl) as [A1 A2]. cbn [map]. rewrite A1, A2. unfold mcF at 1 3 5 7.
      destruct (fst (is_compat al mn q c)); try (split; reflexivity). destruct Hc as [B1 B2]. rewrite B1, B2. split; reflexivity. }
    destruct A as [A1 A2]. rewrite A1, A2. split; reflexivity.
Qed.

Lemma make_compatible_rp_irrel t t' w tr :
  make_compatible false al mn q t = Ok (t', w, tr) ->
  exists w', make_compatible true al mn q t = Ok (t', w', tr).
Proof.
  unfold make_compatible. destruct (is_compat al mn q t) as [lv w0]. destruct lv; try discriminate.
  - intros H. inversion H; subst. eauto.
  - destruct (mc_rec_rp_irrel t) as [A B].
    destruct (mc_rec false al mn q t) as [[a b] c]. destruct (mc_rec true al mn q t) as [[a' b'] c'].
    cbn in A, B. subst. intros H. inversion H; subst. eauto.
Qed.

(* the code as it is: the same statement under guard_C15_make_compatible_baked *)
Lemma make_compatible_update_current t t' w tr t2 w2 :
  guard_C15_make_compatible_baked al mn q t = true ->
  make_compatible false al mn q t = Ok (t', w, tr) ->
  make_compatible false al mn q (cupdate us t) = Ok (t2, w2, tr) ->
  t2 = cupdate us t'.
Proof.
  intros G H1 H2. destruct (make_compatible_rp_irrel _ _ _ _ H1) as [w' R1].
  destruct (make_compatible_rp_irrel _ _ _ _ H2) as [w2' R2].
  unfold guard_C15_make_compatible_baked in G. rewrite R1 in G. destruct w'; [discriminate|].
  eapply make_compatible_update; eauto.
Qed.
End MC.

(* ------------------------------------------------------------------------------------------------------------ *)
(* examples *)
Definition ex_al (a : N) : Z := nth (N.to_nat a) [192; 384; 96; 192; 576] 192.
Definition ex_vol (n : Z) : rep := Vol (EVar 1%N) (SDict [(1%N, n)] [1%N]).
Definition ex_cleaf (a : N) : cprog := CNode (Fixed 1) (Some [a]) [].
(* volatile repetition of a long atom next to a group of two short atoms: the group is concatenated, the volatile
   loop is compatible as it is *)
Definition ex_mc_ok : cprog :=
  CNode (Fixed 1) None [CNode (ex_vol 1) None [ex_cleaf 1%N]; CNode (Fixed 1) None [ex_cleaf 0%N; ex_cleaf 3%N]].
(* RepetitionPT(RepetitionPT(atom, n), 3), n = 1 volatile, minimal length 576 (known finding before the repair) *)
Definition ex_mc_baked : cprog :=
  CNode (Fixed 1) None [CNode (Fixed 3) None [CNode (ex_vol 1) None [ex_cleaf 0%N]]].

Lemma make_compatible_update_nonvacuous : exists us t' tr,
  make_compatible true ex_al 384 16 ex_mc_ok = Ok (t', false, tr) /\
  make_compatible true ex_al 384 16 (cupdate us ex_mc_ok) = Ok (cupdate us t', false, tr) /\
  t' <> ex_mc_ok /\ cplay (cupdate us t') <> cplay t'.
Proof.
  exists [(1%N, 3)]. eexists. eexists. split; [vm_compute; reflexivity|].
  split; [vm_compute; reflexivity|]. split; vm_compute; discriminate.
Qed.

(* the no-warning hypothesis cannot be dropped: a volatile count inside a concatenated sub-program is baked in; the
   repaired code reports it (warning flag true) *)
Lemma make_compatible_update_needs_no_warning : exists us t' tr t2 w2,
  make_compatible true ex_al 576 16 ex_mc_baked = Ok (t', true, tr) /\
  make_compatible true ex_al 576 16 (cupdate us ex_mc_baked) = Ok (t2, w2, tr) /\
  t2 <> cupdate us t' /\ cplay t2 <> cplay (cupdate us t').
Proof.
  exists [(1%N, 2)]. eexists. eexists. eexists. eexists. split; [vm_compute; reflexivity|].
  split; [vm_compute; reflexivity|]. split; vm_compute; discriminate.
Qed.

Lemma cprog_of_update us : forall t, cprog_of (update us t) = cupdate us (cprog_of t).
Proof.
  fix IH 1. intros [r m w ch]. cbn [update cprog_of cupdate]. f_equal. rewrite !map_map.
  induction ch as [|c ch IHc]; [reflexivity|]. cbn [map]. rewrite IH, IHc. reflexivity.
Qed.

Lemma make_compatible_program_update us al mn q t t' tr t2 w2 :
  make_compatible true al mn q (cprog_of t) = Ok (t', false, tr) ->
  make_compatible true al mn q (cprog_of (update us t)) = Ok (t2, w2, tr) ->
  t2 = cupdate us t' /\ cplay t2 = cplay (cupdate us t').
Proof.
  rewrite cprog_of_update. intros H1 H2. pose proof (make_compatible_update us al mn q _ _ _ _ _ H1 H2) as E.
  subst t2. split; reflexivity.
Qed.

Lemma make_compatible_program_update_current us al mn q t t' w tr t2 w2 :
  guard_C15_make_compatible_baked al mn q (cprog_of t) = true ->
  make_compatible false al mn q (cprog_of t) = Ok (t', w, tr) ->
  make_compatible false al mn q (cprog_of (update us t)) = Ok (t2, w2, tr) ->
  t2 = cupdate us t' /\ cplay t2 = cplay (cupdate us t').
Proof.
  rewrite cprog_of_update. intros G H1 H2.
  pose proof (make_compatible_update_current us al mn q _ _ _ _ _ _ G H1 H2) as E. subst t2. split; reflexivity.
Qed.

(* the code as it is (rp = false): NO warning, same decisions, and still the volatile child is baked in: known finding
   C15-make-compatible-bakes-volatile-child *)
Lemma make_compatible_current_refuted : exists us t' tr t2 w2,
  make_compatible false ex_al 576 16 ex_mc_baked = Ok (t', false, tr) /\
  make_compatible false ex_al 576 16 (cupdate us ex_mc_baked) = Ok (t2, w2, tr) /\
  t2 <> cupdate us t' /\ cplay t2 <> cplay (cupdate us t') /\
  guard_C15_make_compatible_baked ex_al 576 16 ex_mc_baked = false.
Proof.
  exists [(1%N, 2)]. eexists. eexists. eexists. eexists. split; [vm_compute; reflexivity|].
  split; [vm_compute; reflexivity|]. repeat split; vm_compute; discriminate.
Qed.

Lemma make_compatible_current_nonvacuous : exists us t' tr,
  guard_C15_make_compatible_baked ex_al 384 16 ex_mc_ok = true /\
  make_compatible false ex_al 384 16 ex_mc_ok = Ok (t', false, tr) /\
  make_compatible false ex_al 384 16 (cupdate us ex_mc_ok) = Ok (cupdate us t', false, tr) /\
  t' <> ex_mc_ok /\ cplay (cupdate us t') <> cplay t'.
Proof.
  exists [(1%N, 3)]. eexists. eexists. split; [vm_compute; reflexivity|]. split; [vm_compute; reflexivity|].
  split; [vm_compute; reflexivity|]. split; vm_compute; discriminate.
Qed.

(* ------------------------------------------------------------------------------------------------------------ *)
(* no warning (repaired code) => every volatile repetition count of the program is still there afterwards *)
Fixpoint cvols (t : cprog) : list rep :=
  match t with CNode r _ ch => (if is_vol r then [r] else []) ++ flat_map cvols ch end.

Lemma cvols_novol : forall t, is_vol (crep t) = false -> has_vol_desc t = false -> cvols t = [].
Proof.
  induction t as [r w ch IH] using cprog_ind'. cbn [crep has_vol_desc cvols]. intros V D. rewrite V. cbn.
  induction ch as [|c ch IHc]; [reflexivity|]. cbn in D |- *. apply orb_false_iff in D. destruct D as [D1 D2].
  apply orb_false_iff in D1. destruct D1 as [Vc Dc]. inversion IH; subst. rewrite (H1 Vc Dc), (IHc H2 D2). reflexivity.
Qed.

Lemma mc_rec_keeps_vols al mn q : forall t t' tr,
  is_vol (crep t) = false -> mc_rec true al mn q t = (t', false, tr) -> cvols t' = cvols t.
Proof.
  induction t as [r w ch IH] using cprog_ind'. intros t' tr V H. cbn [crep] in V.
  destruct (match ch with [] => true | _ => false end) eqn:Em.
  - destruct ch; [|discriminate]. cbn [mc_rec] in H. inversion H; subst. cbn [cvols flat_map is_vol app]. rewrite V. reflexivity.
  - assert (NE : ch <> []) by (intros ->; discriminate). rewrite mc_rec_inner in H by exact NE. cbv zeta in H.
    cbn [andb] in H.
    destruct (existsb incompatible (map fst (map (is_compat al mn q) ch))).
    + injection H as Ht Hw _. apply orb_false_iff in Hw. destruct Hw as [_ D]. subst t'.
      rewrite (cvols_novol (CNode r w ch) V D). cbn [cvols flat_map]. rewrite app_nil_r.
      match goal with |- context [is_vol (if ?k then r else Fixed 1)] => destruct k end; [rewrite V|]; reflexivity.
    + injection H as Ht Hw _. apply orb_false_iff in Hw. destruct Hw as [W S]. subst t'. cbn [cvols]. f_equal.
      clear NE Em. induction ch as [|c ch IHc]; [reflexivity|]. inversion IH as [|? ? Hc Hl]; subst.
      cbn [map existsb] in W, S. apply orb_false_iff in W. destruct W as [Wc Wl]. apply orb_false_iff in S. destruct S as [Sc Sl].
      cbn [map flat_map]. rewrite (IHc Hl Wl Sl). f_equal.
      unfold mcF in *. destruct (is_compat al mn q c) as [lv wc] eqn:E. cbn [fst snd] in *. subst wc.
      destruct lv; try reflexivity.
      destruct (mc_rec true al mn q c) as [[c' w1] tr1] eqn:M1. cbn [fst snd] in *. subst w1.
      eapply Hc; [eapply is_compat_action_novol; eauto|reflexivity].
Qed.

Lemma make_compatible_keeps_vols al mn q t t' tr :
  make_compatible true al mn q t = Ok (t', false, tr) -> cvols t' = cvols t.
Proof.
  unfold make_compatible. destruct (is_compat al mn q t) as [lv w0] eqn:E. destruct lv; try discriminate.
  - intros H; inversion H; subst. reflexivity.
  - destruct (mc_rec true al mn q t) as [[c' w1] tr1] eqn:M. intros H. inversion H; subst.
    apply orb_false_iff in H2. destruct H2 as [-> ->].
    eapply mc_rec_keeps_vols; eauto. eapply is_compat_action_novol; eauto.
Qed.

(* the code as it is loses a volatile count without any warning (known finding) *)
Lemma make_compatible_current_loses_count : exists t' tr,
  make_compatible false ex_al 576 16 ex_mc_baked = Ok (t', false, tr) /\ cvols ex_mc_baked <> [] /\ cvols t' = [].
Proof. eexists. eexists. split; [vm_compute; reflexivity|]. split; [vm_compute; discriminate|reflexivity]. Qed.
