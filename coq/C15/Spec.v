(* C15 — independent specification.  No scopes, no program builder: a template is instantiated against two plain
   functions, sigma (the value a name has through the enclosing mappings) and delta (whether that value depends on a
   parameter marked volatile).  Used by check_spec on the implementation's observation and by the theorems. *)
From Coq Require Import ZArith NArith Bool List.
Require Import QV.C15.Model.
Import ListNotations.
Open Scope Z_scope.

(* dependence of a name on the volatile parameters through the scope structure *)
Fixpoint depends (s : scope) (x : name) : bool :=
  match s with
  | SDict _ V => mem x V
  | SMapped inner m => match lookup x m with
                       | Some e => existsb (depends inner) (vars e)
                       | None => depends inner x
                       end
  | SJoint a sa b sb => (N.eqb x a && depends sa x) || (N.eqb x b && depends sb x)
  end.

(* observation trees: count, dependency keys if volatile (sorted), waveform id, children *)
Inductive otree := ONode (count : Z) (vol : option (list name)) (wf : option N) (ch : list otree).

(* what is observed of a model program tree *)
Fixpoint obs_of (t : prog) : otree :=
  match t with
  | Node r _ w ch => ONode (cnt t) (match dep_keys r with Some l => Some (sort_names l) | None => None end) w
                           (map obs_of ch)
  end.

Definition map_sigma (sigma : name -> option Z) (mp : list (name * expr)) : name -> option Z :=
  fun x => match lookup x mp with Some e => eval sigma e | None => sigma x end.
Definition map_delta (delta : name -> bool) (mp : list (name * expr)) : name -> bool :=
  fun x => match lookup x mp with Some e => existsb delta (vars e) | None => delta x end.

(* None = some count cannot be evaluated *)
Fixpoint spec_inst (p : pt) (sigma : name -> option Z) (delta : name -> bool) : option (list otree) :=
  match p with
  | PAtom w => Some [ONode 1 None (Some w) []]
  | PSeq l =>
      (fix go (l : list pt) : option (list otree) :=
         match l with
         | [] => Some []
         | q :: r => match spec_inst q sigma delta, go r with
                     | Some a, Some b => Some (a ++ b)
                     | _, _ => None
                     end
         end) l
  | PRep e _ body =>
      match eval sigma e with
      | None => None
      | Some v =>
          if v <=? 0 then Some []
          else match spec_inst body sigma delta with
               | None => None
               | Some [] => Some []
               | Some ks => Some [ONode v (if existsb delta (vars e)
                                           then Some (sort_names (filter delta (vars e))) else None) None ks]
               end
      end
  | PMap mp body => spec_inst body (map_sigma sigma mp) (map_delta delta mp)
  end.

Definition env_of (vals : list (name * Z)) : name -> option Z := fun x => lookup x vals.
Definition override (us vals : list (name * Z)) : list (name * Z) :=
  map (fun kv => (fst kv, match lookup (fst kv) us with Some v => v | None => snd kv end)) vals.

Definition spec_program (p : pt) (vals : list (name * Z)) (V : list name) : option (option otree) :=
  match spec_inst p (env_of vals) (fun x => mem x V) with
  | None => None
  | Some [] => Some None
  | Some ks => Some (Some (ONode 1 None None ks))
  end.

(* the sequence of waveforms a tree plays (bounded by fuel on the output length: None when too long) *)
Fixpoint oplay (t : otree) : list N :=
  match t with
  | ONode c _ w ch =>
      let body := match w with Some x => [x] | None => flat_map oplay ch end in
      repeat_list (Z.to_nat (Z.min c COUNT_LIMIT)) body
  end.

(* removing what plays nothing: count-0 nodes and inner nodes left without children *)
Fixpoint oprune (t : otree) : list otree :=
  match t with
  | ONode c v w ch =>
      if c <=? 0 then [] else
      match w with
      | Some _ => [ONode c v w []]
      | None => match flat_map oprune ch with [] => [] | ch' => [ONode c v w ch'] end
      end
  end.

Fixpoint list_N_eqb (a b : list N) : bool :=
  match a, b with
  | [], [] => true
  | x :: a', y :: b' => N.eqb x y && list_N_eqb a' b'
  | _, _ => false
  end.

Fixpoint otree_eqb (a b : otree) : bool :=
  match a, b with
  | ONode c1 v1 w1 ch1, ONode c2 v2 w2 ch2 =>
      (c1 =? c2) &&
      match v1, v2 with None, None => true | Some x, Some y => list_N_eqb x y | _, _ => false end &&
      match w1, w2 with None, None => true | Some x, Some y => N.eqb x y | _, _ => false end &&
      (fix go (x y : list otree) : bool :=
         match x, y with
         | [], [] => true
         | p :: x', q :: y' => otree_eqb p q && go x' y'
         | _, _ => false
         end) ch1 ch2
  end.

Fixpoint otrees_eqb (x y : list otree) : bool :=
  match x, y with
  | [], [] => true
  | p :: x', q :: y' => otree_eqb p q && otrees_eqb x' y'
  | _, _ => false
  end.

Fixpoint ocounts_pos (t : otree) : bool :=
  match t with ONode c _ _ ch => (0 <? c) && forallb ocounts_pos ch end.

(* ------------------------------------------------------------------------------------------------------------ *)
(* executable hypotheses of the theorems *)
(* the update only names parameters that were declared volatile *)
Definition keys_in (us : list (name * Z)) (V : list name) : bool := forallb (fun kv => mem (fst kv) V) us.
Fixpoint root_vol_ok (us : list (name * Z)) (s : scope) : bool :=
  match s with
  | SDict _ V => keys_in us V
  | SMapped i _ => root_vol_ok us i
  | SJoint _ sa _ sb => root_vol_ok us sa && root_vol_ok us sb
  end.

(* guard_C15_zero_count: every repetition count of the template evaluates to a positive number (nothing is dropped at
   instantiation; cf. the known finding C15-zero-count-dropped) *)
Fixpoint allpos (p : pt) (s : scope) : bool :=
  match p with
  | PAtom _ => true
  | PSeq l => forallb (fun q => allpos q s) l
  | PRep e _ body => match eval (get_param s) e with Some v => (0 <? v) && allpos body s | None => false end
  | PMap mp body => allpos body (SMapped s mp)
  end.
Definition guard_C15_zero_count (p : pt) (vals : list (name * Z)) (V : list name) : bool := allpos p (SDict vals V).

Fixpoint guard_C15_zero_count_seq (p : pt) (vals : list (name * Z)) (V : list name) (ups : list (list (name * Z))) : bool :=
  guard_C15_zero_count p vals V &&
  match ups with
  | [] => true
  | us :: r => keys_in us V && guard_C15_zero_count_seq p (override us vals) V r
  end.

Definition update_all (ups : list (list (name * Z))) (t : prog) : prog := fold_left (fun t us => update us t) ups t.
Definition override_all (ups : list (list (name * Z))) (vals : list (name * Z)) : list (name * Z) :=
  fold_left (fun v us => override us v) ups vals.
