(* C15 — independent specification.  No scopes, no program builder: a template is instantiated against two plain
   functions, sigma (the value a name has through the enclosing mappings) and delta (whether that value depends on a
   parameter marked volatile).  Used by check_spec on the implementation's observation and by the theorems. *)
From Coq Require Import ZArith NArith Bool List.
Require Import QV.C15.Model.
Import ListNotations.
Open Scope Z_scope.

(* dependence of a name on the volatile parameters through the scope structure *)
Fixpoint depends (s : scope) (x : name) : bool :=
  match s with
  | SDict _ V => mem x V
  | SMapped inner m => match lookup x m with
                       | Some e => existsb (depends inner) (vars e)
                       | None => depends inner x
                       end
  | SJoint a sa b sb => (N.eqb x a && depends sa x) || (N.eqb x b && depends sb x)
  end.

(* observation trees: count, dependency keys if volatile (sorted), waveform id, children *)
Inductive otree := ONode (count : Z) (vol : option (list name)) (wf : option N) (ch : list otree).

(* what is observed of a model program tree *)
Fixpoint obs_of (t : prog) : otree :=
  match t with
  | Node r _ w ch => ONode (cnt t) (match dep_keys r with Some l => Some (sort_names l) | None => None end) w
                           (map obs_of ch)
  end.

Definition map_sigma (sigma : name -> option Z) (mp : list (name * expr)) : name -> option Z :=
  fun x => match lookup x mp with Some e => eval sigma e | None => sigma x end.
Definition map_delta (delta : name -> bool) (mp : list (name * expr)) : name -> bool :=
  fun x => match lookup x mp with Some e => existsb delta (vars e) | None => delta x end.

(* None = some count cannot be evaluated *)
Fixpoint spec_inst (p : pt) (sigma : name -> option Z) (delta : name -> bool) : option (list otree) :=
  match p with
  | PAtom w => Some [ONode 1 None (Some w) []]
  | PSeq l =>
      (fix go (l : list pt) : option (list otree) :=
         match l with
         | [] => Some []
         | q :: r => match spec_inst q sigma delta, go r with
                     | Some a, Some b => Some (a ++ b)
                     | _, _ => None
                     end
         end) l
  | PRep e _ body =>
      match eval sigma e with
      | None => None
      | Some v =>
          if v <=? 0 then Some []
          else match spec_inst body sigma delta with
               | None => None
               | Some [] => Some []
               | Some ks => Some [ONode v (if existsb delta (vars e)
                                           then Some (sort_names (filter delta (vars e))) else None) None ks]
               end
      end
  | PMap mp body => spec_inst body (map_sigma sigma mp) (map_delta delta mp)
  end.

Definition env_of (vals : list (name * Z)) : name -> option Z := fun x => lookup x vals.
Definition override (us vals : list (name * Z)) : list (name * Z) :=
  map (fun kv => (fst kv, match lookup (fst kv) us with Some v => v | None => snd kv end)) vals.

Definition spec_program (p : pt) (vals : list (name * Z)) (V : list name) : option (option otree) :=
  match spec_inst p (env_of vals) (fun x => mem x V) with
  | None => None
  | Some [] => Some None
  | Some ks => Some (Some (ONode 1 None None ks))
  end.

(* the sequence of waveforms a tree plays (bounded by fuel on the output length: None when too long) *)
Fixpoint oplay (t : otree) : list N :=
  match t with
  | ONode c _ w ch =>
      let body := match w with Some x => [x] | None => flat_map oplay ch end in
      repeat_list (Z.to_nat (Z.min c COUNT_LIMIT)) body
  end.

(* removing what plays nothing: count-0 nodes and inner nodes left without children *)
Fixpoint oprune (t : otree) : list otree :=
  match t with
  | ONode c v w ch =>
      if c <=? 0 then [] else
      match w with
      | Some _ => [ONode c v w []]
      | None => match flat_map oprune ch with [] => [] | ch' => [ONode c v w ch'] end
      end
  end.

(* per played waveform (in play order): is one of the repetition counts on the path from the root marked volatile?
   This is invariant under merging single children / removing empty loops, so it states "exactly the counts that
   depend on volatile parameters are marked" for cleaned-up programs too *)
Fixpoint oleafmarks (anc : bool) (t : otree) : list bool :=
  match t with
  | ONode _ v w ch =>
      let a := anc || match v with Some _ => true | None => false end in
      match ch with
      | [] => match w with Some _ => [a] | None => [] end
      | _ => flat_map (oleafmarks a) ch
      end
  end.

Fixpoint list_N_eqb (a b : list N) : bool :=
  match a, b with
  | [], [] => true
  | x :: a', y :: b' => N.eqb x y && list_N_eqb a' b'
  | _, _ => false
  end.

Fixpoint otree_eqb (a b : otree) : bool :=
  match a, b with
  | ONode c1 v1 w1 ch1, ONode c2 v2 w2 ch2 =>
      (c1 =? c2) &&
      match v1, v2 with None, None => true | Some x, Some y => list_N_eqb x y | _, _ => false end &&
      match w1, w2 with None, None => true | Some x, Some y => N.eqb x y | _, _ => false end &&
      (fix go (x y : list otree) : bool :=
         match x, y with
         | [], [] => true
         | p :: x', q :: y' => otree_eqb p q && go x' y'
         | _, _ => false
         end) ch1 ch2
  end.

Fixpoint otrees_eqb (x y : list otree) : bool :=
  match x, y with
  | [], [] => true
  | p :: x', q :: y' => otree_eqb p q && otrees_eqb x' y'
  | _, _ => false
  end.

Fixpoint ocounts_pos (t : otree) : bool :=
  match t with ONode c _ _ ch => (0 <? c) && forallb ocounts_pos ch end.

(* ------------------------------------------------------------------------------------------------------------ *)
(* executable hypotheses of the theorems *)
(* the update only names parameters that were declared volatile *)
Definition keys_in (us : list (name * Z)) (V : list name) : bool := forallb (fun kv => mem (fst kv) V) us.
Fixpoint root_vol_ok (us : list (name * Z)) (s : scope) : bool :=
  match s with
  | SDict _ V => keys_in us V
  | SMapped i _ => root_vol_ok us i
  | SJoint _ sa _ sb => root_vol_ok us sa && root_vol_ok us sb
  end.

(* guard_C15_zero_count: every repetition count of the template evaluates to a positive number (nothing is dropped at
   instantiation; cf. the known finding C15-zero-count-dropped) *)
Fixpoint allpos (p : pt) (s : scope) : bool :=
  match p with
  | PAtom _ => true
  | PSeq l => forallb (fun q => allpos q s) l
  | PRep e _ body => match eval (get_param s) e with Some v => (0 <? v) && allpos body s | None => false end
  | PMap mp body => allpos body (SMapped s mp)
  end.
Definition guard_C15_zero_count (p : pt) (vals : list (name * Z)) (V : list name) : bool := allpos p (SDict vals V).

Fixpoint guard_C15_zero_count_seq (p : pt) (vals : list (name * Z)) (V : list name) (ups : list (list (name * Z))) : bool :=
  guard_C15_zero_count p vals V &&
  match ups with
  | [] => true
  | us :: r => keys_in us V && guard_C15_zero_count_seq p (override us vals) V r
  end.

Definition update_all (ups : list (list (name * Z))) (t : prog) : prog := fold_left (fun t us => update us t) ups t.
Definition override_all (ups : list (list (name * Z))) (vals : list (name * Z)) : list (name * Z) :=
  fold_left (fun v us => override us v) ups vals.

(* ------------------------------------------------------------------------------------------------------------ *)
(* Tabor tables: cells, what the recorded positions address, what a table state denotes *)
Definition cntval (r : rep) : Z := match int_of_rep r with Some v => v | None => -1 end.
(* the value update_volatile_dependencies returns for a recorded count *)
Definition newval (us : list (name * Z)) (r : rep) : Z := cntval (upd_rep us r).
Definition shape_tabs (tabs : list (list tent)) := map (map (fun e => (te_wf e, te_vol e))) tabs.
Definition mod_pos (m : tmod) := match m with TMod p _ _ => p end.
Definition mod_count (m : tmod) := match m with TMod _ c _ => c end.
Definition mod_elem (m : tmod) := match m with TMod _ _ e => e end.

Inductive cell := CAdv (a : nat) | CTab (k q : nat).
Definition cell_eqb (x y : cell) : bool :=
  match x, y with
  | CAdv a, CAdv b => Nat.eqb a b
  | CTab k q, CTab k' q' => Nat.eqb k k' && Nat.eqb q q'
  | _, _ => false
  end.

(* the memory cell a recorded position resolves to (sequencer positions go through the advanced table) *)
Definition cell_of (adv : list (Z * nat)) (p : tpos) : option cell :=
  match p with
  | PAdv a => Some (CAdv a)
  | PSeqPos a q => match nth_error adv a with Some (_, el) => Some (CTab (pred el) q) | None => None end
  end.

Definition read (adv : list (Z * nat)) (tabs : list (list tent)) (c : cell) : option Z :=
  match c with
  | CAdv a => match nth_error adv a with Some x => Some (fst x) | None => None end
  | CTab k q => match nth_error tabs k with
                | Some tb => match nth_error tb q with Some e => Some (te_count e) | None => None end
                | None => None
                end
  end.

(* the element (table number / waveform index) stored next to the count of a cell *)
Definition elem_at (adv : list (Z * nat)) (tabs : list (list tent)) (c : cell) : option nat :=
  match c with
  | CAdv a => match nth_error adv a with Some x => Some (snd x) | None => None end
  | CTab k q => match nth_error tabs k with
                | Some tb => match nth_error tb q with Some e => Some (N.to_nat (te_wf e)) | None => None end
                | None => None
                end
  end.

Definition same_cell (adv : list (Z * nat)) (p p' : tpos) : bool :=
  match cell_of adv p, cell_of adv p' with
  | Some c, Some c' => cell_eqb c c'
  | _, _ => false
  end.

(* guard_C15_shared_table: recorded positions that address the same cell agree on the new value (positions that
   address pairwise distinct cells are the special case; cf. the known finding C15-tabor-shared-volatile-table) *)
Fixpoint cells_coherent (us : list (name * Z)) (adv : list (Z * nat)) (ps : list (tpos * rep)) : bool :=
  match ps with
  | [] => true
  | (p, r) :: rest =>
      forallb (fun pr => negb (same_cell adv p (fst pr)) || (newval us r =? newval us (snd pr))) rest
      && cells_coherent us adv rest
  end.
Fixpoint cells_distinct (adv : list (Z * nat)) (ps : list (tpos * rep)) : bool :=
  match ps with
  | [] => true
  | (p, _) :: rest => forallb (fun pr => negb (same_cell adv p (fst pr))) rest && cells_distinct adv rest
  end.
Definition guard_C15_shared_table (us : list (name * Z)) (st : tstate) : bool :=
  cells_coherent us (t_adv st) (t_pos st).

(* what is observable of a table entry / a table state (this is what the harness reads from TaborProgram) *)
Definition tent_obs (e : tent) : Z * N * bool :=
  (te_count e, te_wf e, match te_vol e with Some _ => true | None => false end).
Definition tab_view (st : tstate) : list (Z * nat) * list (list (Z * N * bool)) * list N * list tpos :=
  (t_adv st, map (map tent_obs) (t_tabs st), t_wfs st, map fst (t_pos st)).

(* per advanced entry: its count and the observable entries of the table it points to *)
Definition expand (st : tstate) : list (Z * list (Z * N * bool)) :=
  map (fun ae => (fst ae, map tent_obs (nth (pred (snd ae)) (t_tabs st) []))) (t_adv st).

(* the same, read off the list of sequence-table loops that is parsed (wfs: the final waveform list) *)
Definition wf_of (t : prog) : option N := match t with Node _ _ w _ => w end.
Definition wf_index (wfs : list N) (c : prog) : N :=
  match wf_of c with
  | Some w => match index_of N.eqb w wfs with Some k => N.of_nat k | None => 0%N end
  | None => 0%N
  end.
Definition ents_of (wfs : list N) (tl : prog) : list (Z * N * bool) :=
  map (fun c => (cntval (rep_of c), wf_index wfs c, is_vol (rep_of c))) (kids tl).
Definition denote_tabs (wfs : list N) (tabs : list prog) : list (Z * list (Z * N * bool)) :=
  map (fun tl => (cnt tl, ents_of wfs tl)) tabs.

(* the volatile positions of a list of sequence-table loops, in the order parse_aseq_program records them *)
Fixpoint entry_positions (a q : nat) (ch : list prog) : list (tpos * rep) :=
  match ch with
  | [] => []
  | c :: r => (if is_vol (rep_of c) then [(PSeqPos a q, rep_of c)] else []) ++ entry_positions a (S q) r
  end.
Fixpoint positions_of (a : nat) (tabs : list prog) : list (tpos * rep) :=
  match tabs with
  | [] => []
  | tl :: r => entry_positions a 0 (kids tl) ++ (if is_vol (rep_of tl) then [(PAdv a, rep_of tl)] else [])
               ++ positions_of (S a) r
  end.

(* the waveform list after parsing (depends on the structure only) *)
Fixpoint wfs_after (wfs : list N) (ch : list prog) : list N :=
  match ch with
  | [] => wfs
  | c :: r => wfs_after (match wf_of c with
                         | Some w => match index_of N.eqb w wfs with Some _ => wfs | None => wfs ++ [w] end
                         | None => wfs
                         end) r
  end.

(* same decisions *)
Fixpoint list_nat_eqb (a b : list nat) : bool :=
  match a, b with
  | [], [] => true
  | x :: a', y :: b' => Nat.eqb x y && list_nat_eqb a' b'
  | _, _ => false
  end.
Definition dec_eqb (a b : dec) : bool :=
  match a, b with
  | DRoot x, DRoot y => Bool.eqb x y
  | DSkip, DSkip | DMergePrev, DMergePrev | DMergeNext, DMergeNext | DExtPrev, DExtPrev | DExtNext, DExtNext => true
  | DUnroll u s, DUnroll u' s' => Bool.eqb u u' && list_nat_eqb s s'
  | _, _ => false
  end.
Fixpoint trace_eqb (a b : list dec) : bool :=
  match a, b with
  | [], [] => true
  | x :: a', y :: b' => dec_eqb x y && trace_eqb a' b'
  | _, _ => false
  end.

(* ------------------------------------------------------------------------------------------------------------ *)
(* round 6: marks per played waveform of a Tabor table state, read from the recorded positions only (this is what S4
   speaks about: "marked as changeable ... compiled for an instrument") *)
Definition recorded_in (ps : list tpos) (p : tpos) : bool := existsb (fun x => tpos_eqb x p) ps.

Definition table_marks (adv : list (Z * nat)) (lens : list nat) (ps : list tpos) : list bool :=
  flat_map (fun a => match nth_error adv a with
                     | Some (_, S k) => match nth_error lens k with
                                        | Some n => map (fun q => recorded_in ps (PAdv a) || recorded_in ps (PSeqPos a q))
                                                        (seq 0 n)
                                        | None => []
                                        end
                     | _ => []
                     end) (seq 0 (length adv)).

Definition tstate_marks (st : tstate) : list bool :=
  table_marks (t_adv st) (map (@length tent) (t_tabs st)) (map fst (t_pos st)).

(* the same per waveform of the sequence tables: the table's count or the waveform's count is volatile *)
Definition tabs_marks (tabs : list prog) : list bool :=
  flat_map (fun tl => map (fun c => is_vol (rep_of tl) || is_vol (rep_of c)) (kids tl)) tabs.


(* every sequence of updates on a Tabor state *)
Definition update_tabor_all (ups : list (list (name * Z))) (st : tstate) : tstate :=
  fold_left (fun s us => fst (update_tabor us s)) ups st.


(* two states with the same observable tables and the same recorded positions stay so under an update, and report
   the same modifications *)
Definition same_obs (s1 s2 : tstate) : Prop := tab_view s1 = tab_view s2 /\ t_pos s1 = t_pos s2.

