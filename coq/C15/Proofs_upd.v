(* C15 — TaborProgram.update_volatile_parameters: cell-level theorem for update_positions / update_tabor. *)
From Coq Require Import ZArith NArith Bool List Lia.
Require Import QV.C15.Model QV.C15.Spec QV.C15.Proofs.
Import ListNotations.
Open Scope Z_scope.

(* ------------------------------------------------------------------------------------------------------------ *)
(* lists *)
Lemma nth_error_replace_same {A} : forall (l : list A) n x,
  nth_error l n <> None -> nth_error (replace_nth n x l) n = Some x.
Proof.
  induction l as [|y l IH]; intros n x H; destruct n; cbn in *; try congruence. apply IH; exact H.
Qed.

Lemma nth_error_replace_other {A} : forall (l : list A) n k x,
  k <> n -> nth_error (replace_nth n x l) k = nth_error l k.
Proof.
  induction l as [|y l IH]; intros n k x H; destruct n, k; cbn; try reflexivity; try congruence.
  apply IH. congruence.
Qed.

Lemma map_snd_replace {A B} : forall (l : list (A * B)) n a a' b,
  nth_error l n = Some (a', b) -> map snd (replace_nth n (a, b) l) = map snd l.
Proof. intros. eapply map_replace_nth_same; eauto. Qed.

Lemma nth_error_map_snd {A B} : forall (l l' : list (A * B)) n,
  map snd l = map snd l' ->
  match nth_error l n, nth_error l' n with
  | Some x, Some y => snd x = snd y
  | None, None => True
  | _, _ => False
  end.
Proof.
  induction l as [|x l IH]; intros [|y l'] n H; try discriminate; destruct n; cbn; auto.
  - inversion H; auto.
  - inversion H. apply IH; assumption.
Qed.

(* ------------------------------------------------------------------------------------------------------------ *)
(* cells *)
Lemma cell_eqb_eq x y : cell_eqb x y = true <-> x = y.
Proof.
  destruct x as [a|k q], y as [b|k' q']; cbn; split; intros H; try discriminate; try congruence.
  - apply Nat.eqb_eq in H. congruence.
  - inversion H. apply Nat.eqb_refl.
  - apply andb_true_iff in H. destruct H as [H1 H2]. apply Nat.eqb_eq in H1, H2. congruence.
  - inversion H. rewrite !Nat.eqb_refl. reflexivity.
Qed.

Lemma cell_dec (x y : cell) : {x = y} + {x <> y}.
Proof. decide equality; apply Nat.eq_dec. Qed.

Lemma same_cell_true adv p p' :
  same_cell adv p p' = true <-> exists c, cell_of adv p = Some c /\ cell_of adv p' = Some c.
Proof.
  unfold same_cell. destruct (cell_of adv p) as [c|], (cell_of adv p') as [c'|]; split; intros H;
    try discriminate; try (destruct H as [c0 [H1 H2]]; discriminate).
  - apply cell_eqb_eq in H. subst. eauto.
  - destruct H as [c0 [H1 H2]]. inversion H1; inversion H2; subst. apply cell_eqb_eq. reflexivity.
Qed.

Lemma cell_of_stable adv adv' p : map snd adv' = map snd adv -> cell_of adv' p = cell_of adv p.
Proof.
  intros H. destruct p as [a|a q]; [reflexivity|]. cbn.
  pose proof (nth_error_map_snd adv' adv a H) as E.
  destruct (nth_error adv' a) as [[c el]|], (nth_error adv a) as [[c' el']|]; cbn in E; try contradiction; subst; reflexivity.
Qed.

(* writing a count into a cell *)
Definition write (adv : list (Z * nat)) (tabs : list (list tent)) (c : cell) (v : Z)
  : list (Z * nat) * list (list tent) :=
  match c with
  | CAdv a => match nth_error adv a with
              | Some (_, el) => (replace_nth a (v, el) adv, tabs)
              | None => (adv, tabs)
              end
  | CTab k q => match nth_error tabs k with
                | Some tb => match nth_error tb q with
                             | Some en => (adv, replace_nth k (replace_nth q (mkTent v (te_wf en) (te_vol en)) tb) tabs)
                             | None => (adv, tabs)
                             end
                | None => (adv, tabs)
                end
  end.

Lemma write_snd adv tabs c v : map snd (fst (write adv tabs c v)) = map snd adv.
Proof.
  destruct c as [a|k q]; cbn.
  - destruct (nth_error adv a) as [[old el]|] eqn:E; [|reflexivity]. cbn. eapply map_snd_replace; eauto.
  - destruct (nth_error tabs k) as [tb|]; [|reflexivity]. destruct (nth_error tb q); reflexivity.
Qed.

Lemma read_write_same adv tabs c v :
  read adv tabs c <> None -> read (fst (write adv tabs c v)) (snd (write adv tabs c v)) c = Some v.
Proof.
  destruct c as [a|k q]; cbn; intros H.
  - destruct (nth_error adv a) as [[old el]|] eqn:E; [|congruence]. cbn.
    rewrite nth_error_replace_same by congruence. reflexivity.
  - destruct (nth_error tabs k) as [tb|] eqn:Ek; [|congruence].
    destruct (nth_error tb q) as [en|] eqn:Eq; [|congruence]. cbn.
    rewrite nth_error_replace_same by congruence. rewrite nth_error_replace_same by congruence. reflexivity.
Qed.

Lemma read_write_other adv tabs c c' v :
  c' <> c -> read (fst (write adv tabs c v)) (snd (write adv tabs c v)) c' = read adv tabs c'.
Proof.
  intros N. destruct c as [a|k q]; cbn.
  - destruct (nth_error adv a) as [[old el]|] eqn:E; [|reflexivity]. cbn.
    destruct c' as [b|k' q']; [|reflexivity]. cbn.
    rewrite nth_error_replace_other by congruence. reflexivity.
  - destruct (nth_error tabs k) as [tb|] eqn:Ek; [|reflexivity].
    destruct (nth_error tb q) as [en|] eqn:Eq; [|reflexivity]. cbn.
    destruct c' as [b|k' q']; [reflexivity|]. cbn.
    destruct (Nat.eq_dec k' k) as [->|Nk].
    + rewrite nth_error_replace_same by congruence. rewrite Ek.
      rewrite nth_error_replace_other by congruence. reflexivity.
    + rewrite nth_error_replace_other by exact Nk. reflexivity.
Qed.

Lemma read_write_none adv tabs c v :
  read adv tabs c = None -> write adv tabs c v = (adv, tabs).
Proof.
  destruct c as [a|k q]; cbn.
  - destruct (nth_error adv a) as [[old el]|]; [discriminate|reflexivity].
  - destruct (nth_error tabs k) as [tb|]; [|reflexivity]. destruct (nth_error tb q); [discriminate|reflexivity].
Qed.

Lemma elem_at_write adv tabs c v c' :
  elem_at (fst (write adv tabs c v)) (snd (write adv tabs c v)) c' = elem_at adv tabs c'.
Proof.
  destruct c as [a|k q]; cbn.
  - destruct (nth_error adv a) as [[old el]|] eqn:E; [|reflexivity]. cbn.
    destruct c' as [b|k' q']; [|reflexivity]. cbn.
    destruct (Nat.eq_dec b a) as [->|Nb].
    + rewrite nth_error_replace_same by congruence. rewrite E. reflexivity.
    + rewrite nth_error_replace_other by exact Nb. reflexivity.
  - destruct (nth_error tabs k) as [tb|] eqn:Ek; [|reflexivity].
    destruct (nth_error tb q) as [en|] eqn:Eq; [|reflexivity]. cbn.
    destruct c' as [b|k' q']; [reflexivity|]. cbn.
    destruct (Nat.eq_dec k' k) as [->|Nk].
    + rewrite nth_error_replace_same by congruence. rewrite Ek.
      destruct (Nat.eq_dec q' q) as [->|Nq].
      * rewrite nth_error_replace_same by congruence. rewrite Eq. reflexivity.
      * rewrite nth_error_replace_other by exact Nq. reflexivity.
    + rewrite nth_error_replace_other by exact Nk. reflexivity.
Qed.

Lemma read_elem adv tabs c : read adv tabs c = None <-> elem_at adv tabs c = None.
Proof.
  destruct c as [a|k q]; cbn.
  - destruct (nth_error adv a); split; congruence.
  - destruct (nth_error tabs k) as [tb|]; [|tauto]. destruct (nth_error tb q); split; congruence.
Qed.

(* ------------------------------------------------------------------------------------------------------------ *)
(* one step of update_positions in terms of cells *)
Lemma update_positions_step us p r rest adv tabs :
  update_positions us ((p, r) :: rest) adv tabs =
  match cell_of adv p with
  | Some c =>
      match read adv tabs c, elem_at adv tabs c with
      | Some old, Some el =>
          if newval us r =? old then update_positions us rest adv tabs
          else let '(adv', tabs', ms) :=
                 update_positions us rest (fst (write adv tabs c (newval us r))) (snd (write adv tabs c (newval us r))) in
               (adv', tabs', TMod p (newval us r) el :: ms)
      | _, _ => update_positions us rest adv tabs
      end
  | None => update_positions us rest adv tabs
  end.
Proof.
  cbn [update_positions].
  change (match int_of_rep (upd_rep us r) with Some v => v | None => -1 end) with (newval us r).
  destruct p as [a|a q]; cbn [cell_of read elem_at write].
  - destruct (nth_error adv a) as [[old el]|] eqn:Ea; [|reflexivity]. cbn [fst snd].
    destruct (newval us r =? old); reflexivity.
  - destruct (nth_error adv a) as [[old el]|] eqn:Ea; [|reflexivity]. cbn [read elem_at write].
    destruct (nth_error tabs (pred el)) as [tb|] eqn:Et; [|reflexivity].
    destruct (nth_error tb q) as [en|] eqn:Eq; [|reflexivity]. cbn [fst snd].
    destruct (newval us r =? te_count en); reflexivity.
Qed.

Lemma forallb_ext' {A} (f g : A -> bool) l : (forall x, f x = g x) -> forallb f l = forallb g l.
Proof. intros H. induction l as [|x l IH]; [reflexivity|]. cbn. rewrite H, IH. reflexivity. Qed.

Lemma cells_coherent_stable us adv adv' : map snd adv' = map snd adv ->
  forall ps, cells_coherent us adv' ps = cells_coherent us adv ps.
Proof.
  intros H. induction ps as [|[p r] rest IH]; [reflexivity|]. cbn [cells_coherent]. rewrite IH. f_equal.
  apply forallb_ext'. intros [p' r']. unfold same_cell. rewrite !(cell_of_stable adv adv') by exact H. reflexivity.
Qed.

Lemma addressed_dec adv (rest : list (tpos * rep)) c :
  (exists p r, In (p, r) rest /\ cell_of adv p = Some c) \/ (forall p r, In (p, r) rest -> cell_of adv p <> Some c).
Proof.
  induction rest as [|[p r] rest IH].
  - right. intros p r [].
  - destruct IH as [[p' [r' [I E]]]|IH]; [left; exists p', r'; split; [right; exact I|exact E]|].
    destruct (cell_of adv p) as [c'|] eqn:Ec.
    + destruct (cell_dec c' c) as [->|N].
      * left. exists p, r. split; [left; reflexivity|exact Ec].
      * right. intros p0 r0 [E|I]; [inversion E; subst; congruence|eapply IH; eauto].
    + right. intros p0 r0 [E|I]; [inversion E; subst; congruence|eapply IH; eauto].
Qed.

Lemma coherent_head us adv p r rest c :
  cells_coherent us adv ((p, r) :: rest) = true -> cell_of adv p = Some c ->
  forall p' r', In (p', r') rest -> cell_of adv p' = Some c -> newval us r' = newval us r.
Proof.
  cbn [cells_coherent]. intros H Ec p' r' I Ec'. apply andb_true_iff in H. destruct H as [H _].
  rewrite forallb_forall in H. specialize (H _ I). cbn [fst snd] in H.
  assert (S : same_cell adv p p' = true) by (apply same_cell_true; eauto).
  rewrite S in H. cbn in H. apply Z.eqb_eq in H. congruence.
Qed.

(* the cell-level post-condition *)
Definition upd_post (us : list (name * Z)) (ps : list (tpos * rep)) (adv : list (Z * nat)) (tabs : list (list tent))
           (adv' : list (Z * nat)) (tabs' : list (list tent)) (ms : list tmod) : Prop :=
  (forall p r c, In (p, r) ps -> cell_of adv p = Some c -> read adv tabs c <> None ->
                 read adv' tabs' c = Some (newval us r)) /\
  (forall c, (forall p r, In (p, r) ps -> cell_of adv p <> Some c) -> read adv' tabs' c = read adv tabs c) /\
  (forall c, read adv' tabs' c <> read adv tabs c <-> exists m, In m ms /\ cell_of adv (mod_pos m) = Some c) /\
  (forall m, In m ms -> exists c, cell_of adv (mod_pos m) = Some c /\
                                  read adv' tabs' c = Some (mod_count m) /\
                                  elem_at adv tabs c = Some (mod_elem m)).

(* final value of the head's cell, given the post-condition of the rest from a state where the cell holds nv *)
Lemma head_final us adv0 adv tabs adv' tabs' ms p r rest c :
  (forall q, cell_of adv q = cell_of adv0 q) ->
  cells_coherent us adv0 ((p, r) :: rest) = true -> cell_of adv0 p = Some c ->
  upd_post us rest adv tabs adv' tabs' ms ->
  read adv tabs c = Some (newval us r) ->
  read adv' tabs' c = Some (newval us r).
Proof.
  intros St Coh Ec [P3 [P4 _]] Hr.
  destruct (addressed_dec adv rest c) as [[p' [r' [I E]]]|NA].
  - rewrite (P3 p' r' c I E) by congruence. f_equal. rewrite St in E. eapply coherent_head; eauto.
  - rewrite (P4 c NA). exact Hr.
Qed.

Lemma update_positions_post : forall us ps adv tabs adv' tabs' ms,
  update_positions us ps adv tabs = (adv', tabs', ms) ->
  cells_coherent us adv ps = true ->
  upd_post us ps adv tabs adv' tabs' ms.
Proof.
  intros us. induction ps as [|[p r] rest IH]; intros adv tabs adv' tabs' ms H Coh.
  - cbn in H. inversion H; subst. split; [|split; [|split]].
    + intros p r c [].
    + reflexivity.
    + intros c. split; [intros E; congruence|intros [m [[] _]]].
    + intros m [].
  - assert (Coh' : cells_coherent us adv rest = true).
    { cbn [cells_coherent] in Coh. apply andb_true_iff in Coh. tauto. }
    rewrite update_positions_step in H.
    (* the "nothing written" continuation *)
    assert (Skip : update_positions us rest adv tabs = (adv', tabs', ms) ->
                   (forall c, cell_of adv p = Some c -> read adv tabs c = None \/ read adv tabs c = Some (newval us r)) ->
                   upd_post us ((p, r) :: rest) adv tabs adv' tabs' ms).
    { intros H0 Hc. pose proof (IH _ _ _ _ _ H0 Coh') as Post. pose proof Post as [P3 [P4 [P5 P6]]].
      split; [|split; [|split]].
      - intros p0 r0 c [E|I] Ec Hn.
        + inversion E; subst p0 r0. destruct (Hc c Ec) as [N|S]; [congruence|].
          apply (head_final us adv adv tabs adv' tabs' ms p r rest c); auto.
        + eapply P3; eauto.
      - intros c NA. apply P4. intros p0 r0 I. apply (NA p0 r0). right. exact I.
      - exact P5.
      - exact P6. }
    destruct (cell_of adv p) as [c|] eqn:Ec; [|apply Skip; [exact H|intros c E; discriminate]].
    destruct (read adv tabs c) as [old|] eqn:Er;
      [|apply Skip; [exact H|intros c0 E; inversion E; subst; left; exact Er]].
    destruct (elem_at adv tabs c) as [el|] eqn:Ee;
      [|apply read_elem in Ee; congruence].
    destruct (newval us r =? old) eqn:Env.
    { apply Z.eqb_eq in Env. apply Skip; [exact H|]. intros c0 E; inversion E; subst. right. exact Er. }
    apply Z.eqb_neq in Env.
    set (nv := newval us r) in *.
    destruct (update_positions us rest (fst (write adv tabs c nv)) (snd (write adv tabs c nv)))
      as [[adv1 tabs1] ms1] eqn:E1.
    inversion H; subst adv1 tabs1 ms. clear H.
    set (adv1 := fst (write adv tabs c nv)) in *. set (tabs1 := snd (write adv tabs c nv)) in *.
    assert (Sn : map snd adv1 = map snd adv) by apply write_snd.
    assert (St : forall q, cell_of adv1 q = cell_of adv q) by (intros q; apply cell_of_stable; exact Sn).
    assert (Coh1 : cells_coherent us adv1 rest = true) by (rewrite (cells_coherent_stable us adv adv1 Sn); exact Coh').
    pose proof (IH _ _ _ _ _ E1 Coh1) as Post. pose proof Post as [P3 [P4 [P5 P6]]].
    assert (Rs : read adv1 tabs1 c = Some nv) by (apply read_write_same; congruence).
    assert (Ro : forall c', c' <> c -> read adv1 tabs1 c' = read adv tabs c') by (intros; apply read_write_other; assumption).
    assert (Fin : read adv' tabs' c = Some nv)
      by (apply (head_final us adv adv1 tabs1 adv' tabs' ms1 p r rest c); auto).
    split; [|split; [|split]].
    + intros p0 r0 c0 [E|I] Ec0 Hn.
      * inversion E; subst p0 r0. rewrite Ec in Ec0. inversion Ec0; subst c0. exact Fin.
      * apply (P3 p0 r0 c0 I); [rewrite St; exact Ec0|].
        destruct (cell_dec c0 c) as [->|N]; [congruence|rewrite Ro by exact N; exact Hn].
    + intros c0 NA. assert (N : c0 <> c) by (intros ->; eapply (NA p r); [left; reflexivity|exact Ec]).
      rewrite P4; [apply Ro; exact N|]. intros p0 r0 I. rewrite St. apply (NA p0 r0). right. exact I.
    + intros c0. split.
      * intros Hd. destruct (cell_dec c0 c) as [->|N].
        -- exists (TMod p nv el). split; [left; reflexivity|exact Ec].
        -- rewrite <- (Ro c0 N) in Hd. apply P5 in Hd. destruct Hd as [m [I E]].
           exists m. split; [right; exact I|rewrite <- St; exact E].
      * intros [m [[<-|I] E]].
        -- cbn [mod_pos] in E. rewrite Ec in E. inversion E; subst c0. rewrite Fin, Er. congruence.
        -- assert (Hd : read adv' tabs' c0 <> read adv1 tabs1 c0).
           { apply P5. exists m. split; [exact I|rewrite St; exact E]. }
           destruct (cell_dec c0 c) as [->|N]; [rewrite Fin, Rs in Hd; congruence|].
           rewrite (Ro c0 N) in Hd. exact Hd.
    + intros m [<-|I].
      * exists c. cbn [mod_pos mod_count mod_elem]. repeat split; assumption.
      * destruct (P6 m I) as [c0 [E0 [R0 L0]]]. exists c0. rewrite <- St. repeat split; try assumption.
        unfold adv1, tabs1 in L0. rewrite elem_at_write in L0. exact L0.
Qed.

(* ------------------------------------------------------------------------------------------------------------ *)
(* packaged statements *)
Lemma update_positions_cells : forall us ps adv tabs adv' tabs' ms,
  update_positions us ps adv tabs = (adv', tabs', ms) ->
  cells_coherent us adv ps = true ->
  map snd adv' = map snd adv /\ shape_tabs tabs' = shape_tabs tabs /\
  (forall p r c, In (p, r) ps -> cell_of adv p = Some c -> read adv tabs c <> None ->
                 read adv' tabs' c = Some (newval us r)) /\
  (forall c, (forall p r, In (p, r) ps -> cell_of adv p <> Some c) -> read adv' tabs' c = read adv tabs c) /\
  (forall c, read adv' tabs' c <> read adv tabs c <-> exists m, In m ms /\ cell_of adv (mod_pos m) = Some c) /\
  (forall m, In m ms -> exists c, cell_of adv (mod_pos m) = Some c /\
                                  read adv' tabs' c = Some (mod_count m) /\
                                  elem_at adv tabs c = Some (mod_elem m)).
Proof.
  intros us ps adv tabs adv' tabs' ms H Coh.
  destruct (update_positions_shape _ _ _ _ _ _ _ H) as [A [B _]].
  destruct (update_positions_post _ _ _ _ _ _ _ H Coh) as [P3 [P4 [P5 P6]]].
  repeat (split; [assumption|]). exact P6.
Qed.

Lemma cells_distinct_coherent : forall us adv ps, cells_distinct adv ps = true -> cells_coherent us adv ps = true.
Proof.
  intros us adv. induction ps as [|[p r] rest IH]; [reflexivity|]. cbn [cells_distinct cells_coherent].
  intros H. apply andb_true_iff in H. destruct H as [H1 H2]. rewrite (IH H2), andb_true_r.
  rewrite forallb_forall in H1 |- *. intros x I. rewrite (H1 x I). reflexivity.
Qed.

Lemma update_tabor_cells : forall us st st' ms,
  update_tabor us st = (st', ms) ->
  guard_C15_shared_table us st = true ->
  map snd (t_adv st') = map snd (t_adv st) /\ shape_tabs (t_tabs st') = shape_tabs (t_tabs st) /\
  t_wfs st' = t_wfs st /\ t_single st' = t_single st /\
  t_pos st' = map (fun pr => (fst pr, upd_rep us (snd pr))) (t_pos st) /\
  (forall p r c, In (p, r) (t_pos st) -> cell_of (t_adv st) p = Some c -> read (t_adv st) (t_tabs st) c <> None ->
                 read (t_adv st') (t_tabs st') c = Some (newval us r)) /\
  (forall c, (forall p r, In (p, r) (t_pos st) -> cell_of (t_adv st) p <> Some c) ->
             read (t_adv st') (t_tabs st') c = read (t_adv st) (t_tabs st) c) /\
  (forall c, read (t_adv st') (t_tabs st') c <> read (t_adv st) (t_tabs st) c <->
             exists m, In m ms /\ cell_of (t_adv st) (mod_pos m) = Some c) /\
  (forall m, In m ms -> exists c, cell_of (t_adv st) (mod_pos m) = Some c /\
                                  read (t_adv st') (t_tabs st') c = Some (mod_count m) /\
                                  elem_at (t_adv st) (t_tabs st) c = Some (mod_elem m)).
Proof.
  intros us st st' ms H G. unfold update_tabor in H.
  destruct (update_positions us (t_pos st) (t_adv st) (t_tabs st)) as [[adv' tabs'] ms'] eqn:E.
  inversion H; subst st' ms'. cbn [t_adv t_tabs t_wfs t_pos t_single].
  destruct (update_positions_cells _ _ _ _ _ _ _ E G) as [A [B [P3 [P4 [P5 P6]]]]].
  repeat (split; [first [assumption|reflexivity]|]). exact P6.
Qed.

(* positions addressing pairwise distinct cells: the special case named in the property *)
Lemma update_tabor_cells_distinct : forall us st st' ms,
  update_tabor us st = (st', ms) ->
  cells_distinct (t_adv st) (t_pos st) = true ->
  (forall p r c, In (p, r) (t_pos st) -> cell_of (t_adv st) p = Some c -> read (t_adv st) (t_tabs st) c <> None ->
                 read (t_adv st') (t_tabs st') c = Some (newval us r)) /\
  (forall c, read (t_adv st') (t_tabs st') c <> read (t_adv st) (t_tabs st) c <->
             exists m, In m ms /\ cell_of (t_adv st) (mod_pos m) = Some c).
Proof.
  intros us st st' ms H D.
  assert (G : guard_C15_shared_table us st = true) by (apply cells_distinct_coherent; exact D).
  destruct (update_tabor_cells _ _ _ _ H G) as [_ [_ [_ [_ [_ [P3 [_ [P5 _]]]]]]]]. split; assumption.
Qed.

(* without the guard the statement is false of the faithful model: the compiled witness of the known finding
   C15-tabor-shared-volatile-table (counts n*m-m+1 under m=2 / m=3 share one sequencer table at n=1) *)
Definition shared_pt : pt :=
  PSeq [PRep (EConst 2) false
          (PSeq [PMap [(2%N, EConst 2)]
                   (PRep (EAdd (ESub (EMul (EVar 1%N) (EVar 2%N)) (EVar 2%N)) (EConst 1)) false (PAtom 0%N));
                 PAtom 1%N]);
        PRep (EConst 2) false
          (PSeq [PMap [(2%N, EConst 3)]
                   (PRep (EAdd (ESub (EMul (EVar 1%N) (EVar 2%N)) (EVar 2%N)) (EConst 1)) false (PAtom 0%N));
                 PAtom 1%N])].

Definition shared_state : option tstate :=
  match create_program shared_pt [(1%N, 1)] [1%N] with
  | Ok (Some t) => match tabor_compile 100 None 1 8 t with Ok (st, _, _) => Some st | Err _ => None end
  | _ => None
  end.

Lemma update_tabor_shared_refuted :
  exists st us st' ms p r c,
    shared_state = Some st /\ update_tabor us st = (st', ms) /\
    In (p, r) (t_pos st) /\ cell_of (t_adv st) p = Some c /\ read (t_adv st) (t_tabs st) c <> None /\
    read (t_adv st') (t_tabs st') c <> Some (newval us r) /\
    guard_C15_shared_table us st = false.
Proof.
  destruct shared_state as [st|] eqn:E; [|vm_compute in E; discriminate].
  exists st, [(1%N, 2)].
  destruct (update_tabor [(1%N, 2)] st) as [st' ms] eqn:U.
  exists st', ms.
  vm_compute in E. inversion E; subst st. vm_compute in U. inversion U; subst st' ms.
  eexists (PSeqPos 0 0), _, (CTab 0 0).
  split; [reflexivity|]. split; [reflexivity|].
  split; [left; reflexivity|]. split; [reflexivity|]. split; [vm_compute; discriminate|].
  split; [vm_compute; discriminate|vm_compute; reflexivity].
Qed.

(* non-vacuity: two identical blocks share one sequencer table; both recorded positions address the same cell and
   agree on every new value *)
Definition coherent_pt : pt :=
  PSeq [PRep (EConst 2) false (PSeq [PRep (EVar 1%N) false (PAtom 0%N); PAtom 1%N]);
        PRep (EConst 2) false (PSeq [PRep (EVar 1%N) false (PAtom 0%N); PAtom 1%N])].
Definition coherent_state : option tstate :=
  match create_program coherent_pt [(1%N, 1)] [1%N] with
  | Ok (Some t) => match tabor_compile 100 None 1 8 t with Ok (st, _, _) => Some st | Err _ => None end
  | _ => None
  end.
Lemma update_tabor_nonvacuous :
  exists st us st' ms,
    coherent_state = Some st /\ update_tabor us st = (st', ms) /\
    guard_C15_shared_table us st = true /\ cells_distinct (t_adv st) (t_pos st) = false /\ ms <> [].
Proof.
  destruct coherent_state as [st|] eqn:E; [|vm_compute in E; discriminate].
  exists st, [(1%N, 3)].
  destruct (update_tabor [(1%N, 3)] st) as [st' ms] eqn:U. exists st', ms.
  vm_compute in E. inversion E; subst st. vm_compute in U. inversion U; subst st' ms.
  split; [reflexivity|]. split; [reflexivity|].
  split; [vm_compute; reflexivity|]. split; [vm_compute; reflexivity|discriminate].
Qed.
