(* C15 — round 5 (audit): links of the operational model to the independent specification that were missing, the merged
   count of a chain of any length (class of seed C15-8), non-vacuity examples that were missing. *)
From Coq Require Import ZArith NArith Bool List Lia.
Require Import QV.C15.Model QV.C15.Spec QV.C15.Proofs.
Import ListNotations.
Open Scope Z_scope.

(* ---- the updated program IS the tree the scope-free specification describes for the new values ---- *)
Lemma update_sequence_meets_spec ups p vals V t :
  guard_C15_zero_count_seq p vals V ups = true ->
  create_program p vals V = Ok (Some t) ->
  spec_program p (override_all ups vals) V = Some (Some (obs_of (update_all ups t))).
Proof.
  intros G H. rewrite <- create_program_meets_spec, (update_sequence_is_reinstantiate _ _ _ _ _ G H). reflexivity.
Qed.

(* ---- marks after cleanup: per played leaf, "some loop on the path from the root is volatile" ---- *)
Fixpoint leafmarks (anc : bool) (t : prog) : list bool :=
  match t with
  | Node r _ w ch =>
      let a := anc || is_vol r in
      match ch with
      | [] => match w with Some _ => [a] | None => [] end
      | _ => flat_map (leafmarks a) ch
      end
  end.

(* shape invariant of programs built by the templates: a loop with a waveform has no children *)
Fixpoint leaf_ok (t : prog) : bool :=
  match t with
  | Node _ _ w ch => match w, ch with Some _, _ :: _ => false | _, _ => true end && forallb leaf_ok ch
  end.


Lemma oleafmarks_obs : forall t a, oleafmarks a (obs_of t) = leafmarks a t.
Proof.
  induction t as [r m w ch IH] using prog_ind'. intros a. cbn [obs_of oleafmarks leafmarks].
  assert (E : match match dep_keys r with Some l => Some (sort_names l) | None => None end with
              | Some _ => true | None => false end = is_vol r) by (destruct r; reflexivity).
  rewrite E. destruct ch as [|c ch]; [reflexivity|]. cbn [map].
  set (a' := a || is_vol r). clearbody a'. clear E.
  change (flat_map (oleafmarks a') (map obs_of (c :: ch)) = flat_map (leafmarks a') (c :: ch)).
  induction IH as [|x xs Hx _ IHx]; [reflexivity|]. cbn [map flat_map]. rewrite Hx, IHx. reflexivity.
Qed.

Lemma leafmarks_unfold a r m w ch :
  leafmarks a (Node r m w ch) =
  match ch with [] => match w with Some _ => [a || is_vol r] | None => [] end | _ => flat_map (leafmarks (a || is_vol r)) ch end.
Proof. destruct ch; reflexivity. Qed.

Lemma cleanup_leafmarks : forall t a, leaf_ok t = true -> leafmarks a (cleanup t) = leafmarks a t.
Proof.
  induction t as [r m w ch IH] using prog_ind'. intros a L. rewrite cleanup_unfold. cbv zeta.
  cbn [leaf_ok] in L. apply andb_true_iff in L. destruct L as [Lw Lc].
  assert (E : forall b, flat_map (leafmarks b) (flat_map cleanup_child ch) = flat_map (leafmarks b) ch).
  { intros b. clear Lw. induction IH as [|c ch Hc _ IHch]; [reflexivity|]. cbn [forallb] in Lc.
    apply andb_true_iff in Lc. destruct Lc as [L1 L2].
    cbn [flat_map]. rewrite flat_map_app, (IHch L2). f_equal.
    destruct c as [rc mc wc [|c1 chc]].
    - cbn. destruct wc; reflexivity.
    - change (cleanup_child (Node rc mc wc (c1 :: chc)))
        with (match cleanup (Node rc mc wc (c1 :: chc)) with Node _ _ None [] => [] | c' => [c'] end).
      rewrite <- (Hc b L1).
      destruct (cleanup (Node rc mc wc (c1 :: chc))) as [r' m' [w'|] [|x xs]]; cbn [flat_map]; rewrite ?app_nil_r; reflexivity. }
  assert (T : leafmarks a (Node r m w (flat_map cleanup_child ch)) = leafmarks a (Node r m w ch)).
  { rewrite !leafmarks_unfold. destruct ch as [|c ch]; [reflexivity|].
    assert (W : w = None) by (destruct w; [discriminate|reflexivity]). subst w.
    rewrite <- (E (a || is_vol r)). destruct (flat_map cleanup_child (c :: ch)); reflexivity. }
  destruct (mergeable (Node r m w (flat_map cleanup_child ch))) eqn:M; [|exact T].
  rewrite <- T. 
  destruct (flat_map cleanup_child ch) as [|[rc mc wc chc] [|c2 ch2]] eqn:F; try discriminate.
  cbn [merge]. rewrite (leafmarks_unfold a r m w). cbn [flat_map]. rewrite app_nil_r.
  rewrite !leafmarks_unfold, is_vol_merge_rep, orb_assoc. reflexivity.
Qed.

Lemma leaf_ok_none r m ch : leaf_ok (Node r m None ch) = forallb leaf_ok ch.
Proof. destruct ch; reflexivity. Qed.

Lemma leaf_ok_cp : forall p s ks m, cp p s = Ok (ks, m) -> forallb leaf_ok ks = true.
Proof.
  fix IH 1. intros p s ks m. destruct p as [w|l|e mm body|mp body]; cbn [cp].
  - intros H. inversion H; subst. reflexivity.
  - revert ks m. induction l as [|q r IHr]; intros ks m H; [inversion H; reflexivity|].
    destruct (cp q s) as [[k1 m1]|k] eqn:E1; [|discriminate].
    match type of H with match ?X with Ok _ => _ | Err _ => _ end = _ => destruct X as [[k2 m2]|k'] eqn:E2 end; [|discriminate].
    inversion H; subst. rewrite forallb_app, (IH _ _ _ _ E1), (IHr _ _ eq_refl). reflexivity.
  - destruct (eval (get_param s) e) as [v|]; [|discriminate].
    destruct (0 <? v); [|intros H; inversion H; reflexivity].
    destruct (cp body s) as [[k1 m1]|k] eqn:E1; [|discriminate].
    destruct k1 as [|c k1]; intros H; inversion H; subst; [reflexivity|].
    cbn [forallb]. rewrite leaf_ok_none, (IH _ _ _ _ E1). reflexivity.
  - apply IH.
Qed.

Lemma leaf_ok_create p vals V t : create_program p vals V = Ok (Some t) -> leaf_ok t = true.
Proof.
  unfold create_program. destruct (cp p (SDict vals V)) as [[ks m]|k] eqn:E; [|discriminate].
  destruct ks as [|c ks]; [discriminate|]. intros H. inversion H; subst. cbn [leaf_ok]. apply (leaf_ok_cp _ _ _ _ E).
Qed.

(* "exactly the counts that depend on [volatile parameters] are marked ... also after the program has been merged,
   cleaned up": for every played waveform, whether one of its enclosing repetition counts is changeable is what the
   scope-free specification says - before and after cleanup, and after any sequence of updates *)
Lemma cleanup_marks_meet_spec p vals V t st :
  create_program p vals V = Ok (Some t) -> spec_program p vals V = Some (Some st) ->
  oleafmarks false (obs_of (cleanup t)) = oleafmarks false st.
Proof.
  intros H S. rewrite <- create_program_meets_spec, H in S. inversion S; subst.
  rewrite !oleafmarks_obs. apply cleanup_leafmarks. eapply leaf_ok_create; eauto.
Qed.

(* ---- merged counts of a chain of any length (class of seed C15-8) ---- *)
Definition raw_of_rep (r : rep) : option Z := match r with Fixed n => Some n | Vol e s => eval (get_param s) e end.

Fixpoint merge_chain (rs : list rep) (last : rep) : rep :=
  match rs with [] => last | r :: rest => merge_rep r (merge_chain rest last) end.

Lemma raw_merge r rc a b : raw_of_rep r = Some a -> raw_of_rep rc = Some b -> raw_of_rep (merge_rep r rc) = Some (a * b).
Proof.
  destruct r as [x|e s], rc as [y|ec sc]; cbn [raw_of_rep merge_rep eval]; intros A B.
  - inversion A; inversion B; reflexivity.
  - inversion A; subst. rewrite B. f_equal. lia.
  - inversion B; subst. rewrite A. reflexivity.
  - cbn [get_param lookup]. change (N.eqb JP JP) with true. change (N.eqb JC JP) with false. change (N.eqb JC JC) with true.
    cbn [lookup]. change (N.eqb JP JP) with true. change (N.eqb JC JC) with true. rewrite A, B. reflexivity.
Qed.

Lemma raw_merge_chain : forall rs vs last b,
  Forall2 (fun r v => raw_of_rep r = Some v) rs vs -> raw_of_rep last = Some b ->
  raw_of_rep (merge_chain rs last) = Some (fold_right Z.mul b vs).
Proof.
  induction rs as [|r rs IH]; intros vs last b F B; inversion F; subst; [exact B|].
  cbn [merge_chain fold_right]. apply raw_merge; [assumption|]. apply IH; assumption.
Qed.

Lemma is_vol_merge_chain rs last : is_vol (merge_chain rs last) = existsb is_vol rs || is_vol last.
Proof. induction rs as [|r rs IH]; [reflexivity|]. cbn [merge_chain existsb]. rewrite is_vol_merge_rep, IH, orb_assoc. reflexivity. Qed.

Lemma int_of_raw r v : raw_of_rep r = Some v -> is_vol r = true -> int_of_rep r = Some (Z.max 0 v).
Proof. destruct r; [discriminate|]. cbn. intros -> _. reflexivity. Qed.

Lemma upd_merge_chain us rs last :
  upd_rep us (merge_chain rs last) = merge_chain (map (upd_rep us) rs) (upd_rep us last).
Proof. induction rs as [|r rs IH]; [reflexivity|]. cbn [merge_chain map]. rewrite upd_merge_rep, IH. reflexivity. Qed.

(* a single-child chain of any length with at least one volatile count, merged, then updated: the count is the clamped
   product of the raw values the counts have in their UPDATED scopes *)
Lemma merge_chain_update_count us rs last vs b :
  existsb is_vol rs || is_vol last = true ->
  Forall2 (fun r v => raw_of_rep (upd_rep us r) = Some v) rs vs -> raw_of_rep (upd_rep us last) = Some b ->
  int_of_rep (upd_rep us (merge_chain rs last)) = Some (Z.max 0 (fold_right Z.mul b vs)).
Proof.
  intros Hv F B. rewrite upd_merge_chain. apply int_of_raw.
  - apply raw_merge_chain; [|exact B]. clear -F. induction F; constructor; assumption.
  - rewrite is_vol_merge_chain. rewrite <- Hv. f_equal.
    + clear. induction rs as [|r rs IH]; [reflexivity|]. cbn. rewrite IH. destruct r; reflexivity.
    + destruct last; reflexivity.
Qed.

(* non-vacuity / the seed's witness: RepetitionPT(RepetitionPT(RepetitionPT(wf, k), m), n), all volatile, cleaned up
   into ONE loop; updating the innermost parameter k from 2 to 3 gives 2 * 1 * 3 *)
Definition ex_chain3 : pt := PRep (EVar 1%N) false (PRep (EVar 2%N) false (PRep (EVar 3%N) false (PAtom 0%N))).
Lemma chain3_example : exists t,
  create_program ex_chain3 [(1%N, 2); (2%N, 1); (3%N, 2)] [1%N; 2%N; 3%N] = Ok (Some t) /\
  kids (cleanup t) = [] /\ cnt (cleanup t) = 4 /\ cnt (update [(3%N, 3)] (cleanup t)) = 6 /\
  cnt (update [(2%N, 5)] (update [(3%N, 3)] (cleanup t))) = 30.
Proof. eexists. split; [vm_compute; reflexivity|]. repeat split; vm_compute; reflexivity. Qed.

(* ---- flatten_and_balance: the hypotheses of C15_flatten_commutes are satisfiable by a run that restructures ---- *)
Definition ex_fab_tree : prog :=
  Node (Fixed 1) false None
    [Node (Vol (EVar 1%N) (SDict [(1%N, 2)] [1%N])) false None
       [Node (Fixed 1) false (Some 0%N) []; Node (Fixed 2) false None [Node (Fixed 1) false (Some 1%N) []; Node (Fixed 1) false (Some 2%N) []]];
     Node (Fixed 1) false (Some 3%N) []].

Lemma fab_update_nonvacuous : exists us l,
  fab 100 2 (kids ex_fab_tree) false = Ok (l, false) /\ l <> kids ex_fab_tree /\
  fab 100 2 (map (update us) (kids ex_fab_tree)) false = Ok (map (update us) l, false) /\
  map cnt (map (update us) l) <> map cnt l.
Proof.
  exists [(1%N, 3)]. eexists. split; [vm_compute; reflexivity|]. split; [vm_compute; discriminate|].
  split; [vm_compute; reflexivity|]. vm_compute; discriminate.
Qed.

(* the no-warning hypothesis cannot be dropped: at depth 1 the volatile loop itself is unrolled (warning) and the
   flattened updated program is not the updated flattened program *)
Lemma fab_update_needs_no_warning : exists us l l2 w2,
  fab 100 1 (kids ex_fab_tree) false = Ok (l, true) /\
  fab 100 1 (map (update us) (kids ex_fab_tree)) false = Ok (l2, w2) /\ l2 <> map (update us) l.
Proof.
  exists [(1%N, 3)]. eexists. eexists. eexists. split; [vm_compute; reflexivity|]. split; [vm_compute; reflexivity|].
  intros E. apply (f_equal (@length prog)) in E. vm_compute in E. discriminate.
Qed.

(* ... and after any sequence of updates of the cleaned-up program *)
Lemma cleanup_update_marks_meet_spec ups p vals V t st :
  guard_C15_zero_count_seq p vals V ups = true ->
  create_program p vals V = Ok (Some t) -> spec_program p (override_all ups vals) V = Some (Some st) ->
  oleafmarks false (obs_of (update_all ups (cleanup t))) = oleafmarks false st.
Proof.
  intros G H S. destruct (cleanup_update_is_reinstantiate _ _ _ _ _ G H) as [t' [H' E]].
  rewrite <- E. eapply cleanup_marks_meet_spec; eauto.
Qed.

(* non-vacuity: SequencePT(RepetitionPT(RepetitionPT(a, 2), n), b), n volatile: cleanup merges n x 2 x a into one
   volatile leaf; the first waveform is under a changeable count, the second is not *)
Definition ex_marks_pt : pt := PSeq [PRep (EVar 1%N) false (PRep (EConst 2) false (PAtom 0%N)); PAtom 1%N].
Lemma cleanup_marks_example : exists t,
  create_program ex_marks_pt [(1%N, 3)] [1%N] = Ok (Some t) /\ cleanup t <> t /\
  oleafmarks false (obs_of (cleanup t)) = [true; false] /\
  oleafmarks false (obs_of (update_all [[(1%N, 2)]] (cleanup t))) = [true; false] /\
  guard_C15_zero_count_seq ex_marks_pt [(1%N, 3)] [1%N] [[(1%N, 2)]] = true.
Proof.
  eexists. split; [vm_compute; reflexivity|]. split; [vm_compute; discriminate|]. repeat split; vm_compute; reflexivity.
Qed.
