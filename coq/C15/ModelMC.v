(* C15 — model of make_compatible / _is_compatible / _make_compatible / to_waveform (qupulse/program/loop.py) on program
   trees whose leaf waveforms are sequences of atoms.  Definitions only.  The flag `rp` selects the REPAIRED
   _make_compatible (prepared in round 3, not landed: it also changes what C06 observes), which warns
   (VolatileModificationWarning) when a concatenated sub-program holds a volatile repetition count; rp = false is the
   code as it is (known finding C15-make-compatible-bakes-volatile-child). *)
From Coq Require Import ZArith NArith Bool List.
Require Import QV.C15.Model.
Import ListNotations.
Open Scope Z_scope.

(* a leaf waveform is the list of atoms it plays (to_waveform concatenates / repeats); atom a is `al a` samples long *)
Definition wlen (al : N -> Z) (l : list N) : Z := fold_right (fun a acc => al a + acc) 0 l.
Inductive cprog := CNode (r : rep) (w : option (list N)) (ch : list cprog).

Fixpoint cprog_of (t : prog) : cprog :=
  match t with Node r _ w ch => CNode r (match w with Some x => Some [x] | None => None end) (map cprog_of ch) end.

Definition crep (t : cprog) : rep := match t with CNode r _ _ => r end.
Definition ckids (t : cprog) : list cprog := match t with CNode _ _ ch => ch end.
Definition rcount (r : rep) : Z := match int_of_rep r with Some v => v | None => -1 end.

Fixpoint cupdate (us : list (name * Z)) (t : cprog) : cprog :=
  match t with CNode r w ch => CNode (upd_rep us r) w (map (cupdate us) ch) end.

(* Loop.duration in samples (sample rate 1) *)
Fixpoint cdur (al : N -> Z) (t : cprog) : Z :=
  match t with
  | CNode r w ch =>
      rcount r * match ch with
                 | [] => match w with Some l => wlen al l | None => 0 end
                 | _ => fold_right (fun c acc => cdur al c + acc) 0 ch
                 end
  end.
Definition cbody (al : N -> Z) (t : cprog) : Z :=
  match t with
  | CNode _ w ch => match ch with
                    | [] => match w with Some l => wlen al l | None => 0 end
                    | _ => fold_right (fun c acc => cdur al c + acc) 0 ch
                    end
  end.

Inductive clevel := LCompat | LAction | LShort | LQuantum.
Definition is_lcompat (l : clevel) : bool := match l with LCompat => true | _ => false end.
Definition incompatible (l : clevel) : bool := match l with LShort | LQuantum => true | _ => false end.

(* the results of the children `all(... for sub_program in program)` really evaluates: up to and including the first
   one that is not compatible *)
Fixpoint evaluated (rs : list (clevel * bool)) : list (clevel * bool) :=
  match rs with
  | [] => []
  | x :: r => if is_lcompat (fst x) then x :: evaluated r else [x]
  end.

(* _is_compatible: level and "a VolatileModificationWarning was emitted" (durations are integers here, so
   incompatible_fraction does not occur) *)
Fixpoint is_compat (al : N -> Z) (mn q : Z) (t : cprog) : clevel * bool :=
  match t with
  | CNode r w ch =>
      let d := cdur al t in
      if d <? mn then (LShort, false)
      else if 0 <? d mod q then (LQuantum, false)
      else match ch with
           | [] => let wd := cbody al t in
                   if (wd <? mn) || negb (wd mod q =? 0) then (LAction, is_vol r) else (LCompat, false)
           | _ => let rs := map (is_compat al mn q) ch in
                  let wn := existsb snd (evaluated rs) in
                  if forallb (fun x => is_lcompat (fst x)) rs then (LCompat, wn) else (LAction, wn || is_vol r)
           end
  end.

(* to_waveform: the atoms the concatenated waveform plays *)
Fixpoint to_wf (t : cprog) : list N :=
  match t with
  | CNode r w ch =>
      let c := rcount r in
      match ch with
      | [] => match w with
              | Some l => if c =? 1 then l else repeat_list (Z.to_nat c) l
              | None => []
              end
      | _ => let body := flat_map to_wf ch in
             if 1 <? c then repeat_list (Z.to_nat c) body else body
      end
  end.

Fixpoint has_vol_desc (t : cprog) : bool :=
  match t with CNode _ _ ch => existsb (fun c => is_vol (crep c) || has_vol_desc c) ch end.

(* decisions of one make_compatible run (ghost output): per visited inner node the levels of its children and, when
   the children are concatenated, whether the node keeps its repetition count *)
Inductive ctr := CTr (levels : list clevel) (keep : bool) (subs : list ctr).

Fixpoint mc_rec (rp : bool) (al : N -> Z) (mn q : Z) (t : cprog) : cprog * bool * ctr :=
  match t with
  | CNode r w ch =>
      match ch with
      | [] => (CNode (Fixed 1) (Some (to_wf t)) [], false, CTr [] false [])
      | _ =>
          let rs := map (is_compat al mn q) ch in
          let wn := existsb snd rs in
          let levels := map fst rs in
          if existsb incompatible levels then
            let single := cbody al t in
            let keep := (single mod q =? 0) && (mn <=? single) in
            (CNode (if keep then r else Fixed 1)
                   (Some (if keep then to_wf (CNode (Fixed 1) w ch) else to_wf t)) [],
             wn || (rp && has_vol_desc t), CTr levels keep [])
          else
            let sub := map (fun c => match fst (is_compat al mn q c) with
                                     | LAction => mc_rec rp al mn q c
                                     | _ => (c, false, CTr [] false [])
                                     end) ch in
            (CNode r w (map (fun x => fst (fst x)) sub),
             wn || existsb (fun x => snd (fst x)) sub, CTr levels false (map snd sub))
      end
  end.

Definition make_compatible (rp : bool) (al : N -> Z) (mn q : Z) (t : cprog) : result (cprog * bool * ctr) :=
  let '(lv, w0) := is_compat al mn q t in
  match lv with
  | LShort | LQuantum => Err EFail                  (* ValueError *)
  | LCompat => Ok (t, w0, CTr [lv] false [])
  | LAction => let '(t', w1, tr) := mc_rec rp al mn q t in Ok (t', w0 || w1, CTr [lv] false [tr])
  end.

(* what a (made compatible) program plays *)
Fixpoint cplay (t : cprog) : list N :=
  match t with
  | CNode r w ch =>
      repeat_list (Z.to_nat (Z.min (rcount r) COUNT_LIMIT))
                  (match ch with [] => match w with Some l => l | None => [] end | _ => flat_map cplay ch end)
  end.

(* guard_C15_make_compatible_baked: no volatile count ends up inside a concatenated waveform (= the repaired code
   would not warn); executable *)
Definition guard_C15_make_compatible_baked (al : N -> Z) (mn q : Z) (t : cprog) : bool :=
  match make_compatible true al mn q t with Ok (_, w, _) => negb w | Err _ => true end.
