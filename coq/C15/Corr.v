(* C15 — correspondence cases.  Each case carries the inputs and the implementation's observation.
   check_corr: the model computes the same observation.  check_spec: the property's specification (Spec.v) holds of
   the implementation's observation.  Must not import Proofs/Props. *)
From Coq Require Import ZArith NArith QArith Bool List.
Require Import QV.common.Util QV.C15.Model QV.C15.Spec QV.C15.ModelQ QV.C15.ModelMC QV.C15.ModelF.
Import ListNotations.
Open Scope Z_scope.

Definition FUEL : nat := 600.

Inductive pipeline := PLNone | PLCleanup | PLFlatten (d : Z).
Inductive tobs := TErr | TNone | TTree (t : otree) (warn : bool).

(* (count, element, is-volatile) entries; adv entries (count, table number) *)
Inductive tab_obs :=
| TbErr
| Tb (adv : list (Z * nat)) (tabs : list (list (Z * N * bool))) (wfs : list N) (pos : list tpos) (warn : bool).

(* observation of a program after make_compatible: count, volatile?, leaf waveform as the atoms it plays, children *)
Inductive cotree := CO (count : Z) (vol : bool) (wf : option (list N)) (ch : list cotree).
Inductive cobs := CoErr | CoNone | CoTree (t : cotree) (warn : bool).

Inductive case :=
| CTree (p : pt) (vals : list (name * Z)) (V : list name) (pl : pipeline) (ups : list (list (name * Z)))
        (before : tobs) (after : list otree) (fresh : list tobs)
| CTabor (p : pt) (vals : list (name * Z)) (V : list name) (cl : bool) (mode : option tmode) (mn mx : Z)
         (ups : list (list (name * Z)))
         (before : tab_obs) (after : list (list tmod * tab_obs)) (fresh : list tab_obs)
(* non-integer updates of a single volatile repetition count: counts after every update / of a fresh instantiation
   (None = ParameterNotIntegerException, Some None = no program, Some (Some c) = count c) *)
| CFrac (e : expr) (vals : list (name * Q)) (ups : list (list (name * Q))) (after : list Z)
        (fresh : list (option (option Z)))
(* make_compatible pipeline (ModelMC.v): the program after make_compatible(min_len, quantum), after every update, and
   of a fresh instantiation + make_compatible with the updated values; leaf waveforms as lists of atoms *)
| CCompat (p : pt) (vals : list (name * Z)) (V : list name) (mn q : Z) (ups : list (list (name * Z)))
          (before : cobs) (after : list cotree) (fresh : list cobs)
(* a single volatile repetition count whose expression is evaluated in binary64 (fl = true) or on exact rationals
   (fl = false; TimeType values), ModelF.v: instantiation (None = error), after every update the count and the
   "Repetition count is no integer" warning, the count of a fresh instantiation, and the sequencer table of a
   TaborProgram after update_volatile_parameters / of a fresh compilation *)
| CFloat (fl : bool) (e : fexpr) (vals : list (name * Q)) (ups : list (list (name * Q)))
         (before : option (option Z)) (after : list (Z * bool)) (fresh : list (option (option Z)))
         (tab : list (list Z * option (list Z)))
| CSpecOnly
| CCrash.

(* ------------------------------------------------------------------------------------------------------------ *)
(* model side *)

Definition apply_pl (pl : pipeline) (t : prog) : result (prog * bool) :=
  match pl with
  | PLNone => Ok (t, false)
  | PLCleanup => Ok (cleanup t, false)
  | PLFlatten d => flatten_and_balance FUEL d t
  end.

Definition run_tree (p : pt) (vals : list (name * Z)) (V : list name) (pl : pipeline) : tobs * option prog :=
  match create_program p vals V with
  | Err _ => (TErr, None)
  | Ok None => (TNone, None)
  | Ok (Some t) => match apply_pl pl t with
                   | Err _ => (TErr, None)
                   | Ok (t', w) => (TTree (obs_of t') w, Some t')
                   end
  end.

Definition tobs_eqb (a b : tobs) : bool :=
  match a, b with
  | TErr, TErr => true
  | TNone, TNone => true
  | TTree x wx, TTree y wy => otree_eqb x y && Bool.eqb wx wy
  | _, _ => false
  end.

Fixpoint afters (t : prog) (ups : list (list (name * Z))) : list otree :=
  match ups with
  | [] => []
  | us :: r => let t' := update us t in obs_of t' :: afters t' r
  end.

Fixpoint freshes (p : pt) (vals : list (name * Z)) (V : list name) (pl : pipeline) (ups : list (list (name * Z)))
  : list tobs :=
  match ups with
  | [] => []
  | us :: r => let vals' := override us vals in fst (run_tree p vals' V pl) :: freshes p vals' V pl r
  end.

Definition tab_obs_of (st : tstate) (w : bool) : tab_obs :=
  Tb (t_adv st) (map (map tent_obs) (t_tabs st)) (t_wfs st) (map fst (t_pos st)) w.

Definition run_tabor (p : pt) (vals : list (name * Z)) (V : list name) (cl : bool) (mode : option tmode) (mn mx : Z)
  : tab_obs * option tstate :=
  match create_program p vals V with
  | Err _ => (TbErr, None)
  | Ok None => (TbErr, None)
  | Ok (Some t) =>
      match tabor_compile FUEL mode mn mx (if cl then cleanup t else t) with
      | Err _ => (TbErr, None)
      | Ok (st, w, _) => (tab_obs_of st w, Some st)
      end
  end.

Fixpoint tabor_afters (st : tstate) (w : bool) (ups : list (list (name * Z))) : list (list tmod * tab_obs) :=
  match ups with
  | [] => []
  | us :: r => let '(st', ms) := update_tabor us st in (ms, tab_obs_of st' w) :: tabor_afters st' w r
  end.

Fixpoint tabor_freshes (p : pt) (vals : list (name * Z)) (V : list name) (cl : bool) (mode : option tmode) (mn mx : Z)
         (ups : list (list (name * Z))) : list tab_obs :=
  match ups with
  | [] => []
  | us :: r => let vals' := override us vals in
               fst (run_tabor p vals' V cl mode mn mx) :: tabor_freshes p vals' V cl mode mn mx r
  end.

Definition set_eqb {A} (e : A -> A -> bool) (a b : list A) : bool :=
  forallb (fun x => existsb (e x) b) a && forallb (fun y => existsb (e y) a) b.

Definition ent_eqb (a b : Z * N * bool) : bool :=
  match a, b with (c1, w1, v1), (c2, w2, v2) => (c1 =? c2) && (w1 =? w2)%N && Bool.eqb v1 v2 end.
Definition adv_eqb (a b : Z * nat) : bool := (fst a =? fst b) && Nat.eqb (snd a) (snd b).

Definition tab_obs_eqb (a b : tab_obs) : bool :=
  match a, b with
  | TbErr, TbErr => true
  | Tb a1 t1 w1 p1 x1, Tb a2 t2 w2 p2 x2 =>
      list_eqb adv_eqb a1 a2 && list_eqb (list_eqb ent_eqb) t1 t2 && list_N_eqb w1 w2 && set_eqb tpos_eqb p1 p2
      && Bool.eqb x1 x2
  | _, _ => false
  end.

Definition tmod_eqb (a b : tmod) : bool :=
  match a, b with TMod p c e, TMod q d f => tpos_eqb p q && (c =? d) && Nat.eqb e f end.

Definition after_eqb (a b : list tmod * tab_obs) : bool :=
  set_eqb tmod_eqb (fst a) (fst b) && tab_obs_eqb (snd a) (snd b).

Definition warn_of (o : tab_obs) : bool := match o with Tb _ _ _ _ w => w | TbErr => false end.

Fixpoint frac_steps (e : expr) (vals : list (name * Q)) (ups : list (list (name * Q)))
  : list (Z * option (option Z)) :=
  match ups with
  | [] => []
  | us :: r =>
      let vals' := overrideQ us vals in
      match evalQ (envQ vals') e with
      | Some q => (count_update q,
                   match count_fresh q with
                   | None => None
                   | Some c => Some (if 0 <? c then Some c else None)
                   end) :: frac_steps e vals' r
      | None => []
      end
  end.
Definition fresh_eqb (a b : option (option Z)) : bool :=
  match a, b with
  | None, None => true
  | Some None, Some None => true
  | Some (Some x), Some (Some y) => x =? y
  | _, _ => false
  end.

(* --- float counts (ModelF.v) --- *)
Definition fresh_of_tol (fl : bool) (q : Q) : option (option Z) :=
  match count_fresh_tol fl q with
  | None => None
  | Some c => Some (if 0 <? c then Some c else None)
  end.
Fixpoint float_steps (fl : bool) (e : fexpr) (vals : list (name * Q)) (ups : list (list (name * Q)))
  : list ((Z * bool) * option (option Z) * (list Z * option (list Z))) :=
  match ups with
  | [] => []
  | us :: r =>
      let vals' := overrideQ us vals in
      match evalF fl (envQ vals') e with
      | Some q => let fr := fresh_of_tol fl q in
                  ((count_update q, update_warns fl q), fr,
                   (* root = the volatile loop itself: advanced entry (count, table 1), table [(1, waveform)] *)
                   ([count_update q; 1], match fr with Some (Some c) => Some [c; 1] | _ => None end))
                  :: float_steps fl e vals' r
      | None => []
      end
  end.
Definition float_before (fl : bool) (e : fexpr) (vals : list (name * Q)) : option (option Z) :=
  match evalF fl (envQ vals) e with Some q => inst_volatile fl q | None => None end.
Definition zb_eqb (a b : Z * bool) : bool := (fst a =? fst b) && Bool.eqb (snd a) (snd b).
Definition tabf_eqb (a b : list Z * option (list Z)) : bool :=
  list_eqb Z.eqb (fst a) (fst b) &&
  match snd a, snd b with Some x, Some y => list_eqb Z.eqb x y | None, None => true | _, _ => false end.

(* --- make_compatible --- *)
(* lengths in samples of the atoms of the make_compatible stream *)
Definition AL (a : N) : Z := nth (N.to_nat a) [192; 384; 96; 192; 576] 192.
(* which _make_compatible /repo has: false = as it is (no warning for a volatile count inside a concatenated
   sub-program), true = with the repair prepared in round 3 *)
Definition REPAIRED : bool := true.

Fixpoint cobs_of (t : cprog) : cotree :=
  match t with CNode r w ch => CO (rcount r) (is_vol r) w (map cobs_of ch) end.

Definition run_compat (p : pt) (vals : list (name * Z)) (V : list name) (mn q : Z) : cobs * option cprog :=
  match create_program p vals V with
  | Err _ => (CoErr, None)
  | Ok None => (CoNone, None)
  | Ok (Some t) => match make_compatible REPAIRED AL mn q (cprog_of t) with
                   | Err _ => (CoErr, None)
                   | Ok (t', w, _) => (CoTree (cobs_of t') w, Some t')
                   end
  end.

Fixpoint cotree_eqb (a b : cotree) : bool :=
  match a, b with
  | CO c1 v1 w1 ch1, CO c2 v2 w2 ch2 =>
      (c1 =? c2) && Bool.eqb v1 v2 &&
      match w1, w2 with None, None => true | Some x, Some y => list_N_eqb x y | _, _ => false end &&
      (fix go (x y : list cotree) : bool :=
         match x, y with
         | [], [] => true
         | p :: x', q :: y' => cotree_eqb p q && go x' y'
         | _, _ => false
         end) ch1 ch2
  end.
Definition cobs_eqb (a b : cobs) : bool :=
  match a, b with
  | CoErr, CoErr => true
  | CoNone, CoNone => true
  | CoTree x wx, CoTree y wy => cotree_eqb x y && Bool.eqb wx wy
  | _, _ => false
  end.

Fixpoint compat_afters (t : cprog) (ups : list (list (name * Z))) : list cotree :=
  match ups with
  | [] => []
  | us :: r => let t' := cupdate us t in cobs_of t' :: compat_afters t' r
  end.
Fixpoint compat_freshes (p : pt) (vals : list (name * Z)) (V : list name) (mn q : Z) (ups : list (list (name * Z)))
  : list cobs :=
  match ups with
  | [] => []
  | us :: r => let vals' := override us vals in fst (run_compat p vals' V mn q) :: compat_freshes p vals' V mn q r
  end.

Definition check_corr (c : case) : bool :=
  match c with
  | CTree p vals V pl ups before after fresh =>
      let '(b, t) := run_tree p vals V pl in
      tobs_eqb b before &&
      match t with
      | Some t0 => list_eqb otree_eqb (afters t0 ups) after
      | None => match after with [] => true | _ => false end
      end &&
      list_eqb tobs_eqb (freshes p vals V pl ups) fresh
  | CTabor p vals V cl mode mn mx ups before after fresh =>
      let '(b, st) := run_tabor p vals V cl mode mn mx in
      tab_obs_eqb b before &&
      match st with
      | Some st0 => list_eqb after_eqb (tabor_afters st0 (warn_of b) ups) after
      | None => match after with [] => true | _ => false end
      end &&
      list_eqb tab_obs_eqb (tabor_freshes p vals V cl mode mn mx ups) fresh
  | CFrac e vals ups after fresh =>
      let st := frac_steps e vals ups in
      list_eqb Z.eqb (map fst st) after && list_eqb fresh_eqb (map snd st) fresh
  | CCompat p vals V mn q ups before after fresh =>
      let '(b, t) := run_compat p vals V mn q in
      cobs_eqb b before &&
      match t with
      | Some t0 => list_eqb cotree_eqb (compat_afters t0 ups) after
      | None => match after with [] => true | _ => false end
      end &&
      list_eqb cobs_eqb (compat_freshes p vals V mn q ups) fresh
  | CFloat fl e vals ups before after fresh tab =>
      fresh_eqb (float_before fl e vals) before &&
      match before with
      | Some (Some _) =>
          let st := float_steps fl e vals ups in
          list_eqb zb_eqb (map (fun x => fst (fst x)) st) after &&
          list_eqb fresh_eqb (map (fun x => snd (fst x)) st) fresh &&
          list_eqb tabf_eqb (map snd st) tab
      | _ => match after with [] => true | _ => false end
      end
  | CSpecOnly => true
  | CCrash => false
  end.

(* ------------------------------------------------------------------------------------------------------------ *)
(* specification side: evaluated on the implementation's observation only *)

Definition spec_tobs (p : pt) (vals : list (name * Z)) (V : list name) : tobs :=
  match spec_program p vals V with
  | None => TErr
  | Some None => TNone
  | Some (Some t) => TTree t false
  end.

Definition warn_free (o : tobs) : bool := match o with TTree _ w => negb w | _ => true end.

(* what a program tree plays is what the template denotes under the given values (holds for every pipeline: cleanup
   and flatten_and_balance rearrange loops, they do not change the play-back) *)
Definition tree_play_ok (p : pt) (vals : list (name * Z)) (V : list name) (t : otree) : bool :=
  match spec_program p vals V with
  | Some (Some st) => list_N_eqb (oplay t) (oplay st)
  | Some None => match oplay t with [] => true | _ => false end
  | None => true
  end.

(* after_i (implementation, updated in place) against fresh_i (implementation, re-instantiated) *)
Definition updated_matches_fresh (pl : pipeline) (before_warn_free : bool) (a : otree) (f : tobs) : bool :=
  match f with
  | TErr => true
  | TNone => match pl with PLNone => match oprune a with [] => true | _ => false end | _ => true end
  | TTree ft fw =>
      match pl with
      | PLNone => otrees_eqb (oprune a) [ft]
      | _ => if ocounts_pos a && before_warn_free && negb fw then otree_eqb a ft else true
      end
  end.

(* round 5: "exactly the counts that depend on volatile parameters are marked ... also after the program has been
   merged, cleaned up": per played waveform, some enclosing count of the cleaned-up program is marked volatile iff the
   scope-free specification says so (Spec.oleafmarks; PLCleanup only: flatten_and_balance unrolls loops, which
   duplicates waveforms) *)
Definition marks_ok (p : pt) (vals : list (name * Z)) (V : list name) (pl : pipeline) (t : otree) : bool :=
  match pl with
  | PLCleanup => match spec_program p vals V with
                 | Some (Some st) => list_eqb Bool.eqb (oleafmarks false t) (oleafmarks false st)
                 | _ => true
                 end
  | _ => true
  end.

Fixpoint spec_tree_steps (p : pt) (vals : list (name * Z)) (V : list name) (pl : pipeline) (bwf : bool)
         (ups : list (list (name * Z))) (after : list otree) (fresh : list tobs) : bool :=
  match ups, after, fresh with
  | [], [], [] => true
  | us :: r, a :: ar, f :: fr =>
      let vals' := override us vals in
      (* instantiation with the new values marks exactly the dependent counts *)
      match pl with PLNone => tobs_eqb f (spec_tobs p vals' V) | _ => true end &&
      updated_matches_fresh pl bwf a f &&
      (* the marks of the re-instantiated and of the updated cleaned-up program (nothing dropped: all counts > 0) *)
      match f with TTree ft _ => marks_ok p vals' V pl ft | _ => true end &&
      (if ocounts_pos a then marks_ok p vals' V pl a else true) &&
      (* volatility was kept (no VolatileModificationWarning): the updated program plays the template's denotation *)
      (if bwf then tree_play_ok p vals' V a else true) &&
      spec_tree_steps p vals' V pl bwf r ar fr
  | _, _, _ => false
  end.

Definition check_spec_tree p vals V pl ups before after fresh : bool :=
  if negb (forallb (fun us => keys_in us V) ups) then true else
  match pl with PLNone => tobs_eqb before (spec_tobs p vals V) | _ => true end &&
  match before with
  | TTree bt _ => tree_play_ok p vals V bt && marks_ok p vals V pl bt && spec_tree_steps p vals V pl (warn_free before) ups after fresh
  | _ => true
  end.

(* --- Tabor --- *)
Definition tplay (adv : list (Z * nat)) (tabs : list (list (Z * N * bool))) (wfs : list N) : list N :=
  flat_map (fun ae =>
    repeat_list (Z.to_nat (Z.min (fst ae) COUNT_LIMIT))
      (flat_map (fun en => match en with (c, w, _) =>
                   repeat_list (Z.to_nat (Z.min c COUNT_LIMIT))
                               (match nth_error wfs (N.to_nat w) with Some x => [x] | None => [] end) end)
                (nth (pred (snd ae)) tabs []))) adv.

Definition spec_play (p : pt) (vals : list (name * Z)) (V : list name) : option (list N) :=
  match spec_program p vals V with
  | Some (Some t) => Some (oplay t)
  | _ => None
  end.

(* entries that differ between two table states of equal shape: (table index, position, new count) and
   (adv index, new count) *)
Definition changed_seq (t1 t2 : list (list (Z * N * bool))) : list (nat * nat * Z) :=
  flat_map (fun k =>
     let a := nth k t1 [] in let b := nth k t2 [] in
     flat_map (fun q => match nth_error a q, nth_error b q with
                        | Some (c1, _, _), Some (c2, _, _) => if c1 =? c2 then [] else [(k, q, c2)]
                        | _, _ => []
                        end) (seq 0 (length b))) (seq 0 (length t2)).
Definition changed_adv (a1 a2 : list (Z * nat)) : list (nat * Z) :=
  flat_map (fun k => match nth_error a1 k, nth_error a2 k with
                     | Some (c1, _), Some (c2, _) => if c1 =? c2 then [] else [(k, c2)]
                     | _, _ => []
                     end) (seq 0 (length a2)).

Definition mods_seq (adv : list (Z * nat)) (ms : list tmod) : list (nat * nat * Z) :=
  flat_map (fun m => match m with
                     | TMod (PSeqPos a q) c _ => match nth_error adv a with Some (_, el) => [(pred el, q, c)] | None => [] end
                     | _ => [] end) ms.
Definition mods_adv (ms : list tmod) : list (nat * Z) :=
  flat_map (fun m => match m with TMod (PAdv a) c _ => [(a, c)] | _ => [] end) ms.

Definition nnz_eqb (a b : nat * nat * Z) : bool :=
  match a, b with (k1, q1, c1), (k2, q2, c2) => Nat.eqb k1 k2 && Nat.eqb q1 q2 && (c1 =? c2) end.
Definition nz_eqb (a b : nat * Z) : bool := Nat.eqb (fst a) (fst b) && (snd a =? snd b).

(* the element a modification names is the one stored at that position *)
Definition mod_elems_ok (adv : list (Z * nat)) (tabs : list (list (Z * N * bool))) (ms : list tmod) : bool :=
  forallb (fun m => match m with
     | TMod (PAdv a) _ el => match nth_error adv a with Some (_, el') => Nat.eqb el el' | None => false end
     | TMod (PSeqPos a q) _ el =>
         match nth_error adv a with
         | Some (_, tn) => match nth_error (nth (pred tn) tabs []) q with
                           | Some (_, w, _) => Nat.eqb el (N.to_nat w)
                           | None => false end
         | None => false end
     end) ms.

Definition same_shape (a b : tab_obs) : bool :=
  match a, b with
  | Tb a1 t1 w1 _ _, Tb a2 t2 w2 _ _ =>
      list_eqb (fun x y => Nat.eqb (snd x) (snd y)) a1 a2 &&
      list_eqb (list_eqb (fun x y => match x, y with (_, e1, v1), (_, e2, v2) => (e1 =? e2)%N && Bool.eqb v1 v2 end)) t1 t2 &&
      list_N_eqb w1 w2
  | _, _ => false
  end.

Definition tables_equal (a b : tab_obs) : bool :=
  match a, b with
  | Tb a1 t1 w1 _ _, Tb a2 t2 w2 _ _ =>
      list_eqb adv_eqb a1 a2 && list_eqb (list_eqb ent_eqb) t1 t2 && list_N_eqb w1 w2
  | _, _ => false
  end.

Fixpoint spec_tabor_steps (p : pt) (vals : list (name * Z)) (V : list name) (prev : tab_obs)
         (ups : list (list (name * Z))) (after : list (list tmod * tab_obs)) (fresh : list tab_obs) : bool :=
  match ups, after, fresh with
  | [], [], [] => true
  | us :: r, (ms, cur) :: ar, f :: fr =>
      let vals' := override us vals in
      match prev, cur with
      | Tb a1 t1 w1 _ wn, Tb a2 t2 w2 _ _ =>
          (* 1. the returned map names exactly the entries that changed *)
          set_eqb nnz_eqb (mods_seq a2 ms) (changed_seq t1 t2) &&
          set_eqb nz_eqb (mods_adv ms) (changed_adv a1 a2) &&
          mod_elems_ok a2 t2 ms &&
          (* 2. what the updated tables play is what the template denotes under the new values *)
          (if wn then true else
             match spec_play p vals' V with
             | Some pl => list_N_eqb (tplay a2 t2 w2) pl
             | None => true
             end) &&
          (* 3. structure_stable: a fresh compilation of the same shape has the same entries *)
          (if wn || warn_of f || negb (same_shape cur f) then true else tables_equal cur f)
      | _, _ => false
      end &&
      spec_tabor_steps p vals' V cur r ar fr
  | _, _, _ => false
  end.

(* round 6, clause S4 on the implementation (SINGLE sequence mode; C15_tabor_single_marks is the model's theorem): per
   played waveform, "its count is recorded as changeable" (Spec.table_marks: from volatile_parameter_positions only) is
   what the scope-free specification says about the counts enclosing that waveform.  Judged on the first compilation and
   on every fresh compilation (after an update to 0 the fresh program has fewer waveforms, so `after` is not judged). *)
Definition tabor_marks_ok (p : pt) (vals : list (name * Z)) (V : list name) (mode : option tmode) (b : tab_obs) : bool :=
  match mode, b with
  | Some MSingle, Tb a t _ pos _ =>
      match spec_program p vals V with
      | Some (Some so) => list_eqb Bool.eqb (table_marks a (map (@length _) t) pos) (oleafmarks false so)
      | _ => true
      end
  | _, _ => true
  end.

Fixpoint tabor_fresh_marks_ok (p : pt) (vals : list (name * Z)) (V : list name) (mode : option tmode)
         (ups : list (list (name * Z))) (fresh : list tab_obs) : bool :=
  match ups, fresh with
  | us :: r, f :: fr => let vals' := override us vals in
                        tabor_marks_ok p vals' V mode f && tabor_fresh_marks_ok p vals' V mode r fr
  | _, _ => true
  end.

Definition check_spec_tabor p vals V mode ups before after fresh : bool :=
  if negb (forallb (fun us => keys_in us V) ups) then true else
  match before with
  | TbErr => true
  | Tb _ _ _ _ _ => tabor_marks_ok p vals V mode before && tabor_fresh_marks_ok p vals V mode ups fresh &&
                    spec_tabor_steps p vals V before ups after fresh
  end.


(* --- make_compatible: if make_compatible emitted no VolatileModificationWarning (volatility is said to be kept) then
   after every update the program plays what a fresh instantiation + make_compatible with the new values plays
   (compared whenever that fresh run exists and did not warn either) --- *)
Fixpoint coplay (t : cotree) : list N :=
  match t with
  | CO c _ w ch =>
      repeat_list (Z.to_nat (Z.min c COUNT_LIMIT))
                  (match ch with [] => match w with Some l => l | None => [] end | _ => flat_map coplay ch end)
  end.

Definition check_spec_compat (V : list name) (ups : list (list (name * Z))) (before : cobs) (after : list cotree)
           (fresh : list cobs) : bool :=
  if negb (forallb (fun us => keys_in us V) ups) then true else
  match before with
  | CoTree _ false =>
      Nat.eqb (length after) (length ups) && Nat.eqb (length fresh) (length ups) &&
      forallb (fun af => match snd af with
                         | CoTree ft false => list_N_eqb (coplay (fst af)) (coplay ft)
                         | CoNone => match coplay (fst af) with [] => true | _ => false end
                         | _ => true
                         end) (combine after fresh)
  | _ => true
  end.

Definition check_spec (c : case) : bool :=
  match c with
  | CTree p vals V pl ups before after fresh => check_spec_tree p vals V pl ups before after fresh
  | CTabor p vals V _ mode _ _ ups before after fresh => check_spec_tabor p vals V mode ups before after fresh
  | CFrac _ _ ups after fresh =>
      (* the updated count is the count of a fresh instantiation with the new values (which must exist) *)
      Nat.eqb (length after) (length ups) && Nat.eqb (length fresh) (length ups) &&
      forallb (fun af => match snd af with
                         | Some (Some c) => fst af =? c
                         | Some None => fst af =? 0
                         | None => false
                         end) (combine after fresh)
  | CFloat _ _ _ ups before after fresh tab =>
      (* the instantiation exists; after every update the count is the count of a fresh instantiation with the new
         values (which must exist) and the Tabor table is the table of a fresh compilation *)
      match before with Some (Some _) => true | _ => false end &&
      Nat.eqb (length after) (length ups) && Nat.eqb (length fresh) (length ups) && Nat.eqb (length tab) (length ups) &&
      forallb (fun af => match snd af with
                         | Some (Some c) => fst (fst af) =? c
                         | Some None => fst (fst af) =? 0
                         | None => false
                         end) (combine after fresh) &&
      (* (advanced-table counts ++ sequencer-table counts); no fresh program = nothing is played: some count is 0 *)
      forallb (fun t => match snd t with Some x => list_eqb Z.eqb (fst t) x | None => existsb (Z.eqb 0) (fst t) end) tab
  | CCompat _ _ V _ _ ups before after fresh => check_spec_compat V ups before after fresh
  | CSpecOnly => true
  | CCrash => false
  end.
