(* C15 — non-integer values of count parameters (definitions only).  The integer model (Model.v) is the restriction
   of this one to integer environments (Proofs_q.v).  Mirrors: RepetitionPulseTemplate.get_repetition_count_value
   (checked_int_cast -> ParameterNotIntegerException; exact on the generated dyadic values, the 1e-6 tolerance of
   checked_int_cast is outside the model) and VolatileRepetitionCount.__int__ (python round(): half to even, warning
   only, clamp at 0). *)
From Coq Require Import ZArith NArith QArith Qround Bool List.
Require Import QV.C15.Model.
Import ListNotations.
Open Scope Q_scope.

Fixpoint evalQ (env : name -> option Q) (e : expr) : option Q :=
  match e with
  | EConst z => Some (inject_Z z)
  | EVar x => env x
  | EAdd a b => match evalQ env a, evalQ env b with Some x, Some y => Some (x + y) | _, _ => None end
  | ESub a b => match evalQ env a, evalQ env b with Some x, Some y => Some (x - y) | _, _ => None end
  | EMul a b => match evalQ env a, evalQ env b with Some x, Some y => Some (x * y) | _, _ => None end
  end.

Definition is_intQ (q : Q) : bool := Qeq_bool (inject_Z (Qfloor q)) q.

(* python round(x) for a float: nearest integer, ties to even *)
Definition round_half_even (q : Q) : Z :=
  let f := Qfloor q in
  match Qcompare (q - inject_Z f) (1 # 2) with
  | Lt => f
  | Gt => (f + 1)%Z
  | Eq => if Z.even f then f else (f + 1)%Z
  end.

(* VolatileRepetitionCount.__int__ on the value of the count expression *)
Definition count_update (q : Q) : Z := Z.max 0 (round_half_even q).
(* RepetitionPulseTemplate: None = ParameterNotIntegerException, else max(0, value) *)
Definition count_fresh (q : Q) : option Z := if is_intQ q then Some (Z.max 0 (Qfloor q)) else None.

Definition envQ (vals : list (name * Q)) : name -> option Q := fun x => lookup x vals.
Definition overrideQ (us vals : list (name * Q)) : list (name * Q) :=
  map (fun kv => (fst kv, match lookup (fst kv) us with Some v => v | None => snd kv end)) vals.
