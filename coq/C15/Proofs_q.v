(* C15 — non-integer count values: update rounds where a fresh instantiation raises. *)
From Coq Require Import ZArith NArith QArith Qround Bool List Lia.
Require Import QV.C15.Model QV.C15.ModelQ.
Import ListNotations.
Open Scope Q_scope.

(* the integer model is the restriction of the rational one *)
Lemma evalQ_inject env envq e :
  (forall x, match envq x, env x with Some q, Some z => q == inject_Z z | None, None => True | _, _ => False end) ->
  match evalQ envq e, eval env e with Some q, Some z => q == inject_Z z | None, None => True | _, _ => False end.
Proof.
  intros H. induction e as [z|x|a IHa b IHb|a IHa b IHb|a IHa b IHb]; cbn [evalQ eval].
  - reflexivity.
  - apply H.
  - destruct (evalQ envq a), (eval env a); try contradiction; destruct (evalQ envq b), (eval env b); try contradiction; auto.
    rewrite IHa, IHb, inject_Z_plus. reflexivity.
  - destruct (evalQ envq a), (eval env a); try contradiction; destruct (evalQ envq b), (eval env b); try contradiction; auto.
    rewrite IHa, IHb. unfold Z.sub. rewrite inject_Z_plus, inject_Z_opp. reflexivity.
  - destruct (evalQ envq a), (eval env a); try contradiction; destruct (evalQ envq b), (eval env b); try contradiction; auto.
    rewrite IHa, IHb, inject_Z_mult. reflexivity.
Qed.

Lemma Qfloor_inject z : Qfloor (inject_Z z) = z.
Proof. unfold Qfloor, inject_Z. cbn. apply Z.div_1_r. Qed.

Lemma is_intQ_true q : is_intQ q = true -> q == inject_Z (Qfloor q).
Proof. unfold is_intQ. intros H. apply Qeq_bool_iff in H. symmetry. exact H. Qed.

(* on an integer value the update path and the instantiation path agree *)
Lemma count_integer_agree q : is_intQ q = true -> count_fresh q = Some (count_update q).
Proof.
  intros H. unfold count_fresh, count_update, round_half_even. rewrite H. f_equal. f_equal.
  pose proof (is_intQ_true q H) as E.
  assert (Z0 : q - inject_Z (Qfloor q) == 0) by (rewrite <- E; ring).
  destruct (Qcompare_spec (q - inject_Z (Qfloor q)) (1 # 2)) as [C|C|C].
  - rewrite Z0 in C. discriminate.
  - reflexivity.
  - rewrite Z0 in C. exfalso. revert C. compute. discriminate.
Qed.

Lemma count_integer_Z z : count_fresh (inject_Z z) = Some (Z.max 0 z) /\ count_update (inject_Z z) = Z.max 0 z.
Proof.
  assert (I : is_intQ (inject_Z z) = true).
  { unfold is_intQ. rewrite Qfloor_inject. apply Qeq_bool_iff. reflexivity. }
  pose proof (count_integer_agree _ I) as A.
  assert (F : count_fresh (inject_Z z) = Some (Z.max 0 z)).
  { unfold count_fresh. rewrite I, Qfloor_inject. reflexivity. }
  split; [exact F|]. rewrite F in A. inversion A. reflexivity.
Qed.

(* ... and on a non-integer value they do not: update rounds (5/2 -> 2, ties to even) where instantiation raises *)
Lemma count_noninteger_refuted : exists q, count_fresh q = None /\ count_update q = 2%Z.
Proof. exists (5 # 2). split; reflexivity. Qed.
