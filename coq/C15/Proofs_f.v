(* C15 — counts evaluated in floating point (ModelF.v): the update path agrees with the instantiation path on every
   value instantiation accepts; the tolerance tests of is_integer / checked_int_cast are consistent; truncation instead
   of rounding is refuted by 0.3 / 0.1. *)
From Coq Require Import ZArith NArith QArith Qround Qabs Bool List Lia.
Require Import QV.C15.Model QV.C15.ModelQ QV.C15.ModelF QV.C15.Proofs_q.
Import ListNotations.
Open Scope Q_scope.

Lemma count_fresh_tol_update fl q c : count_fresh_tol fl q = Some c -> count_update q = c.
Proof.
  unfold count_fresh_tol, checked_int_cast_f, count_update.
  destruct (Qlt_bool EPS (near_diff fl q)); cbn; intros H; inversion H; reflexivity.
Qed.

(* the assertion int(repetition_definition) == repetition_count of _internal_create_program cannot fail *)
Lemma inst_volatile_no_assert fl q : inst_volatile fl q = None <-> count_fresh_tol fl q = None.
Proof.
  unfold inst_volatile. destruct (count_fresh_tol fl q) as [c|] eqn:E; [|tauto].
  rewrite (count_fresh_tol_update _ _ _ E), Z.eqb_refl. destruct (0 <? c)%Z; split; discriminate.
Qed.

Lemma Qlt_bool_asym a b : Qlt_bool a b = true -> Qlt_bool b a = false.
Proof.
  unfold Qlt_bool. intros H. apply negb_true_iff in H. apply negb_false_iff.
  apply Qle_bool_iff. destruct (Qlt_le_dec a b) as [L|L].
  - apply Qlt_le_weak. exact L.
  - apply Qle_bool_iff in L. rewrite L in H. discriminate.
Qed.

(* no "Repetition count is no integer" warning on the update path => a fresh instantiation accepts the value and
   yields the same count *)
Lemma is_integer_fresh fl q : is_integer_f fl q = true -> count_fresh_tol fl q = Some (count_update q).
Proof.
  unfold is_integer_f, count_fresh_tol, checked_int_cast_f, count_update. intros H.
  rewrite (Qlt_bool_asym _ _ H). reflexivity.
Qed.

(* on exactly integer values the tolerance model is the exact model of ModelQ.v *)
Lemma round53_zero x : x == 0 -> round53 x == 0.
Proof.
  intros H. unfold round53. assert (E : Qeq_bool x 0 = true) by (apply Qeq_bool_iff; exact H). rewrite E. reflexivity.
Qed.
Lemma rnd_zero fl x : x == 0 -> rnd fl x == 0.
Proof.
  intros H. unfold rnd. rewrite Qred_correct. destruct fl; [apply round53_zero; rewrite Qred_correct|]; exact H.
Qed.

Lemma round_half_even_int q : is_intQ q = true -> round_half_even q = Qfloor q.
Proof.
  intros H. pose proof (is_intQ_true q H) as E. unfold round_half_even.
  assert (Z0 : q - inject_Z (Qfloor q) == 0) by (rewrite <- E; ring).
  destruct (Qcompare_spec (q - inject_Z (Qfloor q)) (1 # 2)) as [C|C|C].
  - rewrite Z0 in C. discriminate.
  - reflexivity.
  - rewrite Z0 in C. exfalso. revert C. compute. discriminate.
Qed.

Lemma count_fresh_tol_exact fl q : is_intQ q = true -> count_fresh_tol fl q = count_fresh q.
Proof.
  intros H. unfold count_fresh_tol, checked_int_cast_f, count_fresh, near_diff. rewrite H.
  rewrite (round_half_even_int q H).
  assert (Z0 : q - inject_Z (Qfloor q) == 0) by (rewrite <- (is_intQ_true q H); ring).
  assert (D : Qabs (rnd fl (q - inject_Z (Qfloor q))) == 0) by (rewrite (rnd_zero fl _ Z0); reflexivity).
  assert (L : Qlt_bool EPS (Qabs (rnd fl (q - inject_Z (Qfloor q)))) = false).
  { unfold Qlt_bool. apply negb_false_iff. apply Qle_bool_iff. rewrite D. compute. discriminate. }
  rewrite L. reflexivity.
Qed.



Lemma round_half_even_comp q r : q == r -> round_half_even q = round_half_even r.
Proof.
  intros E. unfold round_half_even. rewrite (Qfloor_comp _ _ E).
  assert (C : (q - inject_Z (Qfloor r) ?= 1 # 2) = (r - inject_Z (Qfloor r) ?= 1 # 2)) by (rewrite E; reflexivity).
  rewrite C. reflexivity.
Qed.

Lemma round_half_even_inject m : round_half_even (inject_Z m) = m.
Proof.
  unfold round_half_even. rewrite Qfloor_inject.
  assert (Z0 : inject_Z m - inject_Z m == 0) by ring.
  destruct (Qcompare_spec (inject_Z m - inject_Z m) (1 # 2)) as [C|C|C].
  - rewrite Z0 in C. discriminate.
  - reflexivity.
  - rewrite Z0 in C. exfalso. revert C. compute. discriminate.
Qed.

Lemma Qpow2_nonneg n : (0 <= n)%Z -> Qpow2 n == inject_Z (2 ^ n).
Proof. destruct n; intros H; try reflexivity. lia. Qed.

Lemma Qpow2_neg_mul n : (0 <= n)%Z -> inject_Z (2 ^ n) * Qpow2 (- n) == 1.
Proof.
  destruct n as [|p|p]; intros H; try lia.
  - reflexivity.
  - cbn [Z.opp Qpow2]. unfold Qeq, Qmult, inject_Z. cbn [Qnum Qden].
    rewrite !Z.mul_1_r, Z.mul_1_l, Pos.mul_1_l, Pos2Z.inj_pow. reflexivity.
Qed.

Lemma ilog2Q_inject z : z <> 0%Z -> ilog2Q (inject_Z z) = Z.log2 (Z.abs z).
Proof.
  intros NZ. unfold ilog2Q. cbn [Qnum Qden inject_Z]. change (Z.log2 1) with 0%Z. rewrite Z.sub_0_r.
  assert (L : Qle_bool (Qpow2 (Z.log2 (Z.abs z))) (Qabs (inject_Z z)) = true).
  { apply Qle_bool_iff. rewrite Qpow2_nonneg by apply Z.log2_nonneg.
    change (Qabs (inject_Z z)) with (inject_Z (Z.abs z)). rewrite <- Zle_Qle.
    apply Z.log2_spec. lia. }
  rewrite L. reflexivity.
Qed.

Lemma round53_int z : (Z.abs z < 2 ^ 53)%Z -> round53 (inject_Z z) == inject_Z z.
Proof.
  intros B. unfold round53. destruct (Qeq_bool (inject_Z z) 0) eqn:E0.
  - apply Qeq_bool_iff in E0. symmetry. exact E0.
  - assert (NZ : z <> 0%Z) by (intros ->; discriminate).
    rewrite (ilog2Q_inject z NZ).
    set (L := Z.log2 (Z.abs z)).
    assert (LB : (0 <= L <= 52)%Z).
    { split; [apply Z.log2_nonneg|]. assert (L < 53)%Z; [|lia]. apply Z.log2_lt_pow2; lia. }
    set (n := (52 - L)%Z). replace (- (L - 52))%Z with n by (unfold n; lia).
    replace (L - 52)%Z with (- n)%Z by (unfold n; lia).
    assert (N0 : (0 <= n)%Z) by (unfold n; lia).
    assert (R : round_half_even (inject_Z z * Qpow2 n) = (z * 2 ^ n)%Z).
    { rewrite (round_half_even_comp _ (inject_Z (z * 2 ^ n))).
      - apply round_half_even_inject.
      - rewrite (Qpow2_nonneg n N0), inject_Z_mult. reflexivity. }
    rewrite R, inject_Z_mult, <- Qmult_assoc, (Qpow2_neg_mul n N0). ring.
Qed.

Lemma Qred_inject z : Qred (inject_Z z) = inject_Z z.
Proof.
  unfold Qred, inject_Z. pose proof (Z.ggcd_gcd z 1) as G. pose proof (Z.ggcd_correct_divisors z 1) as D.
  destruct (Z.ggcd z 1) as [g [aa bb]]. cbn [fst snd] in *. rewrite Z.gcd_1_r in G. subst g.
  destruct D as [D1 D2]. rewrite Z.mul_1_l in D1, D2. subst aa bb. reflexivity.
Qed.

Lemma rnd_int fl x z : x == inject_Z z -> (Z.abs z < 2 ^ 53)%Z -> rnd fl x = inject_Z z.
Proof.
  intros E B. unfold rnd. destruct fl.
  - rewrite (Qred_complete _ _ E), Qred_inject, (Qred_complete _ _ (round53_int z B)). apply Qred_inject.
  - rewrite (Qred_complete _ _ E). apply Qred_inject.
Qed.

(* the integer model is the restriction of the float model (all intermediate values below 2^53) *)
Lemma evalF_integer fl env e :
  bounded53 env e = true ->
  evalF fl (fun x => option_map inject_Z (env x)) (fexpr_of e) = option_map inject_Z (eval env e).
Proof.
  induction e as [z|x|a IHa b IHb|a IHa b IHb|a IHa b IHb]; cbn [bounded53 fexpr_of evalF eval]; intros H.
  - reflexivity.
  - reflexivity.
  - apply andb_prop in H. destruct H as [S H]. apply andb_prop in H. destruct H as [Ha Hb].
    rewrite (IHa Ha), (IHb Hb). destruct (eval env a) as [va|], (eval env b) as [vb|]; cbn in *; try reflexivity.
    f_equal. apply rnd_int; [rewrite inject_Z_plus; reflexivity|]. apply Z.ltb_lt. exact S.
  - apply andb_prop in H. destruct H as [S H]. apply andb_prop in H. destruct H as [Ha Hb].
    rewrite (IHa Ha), (IHb Hb). destruct (eval env a) as [va|], (eval env b) as [vb|]; cbn in *; try reflexivity.
    f_equal. apply rnd_int; [unfold Z.sub; rewrite inject_Z_plus, inject_Z_opp; reflexivity|]. apply Z.ltb_lt. exact S.
  - apply andb_prop in H. destruct H as [S H]. apply andb_prop in H. destruct H as [Ha Hb].
    rewrite (IHa Ha), (IHb Hb). destruct (eval env a) as [va|], (eval env b) as [vb|]; cbn in *; try reflexivity.
    f_equal. apply rnd_int; [rewrite inject_Z_mult; reflexivity|]. apply Z.ltb_lt. exact S.
Qed.

(* ... and on an integer value the counts are those of the integer model: max(0, z) on both paths, no warning *)
Lemma float_counts_integer fl z :
  count_fresh_tol fl (inject_Z z) = Some (Z.max 0 z) /\ count_update (inject_Z z) = Z.max 0 z /\
  update_warns fl (inject_Z z) = false.
Proof.
  assert (I : is_intQ (inject_Z z) = true).
  { unfold is_intQ. rewrite Qfloor_inject. apply Qeq_bool_iff. reflexivity. }
  destruct (count_integer_Z z) as [F U].
  split; [rewrite (count_fresh_tol_exact fl _ I); exact F|]. split; [exact U|].
  unfold update_warns, is_integer_f, near_diff. rewrite (round_half_even_int _ I), Qfloor_inject.
  assert (Z0 : inject_Z z - inject_Z z == 0) by ring.
  assert (D : Qabs (rnd fl (inject_Z z - inject_Z z)) == 0) by (rewrite (rnd_zero fl _ Z0); reflexivity).
  apply negb_false_iff. unfold Qlt_bool. apply negb_true_iff.
  destruct (Qle_bool EPS (Qabs (rnd fl (inject_Z z - inject_Z z)))) eqn:L; [|reflexivity].
  apply Qle_bool_iff in L. rewrite D in L. exfalso. revert L. compute. intros L. apply L. reflexivity.
Qed.

(* 0.3 / 0.1 in binary64: the nearest doubles of the decimal values *)
Definition F03 : Q := 5404319552844595 # 18014398509481984.
Definition F01 : Q := 3602879701896397 # 36028797018963968.
Definition env_03_01 : name -> option Q := fun x => if (x =? 4)%N then Some F03 else if (x =? 5)%N then Some F01 else None.

Lemma float_quotient_below_three :
  exists q, evalF true env_03_01 (FDiv (FVar 4%N) (FVar 5%N)) = Some q /\ q < 3 /\ 3 - q < EPS /\
            is_integer_f true q = true /\ inst_volatile true q = Some (Some 3%Z) /\ count_update q = 3%Z /\
            count_update_trunc true q = 2%Z /\
            (* on exact rationals (TimeType values 3/10, 1/10) the quotient is 3 *)
            evalF false (fun x => if (x =? 4)%N then Some (3 # 10) else Some (1 # 10)) (FDiv (FVar 4%N) (FVar 5%N)) = Some 3.
Proof.
  eexists. split; [vm_compute; reflexivity|].
  repeat split; vm_compute; reflexivity.
Qed.

(* the two tolerance tests differ exactly on the boundary: |x - round x| = 1e-6 is accepted by checked_int_cast
   while is_integer says no (a warning on the update path, no error at instantiation; the counts agree) *)
Lemma tolerance_boundary :
  exists q, is_integer_f false q = false /\ count_fresh_tol false q = Some (count_update q) /\ count_update q = 3%Z.
Proof. exists (3 + EPS). repeat split; vm_compute; reflexivity. Qed.
