(* C15 — Loop.split_one_child (Model.split_index): a child with a volatile count is split only when every child that
   can be split at all (count > 1) is volatile; the chosen child is the LAST fixed one, else the last volatile one. *)
From Coq Require Import ZArith NArith Bool List Lia.
Require Import QV.C15.Model.
Import ListNotations.
Open Scope Z_scope.

Lemma in_combine_seq {A} (l : list A) s i c :
  In (i, c) (combine (seq s (length l)) l) <-> (s <= i)%nat /\ nth_error l (i - s) = Some c.
Proof.
  revert s. induction l as [|a l IH]; intros s; cbn [length seq combine].
  - split; [intros []|]. intros [_ H]. destruct (i - s)%nat; discriminate.
  - cbn [In]. rewrite IH. split.
    + intros [E|[L H]].
      * inversion E; subst. split; [lia|]. rewrite Nat.sub_diag. reflexivity.
      * split; [lia|]. replace (i - s)%nat with (S (i - S s)) by lia. exact H.
    + intros [L H]. destruct (Nat.eq_dec i s) as [->|N].
      * left. rewrite Nat.sub_diag in H. cbn in H. inversion H. reflexivity.
      * right. split; [lia|]. replace (i - s)%nat with (S (i - S s)) in H by lia. exact H.
Qed.

Lemma split_index_spec ch i :
  split_index ch = Some i ->
  exists c, nth_error ch i = Some c /\ 1 < cnt c /\
    (is_vol (rep_of c) = true ->
     forall j c', nth_error ch j = Some c' -> 1 < cnt c' -> is_vol (rep_of c') = true).
Proof.
  unfold split_index.
  set (cand := filter (fun ic : nat * prog => 1 <? cnt (snd ic)) (combine (seq 0 (length ch)) ch)).
  assert (CI : forall j c', In (j, c') cand <-> nth_error ch j = Some c' /\ 1 < cnt c').
  { intros j c'. unfold cand. rewrite filter_In, in_combine_seq. cbn [snd]. rewrite Z.ltb_lt, Nat.sub_0_r.
    split; [intros [[_ H] L]; auto|intros [H L]; split; [split; [lia|exact H]|exact L]]. }
  destruct (filter (fun ic : nat * prog => negb (is_vol (rep_of (snd ic)))) (rev cand)) as [|[i0 c0] r] eqn:F.
  - destruct (rev cand) as [|[i1 c1] r1] eqn:R; [discriminate|].
    intros E. inversion E; subst i1. clear E.
    assert (I : In (i, c1) cand) by (apply in_rev; rewrite R; left; reflexivity).
    apply CI in I. destruct I as [N L]. exists c1. split; [exact N|]. split; [exact L|].
    intros _ j c' Nj Lj.
    assert (I' : In (j, c') (rev cand)) by (apply in_rev; rewrite rev_involutive; apply CI; auto).
    destruct (is_vol (rep_of c')) eqn:V; [reflexivity|].
    assert (X : In (j, c') (filter (fun ic : nat * prog => negb (is_vol (rep_of (snd ic)))) (rev cand))).
    { apply filter_In. split; [exact I'|]. cbn [snd]. rewrite V. reflexivity. }
    rewrite <- R in F. rewrite F in X. destruct X.
  - intros E. inversion E; subst i0. clear E.
    assert (X : In (i, c0) (filter (fun ic : nat * prog => negb (is_vol (rep_of (snd ic)))) (rev cand)))
      by (rewrite F; left; reflexivity).
    apply filter_In in X. destruct X as [I V]. cbn [snd] in V. apply in_rev in I. apply CI in I.
    destruct I as [N L]. exists c0. split; [exact N|]. split; [exact L|].
    intros V'. rewrite V' in V. discriminate.
Qed.

(* how many splits the FIXED repeated children of a table can absorb *)
Definition fixed_cap1 (c : prog) : Z := if negb (is_vol (rep_of c)) && (1 <? cnt c) then cnt c - 1 else 0.
Definition fixed_cap (ch : list prog) : Z := fold_right (fun c acc => fixed_cap1 c + acc) 0 ch.

Lemma fixed_cap1_nonneg c : 0 <= fixed_cap1 c.
Proof. unfold fixed_cap1. destruct (negb (is_vol (rep_of c)) && (1 <? cnt c)) eqn:E; [|lia].
  apply andb_prop in E. destruct E as [_ E]. apply Z.ltb_lt in E. lia. Qed.

Lemma fixed_cap_pos ch : 0 < fixed_cap ch ->
  exists j c', nth_error ch j = Some c' /\ 1 < cnt c' /\ is_vol (rep_of c') = false.
Proof.
  induction ch as [|a ch IH]; cbn [fixed_cap fold_right]; [lia|]. fold (fixed_cap ch). intros H.
  unfold fixed_cap1 in H. destruct (negb (is_vol (rep_of a)) && (1 <? cnt a)) eqn:E.
  - apply andb_prop in E. destruct E as [V L]. exists O, a. split; [reflexivity|]. split; [apply Z.ltb_lt; exact L|].
    apply negb_true_iff. exact V.
  - destruct (IH ltac:(lia)) as [j [c' [N R]]]. exists (S j), c'. split; [exact N|exact R].
Qed.

Lemma insert_after_length {A} n (x y z : A) l : nth_error l n = Some z -> length (insert_after n x y l) = S (length l).
Proof.
  revert n. induction l as [|a l IH]; intros [|n] H; cbn in *; try discriminate; [reflexivity|].
  rewrite (IH n H). reflexivity.
Qed.

Lemma fixed_cap_insert ch i c :
  nth_error ch i = Some c -> is_vol (rep_of c) = false -> 1 < cnt c ->
  fixed_cap (insert_after i (set_rep (Fixed (cnt c - 1)) c) (set_rep (Fixed 1) c) ch) = fixed_cap ch - 1.
Proof.
  intros N V L.
  assert (C1 : fixed_cap1 (set_rep (Fixed 1) c) = 0) by (destruct c; reflexivity).
  assert (C2 : fixed_cap1 (set_rep (Fixed (cnt c - 1)) c) = fixed_cap1 c - 1).
  { unfold fixed_cap1 at 2. rewrite V. cbn [negb andb]. assert (E : (1 <? cnt c) = true) by (apply Z.ltb_lt; exact L).
    rewrite E. set (k := cnt c - 1). assert (K : cnt (set_rep (Fixed k) c) = k) by (destruct c; reflexivity).
    unfold fixed_cap1. rewrite K. replace (is_vol (rep_of (set_rep (Fixed k) c))) with false by (destruct c; reflexivity).
    cbn [negb andb]. destruct (1 <? k) eqn:E2; [lia|]. apply Z.ltb_ge in E2. unfold k in *. lia. }
  revert i N. induction ch as [|a ch IH]; intros [|i] N; cbn in N; try discriminate.
  - inversion N; subst a. cbn [insert_after fixed_cap fold_right]. rewrite C1, C2. lia.
  - cbn [insert_after fixed_cap fold_right]. fold (fixed_cap ch).
    fold (fixed_cap (insert_after i (set_rep (Fixed (cnt c - 1)) c) (set_rep (Fixed 1) c) ch)).
    rewrite (IH i N). lia.
Qed.

(* _check_partial_unroll's loop `while len(st) < min_seq_len: st.split_one_child()`: when the fixed repeated entries
   can absorb all the splits that are needed, no volatile entry is touched (no VolatileModificationWarning is added) and
   every split index addresses a fixed entry *)
Lemma split_until_keeps_volatile fuel mn : forall ch w ch' w' idx,
  split_until fuel mn ch w = Ok (ch', w', idx) ->
  mn - Z.of_nat (length ch) <= fixed_cap ch ->
  w' = w.
Proof.
  induction fuel as [|f IH]; intros ch w ch' w' idx; cbn [split_until].
  - destruct (mn <=? Z.of_nat (length ch)); [|discriminate]. intros H _. inversion H. reflexivity.
  - destruct (mn <=? Z.of_nat (length ch)) eqn:E; [intros H _; inversion H; reflexivity|].
    apply Z.leb_gt in E.
    destruct (split_index ch) as [i|] eqn:S; [|discriminate].
    destruct (nth_error ch i) as [c|] eqn:N; [|discriminate].
    destruct (split_until f mn _ _) as [[[ch1 w1] idx1]|] eqn:R; [|discriminate].
    intros H B. inversion H; subst ch1 w1 idx. clear H.
    destruct (split_index_spec ch i S) as [c0 [N0 [L0 V0]]]. rewrite N in N0. inversion N0; subst c0. clear N0.
    assert (V : is_vol (rep_of c) = false).
    { destruct (is_vol (rep_of c)) eqn:V; [|reflexivity].
      destruct (fixed_cap_pos ch ltac:(lia)) as [j [c' [Nj [Lj Vj]]]].
      rewrite (V0 eq_refl j c' Nj Lj) in Vj. discriminate. }
    rewrite V, orb_false_r in R.
    apply (IH _ _ _ _ _ R).
    rewrite (insert_after_length _ _ _ _ _ N), (fixed_cap_insert ch i c N V L0). lia.
Qed.

(* ... lifted to _check_partial_unroll: ch1 = the entries the splitting loop starts from (after unroll_children when the
   table had to be unrolled first) *)
Lemma check_partial_unroll_keeps_volatile st mn warn st' w' d :
  check_partial_unroll st mn warn = Ok (Some (st', w', d)) ->
  let total := fold_right (fun c acc => cnt c + acc) 0 (kids st) in
  let ch1 := if total <? mn then unrolled st else kids st in
  mn - Z.of_nat (length ch1) <= fixed_cap ch1 ->
  w' = warn.
Proof.
  unfold check_partial_unroll. destruct (is_vol (rep_of st)); [discriminate|].
  cbv zeta. set (total := fold_right (fun c acc => cnt c + acc) 0 (kids st)).
  destruct (mn <=? total * cnt st); [|discriminate].
  destruct (total <? mn) eqn:T.
  - destruct st as [r m w ch]. cbn [kids].
    destruct (split_until (Z.to_nat mn) mn _ warn) as [[[ch2 w2] idx]|] eqn:R; [|discriminate].
    intros H B. inversion H; subst. exact (split_until_keeps_volatile _ _ _ _ _ _ _ R B).
  - destruct (split_until (Z.to_nat mn) mn (kids st) warn) as [[[ch2 w2] idx]|] eqn:R; [|discriminate].
    intros H B. inversion H; subst. exact (split_until_keeps_volatile _ _ _ _ _ _ _ R B).
Qed.

(* the table of seed C15-6: 2 x (3 x a ; n x b), n = 4 volatile, min_seq_len 3 *)
Definition ex_vol4 : rep := Vol (EVar 1%N) (SDict [(1%N, 4)] [1%N]).
Definition ex_split_table : prog :=
  Node (Fixed 2) false None [Node (Fixed 3) false (Some 0%N) []; Node ex_vol4 false (Some 1%N) []].
(* the same table without a fixed repeated entry: (a ; n x b) *)
Definition ex_split_table_vol_only : prog :=
  Node (Fixed 2) false None [Node (Fixed 1) false (Some 0%N) []; Node ex_vol4 false (Some 1%N) []].

Lemma split_example_keeps :
  check_partial_unroll ex_split_table 3 false =
    Ok (Some (Node (Fixed 2) false None
                [Node (Fixed 2) false (Some 0%N) []; Node (Fixed 1) false (Some 0%N) []; Node ex_vol4 false (Some 1%N) []],
              false, DUnroll false [0%nat])) /\
  3 - Z.of_nat (length (kids ex_split_table)) <= fixed_cap (kids ex_split_table).
Proof. split; vm_compute; [reflexivity|discriminate]. Qed.

Lemma split_example_freezes :
  exists st', check_partial_unroll ex_split_table_vol_only 3 false = Ok (Some (st', true, DUnroll false [1%nat])) /\
              forallb (fun c => negb (is_vol (rep_of c))) (kids st') = true /\
              fixed_cap (kids ex_split_table_vol_only) = 0.
Proof. eexists. split; [vm_compute; reflexivity|]. split; reflexivity. Qed.
