(* C15 — repetition counts evaluated in binary64 floating point (definitions only; round 4).
   Brings the 1e-6 tolerance of qupulse.utils.checked_int_cast / is_integer and the rounding of every float operation
   into the model, on exact rationals: a float IS a rational, every IEEE-754 operation is the exact operation followed
   by round-to-nearest-even to 53 significant bits (normal range; no overflow / subnormals in the generated class).
   Mirrors: the lambdified count expression (sympy prints the operation tree as Python source: x/y, x*z/y, 100*x ...),
   RepetitionPulseTemplate.get_repetition_count_value -> checked_int_cast (round, reject when |x - round(x)| > 1e-6),
   VolatileRepetitionCount.__int__ (is_integer: |x - round(x)| < 1e-6 else warning; int(round(x)); clamp at 0), the
   assertion int(repetition_definition) == repetition_count of _internal_create_program.
   fl = true: binary64 (float, numpy.float64); fl = false: exact rationals (TimeType / gmpy2.mpq parameter values). *)
From Coq Require Import ZArith NArith QArith Qround Qabs Bool List.
Require Import QV.C15.Model QV.C15.ModelQ.
Import ListNotations.
Open Scope Q_scope.

Inductive fexpr :=
| FConst (q : Q) | FVar (x : name)
| FAdd (a b : fexpr) | FSub (a b : fexpr) | FMul (a b : fexpr) | FDiv (a b : fexpr).

Definition Qpow2 (e : Z) : Q :=
  match e with
  | Z0 => 1
  | Zpos p => inject_Z (2 ^ Zpos p)
  | Zneg p => 1 # (2 ^ p)%positive
  end.

(* floor (log2 |q|) for q <> 0: with 2^a <= |num| < 2^(a+1) and 2^b <= den < 2^(b+1) it is a-b or a-b-1 *)
Definition ilog2Q (q : Q) : Z :=
  let k := (Z.log2 (Z.abs (Qnum q)) - Z.log2 (Zpos (Qden q)))%Z in
  if Qle_bool (Qpow2 k) (Qabs q) then k else (k - 1)%Z.

(* round to nearest, ties to even, 53 significant bits *)
Definition round53 (q : Q) : Q :=
  if Qeq_bool q 0 then 0 else
  let e := (ilog2Q q - 52)%Z in
  inject_Z (round_half_even (q * Qpow2 (- e))) * Qpow2 e.

(* (values are kept in lowest terms: round53 reads numerator and denominator) *)
Definition rnd (fl : bool) (q : Q) : Q := Qred (if fl then round53 (Qred q) else q).

Fixpoint evalF (fl : bool) (env : name -> option Q) (e : fexpr) : option Q :=
  match e with
  | FConst q => Some q
  | FVar x => env x
  | FAdd a b => match evalF fl env a, evalF fl env b with Some x, Some y => Some (rnd fl (x + y)) | _, _ => None end
  | FSub a b => match evalF fl env a, evalF fl env b with Some x, Some y => Some (rnd fl (x - y)) | _, _ => None end
  | FMul a b => match evalF fl env a, evalF fl env b with Some x, Some y => Some (rnd fl (x * y)) | _, _ => None end
  | FDiv a b => match evalF fl env a, evalF fl env b with
                | Some x, Some y => if Qeq_bool y 0 then None else Some (rnd fl (x / y))
                | _, _ => None
                end
  end.

(* the integer polynomial expressions of Model.v as float expressions *)
Fixpoint fexpr_of (e : expr) : fexpr :=
  match e with
  | EConst z => FConst (inject_Z z)
  | EVar x => FVar x
  | EAdd a b => FAdd (fexpr_of a) (fexpr_of b)
  | ESub a b => FSub (fexpr_of a) (fexpr_of b)
  | EMul a b => FMul (fexpr_of a) (fexpr_of b)
  end.
(* every intermediate value of the integer evaluation is below 2^53 in absolute value *)
Definition small53 (o : option Z) : bool := match o with Some z => (Z.abs z <? 2 ^ 53)%Z | None => true end.
Fixpoint bounded53 (env : name -> option Z) (e : expr) : bool :=
  small53 (eval env e) &&
  match e with
  | EConst _ | EVar _ => true
  | EAdd a b | ESub a b | EMul a b => bounded53 env a && bounded53 env b
  end.

(* the double nearest to 1e-6, exactly *)
Definition EPS : Q := 4722366482869645 # 4722366482869645213696.

(* abs(x - int(round(x))): the subtraction is a float operation as well *)
Definition near_diff (fl : bool) (q : Q) : Q := Qabs (rnd fl (q - inject_Z (round_half_even q))).
Definition Qlt_bool (a b : Q) : bool := negb (Qle_bool b a).

(* qupulse.utils.is_integer *)
Definition is_integer_f (fl : bool) (q : Q) : bool := Qlt_bool (near_diff fl q) EPS.
(* qupulse.utils.checked_int_cast: None = ValueError (-> ParameterNotIntegerException) *)
Definition checked_int_cast_f (fl : bool) (q : Q) : option Z :=
  if Qlt_bool EPS (near_diff fl q) then None else Some (round_half_even q).

(* instantiation: max(0, checked_int_cast(value)) *)
Definition count_fresh_tol (fl : bool) (q : Q) : option Z := option_map (Z.max 0) (checked_int_cast_f fl q).
(* VolatileRepetitionCount.__int__ = ModelQ.count_update (int(round(value)), clamp); its "no integer" warning: *)
Definition update_warns (fl : bool) (q : Q) : bool := negb (is_integer_f fl q).

(* _internal_create_program for a volatile count: None = error (not an integer / the assertion
   int(repetition_definition) == repetition_count fails), Some None = nothing appended (count 0), Some (Some c) *)
Definition inst_volatile (fl : bool) (q : Q) : option (option Z) :=
  match count_fresh_tol fl q with
  | None => None
  | Some c => if (0 <? c)%Z then (if (count_update q =? c)%Z then Some (Some c) else None) else Some None
  end.

(* a variant that is NOT the code: truncation int(value) on the is_integer branch (what rounding protects against) *)
Definition Qtrunc (q : Q) : Z := if Qle_bool 0 q then Qfloor q else Qceiling q.
Definition count_update_trunc (fl : bool) (q : Q) : Z :=
  Z.max 0 (if is_integer_f fl q then Qtrunc q else round_half_even q).
