(* C15 — round 6: clause S4 ("exactly the counts that depend on volatile parameters are marked as changeable ... also
   after the program has been compiled for an instrument").  The parser records exactly the volatile counts of the
   sequence tables it is handed (positions, table cells, markers); in SINGLE sequence mode the recorded positions of the
   compiled cleaned-up program are, per played waveform, exactly the marks of the scope-free specification. *)
From Coq Require Import ZArith NArith Bool List Lia.
Require Import QV.C15.Model QV.C15.Spec QV.C15.Proofs QV.C15.Proofs_upd QV.C15.Proofs_prep QV.C15.Proofs_parse
  QV.C15.Proofs_e2e QV.C15.Proofs_r5.
Import ListNotations.
Open Scope Z_scope.

(* ---- the parser: what is recorded ---- *)
Lemma parse_aseq_inv tabs st :
  parse_aseq 0 tabs st_empty = Ok st -> exists st2, J [] tabs st st2.
Proof.
  intros H.
  destruct (parse_aseq_update_exists [] tabs [] st_empty st_empty st (J_empty []) H) as [st2 H2].
  exists st2. exact (parse_aseq_J [] tabs [] _ _ _ _ (J_empty []) H H2).
Qed.

(* recorded positions = the advanced entries / table entries whose loop has a volatile count, each with the count's
   definition; every table is stored with its counts, and an entry carries the volatile marker iff its count is volatile *)
Lemma parse_aseq_positions tabs st :
  parse_aseq 0 tabs st_empty = Ok st ->
  t_pos st = positions_of 0 tabs /\
  length (t_adv st) = length tabs /\
  (forall p r, In (p, r) (t_pos st) <->
     (exists a tl, p = PAdv a /\ nth_error tabs a = Some tl /\ r = rep_of tl /\ is_vol r = true) \/
     (exists a tl q c, p = PSeqPos a q /\ nth_error tabs a = Some tl /\ nth_error (kids tl) q = Some c /\
                       r = rep_of c /\ is_vol r = true)) /\
  (forall a tl, nth_error tabs a = Some tl ->
     exists k tb, nth_error (t_adv st) a = Some (cnt tl, S k) /\ nth_error (t_tabs st) k = Some tb /\
       length tb = length (kids tl) /\
       forall q c, nth_error (kids tl) q = Some c ->
         exists e, nth_error tb q = Some e /\ te_count e = cnt c /\ vflag e = is_vol (rep_of c)).
Proof.
  intros H. destruct (parse_aseq_inv _ _ H) as [st2 Jv].
  split; [exact (J_pos _ _ _ _ Jv)|]. split; [exact (J_len _ _ _ _ Jv)|]. split.
  - intros p r. rewrite (J_pos _ _ _ _ Jv), positions_of_in. cbn [plus]. reflexivity.
  - intros a tl Ha. destruct (J_ent _ _ _ _ Jv a tl Ha) as [k [k2 [tb [tb2 [E1 [E2 [E3 [E4 D]]]]]]]].
    exists k, tb. repeat split; try assumption.
    + apply (desc_len _ _ _ _ D).
    + intros q c Hq. destruct (desc_nth _ _ _ _ D q c Hq) as [e [e2 [N1 [_ [C1 [_ [_ [F1 _]]]]]]]].
      exists e. repeat split; assumption.
Qed.

(* ---- marks per played waveform of a Tabor state, read from the recorded positions only ---- *)

Lemma tpos_eqb_eq x y : tpos_eqb x y = true <-> x = y.
Proof.
  destruct x as [a|a p], y as [b|b q]; cbn [tpos_eqb]; split; intros H; try discriminate.
  - apply Nat.eqb_eq in H. congruence.
  - inversion H. apply Nat.eqb_refl.
  - apply andb_true_iff in H. destruct H as [H1 H2]. apply Nat.eqb_eq in H1, H2. congruence.
  - inversion H. rewrite !Nat.eqb_refl. reflexivity.
Qed.

Lemma recorded_true (ps : list (tpos * rep)) p : recorded_in (map fst ps) p = true <-> exists r, In (p, r) ps.
Proof.
  unfold recorded_in. rewrite existsb_exists. split.
  - intros [p' [I E]]. apply tpos_eqb_eq in E. subst p'. apply in_map_iff in I. destruct I as [[p0 r] [E I]].
    cbn [fst] in E. subst p0. eauto.
  - intros [r I]. exists p. split; [apply (in_map fst _ _ I)|]. apply tpos_eqb_eq. reflexivity.
Qed.

Lemma bool_iff (a b : bool) : (a = true <-> b = true) -> a = b.
Proof. destruct a, b; intros [H1 H2]; try reflexivity; [symmetry; apply H1|apply H2]; reflexivity. Qed.

Lemma flat_map_seq {A B} (g : A -> list B) : forall (l : list A) (f : nat -> list B) s,
  (forall a x, nth_error l a = Some x -> f (s + a)%nat = g x) -> flat_map f (seq s (length l)) = flat_map g l.
Proof.
  induction l as [|x l IH]; intros f s H; [reflexivity|]. cbn [length seq flat_map]. f_equal.
  - rewrite <- (H O x eq_refl). f_equal. lia.
  - apply IH. intros a y Hy. rewrite <- (H (S a) y Hy). f_equal. lia.
Qed.

Lemma map_seq_nth {A B} (g : A -> B) : forall (l : list A) (f : nat -> B) s,
  (forall a x, nth_error l a = Some x -> f (s + a)%nat = g x) -> map f (seq s (length l)) = map g l.
Proof.
  induction l as [|x l IH]; intros f s H; [reflexivity|]. cbn [length seq map]. f_equal.
  - rewrite <- (H O x eq_refl). f_equal. lia.
  - apply IH. intros a y Hy. rewrite <- (H (S a) y Hy). f_equal. lia.
Qed.

(* the parser step of S4 in one equation: per (advanced entry, table entry), "a count of this waveform is recorded as
   changeable" iff the table's or the waveform's count is volatile *)
Lemma parse_aseq_marks tabs st :
  parse_aseq 0 tabs st_empty = Ok st -> tstate_marks st = tabs_marks tabs.
Proof.
  intros H. destruct (parse_aseq_positions _ _ H) as [_ [L [P T]]].
  unfold tstate_marks, table_marks, tabs_marks. rewrite L. apply flat_map_seq. intros a tl Ha. cbn [plus].
  destruct (T a tl Ha) as [k [tb [E1 [E2 [E3 _]]]]]. rewrite E1, nth_error_map', E2, E3.
  apply map_seq_nth. intros q c Hq. cbn [plus]. f_equal.
  - apply bool_iff. rewrite recorded_true. split.
    + intros [r I]. apply P in I. destruct I as [[a' [tl' [X1 [X2 [X3 X4]]]]]|[a' [tl' [q' [c' [X1 _]]]]]]; [|discriminate].
      inversion X1; subst a'. rewrite Ha in X2. inversion X2; subst tl'. congruence.
    + intros V. exists (rep_of tl). apply P. left. exists a, tl. auto.
  - apply bool_iff. rewrite recorded_true. split.
    + intros [r I]. apply P in I. destruct I as [[a' [tl' [X1 _]]]|[a' [tl' [q' [c' [X1 [X2 [X3 [X4 X5]]]]]]]]]; [discriminate|].
      inversion X1; subst a' q'. rewrite Ha in X2. inversion X2; subst tl'. rewrite Hq in X3. inversion X3; subst c'. congruence.
    + intros V. exists (rep_of c). apply P. right. exists a, tl, q, c. auto.
Qed.

(* ---- SINGLE sequence mode, end to end to the specification ---- *)
Lemma fold_depth_nonneg ch : 0 <= fold_right (fun c acc => Z.max (depth c) acc) 0 ch.
Proof. induction ch as [|c ch IH]; cbn [fold_right]; lia. Qed.

Lemma depth0_kids c : depth c <= 0 -> kids c = [].
Proof.
  destruct c as [r m w [|x xs]]; [reflexivity|]. cbn [depth]. intros H.
  pose proof (fold_depth_nonneg (x :: xs)). lia.
Qed.

Lemma fold_depth_le ch : fold_right (fun c acc => Z.max (depth c) acc) 0 ch <= 0 -> forall c, In c ch -> depth c <= 0.
Proof.
  induction ch as [|x ch IH]; intros H c I; [destruct I|]. cbn [fold_right] in H. destruct I as [->|I]; [lia|].
  apply IH; [lia|exact I].
Qed.

Lemma depth1_kids t : depth t = 1 -> forall c, In c (kids t) -> depth c <= 0.
Proof.
  destruct t as [r m w [|x xs]]; [intros _ c []|]. cbn [depth kids]. intros H. apply fold_depth_le. lia.
Qed.

Lemma leaves_marks b : forall ch a pos wfs x,
  parse_entries a pos ch wfs = Ok x -> (forall c, In c ch -> depth c <= 0) ->
  flat_map (leafmarks b) ch = map (fun c => b || is_vol (rep_of c)) ch.
Proof.
  induction ch as [|c ch IH]; intros a pos wfs x H D; [reflexivity|].
  assert (K : kids c = []) by (apply depth0_kids, D; left; reflexivity).
  destruct c as [r m w kk]. cbn [kids] in K. subst kk. cbn [parse_entries] in H.
  destruct w as [wid|]; [|discriminate].
  destruct (match index_of N.eqb wid wfs with Some k => (wfs, k) | None => (wfs ++ [wid], length wfs) end)
    as [wfs1 wi].
  destruct (parse_entries a (S pos) ch wfs1) as [y|] eqn:Er; [|discriminate].
  cbn [flat_map map leafmarks rep_of app]. f_equal. eapply IH; [exact Er|]. intros c0 I. apply D. right. exact I.
Qed.

Lemma tstate_marks_set_single st : tstate_marks (set_single st) = tstate_marks st.
Proof. reflexivity. Qed.

(* S4 for SINGLE mode: a template instantiated (any nesting / mappings / volatile subset), cleaned up and compiled in
   SINGLE sequence mode: for every played waveform, "its count is recorded as changeable in the tables" is exactly what
   the scope-free specification says about the counts enclosing that waveform *)
Lemma tabor_single_marks p vals V t so (cl : bool) f mn mx st w tr :
  create_program p vals V = Ok (Some t) -> spec_program p vals V = Some (Some so) ->
  tabor_compile f (Some MSingle) mn mx (if cl then cleanup t else t) = Ok (st, w, tr) ->
  tstate_marks st = oleafmarks false so.
Proof.
  intros HC HS H.
  assert (L0 : leafmarks false (if cl then cleanup t else t) = oleafmarks false so).
  { destruct cl.
    - rewrite <- (cleanup_marks_meet_spec _ _ _ _ _ HC HS), oleafmarks_obs. reflexivity.
    - rewrite <- create_program_meets_spec, HC in HS. inversion HS; subst so. rewrite oleafmarks_obs. reflexivity. }
  rewrite <- L0. clear L0 HC HS. set (tc := if cl then cleanup t else t) in *. clearbody tc.
  revert H. unfold tabor_compile. destruct (negb (counts_ok tc)); [discriminate|].
  pose proof (t1_not_vol tc) as NV.
  assert (LM : leafmarks false (if root_enc tc then encapsulate tc else tc)
               = leafmarks false tc).
  { destruct (root_enc tc); [|reflexivity]. unfold encapsulate. cbn [leafmarks flat_map is_vol orb].
    apply app_nil_r. }
  set (t1 := if root_enc tc then encapsulate tc else tc) in *.
  destruct ((depth t1 =? 1) && balanced t1) eqn:DB; [|discriminate].
  destruct (mx <? len t1); [discriminate|].
  destruct (parse_single t1) as [s1|] eqn:PS; [|discriminate]. intros X. inversion X; subst s1 w tr. clear X.
  apply andb_true_iff in DB. destruct DB as [D1 _]. apply Z.eqb_eq in D1.
  rewrite <- LM.
  assert (PE : exists x, parse_entries 0 0 (kids t1) [] = Ok x).
  { unfold parse_single in PS. destruct (parse_entries 0 0 (kids t1) []) as [x|]; [eauto|discriminate]. }
  destruct PE as [x PE].
  rewrite (parse_single_as_aseq _ NV) in PS.
  destruct (parse_aseq 0 [t1] st_empty) as [sa|] eqn:PA; [|discriminate]. inversion PS; subst st.
  rewrite tstate_marks_set_single, (parse_aseq_marks _ _ PA).
  unfold tabs_marks. cbn [flat_map]. rewrite app_nil_r, NV.
  destruct t1 as [r1 m1 w1 ch1]. cbn [kids rep_of] in *. rewrite leafmarks_unfold, NV.
  destruct ch1 as [|c1 ch1]; [cbn in D1; discriminate|].
  symmetry. eapply leaves_marks; [exact PE|]. apply (depth1_kids (Node r1 m1 w1 (c1 :: ch1)) D1).
Qed.

(* advanced sequence mode: the recorded positions are exactly the volatile counts of the tables the preparation
   produced (whether the preparation kept the marks of the specification is C15_flatten_commutes /
   C15_prepare_commutes territory: no VolatileModificationWarning) *)
Lemma tabor_advanced_marks f mn mx t st w tr :
  tabor_compile f (Some MAdvanced) mn mx t = Ok (st, w, tr) ->
  exists tabs tr', adv_tables f mn mx (if root_enc t then encapsulate t else t) = Ok (tabs, w, tr') /\
                   t_pos st = positions_of 0 tabs /\ tstate_marks st = tabs_marks tabs.
Proof.
  unfold tabor_compile. destruct (negb (counts_ok t)); [discriminate|].
  set (t1 := if root_enc t then encapsulate t else t).
  destruct ((1 <? depth t1) && (cnt t1 =? 1)); [|discriminate].
  destruct (adv_tables f mn mx t1) as [[[tabs w2] tr']|] eqn:A; [|discriminate].
  destruct (forallb (fun tl => (mn <=? len tl) && (len tl <=? mx)) tabs); [|discriminate].
  destruct (parse_aseq 0 tabs (mkT [] [] [] [] false)) as [sa|] eqn:PA; [|discriminate].
  intros X. inversion X; subst sa w2 tr. exists tabs, tr'. split; [reflexivity|].
  change (mkT [] [] [] [] false) with st_empty in PA.
  split; [apply (parse_aseq_positions _ _ PA)|apply (parse_aseq_marks _ _ PA)].
Qed.

(* non-vacuity: SequencePT(n x a, b, (n+1) x a), n volatile, SINGLE mode: two recorded positions, marks 1 0 1, and they
   are the marks of the specification *)
Lemma tabor_single_marks_example : exists t st w tr so,
  create_program single_pt [(1%N, 2)] [1%N] = Ok (Some t) /\
  spec_program single_pt [(1%N, 2)] [1%N] = Some (Some so) /\
  tabor_compile 100 (Some MSingle) 1 8 (cleanup t) = Ok (st, w, tr) /\
  length (t_pos st) = 2%nat /\ tstate_marks st = [true; false; true] /\ oleafmarks false so = [true; false; true].
Proof.
  eexists. eexists. eexists. eexists. eexists.
  split; [vm_compute; reflexivity|]. split; [vm_compute; reflexivity|]. split; [vm_compute; reflexivity|].
  repeat split; vm_compute; reflexivity.
Qed.

(* advanced mode example: a shared sequencer table (coherent_pt), recorded positions per advanced entry *)
Lemma tabor_advanced_marks_example : exists t st w tr,
  create_program coherent_pt [(1%N, 1)] [1%N] = Ok (Some t) /\
  tabor_compile 100 (Some MAdvanced) 1 8 t = Ok (st, w, tr) /\ t_pos st <> [] /\ existsb (fun b => b) (tstate_marks st) = true /\
  existsb negb (tstate_marks st) = true.
Proof.
  eexists. eexists. eexists. eexists.
  split; [vm_compute; reflexivity|]. split; [vm_compute; reflexivity|].
  split; [vm_compute; discriminate|]. split; vm_compute; reflexivity.
Qed.

(* ------------------------------------------------------------------------------------------------------------ *)
(* Q3 for Tabor: every SEQUENCE of updates (SINGLE sequence mode, unconditionally) *)
Definition obs_tabs (tabs : list (list tent)) := map (map tent_obs) tabs.

(* update_volatile_parameters reads of the tables only what is observable (counts, waveform indices, marker flags) *)
Lemma update_positions_respects us : forall ps adv tabs1 tabs2,
  obs_tabs tabs1 = obs_tabs tabs2 ->
  fst (fst (update_positions us ps adv tabs1)) = fst (fst (update_positions us ps adv tabs2)) /\
  obs_tabs (snd (fst (update_positions us ps adv tabs1))) = obs_tabs (snd (fst (update_positions us ps adv tabs2))) /\
  snd (update_positions us ps adv tabs1) = snd (update_positions us ps adv tabs2).
Proof.
  induction ps as [|[p r] rest IH]; intros adv tabs1 tabs2 R; [cbn; auto|].
  cbn [update_positions]. set (nv := match int_of_rep (upd_rep us r) with Some v => v | None => -1 end).
  destruct p as [a|a q].
  - destruct (nth_error adv a) as [[old el]|]; [|apply IH; exact R].
    destruct (nv =? old); [apply IH; exact R|].
    specialize (IH (replace_nth a (nv, el) adv) tabs1 tabs2 R).
    destruct (update_positions us rest (replace_nth a (nv, el) adv) tabs1) as [[a1 t1] m1].
    destruct (update_positions us rest (replace_nth a (nv, el) adv) tabs2) as [[a2 t2] m2].
    cbn [fst snd] in *. destruct IH as [A [B C]]. repeat split; congruence.
  - destruct (nth_error adv a) as [[old el]|]; [|apply IH; exact R].
    assert (N : nth_error (obs_tabs tabs1) (pred el) = nth_error (obs_tabs tabs2) (pred el)) by (rewrite R; reflexivity).
    unfold obs_tabs in N. rewrite !nth_error_map' in N.
    destruct (nth_error tabs1 (pred el)) as [tb1|], (nth_error tabs2 (pred el)) as [tb2|]; try discriminate;
      [|apply IH; exact R].
    assert (T : map tent_obs tb1 = map tent_obs tb2) by congruence. clear N.
    assert (N : nth_error (map tent_obs tb1) q = nth_error (map tent_obs tb2) q) by (rewrite T; reflexivity).
    rewrite !nth_error_map' in N.
    destruct (nth_error tb1 q) as [e1|], (nth_error tb2 q) as [e2|]; try discriminate; [|apply IH; exact R].
    assert (O : tent_obs e1 = tent_obs e2) by congruence. clear N.
    unfold tent_obs in O. injection O as O1 O2 O3. rewrite O1.
    destruct (nv =? te_count e2); [apply IH; exact R|].
    assert (R' : obs_tabs (replace_nth (pred el) (replace_nth q (mkTent nv (te_wf e1) (te_vol e1)) tb1) tabs1) =
                 obs_tabs (replace_nth (pred el) (replace_nth q (mkTent nv (te_wf e2) (te_vol e2)) tb2) tabs2)).
    { unfold obs_tabs. rewrite !map_replace_nth. fold (obs_tabs tabs1). fold (obs_tabs tabs2). rewrite R, T.
      unfold tent_obs at 1 3. cbn [te_count te_wf te_vol]. rewrite O2, O3. reflexivity. }
    specialize (IH adv _ _ R').
    destruct (update_positions us rest adv
                (replace_nth (pred el) (replace_nth q (mkTent nv (te_wf e1) (te_vol e1)) tb1) tabs1)) as [[a1 t1] m1].
    destruct (update_positions us rest adv
                (replace_nth (pred el) (replace_nth q (mkTent nv (te_wf e2) (te_vol e2)) tb2) tabs2)) as [[a2 t2] m2].
    cbn [fst snd] in *. destruct IH as [A [B C]]. repeat split; congruence.
Qed.

Lemma update_tabor_respects us s1 s2 :
  same_obs s1 s2 -> same_obs (fst (update_tabor us s1)) (fst (update_tabor us s2)) /\
                    snd (update_tabor us s1) = snd (update_tabor us s2).
Proof.
  intros [V P]. unfold tab_view in V. inversion V as [[V1 V2 V3 V4]].
  unfold update_tabor. rewrite P, V1.
  destruct (update_positions_respects us (t_pos s2) (t_adv s2) (t_tabs s1) (t_tabs s2) V2) as [A [B C]].
  destruct (update_positions us (t_pos s2) (t_adv s2) (t_tabs s1)) as [[a1 t1] m1].
  destruct (update_positions us (t_pos s2) (t_adv s2) (t_tabs s2)) as [[a2 t2] m2].
  cbn [fst snd] in *. subst a2 m2. split; [|reflexivity]. split; [|reflexivity].
  unfold tab_view. cbn [t_adv t_tabs t_wfs t_pos]. fold (obs_tabs t1). fold (obs_tabs t2). rewrite B, V3. reflexivity.
Qed.

Lemma update_tabor_all_respects : forall ups s1 s2,
  same_obs s1 s2 -> same_obs (update_tabor_all ups s1) (update_tabor_all ups s2).
Proof.
  induction ups as [|us ups IH]; intros s1 s2 S; [exact S|].
  change (update_tabor_all (us :: ups) s1) with (update_tabor_all ups (fst (update_tabor us s1))).
  change (update_tabor_all (us :: ups) s2) with (update_tabor_all ups (fst (update_tabor us s2))).
  apply IH. apply update_tabor_respects. exact S.
Qed.

(* the recorded positions of the compiled updated program are the updated recorded positions (SINGLE mode) *)
Lemma tabor_single_update_pos us f mn mx t st w tr :
  tabor_compile f (Some MSingle) mn mx t = Ok (st, w, tr) ->
  counts_ok (update us t) = true ->
  exists st2, tabor_compile f (Some MSingle) mn mx (update us t) = Ok (st2, false, tr) /\
              same_obs (fst (update_tabor us st)) st2.
Proof.
  intros H C. destruct (update_tabor us st) as [st' ms] eqn:U.
  destruct (tabor_single_update us f mn mx t st w tr st' ms H C U) as [st2 [H2 [V _]]].
  exists st2. split; [exact H2|]. split; [exact V|]. cbn [fst].
  assert (P' : t_pos st' = map (updp us) (t_pos st)).
  { unfold update_tabor in U. destruct (update_positions us (t_pos st) (t_adv st) (t_tabs st)) as [[a1 t1] m1].
    inversion U; subst. reflexivity. }
  rewrite P'. clear U V P' st' ms.
  revert H H2. unfold tabor_compile. rewrite C. cbn [negb].
  destruct (negb (counts_ok t)); [discriminate|].
  rewrite (root_enc_update us t (root_enc_update_eq us t)), root_enc_update_eq.
  set (t1 := if root_enc t then encapsulate t else t) in *.
  assert (V1 : is_vol (rep_of t1) = false) by apply t1_not_vol.
  rewrite depth_update, balanced_update, len_update.
  destruct ((depth t1 =? 1) && balanced t1); [|discriminate]. destruct (mx <? len t1); [discriminate|].
  rewrite parse_single_as_aseq by exact V1.
  rewrite parse_single_as_aseq by (rewrite is_vol_update; exact V1).
  destruct (parse_aseq 0 [t1] st_empty) as [sa|] eqn:P1; [|discriminate].
  destruct (parse_aseq 0 [update us t1] st_empty) as [sa2|] eqn:P2; [|discriminate].
  intros X Y. inversion X; inversion Y; subst. cbn [set_single t_pos].
  pose proof (parse_aseq_J us [t1] [] _ _ _ _ (J_empty us) P1 P2) as Jv. cbn [app] in Jv.
  rewrite (J_pos _ _ _ _ Jv), (J_pos2 _ _ _ _ Jv). reflexivity.
Qed.

(* SINGLE sequence mode, every sequence of updates, no hypothesis on decisions, sharing or warnings (counts_ok: the
   model's bound on counts, for every intermediate program): the tables after the whole sequence of
   update_volatile_parameters calls ARE the tables of a fresh compilation of the program updated by the sequence *)
Lemma tabor_single_update_sequence f mn mx : forall ups t st w tr,
  tabor_compile f (Some MSingle) mn mx t = Ok (st, w, tr) ->
  (forall k, counts_ok (update_all (firstn k ups) t) = true) ->
  exists st2, tabor_compile f (Some MSingle) mn mx (update_all ups t) = Ok (st2, w, tr) /\
              same_obs (update_tabor_all ups st) st2.
Proof.
  induction ups as [|us ups IH]; intros t st w tr H C.
  - exists st. split; [exact H|]. split; reflexivity.
  - assert (W : w = false).
    { destruct (update_tabor us st) as [st' ms] eqn:U.
      destruct (tabor_single_update us f mn mx t st w tr st' ms H (C 1%nat) U) as [_ [_ [_ W]]]. exact W. }
    subst w.
    destruct (tabor_single_update_pos us f mn mx t st false tr H (C 1%nat)) as [sa [Ha Sa]].
    destruct (IH (update us t) sa false tr Ha) as [st2 [H2 S2]].
    { intros k. exact (C (S k)). }
    exists st2. split; [exact H2|].
    change (update_tabor_all (us :: ups) st) with (update_tabor_all ups (fst (update_tabor us st))).
    destruct (update_tabor_all_respects ups _ _ Sa) as [A B]. destruct S2 as [A2 B2].
    split; congruence.
Qed.

Lemma tabor_single_sequence_example : exists t st w tr st2,
  create_program single_pt [(1%N, 2)] [1%N] = Ok (Some t) /\
  tabor_compile 100 (Some MSingle) 1 8 (cleanup t) = Ok (st, w, tr) /\
  (forall k, counts_ok (update_all (firstn k [[(1%N, 0)]; [(1%N, 3)]]) (cleanup t)) = true) /\
  tabor_compile 100 (Some MSingle) 1 8 (update_all [[(1%N, 0)]; [(1%N, 3)]] (cleanup t)) = Ok (st2, w, tr) /\
  tab_view (update_tabor_all [[(1%N, 0)]; [(1%N, 3)]] st) = tab_view st2 /\ tab_view st2 <> tab_view st.
Proof.
  eexists. eexists. eexists. eexists. eexists.
  split; [vm_compute; reflexivity|]. split; [vm_compute; reflexivity|].
  split; [intros [|[|[|k]]]; vm_compute; reflexivity|].
  split; [vm_compute; reflexivity|]. split; [vm_compute; reflexivity|]. vm_compute; discriminate.
Qed.
