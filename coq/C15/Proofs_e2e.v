(* C15 — Tabor end to end: TaborProgram(updated program) vs. update_volatile_parameters on TaborProgram(program). *)
From Coq Require Import ZArith NArith Bool List Lia.
Require Import QV.C15.Model QV.C15.Spec QV.C15.Proofs QV.C15.Proofs_upd QV.C15.Proofs_prep QV.C15.Proofs_parse.
Import ListNotations.
Open Scope Z_scope.

Definition set_single (st : tstate) : tstate := mkT (t_adv st) (t_tabs st) (t_wfs st) (t_pos st) true.

Lemma parse_single_as_aseq t : is_vol (rep_of t) = false ->
  parse_single t = match parse_aseq 0 [t] st_empty with Ok st => Ok (set_single st) | Err k => Err k end.
Proof.
  intros V. unfold parse_single. cbn [parse_aseq st_empty t_wfs t_tabs t_adv t_pos].
  destruct (parse_entries 0 0 (kids t) []) as [[[es wfs'] ps]|]; [|reflexivity].
  cbn [index_of]. rewrite V. unfold set_single. cbn. rewrite app_nil_r. reflexivity.
Qed.

Lemma update_tabor_set_single us st :
  update_tabor us (set_single st) = (set_single (fst (update_tabor us st)), snd (update_tabor us st)).
Proof.
  unfold update_tabor, set_single. cbn [t_adv t_tabs t_wfs t_pos t_single].
  destruct (update_positions us (t_pos st) (t_adv st) (t_tabs st)) as [[a b] c]. reflexivity.
Qed.

Lemma tab_view_set_single st : tab_view (set_single st) = tab_view st.
Proof. reflexivity. Qed.

Lemma t1_not_vol t : is_vol (rep_of (if root_enc t then encapsulate t else t)) = false.
Proof.
  destruct (root_enc t) eqn:E; [reflexivity|]. unfold root_enc in E.
  apply orb_false_iff in E. destruct E as [E _]. apply orb_false_iff in E. tauto.
Qed.

Lemma tabor_compile_update us f mode mn mx t st tr st2 w2 st' ms :
  tabor_compile f mode mn mx t = Ok (st, false, tr) ->
  tabor_compile f mode mn mx (update us t) = Ok (st2, w2, tr) ->
  map snd (t_adv st2) = map snd (t_adv st) ->
  update_tabor us st = (st', ms) ->
  tab_view st' = tab_view st2 /\ w2 = false /\ guard_C15_shared_table us st = true.
Proof.
  unfold tabor_compile. intros H1 H2 Hs Hu.
  destruct (negb (counts_ok t)); [discriminate|]. destruct (negb (counts_ok (update us t))); [discriminate|].
  assert (RE : root_enc (update us t) = root_enc t).
  { destruct (match mode with Some m => m | None => if 1 <? depth (if root_enc t then encapsulate t else t) then MAdvanced else MSingle end);
    destruct (match mode with Some m => m | None => if 1 <? depth (if root_enc (update us t) then encapsulate (update us t) else update us t) then MAdvanced else MSingle end);
    repeat match type of H1 with
           | (if ?c then _ else _) = _ => destruct c; try discriminate
           | match ?x with Ok _ => _ | Err _ => _ end = _ => destruct x as [[[? ?] ?]|?]; try discriminate
           | match ?x with Ok _ => _ | Err _ => _ end = _ => destruct x as [?|?]; try discriminate
           end;
    repeat match type of H2 with
           | (if ?c then _ else _) = _ => destruct c; try discriminate
           | match ?x with Ok _ => _ | Err _ => _ end = _ => destruct x as [[[? ?] ?]|?]; try discriminate
           | match ?x with Ok _ => _ | Err _ => _ end = _ => destruct x as [?|?]; try discriminate
           end;
    inversion H1; inversion H2; subst; congruence. }
  rewrite (root_enc_update us t RE), RE in H2.
  set (t1 := if root_enc t then encapsulate t else t) in *.
  assert (V1 : is_vol (rep_of t1) = false) by apply t1_not_vol.
  rewrite depth_update in H2.
  destruct (match mode with Some m => m | None => if 1 <? depth t1 then MAdvanced else MSingle end).
  - (* single sequence mode *)
    rewrite balanced_update, len_update in H2.
    destruct ((depth t1 =? 1) && balanced t1); [|discriminate]. destruct (mx <? len t1); [discriminate|].
    rewrite parse_single_as_aseq in H1 by exact V1.
    rewrite parse_single_as_aseq in H2 by (rewrite is_vol_update; exact V1).
    destruct (parse_aseq 0 [t1] st_empty) as [sa|] eqn:P1; [|discriminate].
    destruct (parse_aseq 0 [update us t1] st_empty) as [sa2|] eqn:P2; [|discriminate].
    inversion H1; subst st tr. inversion H2; subst st2 w2. clear H1 H2.
    rewrite update_tabor_set_single in Hu. inversion Hu; subst st' ms.
    destruct (update_tabor us sa) as [sa' ms'] eqn:U. cbn [fst snd].
    destruct (tabor_recompile us [t1] sa sa2 sa' ms' P1 P2 Hs U) as [A B].
    repeat split; [rewrite !tab_view_set_single; exact A|exact B].
  - (* advanced sequence mode *)
    destruct ((1 <? depth t1) && (cnt t1 =? 1)); [|discriminate].
    destruct ((1 <? depth t1) && (cnt (update us t1) =? 1)); [|discriminate].
    destruct (adv_tables f mn mx t1) as [[[tabs wa] tra]|] eqn:A1; [|discriminate].
    destruct (adv_tables f mn mx (update us t1)) as [[[tabs2 wa2] tra2]|] eqn:A2; [|discriminate].
    destruct (forallb (fun tl => (mn <=? len tl) && (len tl <=? mx)) tabs); [|discriminate].
    destruct (forallb (fun tl => (mn <=? len tl) && (len tl <=? mx)) tabs2); [|discriminate].
    destruct (parse_aseq 0 tabs (mkT [] [] [] [] false)) as [sa|] eqn:P1; [|discriminate].
    destruct (parse_aseq 0 tabs2 (mkT [] [] [] [] false)) as [sa2|] eqn:P2; [|discriminate].
    inversion H1; subst sa wa tr. inversion H2; subst sa2 wa2. clear H1 H2.
    subst tra2.
    destruct (adv_tables_update us _ _ _ _ _ _ _ _ A1 A2) as [-> ->].
    destruct (tabor_recompile us tabs st st2 st' ms P1 P2 Hs Hu) as [A B].
    repeat split; assumption.
Qed.

(* non-vacuity: a compiled program whose sequencer tables are shared; the update changes table entries and the fresh
   compilation of the updated program takes the same decisions and shares the same tables *)
Lemma tabor_compile_update_nonvacuous : exists t us st tr st2 st' ms,
  create_program coherent_pt [(1%N, 1)] [1%N] = Ok (Some t) /\
  tabor_compile 100 None 1 8 t = Ok (st, false, tr) /\
  tabor_compile 100 None 1 8 (update us t) = Ok (st2, false, tr) /\
  map snd (t_adv st2) = map snd (t_adv st) /\ update_tabor us st = (st', ms) /\ ms <> [] /\
  cells_distinct (t_adv st) (t_pos st) = false.
Proof.
  destruct (create_program coherent_pt [(1%N, 1)] [1%N]) as [[t|]|] eqn:E; try (vm_compute in E; discriminate).
  exists t, [(1%N, 3)].
  destruct (tabor_compile 100 None 1 8 t) as [[[st w] tr]|] eqn:C1; [|vm_compute in E; inversion E; subst; vm_compute in C1; discriminate].
  destruct (tabor_compile 100 None 1 8 (update [(1%N, 3)] t)) as [[[st2 w2] tr2]|] eqn:C2;
    [|vm_compute in E; inversion E; subst; vm_compute in C2; discriminate].
  destruct (update_tabor [(1%N, 3)] st) as [st' ms] eqn:U.
  exists st, tr, st2, st', ms.
  vm_compute in E. inversion E; subst t. vm_compute in C1. inversion C1; subst st w tr.
  vm_compute in C2. inversion C2; subst st2 w2 tr2. vm_compute in U. inversion U; subst st' ms.
  repeat split; try reflexivity. discriminate.
Qed.

(* the equal-sharing hypothesis cannot be dropped: the witness of the known finding C15-tabor-shared-volatile-table
   (same decisions, no warning, but the fresh compilation separates the two tables) *)
Lemma tabor_compile_update_needs_sharing : exists t us st tr st2 st' ms,
  create_program shared_pt [(1%N, 1)] [1%N] = Ok (Some t) /\
  tabor_compile 100 None 1 8 t = Ok (st, false, tr) /\
  tabor_compile 100 None 1 8 (update us t) = Ok (st2, false, tr) /\
  update_tabor us st = (st', ms) /\
  map snd (t_adv st2) <> map snd (t_adv st) /\ tab_view st' <> tab_view st2.
Proof.
  destruct (create_program shared_pt [(1%N, 1)] [1%N]) as [[t|]|] eqn:E; try (vm_compute in E; discriminate).
  exists t, [(1%N, 2)].
  destruct (tabor_compile 100 None 1 8 t) as [[[st w] tr]|] eqn:C1; [|vm_compute in E; inversion E; subst; vm_compute in C1; discriminate].
  destruct (tabor_compile 100 None 1 8 (update [(1%N, 2)] t)) as [[[st2 w2] tr2]|] eqn:C2;
    [|vm_compute in E; inversion E; subst; vm_compute in C2; discriminate].
  destruct (update_tabor [(1%N, 2)] st) as [st' ms] eqn:U.
  exists st, tr, st2, st', ms.
  vm_compute in E. inversion E; subst t. vm_compute in C1. inversion C1; subst st w tr.
  vm_compute in C2. inversion C2; subst st2 w2 tr2. vm_compute in U. inversion U; subst st' ms.
  repeat split; try reflexivity; vm_compute; discriminate.
Qed.

(* ------------------------------------------------------------------------------------------------------------ *)
(* an input-level sufficient condition for equal decision lists: if every sequence table handed to
   prepare_program_for_advanced_sequence_mode already has a valid length, the preparation takes no count-dependent
   decision at all (all DSkip), for the program and for every update of it *)
Definition long_enough (mn mx : Z) (tabs : list prog) : bool :=
  forallb (fun tl => (mn <=? len tl) && (len tl <=? mx)) tabs.

Lemma prepare_all_long mn mx tabs : long_enough mn mx tabs = true ->
  forall n f i w, (length tabs - i)%nat = n -> (n < f)%nat ->
  prepare f mn mx i tabs w = Ok (tabs, w, repeat DSkip n).
Proof.
  intros L. induction n as [|n IH]; intros f i w Hn Hf; (destruct f as [|f]; [lia|]); cbn [prepare].
  - assert (E : nth_error tabs i = None) by (apply nth_error_None; lia). rewrite E. reflexivity.
  - destruct (nth_error tabs i) as [ti|] eqn:E.
    2:{ apply nth_error_None in E. lia. }
    unfold long_enough in L. rewrite forallb_forall in L. pose proof (L ti (nth_error_In _ _ E)) as Lt.
    apply andb_true_iff in Lt. destruct Lt as [L1 L2].
    assert (X1 : (mx <? len ti) = false) by (apply Z.ltb_ge; apply Z.leb_le; exact L2).
    assert (X2 : (len ti <? mn) = false) by (apply Z.ltb_ge; apply Z.leb_le; exact L1).
    rewrite X1, X2. rewrite (IH f (S i) w) by lia. reflexivity.
Qed.

Lemma long_enough_update us mn mx tabs : long_enough mn mx (map (update us) tabs) = long_enough mn mx tabs.
Proof.
  unfold long_enough. induction tabs as [|t tabs IH]; [reflexivity|]. cbn. rewrite IH, len_update. reflexivity.
Qed.

Lemma prepare_long_decisions us f mn mx tabs :
  long_enough mn mx tabs = true -> (length tabs < f)%nat ->
  prepare f mn mx 0 tabs false = Ok (tabs, false, repeat DSkip (length tabs)) /\
  prepare f mn mx 0 (map (update us) tabs) false = Ok (map (update us) tabs, false, repeat DSkip (length tabs)).
Proof.
  intros L F. split.
  - apply prepare_all_long; [exact L|lia|exact F].
  - pose proof (prepare_all_long mn mx (map (update us) tabs)) as P. rewrite long_enough_update in P.
    specialize (P L (length tabs) f O false). rewrite map_length in P. apply P; [lia|exact F].
Qed.

(* ------------------------------------------------------------------------------------------------------------ *)
(* single sequence mode: no decision depends on a count that an update can change, and there is one table only;
   updating = recompiling without any hypothesis on decisions or sharing *)
Lemma root_enc_update_eq us t : root_enc (update us t) = root_enc t.
Proof.
  unfold root_enc. rewrite depth_update, is_vol_update.
  destruct (is_vol (rep_of t)) eqn:V; [rewrite !orb_true_r; reflexivity|].
  rewrite (cnt_update_fixed us t V). reflexivity.
Qed.

Lemma parse_aseq_single_update us t1 sa :
  parse_aseq 0 [t1] st_empty = Ok sa ->
  exists sa2, parse_aseq 0 [update us t1] st_empty = Ok sa2 /\ map snd (t_adv sa2) = map snd (t_adv sa).
Proof.
  rewrite !parse_aseq_unfold. cbn [t_wfs st_empty].
  destruct (parse_entries 0 0 (kids t1) []) as [[[es wfs'] ps]|] eqn:E; [|discriminate].
  destruct (parse_entries_update us _ _ _ _ _ _ _ E) as [es2 [R2 _]].
  rewrite Proofs_parse.kids_update, R2. cbn [parse_aseq]. intros H. inversion H; subst sa.
  eexists. split; [reflexivity|]. reflexivity.
Qed.

Lemma tabor_single_update us f mn mx t st w tr st' ms :
  tabor_compile f (Some MSingle) mn mx t = Ok (st, w, tr) ->
  counts_ok (update us t) = true ->
  update_tabor us st = (st', ms) ->
  exists st2, tabor_compile f (Some MSingle) mn mx (update us t) = Ok (st2, false, tr) /\
              tab_view st' = tab_view st2 /\ w = false.
Proof.
  unfold tabor_compile. intros H1 C Hu. rewrite C. cbn [negb].
  destruct (negb (counts_ok t)); [discriminate|].
  rewrite (root_enc_update us t (root_enc_update_eq us t)), root_enc_update_eq.
  set (t1 := if root_enc t then encapsulate t else t) in *.
  assert (V1 : is_vol (rep_of t1) = false) by apply t1_not_vol.
  rewrite depth_update, balanced_update, len_update.
  destruct ((depth t1 =? 1) && balanced t1); [|discriminate]. destruct (mx <? len t1); [discriminate|].
  rewrite parse_single_as_aseq in H1 by exact V1.
  rewrite parse_single_as_aseq by (rewrite is_vol_update; exact V1).
  destruct (parse_aseq 0 [t1] st_empty) as [sa|] eqn:P1; [|discriminate].
  destruct (parse_aseq_single_update us t1 sa P1) as [sa2 [P2 Hs]]. rewrite P2.
  inversion H1; subst st w tr. clear H1.
  rewrite update_tabor_set_single in Hu. inversion Hu; subst st' ms.
  destruct (update_tabor us sa) as [sa' ms'] eqn:U. cbn [fst snd].
  destruct (tabor_recompile us [t1] sa sa2 sa' ms' P1 P2 Hs U) as [A _].
  exists (set_single sa2). repeat split. rewrite !tab_view_set_single. exact A.
Qed.

Definition single_pt : pt := PSeq [PRep (EVar 1%N) false (PAtom 0%N); PAtom 1%N; PRep (EAdd (EVar 1%N) (EConst 1)) false (PAtom 0%N)].
Lemma tabor_single_update_nonvacuous : exists t st w tr st' ms,
  create_program single_pt [(1%N, 2)] [1%N] = Ok (Some t) /\
  tabor_compile 100 (Some MSingle) 1 8 (cleanup t) = Ok (st, w, tr) /\
  counts_ok (update [(1%N, 0)] (cleanup t)) = true /\
  update_tabor [(1%N, 0)] st = (st', ms) /\ length ms = 2%nat.
Proof.
  destruct (create_program single_pt [(1%N, 2)] [1%N]) as [[t|]|] eqn:E; try (vm_compute in E; discriminate).
  exists t.
  destruct (tabor_compile 100 (Some MSingle) 1 8 (cleanup t)) as [[[st w] tr]|] eqn:C1;
    [|vm_compute in E; inversion E; subst; vm_compute in C1; discriminate].
  destruct (update_tabor [(1%N, 0)] st) as [st' ms] eqn:U. exists st, w, tr, st', ms.
  vm_compute in E. inversion E; subst t. vm_compute in C1. inversion C1; subst st w tr.
  vm_compute in U. inversion U; subst st' ms. repeat split; reflexivity.
Qed.

(* ------------------------------------------------------------------------------------------------------------ *)
(* a sufficient condition that is visible in the FIRST compilation alone: it took only DSkip decisions (every
   sequence table had a valid length).  Then the compilation of every updated program exists, takes the same
   decisions and raises no warning; only the table sharing of the parser remains a hypothesis. *)
Definition is_skip (d : dec) : bool := match d with DSkip => true | _ => false end.

Lemma prepare_skip_update us mn mx : forall f i tabs w tabs' w' tr,
  prepare f mn mx i tabs w = Ok (tabs', w', tr) -> forallb is_skip tr = true ->
  prepare f mn mx i (map (update us) tabs) w = Ok (map (update us) tabs, w, tr) /\ tabs' = tabs /\ w' = w.
Proof.
  induction f as [|f IH]; intros i tabs w tabs' w' tr H S; [discriminate|].
  cbn [prepare] in H |- *. rewrite nth_error_map'.
  destruct (nth_error tabs i) as [ti|] eqn:Ei; cbn [option_map].
  2:{ inversion H; subst. repeat split. }
  rewrite len_update.
  destruct (mx <? len ti); [discriminate|].
  destruct (len ti <? mn).
  - exfalso.
    repeat match goal with
           | H : push ?d _ = Ok _ |- _ =>
               apply push_inv in H; destruct H as [? [_ ->]]; cbn in S; try discriminate
           | C : check_partial_unroll _ _ _ = Ok (Some (_, _, ?d)), S : context [is_skip ?d] |- _ =>
               destruct (cpu_dec _ _ _ _ _ _ C) as [? [? ->]]; cbn in S; discriminate
           | H : match ?x with _ => _ end = Ok _ |- _ => destruct x eqn:?; try discriminate
           | H : (if ?c then _ else _) = Ok _ |- _ => destruct c eqn:?; try discriminate
           end.
  - apply push_inv in H. destruct H as [tr' [H ->]]. cbn in S.
    destruct (IH _ _ _ _ _ _ H S) as [A [B C]]. rewrite A. cbn. repeat split; assumption.
Qed.

Lemma adv_tables_skip_update us f mn mx t1 tabs tr :
  adv_tables f mn mx t1 = Ok (tabs, false, tr) -> forallb is_skip tr = true ->
  adv_tables f mn mx (update us t1) = Ok (map (update us) tabs, false, tr).
Proof.
  unfold adv_tables. rewrite Proofs_prep.kids_update. intros H S.
  destruct (fab f 2 (kids t1) false) as [[ch w1]|k] eqn:F1; [|discriminate].
  destruct (prepare_skip_update us mn mx _ _ _ _ _ _ _ H S) as [A [B C]]. subst ch w1.
  rewrite (fab_update us _ _ _ _ F1). exact A.
Qed.

Lemma parse_aseq_update_exists us : forall tabs done st st2 stf,
  J us done st st2 -> parse_aseq (length done) tabs st = Ok stf ->
  exists stf2, parse_aseq (length done) (map (update us) tabs) st2 = Ok stf2.
Proof.
  induction tabs as [|tl rest IH]; intros done st st2 stf Jv H; [cbn; eauto|].
  cbn [map]. rewrite parse_aseq_unfold in H |- *.
  destruct (parse_entries (length done) 0 (kids tl) (t_wfs st)) as [[[es wfs'] ps]|] eqn:E; [|discriminate].
  destruct (J_step us _ _ _ _ _ _ _ Jv E) as [es2 [R2 Jn]]. rewrite R2.
  replace (S (length done)) with (length (done ++ [tl])) in H |- * by (rewrite app_length, Nat.add_1_r; reflexivity).
  eapply IH; eauto.
Qed.

Lemma forallb_len_update us mn mx tabs :
  forallb (fun tl => (mn <=? len tl) && (len tl <=? mx)) (map (update us) tabs) =
  forallb (fun tl => (mn <=? len tl) && (len tl <=? mx)) tabs.
Proof. apply long_enough_update. Qed.

Lemma tabor_compile_skip_only us f mode mn mx t st b tr :
  tabor_compile f mode mn mx t = Ok (st, false, DRoot b :: tr) -> forallb is_skip tr = true ->
  counts_ok (update us t) = true ->
  exists st2, tabor_compile f mode mn mx (update us t) = Ok (st2, false, DRoot b :: tr) /\
              forall st' ms, map snd (t_adv st2) = map snd (t_adv st) -> update_tabor us st = (st', ms) ->
                             tab_view st' = tab_view st2.
Proof.
  intros H1 S C.
  assert (E2 : exists st2, tabor_compile f mode mn mx (update us t) = Ok (st2, false, DRoot b :: tr)).
  { revert H1. unfold tabor_compile. rewrite C. cbn [negb].
    destruct (negb (counts_ok t)); [discriminate|].
    rewrite (root_enc_update us t (root_enc_update_eq us t)), root_enc_update_eq.
    set (t1 := if root_enc t then encapsulate t else t) in *.
    assert (V1 : is_vol (rep_of t1) = false) by apply t1_not_vol.
    rewrite depth_update.
    destruct (match mode with Some m => m | None => if 1 <? depth t1 then MAdvanced else MSingle end).
    - rewrite balanced_update, len_update.
      destruct ((depth t1 =? 1) && balanced t1); [|discriminate]. destruct (mx <? len t1); [discriminate|].
      rewrite parse_single_as_aseq by exact V1.
      rewrite parse_single_as_aseq by (rewrite is_vol_update; exact V1).
      destruct (parse_aseq 0 [t1] st_empty) as [sa|] eqn:P1; [|discriminate].
      destruct (parse_aseq_single_update us t1 sa P1) as [sa2 [P2 _]]. rewrite P2.
      intros H; inversion H; subst. eauto.
    - rewrite (cnt_update_fixed us t1 V1).
      destruct ((1 <? depth t1) && (cnt t1 =? 1)); [|discriminate].
      destruct (adv_tables f mn mx t1) as [[[tabs wa] tra]|] eqn:A1; [|discriminate].
      destruct (forallb (fun tl => (mn <=? len tl) && (len tl <=? mx)) tabs) eqn:L; [|discriminate].
      destruct (parse_aseq 0 tabs (mkT [] [] [] [] false)) as [sa|] eqn:P1; [|discriminate].
      intros H; inversion H; subst sa wa tra. clear H.
      rewrite (adv_tables_skip_update us _ _ _ _ _ _ A1 S), forallb_len_update, L.
      destruct (parse_aseq_update_exists us tabs [] st_empty st_empty st (J_empty us) P1) as [sa2 P2].
      change (mkT [] [] [] [] false) with st_empty. cbn [length] in P2. rewrite P2. eauto. }
  destruct E2 as [st2 E2]. exists st2. split; [exact E2|].
  intros st' ms Hs Hu. destruct (tabor_compile_update us _ _ _ _ _ _ _ _ _ _ _ H1 E2 Hs Hu) as [A _]. exact A.
Qed.
