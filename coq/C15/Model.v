(* C15 — operational model of volatile repetition counts.  Definitions only (no proofs).
   Mirrors: qupulse/parameter_scope.py (DictScope / MappedScope / JointScope: get_parameter, change_constants,
   get_volatile_parameters), program/volatile.py (VolatileRepetitionCount.__int__, update_volatile_dependencies,
   VolatileValue.operation / __mul__, volatile_property), pulses/repetition_pulse_template.py
   (_internal_create_program), program/loop.py (LoopBuilder.with_repetition/_try_append, _merge_single_child, cleanup,
   flatten_and_balance, unroll, encapsulate, unroll_children, split_one_child) and _program/tabor.py
   (TaborProgram.__init__ mode choice, prepare_program_for_advanced_sequence_mode, _check_merge_with_next,
   _check_partial_unroll, parse_aseq_program, parse_single_seq_program, update_volatile_parameters). *)
From Coq Require Import ZArith NArith Bool List.
Import ListNotations.
Open Scope Z_scope.

Definition name := N.
(* the two operand names VolatileRepetitionCount.operation is called with in Loop._merge_single_child *)
Definition JP : name := 1000001%N.   (* 'parent_repetition_count' *)
Definition JC : name := 1000002%N.   (* 'child_repetition_count' *)

Inductive errk := EMissing | EFail | EFuel | ETabor | EAssert.
Inductive result (A : Type) : Type := Ok (a : A) | Err (k : errk).
Arguments Ok {A} a. Arguments Err {A} k.

(* ------------------------------------------------------------------------------------------------------------ *)
(* expressions: integer polynomial fragment of qupulse.expressions *)
Inductive expr := EConst (z : Z) | EVar (x : name) | EAdd (a b : expr) | ESub (a b : expr) | EMul (a b : expr).

Fixpoint eval (env : name -> option Z) (e : expr) : option Z :=
  match e with
  | EConst z => Some z
  | EVar x => env x
  | EAdd a b => match eval env a, eval env b with Some x, Some y => Some (x + y) | _, _ => None end
  | ESub a b => match eval env a, eval env b with Some x, Some y => Some (x - y) | _, _ => None end
  | EMul a b => match eval env a, eval env b with Some x, Some y => Some (x * y) | _, _ => None end
  end.

Fixpoint vars (e : expr) : list name :=
  match e with
  | EConst _ => []
  | EVar x => [x]
  | EAdd a b | ESub a b | EMul a b => vars a ++ vars b
  end.

Definition mem (x : name) (l : list name) : bool := existsb (N.eqb x) l.
Definition intersects (a b : list name) : bool := existsb (fun x => mem x b) a.
Fixpoint lookup {A : Type} (x : name) (l : list (name * A)) : option A :=
  match l with
  | [] => None
  | (k, v) :: r => if N.eqb x k then Some v else lookup x r
  end.

(* ------------------------------------------------------------------------------------------------------------ *)
(* scopes *)
Inductive scope :=
| SDict (vals : list (name * Z)) (vol : list name)
| SMapped (inner : scope) (m : list (name * expr))
| SJoint (a : name) (sa : scope) (b : name) (sb : scope).

Fixpoint get_param (s : scope) (x : name) : option Z :=
  match s with
  | SDict vals _ => lookup x vals
  | SMapped inner m => match lookup x m with
                       | Some e => eval (get_param inner) e
                       | None => get_param inner x
                       end
  | SJoint a sa b sb => if N.eqb x a then get_param sa x else if N.eqb x b then get_param sb x else None
  end.

(* key set of get_volatile_parameters() (MappedScope._collect_volatile_parameters incl. the empty short cut and the
   pop of shadowing non-volatile mappings; JointScope as repaired by the C13 fix: items(), not keys) *)
Fixpoint vkeys (s : scope) : list name :=
  match s with
  | SDict _ vol => vol
  | SMapped inner m =>
      let iv := vkeys inner in
      match iv with
      | [] => []
      | _ => filter (fun x => match lookup x m with None => true | Some _ => false end) iv
             ++ map fst (filter (fun xe => match lookup (fst xe) m with
                                           | Some e => intersects (vars e) iv
                                           | None => false end) m)
      end
  | SJoint a sa b sb => (if mem a (vkeys sa) then [a] else []) ++ (if mem b (vkeys sb) then [b] else [])
  end.

(* DictScope.change_constants: only keys already present change; Mapped / Joint rebuild over the changed inner *)
Fixpoint change (us : list (name * Z)) (s : scope) : scope :=
  match s with
  | SDict vals vol =>
      SDict (map (fun kv => (fst kv, match lookup (fst kv) us with Some v => v | None => snd kv end)) vals) vol
  | SMapped i m => SMapped (change us i) m
  | SJoint a sa b sb => SJoint a (change us sa) b (change us sb)
  end.

(* ------------------------------------------------------------------------------------------------------------ *)
(* program trees *)
Inductive rep := Fixed (n : Z) | Vol (e : expr) (s : scope).
Inductive prog := Node (r : rep) (meas : bool) (wf : option N) (ch : list prog).

Definition rep_of (t : prog) := match t with Node r _ _ _ => r end.
Definition kids (t : prog) := match t with Node _ _ _ ch => ch end.
Definition is_vol (r : rep) : bool := match r with Fixed _ => false | Vol _ _ => true end.

(* VolatileRepetitionCount.__int__: evaluate, (round: identity on integers), clamp at 0 *)
Definition int_of_rep (r : rep) : option Z :=
  match r with
  | Fixed n => Some n
  | Vol e s => match eval (get_param s) e with Some v => Some (Z.max 0 v) | None => None end
  end.

(* keys of volatile_property.dependencies: variables of the expression that the scope reports volatile *)
Definition dep_keys (r : rep) : option (list name) :=
  match r with
  | Fixed _ => None
  | Vol e s => Some (filter (fun x => mem x (vkeys s)) (vars e))
  end.

(* ------------------------------------------------------------------------------------------------------------ *)
(* templates and create_program *)
Inductive pt :=
| PAtom (w : N)
| PSeq (l : list pt)
| PRep (e : expr) (m : bool) (body : pt)       (* m: the RepetitionPT declares a measurement (goes to the parent loop) *)
| PMap (mp : list (name * expr)) (body : pt).

(* children appended to the current top loop + "measurements were added to the top loop" *)
Fixpoint cp (p : pt) (s : scope) : result (list prog * bool) :=
  match p with
  | PAtom w => Ok ([Node (Fixed 1) false (Some w) []], false)
  | PSeq l =>
      (fix go (l : list pt) : result (list prog * bool) :=
         match l with
         | [] => Ok ([], false)
         | q :: r => match cp q s with
                     | Err k => Err k
                     | Ok (k1, m1) => match go r with
                                      | Err k => Err k
                                      | Ok (k2, m2) => Ok (k1 ++ k2, m1 || m2)
                                      end
                     end
         end) l
  | PRep e m body =>
      match eval (get_param s) e with
      | None => Err EMissing
      | Some v =>
          if 0 <? v then
            match cp body s with
            | Err k => Err k
            | Ok (ks, km) =>
                match ks with
                | [] => Ok ([], false)
                | _ => Ok ([Node (if intersects (vars e) (vkeys s) then Vol e s else Fixed v) km None ks], m)
                end
            end
          else Ok ([], false)
      end
  | PMap mp body => cp body (SMapped s mp)
  end.

Definition create_program (p : pt) (vals : list (name * Z)) (V : list name) : result (option prog) :=
  match cp p (SDict vals V) with
  | Err k => Err k
  | Ok ([], _) => Ok None
  | Ok (ks, m) => Ok (Some (Node (Fixed 1) m None ks))
  end.

(* ------------------------------------------------------------------------------------------------------------ *)
(* update_volatile_dependencies on every volatile count of a tree *)
Definition upd_rep (us : list (name * Z)) (r : rep) : rep :=
  match r with Fixed n => Fixed n | Vol e s => Vol e (change us s) end.
Fixpoint update (us : list (name * Z)) (t : prog) : prog :=
  match t with Node r m w ch => Node (upd_rep us r) m w (map (update us) ch) end.

(* ------------------------------------------------------------------------------------------------------------ *)
(* Loop._merge_single_child / cleanup *)
Definition merge_rep (r rc : rep) : rep :=
  match r, rc with
  | Fixed a, Fixed b => Fixed (a * b)
  | Fixed a, Vol e s => Vol (EMul e (EConst a)) s
  | Vol e s, Fixed b => Vol (EMul e (EConst b)) s
  | Vol e s, Vol ec sc =>
      Vol (EMul (EVar JP) (EVar JC)) (SJoint JP (SMapped s [(JP, e)]) JC (SMapped sc [(JC, ec)]))
  end.

Definition mergeable (t : prog) : bool :=
  match t with
  | Node _ m _ [Node rc _ _ _] => negb m || match rc with Fixed 1 => true | _ => false end
  | _ => false
  end.

Definition merge (t : prog) : prog :=
  match t with
  | Node r m _ [Node rc mc wc chc] => Node (merge_rep r rc) (mc || m) wc chc
  | _ => t
  end.

Fixpoint cleanup (t : prog) : prog :=
  match t with
  | Node r m w ch =>
      let ch' := flat_map (fun c => match c with
                                    | Node _ _ cw [] => match cw with None => [] | Some _ => [c] end
                                    | _ => match cleanup c with
                                           | Node _ _ None [] => []
                                           | c' => [c']
                                           end
                                    end) ch in
      let t' := Node r m w ch' in
      if mergeable t' then merge t' else t'
  end.

(* ------------------------------------------------------------------------------------------------------------ *)
(* tree measures, encapsulate, unroll, flatten_and_balance *)
Fixpoint depth (t : prog) : Z :=
  match t with
  | Node _ _ _ [] => 0
  | Node _ _ _ ch => 1 + fold_right (fun c acc => Z.max (depth c) acc) 0 ch
  end.

Fixpoint balanced (t : prog) : bool :=
  match t with
  | Node _ _ _ [] => true
  | Node _ _ _ ((c0 :: _) as ch) => forallb (fun e => (depth e =? depth c0) && balanced e) ch
  end.

Definition encapsulate (t : prog) : prog := Node (Fixed 1) false None [t].

(* counts above this bound are outside the model (kept small so that unrolling stays cheap inside Coq) *)
Definition COUNT_LIMIT : Z := 64.

Definition cnt (t : prog) : Z := match int_of_rep (rep_of t) with Some v => v | None => -1 end.
Fixpoint counts_ok (t : prog) : bool :=
  match t with Node r _ _ ch =>
    match int_of_rep r with Some v => (0 <=? v) && (v <=? COUNT_LIMIT) | None => false end && forallb counts_ok ch
  end.

Fixpoint repeat_list {A} (n : nat) (l : list A) : list A :=
  match n with O => [] | S k => l ++ repeat_list k l end.

(* the children `sub.unroll()` puts in place of sub *)
Definition unrolled (sub : prog) : list prog := repeat_list (Z.to_nat (cnt sub)) (kids sub).

Fixpoint fab (fuel : nat) (d : Z) (todo : list prog) (warn : bool) : result (list prog * bool) :=
  match fuel with
  | O => Err EFuel
  | S f =>
      match todo with
      | [] => Ok ([], warn)
      | sub :: rest =>
          if depth sub <? d - 1 then fab f d (encapsulate sub :: rest) warn
          else if negb (balanced sub) then
            match sub with
            | Node r m w ch =>
                match fab f (d - 1) ch warn with
                | Err k => Err k
                | Ok (ch', warn') => fab f d (Node r m w ch' :: rest) warn'
                end
            end
          else if depth sub =? d - 1 then
            match fab f d rest warn with Err k => Err k | Ok (l, w') => Ok (sub :: l, w') end
          else if mergeable sub then fab f d (merge sub :: rest) warn
          else match sub with
               | Node _ _ _ [] =>
                   match fab f d rest warn with Err k => Err k | Ok (l, w') => Ok (sub :: l, w') end
               | Node r _ _ _ => fab f d (unrolled sub ++ rest) (warn || is_vol r)
               end
      end
  end.

Definition flatten_and_balance (fuel : nat) (d : Z) (t : prog) : result (prog * bool) :=
  if negb (counts_ok t) then Err EFail else
  match t with Node r m w ch =>
    match fab fuel d ch false with Err k => Err k | Ok (ch', wn) => Ok (Node r m w ch', wn) end
  end.

(* ------------------------------------------------------------------------------------------------------------ *)
(* polynomial normal forms: stand-in for sympy's structural equality on the (expanded) expressions that are generated;
   used only for the de-duplication of sequencer tables, which compares VolatileProperty tuples *)
Definition mono := list name.
Definition poly := list (mono * Z).

Fixpoint mono_cmp (a b : mono) : comparison :=
  match a, b with
  | [], [] => Eq
  | [], _ => Lt
  | _, [] => Gt
  | x :: a', y :: b' => match N.compare x y with Eq => mono_cmp a' b' | c => c end
  end.

Fixpoint mono_mul (a : mono) : mono -> mono :=
  fix inner (b : mono) : mono :=
    match a, b with
    | [], _ => b
    | _, [] => a
    | x :: a', y :: b' => if (x <=? y)%N then x :: mono_mul a' b else y :: inner b'
    end.

Fixpoint padd (p : poly) : poly -> poly :=
  fix inner (q : poly) : poly :=
    match p, q with
    | [], _ => q
    | _, [] => p
    | (m1, c1) :: p', (m2, c2) :: q' =>
        match mono_cmp m1 m2 with
        | Lt => (m1, c1) :: padd p' q
        | Gt => (m2, c2) :: inner q'
        | Eq => if c1 + c2 =? 0 then padd p' q' else (m1, c1 + c2) :: padd p' q'
        end
    end.

Definition pconst (z : Z) : poly := if z =? 0 then [] else [([], z)].
Definition pvar (x : name) : poly := [([x], 1)].
Definition pneg (p : poly) : poly := map (fun mc => (fst mc, - snd mc)) p.
Definition pmul (p q : poly) : poly :=
  fold_right (fun mc acc =>
    fold_right (fun mc' acc' =>
      padd (let c := snd mc * snd mc' in if c =? 0 then [] else [(mono_mul (fst mc) (fst mc'), c)]) acc') acc q) [] p.

Fixpoint poly_of (f : name -> poly) (e : expr) : poly :=
  match e with
  | EConst z => pconst z
  | EVar x => f x
  | EAdd a b => padd (poly_of f a) (poly_of f b)
  | ESub a b => padd (poly_of f a) (pneg (poly_of f b))
  | EMul a b => pmul (poly_of f a) (poly_of f b)
  end.

Definition mono_eqb (a b : mono) : bool := match mono_cmp a b with Eq => true | _ => false end.
Fixpoint poly_eqb (p q : poly) : bool :=
  match p, q with
  | [], [] => true
  | (m1, c1) :: p', (m2, c2) :: q' => mono_eqb m1 m2 && (c1 =? c2) && poly_eqb p' q'
  | _, _ => false
  end.

(* get_volatile_parameters() with its values: name -> expression in the root volatile parameters *)
Fixpoint dep_polys (s : scope) : list (name * poly) :=
  match s with
  | SDict _ vol => map (fun v => (v, pvar v)) vol
  | SMapped inner m =>
      let iv := dep_polys inner in
      match iv with
      | [] => []
      | _ =>
          filter (fun xp => match lookup (fst xp) m with None => true | Some _ => false end) iv
          ++ flat_map (fun xe =>
               match lookup (fst xe) m with
               | Some e =>
                   if intersects (vars e) (map fst iv) then
                     [(fst xe, poly_of (fun v => match lookup v iv with
                                                 | Some p => p
                                                 | None => match get_param inner v with
                                                           | Some z => pconst z
                                                           | None => pvar v
                                                           end
                                                 end) e)]
                   else []
               | None => []
               end) m
      end
  | SJoint a sa b sb =>
      (match lookup a (dep_polys sa) with Some p => [(a, p)] | None => [] end)
      ++ (match lookup b (dep_polys sb) with Some p => [(b, p)] | None => [] end)
  end.

(* VolatileProperty(expression, dependencies) up to the normal form; dependencies ordered by name, once each *)
Definition vprop := (poly * list (name * poly))%type.

Fixpoint insert_name (x : name) (l : list name) : list name :=
  match l with
  | [] => [x]
  | y :: r => if (x <? y)%N then x :: l else if (x =? y)%N then l else y :: insert_name x r
  end.
Definition sort_names (l : list name) : list name := fold_right insert_name [] l.

Definition vprop_of (r : rep) : option vprop :=
  match r with
  | Fixed _ => None
  | Vol e s =>
      let dp := dep_polys s in
      Some (poly_of pvar e,
            flat_map (fun x => match lookup x dp with Some p => [(x, p)] | None => [] end) (sort_names (vars e)))
  end.

Definition vprop_eqb (a b : vprop) : bool :=
  poly_eqb (fst a) (fst b) &&
  (fix go (x y : list (name * poly)) : bool :=
     match x, y with
     | [], [] => true
     | (n1, p1) :: x', (n2, p2) :: y' => (n1 =? n2)%N && poly_eqb p1 p2 && go x' y'
     | _, _ => false
     end) (snd a) (snd b).

(* ------------------------------------------------------------------------------------------------------------ *)
(* Tabor: prepare_program_for_advanced_sequence_mode on the list of sequence-table loops *)
Definition len (t : prog) : Z := Z.of_nat (length (kids t)).
Definition set_rep (r : rep) (t : prog) : prog := match t with Node _ m w ch => Node r m w ch end.
Definition set_kids (ch : list prog) (t : prog) : prog := match t with Node r m w _ => Node r m w ch end.

Fixpoint replace_nth {A} (n : nat) (x : A) (l : list A) : list A :=
  match l, n with
  | [], _ => []
  | _ :: r, O => x :: r
  | y :: r, S k => y :: replace_nth k x r
  end.
Fixpoint remove_nth {A} (n : nat) (l : list A) : list A :=
  match l, n with
  | [], _ => []
  | _ :: r, O => r
  | y :: r, S k => y :: remove_nth k r
  end.

(* _check_merge_with_next: Some tabs' when merged *)
Definition check_merge_with_next (tabs : list prog) (n : nat) (mx : Z) : option (list prog) :=
  match nth_error tabs n, nth_error tabs (S n) with
  | Some a, Some b =>
      if (cnt a =? 1) && (cnt b =? 1) && negb (is_vol (rep_of a)) && negb (is_vol (rep_of b)) && (len a + len b <? mx)
      then Some (remove_nth (S n) (replace_nth n (set_kids (kids a ++ kids b) a) tabs))
      else None
  | _, _ => None
  end.

(* Loop.split_one_child(): index of the child to split = last child with count > 1 that is not volatile, else the
   last volatile one with count > 1 *)
Definition split_index (ch : list prog) : option nat :=
  let idx := seq 0 (length ch) in
  let cand := filter (fun ic => 1 <? cnt (snd ic)) (combine idx ch) in
  match filter (fun ic => negb (is_vol (rep_of (snd ic)))) (rev cand) with
  | (i, _) :: _ => Some i
  | [] => match rev cand with (i, _) :: _ => Some i | [] => None end
  end.

Fixpoint insert_after {A} (n : nat) (x y : A) (l : list A) : list A :=   (* l[n] := x; insert y after it *)
  match l, n with
  | [], _ => []
  | _ :: r, O => x :: y :: r
  | z :: r, S k => z :: insert_after k x y r
  end.

(* decisions of one compilation, in the order they are taken (ghost output: the code has no such list).  Two
   compilations with the same list took the same branch at every count-dependent test. *)
Inductive dec :=
| DRoot (enc : bool)                              (* TaborProgram.__init__: root encapsulated? *)
| DSkip                                           (* sequence table long enough *)
| DMergePrev | DMergeNext                         (* _check_merge_with_next succeeded *)
| DUnroll (unrolled : bool) (splits : list nat)   (* _check_partial_unroll succeeded: unroll_children?, children split *)
| DExtPrev | DExtNext.                            (* one iteration of a repeated neighbour moved into the table *)

Fixpoint split_until (fuel : nat) (mn : Z) (ch : list prog) (warn : bool) : result (list prog * bool * list nat) :=
  if mn <=? Z.of_nat (length ch) then Ok (ch, warn, []) else
  match fuel with
  | O => Err EFuel
  | S f =>
      match split_index ch with
      | None => Err EFail                         (* RuntimeError: no child with repetition count > 1 *)
      | Some i =>
          match nth_error ch i with
          | None => Err EFail
          | Some c =>
              match split_until f mn (insert_after i (set_rep (Fixed (cnt c - 1)) c) (set_rep (Fixed 1) c) ch)
                                (warn || is_vol (rep_of c)) with
              | Err k => Err k
              | Ok (ch', w', idx) => Ok (ch', w', i :: idx)
              end
          end
      end
  end.

(* _check_partial_unroll: None = returned False *)
Definition check_partial_unroll (st : prog) (mn : Z) (warn : bool) : result (option (prog * bool * dec)) :=
  if is_vol (rep_of st) then Ok None else
  let total := fold_right (fun c acc => cnt c + acc) 0 (kids st) in
  if mn <=? total * cnt st then
    let st1 := if total <? mn then Node (Fixed 1) (match st with Node _ m _ _ => m end)
                                        (match st with Node _ _ w _ => w end) (unrolled st)
               else st in
    match split_until (Z.to_nat mn) mn (kids st1) warn with
    | Err k => Err k
    | Ok (ch, w', idx) => Ok (Some (set_kids ch st1, w', DUnroll (total <? mn) idx))
    end
  else Ok None.

Definition push (d : dec) (r : result (list prog * bool * list dec)) : result (list prog * bool * list dec) :=
  match r with Err k => Err k | Ok (t, w, tr) => Ok (t, w, d :: tr) end.

(* extension of table i by one iteration of its neighbour j (the neighbour's count goes through the int setter; the
   repaired code emits a VolatileModificationWarning when that count was volatile) *)
Definition ext_prev (i : nat) (ti prev : prog) (tabs : list prog) : list prog :=
  replace_nth (pred i) (set_rep (Fixed (cnt prev - 1)) prev) (replace_nth i (set_kids (kids prev ++ kids ti) ti) tabs).
Definition ext_next (i : nat) (ti nxt : prog) (tabs : list prog) : list prog :=
  replace_nth (S i) (set_rep (Fixed (cnt nxt - 1)) nxt) (replace_nth i (set_kids (kids ti ++ kids nxt) ti) tabs).

Fixpoint prepare (fuel : nat) (mn mx : Z) (i : nat) (tabs : list prog) (warn : bool)
  : result (list prog * bool * list dec) :=
  match fuel with
  | O => Err EFuel
  | S f =>
      match nth_error tabs i with
      | None => Ok (tabs, warn, [])
      | Some ti =>
          if mx <? len ti then Err ETabor
          else if len ti <? mn then
            if cnt ti <=? 0 then Err EAssert
            else if (cnt ti =? 1) && negb (is_vol (rep_of ti)) then
              match (match i with O => None | S j => check_merge_with_next tabs j mx end) with
              | Some tabs' => push DMergePrev (prepare f mn mx i tabs' warn)
              | None =>
                  match check_merge_with_next tabs i mx with
                  | Some tabs' => push DMergeNext (prepare f mn mx i tabs' warn)
                  | None =>
                      match check_partial_unroll ti mn warn with
                      | Err k => Err k
                      | Ok (Some (ti', w', d)) => push d (prepare f mn mx (S i) (replace_nth i ti' tabs) w')
                      | Ok None =>
                          match (match i with O => None | S j => nth_error tabs j end) with
                          | Some prev =>
                              if (1 <? cnt prev) && (len ti + len prev <? mx) then
                                push DExtPrev (prepare f mn mx i (ext_prev i ti prev tabs) (warn || is_vol (rep_of prev)))
                              else
                                match nth_error tabs (S i) with
                                | Some nxt =>
                                    if (1 <? cnt nxt) && (len ti + len nxt <? mx) then
                                      push DExtNext (prepare f mn mx i (ext_next i ti nxt tabs) (warn || is_vol (rep_of nxt)))
                                    else Err ETabor
                                | None => Err ETabor
                                end
                          | None =>
                              match nth_error tabs (S i) with
                              | Some nxt =>
                                  if (1 <? cnt nxt) && (len ti + len nxt <? mx) then
                                    push DExtNext (prepare f mn mx i (ext_next i ti nxt tabs) (warn || is_vol (rep_of nxt)))
                                  else Err ETabor
                              | None => Err ETabor
                              end
                          end
                      end
                  end
              end
            else
              match check_partial_unroll ti mn warn with
              | Err k => Err k
              | Ok (Some (ti', w', d)) => push d (prepare f mn mx (S i) (replace_nth i ti' tabs) w')
              | Ok None => Err ETabor
              end
          else push DSkip (prepare f mn mx (S i) tabs warn)
      end
  end.

(* ------------------------------------------------------------------------------------------------------------ *)
(* Tabor: parsing into tables with recorded volatile positions *)
Record tent := mkTent { te_count : Z; te_wf : N; te_vol : option vprop }.

Inductive tpos := PAdv (a : nat) | PSeqPos (a : nat) (p : nat).
Definition tpos_eqb (x y : tpos) : bool :=
  match x, y with
  | PAdv a, PAdv b => Nat.eqb a b
  | PSeqPos a p, PSeqPos b q => Nat.eqb a b && Nat.eqb p q
  | _, _ => false
  end.

Record tstate := mkT {
  t_adv : list (Z * nat);                 (* (repetition count, sequencer table number from 1) ; jump flag is always 0 *)
  t_tabs : list (list tent);
  t_wfs : list N;                         (* waveform ids in order of first use *)
  t_pos : list (tpos * rep);              (* volatile_parameter_positions, insertion order *)
  t_single : bool }.

Fixpoint index_of {A} (eqb : A -> A -> bool) (x : A) (l : list A) : option nat :=
  match l with
  | [] => None
  | y :: r => if eqb x y then Some O else match index_of eqb x r with Some k => Some (S k) | None => None end
  end.

Definition tent_eqb (a b : tent) : bool :=
  (te_count a =? te_count b) && (te_wf a =? te_wf b)%N &&
  match te_vol a, te_vol b with
  | None, None => true
  | Some x, Some y => vprop_eqb x y
  | _, _ => false
  end.
Fixpoint tab_eqb (a b : list tent) : bool :=
  match a, b with
  | [], [] => true
  | x :: a', y :: b' => tent_eqb x y && tab_eqb a' b'
  | _, _ => false
  end.

(* entries of one sequence table loop; wfs threaded *)
Fixpoint parse_entries (adv : nat) (pos : nat) (ch : list prog) (wfs : list N)
  : result (list tent * list N * list (tpos * rep)) :=
  match ch with
  | [] => Ok ([], wfs, [])
  | Node r _ w _ :: rest =>
      match w with
      | None => Err EFail
      | Some wid =>
          let '(wfs1, wi) := match index_of N.eqb wid wfs with
                             | Some k => (wfs, k)
                             | None => (wfs ++ [wid], length wfs)
                             end in
          match parse_entries adv (S pos) rest wfs1 with
          | Err k => Err k
          | Ok (es, wfs2, ps) =>
              Ok (mkTent (match int_of_rep r with Some v => v | None => -1 end) (N.of_nat wi) (vprop_of r) :: es, wfs2,
                  (if is_vol r then [(PSeqPos adv pos, r)] else []) ++ ps)
          end
      end
  end.

Fixpoint parse_aseq (adv : nat) (tabs : list prog) (st : tstate) : result tstate :=
  match tabs with
  | [] => Ok st
  | tl :: rest =>
      match parse_entries adv 0 (kids tl) (t_wfs st) with
      | Err k => Err k
      | Ok (es, wfs', ps) =>
          let '(tabs', ti) := match index_of tab_eqb es (t_tabs st) with
                              | Some k => (t_tabs st, k)
                              | None => (t_tabs st ++ [es], length (t_tabs st))
                              end in
          parse_aseq (S adv) rest
            (mkT (t_adv st ++ [(cnt tl, S ti)]) tabs' wfs'
                 (t_pos st ++ ps ++ (if is_vol (rep_of tl) then [(PAdv adv, rep_of tl)] else [])) false)
      end
  end.

Definition parse_single (t : prog) : result tstate :=
  match parse_entries 0 0 (kids t) [] with
  | Err k => Err k
  | Ok (es, wfs', ps) => Ok (mkT [(cnt t, 1%nat)] [es] wfs' ps true)
  end.

Inductive tmode := MSingle | MAdvanced.

(* TaborProgram.__init__ (the repaired code also encapsulates a root whose count is volatile) *)
Definition root_enc (t : prog) : bool := (1 <? cnt t) || is_vol (rep_of t) || (depth t =? 0).

(* setup_advanced_sequence_mode up to the parser: flatten_and_balance(2), then prepare_program_for_advanced_sequence_mode *)
Definition adv_tables (fuel : nat) (mn mx : Z) (t1 : prog) : result (list prog * bool * list dec) :=
  match fab fuel 2 (kids t1) false with
  | Err k => Err k
  | Ok (ch, w1) => prepare fuel mn mx 0 ch w1
  end.

Definition tabor_compile (fuel : nat) (mode : option tmode) (mn mx : Z) (t : prog)
  : result (tstate * bool * list dec) :=
  if negb (counts_ok t) then Err EFail else
  let t1 := if root_enc t then encapsulate t else t in
  let md := match mode with Some m => m | None => if 1 <? depth t1 then MAdvanced else MSingle end in
  match md with
  | MSingle =>
      if (depth t1 =? 1) && balanced t1 then
        if mx <? len t1 then Err ETabor        (* C16 repair ca0716c: SINGLE mode checks max_seq_len *)
        else match parse_single t1 with Err k => Err k | Ok st => Ok (st, false, [DRoot (root_enc t)]) end
      else Err EAssert
  | MAdvanced =>
      if (1 <? depth t1) && (cnt t1 =? 1) then
        match adv_tables fuel mn mx t1 with
        | Err k => Err k
        | Ok (tabs, w2, tr) =>
            if forallb (fun tl => (mn <=? len tl) && (len tl <=? mx)) tabs then
              match parse_aseq 0 tabs (mkT [] [] [] [] false) with
              | Err k => Err k
              | Ok st => Ok (st, w2, DRoot (root_enc t) :: tr)
              end
            else Err EAssert
        end
      else Err EAssert
  end.

(* TaborProgram.update_volatile_parameters: returns the new state and the modification map (insertion order) *)
Inductive tmod := TMod (p : tpos) (count : Z) (elem : nat).   (* elem: table number (adv) / waveform index (seq) *)

Fixpoint update_positions (us : list (name * Z)) (ps : list (tpos * rep)) (adv : list (Z * nat))
         (tabs : list (list tent)) : list (Z * nat) * list (list tent) * list tmod :=
  match ps with
  | [] => (adv, tabs, [])
  | (p, r) :: rest =>
      let nv := match int_of_rep (upd_rep us r) with Some v => v | None => -1 end in
      match p with
      | PAdv a =>
          match nth_error adv a with
          | Some (old, el) =>
              if nv =? old then update_positions us rest adv tabs
              else let '(adv', tabs', ms) := update_positions us rest (replace_nth a (nv, el) adv) tabs in
                   (adv', tabs', TMod p nv el :: ms)
          | None => update_positions us rest adv tabs
          end
      | PSeqPos a q =>
          match nth_error adv a with
          | Some (_, el) =>
              match nth_error tabs (pred el) with
              | Some tb =>
                  match nth_error tb q with
                  | Some en =>
                      if nv =? te_count en then update_positions us rest adv tabs
                      else let '(adv', tabs', ms) :=
                             update_positions us rest adv
                               (replace_nth (pred el) (replace_nth q (mkTent nv (te_wf en) (te_vol en)) tb) tabs) in
                           (adv', tabs', TMod p nv (N.to_nat (te_wf en)) :: ms)
                  | None => update_positions us rest adv tabs
                  end
              | None => update_positions us rest adv tabs
              end
          | None => update_positions us rest adv tabs
          end
      end
  end.

Definition update_tabor (us : list (name * Z)) (st : tstate) : tstate * list tmod :=
  let '(adv', tabs', ms) := update_positions us (t_pos st) (t_adv st) (t_tabs st) in
  (mkT adv' tabs' (t_wfs st) (map (fun pr => (fst pr, upd_rep us (snd pr))) (t_pos st)) (t_single st), ms).
