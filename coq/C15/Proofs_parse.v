(* C15 — the parser step: parse_aseq_program of the updated sequence tables, when it shares the same tables, is the
   parsed state of the original tables after update_volatile_parameters (C15_tabor_recompile). *)
From Coq Require Import ZArith NArith Bool List Lia.
Require Import QV.C15.Model QV.C15.Spec QV.C15.Proofs QV.C15.Proofs_upd.
Import ListNotations.
Open Scope Z_scope.

(* ------------------------------------------------------------------------------------------------------------ *)
(* lists *)
Lemma nth_error_ext {A} : forall (l l' : list A), (forall n, nth_error l n = nth_error l' n) -> l = l'.
Proof.
  induction l as [|x l IH]; intros [|y l'] H.
  - reflexivity.
  - specialize (H O). discriminate.
  - specialize (H O). discriminate.
  - pose proof (H O) as H0. cbn in H0. inversion H0; subst. f_equal. apply IH. intros n. exact (H (S n)).
Qed.

Lemma nth_error_snoc_old {A} (l : list A) x n y : nth_error l n = Some y -> nth_error (l ++ [x]) n = Some y.
Proof.
  intros H. rewrite nth_error_app1; [exact H|]. apply nth_error_Some. congruence.
Qed.

Lemma nth_error_snoc_new {A} (l : list A) x : nth_error (l ++ [x]) (length l) = Some x.
Proof. rewrite nth_error_app2 by lia. rewrite Nat.sub_diag. reflexivity. Qed.

Lemma nth_error_snoc_inv {A} (l : list A) x n y :
  nth_error (l ++ [x]) n = Some y -> nth_error l n = Some y \/ (n = length l /\ y = x).
Proof.
  intros H. destruct (Nat.lt_ge_cases n (length l)) as [L|G].
  - rewrite nth_error_app1 in H by exact L. left; exact H.
  - rewrite nth_error_app2 in H by exact G. destruct (n - length l)%nat as [|k] eqn:E.
    + cbn in H. inversion H. right. split; [lia|reflexivity].
    + cbn in H. destruct k; discriminate.
Qed.

Lemma index_of_some {A} (eqb : A -> A -> bool) x : forall l k,
  index_of eqb x l = Some k -> exists y, nth_error l k = Some y /\ eqb x y = true.
Proof.
  induction l as [|y l IH]; intros k H; cbn in H; [discriminate|].
  destruct (eqb x y) eqn:E.
  - inversion H; subst. exists y. split; [reflexivity|exact E].
  - destruct (index_of eqb x l) as [j|] eqn:Ej; [|discriminate]. inversion H; subst.
    destruct (IH j eq_refl) as [z [Hz Ez]]. exists z. split; assumption.
Qed.

(* ------------------------------------------------------------------------------------------------------------ *)
(* what a table entry shows of the waveform loop it was parsed from *)
Definition vflag (e : tent) : bool := match te_vol e with Some _ => true | None => false end.

Section Parse.
Variable us : list (name * Z).

Definition updp (pr : tpos * rep) : tpos * rep := (fst pr, upd_rep us (snd pr)).

(* desc ch tb tb2: tb describes the waveform loops ch, tb2 the same loops after the update *)
Inductive desc : list prog -> list tent -> list tent -> Prop :=
| desc_nil : desc [] [] []
| desc_cons c e e2 ch tb tb2 :
    te_count e = cntval (rep_of c) -> te_count e2 = newval us (rep_of c) -> te_wf e2 = te_wf e ->
    vflag e = is_vol (rep_of c) -> vflag e2 = is_vol (rep_of c) ->
    desc ch tb tb2 -> desc (c :: ch) (e :: tb) (e2 :: tb2).

Lemma desc_nth : forall ch tb tb2, desc ch tb tb2 -> forall q c, nth_error ch q = Some c ->
  exists e e2, nth_error tb q = Some e /\ nth_error tb2 q = Some e2 /\
               te_count e = cntval (rep_of c) /\ te_count e2 = newval us (rep_of c) /\ te_wf e2 = te_wf e /\
               vflag e = is_vol (rep_of c) /\ vflag e2 = is_vol (rep_of c).
Proof.
  induction 1 as [|c e e2 ch tb tb2 H1 H2 H3 H4 H5 D IH]; intros q c0 Hq.
  - destruct q; discriminate.
  - destruct q as [|q]; cbn in Hq.
    + inversion Hq; subst c0. exists e, e2. cbn. repeat split; assumption.
    + destruct (IH q c0 Hq) as [x [x2 Hx]]. exists x, x2. cbn. exact Hx.
Qed.

Lemma desc_len : forall ch tb tb2, desc ch tb tb2 -> length tb = length ch /\ length tb2 = length ch.
Proof. induction 1; cbn; [split; reflexivity|]. destruct IHdesc. split; congruence. Qed.

Lemma vprop_eqb_flag a b : match a, b with
                           | None, None => true | Some x, Some y => vprop_eqb x y | _, _ => false end = true ->
  match a with Some _ => true | None => false end = match b with Some _ => true | None => false end.
Proof. destruct a, b; intros H; try discriminate; reflexivity. Qed.

Lemma tent_eqb_obs a b : tent_eqb a b = true -> te_count a = te_count b /\ te_wf a = te_wf b /\ vflag a = vflag b.
Proof.
  unfold tent_eqb. intros H. apply andb_true_iff in H. destruct H as [H H3].
  apply andb_true_iff in H. destruct H as [H1 H2]. apply Z.eqb_eq in H1. apply N.eqb_eq in H2.
  repeat split; try assumption. unfold vflag. apply vprop_eqb_flag. exact H3.
Qed.

Lemma desc_eqb_l : forall ch es es2, desc ch es es2 -> forall tb, tab_eqb es tb = true -> desc ch tb es2.
Proof.
  induction 1 as [|c e e2 ch tb0 tb2 H1 H2 H3 H4 H5 D IH]; intros tb E.
  - destruct tb; [constructor|discriminate].
  - destruct tb as [|y tb]; [discriminate|]. cbn in E. apply andb_true_iff in E. destruct E as [E1 E2].
    apply tent_eqb_obs in E1. destruct E1 as [A [B C]].
    constructor; try congruence. apply IH. exact E2.
Qed.

Lemma desc_eqb_r : forall ch es es2, desc ch es es2 -> forall tb, tab_eqb es2 tb = true -> desc ch es tb.
Proof.
  induction 1 as [|c e e2 ch tb0 tb2 H1 H2 H3 H4 H5 D IH]; intros tb E.
  - destruct tb; [constructor|discriminate].
  - destruct tb as [|y tb]; [discriminate|]. cbn in E. apply andb_true_iff in E. destruct E as [E1 E2].
    apply tent_eqb_obs in E1. destruct E1 as [A [B C]].
    constructor; try congruence. apply IH. exact E2.
Qed.

(* ------------------------------------------------------------------------------------------------------------ *)
(* parse_entries on the loops and on the updated loops *)
Lemma vprop_of_flag r : match vprop_of r with Some _ => true | None => false end = is_vol r.
Proof. destruct r; reflexivity. Qed.

Lemma is_vol_upd r : is_vol (upd_rep us r) = is_vol r.
Proof. destruct r; reflexivity. Qed.

Lemma parse_entries_update : forall ch a pos wfs es wfs' ps,
  parse_entries a pos ch wfs = Ok (es, wfs', ps) ->
  exists es2, parse_entries a pos (map (update us) ch) wfs = Ok (es2, wfs', map updp ps) /\
              desc ch es es2 /\ ps = entry_positions a pos ch.
Proof.
  induction ch as [|c ch IH]; intros a pos wfs es wfs' ps H.
  - cbn in H. inversion H; subst. exists []. cbn. repeat split. constructor.
  - destruct c as [r m w kk]. cbn [parse_entries] in H. cbn [map update parse_entries].
    destruct w as [wid|]; [|discriminate].
    destruct (match index_of N.eqb wid wfs with Some k => (wfs, k) | None => (wfs ++ [wid], length wfs) end)
      as [wfs1 wi] eqn:Ew.
    destruct (parse_entries a (S pos) ch wfs1) as [[[es0 wfs2] ps0]|] eqn:Er; [|discriminate].
    inversion H; subst es wfs' ps. clear H.
    destruct (IH _ _ _ _ _ _ Er) as [es2 [R2 [D P]]]. rewrite R2.
    eexists. split; [|split].
    + rewrite is_vol_upd. f_equal. f_equal. f_equal.
      rewrite map_app. f_equal. destruct (is_vol r); reflexivity.
    + constructor; cbn [te_count te_wf te_vol rep_of]; try reflexivity.
      * unfold vflag. cbn [te_vol]. apply vprop_of_flag.
      * unfold vflag. cbn [te_vol]. rewrite vprop_of_flag. apply is_vol_upd.
      * exact D.
    + cbn [entry_positions rep_of]. rewrite <- P. reflexivity.
Qed.

(* ------------------------------------------------------------------------------------------------------------ *)
(* positions_of *)
Lemma positions_of_app : forall l1 a l2,
  positions_of a (l1 ++ l2) = positions_of a l1 ++ positions_of (a + length l1) l2.
Proof.
  induction l1 as [|tl l1 IH]; intros a l2; cbn [app positions_of length].
  - rewrite Nat.add_0_r. reflexivity.
  - rewrite IH. rewrite <- !app_assoc. replace (S a + length l1)%nat with (a + S (length l1))%nat by lia. reflexivity.
Qed.

Lemma entry_positions_in : forall ch a q0 p r,
  In (p, r) (entry_positions a q0 ch) <->
  exists q c, p = PSeqPos a (q0 + q) /\ nth_error ch q = Some c /\ r = rep_of c /\ is_vol r = true.
Proof.
  induction ch as [|c ch IH]; intros a q0 p r; cbn [entry_positions].
  - split; [intros []|intros [q [c [_ [H _]]]]; destruct q; discriminate].
  - rewrite in_app_iff, IH. split.
    + intros [H|[q [c0 [E1 [E2 [E3 E4]]]]]].
      * destruct (is_vol (rep_of c)) eqn:V; [|destruct H]. destruct H as [H|[]]. inversion H; subst.
        exists O, c. rewrite Nat.add_0_r. repeat split; try reflexivity; exact V.
      * exists (S q), c0. repeat split; try assumption. subst p. f_equal. lia.
    + intros [q [c0 [E1 [E2 [E3 E4]]]]]. destruct q as [|q].
      * cbn in E2. inversion E2; subst c0. left. subst r. rewrite E4. left. subst p. rewrite Nat.add_0_r. reflexivity.
      * right. exists q, c0. repeat split; try assumption. subst p. f_equal. lia.
Qed.

Lemma positions_of_in : forall done a0 p r,
  In (p, r) (positions_of a0 done) <->
  (exists a tl, p = PAdv (a0 + a) /\ nth_error done a = Some tl /\ r = rep_of tl /\ is_vol r = true) \/
  (exists a tl q c, p = PSeqPos (a0 + a) q /\ nth_error done a = Some tl /\ nth_error (kids tl) q = Some c /\
                    r = rep_of c /\ is_vol r = true).
Proof.
  induction done as [|tl done IH]; intros a0 p r; cbn [positions_of].
  - split; [intros []|]. intros [[a [t [_ [H _]]]]|[a [t [q [c [_ [H _]]]]]]]; destruct a; discriminate.
  - rewrite !in_app_iff, IH, entry_positions_in. split.
    + intros [[q [c [E1 [E2 [E3 E4]]]]]|[H|[[a [t [E1 [E2 [E3 E4]]]]]|[a [t [q [c [E1 [E2 [E3 [E4 E5]]]]]]]]]]].
      * right. exists O, tl, q, c. rewrite Nat.add_0_r. cbn. repeat split; assumption.
      * destruct (is_vol (rep_of tl)) eqn:V; [|destruct H]. destruct H as [H|[]]. inversion H; subst.
        left. exists O, tl. rewrite Nat.add_0_r. repeat split; try reflexivity; exact V.
      * left. exists (S a), t. repeat split; try assumption. subst p. f_equal. lia.
      * right. exists (S a), t, q, c. repeat split; try assumption. subst p. f_equal. lia.
    + intros [[a [t [E1 [E2 [E3 E4]]]]]|[a [t [q [c [E1 [E2 [E3 [E4 E5]]]]]]]]].
      * destruct a as [|a].
        -- cbn in E2. inversion E2; subst t. right. left. subst r. rewrite E4. left. subst p.
           rewrite Nat.add_0_r. reflexivity.
        -- right. right. left. exists a, t. repeat split; try assumption. subst p. f_equal. lia.
      * destruct a as [|a].
        -- cbn in E2. inversion E2; subst t. left. exists q, c. subst p. rewrite Nat.add_0_r. repeat split; assumption.
        -- right. right. right. exists a, t, q, c. repeat split; try assumption. subst p. f_equal. lia.
Qed.

(* ------------------------------------------------------------------------------------------------------------ *)
(* the joint invariant of the two parser runs *)
Definition entry_ok (st st2 : tstate) (a : nat) (tl : prog) : Prop :=
  exists k k2 tb tb2,
    nth_error (t_adv st) a = Some (cnt tl, S k) /\ nth_error (t_adv st2) a = Some (cnt (update us tl), S k2) /\
    nth_error (t_tabs st) k = Some tb /\ nth_error (t_tabs st2) k2 = Some tb2 /\ desc (kids tl) tb tb2.

Definition referenced (st : tstate) : Prop :=
  forall k, (k < length (t_tabs st))%nat -> exists a c, nth_error (t_adv st) a = Some (c, S k).

Record J (done : list prog) (st st2 : tstate) : Prop := mkJ {
  J_wfs : t_wfs st2 = t_wfs st;
  J_len : length (t_adv st) = length done;
  J_len2 : length (t_adv st2) = length done;
  J_ent : forall a tl, nth_error done a = Some tl -> entry_ok st st2 a tl;
  J_pos : t_pos st = positions_of 0 done;
  J_pos2 : t_pos st2 = map updp (positions_of 0 done);
  J_ref : referenced st;
  J_ref2 : referenced st2 }.

Lemma kids_update t : kids (update us t) = map (update us) (kids t).
Proof. destruct t; reflexivity. Qed.
Lemma rep_of_update t : rep_of (update us t) = upd_rep us (rep_of t).
Proof. destruct t; reflexivity. Qed.

(* adding one parsed table to a state *)
Definition add_table (st : tstate) (c : Z) (es : list tent) (wfs' : list N) (ps : list (tpos * rep)) : tstate :=
  let '(tabs', ti) := match index_of tab_eqb es (t_tabs st) with
                      | Some k => (t_tabs st, k)
                      | None => (t_tabs st ++ [es], length (t_tabs st))
                      end in
  mkT (t_adv st ++ [(c, S ti)]) tabs' wfs' (t_pos st ++ ps) false.

Lemma add_table_spec st c es wfs' ps :
  exists k tb, t_adv (add_table st c es wfs' ps) = t_adv st ++ [(c, S k)] /\
               nth_error (t_tabs (add_table st c es wfs' ps)) k = Some tb /\ tab_eqb es tb = true /\
               t_wfs (add_table st c es wfs' ps) = wfs' /\ t_pos (add_table st c es wfs' ps) = t_pos st ++ ps /\
               (forall j y, nth_error (t_tabs st) j = Some y -> nth_error (t_tabs (add_table st c es wfs' ps)) j = Some y) /\
               (forall j, (j < length (t_tabs (add_table st c es wfs' ps)))%nat -> (j < length (t_tabs st))%nat \/ j = k).
Proof.
  assert (Refl : forall l, tab_eqb l l = true).
  { assert (P : forall p, poly_eqb p p = true).
    { induction p as [|[m z] p IH]; [reflexivity|]. cbn. rewrite IH, Z.eqb_refl, andb_true_r.
      unfold mono_eqb. assert (M : forall m0, mono_cmp m0 m0 = Eq).
      { induction m0 as [|x m0 IHm]; [reflexivity|]. cbn. rewrite N.compare_refl. exact IHm. }
      rewrite M. reflexivity. }
    assert (V : forall v, vprop_eqb v v = true).
    { intros [p d]. unfold vprop_eqb. cbn [fst snd]. rewrite P. cbn.
      induction d as [|[n q] d IH]; [reflexivity|]. rewrite N.eqb_refl, P, IH. reflexivity. }
    induction l as [|e l IH]; [reflexivity|]. cbn. rewrite IH, andb_true_r.
    unfold tent_eqb. rewrite Z.eqb_refl, N.eqb_refl. cbn. destruct (te_vol e); [apply V|reflexivity]. }
  unfold add_table. destruct (index_of tab_eqb es (t_tabs st)) as [k|] eqn:E.
  - destruct (index_of_some _ _ _ _ E) as [tb [Hk Eq]]. exists k, tb. cbn.
    repeat split; try assumption; auto.
  - exists (length (t_tabs st)), es. cbn. repeat split; auto.
    + apply nth_error_snoc_new.
    + intros j y Hy. apply nth_error_snoc_old. exact Hy.
    + intros j Hj. rewrite app_length in Hj. cbn in Hj. lia.
Qed.

Definition advpos (a : nat) (tl : prog) : list (tpos * rep) :=
  if is_vol (rep_of tl) then [(PAdv a, rep_of tl)] else [].

Lemma parse_aseq_unfold a tl rest st :
  parse_aseq a (tl :: rest) st =
  match parse_entries a 0 (kids tl) (t_wfs st) with
  | Err k => Err k
  | Ok (es, wfs', ps) => parse_aseq (S a) rest (add_table st (cnt tl) es wfs' (ps ++ advpos a tl))
  end.
Proof.
  cbn [parse_aseq]. destruct (parse_entries a 0 (kids tl) (t_wfs st)) as [[[es wfs'] ps]|]; [|reflexivity].
  unfold add_table, advpos. destruct (index_of tab_eqb es (t_tabs st)); reflexivity.
Qed.

Lemma advpos_update a tl : advpos a (update us tl) = map updp (advpos a tl).
Proof. unfold advpos. rewrite rep_of_update, is_vol_upd. destruct (is_vol (rep_of tl)); reflexivity. Qed.

Lemma J_step done st st2 tl es wfs' ps :
  J done st st2 ->
  parse_entries (length done) 0 (kids tl) (t_wfs st) = Ok (es, wfs', ps) ->
  exists es2,
    parse_entries (length done) 0 (kids (update us tl)) (t_wfs st2) = Ok (es2, wfs', map updp ps) /\
    J (done ++ [tl]) (add_table st (cnt tl) es wfs' (ps ++ advpos (length done) tl))
                     (add_table st2 (cnt (update us tl)) es2 wfs' (map updp ps ++ advpos (length done) (update us tl))).
Proof.
  intros Jv H. destruct (parse_entries_update _ _ _ _ _ _ _ H) as [es2 [R2 [D P]]].
  exists es2. split; [rewrite kids_update, (J_wfs _ _ _ Jv); exact R2|].
  set (st1 := add_table st (cnt tl) es wfs' (ps ++ advpos (length done) tl)).
  set (st21 := add_table st2 (cnt (update us tl)) es2 wfs' (map updp ps ++ advpos (length done) (update us tl))).
  destruct (add_table_spec st (cnt tl) es wfs' (ps ++ advpos (length done) tl))
    as [k [tb [A1 [A2 [A3 [A4 [A5 [A6 A7]]]]]]]]. fold st1 in A1, A2, A4, A5, A6, A7.
  destruct (add_table_spec st2 (cnt (update us tl)) es2 wfs' (map updp ps ++ advpos (length done) (update us tl)))
    as [k2 [tb2 [B1 [B2 [B3 [B4 [B5 [B6 B7]]]]]]]]. fold st21 in B1, B2, B4, B5, B6, B7.
  constructor.
  - congruence.
  - rewrite A1, !app_length, (J_len _ _ _ Jv). reflexivity.
  - rewrite B1, !app_length, (J_len2 _ _ _ Jv). reflexivity.
  - intros a tl0 Ha. apply nth_error_snoc_inv in Ha. destruct Ha as [Ha|[Ea Et]].
    + destruct (J_ent _ _ _ Jv a tl0 Ha) as [j [j2 [t [t2 [E1 [E2 [E3 [E4 E5]]]]]]]].
      exists j, j2, t, t2. rewrite A1, B1. repeat split; auto using nth_error_snoc_old.
    + subst a tl0. exists k, k2, tb, tb2. rewrite A1, B1.
      rewrite <- (J_len _ _ _ Jv) at 1. rewrite <- (J_len2 _ _ _ Jv) at 1. rewrite !nth_error_snoc_new.
      repeat split; auto. eapply desc_eqb_r; [eapply desc_eqb_l|]; eauto.
  - rewrite A5, (J_pos _ _ _ Jv), positions_of_app. cbn [positions_of plus]. rewrite app_nil_r. unfold advpos.
    rewrite P. reflexivity.
  - rewrite B5, (J_pos2 _ _ _ Jv), positions_of_app. cbn [positions_of plus]. rewrite app_nil_r.
    rewrite advpos_update, !map_app. unfold advpos. rewrite P. reflexivity.
  - intros j Hj. destruct (A7 j Hj) as [L| ->].
    + destruct (J_ref _ _ _ Jv j L) as [a [c Hc]]. exists a, c. rewrite A1. apply nth_error_snoc_old. exact Hc.
    + exists (length (t_adv st)), (cnt tl). rewrite A1. apply nth_error_snoc_new.
  - intros j Hj. destruct (B7 j Hj) as [L| ->].
    + destruct (J_ref2 _ _ _ Jv j L) as [a [c Hc]]. exists a, c. rewrite B1. apply nth_error_snoc_old. exact Hc.
    + exists (length (t_adv st2)), (cnt (update us tl)). rewrite B1. apply nth_error_snoc_new.
Qed.

Lemma parse_aseq_J : forall tabs done st st2 stf stf2,
  J done st st2 ->
  parse_aseq (length done) tabs st = Ok stf ->
  parse_aseq (length done) (map (update us) tabs) st2 = Ok stf2 ->
  J (done ++ tabs) stf stf2.
Proof.
  induction tabs as [|tl rest IH]; intros done st st2 stf stf2 Jv H H2.
  - cbn in H, H2. inversion H; inversion H2; subst. rewrite app_nil_r. exact Jv.
  - cbn [map] in H2. rewrite parse_aseq_unfold in H, H2.
    destruct (parse_entries (length done) 0 (kids tl) (t_wfs st)) as [[[es wfs'] ps]|] eqn:E; [|discriminate].
    destruct (J_step _ _ _ _ _ _ _ Jv E) as [es2 [R2 Jn]]. rewrite R2 in H2.
    replace (done ++ tl :: rest) with ((done ++ [tl]) ++ rest) by (rewrite <- app_assoc; reflexivity).
    eapply IH; [exact Jn| |]; rewrite app_length, Nat.add_1_r; eassumption.
Qed.

Definition st_empty : tstate := mkT [] [] [] [] false.

Lemma J_empty : J [] st_empty st_empty.
Proof.
  constructor; try reflexivity.
  - intros a tl H. destruct a; discriminate.
  - intros k H. cbn in H. lia.
  - intros k H. cbn in H. lia.
Qed.

(* ------------------------------------------------------------------------------------------------------------ *)
(* consequences of the invariant when both runs share the same tables *)
Lemma cnt_cntval t : cnt t = cntval (rep_of t).
Proof. reflexivity. Qed.

Lemma newval_fixed r : is_vol r = false -> newval us r = cntval r.
Proof. destruct r; [reflexivity|discriminate]. Qed.

Lemma coherent_intro adv : forall ps,
  (forall p r p' r', In (p, r) ps -> In (p', r') ps -> same_cell adv p p' = true -> newval us r = newval us r') ->
  cells_coherent us adv ps = true.
Proof.
  induction ps as [|[p r] rest IH]; intros H; [reflexivity|]. cbn [cells_coherent].
  apply andb_true_iff. split.
  - apply forallb_forall. intros [p' r'] I. cbn [fst snd].
    destruct (same_cell adv p p') eqn:S; [|reflexivity]. cbn.
    apply Z.eqb_eq. eapply H; [left; reflexivity|right; exact I|exact S].
  - apply IH. intros p0 r0 p' r' I I'. apply H; right; assumption.
Qed.

Section Final.
Variables (done : list prog) (st st2 : tstate).
Hypothesis Jv : J done st st2.
Hypothesis Hsnd : map snd (t_adv st2) = map snd (t_adv st).

Lemma K_ent : forall a tl, nth_error done a = Some tl ->
  exists k tb tb2, nth_error (t_adv st) a = Some (cnt tl, S k) /\
                   nth_error (t_adv st2) a = Some (cnt (update us tl), S k) /\
                   nth_error (t_tabs st) k = Some tb /\ nth_error (t_tabs st2) k = Some tb2 /\ desc (kids tl) tb tb2.
Proof.
  intros a tl H. destruct (J_ent _ _ _ Jv a tl H) as [k [k2 [tb [tb2 [E1 [E2 [E3 [E4 E5]]]]]]]].
  pose proof (nth_error_map_snd _ _ a Hsnd) as M. rewrite E1, E2 in M. cbn in M. inversion M; subst k2.
  exists k, tb, tb2. repeat split; assumption.
Qed.

Lemma done_of_adv : forall a x, nth_error (t_adv st) a = Some x -> exists tl, nth_error done a = Some tl.
Proof.
  intros a x H. assert (L : (a < length done)%nat) by (rewrite <- (J_len _ _ _ Jv); apply nth_error_Some; congruence).
  destruct (nth_error done a) eqn:E; [eauto|]. apply nth_error_None in E. lia.
Qed.

Lemma done_of_adv2 : forall a x, nth_error (t_adv st2) a = Some x -> exists tl, nth_error done a = Some tl.
Proof.
  intros a x H. assert (L : (a < length done)%nat) by (rewrite <- (J_len2 _ _ _ Jv); apply nth_error_Some; congruence).
  destruct (nth_error done a) eqn:E; [eauto|]. apply nth_error_None in E. lia.
Qed.

Lemma tabs_len : length (t_tabs st2) = length (t_tabs st).
Proof.
  destruct (Nat.lt_trichotomy (length (t_tabs st2)) (length (t_tabs st))) as [L|[E|L]]; [|exact E|]; exfalso.
  - destruct (J_ref _ _ _ Jv _ L) as [a [c Hc]]. destruct (done_of_adv _ _ Hc) as [tl Ht].
    destruct (K_ent _ _ Ht) as [k [tb [tb2 [E1 [_ [_ [E4 _]]]]]]]. rewrite Hc in E1.
    assert (k < length (t_tabs st2))%nat by (apply nth_error_Some; congruence). inversion E1. lia.
  - destruct (J_ref2 _ _ _ Jv _ L) as [a [c Hc]]. destruct (done_of_adv2 _ _ Hc) as [tl Ht].
    destruct (K_ent _ _ Ht) as [k [tb [tb2 [_ [E2 [E3 _]]]]]]. rewrite Hc in E2.
    assert (k < length (t_tabs st))%nat by (apply nth_error_Some; congruence). inversion E2. lia.
Qed.

(* what a recorded position is *)
Lemma pos_adv : forall a r, In (PAdv a, r) (t_pos st) <->
  exists tl, nth_error done a = Some tl /\ r = rep_of tl /\ is_vol r = true.
Proof.
  intros a r. rewrite (J_pos _ _ _ Jv), positions_of_in. cbn [plus]. split.
  - intros [[a' [tl [E1 [E2 [E3 E4]]]]]|[a' [tl [q [c [E1 _]]]]]]; [|discriminate].
    inversion E1; subst a'. eauto.
  - intros [tl [E2 [E3 E4]]]. left. exists a, tl. auto.
Qed.

Lemma pos_seq : forall a q r, In (PSeqPos a q, r) (t_pos st) <->
  exists tl c, nth_error done a = Some tl /\ nth_error (kids tl) q = Some c /\ r = rep_of c /\ is_vol r = true.
Proof.
  intros a q r. rewrite (J_pos _ _ _ Jv), positions_of_in. cbn [plus]. split.
  - intros [[a' [tl [E1 _]]]|[a' [tl [q' [c [E1 [E2 [E3 [E4 E5]]]]]]]]]; [discriminate|].
    inversion E1; subst a' q'. exists tl, c. auto.
  - intros [tl [c [E2 [E3 [E4 E5]]]]]. right. exists a, tl, q, c. auto.
Qed.

(* equal sharing makes the recorded positions coherent: guard_C15_shared_table is a consequence here *)
Lemma sharing_coherent : cells_coherent us (t_adv st) (t_pos st) = true.
Proof.
  apply coherent_intro. intros p r p' r' I I' S. apply same_cell_true in S. destruct S as [c [C1 C2]].
  destruct p as [a|a q], p' as [a'|a' q']; cbn [cell_of] in C1, C2.
  - inversion C1; inversion C2; subst. inversion H1; subst a'.
    apply pos_adv in I, I'. destruct I as [tl [E1 [E2 _]]], I' as [tl' [E1' [E2' _]]]. congruence.
  - destruct (nth_error (t_adv st) a') as [[? ?]|]; inversion C1; inversion C2; subst; discriminate.
  - destruct (nth_error (t_adv st) a) as [[? ?]|]; inversion C1; inversion C2; subst; discriminate.
  - apply pos_seq in I, I'. destruct I as [tl [c0 [E1 [E2 [E3 _]]]]], I' as [tl' [c0' [E1' [E2' [E3' _]]]]].
    destruct (K_ent _ _ E1) as [k [tb [tb2 [A1 [_ [_ [A4 A5]]]]]]].
    destruct (K_ent _ _ E1') as [k' [tb' [tb2' [A1' [_ [_ [A4' A5']]]]]]].
    rewrite A1 in C1. rewrite A1' in C2. cbn in C1, C2. inversion C1; subst c. inversion C2; subst k' q'.
    rewrite A4 in A4'. inversion A4'; subst tb2'.
    destruct (desc_nth _ _ _ A5 _ _ E2) as [e [e2 [_ [N2 [_ [M2 _]]]]]].
    destruct (desc_nth _ _ _ A5' _ _ E2') as [e' [e2' [_ [N2' [_ [M2' _]]]]]].
    rewrite N2 in N2'. inversion N2'; subst e2'. subst r r'. congruence.
Qed.

Variables (st' : tstate) (ms : list tmod).
Hypothesis Hupd : update_tabor us st = (st', ms).

Lemma recompile_adv : t_adv st' = t_adv st2.
Proof.
  destruct (update_tabor_cells _ _ _ _ Hupd sharing_coherent) as [S1 [_ [_ [_ [_ [P3 [P4 _]]]]]]].
  apply nth_error_ext. intros a.
  pose proof (nth_error_map_snd _ _ a S1) as M.
  destruct (nth_error done a) as [tl|] eqn:Ed.
  - destruct (K_ent _ _ Ed) as [k [tb [tb2 [A1 [A2 _]]]]]. rewrite A1 in M. rewrite A2.
    destruct (nth_error (t_adv st') a) as [[c' el']|] eqn:E'; [|contradiction]. cbn in M. subst el'.
    assert (R : read (t_adv st') (t_tabs st') (CAdv a) = Some c') by (cbn; rewrite E'; reflexivity).
    assert (R0 : read (t_adv st) (t_tabs st) (CAdv a) = Some (cnt tl)) by (cbn; rewrite A1; reflexivity).
    f_equal. f_equal. destruct (is_vol (rep_of tl)) eqn:V.
    + assert (I : In (PAdv a, rep_of tl) (t_pos st)) by (apply pos_adv; exists tl; auto).
      rewrite (P3 _ _ (CAdv a) I eq_refl) in R by congruence. inversion R.
      rewrite cnt_cntval, rep_of_update. reflexivity.
    + rewrite P4, R0 in R.
      * inversion R. symmetry. apply cnt_update_fixed. exact V.
      * intros p r I C. destruct p as [a'|a' q]; cbn [cell_of] in C.
        -- inversion C; subst a'. apply pos_adv in I. destruct I as [tl' [E1 [E2 E3]]]. congruence.
        -- destruct (nth_error (t_adv st) a') as [[? ?]|]; discriminate.
  - assert (L : (length done <= a)%nat) by (apply nth_error_None; exact Ed).
    assert (N2 : nth_error (t_adv st2) a = None) by (apply nth_error_None; rewrite (J_len2 _ _ _ Jv); exact L).
    assert (N1 : nth_error (t_adv st) a = None) by (apply nth_error_None; rewrite (J_len _ _ _ Jv); exact L).
    rewrite N1 in M. rewrite N2. destruct (nth_error (t_adv st') a); [contradiction|reflexivity].
Qed.

Lemma shape_nth : forall (tabs tabs' : list (list tent)) k tb,
  shape_tabs tabs' = shape_tabs tabs -> nth_error tabs k = Some tb ->
  exists tb', nth_error tabs' k = Some tb' /\
              map (fun e => (te_wf e, te_vol e)) tb' = map (fun e => (te_wf e, te_vol e)) tb.
Proof.
  intros tabs tabs' k tb H Hk. unfold shape_tabs in H.
  assert (E : nth_error (map (map (fun e => (te_wf e, te_vol e))) tabs') k =
              nth_error (map (map (fun e => (te_wf e, te_vol e))) tabs) k) by (rewrite H; reflexivity).
  rewrite !nth_error_map, Hk in E. destruct (nth_error tabs' k) as [tb'|]; [|discriminate].
  cbn in E. inversion E. eauto.
Qed.

Lemma recompile_tabs : map (map tent_obs) (t_tabs st') = map (map tent_obs) (t_tabs st2).
Proof.
  destruct (update_tabor_cells _ _ _ _ Hupd sharing_coherent) as [_ [S2 [_ [_ [_ [P3 [P4 _]]]]]]].
  assert (Ln : length (t_tabs st') = length (t_tabs st)).
  { unfold shape_tabs in S2. apply (f_equal (@length _)) in S2. rewrite !map_length in S2. exact S2. }
  apply nth_error_ext. intros k. rewrite !nth_error_map.
  destruct (nth_error (t_tabs st) k) as [tb0|] eqn:Ek.
  2:{ assert (L : (length (t_tabs st) <= k)%nat) by (apply nth_error_None; exact Ek).
      assert (N1 : nth_error (t_tabs st') k = None) by (apply nth_error_None; lia).
      assert (N2 : nth_error (t_tabs st2) k = None) by (apply nth_error_None; rewrite tabs_len; exact L).
      rewrite N1, N2. reflexivity. }
  assert (Lk : (k < length (t_tabs st))%nat) by (apply nth_error_Some; congruence).
  destruct (J_ref _ _ _ Jv k Lk) as [a [c0 Hc]]. destruct (done_of_adv _ _ Hc) as [tl Ht].
  destruct (K_ent _ _ Ht) as [k0 [tb [tb2 [A1 [A2 [A3 [A4 A5]]]]]]].
  rewrite Hc in A1. inversion A1; subst c0 k0. clear A1. rewrite A3 in Ek. inversion Ek; subst tb0. clear Ek.
  destruct (shape_nth _ _ _ _ S2 A3) as [tb' [E' Sh]].
  rewrite E', A4. cbn [option_map]. f_equal.
  destruct (desc_len _ _ _ A5) as [L1 L2].
  assert (L' : length tb' = length tb) by (apply (f_equal (@length _)) in Sh; rewrite !map_length in Sh; exact Sh).
  apply nth_error_ext. intros q. rewrite !nth_error_map.
  destruct (nth_error (kids tl) q) as [c|] eqn:Eq.
  2:{ assert (L : (length (kids tl) <= q)%nat) by (apply nth_error_None; exact Eq).
      assert (N1 : nth_error tb' q = None) by (apply nth_error_None; lia).
      assert (N2 : nth_error tb2 q = None) by (apply nth_error_None; lia).
      rewrite N1, N2. reflexivity. }
  destruct (desc_nth _ _ _ A5 _ _ Eq) as [e [e2 [N1 [N2 [C1 [C2 [W [F1 F2]]]]]]]].
  assert (Sq : nth_error (map (fun e => (te_wf e, te_vol e)) tb') q = nth_error (map (fun e => (te_wf e, te_vol e)) tb) q)
    by (rewrite Sh; reflexivity).
  rewrite !nth_error_map, N1 in Sq. destruct (nth_error tb' q) as [e'|] eqn:Ne'; [|discriminate].
  cbn in Sq. inversion Sq as [[Sw Sv]]. rewrite N2. cbn [option_map]. f_equal.
  assert (R : read (t_adv st') (t_tabs st') (CTab k q) = Some (te_count e')) by (cbn; rewrite E', Ne'; reflexivity).
  assert (R0 : read (t_adv st) (t_tabs st) (CTab k q) = Some (te_count e)) by (cbn; rewrite A3, N1; reflexivity).
  assert (Cnt : te_count e' = te_count e2).
  { destruct (is_vol (rep_of c)) eqn:V.
    - assert (I : In (PSeqPos a q, rep_of c) (t_pos st)) by (apply pos_seq; exists tl, c; auto).
      assert (Cl : cell_of (t_adv st) (PSeqPos a q) = Some (CTab k q)) by (cbn; rewrite Hc; reflexivity).
      rewrite (P3 _ _ _ I Cl) in R by congruence. inversion R. congruence.
    - rewrite P4, R0 in R.
      + inversion R. rewrite C2, newval_fixed by exact V. congruence.
      + intros p r I C. destruct p as [a'|a' q']; cbn [cell_of] in C; [discriminate|].
        destruct (nth_error (t_adv st) a') as [[c1 el1]|] eqn:Ea'; [|discriminate]. inversion C; subst q'.
        apply pos_seq in I. destruct I as [tl' [c' [E1 [E2 [E3 E4]]]]].
        destruct (K_ent _ _ E1) as [k1 [tb1 [tb21 [B1 [_ [B3 [_ B5]]]]]]].
        rewrite Ea' in B1. inversion B1; subst c1 el1. cbn in H0. subst k1.
        rewrite A3 in B3. inversion B3; subst tb1.
        destruct (desc_nth _ _ _ B5 _ _ E2) as [x [x2 [X1 [_ [_ [_ [_ [G1 _]]]]]]]].
        rewrite N1 in X1. inversion X1; subst x. subst r. congruence. }
  unfold tent_obs. rewrite Cnt, Sw, Sv. rewrite <- W. f_equal. f_equal.
  fold (vflag e). fold (vflag e2). congruence.
Qed.

Lemma recompile_view : tab_view st' = tab_view st2.
Proof.
  unfold tab_view. rewrite recompile_adv, recompile_tabs.
  destruct (update_tabor_cells _ _ _ _ Hupd sharing_coherent) as [_ [_ [Wf [_ [Ps _]]]]].
  rewrite Wf, (J_wfs _ _ _ Jv). f_equal.
  rewrite Ps, (J_pos2 _ _ _ Jv), (J_pos _ _ _ Jv), !map_map. reflexivity.
Qed.
End Final.

Lemma tabor_recompile : forall tabs st st2 st' ms,
  parse_aseq 0 tabs st_empty = Ok st ->
  parse_aseq 0 (map (update us) tabs) st_empty = Ok st2 ->
  map snd (t_adv st2) = map snd (t_adv st) ->
  update_tabor us st = (st', ms) ->
  tab_view st' = tab_view st2 /\ guard_C15_shared_table us st = true.
Proof.
  intros tabs st st2 st' ms H H2 Hs Hu.
  pose proof (parse_aseq_J tabs [] st_empty st_empty st st2 J_empty H H2) as Jv. cbn [app] in Jv.
  split; [eapply recompile_view; eauto|eapply sharing_coherent; eauto].
Qed.
End Parse.
