(* C15 — property theorems (statements only; proofs live in Proofs.v). *)
From Coq Require Import ZArith NArith Bool List.
Require Import QV.C15.Model QV.C15.Spec QV.C15.Proofs.
Import ListNotations.
Open Scope Z_scope.

Theorem C15_update_keeps_fixed : forall us n m w ch, rep_of (update us (Node (Fixed n) m w ch)) = Fixed n.
Proof. exact update_fixed_root. Qed.
Print Assumptions C15_update_keeps_fixed.
