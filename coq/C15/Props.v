(* C15 — property theorems (statements only; proofs live in Proofs.v). *)
From Coq Require Import ZArith NArith QArith Qabs Bool List.
Require Import QV.C15.Model QV.C15.Spec QV.C15.ModelQ QV.C15.Proofs QV.C15.Proofs_upd QV.C15.Proofs_prep QV.C15.Proofs_q
  QV.C15.Proofs_parse QV.C15.Proofs_e2e QV.C15.ModelMC QV.C15.Proofs_mc QV.C15.ModelF QV.C15.Proofs_f QV.C15.Proofs_split QV.C15.Proofs_fr QV.C15.Proofs_r5 QV.C15.Proofs_r6.
Import ListNotations.
Open Scope Z_scope.

(* the key set of get_volatile_parameters() (any nesting of dict / mapped / joint scopes) is exactly the set of names
   whose value depends on a volatile parameter through the mappings *)
Theorem C15_marked_keys : forall s x, mem x (vkeys s) = depends s x.
Proof. exact vkeys_depends. Qed.
Print Assumptions C15_marked_keys.

(* instantiation: the program tree (shape, counts, which counts are volatile, their dependency keys) is the one the
   scope-free specification describes: a count is marked volatile iff its expression depends on a volatile parameter *)
Theorem C15_marked : forall p vals V, prog_obs (create_program p vals V) = spec_program p vals V.
Proof. exact create_program_meets_spec. Qed.
Print Assumptions C15_marked.

(* updating = re-instantiating, one update *)
Theorem C15_update : forall p vals V us t,
  keys_in us V = true ->
  guard_C15_zero_count p vals V = true -> guard_C15_zero_count p (override us vals) V = true ->
  create_program p vals V = Ok (Some t) ->
  create_program p (override us vals) V = Ok (Some (update us t)).
Proof. exact update_is_reinstantiate. Qed.
Print Assumptions C15_update.

(* ... every sequence of updates *)
Theorem C15_update_sequence : forall ups p vals V t,
  guard_C15_zero_count_seq p vals V ups = true ->
  create_program p vals V = Ok (Some t) ->
  create_program p (override_all ups vals) V = Ok (Some (update_all ups t)).
Proof. exact update_sequence_is_reinstantiate. Qed.
Print Assumptions C15_update_sequence.

(* without the guard the statement is false for the unchanged code (known finding C15-zero-count-dropped) *)
Theorem C15_update_refuted :
  exists p vals V us t,
    keys_in us V = true /\ create_program p vals V = Ok (Some t) /\
    create_program p (override us vals) V <> Ok (Some (update us t)).
Proof. exact update_zero_count_refuted. Qed.
Print Assumptions C15_update_refuted.

(* the hypotheses are satisfiable by a nested, mapped, multiplied template whose counts really change *)
Theorem C15_update_nonvacuous :
  guard_C15_zero_count_seq ex_pt [(2%N, 3); (4%N, 1)] [4%N] [[(4%N, 2)]; [(4%N, 5)]] = true /\
  exists t, create_program ex_pt [(2%N, 3); (4%N, 1)] [4%N] = Ok (Some t) /\
            obs_of (update_all [[(4%N, 2)]; [(4%N, 5)]] t) <> obs_of t.
Proof. exact (conj ex_guard ex_changes). Qed.
Print Assumptions C15_update_nonvacuous.

(* merging keeps volatility, and cleanup (remove empty loops + merge single children) commutes with updates *)
Theorem C15_merge_keeps_volatile : forall r rc, is_vol (merge_rep r rc) = is_vol r || is_vol rc.
Proof. exact is_vol_merge_rep. Qed.
Print Assumptions C15_merge_keeps_volatile.

Theorem C15_cleanup_commutes : forall us t, cleanup (update us t) = update us (cleanup t).
Proof. exact cleanup_update. Qed.
Print Assumptions C15_cleanup_commutes.

Theorem C15_cleanup_update : forall ups p vals V t,
  guard_C15_zero_count_seq p vals V ups = true ->
  create_program p vals V = Ok (Some t) ->
  exists t', create_program p (override_all ups vals) V = Ok (Some t') /\
             cleanup t' = update_all ups (cleanup t).
Proof. exact cleanup_update_is_reinstantiate. Qed.
Print Assumptions C15_cleanup_update.

(* the merged count is the product of the counts *)
Theorem C15_merge_count : forall r rc a b,
  int_of_rep r = Some a -> int_of_rep rc = Some b ->
  (match r, rc with Vol _ _, Vol _ _ => False | _, _ => True end) -> 0 <= a -> 0 <= b ->
  int_of_rep (merge_rep r rc) = Some (a * b).
Proof. exact merge_rep_count. Qed.
Print Assumptions C15_merge_count.

Theorem C15_merge_joint_count : forall e s ec sc v1 v2,
  eval (get_param s) e = Some v1 -> eval (get_param sc) ec = Some v2 ->
  int_of_rep (merge_rep (Vol e s) (Vol ec sc)) = Some (Z.max 0 (v1 * v2)).
Proof. exact merge_rep_count_joint. Qed.
Print Assumptions C15_merge_joint_count.

Theorem C15_merge_joint_dep_keys : forall e s ec sc,
  intersects (vars e) (vkeys s) = true -> intersects (vars ec) (vkeys sc) = true ->
  dep_keys (merge_rep (Vol e s) (Vol ec sc)) = Some [JP; JC].
Proof. exact merge_joint_dep_keys. Qed.
Print Assumptions C15_merge_joint_dep_keys.

(* two merged volatile counts that are both updated to negative values multiply to a positive count (each alone is
   clamped to 0) *)
Theorem C15_merge_joint_refuted :
  exists r rc a b, int_of_rep r = Some a /\ int_of_rep rc = Some b /\ int_of_rep (merge_rep r rc) <> Some (a * b).
Proof. exact merge_joint_negative_refuted. Qed.
Print Assumptions C15_merge_joint_refuted.

(* flatten_and_balance: if no volatile loop had to be unrolled (no VolatileModificationWarning: structure_stable is
   then a consequence, not a hypothesis) flattening commutes with updates *)
Theorem C15_flatten_commutes : forall us f d todo l,
  fab f d todo false = Ok (l, false) ->
  fab f d (map (update us) todo) false = Ok (map (update us) l, false).
Proof. exact fab_update. Qed.
Print Assumptions C15_flatten_commutes.

(* Tabor: update_volatile_parameters never changes which table / waveform an entry refers to nor the volatile marks,
   and every reported modification carries the new value of the count recorded at that position (no guard needed) *)
Theorem C15_tabor_update_shape : forall us ps adv tabs adv' tabs' ms,
  update_positions us ps adv tabs = (adv', tabs', ms) ->
  map snd adv' = map snd adv /\ shape_tabs tabs' = shape_tabs tabs /\
  forall m, In m ms -> exists r, In (mod_pos m, r) ps /\ mod_count m = newval us r.
Proof. exact update_positions_shape. Qed.
Print Assumptions C15_tabor_update_shape.

(* Tabor, the update step in full.  A recorded position resolves to a memory cell (advanced entry a, or entry q of the
   sequencer table the advanced entry points to).  If recorded positions that resolve to the same cell agree on the
   new value (guard_C15_shared_table; positions addressing pairwise distinct cells are the special case below) then
   after update_volatile_parameters: every recorded position holds the new value of its count, no other cell
   changes, the returned map names exactly the cells whose count changed and carries the new count together with the
   element stored in that cell; the waveform list, the table shapes and the recorded positions are kept. *)
Theorem C15_tabor_update : forall us st st' ms,
  update_tabor us st = (st', ms) ->
  guard_C15_shared_table us st = true ->
  map snd (t_adv st') = map snd (t_adv st) /\ shape_tabs (t_tabs st') = shape_tabs (t_tabs st) /\
  t_wfs st' = t_wfs st /\ t_single st' = t_single st /\
  t_pos st' = map (fun pr => (fst pr, upd_rep us (snd pr))) (t_pos st) /\
  (forall p r c, In (p, r) (t_pos st) -> cell_of (t_adv st) p = Some c -> read (t_adv st) (t_tabs st) c <> None ->
                 read (t_adv st') (t_tabs st') c = Some (newval us r)) /\
  (forall c, (forall p r, In (p, r) (t_pos st) -> cell_of (t_adv st) p <> Some c) ->
             read (t_adv st') (t_tabs st') c = read (t_adv st) (t_tabs st) c) /\
  (forall c, read (t_adv st') (t_tabs st') c <> read (t_adv st) (t_tabs st) c <->
             exists m, In m ms /\ cell_of (t_adv st) (mod_pos m) = Some c) /\
  (forall m, In m ms -> exists c, cell_of (t_adv st) (mod_pos m) = Some c /\
                                  read (t_adv st') (t_tabs st') c = Some (mod_count m) /\
                                  elem_at (t_adv st) (t_tabs st) c = Some (mod_elem m)).
Proof. exact update_tabor_cells. Qed.
Print Assumptions C15_tabor_update.

Theorem C15_tabor_update_distinct : forall us st st' ms,
  update_tabor us st = (st', ms) ->
  cells_distinct (t_adv st) (t_pos st) = true ->
  (forall p r c, In (p, r) (t_pos st) -> cell_of (t_adv st) p = Some c -> read (t_adv st) (t_tabs st) c <> None ->
                 read (t_adv st') (t_tabs st') c = Some (newval us r)) /\
  (forall c, read (t_adv st') (t_tabs st') c <> read (t_adv st) (t_tabs st) c <->
             exists m, In m ms /\ cell_of (t_adv st) (mod_pos m) = Some c).
Proof. exact update_tabor_cells_distinct. Qed.
Print Assumptions C15_tabor_update_distinct.

(* without the guard the statement is false of the faithful model: the compiled witness of the known finding
   C15-tabor-shared-volatile-table (two tables whose counts n*m-m+1 agree at n=1 under m=2 / m=3 share one sequencer
   table; after the update n=2 the first recorded position does not hold its new value) *)
Theorem C15_tabor_update_refuted :
  exists st us st' ms p r c,
    shared_state = Some st /\ update_tabor us st = (st', ms) /\
    In (p, r) (t_pos st) /\ cell_of (t_adv st) p = Some c /\ read (t_adv st) (t_tabs st) c <> None /\
    read (t_adv st') (t_tabs st') c <> Some (newval us r) /\
    guard_C15_shared_table us st = false.
Proof. exact update_tabor_shared_refuted. Qed.
Print Assumptions C15_tabor_update_refuted.

(* the guard is satisfiable by a compiled program whose sequencer tables ARE shared (so the positions are not
   cell-distinct) and whose update changes table entries *)
Theorem C15_tabor_update_nonvacuous :
  exists st us st' ms,
    coherent_state = Some st /\ update_tabor us st = (st', ms) /\
    guard_C15_shared_table us st = true /\ cells_distinct (t_adv st) (t_pos st) = false /\ ms <> [].
Proof. exact update_tabor_nonvacuous. Qed.
Print Assumptions C15_tabor_update_nonvacuous.

(* prepare_program_for_advanced_sequence_mode (merge with neighbour, partial unrolling, split_one_child, extension by
   a neighbour's iteration): if the compilation raised no VolatileModificationWarning and the compilation of the
   updated tables takes the same decisions (the ghost list of decisions is equal: every count-dependent test falls on
   the same branch), then compile . update = update . compile on the list of sequence tables.  No guard for a finding
   is needed after the repairs 1ee1549 / 25f27a3 / 86f493f. *)
Theorem C15_prepare_commutes : forall us f mn mx i tabs tabs' tr tabs2 w2,
  prepare f mn mx i tabs false = Ok (tabs', false, tr) ->
  prepare f mn mx i (map (update us) tabs) false = Ok (tabs2, w2, tr) ->
  tabs2 = map (update us) tabs' /\ w2 = false.
Proof. exact prepare_update. Qed.
Print Assumptions C15_prepare_commutes.

(* ... together with flatten_and_balance(2): setup_advanced_sequence_mode up to the parser *)
Theorem C15_adv_tables_commute : forall us f mn mx t1 tabs tr tabs2 w2,
  adv_tables f mn mx t1 = Ok (tabs, false, tr) ->
  adv_tables f mn mx (update us t1) = Ok (tabs2, w2, tr) ->
  tabs2 = map (update us) tabs /\ w2 = false.
Proof. exact adv_tables_update. Qed.
Print Assumptions C15_adv_tables_commute.

Theorem C15_prepare_nonvacuous : exists us f mn mx tabs tabs' tr,
  prepare f mn mx 0 tabs false = Ok (tabs', false, tr) /\
  prepare f mn mx 0 (map (update us) tabs) false = Ok (map (update us) tabs', false, tr) /\
  map (update us) tabs' <> tabs' /\
  existsb (fun d => match d with DSkip => false | _ => true end) tr = true.
Proof. exact prepare_update_nonvacuous. Qed.
Print Assumptions C15_prepare_nonvacuous.

(* the same-decisions hypothesis cannot be dropped: an update can flip a count-dependent decision *)
Theorem C15_prepare_refuted : exists us f mn mx tabs tabs' tr tabs2 w2 tr2,
  prepare f mn mx 0 tabs false = Ok (tabs', false, tr) /\
  prepare f mn mx 0 (map (update us) tabs) false = Ok (tabs2, w2, tr2) /\
  tr2 <> tr /\ tabs2 <> map (update us) tabs'.
Proof. exact prepare_update_needs_same_trace. Qed.
Print Assumptions C15_prepare_refuted.

(* non-integer values of a count parameter (ModelQ.v).  The integer model is the restriction of the rational one;
   on integer values the update path (VolatileRepetitionCount.__int__) and the instantiation path
   (get_repetition_count_value) agree; on a non-integer value the update rounds (ties to even) where the
   instantiation raises: known finding C15-noninteger-update-rounds *)
Theorem C15_noninteger_restriction : forall env envq e,
  (forall x, match envq x, env x with Some q, Some z => (q == inject_Z z)%Q | None, None => True | _, _ => False end) ->
  match evalQ envq e, eval env e with Some q, Some z => (q == inject_Z z)%Q | None, None => True | _, _ => False end.
Proof. exact evalQ_inject. Qed.
Print Assumptions C15_noninteger_restriction.

Theorem C15_noninteger_integer_agree : forall q, is_intQ q = true -> count_fresh q = Some (count_update q).
Proof. exact count_integer_agree. Qed.
Print Assumptions C15_noninteger_integer_agree.

Theorem C15_noninteger_refuted : exists q, count_fresh q = None /\ count_update q = 2.
Proof. exact count_noninteger_refuted. Qed.
Print Assumptions C15_noninteger_refuted.

(* The parser step (was C15_tabor_recompile_statement).  parse_aseq_program of the updated sequence tables, when it
   shares the same sequencer tables (equal table numbers in the advanced sequencer table), yields exactly what
   update_volatile_parameters makes of the parsed original tables: advanced table, sequencer tables (count, waveform
   index, volatile mark), waveform list and recorded positions.  guard_C15_shared_table is a CONSEQUENCE here: equal
   sharing makes positions that address the same cell agree on the new value. *)
Theorem C15_tabor_recompile : forall us tabs st st2 st' ms,
  parse_aseq 0 tabs (mkT [] [] [] [] false) = Ok st ->
  parse_aseq 0 (map (update us) tabs) (mkT [] [] [] [] false) = Ok st2 ->
  map snd (t_adv st2) = map snd (t_adv st) ->
  update_tabor us st = (st', ms) ->
  tab_view st' = tab_view st2 /\ guard_C15_shared_table us st = true.
Proof. exact tabor_recompile. Qed.
Print Assumptions C15_tabor_recompile.

(* Tabor end to end (root encapsulation, mode choice, flatten_and_balance(2), prepare_program_for_advanced_sequence_mode,
   parser; single and advanced sequence mode): if the compilation raised no VolatileModificationWarning, the
   compilation of the updated program takes the same decisions and shares the same sequencer tables, then the tables
   after update_volatile_parameters ARE the tables of the fresh compilation of the updated program. *)
Theorem C15_tabor_compile_commutes : forall us f mode mn mx t st tr st2 w2 st' ms,
  tabor_compile f mode mn mx t = Ok (st, false, tr) ->
  tabor_compile f mode mn mx (update us t) = Ok (st2, w2, tr) ->
  map snd (t_adv st2) = map snd (t_adv st) ->
  update_tabor us st = (st', ms) ->
  tab_view st' = tab_view st2 /\ w2 = false /\ guard_C15_shared_table us st = true.
Proof. exact tabor_compile_update. Qed.
Print Assumptions C15_tabor_compile_commutes.

Theorem C15_tabor_compile_nonvacuous : exists t us st tr st2 st' ms,
  create_program coherent_pt [(1%N, 1)] [1%N] = Ok (Some t) /\
  tabor_compile 100 None 1 8 t = Ok (st, false, tr) /\
  tabor_compile 100 None 1 8 (update us t) = Ok (st2, false, tr) /\
  map snd (t_adv st2) = map snd (t_adv st) /\ update_tabor us st = (st', ms) /\ ms <> [] /\
  cells_distinct (t_adv st) (t_pos st) = false.
Proof. exact tabor_compile_update_nonvacuous. Qed.
Print Assumptions C15_tabor_compile_nonvacuous.

(* the equal-sharing hypothesis cannot be dropped (known finding C15-tabor-shared-volatile-table) *)
Theorem C15_tabor_compile_refuted : exists t us st tr st2 st' ms,
  create_program shared_pt [(1%N, 1)] [1%N] = Ok (Some t) /\
  tabor_compile 100 None 1 8 t = Ok (st, false, tr) /\
  tabor_compile 100 None 1 8 (update us t) = Ok (st2, false, tr) /\
  update_tabor us st = (st', ms) /\
  map snd (t_adv st2) <> map snd (t_adv st) /\ tab_view st' <> tab_view st2.
Proof. exact tabor_compile_update_needs_sharing. Qed.
Print Assumptions C15_tabor_compile_refuted.

(* SINGLE sequence mode, unconditionally (no hypothesis on decisions, sharing or warnings; counts_ok is the model's
   bound on counts): the root decision never depends on a count an update can change and there is one table, so
   recompiling the updated program succeeds with the same decisions and yields exactly the updated tables *)
Theorem C15_tabor_single_mode : forall us f mn mx t st w tr st' ms,
  tabor_compile f (Some MSingle) mn mx t = Ok (st, w, tr) ->
  counts_ok (update us t) = true ->
  update_tabor us st = (st', ms) ->
  exists st2, tabor_compile f (Some MSingle) mn mx (update us t) = Ok (st2, false, tr) /\
              tab_view st' = tab_view st2 /\ w = false.
Proof. exact tabor_single_update. Qed.
Print Assumptions C15_tabor_single_mode.

Theorem C15_tabor_single_mode_nonvacuous : exists t st w tr st' ms,
  create_program single_pt [(1%N, 2)] [1%N] = Ok (Some t) /\
  tabor_compile 100 (Some MSingle) 1 8 (cleanup t) = Ok (st, w, tr) /\
  counts_ok (update [(1%N, 0)] (cleanup t)) = true /\
  update_tabor [(1%N, 0)] st = (st', ms) /\ length ms = 2%nat.
Proof. exact tabor_single_update_nonvacuous. Qed.
Print Assumptions C15_tabor_single_mode_nonvacuous.

(* a sufficient condition visible in the FIRST compilation alone (any mode): it raised no warning and took only DSkip
   decisions after the root decision (every sequence table had a valid length).  Then the compilation of every updated
   program (within the model bound counts_ok) exists, takes the same decisions, raises no warning, and - when the
   parser shares the same tables - its tables are exactly the updated tables.  Only the sharing hypothesis is left. *)
Theorem C15_tabor_compile_skip_only : forall us f mode mn mx t st b tr,
  tabor_compile f mode mn mx t = Ok (st, false, DRoot b :: tr) -> forallb is_skip tr = true ->
  counts_ok (update us t) = true ->
  exists st2, tabor_compile f mode mn mx (update us t) = Ok (st2, false, DRoot b :: tr) /\
              forall st' ms, map snd (t_adv st2) = map snd (t_adv st) -> update_tabor us st = (st', ms) ->
                             tab_view st' = tab_view st2.
Proof. exact tabor_compile_skip_only. Qed.
Print Assumptions C15_tabor_compile_skip_only.

(* an input-level sufficient condition for "the compilation of the updated tables takes the same decisions": when
   every sequence table already has a valid length, prepare_program_for_advanced_sequence_mode takes no
   count-dependent decision (all DSkip) for the tables and for every update of them *)
Theorem C15_prepare_decisions_long_tables : forall us f mn mx tabs,
  long_enough mn mx tabs = true -> (length tabs < f)%nat ->
  prepare f mn mx 0 tabs false = Ok (tabs, false, repeat DSkip (length tabs)) /\
  prepare f mn mx 0 (map (update us) tabs) false = Ok (map (update us) tabs, false, repeat DSkip (length tabs)).
Proof. exact prepare_long_decisions. Qed.
Print Assumptions C15_prepare_decisions_long_tables.

(* make_compatible (ModelMC.v: _is_compatible, _make_compatible, to_waveform; atoms of arbitrary lengths `al`).
   Code as it is (rp = false): if no volatile count ends up inside a concatenated waveform
   (guard_C15_make_compatible_baked, executable) and the run on the updated program takes the same decisions (levels
   of the visited children, keep-the-count choice), then make_compatible commutes with the update: the updated
   made-compatible program IS the made-compatible updated program (and plays the same) *)
Theorem C15_make_compatible_commutes : forall us al mn q t t' w tr t2 w2,
  guard_C15_make_compatible_baked al mn q (cprog_of t) = true ->
  make_compatible false al mn q (cprog_of t) = Ok (t', w, tr) ->
  make_compatible false al mn q (cprog_of (update us t)) = Ok (t2, w2, tr) ->
  t2 = cupdate us t' /\ cplay t2 = cplay (cupdate us t').
Proof. exact make_compatible_program_update_current. Qed.
Print Assumptions C15_make_compatible_commutes.

(* without the guard the statement is false of the code as it is, even when NO VolatileModificationWarning was
   emitted: RepetitionPT(RepetitionPT(atom, n), 3), n volatile, minimal length 576 concatenates the volatile child
   with its current count (known finding C15-make-compatible-bakes-volatile-child) *)
Theorem C15_make_compatible_refuted : exists us t' tr t2 w2,
  make_compatible false ex_al 576 16 ex_mc_baked = Ok (t', false, tr) /\
  make_compatible false ex_al 576 16 (cupdate us ex_mc_baked) = Ok (t2, w2, tr) /\
  t2 <> cupdate us t' /\ cplay t2 <> cplay (cupdate us t') /\
  guard_C15_make_compatible_baked ex_al 576 16 ex_mc_baked = false.
Proof. exact make_compatible_current_refuted. Qed.
Print Assumptions C15_make_compatible_refuted.

Theorem C15_make_compatible_nonvacuous : exists us t' tr,
  guard_C15_make_compatible_baked ex_al 384 16 ex_mc_ok = true /\
  make_compatible false ex_al 384 16 ex_mc_ok = Ok (t', false, tr) /\
  make_compatible false ex_al 384 16 (cupdate us ex_mc_ok) = Ok (cupdate us t', false, tr) /\
  t' <> ex_mc_ok /\ cplay (cupdate us t') <> cplay t'.
Proof. exact make_compatible_current_nonvacuous. Qed.
Print Assumptions C15_make_compatible_nonvacuous.

(* with the repair prepared in this round (rp = true: warn when a concatenated sub-program holds a volatile count)
   the guard becomes "no VolatileModificationWarning", as for flatten_and_balance and the Tabor preparation; the
   repair changes the warning flag only *)
Theorem C15_make_compatible_repaired_commutes : forall us al mn q t t' tr t2 w2,
  make_compatible true al mn q (cprog_of t) = Ok (t', false, tr) ->
  make_compatible true al mn q (cprog_of (update us t)) = Ok (t2, w2, tr) ->
  t2 = cupdate us t' /\ cplay t2 = cplay (cupdate us t').
Proof. exact make_compatible_program_update. Qed.
Print Assumptions C15_make_compatible_repaired_commutes.

Theorem C15_make_compatible_repair_only_warns : forall al mn q t t' w tr,
  make_compatible false al mn q t = Ok (t', w, tr) -> exists w', make_compatible true al mn q t = Ok (t', w', tr).
Proof. exact make_compatible_rp_irrel. Qed.
Print Assumptions C15_make_compatible_repair_only_warns.

(* with the repair the no-warning hypothesis cannot be dropped either (the baked child is reported) *)
Theorem C15_make_compatible_repaired_refuted : exists us t' tr t2 w2,
  make_compatible true ex_al 576 16 ex_mc_baked = Ok (t', true, tr) /\
  make_compatible true ex_al 576 16 (cupdate us ex_mc_baked) = Ok (t2, w2, tr) /\
  t2 <> cupdate us t' /\ cplay t2 <> cplay (cupdate us t').
Proof. exact make_compatible_update_needs_no_warning. Qed.
Print Assumptions C15_make_compatible_repaired_refuted.

(* "exactly the counts that depend on volatile parameters are marked as changeable ... also after the program has been
   ... compiled": with the repair, make_compatible without a VolatileModificationWarning keeps every volatile count
   (cvols: the volatile counts of the tree in order); the code as it is loses one without any warning *)
Theorem C15_make_compatible_repaired_keeps_counts : forall al mn q t t' tr,
  make_compatible true al mn q t = Ok (t', false, tr) -> cvols t' = cvols t.
Proof. exact make_compatible_keeps_vols. Qed.
Print Assumptions C15_make_compatible_repaired_keeps_counts.

Theorem C15_make_compatible_keeps_counts_refuted : exists t' tr,
  make_compatible false ex_al 576 16 ex_mc_baked = Ok (t', false, tr) /\ cvols ex_mc_baked <> [] /\ cvols t' = [].
Proof. exact make_compatible_current_loses_count. Qed.
Print Assumptions C15_make_compatible_keeps_counts_refuted.

(* ---- counts evaluated in floating point (ModelF.v; round 4) ---- *)
(* the value of the count expression is a double (or an exact rational), any value: whenever a fresh instantiation
   accepts it (checked_int_cast: within 1e-6 of an integer), the update path (VolatileRepetitionCount.__int__: round,
   clamp) yields the same count - also for values a hair below the integer such as 0.3 / 0.1 *)
Theorem C15_float_update_is_fresh : forall fl q c, count_fresh_tol fl q = Some c -> count_update q = c.
Proof. exact count_fresh_tol_update. Qed.
Print Assumptions C15_float_update_is_fresh.

(* the assertion int(repetition_definition) == repetition_count in _internal_create_program never fails: instantiation
   with a volatile count fails only where checked_int_cast rejects the value *)
Theorem C15_float_assertion_holds : forall fl q, inst_volatile fl q = None <-> count_fresh_tol fl q = None.
Proof. exact inst_volatile_no_assert. Qed.
Print Assumptions C15_float_assertion_holds.

(* the tolerance tests are consistent: an update without the "no integer" warning (is_integer, strict <) lands on a
   value a fresh instantiation accepts (checked_int_cast, rejects only >), with the same count *)
Theorem C15_float_no_warning_is_fresh : forall fl q,
  is_integer_f fl q = true -> count_fresh_tol fl q = Some (count_update q).
Proof. exact is_integer_fresh. Qed.
Print Assumptions C15_float_no_warning_is_fresh.

(* ... they differ exactly on the boundary |x - round x| = 1e-6 (warning, but accepted; equal counts) *)
Theorem C15_float_tolerance_boundary : exists q,
  is_integer_f false q = false /\ count_fresh_tol false q = Some (count_update q) /\ count_update q = 3.
Proof. exact tolerance_boundary. Qed.
Print Assumptions C15_float_tolerance_boundary.

(* non-vacuity and the reason for rounding: 0.3 / 0.1 evaluated in binary64 is below 3 by less than 1e-6; is_integer
   holds, instantiation and update give 3, truncation (int(value)) would give 2; on exact rationals the quotient is 3 *)
Theorem C15_float_truncate_refuted : exists q,
  evalF true env_03_01 (FDiv (FVar 4%N) (FVar 5%N)) = Some q /\ (q < 3)%Q /\ (3 - q < EPS)%Q /\
  is_integer_f true q = true /\ inst_volatile true q = Some (Some 3) /\ count_update q = 3 /\
  count_update_trunc true q = 2 /\
  evalF false (fun x => if (x =? 4)%N then Some (3 # 10)%Q else Some (1 # 10)%Q) (FDiv (FVar 4%N) (FVar 5%N)) = Some 3%Q.
Proof. exact float_quotient_below_three. Qed.
Print Assumptions C15_float_truncate_refuted.

(* round-to-nearest-even to 53 bits is the identity on integers below 2^53 ... *)
Theorem C15_float_round53_integers : forall z, Z.abs z < 2 ^ 53 -> (round53 (inject_Z z) == inject_Z z)%Q.
Proof. exact round53_int. Qed.
Print Assumptions C15_float_round53_integers.

(* ... hence the integer model (Model.v: eval) is the restriction of the float model to integer parameter values whose
   intermediate results stay below 2^53 (integer values handed over as float / numpy.float64 / TimeType), and on an
   integer value both paths give max(0, z) without a warning *)
Theorem C15_float_integer_restriction : forall fl env e,
  bounded53 env e = true ->
  evalF fl (fun x => option_map inject_Z (env x)) (fexpr_of e) = option_map inject_Z (eval env e).
Proof. exact evalF_integer. Qed.
Print Assumptions C15_float_integer_restriction.

Theorem C15_float_counts_on_integers : forall fl z,
  count_fresh_tol fl (inject_Z z) = Some (Z.max 0 z) /\ count_update (inject_Z z) = Z.max 0 z /\
  update_warns fl (inject_Z z) = false.
Proof. exact float_counts_integer. Qed.
Print Assumptions C15_float_counts_on_integers.

(* on exactly integer values the tolerance model coincides with the exact rational model of ModelQ.v *)
Theorem C15_float_exact_restriction : forall fl q, is_intQ q = true -> count_fresh_tol fl q = count_fresh q.
Proof. exact count_fresh_tol_exact. Qed.
Print Assumptions C15_float_exact_restriction.

(* products: X * Y = K exactly (0.57 * 100 = 57), both parameters the nearest doubles; and a literal factor c * X = K
   (100 * x): same conclusion as for the quotient (C15_float_quotient_count below; proofs in Proofs_fr.v) *)
Theorem C15_float_product_count : forall (X Y : Q) (K : Z) (nx ny : name) env,
  (0 <= X)%Q -> (0 <= Y)%Q -> 0 <= K < 2 ^ 20 -> (inject_Z K == X * Y)%Q ->
  env nx = Some (rnd true X) -> env ny = Some (rnd true Y) ->
  exists q, evalF true env (FMul (FVar nx) (FVar ny)) = Some q /\
            count_update q = K /\ count_fresh_tol true q = Some K /\ update_warns true q = false.
Proof. exact float_product_count. Qed.
Print Assumptions C15_float_product_count.

Theorem C15_float_scaled_count : forall (c X : Q) (K : Z) (nx : name) env,
  (0 <= c)%Q -> (0 <= X)%Q -> 0 <= K < 2 ^ 20 -> (inject_Z K == c * X)%Q ->
  env nx = Some (rnd true X) ->
  exists q, evalF true env (FMul (FConst c) (FVar nx)) = Some q /\
            count_update q = K /\ count_fresh_tol true q = Some K /\ update_warns true q = false.
Proof. exact float_scaled_count. Qed.
Print Assumptions C15_float_scaled_count.

(* ---- Loop.split_one_child / _check_partial_unroll (round 4, seed C15-6) ---- *)
(* the child split_one_child picks has count > 1, and it has a VOLATILE count only if every child that could be split at
   all is volatile: a fixed repeated entry is always preferred *)
Theorem C15_split_prefers_fixed : forall ch i,
  split_index ch = Some i ->
  exists c, nth_error ch i = Some c /\ 1 < cnt c /\
    (is_vol (rep_of c) = true ->
     forall j c', nth_error ch j = Some c' -> 1 < cnt c' -> is_vol (rep_of c') = true).
Proof. exact split_index_spec. Qed.
Print Assumptions C15_split_prefers_fixed.

(* input-level sufficient condition for "the preparation keeps volatility" in the splitting loop: when the fixed
   repeated entries can absorb the missing table length (fixed_cap = sum of count - 1 over the fixed entries with
   count > 1), _check_partial_unroll adds no VolatileModificationWarning, i.e. no volatile entry is frozen *)
Theorem C15_partial_unroll_keeps_volatile : forall st mn warn st' w' d,
  check_partial_unroll st mn warn = Ok (Some (st', w', d)) ->
  let total := fold_right (fun c acc => cnt c + acc) 0 (kids st) in
  let ch1 := if total <? mn then unrolled st else kids st in
  mn - Z.of_nat (length ch1) <= fixed_cap ch1 ->
  w' = warn.
Proof. exact check_partial_unroll_keeps_volatile. Qed.
Print Assumptions C15_partial_unroll_keeps_volatile.

(* non-vacuity: 2 x (3 x a ; n x b), n = 4 volatile, min_seq_len 3 - the fixed entry is split, n stays volatile *)
Theorem C15_partial_unroll_nonvacuous :
  check_partial_unroll ex_split_table 3 false =
    Ok (Some (Node (Fixed 2) false None
                [Node (Fixed 2) false (Some 0%N) []; Node (Fixed 1) false (Some 0%N) []; Node ex_vol4 false (Some 1%N) []],
              false, DUnroll false [0%nat])) /\
  3 - Z.of_nat (length (kids ex_split_table)) <= fixed_cap (kids ex_split_table).
Proof. exact split_example_keeps. Qed.
Print Assumptions C15_partial_unroll_nonvacuous.

(* without fixed capacity the hypothesis cannot be dropped: 2 x (a ; n x b) - the volatile entry is split, a warning is
   raised and no entry of the table is volatile afterwards *)
Theorem C15_partial_unroll_refuted : exists st',
  check_partial_unroll ex_split_table_vol_only 3 false = Ok (Some (st', true, DUnroll false [1%nat])) /\
  forallb (fun c => negb (is_vol (rep_of c))) (kids st') = true /\ fixed_cap (kids ex_split_table_vol_only) = 0.
Proof. exact split_example_freezes. Qed.
Print Assumptions C15_partial_unroll_refuted.

(* ---- error analysis of float counts (Proofs_fr.v; round 4) ---- *)
(* the update path returns the integer the value is meant to be whenever the accumulated float error is below 1/2, and
   never moves a count by more than 1/2 from the value of its expression *)
Theorem C15_float_count_is_nearest : forall q k, (Qabs (q - inject_Z k) < 1 # 2)%Q -> count_update q = Z.max 0 k.
Proof. exact count_update_nearest. Qed.
Print Assumptions C15_float_count_is_nearest.

Theorem C15_float_round_error : forall q, (Qabs (inject_Z (round_half_even q) - q) <= 1 # 2)%Q.
Proof. exact round_half_even_error. Qed.
Print Assumptions C15_float_round_error.

(* general form of C15_float_truncate_refuted: for EVERY value is_integer accepts that lies below its integer k >= 1,
   rounding yields k (= fresh instantiation) and truncation k - 1 *)
Theorem C15_float_truncation_off_by_one : forall fl q k,
  (0 <= q)%Q -> 1 <= k -> is_integer_f fl q = true -> (inject_Z k - (1 # 2) < q)%Q -> (q < inject_Z k)%Q ->
  count_update q = k /\ count_fresh_tol fl q = Some k /\ count_update_trunc fl q = k - 1.
Proof. exact truncation_off_by_one. Qed.
Print Assumptions C15_float_truncation_off_by_one.

(* one binary64 rounding has relative error at most 2^-53 (round53 is defined through ilog2Q; 2^ilog2Q q <= |q|) *)
Theorem C15_float_round53_error : forall q, (Qabs (round53 q - q) <= Qabs q * (1 # 2 ^ 53))%Q.
Proof. exact round53_error. Qed.
Print Assumptions C15_float_round53_error.

(* the class of seed C15-5 in general: X = K * Y exactly (decimal intent, 0.3 = 3 * 0.1), the parameter values are the
   doubles nearest to X and Y, the count expression x / y is evaluated in binary64: for every 0 <= K < 2^20 and every
   Y > 0 the update path and a fresh instantiation both read the result as K, without a "no integer" warning -
   on whichever side of K the float result lands *)
Theorem C15_float_quotient_count : forall (X Y : Q) (K : Z) (nx ny : name) env,
  (0 < Y)%Q -> 0 <= K < 2 ^ 20 -> (X == inject_Z K * Y)%Q ->
  env nx = Some (rnd true X) -> env ny = Some (rnd true Y) ->
  exists q, evalF true env (FDiv (FVar nx) (FVar ny)) = Some q /\
            count_update q = K /\ count_fresh_tol true q = Some K /\ update_warns true q = false.
Proof. exact float_quotient_count. Qed.
Print Assumptions C15_float_quotient_count.

(* ---- round 5 (audit): links to the independent specification, chains of any length, missing non-vacuity ---- *)
(* C15_update / C15_update_sequence relate the model to itself (re-instantiation = update); with C15_marked the updated
   program IS the tree the scope-free specification (Spec.spec_program: no scopes, no builder) describes for the new
   values - counts, volatile marks and dependency keys *)
Theorem C15_update_meets_spec : forall ups p vals V t,
  guard_C15_zero_count_seq p vals V ups = true ->
  create_program p vals V = Ok (Some t) ->
  spec_program p (override_all ups vals) V = Some (Some (obs_of (update_all ups t))).
Proof. exact update_sequence_meets_spec. Qed.
Print Assumptions C15_update_meets_spec.

(* "... exactly the counts that depend on them are marked ... also after the program has been merged, cleaned up":
   for every played waveform, some enclosing count of the cleaned-up program is marked volatile iff the specification
   marks one on its path (oleafmarks; cleanup merges counts, so marks are compared per waveform, not per loop) *)
Theorem C15_cleanup_marks : forall p vals V t st,
  create_program p vals V = Ok (Some t) -> spec_program p vals V = Some (Some st) ->
  oleafmarks false (obs_of (cleanup t)) = oleafmarks false st.
Proof. exact cleanup_marks_meet_spec. Qed.
Print Assumptions C15_cleanup_marks.

Theorem C15_cleanup_update_marks : forall ups p vals V t st,
  guard_C15_zero_count_seq p vals V ups = true ->
  create_program p vals V = Ok (Some t) -> spec_program p (override_all ups vals) V = Some (Some st) ->
  oleafmarks false (obs_of (update_all ups (cleanup t))) = oleafmarks false st.
Proof. exact cleanup_update_marks_meet_spec. Qed.
Print Assumptions C15_cleanup_update_marks.

Theorem C15_cleanup_marks_nonvacuous : exists t,
  create_program ex_marks_pt [(1%N, 3)] [1%N] = Ok (Some t) /\ cleanup t <> t /\
  oleafmarks false (obs_of (cleanup t)) = [true; false] /\
  oleafmarks false (obs_of (update_all [[(1%N, 2)]] (cleanup t))) = [true; false] /\
  guard_C15_zero_count_seq ex_marks_pt [(1%N, 3)] [1%N] [[(1%N, 2)]] = true.
Proof. exact cleanup_marks_example. Qed.
Print Assumptions C15_cleanup_marks_nonvacuous.

(* the class of seed C15-8 on the model: a single-child chain of ANY length with at least one volatile count, merged
   (merge_rep nests JointScopes) and then updated, has the clamped product of the raw values the counts have in their
   UPDATED scopes (C15_merge_count / C15_merge_joint_count are the two-level cases) *)
Theorem C15_merge_chain_count : forall us rs last vs b,
  existsb is_vol rs || is_vol last = true ->
  Forall2 (fun r v => raw_of_rep (upd_rep us r) = Some v) rs vs -> raw_of_rep (upd_rep us last) = Some b ->
  int_of_rep (upd_rep us (merge_chain rs last)) = Some (Z.max 0 (fold_right Z.mul b vs)).
Proof. exact merge_chain_update_count. Qed.
Print Assumptions C15_merge_chain_count.

(* three nested volatile repetitions, cleaned up into one loop; the innermost, then the middle parameter is updated *)
Theorem C15_merge_chain_example : exists t,
  create_program ex_chain3 [(1%N, 2); (2%N, 1); (3%N, 2)] [1%N; 2%N; 3%N] = Ok (Some t) /\
  kids (cleanup t) = [] /\ cnt (cleanup t) = 4 /\ cnt (update [(3%N, 3)] (cleanup t)) = 6 /\
  cnt (update [(2%N, 5)] (update [(3%N, 3)] (cleanup t))) = 30.
Proof. exact chain3_example. Qed.
Print Assumptions C15_merge_chain_example.

(* C15_flatten_commutes had no non-vacuity statement: a run of flatten_and_balance(2) that restructures the program
   (unrolls a fixed inner loop, encapsulates a leaf) without warning, and whose update changes counts; and the
   no-warning hypothesis cannot be dropped (depth 1 unrolls the volatile loop itself) *)
Theorem C15_flatten_nonvacuous : exists us l,
  fab 100 2 (kids ex_fab_tree) false = Ok (l, false) /\ l <> kids ex_fab_tree /\
  fab 100 2 (map (update us) (kids ex_fab_tree)) false = Ok (map (update us) l, false) /\
  map cnt (map (update us) l) <> map cnt l.
Proof. exact fab_update_nonvacuous. Qed.
Print Assumptions C15_flatten_nonvacuous.

Theorem C15_flatten_refuted : exists us l l2 w2,
  fab 100 1 (kids ex_fab_tree) false = Ok (l, true) /\
  fab 100 1 (map (update us) (kids ex_fab_tree)) false = Ok (l2, w2) /\ l2 <> map (update us) l.
Proof. exact fab_update_needs_no_warning. Qed.
Print Assumptions C15_flatten_refuted.

(* C15_make_compatible_repaired_commutes (the code as it is now, rp = true) had its non-vacuity example only for the
   historical rp = false variant *)
Theorem C15_make_compatible_repaired_nonvacuous : exists us t' tr,
  make_compatible true ex_al 384 16 ex_mc_ok = Ok (t', false, tr) /\
  make_compatible true ex_al 384 16 (cupdate us ex_mc_ok) = Ok (cupdate us t', false, tr) /\
  t' <> ex_mc_ok /\ cplay (cupdate us t') <> cplay t'.
Proof. exact make_compatible_update_nonvacuous. Qed.
Print Assumptions C15_make_compatible_repaired_nonvacuous.

(* ---- round 6: clause S4 (what the compiled tables record as changeable) and Q3 for Tabor (sequences of updates) ---- *)
(* the parser: the recorded positions are exactly the advanced entries / table entries whose loop has a volatile count
   (with that count's definition); every advanced entry points to a stored table holding the counts of its waveform
   loops, and an entry carries the volatile marker iff its count is volatile.  No hypothesis on the tables. *)
Theorem C15_tabor_positions : forall tabs st,
  parse_aseq 0 tabs st_empty = Ok st ->
  t_pos st = positions_of 0 tabs /\
  length (t_adv st) = length tabs /\
  (forall p r, In (p, r) (t_pos st) <->
     (exists a tl, p = PAdv a /\ nth_error tabs a = Some tl /\ r = rep_of tl /\ is_vol r = true) \/
     (exists a tl q c, p = PSeqPos a q /\ nth_error tabs a = Some tl /\ nth_error (kids tl) q = Some c /\
                       r = rep_of c /\ is_vol r = true)) /\
  (forall a tl, nth_error tabs a = Some tl ->
     exists k tb, nth_error (t_adv st) a = Some (cnt tl, S k) /\ nth_error (t_tabs st) k = Some tb /\
       length tb = length (kids tl) /\
       forall q c, nth_error (kids tl) q = Some c ->
         exists e, nth_error tb q = Some e /\ te_count e = cnt c /\ vflag e = is_vol (rep_of c)).
Proof. exact parse_aseq_positions. Qed.
Print Assumptions C15_tabor_positions.

(* ... in one equation: per (advanced entry, table entry) = played waveform, "one of its two counts is recorded as
   changeable" (Spec.tstate_marks reads the recorded positions only) iff the table's or the waveform's count is volatile *)
Theorem C15_tabor_parser_marks : forall tabs st,
  parse_aseq 0 tabs st_empty = Ok st -> tstate_marks st = tabs_marks tabs.
Proof. exact parse_aseq_marks. Qed.
Print Assumptions C15_tabor_parser_marks.

(* S4 end to end for SINGLE sequence mode: a template (any nesting / mappings / volatile subset) instantiated, cleaned
   up or not, compiled: for every played waveform, "its count is recorded as changeable in the tables" is exactly what
   the scope-free specification says about the counts enclosing that waveform (no guard, no hypothesis on the run) *)
Theorem C15_tabor_single_marks : forall p vals V t so (cl : bool) f mn mx st w tr,
  create_program p vals V = Ok (Some t) -> spec_program p vals V = Some (Some so) ->
  tabor_compile f (Some MSingle) mn mx (if cl then cleanup t else t) = Ok (st, w, tr) ->
  tstate_marks st = oleafmarks false so.
Proof. exact tabor_single_marks. Qed.
Print Assumptions C15_tabor_single_marks.

Theorem C15_tabor_single_marks_nonvacuous : exists t st w tr so,
  create_program single_pt [(1%N, 2)] [1%N] = Ok (Some t) /\
  spec_program single_pt [(1%N, 2)] [1%N] = Some (Some so) /\
  tabor_compile 100 (Some MSingle) 1 8 (cleanup t) = Ok (st, w, tr) /\
  length (t_pos st) = 2%nat /\ tstate_marks st = [true; false; true] /\ oleafmarks false so = [true; false; true].
Proof. exact tabor_single_marks_example. Qed.
Print Assumptions C15_tabor_single_marks_nonvacuous.

(* advanced sequence mode (partial w.r.t. S4): the recorded positions are exactly the volatile counts of the tables
   the preparation produced; that the preparation keeps the marks of the specification is NOT stated here *)
Theorem C15_tabor_advanced_positions_partial : forall f mn mx t st w tr,
  tabor_compile f (Some MAdvanced) mn mx t = Ok (st, w, tr) ->
  exists tabs tr', adv_tables f mn mx (if root_enc t then encapsulate t else t) = Ok (tabs, w, tr') /\
                   t_pos st = positions_of 0 tabs /\ tstate_marks st = tabs_marks tabs.
Proof. exact tabor_advanced_marks. Qed.
Print Assumptions C15_tabor_advanced_positions_partial.

Theorem C15_tabor_advanced_positions_nonvacuous : exists t st w tr,
  create_program coherent_pt [(1%N, 1)] [1%N] = Ok (Some t) /\
  tabor_compile 100 (Some MAdvanced) 1 8 t = Ok (st, w, tr) /\ t_pos st <> [] /\
  existsb (fun b => b) (tstate_marks st) = true /\ existsb negb (tstate_marks st) = true.
Proof. exact tabor_advanced_marks_example. Qed.
Print Assumptions C15_tabor_advanced_positions_nonvacuous.

(* update_volatile_parameters reads of a table state only what is observable (tab_view) and the recorded positions:
   states that agree on these stay so and report the same modifications *)
Theorem C15_tabor_update_respects_view : forall us s1 s2,
  same_obs s1 s2 -> same_obs (fst (update_tabor us s1)) (fst (update_tabor us s2)) /\
                    snd (update_tabor us s1) = snd (update_tabor us s2).
Proof. exact update_tabor_respects. Qed.
Print Assumptions C15_tabor_update_respects_view.

(* Q3 for Tabor, SINGLE sequence mode, EVERY sequence of updates, no hypothesis on decisions / sharing / warnings
   (counts_ok: the model's bound on counts, for every intermediate program): the tables and recorded positions after
   the whole sequence of update_volatile_parameters calls are those of a fresh compilation of the updated program *)
Theorem C15_tabor_single_mode_sequence : forall f mn mx ups t st w tr,
  tabor_compile f (Some MSingle) mn mx t = Ok (st, w, tr) ->
  (forall k, counts_ok (update_all (firstn k ups) t) = true) ->
  exists st2, tabor_compile f (Some MSingle) mn mx (update_all ups t) = Ok (st2, w, tr) /\
              same_obs (update_tabor_all ups st) st2.
Proof. exact tabor_single_update_sequence. Qed.
Print Assumptions C15_tabor_single_mode_sequence.

Theorem C15_tabor_single_mode_sequence_nonvacuous : exists t st w tr st2,
  create_program single_pt [(1%N, 2)] [1%N] = Ok (Some t) /\
  tabor_compile 100 (Some MSingle) 1 8 (cleanup t) = Ok (st, w, tr) /\
  (forall k, counts_ok (update_all (firstn k [[(1%N, 0)]; [(1%N, 3)]]) (cleanup t)) = true) /\
  tabor_compile 100 (Some MSingle) 1 8 (update_all [[(1%N, 0)]; [(1%N, 3)]] (cleanup t)) = Ok (st2, w, tr) /\
  tab_view (update_tabor_all [[(1%N, 0)]; [(1%N, 3)]] st) = tab_view st2 /\ tab_view st2 <> tab_view st.
Proof. exact tabor_single_sequence_example. Qed.
Print Assumptions C15_tabor_single_mode_sequence_nonvacuous.
