(* C15 — property theorems (statements only; proofs live in Proofs.v). *)
From Coq Require Import ZArith NArith Bool List.
Require Import QV.C15.Model QV.C15.Spec QV.C15.Proofs.
Import ListNotations.
Open Scope Z_scope.

(* the key set of get_volatile_parameters() (any nesting of dict / mapped / joint scopes) is exactly the set of names
   whose value depends on a volatile parameter through the mappings *)
Theorem C15_marked_keys : forall s x, mem x (vkeys s) = depends s x.
Proof. exact vkeys_depends. Qed.
Print Assumptions C15_marked_keys.

(* instantiation: the program tree (shape, counts, which counts are volatile, their dependency keys) is the one the
   scope-free specification describes: a count is marked volatile iff its expression depends on a volatile parameter *)
Theorem C15_marked : forall p vals V, prog_obs (create_program p vals V) = spec_program p vals V.
Proof. exact create_program_meets_spec. Qed.
Print Assumptions C15_marked.

(* updating = re-instantiating, one update *)
Theorem C15_update : forall p vals V us t,
  keys_in us V = true ->
  guard_C15_zero_count p vals V = true -> guard_C15_zero_count p (override us vals) V = true ->
  create_program p vals V = Ok (Some t) ->
  create_program p (override us vals) V = Ok (Some (update us t)).
Proof. exact update_is_reinstantiate. Qed.
Print Assumptions C15_update.

(* ... every sequence of updates *)
Theorem C15_update_sequence : forall ups p vals V t,
  guard_C15_zero_count_seq p vals V ups = true ->
  create_program p vals V = Ok (Some t) ->
  create_program p (override_all ups vals) V = Ok (Some (update_all ups t)).
Proof. exact update_sequence_is_reinstantiate. Qed.
Print Assumptions C15_update_sequence.

(* without the guard the statement is false for the unchanged code (known finding C15-zero-count-dropped) *)
Theorem C15_update_refuted :
  exists p vals V us t,
    keys_in us V = true /\ create_program p vals V = Ok (Some t) /\
    create_program p (override us vals) V <> Ok (Some (update us t)).
Proof. exact update_zero_count_refuted. Qed.
Print Assumptions C15_update_refuted.

(* the hypotheses are satisfiable by a nested, mapped, multiplied template whose counts really change *)
Theorem C15_update_nonvacuous :
  guard_C15_zero_count_seq ex_pt [(2%N, 3); (4%N, 1)] [4%N] [[(4%N, 2)]; [(4%N, 5)]] = true /\
  exists t, create_program ex_pt [(2%N, 3); (4%N, 1)] [4%N] = Ok (Some t) /\
            obs_of (update_all [[(4%N, 2)]; [(4%N, 5)]] t) <> obs_of t.
Proof. exact (conj ex_guard ex_changes). Qed.
Print Assumptions C15_update_nonvacuous.

(* merging keeps volatility, and cleanup (remove empty loops + merge single children) commutes with updates *)
Theorem C15_merge_keeps_volatile : forall r rc, is_vol (merge_rep r rc) = is_vol r || is_vol rc.
Proof. exact is_vol_merge_rep. Qed.
Print Assumptions C15_merge_keeps_volatile.

Theorem C15_cleanup_commutes : forall us t, cleanup (update us t) = update us (cleanup t).
Proof. exact cleanup_update. Qed.
Print Assumptions C15_cleanup_commutes.

Theorem C15_cleanup_update : forall ups p vals V t,
  guard_C15_zero_count_seq p vals V ups = true ->
  create_program p vals V = Ok (Some t) ->
  exists t', create_program p (override_all ups vals) V = Ok (Some t') /\
             cleanup t' = update_all ups (cleanup t).
Proof. exact cleanup_update_is_reinstantiate. Qed.
Print Assumptions C15_cleanup_update.

(* the merged count is the product of the counts *)
Theorem C15_merge_count : forall r rc a b,
  int_of_rep r = Some a -> int_of_rep rc = Some b ->
  (match r, rc with Vol _ _, Vol _ _ => False | _, _ => True end) -> 0 <= a -> 0 <= b ->
  int_of_rep (merge_rep r rc) = Some (a * b).
Proof. exact merge_rep_count. Qed.
Print Assumptions C15_merge_count.

Theorem C15_merge_joint_count : forall e s ec sc v1 v2,
  eval (get_param s) e = Some v1 -> eval (get_param sc) ec = Some v2 ->
  int_of_rep (merge_rep (Vol e s) (Vol ec sc)) = Some (Z.max 0 (v1 * v2)).
Proof. exact merge_rep_count_joint. Qed.
Print Assumptions C15_merge_joint_count.

Theorem C15_merge_joint_dep_keys : forall e s ec sc,
  intersects (vars e) (vkeys s) = true -> intersects (vars ec) (vkeys sc) = true ->
  dep_keys (merge_rep (Vol e s) (Vol ec sc)) = Some [JP; JC].
Proof. exact merge_joint_dep_keys. Qed.
Print Assumptions C15_merge_joint_dep_keys.

(* two merged volatile counts that are both updated to negative values multiply to a positive count (each alone is
   clamped to 0) *)
Theorem C15_merge_joint_refuted :
  exists r rc a b, int_of_rep r = Some a /\ int_of_rep rc = Some b /\ int_of_rep (merge_rep r rc) <> Some (a * b).
Proof. exact merge_joint_negative_refuted. Qed.
Print Assumptions C15_merge_joint_refuted.

(* flatten_and_balance: if no volatile loop had to be unrolled (no VolatileModificationWarning: structure_stable is
   then a consequence, not a hypothesis) flattening commutes with updates *)
Theorem C15_flatten_commutes : forall us f d todo l,
  fab f d todo false = Ok (l, false) ->
  fab f d (map (update us) todo) false = Ok (map (update us) l, false).
Proof. exact fab_update. Qed.
Print Assumptions C15_flatten_commutes.

(* Tabor, partial: update_volatile_parameters keeps the shape of the tables (which table / waveform every entry refers
   to, the volatile marks) and every reported modification carries the new value of the count recorded at that
   position.  The full statement (below, not proved; evaluated as check_spec on every correspondence case) also says
   that the entries at the recorded positions equal the new counts, that nothing else changes and that the map is
   exactly the set of changed entries, which needs the recorded positions to address distinct table cells -- false
   for the unchanged code when tables are shared (known finding C15-tabor-shared-volatile-table). *)
Theorem C15_tabor_update_partial : forall us ps adv tabs adv' tabs' ms,
  update_positions us ps adv tabs = (adv', tabs', ms) ->
  map snd adv' = map snd adv /\ shape_tabs tabs' = shape_tabs tabs /\
  forall m, In m ms -> exists r, In (mod_pos m, r) ps /\ mod_count m = newval us r.
Proof. exact update_positions_shape. Qed.
Print Assumptions C15_tabor_update_partial.

Definition C15_tabor_update_statement : Prop :=
  forall us st st' ms,
    update_tabor us st = (st', ms) ->
    (* every recorded position holds the freshly evaluated count ... *)
    (forall a r el old, In (PAdv a, r) (t_pos st) -> nth_error (t_adv st) a = Some (old, el) ->
                        nth_error (t_adv st') a = Some (newval us r, el)) /\
    (* ... and the modification map names exactly the advanced entries that changed *)
    (forall a, (exists c el, In (TMod (PAdv a) c el) ms) <->
               (exists x y, nth_error (t_adv st) a = Some x /\ nth_error (t_adv st') a = Some y /\ fst x <> fst y)).
