(* C18 — the window dictionaries register_program builds (affected_dacs) are the ones the wiring specifies *)
From Coq Require Import List ZArith NArith QArith Bool Lia.
Require Import QV.C18.Model QV.C18.Spec QV.C18.Proofs_alist.
Import ListNotations.

Definition mpairs (mm : list (N * list mask)) (meas : list (N * windows)) : list ((N * windows) * mask) :=
  flat_map (fun nw => map (fun m => (nw, m)) (get_set (fst nw) mm)) meas.

Lemma In_mpairs mm meas nw m : In (nw, m) (mpairs mm meas) <-> In nw meas /\ In m (get_set (fst nw) mm).
Proof.
  unfold mpairs. rewrite in_flat_map. split.
  - intros [nw' [H1 H2]]. apply in_map_iff in H2 as [m' [E H2]]. inversion E. subst. auto.
  - intros [H1 H2]. exists nw. split; auto. apply in_map_iff. exists m. auto.
Qed.

Definition dstep (acc : list (N * list (N * windows))) (x : (N * windows) * mask) := dac_step (snd (fst x)) acc (snd x).

Lemma affected_mpairs mm meas : affected_dacs mm meas = fold_left dstep (mpairs mm (rev meas)) [].
Proof.
  unfold affected_dacs, mpairs. generalize (@nil (N * list (N * windows))) as acc.
  induction (rev meas) as [|nw l IH]; intros acc; cbn; auto.
  rewrite fold_left_app, IH. f_equal.
  generalize acc. induction (get_set (fst nw) mm) as [|m ms IHm]; intros acc'; cbn; auto.
Qed.

Definition wins_inv (done : list ((N * windows) * mask)) (d : N) (wins : list (N * windows)) : Prop :=
  nodupN (keys wins) = true
  /\ (forall mk w, In (mk, w) wins -> exists nw m, In (nw, m) done /\ m_dac m = d /\ m_name m = mk /\ snd nw = w)
  /\ (forall nw m, In (nw, m) done -> m_dac m = d -> has_key (m_name m) wins = true).

Definition aff_inv (done : list ((N * windows) * mask)) (acc : list (N * list (N * windows))) : Prop :=
  nodupN (keys acc) = true
  /\ (forall d, has_key d acc = true <-> exists nw m, In (nw, m) done /\ m_dac m = d)
  /\ (forall d wins, lookup d acc = Some wins -> wins_inv done d wins).

Lemma aff_inv_step done acc nw m :
  aff_inv done acc -> aff_inv (done ++ [(nw, m)]) (dstep acc (nw, m)).
Proof.
  intros [Hnd [Hk Hw]]. unfold dstep, dac_step. cbn [fst snd].
  set (d := m_dac m). set (old := get_set d acc).
  assert (wins_inv done d old) as Hold.
  { unfold old, get_set. destruct (lookup d acc) eqn:L; [apply Hw; auto|].
    split; [reflexivity|]. split; [intros mk w []|].
    intros nw0 m0 Hin E. assert (has_key d acc = true) as K by (apply Hk; eauto).
    unfold has_key in K. rewrite L in K. discriminate. }
  split; [apply nodup_upsert; auto|]. split.
  - intros d'. rewrite has_key_upsert, orb_true_iff, N.eqb_eq, Hk. split.
    + intros [->|[nw0 [m0 [Hin E]]]].
      * exists nw, m. split; auto. apply in_or_app; cbn; auto.
      * exists nw0, m0. split; auto. apply in_or_app; auto.
    + intros [nw0 [m0 [Hin E]]]. apply in_app_or in Hin as [Hin|[Hin|[]]].
      * right; eauto.
      * inversion Hin; subst. auto.
  - intros d' wins. rewrite lookup_upsert. destruct (N.eqb d' d) eqn:E.
    + apply N.eqb_eq in E. subst d'. intros H. inversion H. subst wins. clear H.
      destruct Hold as [A [B C]]. split; [apply nodup_upsert; auto|]. split.
      * intros mk w Hin. apply In_upsert in Hin; auto. destruct Hin as [[-> ->]|[Hne Hin]].
        -- exists nw, m. split; [apply in_or_app; cbn; auto|]. auto.
        -- destruct (B _ _ Hin) as [nw0 [m0 [H1 H2]]]. exists nw0, m0. split; auto. apply in_or_app; auto.
      * intros nw0 m0 Hin Ed. rewrite has_key_upsert. apply in_app_or in Hin as [Hin|[Hin|[]]].
        -- rewrite (C _ _ Hin Ed). apply orb_true_r.
        -- inversion Hin; subst. rewrite N.eqb_refl. auto.
    + apply N.eqb_neq in E. intros L. destruct (Hw _ _ L) as [A [B C]]. split; auto. split.
      * intros mk w Hin. destruct (B _ _ Hin) as [nw0 [m0 [H1 H2]]]. exists nw0, m0. split; auto. apply in_or_app; auto.
      * intros nw0 m0 Hin Ed. apply in_app_or in Hin as [Hin|[Hin|[]]]; eauto.
        inversion Hin; subst. exfalso. apply E. reflexivity.
Qed.

Lemma aff_inv_fold l : forall done acc, aff_inv done acc -> aff_inv (done ++ l) (fold_left dstep l acc).
Proof.
  induction l as [|[nw m] l IH]; intros done acc H; cbn.
  - rewrite app_nil_r. auto.
  - replace (done ++ (nw, m) :: l) with ((done ++ [(nw, m)]) ++ l) by (rewrite <- app_assoc; auto).
    apply IH. apply aff_inv_step. auto.
Qed.

Lemma affected_inv mm meas : aff_inv (mpairs mm (rev meas)) (affected_dacs mm meas).
Proof.
  rewrite affected_mpairs. change (mpairs mm (rev meas)) with ([] ++ mpairs mm (rev meas)) at 1.
  apply aff_inv_fold. split; [reflexivity|]. split.
  - intros d. cbn. split; [discriminate|]. intros [nw [m [[] _]]].
  - intros d wins. cbn. discriminate.
Qed.

Lemma In_mpairs_rev mm meas nw m : In (nw, m) (mpairs mm (rev meas)) <-> In nw meas /\ In m (get_set (fst nw) mm).
Proof. rewrite In_mpairs, <- in_rev. tauto. Qed.

Lemma Qlist_eqb_refl l : Qlist_eqb l l = true.
Proof.
  unfold Qlist_eqb. rewrite Nat.eqb_refl. cbn. induction l as [|x l IH]; cbn; auto.
  rewrite IH, andb_true_r. apply Qeq_bool_iff. reflexivity.
Qed.
Lemma windows_eqb_refl w : windows_eqb w w = true.
Proof. unfold windows_eqb. rewrite !Qlist_eqb_refl. auto. Qed.

Lemma uses_dac_iff mm meas d :
  uses_dac mm meas d = true <-> exists nw m, In nw meas /\ In m (get_set (fst nw) mm) /\ m_dac m = d.
Proof.
  unfold uses_dac. rewrite existsb_exists. split.
  - intros [nw [H1 H2]]. apply existsb_exists in H2 as [m [H2 E]]. apply N.eqb_eq in E. eauto.
  - intros [nw [m [H1 [H2 E]]]]. exists nw. split; auto. apply existsb_exists. exists m. split; auto.
    apply N.eqb_eq; auto.
Qed.

Lemma affected_keys mm meas d : has_key d (affected_dacs mm meas) = uses_dac mm meas d.
Proof.
  destruct (affected_inv mm meas) as [_ [Hk _]]. apply eq_true_iff_eq. rewrite Hk, uses_dac_iff. split.
  - intros [nw [m [Hin E]]]. apply In_mpairs_rev in Hin as [A B]. eauto.
  - intros [nw [m [A [B E]]]]. exists nw, m. split; auto. apply In_mpairs_rev; auto.
Qed.

Lemma affected_nodup mm meas : nodupN (keys (affected_dacs mm meas)) = true.
Proof. destruct (affected_inv mm meas) as [H _]. auto. Qed.

Lemma affected_entry mm meas d wins :
  lookup d (affected_dacs mm meas) = Some wins -> dac_entry_ok mm meas d wins = true.
Proof.
  intros L. destruct (affected_inv mm meas) as [_ [_ Hw]]. destruct (Hw _ _ L) as [A [B C]].
  unfold dac_entry_ok. rewrite A. cbn. apply andb_true_iff. split.
  - apply forallb_forall. intros [mk w] Hin. cbn. destruct (B _ _ Hin) as [nw [m [H1 [H2 [H3 H4]]]]].
    apply In_mpairs_rev in H1 as [H1 H1']. unfold mask_ok. apply existsb_exists. exists nw. split; auto.
    rewrite H4, windows_eqb_refl. cbn. apply existsb_exists. exists m. split; auto.
    rewrite H2, H3, !N.eqb_refl. auto.
  - apply forallb_forall. intros nw Hnw. apply forallb_forall. intros m Hm.
    destruct (N.eqb (m_dac m) d) eqn:E; auto. cbn. apply N.eqb_eq in E.
    eapply C; eauto. apply In_mpairs_rev; eauto.
Qed.
