(* C18 — status per (name, acquisition device), threaded through ALL histories (raising calls included).
   Mirror of Proofs_perdev.v.  A pair (n, d) is "dirty" when the (device, mask name) pairs on device d of a measurement
   name used by n were changed by set_measurement since the last (re-)registration of n.  For every name that is not lost
   on the acquisition side and every device d with (n, d) not dirty, the three routing clauses of n hold at d
   (dclean_at) — also when n is "covered" because a measurement it uses was re-wired on OTHER devices. *)
From Coq Require Import List ZArith NArith QArith Bool Lia.
Require Import QV.common.Util QV.C18.Model QV.C18.Spec QV.C18.Proofs_alist QV.C18.Proofs_route QV.C18.Proofs_inv
               QV.C18.Proofs_dacroute QV.C18.Proofs_dacinv QV.C18.Proofs_frame_awg QV.C18.Proofs_frame_dac
               QV.C18.Proofs_dev QV.C18.Proofs_perdev.
Import ListNotations.

(* the three clean clauses of Spec.framed_inv_dac for name n at device d *)
Definition dclean_at (st : state) (n d : N) : Prop :=
  (forall w, lookup n (d_wins (dac_of st d)) = Some w ->
     exists r, lookup n (regs st) = Some r /\ uses_dac (mmap st) (r_meas r) d = true
               /\ dac_entry_ok (mmap st) (r_meas r) d w = true)
  /\ (forall r, lookup n (regs st) = Some r -> uses_dac (mmap st) (r_meas r) d = true ->
        has_key n (d_wins (dac_of st d)) = true)
  /\ (forall r, lookup n (regs st) = Some r -> memN d (r_dacs r) = uses_dac (mmap st) (r_meas r) d).

Lemma dclean_ok_at st n : dclean_ok st n <-> forall d, dclean_at st n d.
Proof.
  unfold dclean_ok, dclean_at. split.
  - intros [A [B C]] d. repeat split; eauto.
  - intros H. repeat split.
    + intros d. apply (H d).
    + intros d. apply (H d).
    + intros r L d. apply (H d); auto.
Qed.

(* devices on which the (device, mask name) pairs of measurement name nm differ between two measurement maps *)
(* ---- the clauses at device d only read the masks that sit on d ---------------------------------------------------- *)
Lemma existsb_on_dac d (f : mask -> bool) l :
  (forall m, f m = true -> m_dac m = d) -> existsb f l = existsb f (on_dac d l).
Proof.
  intros Hf. apply eq_true_iff_eq. rewrite !existsb_exists. unfold on_dac. split.
  - intros [m [Hin E]]. exists m. split; auto. apply filter_In. split; auto. apply N.eqb_eq. auto.
  - intros [m [Hin E]]. apply filter_In in Hin as [Hin _]. eauto.
Qed.

Lemma forallb_on_dac d (g : mask -> bool) l :
  (forall m, m_dac m <> d -> g m = true) -> forallb g l = forallb g (on_dac d l).
Proof.
  intros Hg. apply eq_true_iff_eq. rewrite !forallb_forall. unfold on_dac. split.
  - intros H m Hin. apply filter_In in Hin as [Hin _]. auto.
  - intros H m Hin. destruct (N.eq_dec (m_dac m) d) as [E|E]; [|auto].
    apply H. apply filter_In. split; auto. apply N.eqb_eq. auto.
Qed.

Section OnDac.
  Variables (mm mm' : list (N * list mask)) (meas : list (N * windows)) (d : N).
  Hypothesis Hm : forall nw, In nw meas ->
    same_members mask_route_eqb (on_dac d (get_set (fst nw) mm')) (on_dac d (get_set (fst nw) mm)) = true.

  Lemma uses_dac_on : uses_dac mm' meas d = uses_dac mm meas d.
  Proof.
    unfold uses_dac. apply existsb_ext_in. intros nw Hnw.
    rewrite (existsb_on_dac d _ (get_set (fst nw) mm')), (existsb_on_dac d _ (get_set (fst nw) mm));
      try (intros m E; apply N.eqb_eq in E; auto).
    apply existsb_route; auto. intros a b R. apply route_fields in R as [-> _]. auto.
  Qed.

  Lemma dac_entry_ok_on wins : dac_entry_ok mm' meas d wins = dac_entry_ok mm meas d wins.
  Proof.
    unfold dac_entry_ok. f_equal; [f_equal|].
    - apply forallb_ext_in. intros kw _. unfold mask_ok. apply existsb_ext_in. intros nw Hnw. f_equal.
      rewrite (existsb_on_dac d _ (get_set (fst nw) mm')), (existsb_on_dac d _ (get_set (fst nw) mm));
        try (intros m E; apply andb_true_iff in E as [E _]; apply N.eqb_eq in E; auto).
      apply existsb_route; auto. intros a b R. apply route_fields in R as [-> ->]. auto.
    - apply forallb_ext_in. intros nw Hnw.
      rewrite (forallb_on_dac d _ (get_set (fst nw) mm')), (forallb_on_dac d _ (get_set (fst nw) mm));
        try (intros m E; apply N.eqb_neq in E; rewrite E; auto).
      apply forallb_route; auto. intros a b R. apply route_fields in R as [-> ->]. auto.
  Qed.
End OnDac.

Lemma dclean_at_wiring st st' n d :
  regs st' = regs st -> dac_of st' = dac_of st ->
  (forall r, lookup n (regs st) = Some r -> forall nw, In nw (r_meas r) ->
     same_members mask_route_eqb (on_dac d (get_set (fst nw) (mmap st'))) (on_dac d (get_set (fst nw) (mmap st))) = true) ->
  dclean_at st n d -> dclean_at st' n d.
Proof.
  intros Hr Ha Hm [A [B C]]. unfold dclean_at. rewrite Hr, Ha. split; [|split].
  - intros w E. destruct (A _ E) as [r [L [U Eo]]]. exists r. split; auto.
    rewrite (uses_dac_on (mmap st) (mmap st') (r_meas r) d (Hm r L)).
    rewrite (dac_entry_ok_on (mmap st) (mmap st') (r_meas r) d (Hm r L)). auto.
  - intros r L U. rewrite (uses_dac_on (mmap st) (mmap st') (r_meas r) d (Hm r L)) in U. eapply B; eauto.
  - intros r L. rewrite (uses_dac_on (mmap st) (mmap st') (r_meas r) d (Hm r L)). auto.
Qed.

Lemma dclean_at_frame st st' n d :
  mmap st' = mmap st -> lookup n (regs st') = lookup n (regs st) ->
  lookup n (d_wins (dac_of st' d)) = lookup n (d_wins (dac_of st d)) ->
  dclean_at st n d -> dclean_at st' n d.
Proof. intros Hc Hr Hp. unfold dclean_at, has_key. rewrite Hc, Hr, Hp. auto. Qed.

(* ---- what the operations leave alone ----------------------------------------------------------------------------- *)
Lemma set_channel_dac_frame dm st id arg allow st' e :
  set_channel dm st id arg allow = (st', e) -> mmap st' = mmap st /\ regs st' = regs st /\ dac_of st' = dac_of st.
Proof.
  unfold set_channel. intros H.
  destruct (negb (forallb (ctor_ok dm) (charg_channels arg))); [inversion H; subst; auto|].
  destruct (match arg with ChSingle c => _ | ChMany cs junk => _ | ChNotIterable => None end) as [[new junk]|];
    [|inversion H; subst; auto].
  destruct (negb allow && _); [inversion H; subst; auto|].
  destruct junk; inversion H; subst; auto.
Qed.

Lemma rm_channel_dac_frame st id st' e :
  rm_channel st id = (st', e) -> mmap st' = mmap st /\ regs st' = regs st /\ dac_of st' = dac_of st.
Proof. unfold rm_channel. intros H. destruct (has_key id (chmap st)); inversion H; subst; auto. Qed.

Lemma set_measurement_step st nm arg allow st' e :
  set_measurement st nm arg allow = (st', e) ->
  regs st' = regs st /\ dac_of st' = dac_of st /\ forall c, c <> nm -> get_set c (mmap st') = get_set c (mmap st).
Proof.
  unfold set_measurement. intros H.
  destruct (match arg with MSingle m => _ | MMany ms => _ | MNotIterable => None end) as [new|];
    [|inversion H; subst; auto].
  destruct (negb allow && _); inversion H; subst; auto.
  repeat split; auto. intros c Hne. cbn. apply get_set_upsert'. auto.
Qed.

Lemma arm_devices_wins st name r d : d_wins (dac_of (arm_devices st name r) d) = d_wins (dac_of st d).
Proof.
  set (g := fun (_ : N) (v : dac_st) => {| d_wins := d_wins v; d_armed := Some name |}).
  assert (dac_of (arm_devices st name r) d = if memN d (r_dacs r) then g d (dac_of st d) else dac_of st d) as Hpt.
  { unfold arm_devices. cbn.
    pose proof (fold_upd_pointwise g (fun _ => false) (r_dacs r) (fun _ _ => eq_refl) (dac_of st) d) as P.
    cbn in P. rewrite andb_true_r in P. exact P. }
  rewrite Hpt. destruct (memN d (r_dacs r)); auto.
Qed.

Lemma remove_other_dac st name st' e :
  remove_program st name = (st', e) ->
  mmap st' = mmap st /\
  forall n, n <> name ->
    lookup n (regs st') = lookup n (regs st)
    /\ forall d, lookup n (d_wins (dac_of st' d)) = lookup n (d_wins (dac_of st d)).
Proof.
  unfold remove_program. intros H. destruct (lookup name (regs st)) as [r|] eqn:L; inversion H; subst; clear H; auto.
  cbn [mmap regs dac_of]. split; auto. intros n Hne. pose proof Hne as Hne'. apply N.eqb_neq in Hne'. split.
  - rewrite lookup_remove, Hne'. auto.
  - intros d.
    pose proof (fold_upd_pointwise (fun _ v => dac_delete v name) (fun _ => false) (r_dacs r)
                                   (fun _ v => dac_delete_idem name v) (dac_of st) d) as P.
    cbn in P. rewrite andb_true_r in P. rewrite P. destruct (memN d (r_dacs r)); auto.
    unfold dac_delete. cbn [d_wins]. rewrite lookup_remove, Hne'. auto.
Qed.

(* register_program: the acquisition side of other names is untouched; a raising call touches no acquisition device *)
Lemma register_other_dac dm st name p cb update order st' e :
  register_program dm st name p cb update order = (st', e) ->
  mmap st' = mmap st
  /\ (forall n, n <> name ->
        lookup n (regs st') = lookup n (regs st)
        /\ forall d, lookup n (d_wins (dac_of st' d)) = lookup n (d_wins (dac_of st d)))
  /\ (e <> None -> regs st' = regs st /\ dac_of st' = dac_of st).
Proof.
  intros H. unfold register_program in H.
  destruct cb as [cbt|]; [|inversion H; subst; auto].
  destruct (negb (forallb _ (p_chans p))); [inversion H; subst; auto|].
  destruct (negb (forallb _ (p_meas p))); [inversion H; subst; auto|].
  destruct (channel_info dm (chmap st) (p_chans p)) as [infos|]; [|inversion H; subst; auto].
  destruct (negb (same_setN order (keys infos))); [inversion H; subst; auto|].
  destruct (has_key name (regs st) && negb update); [inversion H; subst; auto|].
  destruct (upload_all (awg_of st) name (p_tag p) update infos order) as [aw ok].
  destruct ok; cbn in H; inversion H; subst; clear H; cbn [mmap regs dac_of].
  2: { auto. }
  split; [reflexivity|]. split; [|intros C; exfalso; apply C; reflexivity].
  intros n Hne. pose proof Hne as Hne'. apply N.eqb_neq in Hne'. split.
  - rewrite lookup_upsert, Hne'. auto.
  - intros d.
    set (aff := affected_dacs (mmap st) (p_meas p)).
    pose proof (affected_nodup (mmap st) (p_meas p)) as Haffnd. fold aff in Haffnd.
    set (old_dacs := match lookup name (regs st) with Some r => r_dacs r | None => [] end).
    set (dc1 := register_dacs (dac_of st) name aff).
    pose proof (fold_upd_pointwise (fun _ v => dac_delete v name) (fun d => memN d (keys aff)) old_dacs
                                   (fun _ v => dac_delete_idem name v) dc1 d) as P.
    cbn beta in P. rewrite P.
    assert (lookup n (d_wins (dc1 d)) = lookup n (d_wins (dac_of st d))) as Hp1.
    { unfold dc1. rewrite register_dacs_pointwise by auto. destruct (lookup d aff); auto.
      cbn [d_wins]. rewrite lookup_upsert, Hne'. auto. }
    destruct (memN d old_dacs && negb (memN d (keys aff))); auto.
    unfold dac_delete. cbn [d_wins]. rewrite lookup_remove, Hne'. auto.
Qed.

(* ---- re-wiring of a measurement name ------------------------------------------------------------------------------ *)
Lemma on_dac_nil d l : ~ In d (map m_dac l) -> on_dac d l = [].
Proof.
  intros H. unfold on_dac. destruct (filter (fun m => N.eqb (m_dac m) d) l) as [|m r] eqn:F; auto.
  exfalso. assert (In m (filter (fun m => N.eqb (m_dac m) d) l)) as Hin by (rewrite F; left; auto).
  apply filter_In in Hin as [Hin E]. apply N.eqb_eq in E. apply H. apply in_map_iff. eauto.
Qed.

Lemma not_changed_dacs nm mm mm' d :
  ~ In d (changed_dacs nm mm mm') ->
  same_members mask_route_eqb (on_dac d (get_set nm mm')) (on_dac d (get_set nm mm)) = true.
Proof.
  intros Hn. unfold changed_dacs in Hn. rewrite filter_In in Hn.
  destruct (same_members mask_route_eqb (on_dac d (get_set nm mm)) (on_dac d (get_set nm mm'))) eqn:S.
  - unfold same_members in *. rewrite andb_comm. exact S.
  - assert (~ In d (map m_dac (get_set nm mm ++ get_set nm mm'))) as Hm by (intros Hin; apply Hn; auto).
    rewrite map_app, in_app_iff in Hm.
    rewrite (on_dac_nil d (get_set nm mm')), (on_dac_nil d (get_set nm mm)) by tauto. reflexivity.
Qed.

Lemma rewire_dclean_at st nm arg allow st' e n d :
  set_measurement st nm arg allow = (st', e) ->
  nodupN (keys (regs st)) = true ->
  (In n (users_meas (regs st) nm) -> ~ In d (changed_dacs nm (mmap st) (mmap st'))) ->
  dclean_at st n d -> dclean_at st' n d.
Proof.
  intros H Hnd Hu Hc. destruct (set_measurement_step _ _ _ _ _ _ H) as [Hr [Ha Hg]].
  apply (dclean_at_wiring st st' n d); auto.
  intros r L nw Hin. destruct (N.eq_dec (fst nw) nm) as [E|Hne].
  - rewrite E. apply not_changed_dacs. apply Hu. apply In_users_meas. exists r. split; [apply lookup_In; auto|].
    destruct nw as [k w]. cbn in E. subst k. eapply In_has_key; eauto.
  - rewrite Hg by auto. apply same_members_route_refl.
Qed.

(* ---- the joint invariant and its step ----------------------------------------------------------------------------- *)
Definition pinv_dac (dm : dims) (t : tstate) (dl : list (N * N)) : Prop :=
  framed_inv_awg dm (t_awg t) (t_st t) /\ framed_inv_dac (t_dac t) (t_st t)
  /\ forall n d, is_lost (t_dac t) n = false -> memNN (n, d) dl = false -> dclean_at (t_st t) n d.

Lemma pinv_dac_step dm t dl o :
  pinv_dac dm t dl -> pinv_dac dm (tstep dm t o) (ptrack_dac dm (t_st t) o dl).
Proof.
  intros [Hia [Hinv HP]].
  assert (nodupN (keys (regs (t_st t))) = true) as G1 by (destruct Hia as [G _]; exact G).
  pose proof (framed_awg_step dm t o Hia) as Hia'.
  pose proof (framed_dac_step dm t o G1 Hinv) as Hinv'.
  split; [exact Hia'|]. split; [exact Hinv'|].
  intros n d Hl Hd.
  destruct (status_cases _ _ Hl) as [Hc|Hc].
  { apply dframed_iff in Hinv' as [_ [C _]]. apply dclean_ok_at. apply C. exact Hc. }
  clear Hia Hia' Hinv'.
  destruct t as [st ta [cov lost]]. cbn [tstep t_st t_dac] in *. unfold track_dac in Hl, Hc. unfold ptrack_dac in Hd.
  destruct (step dm st o) as [st' e] eqn:H. cbn [fst].
  destruct o; cbn in H.
  - (* set_channel *)
    destruct (set_channel_dac_frame _ _ _ _ _ _ _ H) as [A [B C]].
    apply (dclean_at_frame st st' n d); auto; try (rewrite B; auto); try (rewrite C; auto).
  - (* set_measurement *)
    apply not_dirty_rewire in Hd as [Hd Hu].
    assert (is_lost (cov, lost) n = false) as Hl0.
    { destruct (same_members mask_route_eqb _ _) in Hl; exact Hl. }
    eapply rewire_dclean_at; eauto.
  - (* rm_channel *)
    destruct (rm_channel_dac_frame _ _ _ _ H) as [A [B C]].
    apply (dclean_at_frame st st' n d); auto; try (rewrite B; auto); try (rewrite C; auto).
  - (* register *)
    destruct (register_other_dac _ _ _ _ _ _ _ _ _ H) as [A [B E]].
    destruct e as [e0|].
    + destruct E as [E1 E2]; [discriminate|].
      apply (dclean_at_frame st st' n d); auto; try (rewrite E1; auto); try (rewrite E2; auto).
    + assert (n <> name) as Hne by (intros ->; rewrite is_cov_filter_out_same in Hc; discriminate).
      destruct (B n Hne) as [B1 B2]. apply (dclean_at_frame st st' n d); auto.
      apply HP; [exact Hl|]. eapply memNN_filter_other; eauto.
  - (* remove *)
    assert (n <> name) as Hne by (intros ->; rewrite is_cov_filter_out_same in Hc; discriminate).
    destruct (remove_other_dac _ _ _ _ H) as [A B]. destruct (B n Hne) as [B1 B2].
    apply (dclean_at_frame st st' n d); auto.
    apply HP; [exact Hl|]. eapply memNN_filter_other; eauto.
  - (* clear: nothing is covered afterwards *)
    unfold is_cov in Hc. cbn in Hc. discriminate.
  - (* arm *)
    unfold arm_program in H. destruct (lookup name (regs st)) as [r|] eqn:L; inversion H; subst; auto.
    apply (dclean_at_frame st (arm_devices st name r) n d); auto. rewrite arm_devices_wins. auto.
  - (* run *)
    unfold run_program in H. destruct (lookup name (regs st)) as [r|] eqn:L; inversion H; subst; auto.
    apply (dclean_at_frame (arm_devices st name r)); auto.
    apply (dclean_at_frame st (arm_devices st name r) n d); auto. rewrite arm_devices_wins. auto.
  - (* update_parameters *)
    unfold update_parameters in H. destruct (lookup name (regs st)) as [r|] eqn:L; inversion H; subst; auto.
    apply (dclean_at_frame st); auto.
Qed.

Lemma pinv_dac_run dm : forall h t dl,
  pinv_dac dm t dl -> pinv_dac dm (trun dm t h) (prun_dac dm (t_st t) dl h).
Proof.
  induction h as [|o r IH]; intros t dl Hp; cbn; auto.
  change (trun dm (tstep dm t o) r) with (fold_left (tstep dm) r (tstep dm t o)).
  exact (IH (tstep dm t o) (ptrack_dac dm (t_st t) o dl) (pinv_dac_step dm t dl o Hp)).
Qed.

Lemma pinv_dac_init dm : pinv_dac dm tinit [].
Proof.
  split; [apply framed_awg_init|]. split; [apply framed_dac_init|].
  intros n d _ _. unfold dclean_at, tinit. cbn. repeat split; intros; discriminate.
Qed.

(* ---- the theorem --------------------------------------------------------------------------------------------------- *)
Theorem dclean_at_histories : forall dm h n d,
  is_lost (t_dac (trun dm tinit h)) n = false ->
  memNN (n, d) (prun_dac dm init_state [] h) = false ->
  dclean_at (t_st (trun dm tinit h)) n d.
Proof.
  intros dm h n d Hl Hd. destruct (pinv_dac_run dm h tinit [] (pinv_dac_init dm)) as [_ [_ HP]]. apply HP; auto.
Qed.

(* ---- non-vacuity --------------------------------------------------------------------------------------------------- *)
(* name 0 has windows for measurement 0, wired to mask 0 on device 0 and mask 0 on device 1; set_measurement replaces the
   mask on device 1 by a mask with another mask name: name 0 is covered, but only the pair (0, device 1) is dirty *)
Definition pdd_dims : dims := fun _ => (2%Z, 1%Z).
Definition pdd_history : list op :=
  [ OSetMeasurement 0 (MMany [ {| m_dac := 0; m_name := 0; m_oid := 0 |}; {| m_dac := 1; m_name := 0; m_oid := 1 |} ]) false;
    ORegister 0 {| p_tag := 1; p_chans := []; p_meas := [(0%N, ([0#1], [1#1]))] |} (Some 1%N) false [];
    OSetMeasurement 0 (MMany [ {| m_dac := 0; m_name := 0; m_oid := 0 |}; {| m_dac := 1; m_name := 1; m_oid := 2 |} ]) true ].

Example perdev_dac_example :
  is_cov (t_dac (trun pdd_dims tinit pdd_history)) 0%N = true
  /\ is_lost (t_dac (trun pdd_dims tinit pdd_history)) 0%N = false
  /\ has_key 0%N (regs (t_st (trun pdd_dims tinit pdd_history))) = true
  /\ has_key 0%N (d_wins (dac_of (t_st (trun pdd_dims tinit pdd_history)) 0%N)) = true
  /\ has_key 0%N (d_wins (dac_of (t_st (trun pdd_dims tinit pdd_history)) 1%N)) = true
  /\ memNN (0%N, 0%N) (prun_dac pdd_dims init_state [] pdd_history) = false
  /\ memNN (0%N, 1%N) (prun_dac pdd_dims init_state [] pdd_history) = true.
Proof. vm_compute. repeat split. Qed.

(* hence the routing clauses of the covered name 0 hold at device 0 *)
Example perdev_dac_example_clean_at : dclean_at (t_st (trun pdd_dims tinit pdd_history)) 0%N 0%N.
Proof. apply dclean_at_histories; vm_compute; reflexivity. Qed.

Print Assumptions dclean_at_histories.
Print Assumptions perdev_dac_example.
