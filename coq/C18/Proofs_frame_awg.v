(* C18 — generator side of the framed invariant: EVERY history (no guard), per program name with its status
   clean / covered / lost (Spec.v, "Round 2"). *)
From Coq Require Import List ZArith NArith Bool Lia.
Require Import QV.C18.Model QV.C18.Spec QV.C18.Proofs_alist QV.C18.Proofs_route QV.C18.Proofs_inv.
Import ListNotations.

(* ---- wiring with the same members -------------------------------------------------------------------------------- *)
Lemma sch_full_eqb_eq a b : sch_full_eqb a b = true -> a = b.
Proof.
  destruct a, b. unfold sch_full_eqb, sch_eqb. cbn. rewrite !andb_true_iff.
  intros [[[A B] C] D]. apply N.eqb_eq in A, D. apply Z.eqb_eq in B. apply eqb_prop in C. subst. auto.
Qed.
Lemma sch_full_eqb_refl a : sch_full_eqb a a = true.
Proof.
  unfold sch_full_eqb, sch_eqb. rewrite !N.eqb_refl, Z.eqb_refl, eqb_reflx. auto.
Qed.

Lemma same_members_In l l' : same_members sch_full_eqb l l' = true -> forall s, In s l <-> In s l'.
Proof.
  unfold same_members. rewrite andb_true_iff, !forallb_forall. intros [A B] s. split; intros H.
  - apply A in H. apply existsb_exists in H as [y [Hy E]]. apply sch_full_eqb_eq in E. subst. auto.
  - apply B in H. apply existsb_exists in H as [y [Hy E]]. apply sch_full_eqb_eq in E. subst. auto.
Qed.
Lemma same_members_refl l : same_members sch_full_eqb l l = true.
Proof.
  unfold same_members. rewrite andb_true_iff, !forallb_forall.
  split; intros x Hx; apply existsb_exists; exists x; split; auto using sch_full_eqb_refl.
Qed.

Lemma existsb_members {A} (f : A -> bool) l l' : (forall s, In s l <-> In s l') -> existsb f l = existsb f l'.
Proof.
  intros H. apply eq_true_iff_eq. rewrite !existsb_exists. split; intros [x [Hx E]]; exists x; split; auto; apply H; auto.
Qed.

Section Members.
  Variables (dm : dims) (cm cm' : list (N * list sch)) (chans : list N).
  Hypothesis Hm : forall c, In c chans -> forall s, In s (get_set c cm') <-> In s (get_set c cm).

  Lemma uses_awg_m a : uses_awg cm' chans a = uses_awg cm chans a.
  Proof. unfold uses_awg. apply existsb_ext_in. intros c Hc. apply existsb_members. auto. Qed.

  Lemma slot_ok_m a marker i v vt : slot_ok dm cm' chans a marker i v vt = slot_ok dm cm chans a marker i v vt.
  Proof.
    unfold slot_ok. destruct v as [c|].
    - destruct (memN c chans) eqn:M; auto. apply memN_In in M. cbn. apply existsb_members. auto.
    - f_equal. f_equal. apply existsb_ext_in. intros c Hc. apply existsb_members. auto.
  Qed.

  Lemma slots_ok_m a marker : forall vs vts i,
    slots_ok dm cm' chans a marker i vs vts = slots_ok dm cm chans a marker i vs vts.
  Proof. induction vs as [|v vs IH]; intros [|vt vts] i; cbn; auto. rewrite IH, slot_ok_m. auto. Qed.

  Lemma entry_ok_m tag a e : entry_ok dm cm' tag chans a e = entry_ok dm cm tag chans a e.
  Proof. unfold entry_ok. rewrite !slots_ok_m. auto. Qed.
End Members.

(* ---- the invariant, name by name ---------------------------------------------------------------------------------- *)
Definition clean_ok (dm : dims) (st : state) (n : N) : Prop :=
  (forall a e, lookup n (a_progs (awg_of st a)) = Some e ->
     exists r, lookup n (regs st) = Some r /\ uses_awg (chmap st) (r_chans r) a = true
               /\ entry_ok dm (chmap st) (r_tag r) (r_chans r) a e = true)
  /\ (forall a r, lookup n (regs st) = Some r -> uses_awg (chmap st) (r_chans r) a = true ->
        has_key n (a_progs (awg_of st a)) = true)
  /\ (forall r, lookup n (regs st) = Some r -> forall a, memN a (r_awgs r) = uses_awg (chmap st) (r_chans r) a).
Definition cov_ok (st : state) (n : N) : Prop :=
  exists r, lookup n (regs st) = Some r /\ forall a, has_key n (a_progs (awg_of st a)) = memN a (r_awgs r).
Definition armed_ok (st : state) (n : N) : Prop :=
  forall a, a_armed (awg_of st a) = Some n -> has_key n (a_progs (awg_of st a)) = true.
Definition glob (st : state) : Prop :=
  nodupN (keys (regs st)) = true /\ forall a, nodupN (keys (a_progs (awg_of st a))) = true.

Lemma framed_iff dm cl st :
  framed_inv_awg dm cl st <->
  glob st /\ (forall n, is_clean cl n = true -> clean_ok dm st n) /\ (forall n, is_cov cl n = true -> cov_ok st n)
  /\ (forall n, is_lost cl n = false -> armed_ok st n).
Proof.
  unfold framed_inv_awg, glob, clean_ok, cov_ok, armed_ok. split.
  - intros [A [B [C [D [E [F G]]]]]]. repeat split; eauto.
  - intros [[A B] [C [D E]]]. split; auto. split; auto. split; [|split; [|split; [|split]]]; auto.
    + intros a n e Hc. apply (C n Hc).
    + intros a n r Hc. apply (C n Hc).
    + intros n r Hc. apply (C n Hc).
Qed.

(* the copies of a name that is not lost sit exactly on the recorded generators *)
Definition exact_holders (st : state) (n : N) : Prop :=
  match lookup n (regs st) with
  | Some r => forall a, has_key n (a_progs (awg_of st a)) = memN a (r_awgs r)
  | None => forall a, has_key n (a_progs (awg_of st a)) = false
  end.

Lemma clean_holders dm st n : clean_ok dm st n -> exact_holders st n.
Proof.
  intros [A [B C]]. unfold exact_holders. destruct (lookup n (regs st)) as [r|] eqn:L.
  - intros a. rewrite (C r eq_refl a). destruct (uses_awg (chmap st) (r_chans r) a) eqn:U.
    + eapply B; eauto.
    + unfold has_key. destruct (lookup n (a_progs (awg_of st a))) as [e|] eqn:E; auto.
      destruct (A _ _ E) as [r0 [L0 [U0 _]]]. congruence.
  - intros a. unfold has_key. destruct (lookup n (a_progs (awg_of st a))) as [e|] eqn:E; auto.
    destruct (A _ _ E) as [r0 [L0 _]]. congruence.
Qed.
Lemma cov_holders st n : cov_ok st n -> exact_holders st n.
Proof. intros [r [L H]]. unfold exact_holders. rewrite L. auto. Qed.

Lemma status_cases cl n : is_lost cl n = false -> is_clean cl n = true \/ is_cov cl n = true.
Proof.
  unfold is_lost, is_clean, is_cov. intros ->. cbn. rewrite !andb_true_r. destruct (memN n (fst cl)); auto.
Qed.
Lemma clean_not_lost cl n : is_clean cl n = true -> is_lost cl n = false.
Proof. unfold is_clean, is_lost. rewrite andb_true_iff, !negb_true_iff. tauto. Qed.
Lemma cov_not_lost cl n : is_cov cl n = true -> is_lost cl n = false.
Proof. unfold is_cov, is_lost. rewrite andb_true_iff, !negb_true_iff. tauto. Qed.

Lemma notlost_holders dm cl st n :
  framed_inv_awg dm cl st -> is_lost cl n = false -> exact_holders st n.
Proof.
  intros H Hl. apply framed_iff in H as [_ [C [D _]]].
  destruct (status_cases _ _ Hl) as [Hc|Hc]; [eapply clean_holders; eauto | eapply cov_holders; eauto].
Qed.

(* ---- frame: what a name's clauses read --------------------------------------------------------------------------- *)
Lemma frame_name dm st st' n :
  chmap st' = chmap st -> lookup n (regs st') = lookup n (regs st) ->
  (forall a, lookup n (a_progs (awg_of st' a)) = lookup n (a_progs (awg_of st a))) ->
  (clean_ok dm st n -> clean_ok dm st' n) /\ (cov_ok st n -> cov_ok st' n).
Proof.
  intros Hc Hr Hp. unfold clean_ok, cov_ok, has_key. rewrite Hc, Hr. split.
  - intros [A [B C]]. split; [|split]; auto.
    + intros a e. rewrite Hp. apply A.
    + intros a r L U. rewrite Hp. eapply B; eauto.
  - intros [r [L H]]. exists r. split; auto. intros a. rewrite Hp. apply H.
Qed.

Lemma frame_armed st st' n :
  (forall a, lookup n (a_progs (awg_of st' a)) = lookup n (a_progs (awg_of st a))) ->
  (forall a, a_armed (awg_of st' a) = Some n -> a_armed (awg_of st a) = Some n) ->
  armed_ok st n -> armed_ok st' n.
Proof. intros Hp Ha H a E. unfold has_key. rewrite Hp. apply H. auto. Qed.

Lemma inv_same dm cl st st' :
  chmap st' = chmap st -> regs st' = regs st -> awg_of st' = awg_of st ->
  framed_inv_awg dm cl st -> framed_inv_awg dm cl st'.
Proof. intros A B C. unfold framed_inv_awg. rewrite A, B, C. auto. Qed.

(* ---- statuses ---------------------------------------------------------------------------------------------------- *)
Lemma memN_filter_out n x l : memN n (filter_out x l) = negb (N.eqb n x) && memN n l.
Proof.
  apply eq_true_iff_eq. rewrite andb_true_iff, negb_true_iff, !memN_In. unfold filter_out. rewrite filter_In.
  rewrite negb_true_iff. tauto.
Qed.
Lemma memN_app n l l' : memN n (l ++ l') = memN n l || memN n l'.
Proof. unfold memN. apply existsb_app. Qed.

Lemma In_users_ch rg id n : In n (users_ch rg id) <-> exists r, In (n, r) rg /\ memN id (r_chans r) = true.
Proof.
  unfold users_ch. rewrite in_map_iff. split.
  - intros [[n0 r] [E H]]. cbn in E. subst. apply filter_In in H as [H1 H2]. eauto.
  - intros [r [H1 H2]]. exists (n, r). split; auto. apply filter_In. auto.
Qed.

(* ---- re-wiring --------------------------------------------------------------------------------------------------- *)
Lemma clean_ok_wiring dm st st' n :
  regs st' = regs st -> awg_of st' = awg_of st ->
  (forall r, lookup n (regs st) = Some r ->
     forall c, In c (r_chans r) -> forall s, In s (get_set c (chmap st')) <-> In s (get_set c (chmap st))) ->
  clean_ok dm st n -> clean_ok dm st' n.
Proof.
  intros Hr Ha Hm [A [B C]]. unfold clean_ok. rewrite Hr, Ha. split; [|split].
  - intros a e E. destruct (A _ _ E) as [r [L [U Eo]]]. exists r. split; auto.
    rewrite (uses_awg_m (chmap st) (chmap st') (r_chans r) (Hm r L)).
    rewrite (entry_ok_m dm (chmap st) (chmap st') (r_chans r) (Hm r L)). auto.
  - intros a r L U. rewrite (uses_awg_m (chmap st) (chmap st') (r_chans r) (Hm r L)) in U. eapply B; eauto.
  - intros r L a. rewrite (uses_awg_m (chmap st) (chmap st') (r_chans r) (Hm r L)). auto.
Qed.

Lemma rewire_gen dm st st' id cov lost :
  regs st' = regs st -> awg_of st' = awg_of st ->
  (forall c, c <> id -> get_set c (chmap st') = get_set c (chmap st)) ->
  framed_inv_awg dm (cov, lost) st ->
  framed_inv_awg dm (if same_members sch_full_eqb (get_set id (chmap st)) (get_set id (chmap st'))
                     then (cov, lost) else (users_ch (regs st) id ++ cov, lost)) st'.
Proof.
  intros Hr Ha Hc Hinv. pose proof Hinv as Hinv0. apply framed_iff in Hinv as [[G1 G2] [C [D E]]].
  assert (forall n, armed_ok st n -> armed_ok st' n) as Harm.
  { intros n H. unfold armed_ok. rewrite Ha. auto. }
  assert (forall n, cov_ok st n -> cov_ok st' n) as Hcov.
  { intros n H. unfold cov_ok. rewrite Hr, Ha. auto. }
  destruct (same_members sch_full_eqb (get_set id (chmap st)) (get_set id (chmap st'))) eqn:S.
  - apply framed_iff. split; [unfold glob; rewrite Hr, Ha; auto|]. split; [|split]; auto.
    intros n Hn. apply (clean_ok_wiring dm st st'); auto.
    intros r L c Hin s. destruct (N.eq_dec c id) as [->|Hne].
    + symmetry. apply same_members_In. auto.
    + rewrite Hc; tauto.
  - apply framed_iff. split; [unfold glob; rewrite Hr, Ha; auto|]. split; [|split].
    + intros n Hn. unfold is_clean in Hn. cbn [fst snd] in Hn. rewrite memN_app in Hn.
      apply andb_true_iff in Hn as [Hn1 Hn2]. apply negb_true_iff, orb_false_iff in Hn1 as [Hu Hcv].
      assert (is_clean (cov, lost) n = true) as Hcl by (unfold is_clean; cbn [fst snd]; rewrite Hcv, Hn2; auto).
      apply (clean_ok_wiring dm st st'); auto.
      intros r L c Hin s. rewrite Hc; [tauto|]. intros ->.
      apply memN_false in Hu. apply Hu. apply In_users_ch. exists r. split; [apply lookup_In; auto|].
      apply memN_In. auto.
    + intros n Hn. unfold is_cov in Hn. cbn [fst snd] in Hn. rewrite memN_app in Hn.
      apply andb_true_iff in Hn as [Hn1 Hn2].
      destruct (memN n cov) eqn:Mc.
      * apply Hcov, D. unfold is_cov. cbn [fst snd]. rewrite Mc, Hn2. auto.
      * rewrite orb_false_r in Hn1. apply memN_In, In_users_ch in Hn1 as [r [Hin _]].
        assert (is_clean (cov, lost) n = true) as Hcl by (unfold is_clean; cbn [fst snd]; rewrite Mc, Hn2; auto).
        pose proof (clean_holders dm st n (C n Hcl)) as He. unfold exact_holders in He.
        rewrite (In_lookup _ _ _ G1 Hin) in He. apply Hcov. exists r. split; auto. apply In_lookup; auto.
    + intros n Hn. apply Harm, E. exact Hn.
Qed.

(* ---- remove ------------------------------------------------------------------------------------------------------ *)
Lemma is_clean_filter_out_other cov lost x n : n <> x ->
  is_clean (filter_out x cov, lost) n = is_clean (cov, lost) n /\ is_cov (filter_out x cov, lost) n = is_cov (cov, lost) n.
Proof.
  intros H. unfold is_clean, is_cov. cbn [fst snd]. rewrite memN_filter_out. apply N.eqb_neq in H. rewrite H. auto.
Qed.
Lemma is_cov_filter_out_same cov lost x : is_cov (filter_out x cov, lost) x = false.
Proof. unfold is_cov. cbn [fst snd]. rewrite memN_filter_out, N.eqb_refl. auto. Qed.

Lemma remove_case dm st name st' e cov lost :
  remove_program st name = (st', e) -> framed_inv_awg dm (cov, lost) st ->
  framed_inv_awg dm (filter_out name cov, lost) st'.
Proof.
  intros H Hinv. pose proof Hinv as Hinv0. apply framed_iff in Hinv as [[G1 G2] [C [D E]]].
  unfold remove_program in H. destruct (lookup name (regs st)) as [r|] eqn:L.
  - inversion H; subst; clear H.
    assert (forall x, fold_left (fun aw a => upd aw a (awg_remove (aw a) name)) (r_awgs r) (awg_of st) x
                      = if memN x (r_awgs r) then awg_remove (awg_of st x) name else awg_of st x) as Hpt.
    { intros x.
      pose proof (fold_upd_pointwise (fun _ v => awg_remove v name) (fun _ => false) (r_awgs r)
                                     (fun _ v => awg_remove_idem name v) (awg_of st) x) as P.
      cbn in P. rewrite andb_true_r in P. exact P. }
    set (st' := {| chmap := chmap st; mmap := mmap st; regs := remove_key name (regs st);
                   awg_of := fold_left (fun aw a => upd aw a (awg_remove (aw a) name)) (r_awgs r) (awg_of st);
                   dac_of := fold_left (fun dc d => upd dc d (dac_delete (dc d) name)) (r_dacs r) (dac_of st);
                   cblog := cblog st; vollog := vollog st |}).
    assert (forall n a, n <> name -> lookup n (a_progs (awg_of st' a)) = lookup n (a_progs (awg_of st a))) as Hp.
    { intros n a Hne. unfold st'. cbn [awg_of]. rewrite Hpt. destruct (memN a (r_awgs r)); auto.
      unfold awg_remove. cbn. rewrite lookup_remove. apply N.eqb_neq in Hne. rewrite Hne. auto. }
    assert (forall n a, a_armed (awg_of st' a) = Some n -> a_armed (awg_of st a) = Some n) as Har.
    { intros n a. unfold st'. cbn [awg_of]. rewrite Hpt. destruct (memN a (r_awgs r)); auto. cbn. discriminate. }
    assert (forall n, n <> name -> lookup n (regs st') = lookup n (regs st)) as Hrg.
    { intros n Hne. unfold st'. cbn. rewrite lookup_remove. apply N.eqb_neq in Hne. rewrite Hne. auto. }
    assert (is_lost (cov, lost) name = false -> forall a, has_key name (a_progs (awg_of st' a)) = false) as Hgone.
    { intros Hl a. unfold st'. cbn [awg_of]. rewrite Hpt. destruct (memN a (r_awgs r)) eqn:M.
      - unfold awg_remove. cbn. rewrite has_key_remove, N.eqb_refl. auto.
      - pose proof (notlost_holders dm _ _ _ Hinv0 Hl) as He. unfold exact_holders in He. rewrite L in He.
        rewrite He. auto. }
    apply framed_iff. split; [|split; [|split]].
    + split; [unfold st'; cbn; apply nodup_remove; auto|].
      intros a. unfold st'. cbn [awg_of]. rewrite Hpt. destruct (memN a (r_awgs r)); auto.
      unfold awg_remove. cbn. apply nodup_remove. auto.
    + intros n Hn. destruct (N.eq_dec n name) as [->|Hne].
      * unfold clean_ok. split; [|split].
        -- intros a e0 E0. pose proof (Hgone (clean_not_lost _ _ Hn) a) as Hg. unfold has_key in Hg.
           rewrite E0 in Hg. discriminate.
        -- intros a r0 L0. unfold st' in L0. cbn in L0. rewrite lookup_remove, N.eqb_refl in L0. discriminate.
        -- intros r0 L0. unfold st' in L0. cbn in L0. rewrite lookup_remove, N.eqb_refl in L0. discriminate.
      * destruct (is_clean_filter_out_other cov lost name n Hne) as [Ec _]. rewrite Ec in Hn.
        apply (frame_name dm st st' n); auto.
    + intros n Hn. destruct (N.eq_dec n name) as [->|Hne].
      * rewrite is_cov_filter_out_same in Hn. discriminate.
      * destruct (is_clean_filter_out_other cov lost name n Hne) as [_ Ec]. rewrite Ec in Hn.
        apply (frame_name dm st st' n); auto.
    + intros n Hn. destruct (N.eq_dec n name) as [->|Hne].
      * intros a Ea. exfalso. revert Ea. unfold st'. cbn [awg_of]. rewrite Hpt. destruct (memN a (r_awgs r)) eqn:M.
        -- cbn. discriminate.
        -- intros Ea. pose proof (E name Hn a Ea) as Hk.
           pose proof (notlost_holders dm _ _ _ Hinv0 Hn) as He. unfold exact_holders in He. rewrite L in He.
           rewrite He in Hk. congruence.
      * apply (frame_armed st st' n); auto; apply E; exact Hn.
  - inversion H; subst; clear H. apply framed_iff. split; [split; auto|]. split; [|split].
    + intros n Hn. destruct (N.eq_dec n name) as [->|Hne].
      * pose proof (clean_not_lost _ _ Hn) as Hl. unfold is_lost in Hl. cbn in Hl.
        destruct (status_cases (cov, lost) name Hl) as [Hc|Hc]; auto.
        destruct (D _ Hc) as [r [Lr _]]. congruence.
      * destruct (is_clean_filter_out_other cov lost name n Hne) as [Ec _]. rewrite Ec in Hn. auto.
    + intros n Hn. destruct (N.eq_dec n name) as [->|Hne].
      * rewrite is_cov_filter_out_same in Hn. discriminate.
      * destruct (is_clean_filter_out_other cov lost name n Hne) as [_ Ec]. rewrite Ec in Hn. auto.
    + intros n Hn. apply E. exact Hn.
Qed.

(* ---- clear ------------------------------------------------------------------------------------------------------- *)
Definition clear_lost (st : state) (cov lost : list N) : list N :=
  filter (fun n => match lookup n (regs st) with
                   | Some r => negb (forallb (fun a => memN a (known_awgs (chmap st))) (r_awgs r))
                   | None => true
                   end) cov ++ lost.

Lemma clear_case dm st st' e cov lost :
  clear_programs st = (st', e) -> framed_inv_awg dm (cov, lost) st ->
  framed_inv_awg dm ([], clear_lost st cov lost) st'.
Proof.
  intros H Hinv. pose proof Hinv as Hinv0. apply framed_iff in Hinv as [[G1 G2] [C [D E]]].
  unfold clear_programs in H. inversion H; subst; clear H.
  set (empty := {| a_progs := []; a_armed := None |}).
  assert (forall x, fold_left (fun aw a => upd aw a empty) (known_awgs (chmap st)) (awg_of st) x
                    = if memN x (known_awgs (chmap st)) then empty else awg_of st x) as Hpt.
  { intros x.
    pose proof (fold_upd_pointwise (fun _ _ => empty) (fun _ => false) (known_awgs (chmap st))
                                   (fun _ _ => eq_refl) (awg_of st) x) as P.
    cbn in P. rewrite andb_true_r in P. exact P. }
  (* a name that is not lost afterwards has no copy on a generator that is not wired *)
  assert (forall n, is_lost ([] : list N, clear_lost st cov lost) n = false ->
                    forall a, memN a (known_awgs (chmap st)) = false ->
                              has_key n (a_progs (awg_of st a)) = false) as Hkey.
  { intros n Hl a Ka. unfold is_lost, clear_lost in Hl. cbn [snd] in Hl. rewrite memN_app in Hl.
    apply orb_false_iff in Hl as [Hf Hl].
    assert (is_lost (cov, lost) n = false) as Hl0 by exact Hl.
    pose proof (notlost_holders dm _ _ _ Hinv0 Hl0) as He. unfold exact_holders in He.
    destruct (lookup n (regs st)) as [r|] eqn:L; [|apply He].
    rewrite He. destruct (memN a (r_awgs r)) eqn:M; auto. exfalso.
    destruct (status_cases _ _ Hl0) as [Hc|Hc].
    - destruct (C n Hc) as [_ [_ C3]]. rewrite (C3 r L a) in M. apply uses_known in M. congruence.
    - unfold is_cov in Hc. cbn [fst snd] in Hc. apply andb_true_iff in Hc as [Hc _].
      apply memN_false in Hf. apply Hf. apply filter_In. split; [apply memN_In; auto|].
      rewrite L. apply negb_true_iff. destruct (forallb _ (r_awgs r)) eqn:F; auto.
      rewrite forallb_forall in F. apply memN_In in M. apply F in M. congruence. }
  apply framed_iff. cbn [chmap regs awg_of]. fold empty. split; [|split; [|split]].
  - split; [reflexivity|]. intros a. cbn [awg_of]. fold empty. rewrite Hpt.
    destruct (memN a (known_awgs (chmap st))); auto.
  - intros n Hn. pose proof (clean_not_lost _ _ Hn) as Hl. unfold clean_ok. cbn [chmap regs awg_of]. fold empty.
    split; [|split].
    + intros a e0. rewrite Hpt. destruct (memN a (known_awgs (chmap st))) eqn:K; [cbn; discriminate|].
      intros E0. pose proof (Hkey n Hl a K) as Hk. unfold has_key in Hk. rewrite E0 in Hk. discriminate.
    + intros a r L. cbn in L. discriminate.
    + intros r L. cbn in L. discriminate.
  - intros n Hn. unfold is_cov in Hn. cbn in Hn. discriminate.
  - intros n Hl a. cbn [awg_of]. fold empty. rewrite Hpt.
    destruct (memN a (known_awgs (chmap st))) eqn:K; [cbn; discriminate|].
    intros Ea. pose proof (Hkey n Hl a K) as Hk.
    assert (is_lost (cov, lost) n = false) as Hl0.
    { unfold is_lost, clear_lost in Hl. cbn [snd] in Hl. rewrite memN_app in Hl. apply orb_false_iff in Hl as [_ Hl].
      exact Hl. }
    rewrite (E n Hl0 a Ea) in Hk. discriminate.
Qed.

(* ---- arm --------------------------------------------------------------------------------------------------------- *)
Lemma arm_devices_case dm st name r cl :
  lookup name (regs st) = Some r -> framed_inv_awg dm cl st -> framed_inv_awg dm cl (arm_devices st name r).
Proof.
  intros L Hinv. pose proof Hinv as Hinv0. apply framed_iff in Hinv as [[G1 G2] [C [D E]]].
  set (g := fun (a : N) (v : awg_st) =>
              {| a_progs := a_progs v; a_armed := if memN a (r_awgs r) then Some name else None |}).
  assert (forall x, awg_of (arm_devices st name r) x
                    = if memN x (known_awgs (chmap st)) then g x (awg_of st x) else awg_of st x) as Hpt.
  { intros x. unfold arm_devices. cbn.
    pose proof (fold_upd_pointwise g (fun _ => false) (known_awgs (chmap st))
                                   (fun _ _ => eq_refl) (awg_of st) x) as P.
    cbn in P. rewrite andb_true_r in P. exact P. }
  assert (forall x, a_progs (awg_of (arm_devices st name r) x) = a_progs (awg_of st x)) as Hp.
  { intros x. rewrite Hpt. destruct (memN x (known_awgs (chmap st))); auto. }
  apply framed_iff. split; [|split; [|split]].
  - split; [exact G1|]. intros a. rewrite Hp. auto.
  - intros n Hn. apply (frame_name dm st (arm_devices st name r) n); auto. intros a. rewrite Hp. auto.
  - intros n Hn. apply (frame_name dm st (arm_devices st name r) n); auto. intros a. rewrite Hp. auto.
  - intros n Hl a. rewrite Hp, Hpt. destruct (memN a (known_awgs (chmap st))); [|apply E; auto].
    unfold g. cbn [a_armed]. destruct (memN a (r_awgs r)) eqn:M; [|discriminate].
    intros Ea. inversion Ea. subst n.
    pose proof (notlost_holders dm _ _ _ Hinv0 Hl) as He. unfold exact_holders in He. rewrite L in He.
    rewrite He. auto.
Qed.

(* ---- register ---------------------------------------------------------------------------------------------------- *)
Lemma upload_all_frame name tag force infos : forall order aw aw' ok,
  upload_all aw name tag force infos order = (aw', ok) ->
  forall x, a_armed (aw' x) = a_armed (aw x)
            /\ (forall n, n <> name -> lookup n (a_progs (aw' x)) = lookup n (a_progs (aw x)))
            /\ (nodupN (keys (a_progs (aw x))) = true -> nodupN (keys (a_progs (aw' x))) = true).
Proof.
  induction order as [|a rest IH]; intros aw aw' ok H x; cbn in H.
  - inversion H. subst. auto.
  - destruct (lookup a infos) as [i|]; [|inversion H; subst; auto].
    destruct (awg_upload (aw a) name (entry_of tag i) force) as [ast|] eqn:U; [|inversion H; subst; auto].
    destruct (IH _ _ _ H x) as [A [B C]]. apply awg_upload_progs in U as [Pe Ae].
    destruct (N.eq_dec x a) as [->|Hne].
    + rewrite upd_same in *. split; [congruence|]. split.
      * intros n Hn. rewrite (B n Hn), Pe, lookup_upsert, lookup_remove.
        apply N.eqb_neq in Hn. rewrite Hn. auto.
      * intros Hd. apply C. rewrite Pe. apply nodup_upsert, nodup_remove. auto.
    + rewrite upd_other in * by auto. auto.
Qed.

Lemma register_case dm st name p cb update order st' e cov lost :
  register_program dm st name p cb update order = (st', e) -> framed_inv_awg dm (cov, lost) st ->
  framed_inv_awg dm (match e with None => (filter_out name cov, lost) | Some _ => (cov, lost) end) st'.
Proof.
  intros H Hinv. pose proof Hinv as Hinv0. unfold register_program in H.
  destruct cb as [cbt|]; [|inversion H; subst; auto].
  destruct (negb (forallb _ (p_chans p))); [inversion H; subst; auto|].
  destruct (negb (forallb _ (p_meas p))); [inversion H; subst; auto|].
  destruct (channel_info dm (chmap st) (p_chans p)) as [infos|] eqn:CI; [|inversion H; subst; auto].
  destruct (negb (same_setN order (keys infos))) eqn:SS; [inversion H; subst; auto|].
  apply negb_false_iff in SS.
  destruct (has_key name (regs st) && negb update) eqn:G; [inversion H; subst; auto|].
  apply framed_iff in Hinv as [[G1 G2] [C [D E]]].
  pose proof (same_setN_nodup _ _ SS) as Hond.
  assert (forall x, memN x order = uses_awg (chmap st) (p_chans p) x) as Hord.
  { intros x. rewrite (same_setN_mem _ _ x SS), memN_keys. eapply channel_info_keys; eauto. }
  destruct (upload_all (awg_of st) name (p_tag p) update infos order) as [aw ok] eqn:Hup.
  pose proof (upload_all_frame _ _ _ _ _ _ _ _ Hup) as Hfr.
  (* a name that is not lost cannot make the upload loop fail *)
  assert (is_lost (cov, lost) name = false -> ok = true) as Hok.
  { intros Hl. destruct (upload_all_total name (p_tag p) update infos order (awg_of st)) as [aw2 Hup2]; auto.
    - intros x Hx. apply memN_In in Hx. rewrite (same_setN_mem _ _ x SS), memN_keys in Hx. auto.
    - intros x Hx K. pose proof (notlost_holders dm _ _ _ Hinv0 Hl) as He. unfold exact_holders in He.
      unfold has_key in G. destruct (lookup name (regs st)) as [r0|].
      + cbn in G. apply negb_false_iff in G. auto.
      + rewrite He in K. discriminate.
    - rewrite Hup in Hup2. inversion Hup2. auto. }
  destruct ok; cbn in H; inversion H; subst; clear H.
  - (* all uploads done *)
    destruct (upload_all_spec _ _ _ _ _ _ _ Hond Hup) as [Hout Hin].
    set (old_awgs := match lookup name (regs st) with Some r => r_awgs r | None => [] end).
    assert (forall x, fold_left (fun aw0 a => if memN a order then aw0 else upd aw0 a (awg_remove (aw0 a) name))
                                old_awgs aw x
                      = if memN x old_awgs && negb (memN x order) then awg_remove (aw x) name else aw x) as Hpt.
    { intros x. exact (fold_upd_pointwise (fun _ v => awg_remove v name) (fun a => memN a order) old_awgs
                                          (fun _ v => awg_remove_idem name v) aw x). }
    set (r' := {| r_tag := p_tag p; r_chans := p_chans p; r_meas := p_meas p; r_cb := cbt; r_awgs := order;
                  r_dacs := keys (affected_dacs (mmap st) (p_meas p)) |}).
    match goal with |- framed_inv_awg _ _ ?s => set (st' := s) end.
    assert (forall x, awg_of st' x = if memN x old_awgs && negb (memN x order) then awg_remove (aw x) name else aw x)
      as Hpt' by (intros x; unfold st'; cbn [awg_of]; fold old_awgs; apply Hpt).
    assert (forall n a, n <> name -> lookup n (a_progs (awg_of st' a)) = lookup n (a_progs (awg_of st a))) as Hp.
    { intros n a Hne. rewrite Hpt'. destruct (Hfr a) as [_ [B _]].
      destruct (memN a old_awgs && negb (memN a order)); [|apply B; auto].
      unfold awg_remove. cbn [a_progs]. rewrite lookup_remove. pose proof Hne as Hne'. apply N.eqb_neq in Hne'.
      rewrite Hne'. apply B; auto. }
    assert (forall n a, a_armed (awg_of st' a) = Some n -> a_armed (awg_of st a) = Some n) as Har.
    { intros n a. rewrite Hpt'. destruct (Hfr a) as [A _].
      destruct (memN a old_awgs && negb (memN a order)); [cbn; discriminate|]. rewrite A. auto. }
    assert (forall n, n <> name -> lookup n (regs st') = lookup n (regs st)) as Hrg.
    { intros n Hne. unfold st'. cbn [regs]. rewrite lookup_upsert. apply N.eqb_neq in Hne. rewrite Hne. auto. }
    assert (lookup name (regs st') = Some r') as Lr'.
    { unfold st'. cbn [regs]. rewrite lookup_upsert, N.eqb_refl. auto. }
    assert (forall x, memN x order = true ->
                      exists i, lookup x infos = Some i
                                /\ a_progs (awg_of st' x) = upsert name (entry_of (p_tag p) i) (remove_key name (a_progs (awg_of st x))))
      as Hnew.
    { intros x Mo. rewrite Hpt', Mo, andb_false_r. apply memN_In in Mo. destruct (Hin x Mo) as [i [Li Ui]].
      apply awg_upload_progs in Ui as [Pe _]. eauto. }
    (* the name itself, when it is not lost: clean afterwards *)
    assert (is_lost (cov, lost) name = false -> clean_ok dm st' name /\ armed_ok st' name) as Hname.
    { intros Hl. pose proof (notlost_holders dm _ _ _ Hinv0 Hl) as He.
      assert (forall x, has_key name (a_progs (awg_of st x)) = memN x old_awgs) as Hhold.
      { intros x. unfold exact_holders in He. unfold old_awgs. destruct (lookup name (regs st)); rewrite He; auto. }
      split.
      - unfold clean_ok. rewrite Lr'. split; [|split].
        + intros a e0 E0. destruct (memN a order) eqn:Mo.
          * destruct (Hnew a Mo) as [i [Li Pe]]. rewrite Pe, lookup_upsert, N.eqb_refl in E0. inversion E0; subst e0.
            exists r'. split; auto. unfold r'; cbn [r_chans r_tag]. unfold st'; cbn [chmap].
            rewrite <- Hord, Mo. split; auto. eapply channel_info_entry; eauto.
          * exfalso. rewrite Hpt', Mo, andb_true_r, (Hout a Mo) in E0. destruct (memN a old_awgs) eqn:Mold.
            -- unfold awg_remove in E0. cbn [a_progs] in E0. rewrite lookup_remove, N.eqb_refl in E0. discriminate.
            -- pose proof (Hhold a) as Hh. unfold has_key in Hh. rewrite E0, Mold in Hh. discriminate.
        + intros a r0 L0 U0. inversion L0; subst r0. unfold r' in U0; cbn [r_chans] in U0.
          unfold st' in U0; cbn [chmap] in U0. rewrite <- Hord in U0.
          destruct (Hnew a U0) as [i [Li Pe]]. rewrite Pe, has_key_upsert, N.eqb_refl. auto.
        + intros r0 L0 a. inversion L0; subst r0. unfold r'; cbn [r_awgs r_chans]. unfold st'; cbn [chmap]. apply Hord.
      - intros a Ea. destruct (memN a order) eqn:Mo.
        + destruct (Hnew a Mo) as [i [Li Pe]]. rewrite Pe, has_key_upsert, N.eqb_refl. auto.
        + rewrite Hpt', Mo, andb_true_r, (Hout a Mo) in *. destruct (memN a old_awgs) eqn:Mold.
          * cbn in Ea. discriminate.
          * apply (E name Hl a Ea). }
    apply framed_iff. split; [|split; [|split]].
    + split; [unfold st'; cbn [regs]; apply nodup_upsert; auto|].
      intros a. rewrite Hpt'. destruct (Hfr a) as [_ [_ Nd]].
      destruct (memN a old_awgs && negb (memN a order)); [|apply Nd; auto].
      unfold awg_remove. cbn [a_progs]. apply nodup_remove, Nd. auto.
    + intros n Hn. destruct (N.eq_dec n name) as [->|Hne].
      * apply Hname. apply (clean_not_lost _ _ Hn).
      * destruct (is_clean_filter_out_other cov lost name n Hne) as [Ec _]. rewrite Ec in Hn.
        apply (frame_name dm st st' n); auto.
    + intros n Hn. destruct (N.eq_dec n name) as [->|Hne].
      * rewrite is_cov_filter_out_same in Hn. discriminate.
      * destruct (is_clean_filter_out_other cov lost name n Hne) as [_ Ec]. rewrite Ec in Hn.
        apply (frame_name dm st st' n); auto.
    + intros n Hn. destruct (N.eq_dec n name) as [->|Hne].
      * apply Hname. exact Hn.
      * apply (frame_armed st st' n); auto; apply E; exact Hn.
  - (* the upload loop stopped half-way: only possible for a lost name *)
    assert (is_lost (cov, lost) name = true) as Hl.
    { destruct (is_lost (cov, lost) name) eqn:Hl; auto. }
    match goal with |- framed_inv_awg _ _ ?s => set (st' := s) end.
    assert (forall n a, n <> name -> lookup n (a_progs (awg_of st' a)) = lookup n (a_progs (awg_of st a))) as Hp.
    { intros n a Hne. destruct (Hfr a) as [_ [B _]]. apply B; auto. }
    assert (forall n a, a_armed (awg_of st' a) = Some n -> a_armed (awg_of st a) = Some n) as Har.
    { intros n a. destruct (Hfr a) as [A _]. unfold st'; cbn [awg_of]. rewrite A. auto. }
    apply framed_iff. split; [|split; [|split]].
    + split; [exact G1|]. intros a. destruct (Hfr a) as [_ [_ Nd]]. apply Nd; auto.
    + intros n Hn. assert (n <> name) as Hne by (intros ->; apply clean_not_lost in Hn; congruence).
      apply (frame_name dm st st' n); auto.
    + intros n Hn. assert (n <> name) as Hne by (intros ->; apply cov_not_lost in Hn; congruence).
      apply (frame_name dm st st' n); auto.
    + intros n Hn. assert (n <> name) as Hne by (intros ->; congruence).
      apply (frame_armed st st' n); auto.
Qed.

(* ---- every operation, every history ------------------------------------------------------------------------------- *)
Lemma framed_awg_step dm t o :
  framed_inv_awg dm (t_awg t) (t_st t) -> framed_inv_awg dm (t_awg (tstep dm t o)) (t_st (tstep dm t o)).
Proof.
  destruct t as [st [cov lost] td]. cbn [tstep t_st t_awg]. intros Hinv. unfold track_awg.
  destruct (step dm st o) as [st' e] eqn:H. cbn [fst]. destruct o; cbn in H.
  - (* set_channel *)
    apply rewire_gen; auto; unfold set_channel in H;
      destruct (negb (forallb (ctor_ok dm) (charg_channels a))); try (inversion H; subst; auto; fail);
      destruct (match a with ChSingle c => _ | ChMany cs junk => _ | ChNotIterable => None end) as [[new junk]|];
      try (inversion H; subst; auto; fail);
      destruct (negb allow && _); try (inversion H; subst; auto; fail);
      destruct junk; inversion H; subst; auto.
    intros c Hc. cbn. apply get_set_upsert. auto.
  - (* set_measurement *)
    apply (inv_same dm (cov, lost) st st'); auto; unfold set_measurement in H;
      destruct (match a with MSingle m => _ | MMany ms => _ | MNotIterable => None end) as [new|];
      try (inversion H; subst; auto; fail);
      destruct (negb allow && _); inversion H; subst; auto.
  - (* rm_channel *)
    apply rewire_gen; auto; unfold rm_channel in H; destruct (has_key id (chmap st)); inversion H; subst; auto.
    intros c Hc. cbn. apply get_set_remove. auto.
  - (* register *)
    eapply register_case; eauto.
  - (* remove *)
    eapply remove_case; eauto.
  - (* clear *)
    eapply clear_case; eauto.
  - (* arm *)
    unfold arm_program in H. destruct (lookup name (regs st)) as [r|] eqn:L; inversion H; subst; auto.
    apply arm_devices_case; auto.
  - (* run *)
    unfold run_program in H. destruct (lookup name (regs st)) as [r|] eqn:L; inversion H; subst; auto.
    apply (inv_same dm (cov, lost) (arm_devices st name r)); auto. apply arm_devices_case; auto.
  - (* update_parameters *)
    unfold update_parameters in H. destruct (lookup name (regs st)) as [r|] eqn:L; inversion H; subst; auto;
      apply (inv_same dm (cov, lost) st); auto.
Qed.

Lemma framed_awg_init dm : framed_inv_awg dm (t_awg tinit) (t_st tinit).
Proof.
  unfold framed_inv_awg, tinit. cbn. repeat split; auto; try discriminate.
Qed.

Lemma framed_awg_run dm : forall h t,
  framed_inv_awg dm (t_awg t) (t_st t) -> framed_inv_awg dm (t_awg (trun dm t h)) (t_st (trun dm t h)).
Proof.
  induction h as [|o h IH]; intros t Hinv; cbn; auto. apply IH. apply framed_awg_step. auto.
Qed.

Theorem framed_awg_histories dm h :
  framed_inv_awg dm (t_awg (trun dm tinit h)) (t_st (trun dm tinit h)).
Proof. apply framed_awg_run, framed_awg_init. Qed.

Lemma t_st_run dm : forall h t, t_st (trun dm t h) = run dm (t_st t) h.
Proof.
  induction h as [|o h IH]; intros t; [reflexivity|].
  change (trun dm t (o :: h)) with (trun dm (tstep dm t o) h). rewrite IH. reflexivity.
Qed.

Lemma trun_app dm h h' t : trun dm t (h ++ h') = trun dm (trun dm t h) h'.
Proof. unfold trun. apply fold_left_app. Qed.

(* ---- corollaries -------------------------------------------------------------------------------------------------- *)
(* under the guard of round 1 nothing ever becomes covered or lost *)
Lemma users_ch_unused rg id : chan_unused rg id = true -> users_ch rg id = [].
Proof.
  unfold chan_unused, users_ch. induction rg as [|[n r] rg IH]; cbn; auto.
  rewrite andb_true_iff, negb_true_iff. intros [A B]. rewrite A. auto.
Qed.

Lemma guard_clean_run dm : forall h t,
  t_awg t = ([], []) -> guard_C18_rewire dm (t_st t) h = true -> t_awg (trun dm t h) = ([], []).
Proof.
  induction h as [|o h IH]; intros t Ht Hg; [exact Ht|].
  change (trun dm t (o :: h)) with (trun dm (tstep dm t o) h). cbn in Hg. apply andb_true_iff in Hg as [G1 G2].
  apply IH; [|exact G2]. unfold tstep. cbn [t_awg]. rewrite Ht. unfold track_awg.
  destruct (step dm (t_st t) o) as [st' e]. destruct o; cbn in G1; auto.
  - rewrite (users_ch_unused _ _ G1). destruct (same_members _ _ _); auto.
  - rewrite (users_ch_unused _ _ G1). destruct (same_members _ _ _); auto.
  - destruct e; auto.
Qed.

Lemma guard_clean dm h :
  guard_C18_rewire dm init_state h = true -> t_awg (trun dm tinit h) = ([], []).
Proof. intros G. apply guard_clean_run; auto. Qed.

Lemma framed_arm_awg dm h name st' :
  is_clean (t_awg (trun dm tinit h)) name = true ->
  arm_program (t_st (trun dm tinit h)) name = (st', None) ->
  exists r, lookup name (regs st') = Some r
            /\ forall a, awg_arm_post (chmap st') name (r_chans r) a (awg_of st' a) = true.
Proof.
  intros Hc H. pose proof (framed_awg_histories dm h) as Hinv. set (t := trun dm tinit h) in *.
  set (st := t_st t) in *. apply framed_iff in Hinv as [_ [C _]]. destruct (C name Hc) as [_ [_ Hrec]].
  unfold arm_program in H. destruct (lookup name (regs st)) as [r|] eqn:L; [|discriminate].
  inversion H; subst st'; clear H. exists r. split; auto. intros a.
  set (g := fun (a : N) (v : awg_st) =>
              {| a_progs := a_progs v; a_armed := if memN a (r_awgs r) then Some name else None |}).
  assert (awg_of (arm_devices st name r) a
          = if memN a (known_awgs (chmap st)) then g a (awg_of st a) else awg_of st a) as Hpt.
  { unfold arm_devices. cbn.
    pose proof (fold_upd_pointwise g (fun _ => false) (known_awgs (chmap st)) (fun _ _ => eq_refl) (awg_of st) a) as P.
    cbn in P. rewrite andb_true_r in P. exact P. }
  unfold awg_arm_post. rewrite Hpt. change (chmap (arm_devices st name r)) with (chmap st).
  rewrite <- (Hrec r eq_refl a).
  destruct (memN a (r_awgs r)) eqn:M.
  - rewrite (Hrec r eq_refl a) in M. rewrite (uses_known _ _ _ M). unfold g. cbn.
    rewrite <- (Hrec r eq_refl a) in M. rewrite M. apply N.eqb_refl.
  - destruct (memN a (known_awgs (chmap st))); auto. unfold g. cbn. rewrite M. auto.
Qed.

Lemma framed_removed_awg dm h name a :
  is_lost (t_awg (trun dm tinit h)) name = false ->
  awg_gone name (awg_of (fst (remove_program (t_st (trun dm tinit h)) name)) a) = true.
Proof.
  intros Hl. pose proof (framed_awg_histories dm h) as Hinv. set (t := trun dm tinit h) in *.
  destruct (t_awg t) as [cov lost] eqn:Ta.
  destruct (remove_program (t_st t) name) as [st' e] eqn:R. cbn [fst].
  pose proof (remove_case dm _ _ _ _ _ _ R Hinv) as Hinv'.
  assert (is_clean (filter_out name cov, lost) name = true) as Hc.
  { unfold is_clean, is_lost in *. cbn [fst snd] in *. rewrite memN_filter_out, N.eqb_refl, Hl. auto. }
  apply framed_iff in Hinv' as [_ [C _]]. destruct (C name Hc) as [C1 _].
  assert (lookup name (regs st') = None) as Ln.
  { unfold remove_program in R. destruct (lookup name (regs (t_st t))) as [r|] eqn:L; inversion R; subst; auto.
    cbn. rewrite lookup_remove, N.eqb_refl. auto. }
  unfold awg_gone, has_key. destruct (lookup name (a_progs (awg_of st' a))) as [e0|] eqn:E0; auto.
  destruct (C1 _ _ E0) as [r [Lr _]]. congruence.
Qed.

Lemma framed_cleared_awg dm h a n :
  has_key n (a_progs (awg_of (t_st (trun dm tinit (h ++ [OClear]))) a)) = true ->
  is_lost (t_awg (trun dm tinit (h ++ [OClear]))) n = true.
Proof.
  intros Hk. pose proof (framed_awg_histories dm (h ++ [OClear])) as Hinv.
  destruct (is_lost (t_awg (trun dm tinit (h ++ [OClear]))) n) eqn:Hl; auto. exfalso.
  rewrite trun_app in *. set (t := trun dm tinit h) in *.
  change (trun dm t [OClear]) with (tstep dm t OClear) in *.
  assert (is_clean (t_awg (tstep dm t OClear)) n = true) as Hc.
  { unfold is_clean. unfold is_lost in Hl. rewrite Hl. unfold tstep. cbn [t_awg]. unfold track_awg.
    destruct (t_awg t) as [cov lost]. cbn. auto. }
  apply framed_iff in Hinv as [_ [C _]]. destruct (C n Hc) as [C1 _].
  unfold has_key in Hk. destruct (lookup n (a_progs (awg_of (t_st (tstep dm t OClear)) a))) as [e0|] eqn:E0; [|discriminate].
  destruct (C1 _ _ E0) as [r [Lr _]]. cbn in Lr. discriminate.
Qed.

Lemma NoDup_filter' {A} (f : A -> bool) l : NoDup l -> NoDup (filter f l).
Proof.
  induction 1 as [|x l Hx Hnd IH]; cbn; [constructor|].
  destruct (f x); auto. constructor; auto. intros Hin. apply filter_In in Hin. tauto.
Qed.

Lemma framed_update_parameters dm h name ptag st' :
  is_clean (t_awg (trun dm tinit h)) name = true ->
  update_parameters (t_st (trun dm tinit h)) name ptag = (st', None) ->
  exists r got rest, lookup name (regs st') = Some r /\ vollog st' = (name, ptag, got) :: rest
                     /\ delivered_ok (chmap st') (r_chans r) got.
Proof.
  intros Hc H. pose proof (framed_awg_histories dm h) as Hinv. set (t := trun dm tinit h) in *.
  set (st := t_st t) in *. apply framed_iff in Hinv as [_ [C _]]. destruct (C name Hc) as [_ [_ Hrec]].
  unfold update_parameters in H. destruct (lookup name (regs st)) as [r|] eqn:L; [|discriminate].
  inversion H; subst st'; clear H. cbn [regs vollog chmap].
  exists r, (filter (fun a => memN a (r_awgs r)) (nodup N.eq_dec (known_awgs (chmap st)))), (vollog st).
  split; auto. split; auto. split.
  - apply NoDup_filter', NoDup_nodup.
  - intros a. rewrite filter_In, nodup_In, (Hrec r eq_refl a). split.
    + tauto.
    + intros U. split; auto. apply memN_In. apply uses_known in U. auto.
Qed.

(* the documented way back: a re-wired channel makes the name covered, update re-registration makes it clean again and
   the generator that dropped out forgets the program; un-wiring the generator and clearing loses the copy *)
Definition restore_history : list op :=
  [ OSetChannel 0 (ChMany [{| s_awg := 0; s_idx := 0; s_marker := false; s_trafo := 0 |}] false) false;
    ORegister 0 {| p_tag := 1; p_chans := [0%N]; p_meas := [] |} (Some 1%N) false [0%N];
    OSetChannel 0 (ChMany [{| s_awg := 1; s_idx := 1; s_marker := false; s_trafo := 0 |}] false) false ].
Definition restore_dims : dims := fun _ => (2%Z, 1%Z).
Definition restore_update : op :=
  ORegister 0 {| p_tag := 2; p_chans := [0%N]; p_meas := [] |} (Some 2%N) true [1%N].

Lemma restore_example :
  is_cov (t_awg (trun restore_dims tinit restore_history)) 0%N = true
  /\ is_clean (t_awg (trun restore_dims tinit (restore_history ++ [restore_update]))) 0%N = true
  /\ keys (a_progs (awg_of (t_st (trun restore_dims tinit (restore_history ++ [restore_update]))) 0%N)) = []
  /\ keys (a_progs (awg_of (t_st (trun restore_dims tinit (restore_history ++ [restore_update]))) 1%N)) = [0%N]
  /\ is_lost (t_awg (trun restore_dims tinit (restore_history ++ [ORmChannel 0; OClear]))) 0%N = true
  /\ keys (a_progs (awg_of (t_st (trun restore_dims tinit (restore_history ++ [ORmChannel 0; OClear]))) 0%N)) = [0%N].
Proof. vm_compute. repeat split; reflexivity. Qed.
