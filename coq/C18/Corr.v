(* C18 — correspondence cases.  A case is a device configuration and a history of operations; after every operation
   the harness recorded what the real HardwareSetup / DummyAWG / DummyDAC objects looked like.
   check_corr: the model, stepped along the same history, predicts every recorded observation (error kind included).
   check_spec: the routing property itself, evaluated on the recorded observations only (no model state involved). *)
From Coq Require Import List ZArith NArith QArith Bool.
Require Import QV.common.Util QV.C18.Model QV.C18.Spec.
Import ListNotations.

Record obs := {
  o_err : option err;
  o_chmap : list (N * list sch);
  o_mmap : list (N * list mask);
  o_regs : list (N * reg);
  o_awgs : list awg_st;           (* index = awg id *)
  o_dacs : list dac_st;           (* index = dac id *)
  o_cblog : list N;
  o_vollog : list (N * N * list N)      (* update_parameters calls: (name, parameter tag, generators reached) *)
}.

Inductive case :=
| CHist (dl : list (Z * Z)) (ndacs : nat) (steps : list (op * obs))
| CCrash.

Definition dims_of (dl : list (Z * Z)) : dims := fun a => nth (N.to_nat a) dl (0%Z, 0%Z).

(* ---- equality of observations (dict / set order never matters) ------------------------------------------------- *)
Definition optN_eqb (a b : option N) : bool := opt_eqb N.eqb a b.
Definition err_eqb (a b : err) : bool :=
  match a, b with
  | ETypeError, ETypeError | EKeyError, EKeyError | EValueError, EValueError | EIndexError, EIndexError
  | EOverwrite, EOverwrite | EBadHint, EBadHint => true
  | _, _ => false
  end.

Definition alist_equiv {V} (e : V -> V -> bool) (a b : list (N * V)) : bool :=
  nodupN (keys a) && nodupN (keys b) && Nat.eqb (length a) (length b)
  && forallb (fun kv => match lookup (fst kv) b with Some v' => e (snd kv) v' | None => false end) a.

Definition set_equiv {A} (e : A -> A -> bool) (a b : list A) : bool :=
  Nat.eqb (length a) (length b) && forallb (fun x => existsb (e x) b) a && forallb (fun x => existsb (e x) a) b.

Definition mask_full_eqb (a b : mask) : bool :=
  N.eqb (m_oid a) (m_oid b) && N.eqb (m_dac a) (m_dac b) && N.eqb (m_name a) (m_name b).
Definition setN_equiv (a b : list N) : bool := set_equiv N.eqb a b.

Definition entry_eqb (a b : awg_entry) : bool :=
  N.eqb (ae_tag a) (ae_tag b) && list_eqb optN_eqb (ae_ch a) (ae_ch b) && list_eqb optN_eqb (ae_mk a) (ae_mk b)
  && list_eqb optN_eqb (ae_vt a) (ae_vt b).
Definition awg_st_eqb (a b : awg_st) : bool :=
  alist_equiv entry_eqb (a_progs a) (a_progs b) && optN_eqb (a_armed a) (a_armed b).
Definition dac_st_eqb (a b : dac_st) : bool :=
  alist_equiv (alist_equiv windows_eqb) (d_wins a) (d_wins b) && optN_eqb (d_armed a) (d_armed b).
Definition reg_eqb (a b : reg) : bool :=
  N.eqb (r_tag a) (r_tag b) && setN_equiv (r_chans a) (r_chans b) && alist_equiv windows_eqb (r_meas a) (r_meas b)
  && N.eqb (r_cb a) (r_cb b) && setN_equiv (r_awgs a) (r_awgs b) && setN_equiv (r_dacs a) (r_dacs b).

Definition obs_state_eqb (a b : obs) : bool :=
  alist_equiv (set_equiv sch_full_eqb) (o_chmap a) (o_chmap b)
  && alist_equiv (set_equiv mask_full_eqb) (o_mmap a) (o_mmap b)
  && alist_equiv reg_eqb (o_regs a) (o_regs b)
  && list_eqb awg_st_eqb (o_awgs a) (o_awgs b) && list_eqb dac_st_eqb (o_dacs a) (o_dacs b)
  && list_eqb N.eqb (o_cblog a) (o_cblog b)
  && list_eqb (fun x y => N.eqb (fst (fst x)) (fst (fst y)) && N.eqb (snd (fst x)) (snd (fst y))
                          && setN_equiv (snd x) (snd y)) (o_vollog a) (o_vollog b).

Definition Nseq (n : nat) : list N := map N.of_nat (seq 0 n).

Definition view (nawgs ndacs : nat) (e : option err) (st : state) : obs :=
  {| o_err := e; o_chmap := chmap st; o_mmap := mmap st; o_regs := regs st;
     o_awgs := map (awg_of st) (Nseq nawgs); o_dacs := map (dac_of st) (Nseq ndacs); o_cblog := cblog st;
     o_vollog := vollog st |}.

Fixpoint corr_steps (dm : dims) (na nd : nat) (st : state) (steps : list (op * obs)) : bool :=
  match steps with
  | [] => true
  | (o, ob) :: rest =>
      let (st', e) := step dm st o in
      opt_eqb err_eqb e (o_err ob) && obs_state_eqb (view na nd e st') ob && corr_steps dm na nd st' rest
  end.

Definition check_corr (c : case) : bool :=
  match c with
  | CHist dl nd steps => corr_steps (dims_of dl) (length dl) nd init_state steps
  | CCrash => false
  end.

(* ---- the property on the observations --------------------------------------------------------------------------- *)
Fixpoint forall_idx {A} (f : N -> A -> bool) (i : N) (l : list A) : bool :=
  match l with [] => true | x :: r => f i x && forall_idx f (N.succ i) r end.

(* the participation record of every registered program names exactly the devices the wiring says *)
Definition record_ok (na nd : nat) cm mm (r : reg) : bool :=
  nodupN (r_awgs r) && nodupN (r_dacs r)
  && forallb (fun a => Bool.eqb (memN a (r_awgs r)) (uses_awg cm (r_chans r) a)) (Nseq na ++ r_awgs r)
  && forallb (fun d => Bool.eqb (memN d (r_dacs r)) (uses_dac mm (r_meas r) d)) (Nseq nd ++ r_dacs r).

Definition exact_obs (dm : dims) (ob : obs) : bool :=
  forall_idx (fun a ast => awg_exact dm (o_chmap ob) (o_regs ob) a ast && awg_armed_ok ast) 0%N (o_awgs ob)
  && forall_idx (fun d dst => dac_exact (o_mmap ob) (o_regs ob) d dst && dac_armed_ok dst) 0%N (o_dacs ob)
  && forallb (fun nr => record_ok (length (o_awgs ob)) (length (o_dacs ob)) (o_chmap ob) (o_mmap ob) (snd nr)) (o_regs ob).

Definition reg_is (r : reg) (p : prog) (cb : option N) : bool :=
  N.eqb (r_tag r) (p_tag p) && setN_equiv (r_chans r) (p_chans p) && alist_equiv windows_eqb (r_meas r) (p_meas p)
  && optN_eqb (Some (r_cb r)) cb.
Definition reg_same (a b : reg) : bool :=
  N.eqb (r_tag a) (r_tag b) && setN_equiv (r_chans a) (r_chans b) && alist_equiv windows_eqb (r_meas a) (r_meas b)
  && N.eqb (r_cb a) (r_cb b).

(* what an operation that returned normally must have done, as far as the property speaks about it *)
Definition post_ok (o : op) (prev ob : obs) : bool :=
  match o with
  | ORegister name p cb _ _ =>
      match lookup name (o_regs ob) with Some r => reg_is r p cb | None => false end
      && alist_equiv reg_same (remove_key name (o_regs prev)) (remove_key name (o_regs ob))
  | ORemove name =>
      alist_equiv reg_same (remove_key name (o_regs prev)) (o_regs ob)
      && forallb (awg_gone name) (o_awgs ob) && forallb (dac_gone name) (o_dacs ob)
  | OClear =>
      match o_regs ob with [] => true | _ => false end
      && forallb (fun ast => match a_progs ast with [] => true | _ => false end) (o_awgs ob)
      && forallb (fun dst => match d_wins dst with [] => true | _ => false end) (o_dacs ob)
  | OArm name | ORun name =>
      alist_equiv reg_same (o_regs prev) (o_regs ob)
      && match lookup name (o_regs ob) with
         | Some r => forall_idx (awg_arm_post (o_chmap ob) name (r_chans r)) 0%N (o_awgs ob)
                     && forall_idx (dac_arm_post (o_mmap ob) name (r_meas r)) 0%N (o_dacs ob)
                     && match o with
                        | ORun _ => list_eqb N.eqb (o_cblog ob) (r_cb r :: o_cblog prev)
                        | _ => list_eqb N.eqb (o_cblog ob) (o_cblog prev)
                        end
         | None => false
         end
  | OUpdateParams name ptag =>
      (* exactly the generators the program uses (current wiring) were handed the parameters, each once *)
      alist_equiv reg_same (o_regs prev) (o_regs ob)
      && match lookup name (o_regs ob), o_vollog ob with
         | Some r, (n, t, got) :: rest =>
             N.eqb n name && N.eqb t ptag && nodupN got
             && forallb (fun a => Bool.eqb (memN a got) (uses_awg (o_chmap ob) (r_chans r) a))
                        (Nseq (length (o_awgs ob)) ++ got)
             && Nat.eqb (length rest) (length (o_vollog prev))
         | _, _ => false
         end
  | _ => alist_equiv reg_same (o_regs prev) (o_regs ob)
  end.

(* the two call logs only grow by the operation that is allowed to call *)
Definition logs_ok (o : op) (prev ob : obs) : bool :=
  match o with
  | ORun _ => Nat.eqb (length (o_vollog ob)) (length (o_vollog prev))
  | OUpdateParams _ _ => list_eqb N.eqb (o_cblog ob) (o_cblog prev)
  | _ => list_eqb N.eqb (o_cblog ob) (o_cblog prev) && Nat.eqb (length (o_vollog ob)) (length (o_vollog prev))
  end.

(* The property quantifies over histories of calls that returned normally.  A call that raised and left every
   observed object as it was is harmless; after a call that raised and changed something the property does not
   speak any more (clean = false). *)
Fixpoint spec_steps (dm : dims) (prev : obs) (steps : list (op * obs)) : bool :=
  match steps with
  | [] => true
  | (o, ob) :: rest =>
      match o_err ob with
      | Some _ => if obs_state_eqb prev ob then spec_steps dm ob rest else true
      | None => post_ok o prev ob && logs_ok o prev ob && exact_obs dm ob && spec_steps dm ob rest
      end
  end.

Definition check_spec (c : case) : bool :=
  match c with
  | CHist dl nd steps => spec_steps (dims_of dl) (view (length dl) nd None init_state) steps
  | CCrash => false
  end.
