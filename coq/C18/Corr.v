(* C18 — correspondence cases.  A case is a device configuration and a history of operations; after every operation
   the harness recorded what the real HardwareSetup / DummyAWG / DummyDAC objects looked like.
   check_corr: the model, stepped along the same history, predicts every recorded observation (error kind included).
   check_spec: the routing property itself, evaluated on the recorded observations only (no model state involved). *)
From Coq Require Import List ZArith NArith QArith Bool.
Require Import QV.common.Util QV.C18.Model QV.C18.Spec.
Import ListNotations.

Record obs := {
  o_err : option err;
  o_chmap : list (N * list sch);
  o_mmap : list (N * list mask);
  o_regs : list (N * reg);
  o_awgs : list awg_st;           (* index = awg id *)
  o_dacs : list dac_st;           (* index = dac id *)
  o_cblog : list N;
  o_vollog : list (N * N * list N)      (* update_parameters calls: (name, parameter tag, generators reached) *)
}.

Inductive case :=
| CHist (dl : list (Z * Z)) (ndacs : nat) (steps : list (op * obs))
| CCrash.

Definition dims_of (dl : list (Z * Z)) : dims := fun a => nth (N.to_nat a) dl (0%Z, 0%Z).

(* ---- equality of observations (dict / set order never matters) ------------------------------------------------- *)
Definition optN_eqb (a b : option N) : bool := opt_eqb N.eqb a b.
Definition err_eqb (a b : err) : bool :=
  match a, b with
  | ETypeError, ETypeError | EKeyError, EKeyError | EValueError, EValueError | EIndexError, EIndexError
  | EOverwrite, EOverwrite | EBadHint, EBadHint => true
  | _, _ => false
  end.

Definition alist_equiv {V} (e : V -> V -> bool) (a b : list (N * V)) : bool :=
  nodupN (keys a) && nodupN (keys b) && Nat.eqb (length a) (length b)
  && forallb (fun kv => match lookup (fst kv) b with Some v' => e (snd kv) v' | None => false end) a.

Definition set_equiv {A} (e : A -> A -> bool) (a b : list A) : bool :=
  Nat.eqb (length a) (length b) && forallb (fun x => existsb (e x) b) a && forallb (fun x => existsb (e x) a) b.

Definition mask_full_eqb (a b : mask) : bool :=
  N.eqb (m_oid a) (m_oid b) && N.eqb (m_dac a) (m_dac b) && N.eqb (m_name a) (m_name b).
Definition setN_equiv (a b : list N) : bool := set_equiv N.eqb a b.

Definition entry_eqb (a b : awg_entry) : bool :=
  N.eqb (ae_tag a) (ae_tag b) && list_eqb optN_eqb (ae_ch a) (ae_ch b) && list_eqb optN_eqb (ae_mk a) (ae_mk b)
  && list_eqb optN_eqb (ae_vt a) (ae_vt b).
Definition awg_st_eqb (a b : awg_st) : bool :=
  alist_equiv entry_eqb (a_progs a) (a_progs b) && optN_eqb (a_armed a) (a_armed b).
Definition dac_st_eqb (a b : dac_st) : bool :=
  alist_equiv (alist_equiv windows_eqb) (d_wins a) (d_wins b) && optN_eqb (d_armed a) (d_armed b).
Definition reg_eqb (a b : reg) : bool :=
  N.eqb (r_tag a) (r_tag b) && setN_equiv (r_chans a) (r_chans b) && alist_equiv windows_eqb (r_meas a) (r_meas b)
  && N.eqb (r_cb a) (r_cb b) && setN_equiv (r_awgs a) (r_awgs b) && setN_equiv (r_dacs a) (r_dacs b).

Definition obs_state_eqb (a b : obs) : bool :=
  alist_equiv (set_equiv sch_full_eqb) (o_chmap a) (o_chmap b)
  && alist_equiv (set_equiv mask_full_eqb) (o_mmap a) (o_mmap b)
  && alist_equiv reg_eqb (o_regs a) (o_regs b)
  && list_eqb awg_st_eqb (o_awgs a) (o_awgs b) && list_eqb dac_st_eqb (o_dacs a) (o_dacs b)
  && list_eqb N.eqb (o_cblog a) (o_cblog b)
  && list_eqb (fun x y => N.eqb (fst (fst x)) (fst (fst y)) && N.eqb (snd (fst x)) (snd (fst y))
                          && setN_equiv (snd x) (snd y)) (o_vollog a) (o_vollog b).

Definition Nseq (n : nat) : list N := map N.of_nat (seq 0 n).

Definition view (nawgs ndacs : nat) (e : option err) (st : state) : obs :=
  {| o_err := e; o_chmap := chmap st; o_mmap := mmap st; o_regs := regs st;
     o_awgs := map (awg_of st) (Nseq nawgs); o_dacs := map (dac_of st) (Nseq ndacs); o_cblog := cblog st;
     o_vollog := vollog st |}.

Fixpoint corr_steps (dm : dims) (na nd : nat) (st : state) (steps : list (op * obs)) : bool :=
  match steps with
  | [] => true
  | (o, ob) :: rest =>
      let (st', e) := step dm st o in
      opt_eqb err_eqb e (o_err ob) && obs_state_eqb (view na nd e st') ob && corr_steps dm na nd st' rest
  end.

Definition check_corr (c : case) : bool :=
  match c with
  | CHist dl nd steps => corr_steps (dims_of dl) (length dl) nd init_state steps
  | CCrash => false
  end.

(* ---- the property on the observations --------------------------------------------------------------------------- *)
Fixpoint forall_idx {A} (f : N -> A -> bool) (i : N) (l : list A) : bool :=
  match l with [] => true | x :: r => f i x && forall_idx f (N.succ i) r end.

(* the participation record of every registered program names exactly the devices the wiring says *)
Definition record_ok (na nd : nat) cm mm (r : reg) : bool :=
  nodupN (r_awgs r) && nodupN (r_dacs r)
  && forallb (fun a => Bool.eqb (memN a (r_awgs r)) (uses_awg cm (r_chans r) a)) (Nseq na ++ r_awgs r)
  && forallb (fun d => Bool.eqb (memN d (r_dacs r)) (uses_dac mm (r_meas r) d)) (Nseq nd ++ r_dacs r).

Definition exact_obs (dm : dims) (ob : obs) : bool :=
  forall_idx (fun a ast => awg_exact dm (o_chmap ob) (o_regs ob) a ast && awg_armed_ok ast) 0%N (o_awgs ob)
  && forall_idx (fun d dst => dac_exact (o_mmap ob) (o_regs ob) d dst && dac_armed_ok dst) 0%N (o_dacs ob)
  && forallb (fun nr => record_ok (length (o_awgs ob)) (length (o_dacs ob)) (o_chmap ob) (o_mmap ob) (snd nr)) (o_regs ob).

Definition reg_is (r : reg) (p : prog) (cb : option N) : bool :=
  N.eqb (r_tag r) (p_tag p) && setN_equiv (r_chans r) (p_chans p) && alist_equiv windows_eqb (r_meas r) (p_meas p)
  && optN_eqb (Some (r_cb r)) cb.
Definition reg_same (a b : reg) : bool :=
  N.eqb (r_tag a) (r_tag b) && setN_equiv (r_chans a) (r_chans b) && alist_equiv windows_eqb (r_meas a) (r_meas b)
  && N.eqb (r_cb a) (r_cb b).

(* what an operation that returned normally must have done, as far as the property speaks about it *)
Definition post_ok (o : op) (prev ob : obs) : bool :=
  match o with
  | ORegister name p cb _ _ =>
      match lookup name (o_regs ob) with Some r => reg_is r p cb | None => false end
      && alist_equiv reg_same (remove_key name (o_regs prev)) (remove_key name (o_regs ob))
  | ORemove name =>
      alist_equiv reg_same (remove_key name (o_regs prev)) (o_regs ob)
      && forallb (awg_gone name) (o_awgs ob) && forallb (dac_gone name) (o_dacs ob)
  | OClear =>
      match o_regs ob with [] => true | _ => false end
      && forallb (fun ast => match a_progs ast with [] => true | _ => false end) (o_awgs ob)
      && forallb (fun dst => match d_wins dst with [] => true | _ => false end) (o_dacs ob)
  | OArm name | ORun name =>
      alist_equiv reg_same (o_regs prev) (o_regs ob)
      && match lookup name (o_regs ob) with
         | Some r => forall_idx (awg_arm_post (o_chmap ob) name (r_chans r)) 0%N (o_awgs ob)
                     && forall_idx (dac_arm_post (o_mmap ob) name (r_meas r)) 0%N (o_dacs ob)
                     && match o with
                        | ORun _ => list_eqb N.eqb (o_cblog ob) (r_cb r :: o_cblog prev)
                        | _ => list_eqb N.eqb (o_cblog ob) (o_cblog prev)
                        end
         | None => false
         end
  | OUpdateParams name ptag =>
      (* exactly the generators the program uses (current wiring) were handed the parameters, each once *)
      alist_equiv reg_same (o_regs prev) (o_regs ob)
      && match lookup name (o_regs ob), o_vollog ob with
         | Some r, (n, t, got) :: rest =>
             N.eqb n name && N.eqb t ptag && nodupN got
             && forallb (fun a => Bool.eqb (memN a got) (uses_awg (o_chmap ob) (r_chans r) a))
                        (Nseq (length (o_awgs ob)) ++ got)
             && Nat.eqb (length rest) (length (o_vollog prev))
         | _, _ => false
         end
  | _ => alist_equiv reg_same (o_regs prev) (o_regs ob)
  end.

(* the two call logs only grow by the operation that is allowed to call *)
Definition logs_ok (o : op) (prev ob : obs) : bool :=
  match o with
  | ORun _ => Nat.eqb (length (o_vollog ob)) (length (o_vollog prev))
  | OUpdateParams _ _ => list_eqb N.eqb (o_cblog ob) (o_cblog prev)
  | _ => list_eqb N.eqb (o_cblog ob) (o_cblog prev) && Nat.eqb (length (o_vollog ob)) (length (o_vollog prev))
  end.

(* The property quantifies over histories of calls that returned normally.  A call that raised and left every
   observed object as it was is harmless; after a call that raised and changed something the property does not
   speak any more (clean = false). *)
Fixpoint spec_steps (dm : dims) (prev : obs) (steps : list (op * obs)) : bool :=
  match steps with
  | [] => true
  | (o, ob) :: rest =>
      match o_err ob with
      | Some _ => if obs_state_eqb prev ob then spec_steps dm ob rest else true
      | None => post_ok o prev ob && logs_ok o prev ob && exact_obs dm ob && spec_steps dm ob rest
      end
  end.

Definition check_plain (c : case) : bool :=
  match c with
  | CHist dl nd steps => spec_steps (dims_of dl) (view (length dl) nd None init_state) steps
  | CCrash => false
  end.

(* ================================================================================================================ *)
(* Round 3: the FRAMED invariant of Spec.v (the one that is proved for every history, Props.C18_framed_invariant_awg / _dac)
   evaluated on the observations.  The status of every name is tracked by otrack_awg / otrack_dac, which are Spec.track_awg / track_dac read off the
   observations before / after the call (Proofs_obs.otrack_awg_view / otrack_dac_view: on the model's own views they ARE Spec.track_awg / track_dac).
   Unlike the plain check this one keeps speaking after a call that raised and left an effect: the framed invariant
   is proved for histories with raising calls. *)
Definition otrack_awg (o : op) (prev ob : obs) (cl : list N * list N) : list N * list N :=
  let (cov, lost) := cl in
  match o with
  | OSetChannel id _ _ | ORmChannel id =>
      if same_members sch_full_eqb (get_set id (o_chmap prev)) (get_set id (o_chmap ob)) then (cov, lost)
      else (users_ch (o_regs prev) id ++ cov, lost)
  | ORegister name _ _ _ _ => match o_err ob with None => (filter_out name cov, lost) | Some _ => (cov, lost) end
  | ORemove name => (filter_out name cov, lost)
  | OClear =>
      ([], filter (fun n => match lookup n (o_regs prev) with
                            | Some r => negb (forallb (fun a => memN a (known_awgs (o_chmap prev))) (r_awgs r))
                            | None => true
                            end) cov ++ lost)
  | _ => (cov, lost)
  end.

Definition otrack_dac (o : op) (prev ob : obs) (cl : list N * list N) : list N * list N :=
  let (cov, lost) := cl in
  match o with
  | OSetMeasurement name _ _ =>
      if same_members mask_route_eqb (get_set name (o_mmap prev)) (get_set name (o_mmap ob)) then (cov, lost)
      else (users_meas (o_regs prev) name ++ cov, lost)
  | ORegister name _ _ _ _ => match o_err ob with None => (filter_out name cov, lost) | Some _ => (cov, lost) end
  | ORemove name => (filter_out name cov, lost)
  | OClear =>
      ([], filter (fun n => match lookup n (o_regs prev) with
                            | Some r => negb (forallb (fun d => memN d (known_dacs (o_mmap prev))) (r_dacs r))
                            | None => true
                            end) cov ++ lost)
  | _ => (cov, lost)
  end.

Definition in_range (n : nat) (l : list N) : bool := forallb (fun a => Nat.ltb (N.to_nat a) n) l.

(* Spec.framed_inv_awg / framed_inv_dac on the observed devices *)
Definition framed_obs_awg (dm : dims) (ca : list N * list N) (ob : obs) : bool :=
  let cm := o_chmap ob in let rg := o_regs ob in let na := length (o_awgs ob) in
  nodupN (keys rg)
  && forall_idx (fun a ast =>
       nodupN (keys (a_progs ast))
       && forallb (fun ne => negb (is_clean ca (fst ne))
                             || match lookup (fst ne) rg with
                                | Some r => uses_awg cm (r_chans r) a && entry_ok dm cm (r_tag r) (r_chans r) a (snd ne)
                                | None => false
                                end) (a_progs ast)
       && forallb (fun nr => negb (is_clean ca (fst nr)) || negb (uses_awg cm (r_chans (snd nr)) a)
                             || has_key (fst nr) (a_progs ast)) rg
       && match a_armed ast with Some n => is_lost ca n || has_key n (a_progs ast) | None => true end)
     0%N (o_awgs ob)
  && forallb (fun nr => negb (is_clean ca (fst nr))
                        || forallb (fun a => Bool.eqb (memN a (r_awgs (snd nr))) (uses_awg cm (r_chans (snd nr)) a))
                                   (Nseq na ++ r_awgs (snd nr))) rg
  && forallb (fun n => negb (is_cov ca n)
                       || match lookup n rg with
                          | Some r => forall_idx (fun a ast => Bool.eqb (has_key n (a_progs ast)) (memN a (r_awgs r)))
                                                 0%N (o_awgs ob) && in_range na (r_awgs r)
                          | None => false
                          end) (fst ca).

Definition framed_obs_dac (cd : list N * list N) (ob : obs) : bool :=
  let mm := o_mmap ob in let rg := o_regs ob in let nd := length (o_dacs ob) in
  forall_idx (fun d dst =>
       nodupN (keys (d_wins dst))
       && forallb (fun nw => negb (is_clean cd (fst nw))
                             || match lookup (fst nw) rg with
                                | Some r => uses_dac mm (r_meas r) d && dac_entry_ok mm (r_meas r) d (snd nw)
                                | None => false
                                end) (d_wins dst)
       && forallb (fun nr => negb (is_clean cd (fst nr)) || negb (uses_dac mm (r_meas (snd nr)) d)
                             || has_key (fst nr) (d_wins dst)) rg
       && match d_armed dst with Some n => is_lost cd n || has_key n (d_wins dst) | None => true end)
     0%N (o_dacs ob)
  && forallb (fun nr => negb (is_clean cd (fst nr))
                        || forallb (fun d => Bool.eqb (memN d (r_dacs (snd nr))) (uses_dac mm (r_meas (snd nr)) d))
                                   (Nseq nd ++ r_dacs (snd nr))) rg
  && forallb (fun n => negb (is_cov cd n)
                       || match lookup n rg with
                          | Some r => forall_idx (fun d dst => Bool.eqb (has_key n (d_wins dst)) (memN d (r_dacs r)))
                                                 0%N (o_dacs ob) && in_range nd (r_dacs r)
                          | None => false
                          end) (fst cd).

(* post-conditions, framed: what Props.v proves after ANY history.
   clean name: the plain post-condition.  covered name (copies exactly on the recorded devices): arm_program arms every
   wired generator that holds the program and disarms every wired generator that does not, arms every acquisition
   device that holds its windows; update_parameters reaches exactly the wired generators that hold it; remove_program
   removes it everywhere.  lost name: nothing.  After clear_programs whatever is still held is a lost name. *)
Definition fpost_ok (o : op) (ca cd : list N * list N) (prev ob : obs) : bool :=
  let cm := o_chmap ob in let mm := o_mmap ob in
  match o with
  | ORemove name =>
      alist_equiv reg_same (remove_key name (o_regs prev)) (o_regs ob)
      && (is_lost ca name || forallb (awg_gone name) (o_awgs ob))
      && (is_lost cd name || forallb (dac_gone name) (o_dacs ob))
  | OClear =>
      match o_regs ob with [] => true | _ => false end
      && forallb (fun ast => forallb (fun ne => is_lost ca (fst ne)) (a_progs ast)) (o_awgs ob)
      && forallb (fun dst => forallb (fun nw => is_lost cd (fst nw)) (d_wins dst)) (o_dacs ob)
  | OArm name | ORun name =>
      alist_equiv reg_same (o_regs prev) (o_regs ob)
      && match lookup name (o_regs ob) with
         | Some r =>
             (if is_clean ca name then forall_idx (awg_arm_post cm name (r_chans r)) 0%N (o_awgs ob)
              else if is_cov ca name then
                forall_idx (fun a ast => negb (memN a (known_awgs cm))
                                         || optN_eqb (a_armed ast) (if has_key name (a_progs ast) then Some name else None))
                           0%N (o_awgs ob)
              else true)
             && (if is_clean cd name then forall_idx (dac_arm_post mm name (r_meas r)) 0%N (o_dacs ob)
                 else if is_cov cd name then
                   forallb (fun dst => negb (has_key name (d_wins dst)) || optN_eqb (d_armed dst) (Some name)) (o_dacs ob)
                 else true)
             && match o with
                | ORun _ => list_eqb N.eqb (o_cblog ob) (r_cb r :: o_cblog prev)
                | _ => list_eqb N.eqb (o_cblog ob) (o_cblog prev)
                end
         | None => false
         end
  | OUpdateParams name ptag =>
      alist_equiv reg_same (o_regs prev) (o_regs ob)
      && match lookup name (o_regs ob), o_vollog ob with
         | Some r, (n, t, got) :: rest =>
             N.eqb n name && N.eqb t ptag && nodupN got && Nat.eqb (length rest) (length (o_vollog prev))
             && (if is_clean ca name then
                   forallb (fun a => Bool.eqb (memN a got) (uses_awg cm (r_chans r) a)) (Nseq (length (o_awgs ob)) ++ got)
                 else if is_cov ca name then
                   forall_idx (fun a ast => Bool.eqb (memN a got) (memN a (known_awgs cm) && has_key name (a_progs ast)))
                              0%N (o_awgs ob) && in_range (length (o_awgs ob)) got
                 else true)
         | _, _ => false
         end
  | _ => post_ok o prev ob
  end.

(* Round 4: status per (name, device) on the observations.  optrack_awg / optrack_dac are Spec.ptrack_awg / ptrack_dac read
   off the observations before / after the call (Proofs_post.optrack_awg_view / optrack_dac_view).  perdev_obs_awg /
   perdev_obs_dac: for every name that is not lost and every device of the bench at which it is not dirty, the routing
   clauses of the name at that device (Proofs_dev.clean_at / Proofs_perdev_dac.dclean_at, proved for every history:
   Props.C18_clean_at_histories / C18_dclean_at_histories) - also for a COVERED name, about which the per-name check says
   nothing but "copies exactly on the recorded devices". *)
Definition optrack_awg (o : op) (prev ob : obs) (dl : list (N * N)) : list (N * N) :=
  match o with
  | OSetChannel id _ _ | ORmChannel id =>
      flat_map (fun n => map (fun a => (n, a)) (changed_gens id (o_chmap prev) (o_chmap ob))) (users_ch (o_regs prev) id) ++ dl
  | ORegister name _ _ _ _ => match o_err ob with None => filter (fun q => negb (N.eqb (fst q) name)) dl | Some _ => dl end
  | ORemove name => filter (fun q => negb (N.eqb (fst q) name)) dl
  | OClear => []
  | _ => dl
  end.

Definition optrack_dac (o : op) (prev ob : obs) (dl : list (N * N)) : list (N * N) :=
  match o with
  | OSetMeasurement nm _ _ =>
      flat_map (fun n => map (fun d => (n, d)) (changed_dacs nm (o_mmap prev) (o_mmap ob))) (users_meas (o_regs prev) nm) ++ dl
  | ORegister name _ _ _ _ => match o_err ob with None => filter (fun q => negb (N.eqb (fst q) name)) dl | Some _ => dl end
  | ORemove name => filter (fun q => negb (N.eqb (fst q) name)) dl
  | OClear => []
  | _ => dl
  end.

Definition perdev_obs_awg (dm : dims) (ca : list N * list N) (dl : list (N * N)) (ob : obs) : bool :=
  let cm := o_chmap ob in let rg := o_regs ob in
  forall_idx (fun a ast =>
       forallb (fun ne => is_lost ca (fst ne) || memNN (fst ne, a) dl
                          || match lookup (fst ne) rg with
                             | Some r => uses_awg cm (r_chans r) a && entry_ok dm cm (r_tag r) (r_chans r) a (snd ne)
                             | None => false
                             end) (a_progs ast)
       && forallb (fun nr => is_lost ca (fst nr) || memNN (fst nr, a) dl
                             || (negb (uses_awg cm (r_chans (snd nr)) a) || has_key (fst nr) (a_progs ast))
                                && Bool.eqb (memN a (r_awgs (snd nr))) (uses_awg cm (r_chans (snd nr)) a)) rg)
     0%N (o_awgs ob).

Definition perdev_obs_dac (cd : list N * list N) (dl : list (N * N)) (ob : obs) : bool :=
  let mm := o_mmap ob in let rg := o_regs ob in
  forall_idx (fun d dst =>
       forallb (fun nw => is_lost cd (fst nw) || memNN (fst nw, d) dl
                          || match lookup (fst nw) rg with
                             | Some r => uses_dac mm (r_meas r) d && dac_entry_ok mm (r_meas r) d (snd nw)
                             | None => false
                             end) (d_wins dst)
       && forallb (fun nr => is_lost cd (fst nr) || memNN (fst nr, d) dl
                             || (negb (uses_dac mm (r_meas (snd nr)) d) || has_key (fst nr) (d_wins dst))
                                && Bool.eqb (memN d (r_dacs (snd nr))) (uses_dac mm (r_meas (snd nr)) d)) rg)
     0%N (o_dacs ob).

Fixpoint fspec_steps (dm : dims) (ca cd : list N * list N) (da dd : list (N * N)) (prev : obs) (steps : list (op * obs))
  : bool :=
  match steps with
  | [] => true
  | (o, ob) :: rest =>
      let ca' := otrack_awg o prev ob ca in
      let cd' := otrack_dac o prev ob cd in
      let da' := optrack_awg o prev ob da in
      let dd' := optrack_dac o prev ob dd in
      match o_err ob with
      | Some _ => framed_obs_awg dm ca' ob && framed_obs_dac cd' ob
                  && perdev_obs_awg dm ca' da' ob && perdev_obs_dac cd' dd' ob
                  && fspec_steps dm ca' cd' da' dd' ob rest
      | None => fpost_ok o ca' cd' prev ob && logs_ok o prev ob && framed_obs_awg dm ca' ob && framed_obs_dac cd' ob
                && perdev_obs_awg dm ca' da' ob && perdev_obs_dac cd' dd' ob
                && fspec_steps dm ca' cd' da' dd' ob rest
      end
  end.

(* the framed specification: failing it is not permitted by any theorem => VIOLATION.
   A case that fails check_plain but passes check_framed is an instance of known finding C18-rewire-stale. *)
Definition check_framed (c : case) : bool :=
  match c with
  | CHist dl nd steps =>
      fspec_steps (dims_of dl) ([], []) ([], []) [] [] (view (length dl) nd None init_state) steps
  | CCrash => false
  end.

Definition check_spec (c : case) : bool := check_plain c && check_framed c.
