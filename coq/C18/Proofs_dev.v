(* C18 round 3 — towards a status per (generator, name): the clauses of the routing invariant that speak about ONE
   generator only read the part of the wiring that sits on that generator.  A re-wiring of a used channel id that
   leaves the outputs on generator a untouched (it moves the id on OTHER generators) keeps all three clean clauses of
   every name at generator a.  (Single step; threading a per-(generator, name) status through histories is open.) *)
From Coq Require Import List ZArith NArith Bool Lia.
Require Import QV.C18.Model QV.C18.Spec QV.C18.Proofs_alist QV.C18.Proofs_route QV.C18.Proofs_inv QV.C18.Proofs_frame_awg.
Import ListNotations.

(* the three clean clauses of Spec.framed_inv_awg for name n at generator a *)
Definition clean_at (dm : dims) (st : state) (n a : N) : Prop :=
  (forall e, lookup n (a_progs (awg_of st a)) = Some e ->
     exists r, lookup n (regs st) = Some r /\ uses_awg (chmap st) (r_chans r) a = true
               /\ entry_ok dm (chmap st) (r_tag r) (r_chans r) a e = true)
  /\ (forall r, lookup n (regs st) = Some r -> uses_awg (chmap st) (r_chans r) a = true ->
        has_key n (a_progs (awg_of st a)) = true)
  /\ (forall r, lookup n (regs st) = Some r -> memN a (r_awgs r) = uses_awg (chmap st) (r_chans r) a).

Lemma clean_ok_at dm st n : clean_ok dm st n <-> forall a, clean_at dm st n a.
Proof.
  unfold clean_ok, clean_at. split.
  - intros [A [B C]] a. repeat split; eauto.
  - intros H. repeat split.
    + intros a. apply (H a).
    + intros a. apply (H a).
    + intros r L a. apply (H a); auto.
Qed.

Lemma existsb_on (a : N) (f : sch -> bool) l l' :
  (forall s, f s = true -> s_awg s = a) ->
  (forall s, s_awg s = a -> (In s l <-> In s l')) -> existsb f l = existsb f l'.
Proof.
  intros Hf H. apply eq_true_iff_eq. rewrite !existsb_exists.
  split; intros [x [Hx E]]; exists x; split; auto; apply (H x (Hf x E)); auto.
Qed.

Section OnDevice.
  Variables (dm : dims) (cm cm' : list (N * list sch)) (chans : list N) (a : N).
  Hypothesis Hm : forall c, In c chans -> forall s, s_awg s = a -> (In s (get_set c cm') <-> In s (get_set c cm)).

  Lemma at_pos_awg s marker i : at_pos dm s a marker i = true -> s_awg s = a.
  Proof. unfold at_pos. rewrite !andb_true_iff. intros [[E _] _]. apply N.eqb_eq in E. auto. Qed.

  Lemma uses_awg_on : uses_awg cm' chans a = uses_awg cm chans a.
  Proof.
    unfold uses_awg. apply existsb_ext_in. intros c Hc. apply (existsb_on a); auto.
    intros s E. apply N.eqb_eq in E. auto.
  Qed.

  Lemma slot_ok_on marker i v vt : slot_ok dm cm' chans a marker i v vt = slot_ok dm cm chans a marker i v vt.
  Proof.
    unfold slot_ok. destruct v as [c|].
    - destruct (memN c chans) eqn:M; auto. apply memN_In in M. cbn. apply (existsb_on a); auto.
      intros s E. apply andb_true_iff in E as [E _]. eapply at_pos_awg; eauto.
    - f_equal. f_equal. apply existsb_ext_in. intros c Hc. apply (existsb_on a); auto.
      intros s E. eapply at_pos_awg; eauto.
  Qed.

  Lemma slots_ok_on marker : forall vs vts i,
    slots_ok dm cm' chans a marker i vs vts = slots_ok dm cm chans a marker i vs vts.
  Proof. induction vs as [|v vs IH]; intros [|vt vts] i; cbn; auto. rewrite IH, slot_ok_on. auto. Qed.

  Lemma entry_ok_on tag e : entry_ok dm cm' tag chans a e = entry_ok dm cm tag chans a e.
  Proof. unfold entry_ok. rewrite !slots_ok_on. auto. Qed.
End OnDevice.

(* the per-generator frame: whatever happens to the wiring on other generators *)
Lemma clean_at_wiring dm st st' n a :
  regs st' = regs st -> awg_of st' = awg_of st ->
  (forall r, lookup n (regs st) = Some r ->
     forall c, In c (r_chans r) -> forall s, s_awg s = a ->
       (In s (get_set c (chmap st')) <-> In s (get_set c (chmap st)))) ->
  clean_at dm st n a -> clean_at dm st' n a.
Proof.
  intros Hr Ha Hm [A [B C]]. unfold clean_at. rewrite Hr, Ha. split; [|split].
  - intros e E. destruct (A _ E) as [r [L [U Eo]]]. exists r. split; auto.
    rewrite (uses_awg_on (chmap st) (chmap st') (r_chans r) a (Hm r L)).
    rewrite (entry_ok_on dm (chmap st) (chmap st') (r_chans r) a (Hm r L)). auto.
  - intros r L U. rewrite (uses_awg_on (chmap st) (chmap st') (r_chans r) a (Hm r L)) in U. eapply B; eauto.
  - intros r L. rewrite (uses_awg_on (chmap st) (chmap st') (r_chans r) a (Hm r L)). auto.
Qed.

(* on_awg : Spec.v *)

Lemma on_awg_members a l l' :
  same_members sch_full_eqb (on_awg a l) (on_awg a l') = true ->
  forall s, s_awg s = a -> (In s l <-> In s l').
Proof.
  intros H s Hs. pose proof (same_members_In _ _ H s) as P. unfold on_awg in P. rewrite !filter_In in P.
  apply N.eqb_eq in Hs. rewrite Hs in P. tauto.
Qed.

(* set_channel / rm_channel on id: if the members of the old and the new wiring of id that sit on generator a are the
   same (the id was moved / extended / cut on other generators only), every name keeps its clean clauses at a *)
Theorem rewire_frame_per_device dm st o id st' e n a :
  (o = ORmChannel id \/ exists arg allow, o = OSetChannel id arg allow) ->
  step dm st o = (st', e) ->
  same_members sch_full_eqb (on_awg a (get_set id (chmap st))) (on_awg a (get_set id (chmap st'))) = true ->
  clean_at dm st n a -> clean_at dm st' n a.
Proof.
  intros Ho H S Hc.
  assert (regs st' = regs st /\ awg_of st' = awg_of st
          /\ forall c, c <> id -> get_set c (chmap st') = get_set c (chmap st)) as [Hr [Ha Hg]].
  { destruct Ho as [->|[arg [allow ->]]]; cbn in H.
    - unfold rm_channel in H. destruct (has_key id (chmap st)); inversion H; subst; auto.
      repeat split; auto. intros c Hne. cbn. apply get_set_remove. auto.
    - unfold set_channel in H.
      destruct (negb (forallb (ctor_ok dm) (charg_channels arg))); [inversion H; subst; auto|].
      destruct (match arg with ChSingle c => _ | ChMany cs junk => _ | ChNotIterable => None end) as [[new junk]|];
        [|inversion H; subst; auto].
      destruct (negb allow && _); [inversion H; subst; auto|].
      destruct junk; inversion H; subst; auto.
      repeat split; auto. intros c Hne. cbn. apply get_set_upsert. auto. }
  apply (clean_at_wiring dm st st' n a); auto.
  intros r L c Hin s Hs. destruct (N.eq_dec c id) as [->|Hne].
  - symmetry. apply (on_awg_members a); auto.
  - rewrite Hg; tauto.
Qed.

(* non-vacuity: channel id 1 sits on generators 0 and 1; moving its output on generator 1 changes nothing on generator 0 *)
Example rewire_frame_example :
  let a0 := [{| s_awg := 0; s_idx := 0; s_marker := false; s_trafo := 0 |};
             {| s_awg := 1; s_idx := 0; s_marker := false; s_trafo := 0 |}] in
  let a1 := [{| s_awg := 0; s_idx := 0; s_marker := false; s_trafo := 0 |};
             {| s_awg := 1; s_idx := 1; s_marker := false; s_trafo := 2 |}] in
  same_members sch_full_eqb (on_awg 0 a0) (on_awg 0 a1) = true
  /\ same_members sch_full_eqb (on_awg 1 a0) (on_awg 1 a1) = false
  /\ same_members sch_full_eqb a0 a1 = false.
Proof. vm_compute. auto. Qed.
