(* C18 round 6 - proofs about Heap.v: what _take_measurements returns is the object's own windows *)
From Coq Require Import List ZArith NArith QArith Bool Lia.
Import ListNotations.
Require Import QV.C18.Model QV.C18.Proofs_alist QV.C18.Heap.

Lemma wcat_empty_l w : wcat wempty w = w.
Proof. destruct w; reflexivity. Qed.
Lemma wcat_assoc a b c : wcat (wcat a b) c = wcat a (wcat b c).
Proof. unfold wcat; cbn. rewrite <- !app_assoc. reflexivity. Qed.

Lemma upsert_upsert_same {V} k (v v' : V) l : upsert k v' (upsert k v l) = upsert k v' l.
Proof.
  induction l as [|[k0 v0] l IH]; cbn.
  - rewrite N.eqb_refl. reflexivity.
  - destruct (N.eqb k k0) eqn:E; cbn; rewrite ?N.eqb_refl, ?E; auto. rewrite IH. reflexivity.
Qed.

Lemma upsert_comm {V} k n (u v : V) l :
  k <> n -> has_key n l = true -> upsert k u (upsert n v l) = upsert n v (upsert k u l).
Proof.
  intros Hne. induction l as [|[k0 v0] l IH]; cbn.
  - unfold has_key; cbn. discriminate.
  - intros Hk. unfold has_key in Hk. cbn in Hk.
    destruct (N.eqb n k0) eqn:En.
    + apply N.eqb_eq in En. subst k0. cbn.
      destruct (N.eqb k n) eqn:Ek. { apply N.eqb_eq in Ek. contradiction. }
      cbn. rewrite N.eqb_refl. reflexivity.
    + cbn. destruct (N.eqb k k0) eqn:Ek; cbn.
      * apply N.eqb_eq in Ek. subst k0. rewrite En. reflexivity.
      * rewrite En. rewrite IH; auto.
Qed.

Lemma wget_upsert n k v d : wget n (upsert k v d) = if N.eqb n k then v else wget n d.
Proof. unfold wget. rewrite lookup_upsert. destruct (N.eqb n k); auto. Qed.

Lemma has_key_merge1 n d e : has_key n d = true -> has_key n (merge1 d e) = true.
Proof. intros H. unfold merge1. rewrite has_key_upsert, H. apply orb_true_r. Qed.
Lemma has_key_merge1_self d e : has_key (fst e) (merge1 d e) = true.
Proof. unfold merge1. rewrite has_key_upsert, N.eqb_refl. reflexivity. Qed.

Lemma merge1_comm d n w k u :
  k <> n -> has_key n d = true ->
  merge1 (merge1 d (n, w)) (k, u) = merge1 (merge1 d (k, u)) (n, w).
Proof.
  intros Hne Hk. unfold merge1; cbn [fst snd].
  rewrite !wget_upsert.
  assert (E1 : N.eqb k n = false) by (apply N.eqb_neq; auto).
  assert (E2 : N.eqb n k = false) by (apply N.eqb_neq; auto).
  rewrite E1, E2. apply upsert_comm; auto.
Qed.

Lemma merge1_split d n w0 w : merge1 d (n, wcat w0 w) = merge1 (merge1 d (n, w0)) (n, w).
Proof.
  unfold merge1; cbn [fst snd]. rewrite wget_upsert, N.eqb_refl, upsert_upsert_same, wcat_assoc. reflexivity.
Qed.

Lemma fold_merge1_comm m : forall d n w,
  has_key n m = false -> has_key n d = true ->
  fold_left merge1 m (merge1 d (n, w)) = merge1 (fold_left merge1 m d) (n, w).
Proof.
  induction m as [|[k u] m IH]; intros d n w Hm Hd; cbn; auto.
  unfold has_key in Hm. cbn in Hm. destruct (N.eqb n k) eqn:E; [discriminate|].
  assert (k <> n) by (intros ->; rewrite N.eqb_refl in E; discriminate).
  rewrite merge1_comm; auto. apply IH; auto. apply has_key_merge1; auto.
Qed.

(* keys of a dictionary are pairwise different: stated with lookup only *)
Fixpoint nodup_keys {V} (l : list (N * V)) : Prop :=
  match l with [] => True | (k, _) :: r => has_key k r = false /\ nodup_keys r end.

Lemma nodup_keys_upsert {V} k (v : V) l : nodup_keys l -> nodup_keys (upsert k v l).
Proof.
  induction l as [|[k0 v0] l IH]; cbn; auto.
  intros [H1 H2]. destruct (N.eqb k k0) eqn:E; cbn.
  - apply N.eqb_eq in E. subst. auto.
  - split; auto. rewrite has_key_upsert, H1. rewrite N.eqb_sym, E. reflexivity.
Qed.

Lemma nodup_keys_fold ev : forall d, nodup_keys d -> nodup_keys (fold_left merge1 ev d).
Proof. induction ev as [|e ev IH]; cbn; auto. intros d H. apply IH. apply nodup_keys_upsert; auto. Qed.
Lemma nodup_keys_collect ev : nodup_keys (collect ev).
Proof. apply nodup_keys_fold. exact I. Qed.

(* merging a dictionary whose last event was folded in = folding that event in afterwards *)
Lemma merge1_nil n w : merge1 [] (n, w) = [(n, w)].
Proof. unfold merge1, wget; cbn. rewrite wcat_empty_l. reflexivity. Qed.
Lemma merge1_cons k v m n w :
  merge1 ((k, v) :: m) (n, w) = if N.eqb n k then (n, wcat v w) :: m else (k, v) :: merge1 m (n, w).
Proof. unfold merge1, wget; cbn. destruct (N.eqb n k); reflexivity. Qed.

Lemma fold_merge1_dict m : forall a n w,
  nodup_keys m -> fold_left merge1 (merge1 m (n, w)) a = merge1 (fold_left merge1 m a) (n, w).
Proof.
  induction m as [|[k v] m IH]; intros a n w Hm.
  - rewrite merge1_nil. reflexivity.
  - destruct Hm as [Hk Hm]. rewrite merge1_cons.
    destruct (N.eqb n k) eqn:E.
    + apply N.eqb_eq in E. subst k. cbn [fold_left].
      rewrite merge1_split. apply fold_merge1_comm; auto. apply (has_key_merge1_self a (n, v)).
    + cbn [fold_left]. rewrite <- IH; auto.
Qed.

Lemma merge_collect ev : forall a, merge a (collect ev) = fold_left merge1 ev a.
Proof.
  unfold merge, collect. induction ev as [|e ev IH] using rev_ind; intros a; auto.
  rewrite !fold_left_app. cbn [fold_left]. destruct e as [n w].
  rewrite fold_merge1_dict by apply nodup_keys_collect. rewrite IH. reflexivity.
Qed.

Lemma collect_app ev1 ev2 : merge (collect ev1) (collect ev2) = collect (ev1 ++ ev2).
Proof. rewrite merge_collect. unfold collect. rewrite fold_left_app. reflexivity. Qed.

Lemma collect_snoc ev e : collect (ev ++ [e]) = merge1 (collect ev) e.
Proof. unfold collect. rewrite fold_left_app. reflexivity. Qed.

Lemma merge1_not_nil d e : merge1 d e <> [].
Proof. unfold merge1. destruct d as [|[k v] d]; cbn; [discriminate|]. destruct (N.eqb (fst e) k); discriminate. Qed.
Lemma collect_nil_inv ev : collect ev = [] -> ev = [].
Proof.
  destruct ev as [|e ev] using rev_ind; auto. rewrite collect_snoc. intros H. destruct (merge1_not_nil _ _ H).
Qed.

(* ---- the invariant ---- *)
Definition obj_ok (hs : heap) (o : N) (ob : hobj) : Prop :=
  exists ev1 ev2, h_own ob = ev1 ++ ev2 /\ h_att ob = collect ev2 /\
    match lookup (h_addr ob) (table hs) with
    | Some (r, w) => if N.eqb r o then w = collect ev1 else ev1 = []
    | None => ev1 = []
    end.

Record hinv (hs : heap) : Prop := {
  hi_obj : forall o ob, lookup o (live hs) = Some ob -> obj_ok hs o ob;
  hi_used : forall o ob, lookup o (live hs) = Some ob -> In o (used hs);
  hi_addr : forall o1 o2 ob1 ob2, lookup o1 (live hs) = Some ob1 -> lookup o2 (live hs) = Some ob2 ->
                                  h_addr ob1 = h_addr ob2 -> o1 = o2;
  hi_tab : forall a r w, lookup a (table hs) = Some (r, w) -> In r (used hs)
}.

Lemma hinv0 : hinv heap0.
Proof. split; cbn; intros; discriminate. Qed.

Lemma take_result hs o ob : hinv hs -> lookup o (live hs) = Some ob -> snd (take hs o) = collect (h_own ob).
Proof.
  intros I L. unfold take. rewrite L. cbn [snd].
  destruct (hi_obj _ I _ _ L) as [ev1 [ev2 [Ho [Ha Ht]]]].
  destruct (lookup (h_addr ob) (table hs)) as [[r w]|].
  - destruct (N.eqb r o).
    + subst w. rewrite Ha, Ho. apply collect_app.
    + subst ev1. rewrite Ha, Ho. reflexivity.
  - subst ev1. rewrite Ha, Ho. reflexivity.
Qed.

Lemma addr_taken_false hs a o ob : addr_taken hs a = false -> lookup o (live hs) = Some ob -> h_addr ob <> a.
Proof.
  unfold addr_taken. intros H L E.
  assert (existsb (fun kv => N.eqb (h_addr (snd kv)) a) (live hs) = true); [|congruence].
  apply existsb_exists. exists (o, ob). split.
  - clear H. induction (live hs) as [|[k v] l IH]; cbn in *; [discriminate|].
    destruct (N.eqb o k) eqn:Ek.
    + apply N.eqb_eq in Ek. inversion L; subst. auto.
    + right. auto.
  - cbn. subst. apply N.eqb_refl.
Qed.

Lemma take_inv hs o : hinv hs -> hinv (fst (take hs o)).
Proof.
  intros I. destruct (lookup o (live hs)) as [ob|] eqn:L.
  2:{ unfold take. rewrite L. exact I. }
  pose proof (take_result hs o ob I L) as R.
  unfold take in *. rewrite L in *. cbn [fst snd] in *.
  set (ws := match lookup (h_addr ob) (table hs) with
             | Some (r, w) => if N.eqb r o then merge w (h_att ob) else h_att ob
             | None => h_att ob end) in *.
  split; cbn [live used table].
  - intros o' ob'. rewrite lookup_upsert. destruct (N.eqb o' o) eqn:E.
    + apply N.eqb_eq in E. subst o'. intros H. inversion H; subst ob'. clear H.
      exists (h_own ob), []. cbn [h_own h_att h_addr table]. rewrite app_nil_r. repeat split; auto.
      destruct ws as [|x ws'] eqn:Ews.
      * (* nothing stored: own is empty *)
        symmetry in R. apply collect_nil_inv in R.
        destruct (hi_obj _ I _ _ L) as [ev1 [ev2 [Ho [Ha Ht]]]].
        rewrite R in Ho. symmetry in Ho. apply app_eq_nil in Ho as [-> ->].
        revert Ht. rewrite R. clear. destruct (lookup (h_addr ob) (table hs)) as [[r w]|]; auto.
      * rewrite lookup_upsert, N.eqb_refl, N.eqb_refl. auto.
    + intros L'. assert (Hne : o' <> o) by (intros ->; rewrite N.eqb_refl in E; discriminate).
      assert (Ha : h_addr ob' <> h_addr ob) by (intros Ea; apply Hne; eapply (hi_addr _ I); eauto).
      destruct (hi_obj _ I _ _ L') as [ev1 [ev2 [Ho [Hat Ht]]]].
      exists ev1, ev2. cbn [table]. repeat split; auto.
      destruct ws; auto. rewrite lookup_upsert. apply N.eqb_neq in Ha. rewrite Ha. auto.
  - intros o' ob'. rewrite lookup_upsert. destruct (N.eqb o' o) eqn:E.
    + apply N.eqb_eq in E. subst. intros _. eapply (hi_used _ I); eauto.
    + apply (hi_used _ I).
  - intros o1 o2 ob1 ob2. rewrite !lookup_upsert.
    destruct (N.eqb o1 o) eqn:E1; destruct (N.eqb o2 o) eqn:E2; intros H1 H2 Ea.
    + apply N.eqb_eq in E1, E2. congruence.
    + apply N.eqb_eq in E1. subst o1. inversion H1; subst ob1. cbn in Ea. eapply (hi_addr _ I); eauto.
    + apply N.eqb_eq in E2. subst o2. inversion H2; subst ob2. cbn in Ea. eapply (hi_addr _ I); eauto.
    + eapply (hi_addr _ I); eauto.
  - intros a r w. destruct ws.
    + apply (hi_tab _ I).
    + rewrite lookup_upsert. destruct (N.eqb a (h_addr ob)).
      * intros H. inversion H; subst. eapply (hi_used _ I); eauto.
      * apply (hi_tab _ I).
Qed.

Lemma hstep_inv hs x : hinv hs -> hinv (hstep hs x).
Proof.
  intros I. destruct x as [o a|o e|o|o pop]; cbn [hstep].
  - (* alloc *)
    destruct (memN o (used hs)) eqn:Hu; cbn [orb]; auto.
    destruct (addr_taken hs a) eqn:Ht; auto.
    apply memN_false in Hu.
    split; cbn [live used table].
    + intros o' ob'. rewrite lookup_upsert. destruct (N.eqb o' o) eqn:E.
      * apply N.eqb_eq in E. subst o'. intros H. inversion H; subst ob'. clear H.
        exists [], []. cbn. repeat split; auto.
        destruct (lookup a (table hs)) as [[r w]|] eqn:Lt; auto.
        destruct (N.eqb r o) eqn:Er; auto. apply N.eqb_eq in Er. subst r.
        destruct Hu. eapply (hi_tab _ I); eauto.
      * apply (hi_obj _ I).
    + intros o' ob'. rewrite lookup_upsert. destruct (N.eqb o' o) eqn:E.
      * apply N.eqb_eq in E. subst. left; auto.
      * intros L. right. eapply (hi_used _ I); eauto.
    + intros o1 o2 ob1 ob2. rewrite !lookup_upsert.
      destruct (N.eqb o1 o) eqn:E1; destruct (N.eqb o2 o) eqn:E2; intros H1 H2 Ea.
      * apply N.eqb_eq in E1, E2. congruence.
      * inversion H1; subst ob1. cbn in Ea. destruct (addr_taken_false _ _ _ _ Ht H2). auto.
      * inversion H2; subst ob2. cbn in Ea. destruct (addr_taken_false _ _ _ _ Ht H1). auto.
      * eapply (hi_addr _ I); eauto.
    + intros a' r w L. right. eapply (hi_tab _ I); eauto.
  - (* attach *)
    destruct (lookup o (live hs)) as [ob|] eqn:L; auto.
    split; cbn [live used table].
    + intros o' ob'. rewrite lookup_upsert. destruct (N.eqb o' o) eqn:E.
      * apply N.eqb_eq in E. subst o'. intros H. inversion H; subst ob'. clear H.
        destruct (hi_obj _ I _ _ L) as [ev1 [ev2 [Ho [Ha Ht]]]].
        exists ev1, (ev2 ++ [e]). cbn [h_own h_att h_addr table]. rewrite Ho, Ha, collect_snoc, app_assoc. auto.
      * apply (hi_obj _ I).
    + intros o' ob'. rewrite lookup_upsert. destruct (N.eqb o' o) eqn:E.
      * apply N.eqb_eq in E. subst. intros _. eapply (hi_used _ I); eauto.
      * apply (hi_used _ I).
    + intros o1 o2 ob1 ob2. rewrite !lookup_upsert.
      destruct (N.eqb o1 o) eqn:E1; destruct (N.eqb o2 o) eqn:E2; intros H1 H2 Ea.
      * apply N.eqb_eq in E1, E2. congruence.
      * apply N.eqb_eq in E1. subst o1. inversion H1; subst ob1. cbn in Ea. eapply (hi_addr _ I); eauto.
      * apply N.eqb_eq in E2. subst o2. inversion H2; subst ob2. cbn in Ea. eapply (hi_addr _ I); eauto.
      * eapply (hi_addr _ I); eauto.
    + apply (hi_tab _ I).
  - apply take_inv; auto.
  - (* die *)
    destruct (lookup o (live hs)) as [ob|] eqn:L; auto.
    split; cbn [live used table].
    + intros o' ob'. rewrite lookup_remove. destruct (N.eqb o' o) eqn:E; [discriminate|].
      intros L'. assert (Hne : o' <> o) by (intros ->; rewrite N.eqb_refl in E; discriminate).
      assert (Ha : h_addr ob' <> h_addr ob) by (intros Ea; apply Hne; eapply (hi_addr _ I); eauto).
      destruct (hi_obj _ I _ _ L') as [ev1 [ev2 [Ho [Hat Ht]]]].
      exists ev1, ev2. cbn [table]. repeat split; auto.
      destruct pop; auto. rewrite lookup_remove. apply N.eqb_neq in Ha. rewrite Ha. auto.
    + intros o' ob'. rewrite lookup_remove. destruct (N.eqb o' o); [discriminate|]. apply (hi_used _ I).
    + intros o1 o2 ob1 ob2. rewrite !lookup_remove.
      destruct (N.eqb o1 o); [discriminate|]. destruct (N.eqb o2 o); [discriminate|]. apply (hi_addr _ I).
    + intros a r w. destruct pop; [|apply (hi_tab _ I)].
      rewrite lookup_remove. destruct (N.eqb a (h_addr ob)); [discriminate|]. apply (hi_tab _ I).
Qed.

Lemma hrun_inv_from h : forall hs, hinv hs -> hinv (fold_left hstep h hs).
Proof. induction h as [|x h IH]; cbn; auto. intros hs I. apply IH, hstep_inv, I. Qed.
Lemma hrun_inv h : hinv (hrun h).
Proof. apply hrun_inv_from, hinv0. Qed.

(* the ghost field is what the history says: the attach events of o since its allocation *)
Theorem take_own_windows : forall h o ob,
  lookup o (live (hrun h)) = Some ob -> snd (take (hrun h) o) = collect (h_own ob).
Proof. intros. apply take_result; auto. apply hrun_inv. Qed.

(* taking does not change what the object owns: handing the same object in again gives the same windows *)
Theorem take_twice : forall h o ob,
  lookup o (live (hrun h)) = Some ob ->
  snd (take (fst (take (hrun h) o)) o) = snd (take (hrun h) o).
Proof.
  intros h o ob L.
  assert (L' : lookup o (live (fst (take (hrun h) o))) = Some {| h_addr := h_addr ob; h_att := []; h_own := h_own ob |}).
  { unfold take. rewrite L. cbn [fst live]. rewrite lookup_upsert, N.eqb_refl. reflexivity. }
  rewrite (take_result _ _ _ (take_inv _ o (hrun_inv h)) L'), (take_result _ _ _ (hrun_inv h) L). reflexivity.
Qed.

(* combined machine *)
Lemma cstep_inv dm s c : hinv (fst s) -> hinv (fst (cstep dm s c)).
Proof.
  intros I. destruct c as [x|x|name o chans cb update order]; cbn [cstep fst]; auto.
  - apply hstep_inv; auto.
  - destruct (lookup o (live (fst s))); auto. destruct (reaches_take (chmap (snd s)) chans cb); cbn [fst]; auto.
    apply take_inv; auto.
Qed.
Lemma crun_inv dm h : hinv (fst (crun dm h)).
Proof.
  unfold crun. assert (G : forall s, hinv (fst s) -> hinv (fst (fold_left (cstep dm) h s))).
  { induction h as [|c h IH]; cbn; auto. intros s I. apply IH, cstep_inv, I. }
  apply G. apply hinv0.
Qed.

Lemma register_record dm st name p cb update order st' :
  register_program dm st name p cb update order = (st', None) ->
  exists r, lookup name (regs st') = Some r /\ r_tag r = p_tag p /\ r_meas r = p_meas p.
Proof.
  unfold register_program. destruct cb as [cbt|]; [|discriminate].
  destruct (negb (forallb _ (p_chans p))); [discriminate|].
  destruct (negb (forallb _ (p_meas p))); [discriminate|].
  destruct (channel_info dm (chmap st) (p_chans p)) as [infos|]; [|discriminate].
  destruct (negb (same_setN order (keys infos))); [discriminate|].
  destruct (has_key name (regs st) && negb update); [discriminate|].
  destruct (upload_all _ _ _ _ _ _) as [aw ok]. destruct (negb ok); [discriminate|].
  intros H. inversion H; subst st'; clear H. cbn [regs].
  eexists. rewrite lookup_upsert, N.eqb_refl. split; [reflexivity|]. cbn. auto.
Qed.

Theorem register_own_windows : forall dm ch name o chans cb update order ob,
  lookup o (live (fst (crun dm ch))) = Some ob ->
  reaches_take (chmap (snd (crun dm ch))) chans cb = true ->
  let own := collect (h_own ob) in
  let res := register_program dm (snd (crun dm ch)) name {| p_tag := o; p_chans := chans; p_meas := own |} cb update order in
  snd (cstep dm (crun dm ch) (CRegObj name o chans cb update order)) = fst res
  /\ (snd res = None ->
      exists r, lookup name (regs (fst res)) = Some r /\ r_tag r = o /\ r_meas r = own).
Proof.
  intros dm ch name o chans cb update order ob L T own res. split.
  - cbn [cstep]. rewrite L, T. cbn [snd]. rewrite (take_result _ _ _ (crun_inv dm ch) L). reflexivity.
  - intros Hn. destruct res as [st' e] eqn:R. cbn in Hn. subst e. cbn [fst].
    apply register_record in R. exact R.
Qed.

(* if the call does not reach _take_measurements it raises, whatever the measurements are *)
Lemma not_reached_raises dm st name o chans m cb update order :
  reaches_take (chmap st) chans cb = false ->
  snd (register_program dm st name {| p_tag := o; p_chans := chans; p_meas := m |} cb update order) <> None
  /\ fst (register_program dm st name {| p_tag := o; p_chans := chans; p_meas := m |} cb update order) = st.
Proof.
  unfold reaches_take, register_program. destruct cb as [cbt|]; cbn [p_chans].
  - intros ->. cbn. split; [discriminate|reflexivity].
  - intros _. cbn. split; [discriminate|reflexivity].
Qed.

(* example: non-vacuity, with a dead object, a recycled address, a stale entry and a later attachment *)
Definition w1 : windows := ([0#1], [2#1]).
Definition w2 : windows := ([3#1], [1#1]).
Definition w3 : windows := ([5#1], [4#1]).
Definition heap_example : list hop :=
  [HAlloc 1 100; HAttach 1 (7%N, w1); HTake 1; HDie 1 false;           (* object 1 dies, its entry stays (no callback) *)
   HAlloc 2 100; HAttach 2 (7%N, w2); HAttach 2 (8%N, w3); HTake 2;    (* object 2 at the same address *)
   HAttach 2 (7%N, w1)].                                                (* attached after the setup stripped it *)
Lemma heap_example_ok :
  exists ob, lookup 2%N (live (hrun heap_example)) = Some ob
    /\ snd (take (hrun heap_example) 2) = [(7%N, ([3#1; 0#1], [1#1; 2#1])); (8%N, w3)].
Proof. eexists. split; reflexivity. Qed.
