(* C18 — the tuples register_program builds (channel_info) are the ones the wiring specifies (Spec.entry_ok) *)
From Coq Require Import List ZArith NArith Bool Lia.
Require Import QV.C18.Model QV.C18.Spec QV.C18.Proofs_alist.
Import ListNotations.

Definition pairs (cm : list (N * list sch)) (chans : list N) : list (N * sch) :=
  flat_map (fun c => map (fun s => (c, s)) (get_set c cm)) chans.

Lemma In_pairs cm chans c s : In (c, s) (pairs cm chans) <-> In c chans /\ In s (get_set c cm).
Proof.
  unfold pairs. rewrite in_flat_map. split.
  - intros [c' [Hc H]]. apply in_map_iff in H as [s' [E Hs]]. inversion E. subst. auto.
  - intros [Hc Hs]. exists c. split; auto. apply in_map_iff. exists s. auto.
Qed.

Definition pstep (dm : dims) (acc : option (list (N * info))) (cs : N * sch) := info_step dm (fst cs) acc (snd cs).

Lemma channel_info_pairs dm cm chans :
  channel_info dm cm chans = fold_left (pstep dm) (pairs cm chans) (Some []).
Proof.
  unfold channel_info, pairs. generalize (Some (@nil (N * info))) as acc.
  induction chans as [|c chans IH]; intros acc; cbn; auto.
  rewrite fold_left_app, IH. f_equal.
  generalize acc. induction (get_set c cm) as [|s l IHl]; intros acc'; cbn; auto.
Qed.

Lemma py_index_lt n idx i : py_index n idx = Some i -> (i < Z.to_nat n)%nat.
Proof.
  unfold py_index.
  destruct ((0 <=? idx)%Z && (idx <? n)%Z) eqn:E1.
  - apply andb_true_iff in E1 as [A B]. intros H. inversion H. lia.
  - destruct ((- n <=? idx)%Z && (idx <? 0)%Z) eqn:E2; [|discriminate].
    apply andb_true_iff in E2 as [A B]. intros H. inversion H. lia.
Qed.

Lemma list_set_length {A} (l : list A) i v : length (list_set l i v) = length l.
Proof. revert i; induction l; intros [|i]; cbn; auto. Qed.

Lemma nth_list_set {A} (l : list A) i j v d : (i < length l)%nat ->
  nth j (list_set l i v) d = if Nat.eqb j i then v else nth j l d.
Proof.
  revert i j; induction l as [|x l IH]; intros [|i] [|j] H; cbn in *; try lia; auto.
  apply IH. lia.
Qed.

(* what has been written into slot i after the (channel id, hardware channel) pairs in `done` were processed *)
Definition slot_rel (dm : dims) (done : list (N * sch)) (a : N) (marker : bool) (i : nat) (v vt : option N) : Prop :=
  match v with
  | None => vt = None /\ forall c s, In (c, s) done -> at_pos dm s a marker i = false
  | Some c => exists s, In (c, s) done /\ at_pos dm s a marker i = true /\ (marker = false -> vt = Some (s_trafo s))
  end.

Lemma slot_rel_mono dm done a marker i v vt c s :
  slot_rel dm done a marker i v vt -> at_pos dm s a marker i = false ->
  slot_rel dm (done ++ [(c, s)]) a marker i v vt.
Proof.
  unfold slot_rel. destruct v as [c'|].
  - intros [s' [H1 H2]] _. exists s'. split; auto. apply in_or_app; auto.
  - intros [E H] Hs. split; auto. intros c0 s0 Hin. apply in_app_or in Hin as [Hin|[Hin|[]]]; eauto.
    inversion Hin; subst; auto.
Qed.

Record info_ok (dm : dims) (done : list (N * sch)) (a : N) (inf : info) : Prop := {
  io_lch : length (i_ch inf) = Z.to_nat (fst (dm a));
  io_lvt : length (i_vt inf) = Z.to_nat (fst (dm a));
  io_lmk : length (i_mk inf) = Z.to_nat (snd (dm a));
  io_ch : forall i, (i < Z.to_nat (fst (dm a)))%nat ->
                    slot_rel dm done a false i (nth i (i_ch inf) None) (nth i (i_vt inf) None);
  io_mk : forall i, (i < Z.to_nat (snd (dm a)))%nat -> slot_rel dm done a true i (nth i (i_mk inf) None) None
}.

Definition infos_inv (dm : dims) (done : list (N * sch)) (infos : list (N * info)) : Prop :=
  nodupN (keys infos) = true
  /\ (forall a, has_key a infos = true <-> exists c s, In (c, s) done /\ s_awg s = a)
  /\ (forall a inf, lookup a infos = Some inf -> info_ok dm done a inf).

Lemma at_pos_awg dm s a marker i : at_pos dm s a marker i = true -> s_awg s = a /\ s_marker s = marker.
Proof.
  unfold at_pos. rewrite !andb_true_iff. intros [[A B] _].
  apply N.eqb_eq in A. apply eqb_prop in B. auto.
Qed.

Lemma nth_repeat_None {A} n i : nth i (repeat (@None A) n) None = None.
Proof. revert i; induction n; intros [|i]; cbn; auto. Qed.

Lemma default_info_ok dm done a :
  (forall c s, In (c, s) done -> s_awg s <> a) -> info_ok dm done a (default_info dm a).
Proof.
  intros H. unfold default_info. constructor; cbn; try apply repeat_length.
  - intros i _. rewrite !nth_repeat_None. cbn. split; auto. intros c s Hin.
    destruct (at_pos dm s a false i) eqn:E; auto. apply at_pos_awg in E as [E _]. exfalso. eapply H; eauto.
  - intros i _. rewrite !nth_repeat_None. cbn. split; auto. intros c s Hin.
    destruct (at_pos dm s a true i) eqn:E; auto. apply at_pos_awg in E as [E _]. exfalso. eapply H; eauto.
Qed.

Lemma info_ok_other dm done a inf c s : s_awg s <> a -> info_ok dm done a inf -> info_ok dm (done ++ [(c, s)]) a inf.
Proof.
  intros Hne [A B C D E].
  assert (forall m i, at_pos dm s a m i = false) as Hf.
  { intros m i. destruct (at_pos dm s a m i) eqn:X; auto. apply at_pos_awg in X as [X _]. congruence. }
  constructor; auto; intros i Hi; apply slot_rel_mono; auto.
Qed.

Lemma infos_inv_step dm done infos c s infos' :
  infos_inv dm done infos -> info_step dm c (Some infos) s = Some infos' ->
  infos_inv dm (done ++ [(c, s)]) infos'.
Proof.
  intros [Hnd [Hkeys Hok]] Hstep. cbn in Hstep.
  set (a := s_awg s) in *.
  set (inf := match lookup a infos with Some i => i | None => default_info dm a end) in *.
  assert (info_ok dm done a inf) as Hinf.
  { subst inf. destruct (lookup a infos) eqn:E; [apply Hok; auto|].
    apply default_info_ok. intros c0 s0 Hin Heq.
    assert (has_key a infos = true) as K by (apply Hkeys; eauto).
    unfold has_key in K. rewrite E in K. discriminate. }
  assert (forall new, infos' = upsert a new infos -> info_ok dm (done ++ [(c, s)]) a new ->
                      infos_inv dm (done ++ [(c, s)]) infos') as Hfin.
  { intros new -> Hnew. split; [apply nodup_upsert; auto|]. split.
    - intros a'. rewrite has_key_upsert, orb_true_iff, N.eqb_eq, Hkeys. split.
      + intros [->|[c0 [s0 [Hin E]]]].
        * exists c, s. split; auto. apply in_or_app; cbn; auto.
        * exists c0, s0. split; auto. apply in_or_app; auto.
      + intros [c0 [s0 [Hin E]]]. apply in_app_or in Hin as [Hin|[Hin|[]]].
        * right; eauto.
        * inversion Hin; subst. auto.
    - intros a' inf'. rewrite lookup_upsert. destruct (N.eqb a' a) eqn:E.
      + apply N.eqb_eq in E. subst a'. intros H. inversion H. subst. auto.
      + apply N.eqb_neq in E. intros H. apply info_ok_other; auto. }
  destruct Hinf as [Lch Lvt Lmk Sch Smk].
  destruct (s_marker s) eqn:Em.
  - destruct (py_index (snd (dm a)) (s_idx s)) as [i0|] eqn:Ei; [|discriminate].
    injection Hstep as Hs. symmetry in Hs. eapply Hfin; [exact Hs|].
    pose proof (py_index_lt _ _ _ Ei) as Hlt.
    constructor; cbn; auto; [rewrite list_set_length; auto| |].
    + intros i Hi. apply slot_rel_mono; auto. unfold at_pos. rewrite Em. cbn. rewrite andb_false_r. auto.
    + intros i Hi. rewrite nth_list_set by lia. destruct (Nat.eqb i i0) eqn:Eii.
      * apply Nat.eqb_eq in Eii. subst i. cbn. exists s. split; [apply in_or_app; cbn; auto|]. split; [|discriminate].
        unfold at_pos. fold a. rewrite N.eqb_refl, Em, Ei, Nat.eqb_refl. auto.
      * apply slot_rel_mono; auto. unfold at_pos. fold a. rewrite N.eqb_refl, Em, Ei. cbn. auto.
  - destruct (py_index (fst (dm a)) (s_idx s)) as [i0|] eqn:Ei; [|discriminate].
    injection Hstep as Hs. symmetry in Hs. eapply Hfin; [exact Hs|].
    pose proof (py_index_lt _ _ _ Ei) as Hlt.
    constructor; cbn; auto; try (rewrite list_set_length; auto).
    + intros i Hi. rewrite !nth_list_set by lia. destruct (Nat.eqb i i0) eqn:Eii.
      * apply Nat.eqb_eq in Eii. subst i. cbn. exists s. split; [apply in_or_app; cbn; auto|]. split; auto.
        unfold at_pos. fold a. rewrite N.eqb_refl, Em, Ei, Nat.eqb_refl. auto.
      * apply slot_rel_mono; auto. unfold at_pos. fold a. rewrite N.eqb_refl, Em, Ei. cbn. auto.
    + intros i Hi. apply slot_rel_mono; auto. unfold at_pos. rewrite Em. cbn. rewrite andb_false_r. auto.
Qed.

Lemma fold_pstep_None dm l : fold_left (pstep dm) l None = None.
Proof. induction l; cbn; auto. Qed.

Lemma infos_inv_fold dm l : forall done infos infos',
  infos_inv dm done infos -> fold_left (pstep dm) l (Some infos) = Some infos' ->
  infos_inv dm (done ++ l) infos'.
Proof.
  induction l as [|[c s] l IH]; intros done infos infos' Hinv H.
  - cbn in H. inversion H. subst. rewrite app_nil_r. auto.
  - change (fold_left (pstep dm) ((c, s) :: l) (Some infos))
      with (fold_left (pstep dm) l (info_step dm c (Some infos) s)) in H.
    destruct (info_step dm c (Some infos) s) as [infos1|] eqn:E.
    + replace (done ++ (c, s) :: l) with ((done ++ [(c, s)]) ++ l) by (rewrite <- app_assoc; auto).
      eapply IH; eauto. eapply infos_inv_step; eauto.
    + rewrite fold_pstep_None in H. discriminate.
Qed.

Lemma channel_info_inv dm cm chans infos :
  channel_info dm cm chans = Some infos -> infos_inv dm (pairs cm chans) infos.
Proof.
  rewrite channel_info_pairs. intros H.
  change (pairs cm chans) with ([] ++ pairs cm chans).
  eapply infos_inv_fold; eauto.
  split; [reflexivity|]. split.
  - intros a. cbn. split; [discriminate|]. intros [c [s [[] _]]].
  - intros a inf. cbn. discriminate.
Qed.

(* ---- from the relational description to the boolean specification ---------------------------------------------- *)

Lemma uses_awg_iff cm chans a :
  uses_awg cm chans a = true <-> exists c s, In (c, s) (pairs cm chans) /\ s_awg s = a.
Proof.
  unfold uses_awg. rewrite existsb_exists. split.
  - intros [c [Hc H]]. apply existsb_exists in H as [s [Hs E]]. apply N.eqb_eq in E.
    exists c, s. split; auto. apply In_pairs; auto.
  - intros [c [s [Hin E]]]. apply In_pairs in Hin as [Hc Hs]. exists c. split; auto.
    apply existsb_exists. exists s. split; auto. apply N.eqb_eq; auto.
Qed.

Lemma slot_rel_ok dm cm chans a marker i v vt :
  slot_rel dm (pairs cm chans) a marker i v vt -> (marker = true -> vt = None) ->
  slot_ok dm cm chans a marker i v vt = true.
Proof.
  unfold slot_rel, slot_ok. destruct v as [c|].
  - intros [s [Hin [Hp Hvt]]] Hm. apply In_pairs in Hin as [Hc Hs].
    apply andb_true_iff. split; [apply memN_In; auto|].
    apply existsb_exists. exists s. split; auto. rewrite Hp. cbn.
    destruct marker; auto. rewrite Hvt by auto. apply N.eqb_refl.
  - intros [-> H] _. rewrite andb_true_r. apply negb_true_iff.
    destruct (existsb _ chans) eqn:E; auto.
    apply existsb_exists in E as [c [Hc E]]. apply existsb_exists in E as [s [Hs E]].
    rewrite (H c s) in E; [discriminate|]. apply In_pairs; auto.
Qed.

Lemma slots_ok_nth dm cm chans a marker : forall vs vts i,
  length vts = length vs ->
  (forall j, (j < length vs)%nat -> slot_ok dm cm chans a marker (i + j) (nth j vs None) (nth j vts None) = true) ->
  slots_ok dm cm chans a marker i vs vts = true.
Proof.
  induction vs as [|v vs IH]; intros [|vt vts] i Hl H; cbn in *; try discriminate; auto.
  apply andb_true_iff. split.
  - specialize (H 0%nat). rewrite Nat.add_0_r in H. apply H. lia.
  - apply IH; [lia|]. intros j Hj. specialize (H (S j)). rewrite Nat.add_succ_r in H. apply H. lia.
Qed.

Lemma nth_map_None {A} (l : list A) j : nth j (map (fun _ => @None N) l) None = None.
Proof. revert j; induction l; intros [|j]; cbn; auto. Qed.

Lemma info_ok_entry_ok dm cm chans a inf tag :
  info_ok dm (pairs cm chans) a inf -> entry_ok dm cm tag chans a (entry_of tag inf) = true.
Proof.
  intros [Lch Lvt Lmk Sch Smk]. unfold entry_ok, entry_of. cbn.
  rewrite N.eqb_refl, Lch, Lmk, !Nat.eqb_refl. cbn.
  apply andb_true_iff. split.
  - apply slots_ok_nth; [congruence|]. intros j Hj. cbn. apply slot_rel_ok; [|discriminate]. apply Sch. lia.
  - apply slots_ok_nth; [apply map_length|]. intros j Hj. cbn. rewrite nth_map_None.
    apply slot_rel_ok; auto. apply Smk. lia.
Qed.

(* the two facts register_program needs about awgs_to_channel_info *)
Lemma channel_info_keys dm cm chans infos a :
  channel_info dm cm chans = Some infos -> (has_key a infos = uses_awg cm chans a).
Proof.
  intros H. apply channel_info_inv in H as [_ [Hk _]].
  apply eq_true_iff_eq. rewrite Hk, uses_awg_iff. tauto.
Qed.

Lemma channel_info_entry dm cm chans infos a inf tag :
  channel_info dm cm chans = Some infos -> lookup a infos = Some inf ->
  entry_ok dm cm tag chans a (entry_of tag inf) = true.
Proof.
  intros H L. apply channel_info_inv in H as [_ [_ Hok]]. apply info_ok_entry_ok. auto.
Qed.

Lemma channel_info_nodup dm cm chans infos :
  channel_info dm cm chans = Some infos -> nodupN (keys infos) = true.
Proof. intros H. apply channel_info_inv in H as [H _]. auto. Qed.
