(* C18 — operational model of qupulse/hardware/setup.py (HardwareSetup) driving DummyAWG / DummyDAC
   (qupulse/hardware/awgs/dummy.py, qupulse/hardware/dacs/dummy.py).  Definitions only, executable, total.
   Every `raise` of the code is an explicit error; the state returned next to an error is the state the real
   objects are left in (register_program can fail half-way through its uploads). *)
From Coq Require Import List ZArith NArith QArith Bool.
Import ListNotations.

(* ---------------------------------------------------------------------------------------------------------------- *)
(* association lists keyed by N (Python dicts whose iteration order does not matter for the property) *)
Section AList.
  Context {V : Type}.
  Fixpoint lookup (k : N) (l : list (N * V)) : option V :=
    match l with
    | [] => None
    | (k', v) :: r => if N.eqb k k' then Some v else lookup k r
    end.
  Fixpoint upsert (k : N) (v : V) (l : list (N * V)) : list (N * V) :=
    match l with
    | [] => [(k, v)]
    | (k', v') :: r => if N.eqb k k' then (k, v) :: r else (k', v') :: upsert k v r
    end.
  Fixpoint remove_key (k : N) (l : list (N * V)) : list (N * V) :=
    match l with
    | [] => []
    | (k', v') :: r => if N.eqb k k' then remove_key k r else (k', v') :: remove_key k r
    end.
  Definition has_key (k : N) (l : list (N * V)) : bool :=
    match lookup k l with Some _ => true | None => false end.
  Definition keys (l : list (N * V)) : list N := map fst l.
End AList.

Definition memN (x : N) (l : list N) : bool := existsb (N.eqb x) l.
Definition upd {V} (f : N -> V) (k : N) (v : V) : N -> V := fun k' => if N.eqb k' k then v else f k'.

(* Python sets of objects with a user-defined / identity equality: first inserted representative is kept *)
Section PySet.
  Context {A : Type} (eqb : A -> A -> bool).
  Definition set_mem (x : A) (s : list A) : bool := existsb (eqb x) s.
  Definition set_add (x : A) (s : list A) : list A := if set_mem x s then s else s ++ [x].
  Definition set_of_list (l : list A) : list A := fold_left (fun s x => set_add x s) l [].
  Definition set_union (a b : list A) : list A := fold_left (fun s x => set_add x s) b a.
  Definition set_meets (a b : list A) : bool := existsb (fun x => set_mem x b) a.
End PySet.

(* ---------------------------------------------------------------------------------------------------------------- *)
(* data *)

(* _SingleChannel: PlaybackChannel / MarkerChannel.  __eq__/__hash__ = (id(awg), channel_on_awg, type) *)
Record sch := { s_awg : N; s_idx : Z; s_marker : bool; s_trafo : N }.
Definition sch_eqb (a b : sch) : bool :=
  N.eqb (s_awg a) (s_awg b) && Z.eqb (s_idx a) (s_idx b) && Bool.eqb (s_marker a) (s_marker b).

(* MeasurementMask has no __eq__: equality is object identity (m_oid) *)
Record mask := { m_dac : N; m_name : N; m_oid : N }.
Definition mask_eqb (a b : mask) : bool := N.eqb (m_oid a) (m_oid b).

Definition windows := (list Q * list Q)%type.      (* (begins, lengths) *)

(* what register_program reads from a Loop:
   p_chans = defined_channels of the first leaf's waveform, in the iteration order of that set;
   p_meas  = the measurement mapping that is used (argument `measurements`, else get_measurement_windows), in dict order *)
Record prog := { p_tag : N; p_chans : list N; p_meas : list (N * windows) }.

Record awg_entry := { ae_tag : N; ae_ch : list (option N); ae_mk : list (option N); ae_vt : list (option N) }.
Record awg_st := { a_progs : list (N * awg_entry); a_armed : option N }.          (* DummyAWG._programs, ._armed *)
Record dac_st := { d_wins : list (N * list (N * windows)); d_armed : option N }.  (* DummyDAC._measurement_windows, ._armed_program *)

(* RegisteredProgram(program, measurement_windows, run_callback, awgs_to_upload_to, dacs_to_arm) *)
Record reg := { r_tag : N; r_chans : list N; r_meas : list (N * windows); r_cb : N; r_awgs : list N; r_dacs : list N }.

Record state := {
  chmap : list (N * list sch);      (* _channel_map *)
  mmap  : list (N * list mask);     (* _measurement_map *)
  regs  : list (N * reg);           (* _registered_programs *)
  awg_of : N -> awg_st;
  dac_of : N -> dac_st;
  cblog : list N;                   (* run callbacks invoked so far (most recent first) *)
  vollog : list (N * N * list N)    (* update_parameters: (program name, parameter-set tag, generators whose
                                       set_volatile_parameters was called), most recent first *)
}.

Definition init_state : state :=
  {| chmap := []; mmap := []; regs := [];
     awg_of := fun _ => {| a_progs := []; a_armed := None |};
     dac_of := fun _ => {| d_wins := []; d_armed := None |};
     cblog := []; vollog := [] |}.

Inductive err := ETypeError | EKeyError | EValueError | EIndexError | EOverwrite | EBadHint.

Definition dims := N -> (Z * Z)%type.      (* awg -> (num_channels, num_markers) *)

(* ---------------------------------------------------------------------------------------------------------------- *)
(* set_channel / set_measurement / rm_channel *)

Inductive charg :=
| ChSingle (c : sch)
| ChMany (cs : list sch) (junk : bool)     (* an iterable; junk = it also contains a hashable non-channel object *)
| ChNotIterable.

Inductive marg :=
| MSingle (m : mask)
| MMany (ms : list mask)
| MNotIterable.

(* PlaybackChannel.__init__ / MarkerChannel.__init__ : only the upper bound is checked *)
Definition ctor_ok (dm : dims) (c : sch) : bool :=
  (s_idx c <? (if s_marker c then snd (dm (s_awg c)) else fst (dm (s_awg c))))%Z.

Definition charg_channels (a : charg) : list sch :=
  match a with ChSingle c => [c] | ChMany cs _ => cs | ChNotIterable => [] end.

Definition set_channel (dm : dims) (st : state) (id : N) (a : charg) (allow : bool) : state * option err :=
  if negb (forallb (ctor_ok dm) (charg_channels a)) then (st, Some EValueError)   (* constructor of the argument *)
  else
    match (match a with
           | ChSingle c => Some (match lookup id (chmap st) with
                                 | Some old => set_union sch_eqb old [c]
                                 | None => [c]
                                 end, false)
           | ChMany cs junk => Some (set_of_list sch_eqb cs, junk)
           | ChNotIterable => None
           end) with
    | None => (st, Some ETypeError)
    | Some (new, junk) =>
        if negb allow && existsb (fun kv => set_meets sch_eqb new (snd kv)) (chmap st) then (st, Some EValueError)
        else if junk then (st, Some ETypeError)
        else ({| chmap := upsert id new (chmap st); mmap := mmap st; regs := regs st; awg_of := awg_of st;
                 dac_of := dac_of st; cblog := cblog st; vollog := vollog st |}, None)
    end.

Definition set_measurement (st : state) (name : N) (a : marg) (allow : bool) : state * option err :=
  match (match a with
         | MSingle m => Some (match lookup name (mmap st) with
                              | Some old => set_union mask_eqb old [m]
                              | None => [m]
                              end)
         | MMany ms => Some (set_of_list mask_eqb ms)
         | MNotIterable => None
         end) with
  | None => (st, Some ETypeError)
  | Some new =>
      if negb allow && existsb (fun kv => set_meets mask_eqb new (snd kv)) (mmap st) then (st, Some EValueError)
      else ({| chmap := chmap st; mmap := upsert name new (mmap st); regs := regs st; awg_of := awg_of st;
               dac_of := dac_of st; cblog := cblog st; vollog := vollog st |}, None)
  end.

Definition rm_channel (st : state) (id : N) : state * option err :=
  if has_key id (chmap st)
  then ({| chmap := remove_key id (chmap st); mmap := mmap st; regs := regs st; awg_of := awg_of st;
           dac_of := dac_of st; cblog := cblog st; vollog := vollog st |}, None)
  else (st, Some EKeyError).

(* ---------------------------------------------------------------------------------------------------------------- *)
(* register_program *)

(* Python list indexing: negative indices count from the end, anything else is IndexError *)
Definition py_index (n idx : Z) : option nat :=
  if ((0 <=? idx) && (idx <? n))%Z then Some (Z.to_nat idx)
  else if ((- n <=? idx) && (idx <? 0))%Z then Some (Z.to_nat (idx + n))
  else None.

Fixpoint list_set {A} (l : list A) (i : nat) (v : A) : list A :=
  match l, i with
  | [], _ => []
  | _ :: r, O => v :: r
  | x :: r, S j => x :: list_set r j v
  end.

Record info := { i_ch : list (option N); i_vt : list (option N); i_mk : list (option N) }.
Definition default_info (dm : dims) (a : N) : info :=
  {| i_ch := repeat None (Z.to_nat (fst (dm a))); i_vt := repeat None (Z.to_nat (fst (dm a)));
     i_mk := repeat None (Z.to_nat (snd (dm a))) |}.

(* one iteration of the inner loop `for single_channel in self._channel_map[channel_id]` *)
Definition info_step (dm : dims) (c : N) (acc : option (list (N * info))) (s : sch) : option (list (N * info)) :=
  match acc with
  | None => None
  | Some infos =>
      let a := s_awg s in
      let inf := match lookup a infos with Some i => i | None => default_info dm a end in
      if s_marker s then
        match py_index (snd (dm a)) (s_idx s) with
        | None => None
        | Some i => Some (upsert a {| i_ch := i_ch inf; i_vt := i_vt inf; i_mk := list_set (i_mk inf) i (Some c) |} infos)
        end
      else
        match py_index (fst (dm a)) (s_idx s) with
        | None => None
        | Some i => Some (upsert a {| i_ch := list_set (i_ch inf) i (Some c);
                                      i_vt := list_set (i_vt inf) i (Some (s_trafo s)); i_mk := i_mk inf |} infos)
        end
  end.

Definition get_set {A} (k : N) (m : list (N * list A)) : list A :=
  match lookup k m with Some s => s | None => [] end.

(* awgs_to_channel_info; None = IndexError *)
Definition channel_info (dm : dims) (cm : list (N * list sch)) (chans : list N) : option (list (N * info)) :=
  fold_left (fun acc c => fold_left (info_step dm c) (get_set c cm) acc) chans (Some []).

(* affected_dacs: measurement_windows is filled by popitem() = reversed dict order; later entries overwrite *)
Definition dac_step (w : windows) (acc : list (N * list (N * windows))) (m : mask) : list (N * list (N * windows)) :=
  upsert (m_dac m) (upsert (m_name m) w (get_set (m_dac m) acc)) acc.
Definition affected_dacs (mm : list (N * list mask)) (meas : list (N * windows)) : list (N * list (N * windows)) :=
  fold_left (fun acc nw => fold_left (dac_step (snd nw)) (get_set (fst nw) mm) acc) (rev meas) [].

(* DummyAWG.upload *)
Definition awg_upload (a : awg_st) (name : N) (e : awg_entry) (force : bool) : option awg_st :=
  if has_key name (a_progs a) then
    if force then Some {| a_progs := upsert name e (remove_key name (a_progs a)); a_armed := a_armed a |}
    else None
  else Some {| a_progs := upsert name e (a_progs a); a_armed := a_armed a |}.

Definition entry_of (tag : N) (i : info) : awg_entry :=
  {| ae_tag := tag; ae_ch := i_ch i; ae_mk := i_mk i; ae_vt := i_vt i |}.

(* the upload loop over awgs_to_channel_info in the order `order`; returns the AWG table and whether it completed *)
Fixpoint upload_all (aw : N -> awg_st) (name tag : N) (force : bool) (infos : list (N * info)) (order : list N)
  : (N -> awg_st) * bool :=
  match order with
  | [] => (aw, true)
  | a :: rest =>
      match lookup a infos with
      | None => (aw, false)       (* excluded by the hint validation below *)
      | Some i =>
          match awg_upload (aw a) name (entry_of tag i) force with
          | None => (aw, false)
          | Some ast => upload_all (upd aw a ast) name tag force infos rest
          end
      end
  end.

Fixpoint nodupN (l : list N) : bool :=
  match l with [] => true | x :: r => negb (memN x r) && nodupN r end.
Definition same_setN (a b : list N) : bool :=
  nodupN a && nodupN b && forallb (fun x => memN x b) a && forallb (fun x => memN x a) b.

Definition register_dacs (dc : N -> dac_st) (name : N) (aff : list (N * list (N * windows))) : N -> dac_st :=
  fold_left (fun dc dw => upd dc (fst dw) {| d_wins := upsert name (snd dw) (d_wins (dc (fst dw)));
                                             d_armed := d_armed (dc (fst dw)) |}) aff dc.

Definition awg_remove (a : awg_st) (name : N) : awg_st :=     (* awg.arm(None); awg.remove(name) *)
  {| a_progs := remove_key name (a_progs a); a_armed := None |}.
Definition dac_delete (d : dac_st) (name : N) : dac_st :=     (* DummyDAC.delete_program(name) *)
  {| d_wins := remove_key name (d_wins d);
     d_armed := match d_armed d with Some n => if N.eqb n name then None else Some n | None => None end |}.

(* `awg_order` : the order in which the dict awgs_to_channel_info is iterated.  It depends on the iteration order of
   Python sets of _SingleChannel (hash of id(awg)), which is outside the model; the harness observes it and the model
   only accepts an order that is a duplicate-free enumeration of the dict's keys. *)
Definition register_program (dm : dims) (st : state) (name : N) (p : prog) (cb : option N) (update : bool)
           (awg_order : list N) : state * option err :=
  match cb with
  | None => (st, Some ETypeError)
  | Some cbt =>
      if negb (forallb (fun c => has_key c (chmap st)) (p_chans p)) then (st, Some EKeyError)
      else if negb (forallb (fun nw => has_key (fst nw) (mmap st)) (p_meas p)) then (st, Some EKeyError)
      else
        let aff := affected_dacs (mmap st) (p_meas p) in
        match channel_info dm (chmap st) (p_chans p) with
        | None => (st, Some EIndexError)
        | Some infos =>
            if negb (same_setN awg_order (keys infos)) then (st, Some EBadHint)
            else if has_key name (regs st) && negb update then (st, Some EOverwrite)
            else
              let (aw, ok) := upload_all (awg_of st) name (p_tag p) update infos awg_order in
              if negb ok then
                ({| chmap := chmap st; mmap := mmap st; regs := regs st; awg_of := aw; dac_of := dac_of st;
                    cblog := cblog st; vollog := vollog st |}, Some EOverwrite)
              else
                let dc := register_dacs (dac_of st) name aff in
                (* re-registration: devices of the old registration that dropped out forget the name *)
                let old_awgs := match lookup name (regs st) with Some r => r_awgs r | None => [] end in
                let old_dacs := match lookup name (regs st) with Some r => r_dacs r | None => [] end in
                ({| chmap := chmap st; mmap := mmap st;
                    regs := upsert name {| r_tag := p_tag p; r_chans := p_chans p; r_meas := p_meas p; r_cb := cbt;
                                           r_awgs := awg_order; r_dacs := keys aff |} (regs st);
                    awg_of := fold_left (fun aw a => if memN a awg_order then aw else upd aw a (awg_remove (aw a) name))
                                        old_awgs aw;
                    dac_of := fold_left (fun dc d => if memN d (keys aff) then dc else upd dc d (dac_delete (dc d) name))
                                        old_dacs dc;
                    cblog := cblog st; vollog := vollog st |}, None)
        end
  end.

(* ---------------------------------------------------------------------------------------------------------------- *)
(* remove_program / clear_programs / arm_program / run_program *)


Definition remove_program (st : state) (name : N) : state * option err :=
  match lookup name (regs st) with
  | None => (st, None)
  | Some r =>
      ({| chmap := chmap st; mmap := mmap st; regs := remove_key name (regs st);
          awg_of := fold_left (fun aw a => upd aw a (awg_remove (aw a) name)) (r_awgs r) (awg_of st);
          dac_of := fold_left (fun dc d => upd dc d (dac_delete (dc d) name)) (r_dacs r) (dac_of st);
          cblog := cblog st; vollog := vollog st |}, None)
  end.

Definition known_awgs (cm : list (N * list sch)) : list N := flat_map (fun kv => map s_awg (snd kv)) cm.
Definition known_dacs (mm : list (N * list mask)) : list N := flat_map (fun kv => map m_dac (snd kv)) mm.

Definition clear_programs (st : state) : state * option err :=
  ({| chmap := chmap st; mmap := mmap st; regs := [];
      awg_of := fold_left (fun aw a => upd aw a {| a_progs := []; a_armed := None |})   (* DummyAWG.clear *)
                          (known_awgs (chmap st)) (awg_of st);
      dac_of := fold_left (fun dc d => upd dc d {| d_wins := []; d_armed := None |}) (known_dacs (mmap st)) (dac_of st);
      cblog := cblog st; vollog := vollog st |}, None).

Definition arm_devices (st : state) (name : N) (r : reg) : state :=
  {| chmap := chmap st; mmap := mmap st; regs := regs st;
     awg_of := fold_left (fun aw a => upd aw a {| a_progs := a_progs (aw a);
                                                  a_armed := if memN a (r_awgs r) then Some name else None |})
                         (known_awgs (chmap st)) (awg_of st);
     dac_of := fold_left (fun dc d => upd dc d {| d_wins := d_wins (dc d); d_armed := Some name |}) (r_dacs r) (dac_of st);
     cblog := cblog st; vollog := vollog st |}.

Definition arm_program (st : state) (name : N) : state * option err :=
  match lookup name (regs st) with
  | None => (st, Some EKeyError)
  | Some r => (arm_devices st name r, None)
  end.

Definition run_program (st : state) (name : N) : state * option err :=
  match lookup name (regs st) with
  | None => (st, Some EKeyError)
  | Some r =>
      let st' := arm_devices st name r in
      ({| chmap := chmap st'; mmap := mmap st'; regs := regs st'; awg_of := awg_of st'; dac_of := dac_of st';
          cblog := r_cb r :: cblog st'; vollog := vollog st' |}, None)
  end.

(* update_parameters(name, parameters): `*_, awgs, dacs = self._registered_programs[name]` (KeyError), then
   `for awg in self.known_awgs: if awg in awgs: awg.set_volatile_parameters(name, parameters)`.
   known_awgs is a Python set: every wired generator is visited once. *)
Definition update_parameters (st : state) (name ptag : N) : state * option err :=
  match lookup name (regs st) with
  | None => (st, Some EKeyError)
  | Some r =>
      ({| chmap := chmap st; mmap := mmap st; regs := regs st; awg_of := awg_of st; dac_of := dac_of st;
          cblog := cblog st;
          vollog := (name, ptag, filter (fun a => memN a (r_awgs r)) (nodup N.eq_dec (known_awgs (chmap st))))
                    :: vollog st |}, None)
  end.

(* ---------------------------------------------------------------------------------------------------------------- *)
(* operations and histories *)

Inductive op :=
| OSetChannel (id : N) (a : charg) (allow : bool)
| OSetMeasurement (name : N) (a : marg) (allow : bool)
| ORmChannel (id : N)
| ORegister (name : N) (p : prog) (cb : option N) (update : bool) (awg_order : list N)
| ORemove (name : N)
| OClear
| OArm (name : N)
| ORun (name : N)
| OUpdateParams (name : N) (ptag : N).

Definition step (dm : dims) (st : state) (o : op) : state * option err :=
  match o with
  | OSetChannel id a allow => set_channel dm st id a allow
  | OSetMeasurement name a allow => set_measurement st name a allow
  | ORmChannel id => rm_channel st id
  | ORegister name p cb update order => register_program dm st name p cb update order
  | ORemove name => remove_program st name
  | OClear => clear_programs st
  | OArm name => arm_program st name
  | ORun name => run_program st name
  | OUpdateParams name ptag => update_parameters st name ptag
  end.

(* state after a history (errors are ignored here: the state component already is the state the objects are left in) *)
Definition run (dm : dims) (st : state) (h : list op) : state := fold_left (fun s o => fst (step dm s o)) h st.
