(* C18 round 4 — the post-condition clauses of the observation-level framed check (Corr.fpost_ok, Corr.logs_ok) accept
   the model's own views after every history, and therefore Corr.check_framed as a whole accepts the model's own trace of
   every history of well-formed operations on a bench that contains every recorded device: a rejection by check_framed
   on the implementation's observations is always a disagreement with a proved statement about the model, never an
   artefact of the boolean check.  (Round 3 proved this for the invariant clauses framed_obs_awg / framed_obs_dac only.) *)
From Coq Require Import List ZArith NArith QArith Bool Lia.
Require Import QV.common.Util.
Require Import QV.C18.Model QV.C18.Spec QV.C18.Corr QV.C18.Proofs_alist QV.C18.Proofs_route QV.C18.Proofs_inv
               QV.C18.Proofs_frame_awg QV.C18.Proofs_frame_dac QV.C18.Proofs_obs QV.C18.Proofs_dev QV.C18.Proofs_perdev
               QV.C18.Proofs_perdev_dac.
Import ListNotations.

(* ---- reflexivity of the comparison functions ---------------------------------------------------------------------- *)
Lemma Qlist_eqb_refl l : Qlist_eqb l l = true.
Proof.
  unfold Qlist_eqb. rewrite Nat.eqb_refl. cbn [andb]. induction l as [|x l IH]; cbn; auto.
  rewrite IH, andb_true_r. apply Qeq_bool_iff. reflexivity.
Qed.

Lemma windows_eqb_refl w : windows_eqb w w = true.
Proof. unfold windows_eqb. rewrite !Qlist_eqb_refl. auto. Qed.

Lemma setN_equiv_refl l : setN_equiv l l = true.
Proof.
  unfold setN_equiv, set_equiv. rewrite Nat.eqb_refl. cbn [andb].
  assert (forallb (fun x => existsb (N.eqb x) l) l = true) as H.
  { apply forallb_forall. intros x Hx. apply existsb_exists. exists x. split; auto. apply N.eqb_refl. }
  rewrite H. auto.
Qed.

Lemma alist_equiv_refl {V} (e : V -> V -> bool) (l : list (N * V)) :
  nodupN (keys l) = true -> (forall k v, In (k, v) l -> e v v = true) -> alist_equiv e l l = true.
Proof.
  intros Hn He. unfold alist_equiv. rewrite Hn, Nat.eqb_refl. cbn [andb].
  apply forallb_forall. intros [k v] Hin. cbn [fst snd]. rewrite (In_lookup _ _ _ Hn Hin). eapply He; eauto.
Qed.

Lemma list_eqb_N_refl l : list_eqb N.eqb l l = true.
Proof. induction l as [|x l IH]; cbn; auto. rewrite N.eqb_refl, IH. auto. Qed.

Lemma optN_eqb_refl a : optN_eqb a a = true.
Proof. destruct a; cbn; auto. apply N.eqb_refl. Qed.

Lemma eqb_same b : Bool.eqb b b = true.
Proof. destruct b; auto. Qed.

(* ---- well-formed inputs: the measurement mapping of a program is a Python dict (distinct keys) ---------------------- *)
Definition op_wf (o : op) : bool :=
  match o with ORegister _ p _ _ _ => nodupN (keys (p_meas p)) | _ => true end.

Definition regs_wf (st : state) : Prop := forall n r, In (n, r) (regs st) -> nodupN (keys (r_meas r)) = true.

Lemma In_upsert_weak {V} k (v : V) l k' v' : In (k', v') (upsert k v l) -> (k' = k /\ v' = v) \/ In (k', v') l.
Proof.
  induction l as [|[k0 v0] l IH]; cbn.
  - intros [E|[]]. inversion E. auto.
  - destruct (N.eqb k k0); cbn.
    + intros [E|H]; [inversion E; auto|auto].
    + intros [E|H]; [auto|]. destruct (IH H) as [?|?]; auto.
Qed.

Lemma In_remove_weak {V} k (l : list (N * V)) k' v' : In (k', v') (remove_key k l) -> In (k', v') l.
Proof.
  induction l as [|[k0 v0] l IH]; cbn; auto.
  destruct (N.eqb k k0); cbn; [auto|]. intros [E|H]; auto.
Qed.

(* what register_program does to the parts of the state the post-conditions read *)
Lemma register_shape dm st name p cb update order st' e :
  register_program dm st name p cb update order = (st', e) ->
  chmap st' = chmap st /\ mmap st' = mmap st /\ cblog st' = cblog st /\ vollog st' = vollog st
  /\ match e with
     | None => exists cbt r, cb = Some cbt /\ regs st' = upsert name r (regs st)
                             /\ r_tag r = p_tag p /\ r_chans r = p_chans p /\ r_meas r = p_meas p /\ r_cb r = cbt
     | Some _ => regs st' = regs st
     end.
Proof.
  intros H. unfold register_program in H.
  destruct cb as [cbt|]; [|inversion H; subst; auto 10].
  destruct (negb (forallb _ (p_chans p))); [inversion H; subst; auto 10|].
  destruct (negb (forallb _ (p_meas p))); [inversion H; subst; auto 10|].
  destruct (channel_info dm (chmap st) (p_chans p)) as [infos|]; [|inversion H; subst; auto 10].
  destruct (negb (same_setN order (keys infos))); [inversion H; subst; auto 10|].
  destruct (has_key name (regs st) && negb update); [inversion H; subst; auto 10|].
  destruct (upload_all (awg_of st) name (p_tag p) update infos order) as [aw ok].
  destruct ok; cbn in H; inversion H; subst; clear H; cbn; repeat split; auto.
  eexists. eexists. split; [reflexivity|]. split; [reflexivity|]. cbn. auto.
Qed.

Lemma regs_wf_step dm st o : op_wf o = true -> regs_wf st -> regs_wf (fst (step dm st o)).
Proof.
  intros Hw Hr. destruct o; cbn [step].
  - unfold set_channel.
    destruct (negb (forallb (ctor_ok dm) (charg_channels a))); auto.
    destruct (match a with ChSingle c => _ | ChMany cs junk => _ | ChNotIterable => None end) as [[new junk]|]; auto.
    destruct (negb allow && _); auto. destruct junk; auto.
  - unfold set_measurement.
    destruct (match a with MSingle m => _ | MMany ms => _ | MNotIterable => None end) as [new|]; auto.
    destruct (negb allow && _); auto.
  - unfold rm_channel. destruct (has_key id (chmap st)); auto.
  - destruct (register_program dm st name p cb update awg_order) as [st' e] eqn:R. cbn [fst].
    destruct (register_shape _ _ _ _ _ _ _ _ _ R) as [_ [_ [_ [_ S]]]].
    destruct e as [e|].
    + unfold regs_wf. rewrite S. auto.
    + destruct S as [cbt [r [_ [S [_ [_ [Sm _]]]]]]]. unfold regs_wf. rewrite S. intros n r0 Hin.
      apply In_upsert_weak in Hin as [[_ ->]|Hin]; [|eauto]. rewrite Sm. exact Hw.
  - unfold remove_program. destruct (lookup name (regs st)) as [r|]; auto. cbn.
    intros n r0 Hin. apply In_remove_weak in Hin. eauto.
  - cbn. intros n r0 [].
  - unfold arm_program. destruct (lookup name (regs st)); auto.
  - unfold run_program. destruct (lookup name (regs st)); auto.
  - unfold update_parameters. destruct (lookup name (regs st)); auto.
Qed.

Lemma regs_wf_run dm : forall h st, forallb op_wf h = true -> regs_wf st -> regs_wf (run dm st h).
Proof.
  induction h as [|o h IH]; intros st Hw Hr; cbn; auto.
  cbn in Hw. apply andb_true_iff in Hw as [Ho Hh]. apply IH; auto. apply regs_wf_step; auto.
Qed.

Lemma reg_same_refl r : nodupN (keys (r_meas r)) = true -> reg_same r r = true.
Proof.
  intros H. unfold reg_same. rewrite !N.eqb_refl, setN_equiv_refl. cbn [andb]. rewrite andb_true_r.
  apply alist_equiv_refl; auto. intros. apply windows_eqb_refl.
Qed.

Lemma regs_same_refl (l : list (N * reg)) :
  nodupN (keys l) = true -> (forall n r, In (n, r) l -> nodupN (keys (r_meas r)) = true) ->
  alist_equiv reg_same l l = true.
Proof. intros Hn Hw. apply alist_equiv_refl; auto. intros k v Hin. apply reg_same_refl. eauto. Qed.

Lemma remove_upsert_same {V} k (v : V) l : remove_key k (upsert k v l) = remove_key k l.
Proof.
  induction l as [|[k0 v0] l IH]; cbn.
  - rewrite N.eqb_refl. auto.
  - destruct (N.eqb k k0) eqn:E; cbn; rewrite ?N.eqb_refl, ?E; auto. rewrite IH. auto.
Qed.

Lemma NoDup_nodupN l : NoDup l -> nodupN l = true.
Proof. apply nodupN_NoDup. Qed.

(* ---- arm / run share the devices ------------------------------------------------------------------------------------ *)
Lemma run_as_arm st name st2 :
  run_program st name = (st2, None) ->
  exists st1 r, arm_program st name = (st1, None) /\ lookup name (regs st) = Some r
    /\ chmap st2 = chmap st1 /\ mmap st2 = mmap st1 /\ regs st2 = regs st1 /\ awg_of st2 = awg_of st1
    /\ dac_of st2 = dac_of st1 /\ cblog st2 = r_cb r :: cblog st /\ vollog st2 = vollog st.
Proof.
  unfold run_program, arm_program. destruct (lookup name (regs st)) as [r|]; [|discriminate].
  intros H. inversion H; subst; clear H. exists (arm_devices st name r), r. cbn. repeat split; auto.
Qed.

Lemma arm_shape st name st1 :
  arm_program st name = (st1, None) ->
  exists r, lookup name (regs st) = Some r /\ chmap st1 = chmap st /\ mmap st1 = mmap st /\ regs st1 = regs st
            /\ cblog st1 = cblog st /\ vollog st1 = vollog st.
Proof.
  unfold arm_program. destruct (lookup name (regs st)) as [r|]; [|discriminate].
  intros H. inversion H; subst. exists r. cbn. auto 10.
Qed.

(* ---- the post-condition clauses on the model's views -------------------------------------------------------------- *)
Section Post.
  Variables (dm : dims) (h : list op) (na nd : nat).
  Let t := trun dm tinit h.
  Let st := t_st t.
  Hypothesis Hwf : forallb op_wf h = true.

  Lemma st_nodup : nodupN (keys (regs st)) = true.
  Proof. pose proof (framed_awg_histories dm h) as [A _]. exact A. Qed.

  Lemma st_wf : regs_wf st.
  Proof.
    unfold st, t. rewrite t_st_run. apply regs_wf_run; auto. intros n r [].
  Qed.

  Lemma same_regs e0 e1 st' :
    regs st' = regs st -> alist_equiv reg_same (o_regs (view na nd e0 st)) (o_regs (view na nd e1 st')) = true.
  Proof. intros E. cbn. rewrite E. apply regs_same_refl. apply st_nodup. apply st_wf. Qed.

  (* arm_program / run_program, devices part *)
  Lemma arm_part name st1 r e1 :
    arm_program st name = (st1, None) -> lookup name (regs st) = Some r ->
    let ob := view na nd e1 st1 in
    (if is_clean (t_awg t) name then forall_idx (awg_arm_post (o_chmap ob) name (r_chans r)) 0%N (o_awgs ob)
     else if is_cov (t_awg t) name then
       forall_idx (fun a ast => negb (memN a (known_awgs (o_chmap ob)))
                                || optN_eqb (a_armed ast) (if has_key name (a_progs ast) then Some name else None))
                  0%N (o_awgs ob)
     else true) = true
    /\ (if is_clean (t_dac t) name then forall_idx (dac_arm_post (o_mmap ob) name (r_meas r)) 0%N (o_dacs ob)
        else if is_cov (t_dac t) name then
          forallb (fun dst => negb (has_key name (d_wins dst)) || optN_eqb (d_armed dst) (Some name)) (o_dacs ob)
        else true) = true.
  Proof.
    intros H L ob. destruct (arm_shape _ _ _ H) as [r' [L' [Hcm [Hmm [Hrg _]]]]].
    rewrite L in L'. inversion L'; subst r'. clear L'. split.
    - destruct (is_clean (t_awg t) name) eqn:Hc.
      + destruct (framed_arm_awg dm h name st1 Hc H) as [r2 [L2 P]]. rewrite Hrg in L2. fold st in L2.
        rewrite L in L2. inversion L2; subst r2. unfold ob. cbn [view o_chmap o_awgs].
        apply forall_idx_view. intros a. apply P.
      + destruct (is_cov (t_awg t) name) eqn:Hv; auto.
        unfold ob. cbn [view o_chmap o_awgs]. apply forall_idx_view. intros a.
        destruct (framed_arm_awg_covered dm h name st1 Hv H a) as [_ Ha]. rewrite Ha.
        destruct (memN a (known_awgs (chmap st1))); cbn [negb orb]; auto. apply optN_eqb_refl.
    - destruct (is_clean (t_dac t) name) eqn:Hc.
      + destruct (framed_arm_dac dm h name st1 Hc H) as [r2 [L2 P]]. rewrite Hrg in L2. fold st in L2.
        rewrite L in L2. inversion L2; subst r2. unfold ob. cbn [view o_mmap o_dacs].
        apply forall_idx_view. intros d. apply P.
      + destruct (is_cov (t_dac t) name) eqn:Hv; auto.
        unfold ob. cbn [view o_dacs]. apply forallb_forall. intros dst Hin. apply in_map_iff in Hin as [d [<- _]].
        destruct (framed_arm_dac_covered dm h name st1 Hv H d) as [_ Hd]. rewrite Hd.
        destruct (has_key name (d_wins (dac_of st1 d))); cbn [negb orb]; auto. apply optN_eqb_refl.
  Qed.

  (* every normally returning operation: the framed post-condition and the call logs *)
  Lemma fpost_model o e0 :
    op_wf o = true ->
    snd (step dm st o) = None ->
    (forall n r, lookup n (regs (fst (step dm st o))) = Some r -> forall a, In a (r_awgs r) -> (N.to_nat a < na)%nat) ->
    let st' := fst (step dm st o) in
    fpost_ok o (track_awg dm st o (t_awg t)) (track_dac dm st o (t_dac t)) (view na nd e0 st) (view na nd None st') = true
    /\ logs_ok o (view na nd e0 st) (view na nd None st') = true.
  Proof.
    intros Hwo He Hrange st'.
    assert (Hrefl : forall l, list_eqb N.eqb l l = true) by apply list_eqb_N_refl.
    destruct o; cbn [step] in *; unfold st' in *; clear st'.
    - (* set_channel *)
      assert (regs (fst (set_channel dm st id a allow)) = regs st /\ cblog (fst (set_channel dm st id a allow)) = cblog st
              /\ vollog (fst (set_channel dm st id a allow)) = vollog st) as [E1 [E2 E3]].
      { unfold set_channel.
        destruct (negb (forallb (ctor_ok dm) (charg_channels a))); auto.
        destruct (match a with ChSingle c => _ | ChMany cs junk => _ | ChNotIterable => None end) as [[new junk]|]; auto.
        destruct (negb allow && _); auto. destruct junk; auto. }
      split.
      + cbn [fpost_ok post_ok]. apply same_regs. auto.
      + cbn [logs_ok view o_cblog o_vollog]. rewrite E2, E3, Hrefl, Nat.eqb_refl. auto.
    - (* set_measurement *)
      assert (regs (fst (set_measurement st name a allow)) = regs st /\ cblog (fst (set_measurement st name a allow)) = cblog st
              /\ vollog (fst (set_measurement st name a allow)) = vollog st) as [E1 [E2 E3]].
      { unfold set_measurement.
        destruct (match a with MSingle m => _ | MMany ms => _ | MNotIterable => None end) as [new|]; auto.
        destruct (negb allow && _); auto. }
      split.
      + cbn [fpost_ok post_ok]. apply same_regs. auto.
      + cbn [logs_ok view o_cblog o_vollog]. rewrite E2, E3, Hrefl, Nat.eqb_refl. auto.
    - (* rm_channel *)
      assert (regs (fst (rm_channel st id)) = regs st /\ cblog (fst (rm_channel st id)) = cblog st
              /\ vollog (fst (rm_channel st id)) = vollog st) as [E1 [E2 E3]].
      { unfold rm_channel. destruct (has_key id (chmap st)); auto. }
      split.
      + cbn [fpost_ok post_ok]. apply same_regs. auto.
      + cbn [logs_ok view o_cblog o_vollog]. rewrite E2, E3, Hrefl, Nat.eqb_refl. auto.
    - (* register_program *)
      destruct (register_program dm st name p cb update awg_order) as [st' e] eqn:R. cbn [fst snd] in *. subst e.
      destruct (register_shape _ _ _ _ _ _ _ _ _ R) as [_ [_ [E2 [E3 [cbt [r [Hcb [S [S1 [S2 [S3 S4]]]]]]]]]]].
      split.
      + cbn [fpost_ok post_ok view o_regs]. rewrite S, lookup_upsert, N.eqb_refl, remove_upsert_same.
        apply andb_true_iff. split.
        * unfold reg_is. rewrite S1, S2, S3, S4, Hcb, N.eqb_refl, setN_equiv_refl. cbn [andb optN_eqb opt_eqb].
          rewrite N.eqb_refl, andb_true_r. apply alist_equiv_refl; auto. intros. apply windows_eqb_refl.
        * apply regs_same_refl.
          -- apply nodup_remove. apply st_nodup.
          -- intros n r0 Hin. apply In_remove_weak in Hin. eapply st_wf; eauto.
      + cbn [logs_ok view o_cblog o_vollog]. rewrite E2, E3, Hrefl, Nat.eqb_refl. auto.
    - (* remove_program *)
      split.
      + cbn [fpost_ok]. unfold track_awg, track_dac. cbn [step].
        destruct (t_awg t) as [cov lost] eqn:Ta. destruct (t_dac t) as [dcov dlost] eqn:Td.
        destruct (remove_program st name) as [st' e] eqn:R. cbn [fst].
        assert (regs st' = remove_key name (regs st)) as Hr.
        { unfold remove_program in R. destruct (lookup name (regs st)) as [r|] eqn:L; inversion R; subst; auto.
          symmetry. apply remove_absent. unfold has_key. rewrite L. auto. }
        apply andb_true_iff; split; [apply andb_true_iff; split|].
        * cbn [view o_regs]. rewrite Hr. apply regs_same_refl.
          -- apply nodup_remove. apply st_nodup.
          -- intros n r0 Hin. apply In_remove_weak in Hin. eapply st_wf; eauto.
        * unfold is_lost. cbn [snd]. destruct (memN name lost) eqn:Hl; auto. cbn [orb].
          cbn [view o_awgs]. apply forallb_forall. intros ast Hin. apply in_map_iff in Hin as [a [<- _]].
          pose proof (framed_removed_awg dm h name a) as P. fold t in P. rewrite Ta in P. unfold is_lost in P. cbn [snd] in P.
          fold st in P. rewrite R in P. cbn [fst] in P. auto.
        * unfold is_lost. cbn [snd]. destruct (memN name dlost) eqn:Hl; auto. cbn [orb].
          cbn [view o_dacs]. apply forallb_forall. intros dst Hin. apply in_map_iff in Hin as [d [<- _]].
          pose proof (framed_removed_dac dm h name d) as P. fold t in P. rewrite Td in P. unfold is_lost in P. cbn [snd] in P.
          fold st in P. rewrite R in P. cbn [fst] in P. auto.
      + cbn [logs_ok view o_cblog o_vollog]. unfold remove_program. destruct (lookup name (regs st)); cbn;
          rewrite Hrefl, Nat.eqb_refl; auto.
    - (* clear_programs *)
      split.
      + cbn [fpost_ok view o_regs o_awgs o_dacs clear_programs fst regs]. cbn [andb].
        pose proof (trun_app dm h [OClear] tinit) as Happ. fold t in Happ.
        change (trun dm t [OClear]) with (tstep dm t OClear) in Happ.
        apply andb_true_iff. split.
        * apply forallb_forall. intros ast Hin. apply in_map_iff in Hin as [a [<- _]].
          apply forallb_forall. intros [n e] Hin. cbn [fst].
          pose proof (framed_cleared_awg dm h a n) as P. rewrite Happ in P. unfold tstep in P. cbn [t_st t_awg] in P.
          apply P. cbn [step]. eapply In_has_key; eauto.
        * apply forallb_forall. intros dst Hin. apply in_map_iff in Hin as [d [<- _]].
          apply forallb_forall. intros [n e] Hin. cbn [fst].
          pose proof (framed_cleared_dac dm h d n) as P. rewrite Happ in P. unfold tstep in P. cbn [t_st t_dac] in P.
          apply P. cbn [step]. eapply In_has_key; eauto.
      + cbn [logs_ok view o_cblog o_vollog clear_programs fst cblog vollog]. rewrite Hrefl, Nat.eqb_refl. auto.
    - (* arm_program *)
      destruct (arm_program st name) as [st1 e] eqn:A. cbn [fst snd] in *. subst e.
      destruct (arm_shape _ _ _ A) as [r [L [Hcm [Hmm [Hrg [Hcb Hvl]]]]]].
      assert (track_awg dm st (OArm name) (t_awg t) = t_awg t) as Ta.
      { unfold track_awg. destruct (t_awg t). cbn [step]. rewrite A. auto. }
      assert (track_dac dm st (OArm name) (t_dac t) = t_dac t) as Td.
      { unfold track_dac. destruct (t_dac t). cbn [step]. rewrite A. auto. }
      rewrite Ta, Td. split.
      + cbn [fpost_ok]. rewrite (same_regs e0 None st1 Hrg). cbn [andb].
        cbn [view o_regs]. rewrite Hrg, L.
        destruct (arm_part name st1 r None A L) as [P1 P2]. cbn zeta in P1, P2.
        cbn [view o_regs o_chmap o_mmap o_awgs o_dacs o_cblog] in *. rewrite P1, P2, Hcb, Hrefl. auto.
      + cbn [logs_ok view o_cblog o_vollog]. rewrite Hcb, Hvl, Hrefl, Nat.eqb_refl. auto.
    - (* run_program *)
      destruct (run_program st name) as [st2 e] eqn:Rn. cbn [fst snd] in *. subst e.
      destruct (run_as_arm _ _ _ Rn) as [st1 [r [A [L [Hcm [Hmm [Hrg [Haw [Hdc [Hcb Hvl]]]]]]]]]].
      destruct (arm_shape _ _ _ A) as [r' [L' [Hcm1 [Hmm1 [Hrg1 _]]]]]. rewrite L in L'. inversion L'; subst r'; clear L'.
      assert (track_awg dm st (ORun name) (t_awg t) = t_awg t) as Ta.
      { unfold track_awg. destruct (t_awg t). cbn [step]. rewrite Rn. auto. }
      assert (track_dac dm st (ORun name) (t_dac t) = t_dac t) as Td.
      { unfold track_dac. destruct (t_dac t). cbn [step]. rewrite Rn. auto. }
      rewrite Ta, Td. split.
      + cbn [fpost_ok]. rewrite (same_regs e0 None st2 (eq_trans Hrg Hrg1)). cbn [andb].
        cbn [view o_regs]. rewrite Hrg, Hrg1, L.
        destruct (arm_part name st1 r None A L) as [P1 P2]. cbn zeta in P1, P2.
        cbn [view o_regs o_chmap o_mmap o_awgs o_dacs o_cblog] in *. rewrite Hcm, Hmm, Haw, Hdc, P1, P2, Hcb, Hrefl. auto.
      + cbn [logs_ok view o_vollog]. rewrite Hvl, Nat.eqb_refl. auto.
    - (* update_parameters *)
      destruct (update_parameters st name ptag) as [st1 e] eqn:U. cbn [fst snd] in *. subst e.
      assert (track_awg dm st (OUpdateParams name ptag) (t_awg t) = t_awg t) as Ta.
      { unfold track_awg. destruct (t_awg t). cbn [step]. rewrite U. auto. }
      assert (track_dac dm st (OUpdateParams name ptag) (t_dac t) = t_dac t) as Td.
      { unfold track_dac. destruct (t_dac t). cbn [step]. rewrite U. auto. }
      rewrite Ta, Td. pose proof U as U0.
      unfold update_parameters in U. destruct (lookup name (regs st)) as [r|] eqn:L; [|discriminate].
      inversion U; subst st1; clear U. split.
      + cbn [fpost_ok view o_regs o_vollog o_chmap o_awgs regs vollog chmap awg_of].
        rewrite (regs_same_refl (regs st) st_nodup st_wf), L. cbn [andb].
        rewrite !N.eqb_refl, Nat.eqb_refl. cbn [andb]. rewrite andb_true_r.
        set (got := filter (fun a => memN a (r_awgs r)) (nodup N.eq_dec (known_awgs (chmap st)))).
        assert (NoDup got) as Hnd by (apply NoDup_filter', NoDup_nodup).
        rewrite (NoDup_nodupN _ Hnd). cbn [andb]. rewrite map_length, Nseq_length.
        destruct (is_clean (t_awg t) name) eqn:Hc.
        * destruct (framed_update_parameters dm h name ptag _ Hc U0) as [r2 [got2 [rest2 [L2 [V2 [_ D2]]]]]].
          cbn [regs vollog chmap] in *. fold st in L2. rewrite L in L2. inversion L2; subst r2. inversion V2; subst got2 rest2.
          fold got in D2. apply forallb_forall. intros a _. fold got.
          destruct (uses_awg (chmap st) (r_chans r) a) eqn:Ua.
          -- apply D2 in Ua. apply memN_In in Ua. rewrite Ua. auto.
          -- destruct (memN a got) eqn:Ma; auto. apply memN_In in Ma. apply D2 in Ma. congruence.
        * destruct (is_cov (t_awg t) name) eqn:Hv; auto.
          destruct (framed_update_parameters_covered dm h name ptag _ Hv U0) as [got2 [rest2 [V2 [_ D2]]]].
          cbn [vollog chmap awg_of] in *. inversion V2; subst got2 rest2. fold got in D2.
          apply andb_true_iff. split.
          -- apply forall_idx_view. intros a.
             destruct (memN a (known_awgs (chmap st)) && has_key name (a_progs (awg_of st a))) eqn:Ka.
             ++ apply andb_true_iff in Ka. apply D2 in Ka. apply memN_In in Ka. rewrite Ka. auto.
             ++ destruct (memN a got) eqn:Ma; auto. apply memN_In in Ma. apply D2 in Ma. destruct Ma as [M1 M2].
                rewrite M1, M2 in Ka. discriminate.
          -- apply in_range_spec. intros a Ha. unfold got in Ha. apply filter_In in Ha as [_ Ha]. apply memN_In in Ha.
             apply (Hrange name r); auto.
      + cbn [logs_ok view o_cblog cblog]. apply Hrefl.
  Qed.
End Post.

(* ---- the whole check on the model's own trace ---------------------------------------------------------------------- *)
Fixpoint model_steps (dm : dims) (na nd : nat) (st : state) (h : list op) : list (op * obs) :=
  match h with
  | [] => []
  | o :: r => (o, view na nd (snd (step dm st o)) (fst (step dm st o))) :: model_steps dm na nd (fst (step dm st o)) r
  end.

(* every device recorded by a registration along the history is on the bench (index < na / < nd) *)
Fixpoint bench_ok (dm : dims) (na nd : nat) (st : state) (h : list op) : bool :=
  match h with
  | [] => true
  | o :: r =>
      forallb (fun nr => in_range na (r_awgs (snd nr)) && in_range nd (r_dacs (snd nr))) (regs (fst (step dm st o)))
      && bench_ok dm na nd (fst (step dm st o)) r
  end.

Lemma in_range_In n l a : in_range n l = true -> In a l -> (N.to_nat a < n)%nat.
Proof. unfold in_range. rewrite forallb_forall. intros H Ha. apply Nat.ltb_lt. auto. Qed.

Lemma bench_regs (na nd : nat) (rg : list (N * reg)) :
  forallb (fun nr => in_range na (r_awgs (snd nr)) && in_range nd (r_dacs (snd nr))) rg = true ->
  forall n r, lookup n rg = Some r ->
    (forall a, In a (r_awgs r) -> (N.to_nat a < na)%nat) /\ (forall d, In d (r_dacs r) -> (N.to_nat d < nd)%nat).
Proof.
  intros H n r L. apply lookup_In in L. rewrite forallb_forall in H. specialize (H _ L). cbn in H.
  apply andb_true_iff in H as [H1 H2]. split; intros x Hx; eapply in_range_In; eauto.
Qed.

Lemma tstep_app dm h o : trun dm tinit (h ++ [o]) = tstep dm (trun dm tinit h) o.
Proof. rewrite trun_app. reflexivity. Qed.

(* ---- status per (name, device) on the observations ------------------------------------------------------------------ *)
Lemma optrack_awg_view dm na nd st o e0 dl :
  optrack_awg o (view na nd e0 st) (view na nd (snd (step dm st o)) (fst (step dm st o))) dl = ptrack_awg dm st o dl.
Proof.
  unfold optrack_awg, ptrack_awg. destruct (step dm st o) as [st' e]. cbn [fst snd]. destruct o; reflexivity.
Qed.

Lemma optrack_dac_view dm na nd st o e0 dl :
  optrack_dac o (view na nd e0 st) (view na nd (snd (step dm st o)) (fst (step dm st o))) dl = ptrack_dac dm st o dl.
Proof.
  unfold optrack_dac, ptrack_dac. destruct (step dm st o) as [st' e]. cbn [fst snd]. destruct o; reflexivity.
Qed.

Lemma perdev_obs_awg_view dm cl dl st na nd e :
  nodupN (keys (regs st)) = true -> (forall a, nodupN (keys (a_progs (awg_of st a))) = true) ->
  (forall n a, is_lost cl n = false -> memNN (n, a) dl = false -> clean_at dm st n a) ->
  perdev_obs_awg dm cl dl (view na nd e st) = true.
Proof.
  intros A B H. unfold perdev_obs_awg. cbn [view o_chmap o_regs o_awgs].
  apply forall_idx_view. intros a. apply andb_true_iff. split.
  - apply forallb_forall. intros [n en] Hin. cbn [fst snd].
    destruct (is_lost cl n) eqn:Hl; auto. cbn [orb]. destruct (memNN (n, a) dl) eqn:Hd; auto. cbn [orb].
    destruct (H n a Hl Hd) as [C1 _].
    destruct (C1 en (In_lookup _ _ _ (B a) Hin)) as [r [Lr [U Eo]]]. rewrite Lr, U, Eo. auto.
  - apply forallb_forall. intros [n r] Hin. cbn [fst snd].
    destruct (is_lost cl n) eqn:Hl; auto. cbn [orb]. destruct (memNN (n, a) dl) eqn:Hd; auto. cbn [orb].
    destruct (H n a Hl Hd) as [_ [C2 C3]]. pose proof (In_lookup _ _ _ A Hin) as Lr.
    rewrite (C3 r Lr), eqb_same, andb_true_r.
    destruct (uses_awg (chmap st) (r_chans r) a) eqn:U; auto. cbn [negb orb]. apply (C2 r Lr U).
Qed.

Lemma perdev_obs_dac_view cl dl st na nd e :
  nodupN (keys (regs st)) = true -> (forall d, nodupN (keys (d_wins (dac_of st d))) = true) ->
  (forall n d, is_lost cl n = false -> memNN (n, d) dl = false -> dclean_at st n d) ->
  perdev_obs_dac cl dl (view na nd e st) = true.
Proof.
  intros A B H. unfold perdev_obs_dac. cbn [view o_mmap o_regs o_dacs].
  apply forall_idx_view. intros d. apply andb_true_iff. split.
  - apply forallb_forall. intros [n w] Hin. cbn [fst snd].
    destruct (is_lost cl n) eqn:Hl; auto. cbn [orb]. destruct (memNN (n, d) dl) eqn:Hd; auto. cbn [orb].
    destruct (H n d Hl Hd) as [C1 _].
    destruct (C1 w (In_lookup _ _ _ (B d) Hin)) as [r [Lr [U Eo]]]. rewrite Lr, U, Eo. auto.
  - apply forallb_forall. intros [n r] Hin. cbn [fst snd].
    destruct (is_lost cl n) eqn:Hl; auto. cbn [orb]. destruct (memNN (n, d) dl) eqn:Hd; auto. cbn [orb].
    destruct (H n d Hl Hd) as [_ [C2 C3]]. pose proof (In_lookup _ _ _ A Hin) as Lr.
    rewrite (C3 r Lr), eqb_same, andb_true_r.
    destruct (uses_dac (mmap st) (r_meas r) d) eqn:U; auto. cbn [negb orb]. apply (C2 r Lr U).
Qed.

Lemma run_cons dm st o h : run dm st (o :: h) = run dm (fst (step dm st o)) h.
Proof. reflexivity. Qed.

Lemma prun_app dm : forall h st dl h', prun dm st dl (h ++ h') = prun dm (run dm st h) (prun dm st dl h) h'.
Proof. induction h as [|o h IH]; intros st dl h'; [reflexivity|]. cbn [app prun]. rewrite run_cons. apply IH. Qed.

Lemma prun_dac_app dm : forall h st dl h',
  prun_dac dm st dl (h ++ h') = prun_dac dm (run dm st h) (prun_dac dm st dl h) h'.
Proof. induction h as [|o h IH]; intros st dl h'; [reflexivity|]. cbn [app prun_dac]. rewrite run_cons. apply IH. Qed.

(* the per-device clauses accept the model's view after every history *)
Lemma perdev_obs_histories dm h na nd e :
  let t := trun dm tinit h in
  perdev_obs_awg dm (t_awg t) (prun dm init_state [] h) (view na nd e (t_st t)) = true
  /\ perdev_obs_dac (t_dac t) (prun_dac dm init_state [] h) (view na nd e (t_st t)) = true.
Proof.
  intros t. pose proof (framed_awg_histories dm h) as [A [B _]]. pose proof (framed_dac_histories dm h) as [Bd _].
  fold t in A, B, Bd. split.
  - apply perdev_obs_awg_view; auto. intros n a Hl Hd. apply clean_at_histories; auto.
  - apply perdev_obs_dac_view; auto. intros n d Hl Hd. apply dclean_at_histories; auto.
Qed.

Lemma fspec_model dm na nd : forall r h e0,
  forallb op_wf (h ++ r) = true ->
  bench_ok dm na nd (t_st (trun dm tinit h)) r = true ->
  fspec_steps dm (t_awg (trun dm tinit h)) (t_dac (trun dm tinit h)) (prun dm init_state [] h) (prun_dac dm init_state [] h)
              (view na nd e0 (t_st (trun dm tinit h))) (model_steps dm na nd (t_st (trun dm tinit h)) r) = true.
Proof.
  induction r as [|o r IH]; intros h e0 Hw Hb; [reflexivity|].
  cbn [model_steps fspec_steps]. cbn [bench_ok] in Hb. apply andb_true_iff in Hb as [Hb1 Hb2].
  set (t := trun dm tinit h) in *. set (st := t_st t) in *.
  rewrite otrack_awg_view, otrack_dac_view, optrack_awg_view, optrack_dac_view.
  assert (forallb op_wf h = true /\ op_wf o = true /\ forallb op_wf ((h ++ [o]) ++ r) = true) as [Hwh [Hwo Hw']].
  { rewrite <- app_assoc. cbn [app]. rewrite forallb_app in Hw. apply andb_true_iff in Hw as [H1 H2]. cbn in H2.
    apply andb_true_iff in H2 as [H2 H3]. repeat split; auto. rewrite forallb_app. cbn. rewrite H1, H2, H3. auto. }
  pose proof (tstep_app dm h o) as Happ. fold t in Happ.
  assert (t_st (trun dm tinit (h ++ [o])) = fst (step dm st o)) as Est by (rewrite Happ; reflexivity).
  assert (t_awg (trun dm tinit (h ++ [o])) = track_awg dm st o (t_awg t)) as Eta by (rewrite Happ; reflexivity).
  assert (t_dac (trun dm tinit (h ++ [o])) = track_dac dm st o (t_dac t)) as Etd by (rewrite Happ; reflexivity).
  assert (st = run dm init_state h) as Erun by (unfold st, t; rewrite t_st_run; reflexivity).
  assert (prun dm init_state [] (h ++ [o]) = ptrack_awg dm st o (prun dm init_state [] h)) as Epa.
  { rewrite prun_app, Erun. reflexivity. }
  assert (prun_dac dm init_state [] (h ++ [o]) = ptrack_dac dm st o (prun_dac dm init_state [] h)) as Epd.
  { rewrite prun_dac_app, Erun. reflexivity. }
  pose proof (bench_regs na nd _ Hb1) as Hrange.
  destruct (framed_obs_histories dm (h ++ [o]) na nd (snd (step dm st o))) as [FA FD].
  { rewrite Est. exact Hrange. }
  destruct (perdev_obs_histories dm (h ++ [o]) na nd (snd (step dm st o))) as [PA PD].
  rewrite Est, Eta in FA. rewrite Est, Etd in FD. rewrite Est, Eta, Epa in PA. rewrite Est, Etd, Epd in PD.
  specialize (IH (h ++ [o]) (snd (step dm st o)) Hw'). rewrite Est, Eta, Etd, Epa, Epd in IH. specialize (IH Hb2).
  cbn [view o_err]. destruct (snd (step dm st o)) as [e|] eqn:Es.
  - rewrite FA, FD, PA, PD, IH. auto.
  - destruct (fpost_model dm h na nd Hwh o e0 Hwo Es) as [P1 P2].
    { intros n r0 L a Ha. apply (Hrange n r0 L). auto. }
    cbn zeta in P1, P2. fold t in P1, P2. fold st in P1, P2. rewrite P1, P2, FA, FD, PA, PD, IH. auto.
Qed.

(* Corr.check_framed accepts the model's own trace of every history of well-formed operations on a bench that contains
   every recorded device *)
Theorem check_framed_accepts_model dl nd h :
  forallb op_wf h = true ->
  bench_ok (dims_of dl) (length dl) nd init_state h = true ->
  check_framed (CHist dl nd (model_steps (dims_of dl) (length dl) nd init_state h)) = true.
Proof.
  intros Hw Hb. cbn [check_framed]. exact (fspec_model (dims_of dl) (length dl) nd h [] None Hw Hb).
Qed.


(* non-vacuity: a history with a covered name (re-wired after registration), update re-registration, arm, run,
   update_parameters, remove and clear satisfies both hypotheses *)
Definition post_example_dl : list (Z * Z) := [(2%Z, 1%Z); (2%Z, 1%Z)].
Definition post_example_history : list op :=
  restore_history ++ [OArm 0; OUpdateParams 0 5; restore_update; ORun 0; OUpdateParams 0 6; ORemove 0; OClear].

Lemma post_example :
  forallb op_wf post_example_history = true
  /\ bench_ok (dims_of post_example_dl) 2 2 init_state post_example_history = true
  /\ is_cov (t_awg (trun (dims_of post_example_dl) tinit restore_history)) 0%N = true
  /\ check_framed (CHist post_example_dl 2 (model_steps (dims_of post_example_dl) 2 2 init_state post_example_history)) = true.
Proof.
  assert (forallb op_wf post_example_history = true) as H1 by (vm_compute; reflexivity).
  assert (bench_ok (dims_of post_example_dl) 2 2 init_state post_example_history = true) as H2 by (vm_compute; reflexivity).
  refine (conj H1 (conj H2 (conj _ (check_framed_accepts_model post_example_dl 2 post_example_history H1 H2)))).
  vm_compute; reflexivity.
Qed.
