(* C18 round 6 - the heap the setup's memory of taken measurements lives in (qupulse/hardware/setup.py,
   HardwareSetup._take_measurements, repair bc650d0).  Definitions only.
   A Loop object has a ghost identity `o` (never reused), an address `h_addr` (= id(), reused after death), the measurement
   windows attached to it right now (`h_att`: what get_measurement_windows(drop=True) returns and removes; a dictionary
   name -> (begins, lengths) in insertion order that grows by appending, the root-level add_measurements) and the ghost
   list `h_own` of everything that was ever attached to it (only HAttach appends to it).  `table` is _taken_measurements:
   address -> (referent of the weak reference, windows).  `HDie o pop`: the object dies; pop = the weak reference callback
   `store.pop(key, None)` ran (the theorems hold for either value, i.e. also when the callback does not run or removes a
   stale entry).  `take` is _take_measurements line by line (remembered entry used iff its referent is this very object;
   stored only `if windows`).  The combined machine `cstep` runs Model.register_program on p_meas = what `take` returns,
   exactly when the call gets as far as _take_measurements (callable callback, all channels known, no `measurements=`). *)
From Coq Require Import List ZArith NArith QArith Bool Lia.
Import ListNotations.
Require Import QV.C18.Model.

Definition wdict := list (N * windows).
Definition wempty : windows := ([], []).
Definition wcat (a b : windows) : windows := (fst a ++ fst b, snd a ++ snd b).
Definition wget (n : N) (d : wdict) : windows := match lookup n d with Some w => w | None => wempty end.
Definition merge1 (d : wdict) (e : N * windows) : wdict := upsert (fst e) (wcat (wget (fst e) d) (snd e)) d.
Definition merge (a b : wdict) : wdict := fold_left merge1 b a.
Definition collect (ev : list (N * windows)) : wdict := fold_left merge1 ev [].

Record hobj := { h_addr : N; h_att : wdict; h_own : list (N * windows) }.
Record heap := { live : list (N * hobj); used : list N; table : list (N * (N * wdict)) }.
Definition heap0 : heap := {| live := []; used := []; table := [] |}.

Inductive hop :=
| HAlloc (o addr : N)
| HAttach (o : N) (e : N * windows)
| HTake (o : N)
| HDie (o : N) (pop : bool).

Definition addr_taken (hs : heap) (a : N) : bool := existsb (fun kv => N.eqb (h_addr (snd kv)) a) (live hs).

Definition take (hs : heap) (o : N) : heap * wdict :=
  match lookup o (live hs) with
  | None => (hs, [])
  | Some ob =>
      let taken := h_att ob in
      let key := h_addr ob in
      let ws := match lookup key (table hs) with
                | Some (r, w) => if N.eqb r o then merge w taken else taken
                | None => taken
                end in
      ({| live := upsert o {| h_addr := key; h_att := []; h_own := h_own ob |} (live hs);
          used := used hs;
          table := match ws with [] => table hs | _ :: _ => upsert key (o, ws) (table hs) end |}, ws)
  end.

Definition hstep (hs : heap) (x : hop) : heap :=
  match x with
  | HAlloc o a =>
      if memN o (used hs) || addr_taken hs a then hs
      else {| live := upsert o {| h_addr := a; h_att := []; h_own := [] |} (live hs); used := o :: used hs;
              table := table hs |}
  | HAttach o e =>
      match lookup o (live hs) with
      | None => hs
      | Some ob => {| live := upsert o {| h_addr := h_addr ob; h_att := merge1 (h_att ob) e; h_own := h_own ob ++ [e] |}
                                     (live hs);
                      used := used hs; table := table hs |}
      end
  | HTake o => fst (take hs o)
  | HDie o pop =>
      match lookup o (live hs) with
      | None => hs
      | Some ob => {| live := remove_key o (live hs); used := used hs;
                      table := if pop then remove_key (h_addr ob) (table hs) else table hs |}
      end
  end.

Definition hrun (h : list hop) : heap := fold_left hstep h heap0.

Inductive cop :=
| CHeap (x : hop)
| CModel (x : op)
| CRegObj (name o : N) (chans : list N) (cb : option N) (update : bool) (order : list N).

Definition reaches_take (cm : list (N * list sch)) (chans : list N) (cb : option N) : bool :=
  match cb with Some _ => forallb (fun c => has_key c cm) chans | None => false end.

Definition cstep (dm : dims) (s : heap * state) (c : cop) : heap * state :=
  match c with
  | CHeap x => (hstep (fst s) x, snd s)
  | CModel x => (fst s, fst (step dm (snd s) x))
  | CRegObj name o chans cb update order =>
      match lookup o (live (fst s)) with
      | None => s
      | Some _ =>
          if reaches_take (chmap (snd s)) chans cb
          then (fst (take (fst s) o),
                fst (register_program dm (snd s) name {| p_tag := o; p_chans := chans; p_meas := snd (take (fst s) o) |}
                                      cb update order))
          else (fst s, fst (register_program dm (snd s) name {| p_tag := o; p_chans := chans; p_meas := [] |}
                                             cb update order))
      end
  end.
Definition crun (dm : dims) (h : list cop) : heap * state := fold_left (cstep dm) h (heap0, init_state).
