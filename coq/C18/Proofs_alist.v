(* C18 — lemmas about association lists, membership and pointwise function update *)
From Coq Require Import List ZArith NArith Bool Lia.
Require Import QV.C18.Model.
Import ListNotations.

Lemma memN_In x l : memN x l = true <-> In x l.
Proof.
  unfold memN. rewrite existsb_exists. split.
  - intros [y [Hy E]]. apply N.eqb_eq in E. subst; auto.
  - intros H. exists x. split; auto. apply N.eqb_refl.
Qed.
Lemma memN_false x l : memN x l = false <-> ~ In x l.
Proof. rewrite <- memN_In. destruct (memN x l); split; congruence. Qed.

Lemma nodupN_NoDup l : nodupN l = true <-> NoDup l.
Proof.
  induction l as [|x l IH]; cbn.
  - split; auto using NoDup_nil.
  - rewrite andb_true_iff, negb_true_iff, memN_false, IH. split.
    + intros [A B]. constructor; auto.
    + intros H. inversion H; auto.
Qed.

Section AL.
  Context {V : Type}.
  Implicit Types (l : list (N * V)) (k : N) (v : V).

  Lemma lookup_upsert k k' v l : lookup k' (upsert k v l) = if N.eqb k' k then Some v else lookup k' l.
  Proof.
    induction l as [|[k0 v0] l IH]; cbn.
    - destruct (N.eqb k' k); auto.
    - destruct (N.eqb k k0) eqn:E; cbn.
      + apply N.eqb_eq in E. subst. destruct (N.eqb k' k0); auto.
      + destruct (N.eqb k' k0) eqn:E2; auto.
        apply N.eqb_eq in E2. subst. rewrite N.eqb_sym, E. auto.
  Qed.

  Lemma lookup_remove k k' l : lookup k' (remove_key k l) = if N.eqb k' k then None else lookup k' l.
  Proof.
    induction l as [|[k0 v0] l IH]; cbn.
    - destruct (N.eqb k' k); auto.
    - destruct (N.eqb k k0) eqn:E; cbn.
      + apply N.eqb_eq in E. subst. rewrite IH. destruct (N.eqb k' k0); auto.
      + rewrite IH. destruct (N.eqb k' k0) eqn:E2; auto.
        apply N.eqb_eq in E2. subst. rewrite N.eqb_sym, E. auto.
  Qed.

  Lemma has_key_upsert k k' v l : has_key k' (upsert k v l) = N.eqb k' k || has_key k' l.
  Proof. unfold has_key. rewrite lookup_upsert. destruct (N.eqb k' k); auto. Qed.
  Lemma has_key_remove k k' l : has_key k' (remove_key k l) = negb (N.eqb k' k) && has_key k' l.
  Proof. unfold has_key. rewrite lookup_remove. destruct (N.eqb k' k); auto. Qed.

  Lemma lookup_In k v l : lookup k l = Some v -> In (k, v) l.
  Proof.
    induction l as [|[k0 v0] l IH]; cbn; [discriminate|].
    destruct (N.eqb k k0) eqn:E.
    - apply N.eqb_eq in E. intros H. inversion H. subst. auto.
    - auto.
  Qed.

  Lemma In_has_key k v l : In (k, v) l -> has_key k l = true.
  Proof.
    unfold has_key. induction l as [|[k0 v0] l IH]; cbn; [tauto|].
    intros [H|H].
    - inversion H. subst. rewrite N.eqb_refl. auto.
    - destruct (N.eqb k k0); auto.
  Qed.

  Lemma In_keys k l : In k (keys l) <-> has_key k l = true.
  Proof.
    unfold keys. split.
    - intros H. apply in_map_iff in H as [[k0 v0] [E H]]. cbn in E. subst. eapply In_has_key; eauto.
    - unfold has_key. destruct (lookup k l) eqn:E; [|discriminate]. intros _.
      apply lookup_In in E. apply in_map_iff. exists (k, v). auto.
  Qed.

  Lemma In_lookup k v l : nodupN (keys l) = true -> In (k, v) l -> lookup k l = Some v.
  Proof.
    induction l as [|[k0 v0] l IH]; cbn; [tauto|].
    rewrite andb_true_iff, negb_true_iff, memN_false. intros [Hn Hd] [H|H].
    - inversion H. subst. rewrite N.eqb_refl. auto.
    - destruct (N.eqb k k0) eqn:E.
      + apply N.eqb_eq in E. subst. exfalso. apply Hn. apply In_keys. eapply In_has_key; eauto.
      + auto.
  Qed.

  Lemma keys_upsert_In k v l x : In x (keys (upsert k v l)) <-> x = k \/ In x (keys l).
  Proof.
    rewrite !In_keys, has_key_upsert, orb_true_iff, N.eqb_eq. tauto.
  Qed.

  Lemma nodup_upsert k v l : nodupN (keys l) = true -> nodupN (keys (upsert k v l)) = true.
  Proof.
    induction l as [|[k0 v0] l IH]; cbn; auto.
    rewrite andb_true_iff, negb_true_iff. intros [Hn Hd].
    destruct (N.eqb k k0) eqn:E; cbn.
    - apply N.eqb_eq in E. subst. rewrite Hn, Hd. auto.
    - change (map fst (upsert k v l)) with (keys (upsert k v l)).
      rewrite IH by auto. rewrite andb_true_r, negb_true_iff.
      apply memN_false. rewrite keys_upsert_In. apply memN_false in Hn.
      intros [->|H]; [rewrite N.eqb_refl in E; discriminate|auto].
  Qed.

  Lemma keys_remove_In k l x : In x (keys (remove_key k l)) <-> x <> k /\ In x (keys l).
  Proof.
    rewrite !In_keys, has_key_remove, andb_true_iff, negb_true_iff, N.eqb_neq. tauto.
  Qed.

  Lemma nodup_remove k l : nodupN (keys l) = true -> nodupN (keys (remove_key k l)) = true.
  Proof.
    induction l as [|[k0 v0] l IH]; cbn; auto.
    rewrite andb_true_iff, negb_true_iff. intros [Hn Hd].
    destruct (N.eqb k k0) eqn:E; cbn; auto.
    change (map fst (remove_key k l)) with (keys (remove_key k l)).
    rewrite IH by auto. rewrite andb_true_r, negb_true_iff.
    apply memN_false. rewrite keys_remove_In. apply memN_false in Hn. tauto.
  Qed.

  (* entries of an updated list, for lists with distinct keys *)
  Lemma In_upsert k v l k' v' : nodupN (keys l) = true ->
    In (k', v') (upsert k v l) -> (k' = k /\ v' = v) \/ (k' <> k /\ In (k', v') l).
  Proof.
    intros Hd H. pose proof (nodup_upsert k v l Hd) as Hd'.
    apply (In_lookup _ _ _ Hd') in H. rewrite lookup_upsert in H.
    destruct (N.eqb k' k) eqn:E.
    - apply N.eqb_eq in E. inversion H. auto.
    - apply N.eqb_neq in E. right. split; auto. apply lookup_In; auto.
  Qed.

  Lemma In_remove k l k' v' : nodupN (keys l) = true ->
    In (k', v') (remove_key k l) -> k' <> k /\ In (k', v') l.
  Proof.
    intros Hd H. pose proof (nodup_remove k l Hd) as Hd'.
    apply (In_lookup _ _ _ Hd') in H. rewrite lookup_remove in H.
    destruct (N.eqb k' k) eqn:E; [discriminate|].
    apply N.eqb_neq in E. split; auto. apply lookup_In; auto.
  Qed.

  Lemma remove_absent k l : has_key k l = false -> remove_key k l = l.
  Proof.
    unfold has_key. induction l as [|[k0 v0] l IH]; cbn; auto.
    destruct (N.eqb k k0) eqn:E; [discriminate|]. intros H. rewrite IH; auto.
  Qed.
End AL.

Lemma upd_same {V} (f : N -> V) k v : upd f k v k = v.
Proof. unfold upd. rewrite N.eqb_refl. auto. Qed.
Lemma upd_other {V} (f : N -> V) k v x : x <> k -> upd f k v x = f x.
Proof. unfold upd. intros H. apply N.eqb_neq in H. rewrite H. auto. Qed.

(* folding an idempotent pointwise update over a list of keys *)
Lemma fold_upd_pointwise {V} (g : N -> V -> V) (keep : N -> bool) (l : list N) :
  (forall a v, g a (g a v) = g a v) ->
  forall (f : N -> V) x,
    fold_left (fun f a => if keep a then f else upd f a (g a (f a))) l f x
    = if memN x l && negb (keep x) then g x (f x) else f x.
Proof.
  intros Hg. induction l as [|a l IH]; intros f x; cbn; auto.
  rewrite IH. destruct (N.eqb x a) eqn:E.
  - apply N.eqb_eq in E. subst a. cbn. destruct (keep x) eqn:K.
    + rewrite andb_false_r. auto.
    + rewrite upd_same. cbn. rewrite andb_true_r. destruct (memN x l); cbn; auto.
  - cbn. assert (x <> a) by (apply N.eqb_neq; auto).
    destruct (keep a); auto. rewrite upd_other by auto. auto.
Qed.

Lemma existsb_ext_in {A} (f g : A -> bool) l : (forall x, In x l -> f x = g x) -> existsb f l = existsb g l.
Proof.
  induction l as [|x l IH]; cbn; auto. intros H. rewrite (H x), IH; auto.
Qed.
Lemma forallb_ext_in {A} (f g : A -> bool) l : (forall x, In x l -> f x = g x) -> forallb f l = forallb g l.
Proof.
  induction l as [|x l IH]; cbn; auto. intros H. rewrite (H x), IH; auto.
Qed.
