(* C18 round 5 - the "disarms all other generators" clause for EVERY generator (wired or not), under the guard *)
From Coq Require Import List ZArith NArith QArith Bool Lia.
Require Import QV.C18.Model QV.C18.Spec QV.C18.Proofs_alist QV.C18.Proofs_route QV.C18.Proofs_inv QV.C18.Proofs.
Import ListNotations.

(* under the routing invariant a generator that is not wired is not armed *)
Lemma unwired_not_armed dm st a :
  routing_inv_awg dm st -> memN a (known_awgs (chmap st)) = false -> a_armed (awg_of st a) = None.
Proof.
  intros [_ [Hex [_ Harm]]] K. specialize (Hex a). specialize (Harm a).
  apply awg_exact_iff in Hex as [_ [B _]].
  unfold awg_armed_ok in Harm. destruct (a_armed (awg_of st a)) as [n|] eqn:A; auto.
  unfold has_key in Harm. destruct (lookup n (a_progs (awg_of st a))) as [e|] eqn:E; [|discriminate].
  destruct (B _ _ (lookup_In _ _ _ E)) as [r [_ [U _]]].
  rewrite (uses_known _ _ _ U) in K. discriminate.
Qed.

Lemma arm_exact_awg dm h name st' :
  guard_C18_rewire dm init_state h = true ->
  arm_program (run dm init_state h) name = (st', None) ->
  exists r, lookup name (regs st') = Some r
            /\ forall a, a_armed (awg_of st' a)
                         = if uses_awg (chmap st') (r_chans r) a then Some name else None.
Proof.
  intros G H. pose proof (inv_awg_histories dm h G) as Hinv. set (st := run dm init_state h) in *.
  unfold arm_program in H. destruct (lookup name (regs st)) as [r|] eqn:L; [|discriminate].
  inversion H; subst st'; clear H. exists r. split; auto. intros a.
  pose proof (unwired_not_armed dm st a Hinv) as Hun.
  destruct Hinv as [_ [_ [Hrec _]]].
  set (g := fun (a : N) (v : awg_st) =>
              {| a_progs := a_progs v; a_armed := if memN a (r_awgs r) then Some name else None |}).
  assert (awg_of (arm_devices st name r) a
          = if memN a (known_awgs (chmap st)) then g a (awg_of st a) else awg_of st a) as Hpt.
  { unfold arm_devices. cbn.
    pose proof (fold_upd_pointwise g (fun _ => false) (known_awgs (chmap st)) (fun _ _ => eq_refl) (awg_of st) a) as P.
    cbn in P. rewrite andb_true_r in P. exact P. }
  rewrite Hpt. change (chmap (arm_devices st name r)) with (chmap st).
  rewrite <- (Hrec _ _ L a).
  destruct (memN a (known_awgs (chmap st))) eqn:K.
  - unfold g. cbn. reflexivity.
  - rewrite (Hun eq_refl).
    destruct (memN a (r_awgs r)) eqn:M; auto.
    rewrite (Hrec _ _ L a) in M. rewrite (uses_known _ _ _ M) in K. discriminate.
Qed.

(* non-vacuity: the hypotheses hold for a guarded history (two wired generators, program 0 on both, then updated onto
   generator 0 only); after arm_program generator 0 is armed with the name, generator 1 (wired, not used any more) and
   generator 7 (never wired) are not armed *)
Definition arm_exact_history : list op := firstn 5 guard_example_history ++ [ORemove 7].
Lemma arm_exact_example :
  guard_C18_rewire rewire_dims init_state arm_exact_history = true
  /\ snd (arm_program (run rewire_dims init_state arm_exact_history) 0%N) = None
  /\ map (fun a => a_armed (awg_of (fst (arm_program (run rewire_dims init_state arm_exact_history) 0%N)) a)) [0%N; 1%N; 7%N]
     = [Some 0%N; None; None].
Proof. vm_compute. auto. Qed.
