(* C18 — acquisition-device side of the framed invariant: EVERY history (no guard), per program name with its status
   clean / covered / lost (Spec.v, "Round 2").  Mirror of Proofs_frame_awg.v. *)
From Coq Require Import List ZArith NArith QArith Bool Lia.
Require Import QV.C18.Model QV.C18.Spec QV.C18.Proofs_alist QV.C18.Proofs_dacroute QV.C18.Proofs_dacinv
               QV.C18.Proofs_frame_awg.
Import ListNotations.

(* ---- wiring that reaches the same (device, mask) pairs ------------------------------------------------------------ *)
Lemma existsb_route (f : mask -> bool) l l' :
  (forall a b, mask_route_eqb a b = true -> f a = f b) ->
  same_members mask_route_eqb l l' = true -> existsb f l = existsb f l'.
Proof.
  intros Hf. unfold same_members. rewrite andb_true_iff, !forallb_forall. intros [A B].
  apply eq_true_iff_eq. rewrite !existsb_exists. split; intros [x [Hx E]].
  - apply A in Hx. apply existsb_exists in Hx as [y [Hy R]]. exists y. split; auto. rewrite <- (Hf _ _ R). auto.
  - apply B in Hx. apply existsb_exists in Hx as [y [Hy R]]. exists y. split; auto. rewrite <- (Hf _ _ R). auto.
Qed.
Lemma forallb_route (f : mask -> bool) l l' :
  (forall a b, mask_route_eqb a b = true -> f a = f b) ->
  same_members mask_route_eqb l l' = true -> forallb f l = forallb f l'.
Proof.
  intros Hf. unfold same_members. rewrite andb_true_iff, !forallb_forall. intros [A B].
  apply eq_true_iff_eq. rewrite !forallb_forall. split; intros H y Hy.
  - apply B in Hy. apply existsb_exists in Hy as [x [Hx R]]. rewrite (Hf _ _ R). auto.
  - apply A in Hy. apply existsb_exists in Hy as [x [Hx R]]. rewrite (Hf _ _ R). auto.
Qed.
Lemma mask_route_refl a : mask_route_eqb a a = true.
Proof. unfold mask_route_eqb. rewrite !N.eqb_refl. auto. Qed.
Lemma same_members_route_refl l : same_members mask_route_eqb l l = true.
Proof.
  unfold same_members. rewrite andb_true_iff, !forallb_forall.
  split; intros x Hx; apply existsb_exists; exists x; split; auto using mask_route_refl.
Qed.
Lemma route_fields a b : mask_route_eqb a b = true -> m_dac a = m_dac b /\ m_name a = m_name b.
Proof. unfold mask_route_eqb. rewrite andb_true_iff, !N.eqb_eq. auto. Qed.

Section Members.
  Variables (mm mm' : list (N * list mask)) (meas : list (N * windows)).
  Hypothesis Hm : forall nw, In nw meas ->
    same_members mask_route_eqb (get_set (fst nw) mm') (get_set (fst nw) mm) = true.

  Lemma uses_dac_m d : uses_dac mm' meas d = uses_dac mm meas d.
  Proof.
    unfold uses_dac. apply existsb_ext_in. intros nw Hnw. apply existsb_route; auto.
    intros a b R. apply route_fields in R as [-> _]. auto.
  Qed.

  Lemma dac_entry_ok_m d wins : dac_entry_ok mm' meas d wins = dac_entry_ok mm meas d wins.
  Proof.
    unfold dac_entry_ok. f_equal; [f_equal|].
    - apply forallb_ext_in. intros kw _. unfold mask_ok. apply existsb_ext_in. intros nw Hnw. f_equal.
      apply existsb_route; auto. intros a b R. apply route_fields in R as [-> ->]. auto.
    - apply forallb_ext_in. intros nw Hnw. apply forallb_route; auto.
      intros a b R. apply route_fields in R as [-> ->]. auto.
  Qed.
End Members.

(* ---- the invariant, name by name ---------------------------------------------------------------------------------- *)
Definition dclean_ok (st : state) (n : N) : Prop :=
  (forall d w, lookup n (d_wins (dac_of st d)) = Some w ->
     exists r, lookup n (regs st) = Some r /\ uses_dac (mmap st) (r_meas r) d = true
               /\ dac_entry_ok (mmap st) (r_meas r) d w = true)
  /\ (forall d r, lookup n (regs st) = Some r -> uses_dac (mmap st) (r_meas r) d = true ->
        has_key n (d_wins (dac_of st d)) = true)
  /\ (forall r, lookup n (regs st) = Some r -> forall d, memN d (r_dacs r) = uses_dac (mmap st) (r_meas r) d).
Definition dcov_ok (st : state) (n : N) : Prop :=
  exists r, lookup n (regs st) = Some r /\ forall d, has_key n (d_wins (dac_of st d)) = memN d (r_dacs r).
Definition darmed_ok (st : state) (n : N) : Prop :=
  forall d, d_armed (dac_of st d) = Some n -> has_key n (d_wins (dac_of st d)) = true.
Definition dglob (st : state) : Prop := forall d, nodupN (keys (d_wins (dac_of st d))) = true.

Lemma dframed_iff cl st :
  framed_inv_dac cl st <->
  dglob st /\ (forall n, is_clean cl n = true -> dclean_ok st n) /\ (forall n, is_cov cl n = true -> dcov_ok st n)
  /\ (forall n, is_lost cl n = false -> darmed_ok st n).
Proof.
  unfold framed_inv_dac, dglob, dclean_ok, dcov_ok, darmed_ok. split.
  - intros [A [B [C [D [E F]]]]]. repeat split; eauto.
  - intros [A [C [D E]]]. split; auto. split; [|split; [|split; [|split]]]; auto.
    + intros d n w Hc. apply (C n Hc).
    + intros d n r Hc. apply (C n Hc).
    + intros n r Hc. apply (C n Hc).
Qed.

Definition dexact_holders (st : state) (n : N) : Prop :=
  match lookup n (regs st) with
  | Some r => forall d, has_key n (d_wins (dac_of st d)) = memN d (r_dacs r)
  | None => forall d, has_key n (d_wins (dac_of st d)) = false
  end.

Lemma dclean_holders st n : dclean_ok st n -> dexact_holders st n.
Proof.
  intros [A [B C]]. unfold dexact_holders. destruct (lookup n (regs st)) as [r|] eqn:L.
  - intros d. rewrite (C r eq_refl d). destruct (uses_dac (mmap st) (r_meas r) d) eqn:U.
    + eapply B; eauto.
    + unfold has_key. destruct (lookup n (d_wins (dac_of st d))) as [w|] eqn:E; auto.
      destruct (A _ _ E) as [r0 [L0 [U0 _]]]. congruence.
  - intros d. unfold has_key. destruct (lookup n (d_wins (dac_of st d))) as [w|] eqn:E; auto.
    destruct (A _ _ E) as [r0 [L0 _]]. congruence.
Qed.
Lemma dcov_holders st n : dcov_ok st n -> dexact_holders st n.
Proof. intros [r [L H]]. unfold dexact_holders. rewrite L. auto. Qed.

Lemma dnotlost_holders cl st n : framed_inv_dac cl st -> is_lost cl n = false -> dexact_holders st n.
Proof.
  intros H Hl. apply dframed_iff in H as [_ [C [D _]]].
  destruct (status_cases _ _ Hl) as [Hc|Hc]; [eapply dclean_holders; eauto | eapply dcov_holders; eauto].
Qed.

(* ---- frame -------------------------------------------------------------------------------------------------------- *)
Lemma dframe_name st st' n :
  mmap st' = mmap st -> lookup n (regs st') = lookup n (regs st) ->
  (forall d, lookup n (d_wins (dac_of st' d)) = lookup n (d_wins (dac_of st d))) ->
  (dclean_ok st n -> dclean_ok st' n) /\ (dcov_ok st n -> dcov_ok st' n).
Proof.
  intros Hc Hr Hp. unfold dclean_ok, dcov_ok, has_key. rewrite Hc, Hr. split.
  - intros [A [B C]]. split; [|split]; auto.
    + intros d w. rewrite Hp. apply A.
    + intros d r L U. rewrite Hp. eapply B; eauto.
  - intros [r [L H]]. exists r. split; auto. intros d. rewrite Hp. apply H.
Qed.

Lemma dframe_armed st st' n :
  (forall d, lookup n (d_wins (dac_of st' d)) = lookup n (d_wins (dac_of st d))) ->
  (forall d, d_armed (dac_of st' d) = Some n -> d_armed (dac_of st d) = Some n) ->
  darmed_ok st n -> darmed_ok st' n.
Proof. intros Hp Ha H d E. unfold has_key. rewrite Hp. apply H. auto. Qed.

Lemma dinv_same cl st st' :
  mmap st' = mmap st -> regs st' = regs st -> dac_of st' = dac_of st ->
  framed_inv_dac cl st -> framed_inv_dac cl st'.
Proof. intros A B C. unfold framed_inv_dac. rewrite A, B, C. auto. Qed.

Lemma In_users_meas rg nm n : In n (users_meas rg nm) <-> exists r, In (n, r) rg /\ has_key nm (r_meas r) = true.
Proof.
  unfold users_meas. rewrite in_map_iff. split.
  - intros [[n0 r] [E H]]. cbn in E. subst. apply filter_In in H as [H1 H2]. eauto.
  - intros [r [H1 H2]]. exists (n, r). split; auto. apply filter_In. auto.
Qed.

Lemma armed_delete v name n : d_armed (dac_delete v name) = Some n -> d_armed v = Some n /\ n <> name.
Proof.
  unfold dac_delete. cbn. destruct (d_armed v) as [k|]; [|discriminate].
  destruct (N.eqb k name) eqn:E; [discriminate|]. intros H. inversion H. subst. apply N.eqb_neq in E. auto.
Qed.

(* ---- re-wiring of a measurement name ------------------------------------------------------------------------------ *)
Lemma dclean_ok_wiring st st' n :
  regs st' = regs st -> dac_of st' = dac_of st ->
  (forall r, lookup n (regs st) = Some r -> forall nw, In nw (r_meas r) ->
     same_members mask_route_eqb (get_set (fst nw) (mmap st')) (get_set (fst nw) (mmap st)) = true) ->
  dclean_ok st n -> dclean_ok st' n.
Proof.
  intros Hr Ha Hm [A [B C]]. unfold dclean_ok. rewrite Hr, Ha. split; [|split].
  - intros d w E. destruct (A _ _ E) as [r [L [U Eo]]]. exists r. split; auto.
    rewrite (uses_dac_m (mmap st) (mmap st') (r_meas r) (Hm r L)).
    rewrite (dac_entry_ok_m (mmap st) (mmap st') (r_meas r) (Hm r L)). auto.
  - intros d r L U. rewrite (uses_dac_m (mmap st) (mmap st') (r_meas r) (Hm r L)) in U. eapply B; eauto.
  - intros r L d. rewrite (uses_dac_m (mmap st) (mmap st') (r_meas r) (Hm r L)). auto.
Qed.

Lemma drewire_gen st st' nm cov lost :
  nodupN (keys (regs st)) = true ->
  regs st' = regs st -> dac_of st' = dac_of st ->
  (forall c, c <> nm -> get_set c (mmap st') = get_set c (mmap st)) ->
  framed_inv_dac (cov, lost) st ->
  framed_inv_dac (if same_members mask_route_eqb (get_set nm (mmap st)) (get_set nm (mmap st'))
                  then (cov, lost) else (users_meas (regs st) nm ++ cov, lost)) st'.
Proof.
  intros G1 Hr Ha Hc Hinv. apply dframed_iff in Hinv as [G2 [C [D E]]].
  assert (forall n, darmed_ok st n -> darmed_ok st' n) as Harm.
  { intros n H. unfold darmed_ok. rewrite Ha. auto. }
  assert (forall n, dcov_ok st n -> dcov_ok st' n) as Hcov.
  { intros n H. unfold dcov_ok. rewrite Hr, Ha. auto. }
  destruct (same_members mask_route_eqb (get_set nm (mmap st)) (get_set nm (mmap st'))) eqn:S.
  - apply dframed_iff. split; [unfold dglob; rewrite Ha; auto|]. split; [|split]; auto.
    intros n Hn. apply (dclean_ok_wiring st st'); auto.
    intros r L nw Hin. destruct (N.eq_dec (fst nw) nm) as [->|Hne].
    + unfold same_members in *. rewrite andb_comm. exact S.
    + rewrite Hc; auto. apply same_members_route_refl.
  - apply dframed_iff. split; [unfold dglob; rewrite Ha; auto|]. split; [|split].
    + intros n Hn. unfold is_clean in Hn. cbn [fst snd] in Hn. rewrite memN_app in Hn.
      apply andb_true_iff in Hn as [Hn1 Hn2]. apply negb_true_iff, orb_false_iff in Hn1 as [Hu Hcv].
      assert (is_clean (cov, lost) n = true) as Hcl by (unfold is_clean; cbn [fst snd]; rewrite Hcv, Hn2; auto).
      apply (dclean_ok_wiring st st'); auto.
      intros r L nw Hin. rewrite Hc; [apply same_members_route_refl|]. intros E0.
      apply memN_false in Hu. apply Hu. apply In_users_meas. exists r. split; [apply lookup_In; auto|].
      destruct nw as [k w]. cbn in E0. subst k. eapply In_has_key; eauto.
    + intros n Hn. unfold is_cov in Hn. cbn [fst snd] in Hn. rewrite memN_app in Hn.
      apply andb_true_iff in Hn as [Hn1 Hn2].
      destruct (memN n cov) eqn:Mc.
      * apply Hcov, D. unfold is_cov. cbn [fst snd]. rewrite Mc, Hn2. auto.
      * rewrite orb_false_r in Hn1. apply memN_In, In_users_meas in Hn1 as [r [Hin _]].
        assert (is_clean (cov, lost) n = true) as Hcl by (unfold is_clean; cbn [fst snd]; rewrite Mc, Hn2; auto).
        pose proof (dclean_holders st n (C n Hcl)) as He. unfold dexact_holders in He.
        rewrite (In_lookup _ _ _ G1 Hin) in He. apply Hcov. exists r. split; auto. apply In_lookup; auto.
    + intros n Hn. apply Harm, E. exact Hn.
Qed.

(* ---- remove ------------------------------------------------------------------------------------------------------ *)
Lemma dremove_case st name st' e cov lost :
  remove_program st name = (st', e) -> framed_inv_dac (cov, lost) st ->
  framed_inv_dac (filter_out name cov, lost) st'.
Proof.
  intros H Hinv. pose proof Hinv as Hinv0. apply dframed_iff in Hinv as [G2 [C [D E]]].
  unfold remove_program in H. destruct (lookup name (regs st)) as [r|] eqn:L.
  - inversion H; subst; clear H.
    assert (forall x, fold_left (fun dc d => upd dc d (dac_delete (dc d) name)) (r_dacs r) (dac_of st) x
                      = if memN x (r_dacs r) then dac_delete (dac_of st x) name else dac_of st x) as Hpt.
    { intros x.
      pose proof (fold_upd_pointwise (fun _ v => dac_delete v name) (fun _ => false) (r_dacs r)
                                     (fun _ v => dac_delete_idem name v) (dac_of st) x) as P.
      cbn in P. rewrite andb_true_r in P. exact P. }
    match goal with |- framed_inv_dac _ ?s => set (st' := s) end.
    assert (forall x, dac_of st' x = if memN x (r_dacs r) then dac_delete (dac_of st x) name else dac_of st x) as Hpt'
      by (intros x; unfold st'; cbn [dac_of]; apply Hpt).
    assert (forall n d, n <> name -> lookup n (d_wins (dac_of st' d)) = lookup n (d_wins (dac_of st d))) as Hp.
    { intros n d Hne. rewrite Hpt'. destruct (memN d (r_dacs r)); auto.
      unfold dac_delete. cbn [d_wins]. rewrite lookup_remove. apply N.eqb_neq in Hne. rewrite Hne. auto. }
    assert (forall n d, d_armed (dac_of st' d) = Some n -> d_armed (dac_of st d) = Some n) as Har.
    { intros n d. rewrite Hpt'. destruct (memN d (r_dacs r)); auto. intros Hd. apply armed_delete in Hd. tauto. }
    assert (forall n, n <> name -> lookup n (regs st') = lookup n (regs st)) as Hrg.
    { intros n Hne. unfold st'. cbn [regs]. rewrite lookup_remove. apply N.eqb_neq in Hne. rewrite Hne. auto. }
    assert (is_lost (cov, lost) name = false -> forall d, has_key name (d_wins (dac_of st' d)) = false) as Hgone.
    { intros Hl d. rewrite Hpt'. destruct (memN d (r_dacs r)) eqn:M.
      - unfold dac_delete. cbn [d_wins]. rewrite has_key_remove, N.eqb_refl. auto.
      - pose proof (dnotlost_holders _ _ _ Hinv0 Hl) as He. unfold dexact_holders in He. rewrite L in He.
        rewrite He. auto. }
    apply dframed_iff. split; [|split; [|split]].
    + intros d. rewrite Hpt'. destruct (memN d (r_dacs r)); auto.
      unfold dac_delete. cbn [d_wins]. apply nodup_remove. auto.
    + intros n Hn. destruct (N.eq_dec n name) as [->|Hne].
      * unfold dclean_ok. split; [|split].
        -- intros d w0 E0. pose proof (Hgone (clean_not_lost _ _ Hn) d) as Hg. unfold has_key in Hg.
           rewrite E0 in Hg. discriminate.
        -- intros d r0 L0. unfold st' in L0. cbn [regs] in L0. rewrite lookup_remove, N.eqb_refl in L0. discriminate.
        -- intros r0 L0. unfold st' in L0. cbn [regs] in L0. rewrite lookup_remove, N.eqb_refl in L0. discriminate.
      * destruct (is_clean_filter_out_other cov lost name n Hne) as [Ec _]. rewrite Ec in Hn.
        apply (dframe_name st st' n); auto.
    + intros n Hn. destruct (N.eq_dec n name) as [->|Hne].
      * rewrite is_cov_filter_out_same in Hn. discriminate.
      * destruct (is_clean_filter_out_other cov lost name n Hne) as [_ Ec]. rewrite Ec in Hn.
        apply (dframe_name st st' n); auto.
    + intros n Hn. destruct (N.eq_dec n name) as [->|Hne].
      * intros d Ed. exfalso. rewrite Hpt' in Ed. destruct (memN d (r_dacs r)) eqn:M.
        -- apply armed_delete in Ed. tauto.
        -- pose proof (E name Hn d Ed) as Hk.
           pose proof (dnotlost_holders _ _ _ Hinv0 Hn) as He. unfold dexact_holders in He. rewrite L in He.
           rewrite He in Hk. congruence.
      * apply (dframe_armed st st' n); auto; apply E; exact Hn.
  - inversion H; subst; clear H. apply dframed_iff. split; auto. split; [|split].
    + intros n Hn. destruct (N.eq_dec n name) as [->|Hne].
      * pose proof (clean_not_lost _ _ Hn) as Hl.
        destruct (status_cases (cov, lost) name Hl) as [Hc|Hc]; auto.
        destruct (D _ Hc) as [r [Lr _]]. congruence.
      * destruct (is_clean_filter_out_other cov lost name n Hne) as [Ec _]. rewrite Ec in Hn. auto.
    + intros n Hn. destruct (N.eq_dec n name) as [->|Hne].
      * rewrite is_cov_filter_out_same in Hn. discriminate.
      * destruct (is_clean_filter_out_other cov lost name n Hne) as [_ Ec]. rewrite Ec in Hn. auto.
    + intros n Hn. apply E. exact Hn.
Qed.

(* ---- clear ------------------------------------------------------------------------------------------------------- *)
Definition dclear_lost (st : state) (cov lost : list N) : list N :=
  filter (fun n => match lookup n (regs st) with
                   | Some r => negb (forallb (fun d => memN d (known_dacs (mmap st))) (r_dacs r))
                   | None => true
                   end) cov ++ lost.

Lemma dclear_case st st' e cov lost :
  clear_programs st = (st', e) -> framed_inv_dac (cov, lost) st ->
  framed_inv_dac ([], dclear_lost st cov lost) st'.
Proof.
  intros H Hinv. pose proof Hinv as Hinv0. apply dframed_iff in Hinv as [G2 [C [D E]]].
  unfold clear_programs in H. inversion H; subst; clear H.
  set (empty := {| d_wins := []; d_armed := None |}).
  assert (forall x, fold_left (fun dc d => upd dc d empty) (known_dacs (mmap st)) (dac_of st) x
                    = if memN x (known_dacs (mmap st)) then empty else dac_of st x) as Hpt.
  { intros x.
    pose proof (fold_upd_pointwise (fun _ _ => empty) (fun _ => false) (known_dacs (mmap st))
                                   (fun _ _ => eq_refl) (dac_of st) x) as P.
    cbn in P. rewrite andb_true_r in P. exact P. }
  assert (forall n, is_lost ([] : list N, dclear_lost st cov lost) n = false ->
                    forall d, memN d (known_dacs (mmap st)) = false ->
                              has_key n (d_wins (dac_of st d)) = false) as Hkey.
  { intros n Hl d Kd. unfold is_lost, dclear_lost in Hl. cbn [snd] in Hl. rewrite memN_app in Hl.
    apply orb_false_iff in Hl as [Hf Hl].
    assert (is_lost (cov, lost) n = false) as Hl0 by exact Hl.
    pose proof (dnotlost_holders _ _ _ Hinv0 Hl0) as He. unfold dexact_holders in He.
    destruct (lookup n (regs st)) as [r|] eqn:L; [|apply He].
    rewrite He. destruct (memN d (r_dacs r)) eqn:M; auto. exfalso.
    destruct (status_cases _ _ Hl0) as [Hc|Hc].
    - destruct (C n Hc) as [_ [_ C3]]. rewrite (C3 r L d) in M. apply uses_known_dac in M. congruence.
    - unfold is_cov in Hc. cbn [fst snd] in Hc. apply andb_true_iff in Hc as [Hc _].
      apply memN_false in Hf. apply Hf. apply filter_In. split; [apply memN_In; auto|].
      rewrite L. apply negb_true_iff. destruct (forallb _ (r_dacs r)) eqn:F; auto.
      rewrite forallb_forall in F. apply memN_In in M. apply F in M. congruence. }
  apply dframed_iff. cbn [mmap regs dac_of]. fold empty. split; [|split; [|split]].
  - intros d. cbn [dac_of]. fold empty. rewrite Hpt. destruct (memN d (known_dacs (mmap st))); auto.
  - intros n Hn. pose proof (clean_not_lost _ _ Hn) as Hl. unfold dclean_ok. cbn [mmap regs dac_of]. fold empty.
    split; [|split].
    + intros d w0. rewrite Hpt. destruct (memN d (known_dacs (mmap st))) eqn:K; [cbn; discriminate|].
      intros E0. pose proof (Hkey n Hl d K) as Hk. unfold has_key in Hk. rewrite E0 in Hk. discriminate.
    + intros d r L. cbn in L. discriminate.
    + intros r L. cbn in L. discriminate.
  - intros n Hn. unfold is_cov in Hn. cbn in Hn. discriminate.
  - intros n Hl d. cbn [dac_of]. fold empty. rewrite Hpt.
    destruct (memN d (known_dacs (mmap st))) eqn:K; [cbn; discriminate|].
    intros Ed. pose proof (Hkey n Hl d K) as Hk.
    assert (is_lost (cov, lost) n = false) as Hl0.
    { unfold is_lost, dclear_lost in Hl. cbn [snd] in Hl. rewrite memN_app in Hl. apply orb_false_iff in Hl as [_ Hl].
      exact Hl. }
    rewrite (E n Hl0 d Ed) in Hk. discriminate.
Qed.

(* ---- arm --------------------------------------------------------------------------------------------------------- *)
Lemma darm_devices_case st name r cl :
  lookup name (regs st) = Some r -> framed_inv_dac cl st -> framed_inv_dac cl (arm_devices st name r).
Proof.
  intros L Hinv. pose proof Hinv as Hinv0. apply dframed_iff in Hinv as [G2 [C [D E]]].
  set (g := fun (_ : N) (v : dac_st) => {| d_wins := d_wins v; d_armed := Some name |}).
  assert (forall x, dac_of (arm_devices st name r) x
                    = if memN x (r_dacs r) then g x (dac_of st x) else dac_of st x) as Hpt.
  { intros x. unfold arm_devices. cbn.
    pose proof (fold_upd_pointwise g (fun _ => false) (r_dacs r) (fun _ _ => eq_refl) (dac_of st) x) as P.
    cbn in P. rewrite andb_true_r in P. exact P. }
  assert (forall x, d_wins (dac_of (arm_devices st name r) x) = d_wins (dac_of st x)) as Hp.
  { intros x. rewrite Hpt. destruct (memN x (r_dacs r)); auto. }
  apply dframed_iff. split; [|split; [|split]].
  - intros d. rewrite Hp. auto.
  - intros n Hn. apply (dframe_name st (arm_devices st name r) n); auto. intros d. rewrite Hp. auto.
  - intros n Hn. apply (dframe_name st (arm_devices st name r) n); auto. intros d. rewrite Hp. auto.
  - intros n Hl d. rewrite Hp, Hpt. destruct (memN d (r_dacs r)) eqn:M; [|apply E; auto].
    unfold g. cbn [d_armed]. intros Ed. inversion Ed. subst n.
    pose proof (dnotlost_holders _ _ _ Hinv0 Hl) as He. unfold dexact_holders in He. rewrite L in He.
    rewrite He. auto.
Qed.

(* ---- register ---------------------------------------------------------------------------------------------------- *)
Lemma dregister_case dm st name p cb update order st' e cov lost :
  nodupN (keys (regs st)) = true ->
  register_program dm st name p cb update order = (st', e) -> framed_inv_dac (cov, lost) st ->
  framed_inv_dac (match e with None => (filter_out name cov, lost) | Some _ => (cov, lost) end) st'.
Proof.
  intros G1 H Hinv. pose proof Hinv as Hinv0. unfold register_program in H.
  destruct cb as [cbt|]; [|inversion H; subst; auto].
  destruct (negb (forallb _ (p_chans p))); [inversion H; subst; auto|].
  destruct (negb (forallb _ (p_meas p))); [inversion H; subst; auto|].
  destruct (channel_info dm (chmap st) (p_chans p)) as [infos|]; [|inversion H; subst; auto].
  destruct (negb (same_setN order (keys infos))); [inversion H; subst; auto|].
  destruct (has_key name (regs st) && negb update); [inversion H; subst; auto|].
  destruct (upload_all (awg_of st) name (p_tag p) update infos order) as [aw ok].
  destruct ok; cbn in H; inversion H; subst; clear H.
  2: { eapply dinv_same; [| | |exact Hinv]; reflexivity. }
  apply dframed_iff in Hinv as [G2 [C [D E]]].
  set (aff := affected_dacs (mmap st) (p_meas p)).
  pose proof (affected_nodup (mmap st) (p_meas p)) as Haffnd. fold aff in Haffnd.
  assert (forall x, memN x (keys aff) = uses_dac (mmap st) (p_meas p) x) as Hord.
  { intros x. rewrite memN_keys'. apply affected_keys. }
  set (old_dacs := match lookup name (regs st) with Some r => r_dacs r | None => [] end).
  set (dc1 := register_dacs (dac_of st) name aff).
  assert (forall x, fold_left (fun dc d => if memN d (keys aff) then dc else upd dc d (dac_delete (dc d) name))
                              old_dacs dc1 x
                    = if memN x old_dacs && negb (memN x (keys aff)) then dac_delete (dc1 x) name else dc1 x) as Hpt.
  { intros x. exact (fold_upd_pointwise (fun _ v => dac_delete v name) (fun d => memN d (keys aff)) old_dacs
                                        (fun _ v => dac_delete_idem name v) dc1 x). }
  assert (forall x, dc1 x = match lookup x aff with
                            | Some w => {| d_wins := upsert name w (d_wins (dac_of st x)); d_armed := d_armed (dac_of st x) |}
                            | None => dac_of st x
                            end) as Hdc1.
  { intros x. unfold dc1. apply register_dacs_pointwise. auto. }
  set (r' := {| r_tag := p_tag p; r_chans := p_chans p; r_meas := p_meas p; r_cb := cbt; r_awgs := order;
                r_dacs := keys aff |}).
  match goal with |- framed_inv_dac _ ?s => set (st' := s) end.
  assert (forall x, dac_of st' x = if memN x old_dacs && negb (memN x (keys aff)) then dac_delete (dc1 x) name else dc1 x)
    as Hpt' by (intros x; unfold st'; cbn [dac_of]; fold aff; fold old_dacs; fold dc1; apply Hpt).
  assert (forall n d, n <> name -> lookup n (d_wins (dc1 d)) = lookup n (d_wins (dac_of st d))) as Hp1.
  { intros n d Hne. rewrite Hdc1. destruct (lookup d aff); auto. cbn [d_wins]. rewrite lookup_upsert.
    apply N.eqb_neq in Hne. rewrite Hne. auto. }
  assert (forall n d, n <> name -> lookup n (d_wins (dac_of st' d)) = lookup n (d_wins (dac_of st d))) as Hp.
  { intros n d Hne. rewrite Hpt'. destruct (memN d old_dacs && negb (memN d (keys aff))); [|apply Hp1; auto].
    unfold dac_delete. cbn [d_wins]. rewrite lookup_remove. pose proof Hne as Hne'. apply N.eqb_neq in Hne'.
    rewrite Hne'. apply Hp1; auto. }
  assert (forall d, d_armed (dc1 d) = d_armed (dac_of st d)) as Ha1.
  { intros d. rewrite Hdc1. destruct (lookup d aff); auto. }
  assert (forall n d, d_armed (dac_of st' d) = Some n -> d_armed (dac_of st d) = Some n) as Har.
  { intros n d. rewrite Hpt'. destruct (memN d old_dacs && negb (memN d (keys aff))).
    - intros Hd. apply armed_delete in Hd as [Hd _]. rewrite Ha1 in Hd. auto.
    - rewrite Ha1. auto. }
  assert (forall n, n <> name -> lookup n (regs st') = lookup n (regs st)) as Hrg.
  { intros n Hne. unfold st'. cbn [regs]. rewrite lookup_upsert. apply N.eqb_neq in Hne. rewrite Hne. auto. }
  assert (lookup name (regs st') = Some r') as Lr'.
  { unfold st'. cbn [regs]. rewrite lookup_upsert, N.eqb_refl. auto. }
  assert (forall x, memN x (keys aff) = true ->
                    exists w, lookup x aff = Some w
                              /\ d_wins (dac_of st' x) = upsert name w (d_wins (dac_of st x))) as Hnew.
  { intros x Mo. rewrite Hpt', Mo, andb_false_r, Hdc1. rewrite memN_keys' in Mo. unfold has_key in Mo.
    destruct (lookup x aff) as [w|]; [|discriminate]. exists w. auto. }
  assert (forall x, memN x (keys aff) = false -> dc1 x = dac_of st x) as Hout.
  { intros x Mo. rewrite Hdc1. rewrite memN_keys' in Mo. unfold has_key in Mo. destruct (lookup x aff); [discriminate|auto]. }
  assert (is_lost (cov, lost) name = false -> dclean_ok st' name /\ darmed_ok st' name) as Hname.
  { intros Hl. pose proof (dnotlost_holders _ _ _ Hinv0 Hl) as He.
    assert (forall x, has_key name (d_wins (dac_of st x)) = memN x old_dacs) as Hhold.
    { intros x. unfold dexact_holders in He. unfold old_dacs. destruct (lookup name (regs st)); rewrite He; auto. }
    split.
    - unfold dclean_ok. rewrite Lr'. split; [|split].
      + intros d w0 E0. destruct (memN d (keys aff)) eqn:Mo.
        * destruct (Hnew d Mo) as [w [Lw Pe]]. rewrite Pe, lookup_upsert, N.eqb_refl in E0. inversion E0; subst w0.
          exists r'. split; auto. unfold r'; cbn [r_meas]. unfold st'; cbn [mmap].
          rewrite <- Hord, Mo. split; auto. apply affected_entry. exact Lw.
        * exfalso. rewrite Hpt', Mo, andb_true_r, (Hout d Mo) in E0. destruct (memN d old_dacs) eqn:Mold.
          -- unfold dac_delete in E0. cbn [d_wins] in E0. rewrite lookup_remove, N.eqb_refl in E0. discriminate.
          -- pose proof (Hhold d) as Hh. unfold has_key in Hh. rewrite E0, Mold in Hh. discriminate.
      + intros d r0 L0 U0. inversion L0; subst r0. unfold r' in U0; cbn [r_meas] in U0.
        unfold st' in U0; cbn [mmap] in U0. rewrite <- Hord in U0.
        destruct (Hnew d U0) as [w [Lw Pe]]. rewrite Pe, has_key_upsert, N.eqb_refl. auto.
      + intros r0 L0 d. inversion L0; subst r0. unfold r'; cbn [r_dacs r_meas]. unfold st'; cbn [mmap]. apply Hord.
    - intros d Ed. destruct (memN d (keys aff)) eqn:Mo.
      + destruct (Hnew d Mo) as [w [Lw Pe]]. rewrite Pe, has_key_upsert, N.eqb_refl. auto.
      + rewrite Hpt', Mo, andb_true_r, (Hout d Mo) in *. destruct (memN d old_dacs) eqn:Mold.
        * apply armed_delete in Ed. exfalso. tauto.
        * apply (E name Hl d Ed). }
  apply dframed_iff. split; [|split; [|split]].
  + intros d. rewrite Hpt'.
    assert (nodupN (keys (d_wins (dc1 d))) = true) as Nd.
    { rewrite Hdc1. destruct (lookup d aff); auto. cbn [d_wins]. apply nodup_upsert. auto. }
    destruct (memN d old_dacs && negb (memN d (keys aff))); auto.
    unfold dac_delete. cbn [d_wins]. apply nodup_remove. auto.
  + intros n Hn. destruct (N.eq_dec n name) as [->|Hne].
    * apply Hname. apply (clean_not_lost _ _ Hn).
    * destruct (is_clean_filter_out_other cov lost name n Hne) as [Ec _]. rewrite Ec in Hn.
      apply (dframe_name st st' n); auto.
  + intros n Hn. destruct (N.eq_dec n name) as [->|Hne].
    * rewrite is_cov_filter_out_same in Hn. discriminate.
    * destruct (is_clean_filter_out_other cov lost name n Hne) as [_ Ec]. rewrite Ec in Hn.
      apply (dframe_name st st' n); auto.
  + intros n Hn. destruct (N.eq_dec n name) as [->|Hne].
    * apply Hname. exact Hn.
    * apply (dframe_armed st st' n); auto; apply E; exact Hn.
Qed.

(* ---- every operation, every history ------------------------------------------------------------------------------- *)
Lemma framed_dac_step dm t o :
  nodupN (keys (regs (t_st t))) = true ->
  framed_inv_dac (t_dac t) (t_st t) -> framed_inv_dac (t_dac (tstep dm t o)) (t_st (tstep dm t o)).
Proof.
  destruct t as [st ta [cov lost]]. cbn [tstep t_st t_dac]. intros G1 Hinv. unfold track_dac.
  destruct (step dm st o) as [st' e] eqn:H. cbn [fst]. destruct o; cbn in H.
  - (* set_channel *)
    apply (dinv_same (cov, lost) st st'); auto; unfold set_channel in H;
      destruct (negb (forallb (ctor_ok dm) (charg_channels a))); try (inversion H; subst; auto; fail);
      destruct (match a with ChSingle c => _ | ChMany cs junk => _ | ChNotIterable => None end) as [[new junk]|];
      try (inversion H; subst; auto; fail);
      destruct (negb allow && _); try (inversion H; subst; auto; fail);
      destruct junk; inversion H; subst; auto.
  - (* set_measurement *)
    apply drewire_gen; auto; unfold set_measurement in H;
      destruct (match a with MSingle m => _ | MMany ms => _ | MNotIterable => None end) as [new|];
      try (inversion H; subst; auto; fail);
      destruct (negb allow && _); inversion H; subst; auto.
    intros c Hc. cbn. apply get_set_upsert'. auto.
  - (* rm_channel *)
    apply (dinv_same (cov, lost) st st'); auto; unfold rm_channel in H;
      destruct (has_key id (chmap st)); inversion H; subst; auto.
  - eapply dregister_case; eauto.
  - eapply dremove_case; eauto.
  - eapply dclear_case; eauto.
  - unfold arm_program in H. destruct (lookup name (regs st)) as [r|] eqn:L; inversion H; subst; auto.
    apply darm_devices_case; auto.
  - unfold run_program in H. destruct (lookup name (regs st)) as [r|] eqn:L; inversion H; subst; auto.
    apply (dinv_same (cov, lost) (arm_devices st name r)); auto. apply darm_devices_case; auto.
  - unfold update_parameters in H. destruct (lookup name (regs st)) as [r|] eqn:L; inversion H; subst; auto;
      apply (dinv_same (cov, lost) st); auto.
Qed.

Lemma framed_dac_init : framed_inv_dac (t_dac tinit) (t_st tinit).
Proof. unfold framed_inv_dac, tinit. cbn. repeat split; auto; try discriminate. Qed.

Lemma framed_both_run dm : forall h t,
  framed_inv_awg dm (t_awg t) (t_st t) -> framed_inv_dac (t_dac t) (t_st t) ->
  framed_inv_awg dm (t_awg (trun dm t h)) (t_st (trun dm t h))
  /\ framed_inv_dac (t_dac (trun dm t h)) (t_st (trun dm t h)).
Proof.
  induction h as [|o h IH]; intros t Ha Hd; [split; auto|].
  change (trun dm t (o :: h)) with (trun dm (tstep dm t o) h). apply IH.
  - apply framed_awg_step; auto.
  - apply framed_dac_step; auto. destruct Ha as [G _]. exact G.
Qed.

Theorem framed_dac_histories dm h :
  framed_inv_dac (t_dac (trun dm tinit h)) (t_st (trun dm tinit h)).
Proof. apply (framed_both_run dm h tinit (framed_awg_init dm) framed_dac_init). Qed.

(* ---- corollaries -------------------------------------------------------------------------------------------------- *)
Lemma users_meas_unused rg nm : meas_unused rg nm = true -> users_meas rg nm = [].
Proof.
  unfold meas_unused, users_meas. induction rg as [|[n r] rg IH]; cbn; auto.
  rewrite andb_true_iff, negb_true_iff. intros [A B]. rewrite A. auto.
Qed.

Lemma guard_clean_dac_run dm : forall h t,
  t_dac t = ([], []) -> guard_C18_rewire dm (t_st t) h = true -> t_dac (trun dm t h) = ([], []).
Proof.
  induction h as [|o h IH]; intros t Ht Hg; [exact Ht|].
  change (trun dm t (o :: h)) with (trun dm (tstep dm t o) h). cbn in Hg. apply andb_true_iff in Hg as [G1 G2].
  apply IH; [|exact G2]. unfold tstep. cbn [t_dac]. rewrite Ht. unfold track_dac.
  destruct (step dm (t_st t) o) as [st' e]. destruct o; cbn in G1; auto.
  - rewrite (users_meas_unused _ _ G1). destruct (same_members _ _ _); auto.
  - destruct e; auto.
Qed.

Lemma guard_clean_dac dm h :
  guard_C18_rewire dm init_state h = true -> t_dac (trun dm tinit h) = ([], []).
Proof. intros G. apply guard_clean_dac_run; auto. Qed.

Lemma framed_arm_dac dm h name st' :
  is_clean (t_dac (trun dm tinit h)) name = true ->
  arm_program (t_st (trun dm tinit h)) name = (st', None) ->
  exists r, lookup name (regs st') = Some r
            /\ forall d, dac_arm_post (mmap st') name (r_meas r) d (dac_of st' d) = true.
Proof.
  intros Hc H. pose proof (framed_dac_histories dm h) as Hinv. set (t := trun dm tinit h) in *.
  set (st := t_st t) in *. apply dframed_iff in Hinv as [_ [C _]]. destruct (C name Hc) as [_ [_ Hrec]].
  unfold arm_program in H. destruct (lookup name (regs st)) as [r|] eqn:L; [|discriminate].
  inversion H; subst st'; clear H. exists r. split; auto. intros d.
  set (g := fun (_ : N) (v : dac_st) => {| d_wins := d_wins v; d_armed := Some name |}).
  assert (dac_of (arm_devices st name r) d = if memN d (r_dacs r) then g d (dac_of st d) else dac_of st d) as Hpt.
  { unfold arm_devices. cbn.
    pose proof (fold_upd_pointwise g (fun _ => false) (r_dacs r) (fun _ _ => eq_refl) (dac_of st) d) as P.
    cbn in P. rewrite andb_true_r in P. exact P. }
  unfold dac_arm_post. rewrite Hpt. change (mmap (arm_devices st name r)) with (mmap st).
  rewrite <- (Hrec r eq_refl d). destruct (memN d (r_dacs r)); auto. cbn. apply N.eqb_refl.
Qed.

Lemma framed_removed_dac dm h name d :
  is_lost (t_dac (trun dm tinit h)) name = false ->
  dac_gone name (dac_of (fst (remove_program (t_st (trun dm tinit h)) name)) d) = true.
Proof.
  intros Hl. pose proof (framed_dac_histories dm h) as Hinv. set (t := trun dm tinit h) in *.
  destruct (t_dac t) as [cov lost] eqn:Ta.
  destruct (remove_program (t_st t) name) as [st' e] eqn:R. cbn [fst].
  pose proof (dremove_case _ _ _ _ _ _ R Hinv) as Hinv'.
  assert (is_clean (filter_out name cov, lost) name = true) as Hc.
  { unfold is_clean, is_lost in *. cbn [fst snd] in *. rewrite memN_filter_out, N.eqb_refl, Hl. auto. }
  apply dframed_iff in Hinv' as [_ [C _]]. destruct (C name Hc) as [C1 _].
  assert (lookup name (regs st') = None) as Ln.
  { unfold remove_program in R. destruct (lookup name (regs (t_st t))) as [r|] eqn:L; inversion R; subst; auto.
    cbn. rewrite lookup_remove, N.eqb_refl. auto. }
  unfold dac_gone, has_key. destruct (lookup name (d_wins (dac_of st' d))) as [w0|] eqn:E0; auto.
  destruct (C1 _ _ E0) as [r [Lr _]]. congruence.
Qed.

Lemma framed_cleared_dac dm h d n :
  has_key n (d_wins (dac_of (t_st (trun dm tinit (h ++ [OClear]))) d)) = true ->
  is_lost (t_dac (trun dm tinit (h ++ [OClear]))) n = true.
Proof.
  intros Hk. pose proof (framed_dac_histories dm (h ++ [OClear])) as Hinv.
  destruct (is_lost (t_dac (trun dm tinit (h ++ [OClear]))) n) eqn:Hl; auto. exfalso.
  rewrite trun_app in *. set (t := trun dm tinit h) in *.
  change (trun dm t [OClear]) with (tstep dm t OClear) in *.
  assert (is_clean (t_dac (tstep dm t OClear)) n = true) as Hc.
  { unfold is_clean. unfold is_lost in Hl. rewrite Hl. unfold tstep. cbn [t_dac]. unfold track_dac.
    destruct (t_dac t) as [cov lost]. cbn. auto. }
  apply dframed_iff in Hinv as [_ [C _]]. destruct (C n Hc) as [C1 _].
  unfold has_key in Hk. destruct (lookup n (d_wins (dac_of (t_st (tstep dm t OClear)) d))) as [w0|] eqn:E0; [|discriminate].
  destruct (C1 _ _ E0) as [r [Lr _]]. cbn in Lr. discriminate.
Qed.

(* a measurement is re-wired to another device while a program uses it (covered); update re-registration makes the name
   clean again and the old device forgets the windows; a second mask OBJECT for the same (device, mask name) does not
   even make it covered *)
Definition mk (d k o : N) : mask := {| m_dac := d; m_name := k; m_oid := o |}.
Definition dac_restore_history : list op :=
  [ OSetChannel 0 (ChMany [{| s_awg := 0; s_idx := 0; s_marker := false; s_trafo := 0 |}] false) false;
    OSetMeasurement 0 (MMany [mk 0 0 0]) false;
    ORegister 0 {| p_tag := 1; p_chans := [0%N]; p_meas := [(0%N, ([0#1], [1#1]))] |} (Some 1%N) false [0%N] ].
Definition dac_h1 := dac_restore_history ++ [OSetMeasurement 0 (MMany [mk 0 0 5]) true].
Definition dac_h2 := dac_restore_history ++ [OSetMeasurement 0 (MMany [mk 1 0 1]) false].
Definition dac_h3 := dac_h2 ++ [ORegister 0 {| p_tag := 2; p_chans := [0%N]; p_meas := [(0%N, ([0#1], [1#1]))] |}
                                          (Some 2%N) true [0%N]].
Lemma dac_restore_example :
  is_clean (t_dac (trun restore_dims tinit dac_h1)) 0%N = true
  /\ is_cov (t_dac (trun restore_dims tinit dac_h2)) 0%N = true
  /\ is_clean (t_dac (trun restore_dims tinit dac_h3)) 0%N = true
  /\ keys (d_wins (dac_of (t_st (trun restore_dims tinit dac_h3)) 0%N)) = []
  /\ keys (d_wins (dac_of (t_st (trun restore_dims tinit dac_h3)) 1%N)) = [0%N].
Proof. vm_compute. repeat split; reflexivity. Qed.
