(* C18 round 3 — (1) the status tracker of the observation-level framed check (Corr.otrack_awg / otrack_dac) is
   Spec.track_awg / track_dac on the model's own views; (2) what arm_program / update_parameters do for a COVERED name
   (wiring of a used name changed after registration), after any history; (3) the framed invariant evaluated by
   Corr.framed_obs_awg / framed_obs_dac accepts every view of a state that satisfies Spec.framed_inv_awg / _dac. *)
From Coq Require Import List ZArith NArith QArith Bool Lia.
Require Import QV.common.Util.
Require Import QV.C18.Model QV.C18.Spec QV.C18.Corr QV.C18.Proofs_alist QV.C18.Proofs_route QV.C18.Proofs_inv
               QV.C18.Proofs_frame_awg QV.C18.Proofs_frame_dac.
Import ListNotations.

(* ---- (1) status tracking on observations ------------------------------------------------------------------------- *)
Lemma otrack_awg_view dm na nd st o e0 cl :
  otrack_awg o (view na nd e0 st) (view na nd (snd (step dm st o)) (fst (step dm st o))) cl = track_awg dm st o cl.
Proof.
  unfold otrack_awg, track_awg. destruct cl as [cov lost]. destruct (step dm st o) as [st' e]. cbn [fst snd].
  destruct o; reflexivity.
Qed.

Lemma otrack_dac_view dm na nd st o e0 cl :
  otrack_dac o (view na nd e0 st) (view na nd (snd (step dm st o)) (fst (step dm st o))) cl = track_dac dm st o cl.
Proof.
  unfold otrack_dac, track_dac. destruct cl as [cov lost]. destruct (step dm st o) as [st' e]. cbn [fst snd].
  destruct o; reflexivity.
Qed.

(* ---- (2) arming / updating a covered name ------------------------------------------------------------------------- *)
Lemma arm_awg_pointwise st name r a :
  awg_of (arm_devices st name r) a
  = if memN a (known_awgs (chmap st))
    then {| a_progs := a_progs (awg_of st a); a_armed := if memN a (r_awgs r) then Some name else None |}
    else awg_of st a.
Proof.
  set (g := fun (a : N) (v : awg_st) =>
              {| a_progs := a_progs v; a_armed := if memN a (r_awgs r) then Some name else None |}).
  unfold arm_devices. cbn.
  pose proof (fold_upd_pointwise g (fun _ => false) (known_awgs (chmap st)) (fun _ _ => eq_refl) (awg_of st) a) as P.
  cbn in P. rewrite andb_true_r in P. exact P.
Qed.

Lemma arm_dac_pointwise st name r d :
  dac_of (arm_devices st name r) d
  = if memN d (r_dacs r) then {| d_wins := d_wins (dac_of st d); d_armed := Some name |} else dac_of st d.
Proof.
  set (g := fun (_ : N) (v : dac_st) => {| d_wins := d_wins v; d_armed := Some name |}).
  unfold arm_devices. cbn.
  pose proof (fold_upd_pointwise g (fun _ => false) (r_dacs r) (fun _ _ => eq_refl) (dac_of st) d) as P.
  cbn in P. rewrite andb_true_r in P. exact P.
Qed.

(* arm_program by the participation record, whatever the status: every WIRED generator is armed with the name iff it is
   recorded, a generator that is not wired keeps its state; every recorded acquisition device is armed, others unchanged *)
Lemma arm_by_record st name st' :
  arm_program st name = (st', None) ->
  exists r, lookup name (regs st) = Some r
    /\ (forall a, a_progs (awg_of st' a) = a_progs (awg_of st a)
                  /\ a_armed (awg_of st' a) = if memN a (known_awgs (chmap st))
                                              then (if memN a (r_awgs r) then Some name else None)
                                              else a_armed (awg_of st a))
    /\ (forall d, d_wins (dac_of st' d) = d_wins (dac_of st d)
                  /\ d_armed (dac_of st' d) = if memN d (r_dacs r) then Some name else d_armed (dac_of st d)).
Proof.
  unfold arm_program. destruct (lookup name (regs st)) as [r|] eqn:L; [|discriminate].
  intros H. inversion H; subst st'; clear H. exists r. split; auto. split.
  - intros a. rewrite arm_awg_pointwise. destruct (memN a (known_awgs (chmap st))); auto.
  - intros d. rewrite arm_dac_pointwise. destruct (memN d (r_dacs r)); auto.
Qed.

(* covered name, generator side: after arm_program every wired generator that holds a copy is armed with it and every
   wired generator that does not is disarmed; a generator that is no longer wired is not touched *)
Lemma framed_arm_awg_covered dm h name st' :
  is_cov (t_awg (trun dm tinit h)) name = true ->
  arm_program (t_st (trun dm tinit h)) name = (st', None) ->
  forall a,
    has_key name (a_progs (awg_of st' a)) = has_key name (a_progs (awg_of (t_st (trun dm tinit h)) a))
    /\ a_armed (awg_of st' a)
       = if memN a (known_awgs (chmap st'))
         then (if has_key name (a_progs (awg_of st' a)) then Some name else None)
         else a_armed (awg_of (t_st (trun dm tinit h)) a).
Proof.
  intros Hc H a. pose proof (framed_awg_histories dm h) as Hinv. set (st := t_st (trun dm tinit h)) in *.
  apply framed_iff in Hinv as [_ [_ [D _]]]. destruct (D name Hc) as [r [L Hh]].
  assert (chmap st' = chmap st) as Hcm.
  { unfold arm_program in H. rewrite L in H. inversion H. reflexivity. }
  destruct (arm_by_record _ _ _ H) as [r' [L' [HA _]]]. rewrite L in L'. inversion L'; subst r'.
  destruct (HA a) as [Hp Ha]. rewrite Hp. split; auto. rewrite Ha, Hcm, Hh. reflexivity.
Qed.

(* covered name, acquisition side: every device that holds windows of the name is armed with it; others are untouched *)
Lemma framed_arm_dac_covered dm h name st' :
  is_cov (t_dac (trun dm tinit h)) name = true ->
  arm_program (t_st (trun dm tinit h)) name = (st', None) ->
  forall d,
    has_key name (d_wins (dac_of st' d)) = has_key name (d_wins (dac_of (t_st (trun dm tinit h)) d))
    /\ d_armed (dac_of st' d)
       = if has_key name (d_wins (dac_of st' d)) then Some name else d_armed (dac_of (t_st (trun dm tinit h)) d).
Proof.
  intros Hc H d. pose proof (framed_dac_histories dm h) as Hinv. set (st := t_st (trun dm tinit h)) in *.
  apply dframed_iff in Hinv as [_ [_ [D _]]]. destruct (D name Hc) as [r [L Hh]].
  destruct (arm_by_record _ _ _ H) as [r' [L' [_ HD]]]. rewrite L in L'. inversion L'; subst r'.
  destruct (HD d) as [Hp Ha]. rewrite Hp. split; auto. rewrite Ha, Hh. reflexivity.
Qed.

(* covered name: update_parameters hands the parameters to exactly the wired generators that hold a copy, each once *)
Lemma framed_update_parameters_covered dm h name ptag st' :
  is_cov (t_awg (trun dm tinit h)) name = true ->
  update_parameters (t_st (trun dm tinit h)) name ptag = (st', None) ->
  exists got rest, vollog st' = (name, ptag, got) :: rest /\ NoDup got
    /\ forall a, In a got <-> memN a (known_awgs (chmap st')) = true
                              /\ has_key name (a_progs (awg_of st' a)) = true.
Proof.
  intros Hc H. pose proof (framed_awg_histories dm h) as Hinv. set (st := t_st (trun dm tinit h)) in *.
  apply framed_iff in Hinv as [_ [_ [D _]]]. destruct (D name Hc) as [r [L Hh]].
  unfold update_parameters in H. rewrite L in H. inversion H; subst st'; clear H. cbn [vollog chmap awg_of].
  exists (filter (fun a => memN a (r_awgs r)) (nodup N.eq_dec (known_awgs (chmap st)))), (vollog st).
  split; auto. split.
  - apply NoDup_filter', NoDup_nodup.
  - intros a. rewrite filter_In, nodup_In, Hh. rewrite <- (memN_In a (known_awgs (chmap st))). tauto.
Qed.

(* ---- (3) the observation-level framed invariant accepts every view of a state that satisfies the proved one ------ *)
Lemma forall_idx_map {B} (f : N -> B -> bool) (g : N -> B) : forall (l : list N) (i : N),
  (forall k, (k < length l)%nat -> nth k l 0%N = (i + N.of_nat k)%N) ->
  (forall a, In a l -> f a (g a) = true) ->
  forall_idx f i (map g l) = true.
Proof.
  induction l as [|x l IH]; intros i Hn Hf; cbn; auto.
  assert (x = i) as ->. { specialize (Hn 0%nat). cbn in Hn. rewrite Hn by lia. lia. }
  rewrite Hf by (left; auto). cbn. apply IH.
  - intros k Hk. specialize (Hn (S k)). cbn in Hn. rewrite Hn by lia. lia.
  - intros a Ha. apply Hf. right. auto.
Qed.

Lemma Nseq_nth n k : (k < n)%nat -> nth k (Nseq n) 0%N = (0 + N.of_nat k)%N.
Proof.
  intros Hk. unfold Nseq. change 0%N with (N.of_nat 0) at 1. rewrite map_nth, seq_nth by auto. cbn. reflexivity.
Qed.

Lemma Nseq_length n : length (Nseq n) = n.
Proof. unfold Nseq. rewrite map_length, seq_length. auto. Qed.

Lemma forall_idx_view {B} (f : N -> B -> bool) (g : N -> B) n :
  (forall a, f a (g a) = true) -> forall_idx f 0%N (map g (Nseq n)) = true.
Proof.
  intros H. apply forall_idx_map; auto. intros k Hk. rewrite Nseq_length in Hk. apply Nseq_nth. auto.
Qed.

Lemma in_range_spec n l : (forall a, In a l -> (N.to_nat a < n)%nat) -> in_range n l = true.
Proof. intros H. unfold in_range. apply forallb_forall. intros a Ha. apply Nat.ltb_lt. auto. Qed.

Lemma framed_obs_awg_view dm cl st na nd e :
  framed_inv_awg dm cl st ->
  (forall n r, is_cov cl n = true -> lookup n (regs st) = Some r -> forall a, In a (r_awgs r) -> (N.to_nat a < na)%nat) ->
  framed_obs_awg dm cl (view na nd e st) = true.
Proof.
  intros [A [B [C [D [E [F G]]]]]] Hrange. unfold framed_obs_awg. cbn [view o_chmap o_regs o_awgs]. rewrite ?map_length, ?Nseq_length.
  rewrite A. cbn [andb].
  repeat (apply andb_true_iff; split).
  - apply forall_idx_view. intros a. rewrite B. cbn [andb].
    repeat (apply andb_true_iff; split).
    + apply forallb_forall. intros [n en] Hin. cbn [fst snd].
      destruct (is_clean cl n) eqn:Hc; auto. cbn [negb orb].
      assert (lookup n (a_progs (awg_of st a)) = Some en) as Le by (apply In_lookup; auto).
      destruct (C a n en Hc Le) as [r [Lr [U Eo]]]. rewrite Lr, U, Eo. auto.
    + apply forallb_forall. intros [n r] Hin. cbn [fst snd].
      destruct (is_clean cl n) eqn:Hc; auto. cbn [negb orb].
      destruct (uses_awg (chmap st) (r_chans r) a) eqn:U; auto. cbn [negb orb].
      apply (D a n r Hc); auto. apply In_lookup; auto.
    + destruct (a_armed (awg_of st a)) as [n|] eqn:Ea; auto.
      destruct (is_lost cl n) eqn:Hl; auto. cbn [orb]. apply (G a n); auto.
  - apply forallb_forall. intros [n r] Hin. cbn [fst snd].
    destruct (is_clean cl n) eqn:Hc; auto. cbn [negb orb].
    apply forallb_forall. intros a _. rewrite (E n r Hc) by (apply In_lookup; auto). apply eqb_reflx.
  - apply forallb_forall. intros n _. destruct (is_cov cl n) eqn:Hc; auto. cbn [negb orb].
    destruct (F n Hc) as [r [Lr Hh]]. rewrite Lr. apply andb_true_iff. split.
    + apply forall_idx_view. intros a. rewrite Hh. apply eqb_reflx.
    + apply in_range_spec. intros a Ha. eapply Hrange; eauto.
Qed.

Lemma framed_obs_dac_view cl st na nd e :
  framed_inv_dac cl st ->
  (forall n r, is_cov cl n = true -> lookup n (regs st) = Some r -> forall d, In d (r_dacs r) -> (N.to_nat d < nd)%nat) ->
  nodupN (keys (regs st)) = true ->
  framed_obs_dac cl (view na nd e st) = true.
Proof.
  intros [B [C [D [E [F G]]]]] Hrange A. unfold framed_obs_dac. cbn [view o_mmap o_regs o_dacs]. rewrite ?map_length, ?Nseq_length.
  repeat (apply andb_true_iff; split).
  - apply forall_idx_view. intros d. rewrite B. cbn [andb].
    repeat (apply andb_true_iff; split).
    + apply forallb_forall. intros [n w] Hin. cbn [fst snd].
      destruct (is_clean cl n) eqn:Hc; auto. cbn [negb orb].
      assert (lookup n (d_wins (dac_of st d)) = Some w) as Le by (apply In_lookup; auto).
      destruct (C d n w Hc Le) as [r [Lr [U Eo]]]. rewrite Lr, U, Eo. auto.
    + apply forallb_forall. intros [n r] Hin. cbn [fst snd].
      destruct (is_clean cl n) eqn:Hc; auto. cbn [negb orb].
      destruct (uses_dac (mmap st) (r_meas r) d) eqn:U; auto. cbn [negb orb].
      apply (D d n r Hc); auto. apply In_lookup; auto.
    + destruct (d_armed (dac_of st d)) as [n|] eqn:Ea; auto.
      destruct (is_lost cl n) eqn:Hl; auto. cbn [orb]. apply (G d n); auto.
  - apply forallb_forall. intros [n r] Hin. cbn [fst snd].
    destruct (is_clean cl n) eqn:Hc; auto. cbn [negb orb].
    apply forallb_forall. intros d _. rewrite (E n r Hc) by (apply In_lookup; auto). apply eqb_reflx.
  - apply forallb_forall. intros n _. destruct (is_cov cl n) eqn:Hc; auto. cbn [negb orb].
    destruct (F n Hc) as [r [Lr Hh]]. rewrite Lr. apply andb_true_iff. split.
    + apply forall_idx_view. intros d. rewrite Hh. apply eqb_reflx.
    + apply in_range_spec. intros d Hd. eapply Hrange; eauto.
Qed.

(* after every history, on a bench that contains every recorded device, the observation-level framed invariant accepts
   the model's view: a rejection by Corr.framed_obs_* on the implementation is a disagreement with the proved invariant *)
Theorem framed_obs_histories dm h na nd e :
  let t := trun dm tinit h in
  (forall n r, lookup n (regs (t_st t)) = Some r ->
     (forall a, In a (r_awgs r) -> (N.to_nat a < na)%nat) /\ (forall d, In d (r_dacs r) -> (N.to_nat d < nd)%nat)) ->
  framed_obs_awg dm (t_awg t) (view na nd e (t_st t)) = true
  /\ framed_obs_dac (t_dac t) (view na nd e (t_st t)) = true.
Proof.
  intros t Hr. pose proof (framed_awg_histories dm h) as Ha. pose proof (framed_dac_histories dm h) as Hd.
  fold t in Ha, Hd. split.
  - apply framed_obs_awg_view; auto. intros n r _ L. apply (Hr n r L).
  - apply framed_obs_dac_view; auto.
    + intros n r _ L. apply (Hr n r L).
    + destruct Ha as [A _]. exact A.
Qed.
