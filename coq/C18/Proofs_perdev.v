(* C18 — status per (name, generator), threaded through ALL histories (raising calls included).
   A pair (n, a) is "dirty" when the members of the wiring of a channel id used by n that sit on generator a were changed
   since the last (re-)registration of n.  For every name that is not lost and every generator a with (n, a) not dirty,
   the three routing clauses of n hold at a (Proofs_dev.clean_at) — also when n is "covered" because its wiring changed
   on OTHER generators. *)
From Coq Require Import List ZArith NArith Bool Lia.
Require Import QV.common.Util QV.C18.Model QV.C18.Spec QV.C18.Proofs_alist QV.C18.Proofs_route QV.C18.Proofs_inv
               QV.C18.Proofs_frame_awg QV.C18.Proofs_dev.
Import ListNotations.

(* ---- small facts -------------------------------------------------------------------------------------------------- *)
Lemma memNN_In p l : memNN p l = true <-> In p l.
Proof.
  unfold memNN. rewrite existsb_exists. destruct p as [n a]. split.
  - intros [[n' a'] [Hin E]]. cbn in E. apply andb_true_iff in E as [E1 E2].
    apply N.eqb_eq in E1, E2. subst. auto.
  - intros Hin. exists (n, a). split; auto. cbn. rewrite !N.eqb_refl. auto.
Qed.
Lemma memNN_false p l : memNN p l = false <-> ~ In p l.
Proof. rewrite <- memNN_In. destruct (memNN p l); split; congruence. Qed.

Lemma memNN_filter_other n a name dl :
  n <> name -> memNN (n, a) (filter (fun q => negb (N.eqb (fst q) name)) dl) = false -> memNN (n, a) dl = false.
Proof.
  intros Hne H. apply memNN_false. apply memNN_false in H. intros Hin. apply H. apply filter_In. split; auto.
  cbn. apply negb_true_iff. apply N.eqb_neq. auto.
Qed.

(* clean_at only reads the wiring, the record of n and the entry of n on generator a *)
Lemma clean_at_frame dm st st' n a :
  chmap st' = chmap st -> lookup n (regs st') = lookup n (regs st) ->
  lookup n (a_progs (awg_of st' a)) = lookup n (a_progs (awg_of st a)) ->
  clean_at dm st n a -> clean_at dm st' n a.
Proof.
  intros Hc Hr Hp. unfold clean_at, has_key. rewrite Hc, Hr, Hp. auto.
Qed.

(* ---- what the operations leave alone ----------------------------------------------------------------------------- *)
Lemma wiring_step dm st o id st' e :
  (o = ORmChannel id \/ exists arg allow, o = OSetChannel id arg allow) ->
  step dm st o = (st', e) ->
  regs st' = regs st /\ awg_of st' = awg_of st /\ forall c, c <> id -> get_set c (chmap st') = get_set c (chmap st).
Proof.
  intros Ho H. destruct Ho as [->|[arg [allow ->]]]; cbn in H.
  - unfold rm_channel in H. destruct (has_key id (chmap st)); inversion H; subst; auto.
    repeat split; auto. intros c Hne. cbn. apply get_set_remove. auto.
  - unfold set_channel in H.
    destruct (negb (forallb (ctor_ok dm) (charg_channels arg))); [inversion H; subst; auto|].
    destruct (match arg with ChSingle c => _ | ChMany cs junk => _ | ChNotIterable => None end) as [[new junk]|];
      [|inversion H; subst; auto].
    destruct (negb allow && _); [inversion H; subst; auto|].
    destruct junk; inversion H; subst; auto.
    repeat split; auto. intros c Hne. cbn. apply get_set_upsert. auto.
Qed.

Lemma set_measurement_frame st name arg allow st' e :
  set_measurement st name arg allow = (st', e) ->
  chmap st' = chmap st /\ regs st' = regs st /\ awg_of st' = awg_of st.
Proof.
  unfold set_measurement. intros H.
  destruct (match arg with MSingle m => _ | MMany ms => _ | MNotIterable => None end) as [new|];
    [|inversion H; subst; auto].
  destruct (negb allow && _); inversion H; subst; auto.
Qed.

Lemma arm_devices_progs st name r a : a_progs (awg_of (arm_devices st name r) a) = a_progs (awg_of st a).
Proof.
  set (g := fun (a : N) (v : awg_st) =>
              {| a_progs := a_progs v; a_armed := if memN a (r_awgs r) then Some name else None |}).
  assert (awg_of (arm_devices st name r) a
          = if memN a (known_awgs (chmap st)) then g a (awg_of st a) else awg_of st a) as Hpt.
  { unfold arm_devices. cbn.
    pose proof (fold_upd_pointwise g (fun _ => false) (known_awgs (chmap st)) (fun _ _ => eq_refl) (awg_of st) a) as P.
    cbn in P. rewrite andb_true_r in P. exact P. }
  rewrite Hpt. destruct (memN a (known_awgs (chmap st))); auto.
Qed.

Lemma remove_other st name st' e :
  remove_program st name = (st', e) ->
  chmap st' = chmap st /\
  forall n, n <> name ->
    lookup n (regs st') = lookup n (regs st)
    /\ forall a, lookup n (a_progs (awg_of st' a)) = lookup n (a_progs (awg_of st a)).
Proof.
  unfold remove_program. intros H. destruct (lookup name (regs st)) as [r|] eqn:L; inversion H; subst; clear H; auto.
  cbn [chmap regs awg_of]. split; auto. intros n Hne. pose proof Hne as Hne'. apply N.eqb_neq in Hne'. split.
  - rewrite lookup_remove, Hne'. auto.
  - intros a.
    pose proof (fold_upd_pointwise (fun _ v => awg_remove v name) (fun _ => false) (r_awgs r)
                                   (fun _ v => awg_remove_idem name v) (awg_of st) a) as P.
    cbn in P. rewrite andb_true_r in P. rewrite P. destruct (memN a (r_awgs r)); auto.
    unfold awg_remove. cbn. rewrite lookup_remove, Hne'. auto.
Qed.

Lemma register_other dm st name p cb update order st' e :
  register_program dm st name p cb update order = (st', e) ->
  chmap st' = chmap st /\
  forall n, n <> name ->
    lookup n (regs st') = lookup n (regs st)
    /\ forall a, lookup n (a_progs (awg_of st' a)) = lookup n (a_progs (awg_of st a)).
Proof.
  intros H. unfold register_program in H.
  destruct cb as [cbt|]; [|inversion H; subst; auto].
  destruct (negb (forallb _ (p_chans p))); [inversion H; subst; auto|].
  destruct (negb (forallb _ (p_meas p))); [inversion H; subst; auto|].
  destruct (channel_info dm (chmap st) (p_chans p)) as [infos|] eqn:CI; [|inversion H; subst; auto].
  destruct (negb (same_setN order (keys infos))) eqn:SS; [inversion H; subst; auto|].
  destruct (has_key name (regs st) && negb update) eqn:G; [inversion H; subst; auto|].
  destruct (upload_all (awg_of st) name (p_tag p) update infos order) as [aw ok] eqn:Hup.
  pose proof (upload_all_frame _ _ _ _ _ _ _ _ Hup) as Hfr.
  destruct ok; cbn in H; inversion H; subst; clear H; cbn [chmap regs awg_of]; (split; [reflexivity|]);
    intros n Hne; pose proof Hne as Hne'; apply N.eqb_neq in Hne'.
  - split.
    + rewrite lookup_upsert, Hne'. auto.
    + intros a.
      set (old_awgs := match lookup name (regs st) with Some r => r_awgs r | None => [] end).
      pose proof (fold_upd_pointwise (fun _ v => awg_remove v name) (fun a => memN a order) old_awgs
                                     (fun _ v => awg_remove_idem name v) aw a) as P.
      cbn beta in P. rewrite P. destruct (Hfr a) as [_ [B _]].
      destruct (memN a old_awgs && negb (memN a order)); [|apply B; auto].
      unfold awg_remove. cbn [a_progs]. rewrite lookup_remove, Hne'. apply B; auto.
  - split; auto. intros a. destruct (Hfr a) as [_ [B _]]. apply B; auto.
Qed.

(* a call of register_program that raises leaves the state as it was, unless the name is lost *)
Lemma register_error_notlost dm st name p cb update order st' e0 cl :
  register_program dm st name p cb update order = (st', Some e0) ->
  framed_inv_awg dm cl st -> is_lost cl name = false -> st' = st.
Proof.
  intros H Hinv Hl. unfold register_program in H.
  destruct cb as [cbt|]; [|inversion H; subst; auto].
  destruct (negb (forallb _ (p_chans p))); [inversion H; subst; auto|].
  destruct (negb (forallb _ (p_meas p))); [inversion H; subst; auto|].
  destruct (channel_info dm (chmap st) (p_chans p)) as [infos|] eqn:CI; [|inversion H; subst; auto].
  destruct (negb (same_setN order (keys infos))) eqn:SS; [inversion H; subst; auto|].
  apply negb_false_iff in SS.
  destruct (has_key name (regs st) && negb update) eqn:G; [inversion H; subst; auto|].
  destruct (upload_all (awg_of st) name (p_tag p) update infos order) as [aw ok] eqn:Hup.
  assert (ok = true) as ->.
  { destruct (upload_all_total name (p_tag p) update infos order (awg_of st)) as [aw2 Hup2].
    - eapply same_setN_nodup; eauto.
    - intros x Hx. apply memN_In in Hx. rewrite (same_setN_mem _ _ x SS), memN_keys in Hx. auto.
    - intros x Hx K. pose proof (notlost_holders dm _ _ _ Hinv Hl) as He. unfold exact_holders in He.
      unfold has_key in G. destruct (lookup name (regs st)) as [r0|].
      + cbn in G. apply negb_false_iff in G. auto.
      + rewrite He in K. discriminate.
    - rewrite Hup in Hup2. inversion Hup2. auto. }
  cbn in H. inversion H.
Qed.

(* ---- re-wiring: the members on a generator that is not in changed_gens are the same ------------------------------- *)
Lemma not_changed_members id cm cm' a :
  ~ In a (changed_gens id cm cm') ->
  forall s, s_awg s = a -> (In s (get_set id cm') <-> In s (get_set id cm)).
Proof.
  intros Hn s Hs. unfold changed_gens in Hn. rewrite filter_In in Hn.
  destruct (same_members sch_full_eqb (on_awg a (get_set id cm)) (on_awg a (get_set id cm'))) eqn:S.
  - symmetry. apply (on_awg_members a); auto.
  - assert (~ In a (map s_awg (get_set id cm ++ get_set id cm'))) as Hm by (intros Hin; apply Hn; auto).
    split; intros Hin; exfalso; apply Hm; apply in_map_iff; exists s; split; auto; apply in_or_app; auto.
Qed.

Lemma not_dirty_rewire (n a : N) (gens users : list N) dl :
  memNN (n, a) (flat_map (fun n => map (fun a => (n, a)) gens) users ++ dl) = false ->
  memNN (n, a) dl = false /\ (In n users -> ~ In a gens).
Proof.
  intros H. apply memNN_false in H. split.
  - apply memNN_false. intros Hin. apply H. apply in_or_app. auto.
  - intros Hu Hg. apply H. apply in_or_app. left. apply in_flat_map. exists n. split; auto.
    apply in_map_iff. exists a. auto.
Qed.

Lemma rewire_clean_at dm st o id st' e n a :
  (o = ORmChannel id \/ exists arg allow, o = OSetChannel id arg allow) ->
  step dm st o = (st', e) ->
  nodupN (keys (regs st)) = true ->
  (In n (users_ch (regs st) id) -> ~ In a (changed_gens id (chmap st) (chmap st'))) ->
  clean_at dm st n a -> clean_at dm st' n a.
Proof.
  intros Ho H Hnd Hu Hc. destruct (wiring_step dm st o id st' e Ho H) as [Hr [Ha Hg]].
  apply (clean_at_wiring dm st st' n a); auto.
  intros r L c Hin s Hs. destruct (N.eq_dec c id) as [->|Hne].
  - apply (not_changed_members id (chmap st) (chmap st') a); auto. apply Hu. apply In_users_ch. exists r. split; [apply lookup_In; auto|].
    apply memN_In. auto.
  - rewrite Hg; tauto.
Qed.

(* ---- the joint invariant and its step ----------------------------------------------------------------------------- *)
Definition pinv (dm : dims) (t : tstate) (dl : list (N * N)) : Prop :=
  framed_inv_awg dm (t_awg t) (t_st t)
  /\ forall n a, is_lost (t_awg t) n = false -> memNN (n, a) dl = false -> clean_at dm (t_st t) n a.

Lemma is_lost_snd cov cov' lost n : is_lost (cov', lost) n = is_lost (cov, lost) n.
Proof. reflexivity. Qed.

Lemma pinv_step dm t dl o :
  pinv dm t dl -> pinv dm (tstep dm t o) (ptrack_awg dm (t_st t) o dl).
Proof.
  intros [Hinv HP]. pose proof (framed_awg_step dm t o Hinv) as Hinv'. split; [exact Hinv'|].
  intros n a Hl Hd.
  (* a name that is clean after the step: the framed invariant after the step says everything *)
  destruct (status_cases _ _ Hl) as [Hc|Hc].
  { apply framed_iff in Hinv' as [_ [C _]]. apply clean_ok_at. apply C. exact Hc. }
  (* a name that is covered after the step *)
  destruct t as [st [cov lost] td]. cbn [tstep t_st t_awg] in *. unfold track_awg in Hl, Hc. unfold ptrack_awg in Hd.
  destruct (step dm st o) as [st' e] eqn:H. cbn [fst].
  pose proof Hinv as Hinv0. apply framed_iff in Hinv0 as [[G1 _] _].
  destruct o; cbn in H.
  - (* set_channel *)
    apply not_dirty_rewire in Hd as [Hd Hu].
    assert (is_lost (cov, lost) n = false) as Hl0.
    { destruct (same_members sch_full_eqb _ _) in Hl; exact Hl. }
    apply (rewire_clean_at dm st (OSetChannel id a0 allow) id st' e n a); auto.
    right. eauto.
  - (* set_measurement *)
    destruct (set_measurement_frame _ _ _ _ _ _ H) as [A [B C]].
    apply (clean_at_frame dm st st' n a); auto; try (rewrite B; auto); try (rewrite C; auto).
  - (* rm_channel *)
    apply not_dirty_rewire in Hd as [Hd Hu].
    assert (is_lost (cov, lost) n = false) as Hl0.
    { destruct (same_members sch_full_eqb _ _) in Hl; exact Hl. }
    apply (rewire_clean_at dm st (ORmChannel id) id st' e n a); auto.
  - (* register *)
    destruct (register_other _ _ _ _ _ _ _ _ _ H) as [A B].
    destruct e as [e0|].
    + destruct (N.eq_dec n name) as [->|Hne].
      * rewrite (register_error_notlost _ _ _ _ _ _ _ _ _ _ H Hinv Hl). apply HP; auto.
      * destruct (B n Hne) as [B1 B2]. apply (clean_at_frame dm st st' n a); auto.
    + assert (n <> name) as Hne by (intros ->; rewrite is_cov_filter_out_same in Hc; discriminate).
      destruct (B n Hne) as [B1 B2]. apply (clean_at_frame dm st st' n a); auto.
      apply HP; [exact Hl|]. eapply memNN_filter_other; eauto.
  - (* remove *)
    assert (n <> name) as Hne by (intros ->; rewrite is_cov_filter_out_same in Hc; discriminate).
    destruct (remove_other _ _ _ _ H) as [A B]. destruct (B n Hne) as [B1 B2].
    apply (clean_at_frame dm st st' n a); auto.
    apply HP; [exact Hl|]. eapply memNN_filter_other; eauto.
  - (* clear: nothing is covered afterwards *)
    unfold is_cov in Hc. cbn in Hc. discriminate.
  - (* arm *)
    unfold arm_program in H. destruct (lookup name (regs st)) as [r|] eqn:L; inversion H; subst; auto.
    apply (clean_at_frame dm st (arm_devices st name r) n a); auto. rewrite arm_devices_progs. auto.
  - (* run *)
    unfold run_program in H. destruct (lookup name (regs st)) as [r|] eqn:L; inversion H; subst; auto.
    apply (clean_at_frame dm (arm_devices st name r)); auto.
    apply (clean_at_frame dm st (arm_devices st name r) n a); auto. rewrite arm_devices_progs. auto.
  - (* update_parameters *)
    unfold update_parameters in H. destruct (lookup name (regs st)) as [r|] eqn:L; inversion H; subst; auto.
    apply (clean_at_frame dm st); auto.
Qed.

Lemma pinv_run dm : forall h t dl,
  pinv dm t dl -> pinv dm (trun dm t h) (prun dm (t_st t) dl h).
Proof.
  induction h as [|o r IH]; intros t dl Hp; cbn; auto.
  change (trun dm (tstep dm t o) r) with (fold_left (tstep dm) r (tstep dm t o)).
  specialize (IH (tstep dm t o) (ptrack_awg dm (t_st t) o dl) (pinv_step dm t dl o Hp)).
  exact IH.
Qed.

Lemma pinv_init dm : pinv dm tinit [].
Proof.
  split; [apply framed_awg_init|]. intros n a _ _. unfold clean_at, tinit. cbn. repeat split; intros; discriminate.
Qed.

(* ---- the theorem --------------------------------------------------------------------------------------------------- *)
Theorem clean_at_histories : forall dm h n a,
  is_lost (t_awg (trun dm tinit h)) n = false ->
  memNN (n, a) (prun dm init_state [] h) = false ->
  clean_at dm (t_st (trun dm tinit h)) n a.
Proof.
  intros dm h n a Hl Hd. destruct (pinv_run dm h tinit [] (pinv_init dm)) as [_ HP]. apply HP; auto.
Qed.

(* ---- non-vacuity --------------------------------------------------------------------------------------------------- *)
(* name 0 uses channel id 1, wired on generators 0 and 1; the output on generator 1 is moved (and gets another
   transformation): name 0 is covered, but only the pair (0, generator 1) is dirty *)
Definition pd_dims : dims := fun _ => (2%Z, 1%Z).
Definition pd_history : list op :=
  [ OSetChannel 1 (ChMany [ {| s_awg := 0; s_idx := 0; s_marker := false; s_trafo := 0 |};
                            {| s_awg := 1; s_idx := 0; s_marker := false; s_trafo := 0 |} ] false) false;
    ORegister 0 {| p_tag := 1; p_chans := [1%N]; p_meas := [] |} (Some 1%N) false [0%N; 1%N];
    OSetChannel 1 (ChMany [ {| s_awg := 0; s_idx := 0; s_marker := false; s_trafo := 0 |};
                            {| s_awg := 1; s_idx := 1; s_marker := false; s_trafo := 2 |} ] false) true ].

Example perdev_example :
  is_cov (t_awg (trun pd_dims tinit pd_history)) 0%N = true
  /\ is_lost (t_awg (trun pd_dims tinit pd_history)) 0%N = false
  /\ has_key 0%N (regs (t_st (trun pd_dims tinit pd_history))) = true
  /\ memNN (0%N, 0%N) (prun pd_dims init_state [] pd_history) = false
  /\ memNN (0%N, 1%N) (prun pd_dims init_state [] pd_history) = true.
Proof. vm_compute. repeat split. Qed.

(* hence the routing clauses of the covered name 0 hold at generator 0 *)
Example perdev_example_clean_at : clean_at pd_dims (t_st (trun pd_dims tinit pd_history)) 0%N 0%N.
Proof. apply clean_at_histories; [|]; vm_compute; reflexivity. Qed.

Print Assumptions clean_at_histories.
Print Assumptions perdev_example.
