(* C18 — proof scripts *)
From Coq Require Import List ZArith NArith QArith Bool Lia.
Require Import QV.C18.Model QV.C18.Spec QV.C18.Proofs_alist QV.C18.Proofs_route QV.C18.Proofs_inv QV.C18.Proofs_dacroute QV.C18.Proofs_dacinv.
Import ListNotations.

(* a call that raises anything but ProgramOverwriteException leaves every object as it was *)
Lemma failed_step_no_effect dm st o st' e :
  step dm st o = (st', Some e) -> e <> EOverwrite -> st' = st.
Proof.
  destruct o; cbn; intros H He.
  - unfold set_channel in H.
    destruct (negb (forallb (ctor_ok dm) (charg_channels a))); [inversion H; auto|].
    destruct a as [c|cs junk|]; cbn in H.
    + destruct (negb allow && _); [inversion H; auto|]. inversion H.
    + destruct (negb allow && _); [inversion H; auto|]. destruct junk; inversion H; auto.
    + inversion H; auto.
  - unfold set_measurement in H.
    destruct a as [m|ms|]; cbn in H.
    + destruct (negb allow && _); inversion H; auto.
    + destruct (negb allow && _); inversion H; auto.
    + inversion H; auto.
  - unfold rm_channel in H. destruct (has_key id (chmap st)); inversion H; auto.
  - unfold register_program in H.
    destruct cb; [|inversion H; auto].
    destruct (negb (forallb _ (p_chans p))); [inversion H; auto|].
    destruct (negb (forallb _ (p_meas p))); [inversion H; auto|].
    destruct (channel_info dm (chmap st) (p_chans p)); [|inversion H; auto].
    destruct (negb (same_setN awg_order (keys l))); [inversion H; auto|].
    destruct (has_key name (regs st) && negb update); [inversion H; auto|].
    destruct (upload_all _ _ _ _ _ _) as [aw ok]. destruct ok; cbn in H; inversion H; subst. congruence.
  - unfold remove_program in H. destruct (lookup name (regs st)); inversion H.
  - unfold clear_programs in H. inversion H.
  - unfold arm_program in H. destruct (lookup name (regs st)); inversion H; auto.
  - unfold run_program in H. destruct (lookup name (regs st)); inversion H; auto.
  - unfold update_parameters in H. destruct (lookup name (regs st)); inversion H; auto.
Qed.

(* ---- corollaries of the generator-side invariant ---------------------------------------------------------------- *)


Lemma inv_awg_gone dm st n a :
  routing_inv_awg dm st -> lookup n (regs st) = None -> awg_gone n (awg_of st a) = true.
Proof.
  intros [_ [Hex _]] L. specialize (Hex a). apply awg_exact_iff in Hex as [_ [B _]].
  unfold awg_gone, has_key. destruct (lookup n (a_progs (awg_of st a))) as [e|] eqn:E; auto.
  destruct (B _ _ (lookup_In _ _ _ E)) as [r [Lr _]]. congruence.
Qed.

Lemma removed_gone_awg dm h name a :
  guard_C18_rewire dm init_state h = true ->
  awg_gone name (awg_of (fst (remove_program (run dm init_state h) name)) a) = true.
Proof.
  intros G. pose proof (inv_awg_histories dm h G) as Hinv.
  destruct (remove_program (run dm init_state h) name) as [st' e] eqn:R. cbn.
  pose proof (inv_awg_remove dm _ _ _ _ Hinv R) as Hinv'.
  apply (inv_awg_gone dm); auto.
  unfold remove_program in R. destruct (lookup name (regs (run dm init_state h))) as [r|] eqn:L.
  - inversion R; subst. cbn. rewrite lookup_remove, N.eqb_refl. auto.
  - inversion R; subst. auto.
Qed.

Lemma cleared_empty_awg dm h a :
  guard_C18_rewire dm init_state h = true ->
  a_progs (awg_of (fst (clear_programs (run dm init_state h))) a) = [].
Proof.
  intros G. pose proof (inv_awg_histories dm h G) as Hinv.
  destruct (clear_programs (run dm init_state h)) as [st' e] eqn:R. cbn.
  pose proof (inv_awg_clear dm _ _ _ Hinv R) as Hinv'.
  destruct (a_progs (awg_of st' a)) as [|[n e0] l] eqn:P; auto.
  assert (lookup n (regs st') = None) as L by (unfold clear_programs in R; inversion R; subst; auto).
  pose proof (inv_awg_gone dm st' n a Hinv' L) as Gn. unfold awg_gone, has_key in Gn. rewrite P in Gn.
  cbn in Gn. rewrite N.eqb_refl in Gn. discriminate.
Qed.

Lemma arm_post_awg dm h name st' :
  guard_C18_rewire dm init_state h = true ->
  arm_program (run dm init_state h) name = (st', None) ->
  exists r, lookup name (regs st') = Some r
            /\ forall a, awg_arm_post (chmap st') name (r_chans r) a (awg_of st' a) = true.
Proof.
  intros G H. pose proof (inv_awg_histories dm h G) as Hinv. set (st := run dm init_state h) in *.
  unfold arm_program in H. destruct (lookup name (regs st)) as [r|] eqn:L; [|discriminate].
  inversion H; subst st'; clear H. exists r. split; auto. intros a.
  destruct Hinv as [_ [_ [Hrec _]]].
  set (g := fun (a : N) (v : awg_st) =>
              {| a_progs := a_progs v; a_armed := if memN a (r_awgs r) then Some name else None |}).
  assert (awg_of (arm_devices st name r) a
          = if memN a (known_awgs (chmap st)) then g a (awg_of st a) else awg_of st a) as Hpt.
  { unfold arm_devices. cbn.
    pose proof (fold_upd_pointwise g (fun _ => false) (known_awgs (chmap st)) (fun _ _ => eq_refl) (awg_of st) a) as P.
    cbn in P. rewrite andb_true_r in P. exact P. }
  unfold awg_arm_post. rewrite Hpt. change (chmap (arm_devices st name r)) with (chmap st).
  rewrite <- (Hrec _ _ L a).
  destruct (memN a (r_awgs r)) eqn:M.
  - rewrite (Hrec _ _ L a) in M. rewrite (uses_known _ _ _ M). unfold g. cbn.
    rewrite <- (Hrec _ _ L a) in M. rewrite M. apply N.eqb_refl.
  - destruct (memN a (known_awgs (chmap st))); auto. unfold g. cbn. rewrite M. auto.
Qed.

(* ---- the unguarded invariant is false: known finding C18-rewire-stale ------------------------------------------- *)
Definition rewire_dims : dims := fun _ => (2%Z, 1%Z).
Definition rewire_history : list op :=
  [ OSetChannel 0 (ChMany [{| s_awg := 0; s_idx := 0; s_marker := false; s_trafo := 0 |}] false) false;
    ORegister 0 {| p_tag := 1; p_chans := [0%N]; p_meas := [] |} (Some 1%N) false [0%N];
    OSetChannel 0 (ChMany [{| s_awg := 1; s_idx := 1; s_marker := false; s_trafo := 0 |}] false) false ].

Lemma rewire_refutes : ~ routing_inv_awg rewire_dims (run rewire_dims init_state rewire_history).
Proof.
  intros [_ [Hex _]]. specialize (Hex 0%N). vm_compute in Hex. discriminate.
Qed.

Lemma rewire_all_return_normally :
  forallb (fun k => match snd (step rewire_dims (run rewire_dims init_state (firstn k rewire_history))
                                    (nth k rewire_history OClear)) with None => true | Some _ => false end)
          [0; 1; 2]%nat = true.
Proof. vm_compute. reflexivity. Qed.

(* non-vacuity: a history with registration on two generators, update that drops one of them, arming, removal and a
   harmless re-wiring satisfies the guard *)
Definition guard_example_history : list op :=
  [ OSetChannel 0 (ChMany [{| s_awg := 0; s_idx := 0; s_marker := false; s_trafo := 0 |}] false) false;
    OSetChannel 1 (ChMany [{| s_awg := 1; s_idx := 1; s_marker := false; s_trafo := 2 |};
                           {| s_awg := 0; s_idx := 0; s_marker := true; s_trafo := 0 |}] false) false;
    ORegister 0 {| p_tag := 1; p_chans := [0%N; 1%N]; p_meas := [] |} (Some 1%N) false [0%N; 1%N];
    OArm 0;
    ORegister 0 {| p_tag := 2; p_chans := [0%N]; p_meas := [] |} (Some 2%N) true [0%N];
    OSetChannel 2 (ChMany [{| s_awg := 1; s_idx := 0; s_marker := false; s_trafo := 0 |}] false) false;
    ORegister 1 {| p_tag := 3; p_chans := [2%N; 1%N]; p_meas := [] |} (Some 3%N) false [1%N; 0%N];
    ORun 1;
    ORemove 0 ].

Lemma guard_example :
  guard_C18_rewire rewire_dims init_state guard_example_history = true
  /\ keys (regs (run rewire_dims init_state guard_example_history)) = [1%N]
  /\ keys (a_progs (awg_of (run rewire_dims init_state guard_example_history) 1%N)) = [1%N].
Proof. vm_compute. auto. Qed.

(* ---- corollaries of the acquisition-device side ------------------------------------------------------------------- *)


Lemma inv_dac_full dm h :
  guard_C18_rewire dm init_state h = true -> inv_dac (run dm init_state h).
Proof. intros G. exact (inv_dac_run_history dm h init_state inv_dac_init G). Qed.

Lemma inv_dac_gone st n d : inv_dac st -> lookup n (regs st) = None -> dac_gone n (dac_of st d) = true.
Proof.
  intros [_ [Hex _]] L. specialize (Hex d). apply dac_exact_iff in Hex as [_ [B _]].
  unfold dac_gone, has_key. destruct (lookup n (d_wins (dac_of st d))) as [w|] eqn:E; auto.
  destruct (B _ _ (lookup_In _ _ _ E)) as [r [Lr _]]. congruence.
Qed.

Lemma removed_gone_dac dm h name d :
  guard_C18_rewire dm init_state h = true ->
  dac_gone name (dac_of (fst (remove_program (run dm init_state h) name)) d) = true.
Proof.
  intros G. pose proof (inv_dac_full dm h G) as Hinv.
  destruct (remove_program (run dm init_state h) name) as [st' e] eqn:R. cbn.
  pose proof (inv_dac_remove _ _ _ _ Hinv R) as Hinv'.
  apply inv_dac_gone; auto.
  unfold remove_program in R. destruct (lookup name (regs (run dm init_state h))) as [r|] eqn:L.
  - inversion R; subst. cbn. rewrite lookup_remove, N.eqb_refl. auto.
  - inversion R; subst. auto.
Qed.

Lemma cleared_empty_dac dm h d :
  guard_C18_rewire dm init_state h = true ->
  d_wins (dac_of (fst (clear_programs (run dm init_state h))) d) = [].
Proof.
  intros G. pose proof (inv_dac_full dm h G) as Hinv.
  destruct (clear_programs (run dm init_state h)) as [st' e] eqn:R. cbn.
  pose proof (inv_dac_clear _ _ _ Hinv R) as Hinv'.
  destruct (d_wins (dac_of st' d)) as [|[n w] l] eqn:P; auto.
  assert (lookup n (regs st') = None) as L by (unfold clear_programs in R; inversion R; subst; auto).
  pose proof (inv_dac_gone st' n d Hinv' L) as Gn. unfold dac_gone, has_key in Gn. rewrite P in Gn.
  cbn in Gn. rewrite N.eqb_refl in Gn. discriminate.
Qed.

Lemma arm_post_dac dm h name st' :
  guard_C18_rewire dm init_state h = true ->
  arm_program (run dm init_state h) name = (st', None) ->
  exists r, lookup name (regs st') = Some r
            /\ forall d, dac_arm_post (mmap st') name (r_meas r) d (dac_of st' d) = true.
Proof.
  intros G H. pose proof (inv_dac_full dm h G) as Hinv. set (st := run dm init_state h) in *.
  unfold arm_program in H. destruct (lookup name (regs st)) as [r|] eqn:L; [|discriminate].
  inversion H; subst st'; clear H. exists r. split; auto. intros d.
  destruct Hinv as [_ [_ [Hrec _]]].
  set (g := fun (_ : N) (v : dac_st) => {| d_wins := d_wins v; d_armed := Some name |}).
  assert (dac_of (arm_devices st name r) d = if memN d (r_dacs r) then g d (dac_of st d) else dac_of st d) as Hpt.
  { unfold arm_devices. cbn.
    pose proof (fold_upd_pointwise g (fun _ => false) (r_dacs r) (fun _ _ => eq_refl) (dac_of st) d) as P.
    cbn in P. rewrite andb_true_r in P. exact P. }
  unfold dac_arm_post. rewrite Hpt. change (mmap (arm_devices st name r)) with (mmap st).
  rewrite <- (Hrec _ _ L d). destruct (memN d (r_dacs r)); auto. cbn. apply N.eqb_refl.
Qed.
