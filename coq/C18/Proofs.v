(* C18 — proof scripts *)
From Coq Require Import List ZArith NArith QArith Bool Lia.
Require Import QV.C18.Model QV.C18.Spec.
Import ListNotations.

(* a call that raises anything but ProgramOverwriteException leaves every object as it was *)
Lemma failed_step_no_effect dm st o st' e :
  step dm st o = (st', Some e) -> e <> EOverwrite -> st' = st.
Proof.
  destruct o; cbn; intros H He.
  - unfold set_channel in H.
    destruct (negb (forallb (ctor_ok dm) (charg_channels a))); [inversion H; auto|].
    destruct a as [c|cs junk|]; cbn in H.
    + destruct (negb allow && _); [inversion H; auto|]. inversion H.
    + destruct (negb allow && _); [inversion H; auto|]. destruct junk; inversion H; auto.
    + inversion H; auto.
  - unfold set_measurement in H.
    destruct a as [m|ms|]; cbn in H.
    + destruct (negb allow && _); inversion H; auto.
    + destruct (negb allow && _); inversion H; auto.
    + inversion H; auto.
  - unfold rm_channel in H. destruct (has_key id (chmap st)); inversion H; auto.
  - unfold register_program in H.
    destruct cb; [|inversion H; auto].
    destruct (negb (forallb _ (p_chans p))); [inversion H; auto|].
    destruct (negb (forallb _ (p_meas p))); [inversion H; auto|].
    destruct (channel_info dm (chmap st) (p_chans p)); [|inversion H; auto].
    destruct (negb (same_setN awg_order (keys l))); [inversion H; auto|].
    destruct (has_key name (regs st) && negb update); [inversion H; auto|].
    destruct (upload_all _ _ _ _ _ _) as [aw ok]. destruct ok; cbn in H; inversion H; subst. congruence.
  - unfold remove_program in H. destruct (lookup name (regs st)); inversion H.
  - unfold clear_programs in H. inversion H.
  - unfold arm_program in H. destruct (lookup name (regs st)); inversion H; auto.
  - unfold run_program in H. destruct (lookup name (regs st)); inversion H; auto.
Qed.
