(* C18 round 6 - the heap model (Heap.v) judged against the implementation.  A case carries, per call, the heap events the
   harness caused before it (a new Loop object with the windows it was built with, windows attached later) and, for a
   register_program call without `measurements=`, which heap object was handed in.  check_heap: whenever such a call gets
   as far as _take_measurements, what the heap model's `take` returns must be (a) the windows the harness read off the
   never-registered twin (p_meas of the model step) and (b), if the call returned normally, the measurement windows of the
   record the real setup holds afterwards.  Object death is not reported by the harness: by C18_take_own_windows the result
   does not depend on deaths, addresses or the weak reference callback; every object gets its own address here. *)
From Coq Require Import List ZArith NArith QArith Bool.
Require Import QV.common.Util QV.C18.Model QV.C18.Spec QV.C18.Corr QV.C18.Heap.
Import ListNotations.

Inductive hcase := HCase (c : case) (ev : list (list hop * option N)).

Definition wdict_equiv (a b : wdict) : bool := alist_equiv windows_eqb a b.

Fixpoint heap_steps (hs : heap) (cm : list (N * list sch)) (steps : list (op * obs)) (ev : list (list hop * option N))
  : bool :=
  match steps, ev with
  | [], _ => true
  | _ :: _, [] => false
  | (x, ob) :: rest, (hops, who) :: evr =>
      let hs1 := fold_left hstep hops hs in
      match x, who with
      | ORegister name p cb update order, Some o =>
          if reaches_take cm (p_chans p) cb then
            let (hs2, m) := take hs1 o in
            has_key o (live hs1)
            && wdict_equiv m (p_meas p)
            && match o_err ob with
               | None => match lookup name (o_regs ob) with Some r => wdict_equiv m (r_meas r) | None => false end
               | Some _ => true
               end
            && heap_steps hs2 (o_chmap ob) rest evr
          else heap_steps hs1 (o_chmap ob) rest evr
      | _, _ => heap_steps hs1 (o_chmap ob) rest evr
      end
  end.

Definition check_heap (c : hcase) : bool :=
  match c with
  | HCase (CHist _ _ steps) ev => heap_steps heap0 [] steps ev
  | HCase CCrash _ => false
  end.

Definition check_corr_h (c : hcase) : bool := match c with HCase c0 _ => check_corr c0 end && check_heap c.
Definition check_spec_h (c : hcase) : bool := match c with HCase c0 _ => check_spec c0 end.
