(* C18 — property theorems (statements only; proofs live in Proofs*.v). *)
From Coq Require Import List ZArith NArith QArith Bool.
Require Import QV.C18.Model QV.C18.Spec QV.C18.Corr QV.C18.Proofs QV.C18.Proofs_frame_awg QV.C18.Proofs_frame_dac QV.C18.Proofs_obs QV.C18.Proofs_dev QV.C18.Proofs_perdev QV.C18.Proofs_perdev_dac QV.C18.Proofs_post QV.C18.Proofs_r5 QV.C18.Heap QV.C18.Proofs_heap.
Import ListNotations.

(* Generator side of the routing invariant, for arbitrary finite histories of operations (calls that raise included)
   that respect guard_C18_rewire (no re-wiring of a channel / measurement name while a registered program uses it):
   every generator holds exactly the registered programs that use one of its channels, each with the program object
   of the last registration and every channel id / transformation at the wired output position (Spec.awg_exact);
   the participation record of every registered program names exactly the generators the wiring gives; a generator
   is only ever armed with a program it holds. *)
Theorem C18_routing_invariant_awg : forall dm h,
  guard_C18_rewire dm init_state h = true -> routing_inv_awg dm (run dm init_state h).
Proof. exact Proofs_inv.inv_awg_histories. Qed.
Print Assumptions C18_routing_invariant_awg.

(* Without the guard the invariant is false for the unchanged code (known finding C18-rewire-stale): three calls
   that all return normally leave a program on a generator none of whose outputs the program's channel is wired to. *)
Theorem C18_routing_invariant_refuted :
  exists dm h, ~ routing_inv_awg dm (run dm init_state h).
Proof. exists rewire_dims, rewire_history. exact rewire_refutes. Qed.
Print Assumptions C18_routing_invariant_refuted.

(* the guard is satisfiable by a history that registers on two generators, updates onto one, arms, runs and removes *)
Theorem C18_guard_example :
  guard_C18_rewire rewire_dims init_state guard_example_history = true
  /\ keys (regs (run rewire_dims init_state guard_example_history)) = [1%N]
  /\ keys (a_progs (awg_of (run rewire_dims init_state guard_example_history) 1%N)) = [1%N].
Proof. exact guard_example. Qed.
Print Assumptions C18_guard_example.

(* arm_program that returns normally arms every participating generator with the program and disarms every other
   wired generator *)
Theorem C18_arm_awg : forall dm h name st',
  guard_C18_rewire dm init_state h = true ->
  arm_program (run dm init_state h) name = (st', None) ->
  exists r, lookup name (regs st') = Some r
            /\ forall a, awg_arm_post (chmap st') name (r_chans r) a (awg_of st' a) = true.
Proof. exact arm_post_awg. Qed.
Print Assumptions C18_arm_awg.

(* a removed program is gone from every generator; after clear_programs every generator is empty *)
Theorem C18_removed_awg : forall dm h name a,
  guard_C18_rewire dm init_state h = true ->
  awg_gone name (awg_of (fst (remove_program (run dm init_state h) name)) a) = true.
Proof. exact removed_gone_awg. Qed.
Print Assumptions C18_removed_awg.

Theorem C18_cleared_awg : forall dm h a,
  guard_C18_rewire dm init_state h = true ->
  a_progs (awg_of (fst (clear_programs (run dm init_state h))) a) = [].
Proof. exact cleared_empty_awg. Qed.
Print Assumptions C18_cleared_awg.

(* a call that raises anything but ProgramOverwriteException leaves every object as it was *)
Theorem C18_failed_call_no_effect : forall dm st o st' e,
  step dm st o = (st', Some e) -> e <> EOverwrite -> st' = st.
Proof. exact failed_step_no_effect. Qed.
Print Assumptions C18_failed_call_no_effect.

(* Acquisition-device side of the routing invariant, same quantification and guard: every DAC holds exactly the
   registered programs one of whose measurements is wired to one of its masks; for each such program exactly the wired
   masks, each with the program's own windows of a measurement wired to it (Spec.dac_exact / dac_entry_ok); the
   participation record names exactly those DACs; a DAC is only ever armed with a program whose windows it holds. *)
Theorem C18_routing_invariant_dac : forall dm h,
  guard_C18_rewire dm init_state h = true -> routing_inv_dac (run dm init_state h).
Proof. exact Proofs_dacinv.inv_dac_histories. Qed.
Print Assumptions C18_routing_invariant_dac.

Theorem C18_arm_dac : forall dm h name st',
  guard_C18_rewire dm init_state h = true ->
  arm_program (run dm init_state h) name = (st', None) ->
  exists r, lookup name (regs st') = Some r
            /\ forall d, dac_arm_post (mmap st') name (r_meas r) d (dac_of st' d) = true.
Proof. exact arm_post_dac. Qed.
Print Assumptions C18_arm_dac.

Theorem C18_removed_dac : forall dm h name d,
  guard_C18_rewire dm init_state h = true ->
  dac_gone name (dac_of (fst (remove_program (run dm init_state h) name)) d) = true.
Proof. exact removed_gone_dac. Qed.
Print Assumptions C18_removed_dac.

Theorem C18_cleared_dac : forall dm h d,
  guard_C18_rewire dm init_state h = true ->
  d_wins (dac_of (fst (clear_programs (run dm init_state h))) d) = [].
Proof. exact cleared_empty_dac. Qed.
Print Assumptions C18_cleared_dac.

(* ================================================================================================================ *)
(* Round 2: EVERY history, no guard.  `trun` runs the model and, next to it, the executable status of every program
   name on each side (Spec.track_awg / track_dac): clean, covered (wiring of a used name changed after registration;
   copies exactly on the recorded devices), lost (clear_programs while a recorded device was un-wired). *)

Theorem C18_tracked_state : forall dm h, t_st (trun dm tinit h) = run dm init_state h.
Proof. intros dm h. exact (t_st_run dm h tinit). Qed.
Print Assumptions C18_tracked_state.

(* for every history: the routing clauses (exact holders, channel ids / transformations at the wired outputs, exact
   record) for every clean name; registered + copies exactly on the recorded generators for every covered name;
   armed => held for every name that is not lost *)
Theorem C18_framed_invariant_awg : forall dm h,
  framed_inv_awg dm (t_awg (trun dm tinit h)) (t_st (trun dm tinit h)).
Proof. exact framed_awg_histories. Qed.
Print Assumptions C18_framed_invariant_awg.

Theorem C18_framed_invariant_dac : forall dm h,
  framed_inv_dac (t_dac (trun dm tinit h)) (t_st (trun dm tinit h)).
Proof. exact framed_dac_histories. Qed.
Print Assumptions C18_framed_invariant_dac.

(* under the guard of round 1 every name stays clean on both sides: the guarded theorems above are instances *)
Theorem C18_guard_implies_clean : forall dm h,
  guard_C18_rewire dm init_state h = true ->
  t_awg (trun dm tinit h) = ([], []) /\ t_dac (trun dm tinit h) = ([], []).
Proof. intros dm h G. split; [apply guard_clean | apply guard_clean_dac]; exact G. Qed.
Print Assumptions C18_guard_implies_clean.

(* arming a clean name, after any history *)
Theorem C18_arm_awg_any_history : forall dm h name st',
  is_clean (t_awg (trun dm tinit h)) name = true ->
  arm_program (t_st (trun dm tinit h)) name = (st', None) ->
  exists r, lookup name (regs st') = Some r
            /\ forall a, awg_arm_post (chmap st') name (r_chans r) a (awg_of st' a) = true.
Proof. exact framed_arm_awg. Qed.
Print Assumptions C18_arm_awg_any_history.

Theorem C18_arm_dac_any_history : forall dm h name st',
  is_clean (t_dac (trun dm tinit h)) name = true ->
  arm_program (t_st (trun dm tinit h)) name = (st', None) ->
  exists r, lookup name (regs st') = Some r
            /\ forall d, dac_arm_post (mmap st') name (r_meas r) d (dac_of st' d) = true.
Proof. exact framed_arm_dac. Qed.
Print Assumptions C18_arm_dac_any_history.

(* removing a name that is not lost (clean OR covered) removes it from every device, after any history *)
Theorem C18_removed_awg_any_history : forall dm h name a,
  is_lost (t_awg (trun dm tinit h)) name = false ->
  awg_gone name (awg_of (fst (remove_program (t_st (trun dm tinit h)) name)) a) = true.
Proof. exact framed_removed_awg. Qed.
Print Assumptions C18_removed_awg_any_history.

Theorem C18_removed_dac_any_history : forall dm h name d,
  is_lost (t_dac (trun dm tinit h)) name = false ->
  dac_gone name (dac_of (fst (remove_program (t_st (trun dm tinit h)) name)) d) = true.
Proof. exact framed_removed_dac. Qed.
Print Assumptions C18_removed_dac_any_history.

(* after clear_programs, whatever a device still holds is a lost name *)
Theorem C18_cleared_awg_any_history : forall dm h a n,
  has_key n (a_progs (awg_of (t_st (trun dm tinit (h ++ [OClear]))) a)) = true ->
  is_lost (t_awg (trun dm tinit (h ++ [OClear]))) n = true.
Proof. exact framed_cleared_awg. Qed.
Print Assumptions C18_cleared_awg_any_history.

Theorem C18_cleared_dac_any_history : forall dm h d n,
  has_key n (d_wins (dac_of (t_st (trun dm tinit (h ++ [OClear]))) d)) = true ->
  is_lost (t_dac (trun dm tinit (h ++ [OClear]))) n = true.
Proof. exact framed_cleared_dac. Qed.
Print Assumptions C18_cleared_dac_any_history.

(* update_parameters of a clean name hands the parameters to exactly the generators the program uses, each once *)
Theorem C18_update_parameters : forall dm h name ptag st',
  is_clean (t_awg (trun dm tinit h)) name = true ->
  update_parameters (t_st (trun dm tinit h)) name ptag = (st', None) ->
  exists r got rest, lookup name (regs st') = Some r /\ vollog st' = (name, ptag, got) :: rest
                     /\ delivered_ok (chmap st') (r_chans r) got.
Proof. exact framed_update_parameters. Qed.
Print Assumptions C18_update_parameters.

(* non-vacuity of the statuses: re-wiring makes the name covered, register_program(update=True) makes it clean again
   and the device that dropped out is empty; rm_channel + clear_programs loses the copy (still on generator 0);
   a second mask object for the same (device, mask name) keeps the name clean *)
Theorem C18_restore_example :
  is_cov (t_awg (trun restore_dims tinit restore_history)) 0%N = true
  /\ is_clean (t_awg (trun restore_dims tinit (restore_history ++ [restore_update]))) 0%N = true
  /\ keys (a_progs (awg_of (t_st (trun restore_dims tinit (restore_history ++ [restore_update]))) 0%N)) = []
  /\ keys (a_progs (awg_of (t_st (trun restore_dims tinit (restore_history ++ [restore_update]))) 1%N)) = [0%N]
  /\ is_lost (t_awg (trun restore_dims tinit (restore_history ++ [ORmChannel 0; OClear]))) 0%N = true
  /\ keys (a_progs (awg_of (t_st (trun restore_dims tinit (restore_history ++ [ORmChannel 0; OClear]))) 0%N)) = [0%N].
Proof. exact restore_example. Qed.
Print Assumptions C18_restore_example.

Theorem C18_restore_example_dac :
  is_clean (t_dac (trun restore_dims tinit dac_h1)) 0%N = true
  /\ is_cov (t_dac (trun restore_dims tinit dac_h2)) 0%N = true
  /\ is_clean (t_dac (trun restore_dims tinit dac_h3)) 0%N = true
  /\ keys (d_wins (dac_of (t_st (trun restore_dims tinit dac_h3)) 0%N)) = []
  /\ keys (d_wins (dac_of (t_st (trun restore_dims tinit dac_h3)) 1%N)) = [0%N].
Proof. exact dac_restore_example. Qed.
Print Assumptions C18_restore_example_dac.

(* ================================================================================================================ *)
(* Round 3 *)

(* arm_program for a COVERED name (wiring of a used name changed after registration), after any history:
   every wired generator that holds a copy is armed with it, every wired generator that does not is disarmed, a
   generator that is no longer wired keeps its state (so a copy on it is NOT armed: part of the known finding) *)
Theorem C18_arm_awg_covered : forall dm h name st',
  is_cov (t_awg (trun dm tinit h)) name = true ->
  arm_program (t_st (trun dm tinit h)) name = (st', None) ->
  forall a,
    has_key name (a_progs (awg_of st' a)) = has_key name (a_progs (awg_of (t_st (trun dm tinit h)) a))
    /\ a_armed (awg_of st' a)
       = if memN a (known_awgs (chmap st'))
         then (if has_key name (a_progs (awg_of st' a)) then Some name else None)
         else a_armed (awg_of (t_st (trun dm tinit h)) a).
Proof. exact framed_arm_awg_covered. Qed.
Print Assumptions C18_arm_awg_covered.

(* ... and every acquisition device that holds windows of the name is armed with it; the others are not touched *)
Theorem C18_arm_dac_covered : forall dm h name st',
  is_cov (t_dac (trun dm tinit h)) name = true ->
  arm_program (t_st (trun dm tinit h)) name = (st', None) ->
  forall d,
    has_key name (d_wins (dac_of st' d)) = has_key name (d_wins (dac_of (t_st (trun dm tinit h)) d))
    /\ d_armed (dac_of st' d)
       = if has_key name (d_wins (dac_of st' d)) then Some name else d_armed (dac_of (t_st (trun dm tinit h)) d).
Proof. exact framed_arm_dac_covered. Qed.
Print Assumptions C18_arm_dac_covered.

(* arm_program in any state, whatever the status of the name: by the participation record *)
Theorem C18_arm_by_record : forall st name st',
  arm_program st name = (st', None) ->
  exists r, lookup name (regs st) = Some r
    /\ (forall a, a_progs (awg_of st' a) = a_progs (awg_of st a)
                  /\ a_armed (awg_of st' a) = if memN a (known_awgs (chmap st))
                                              then (if memN a (r_awgs r) then Some name else None)
                                              else a_armed (awg_of st a))
    /\ (forall d, d_wins (dac_of st' d) = d_wins (dac_of st d)
                  /\ d_armed (dac_of st' d) = if memN d (r_dacs r) then Some name else d_armed (dac_of st d)).
Proof. exact arm_by_record. Qed.
Print Assumptions C18_arm_by_record.

(* update_parameters of a covered name reaches exactly the wired generators that hold a copy, each once *)
Theorem C18_update_parameters_covered : forall dm h name ptag st',
  is_cov (t_awg (trun dm tinit h)) name = true ->
  update_parameters (t_st (trun dm tinit h)) name ptag = (st', None) ->
  exists got rest, vollog st' = (name, ptag, got) :: rest /\ NoDup got
    /\ forall a, In a got <-> memN a (known_awgs (chmap st')) = true
                              /\ has_key name (a_progs (awg_of st' a)) = true.
Proof. exact framed_update_parameters_covered. Qed.
Print Assumptions C18_update_parameters_covered.

(* the status tracker of the observation-level check (Corr.check_framed, which decides known finding vs VIOLATION) is
   Spec.track_awg / track_dac on the model's own views *)
Theorem C18_otrack_awg_is_track : forall dm na nd st o e0 cl,
  otrack_awg o (view na nd e0 st) (view na nd (snd (step dm st o)) (fst (step dm st o))) cl = track_awg dm st o cl.
Proof. exact otrack_awg_view. Qed.
Print Assumptions C18_otrack_awg_is_track.

Theorem C18_otrack_dac_is_track : forall dm na nd st o e0 cl,
  otrack_dac o (view na nd e0 st) (view na nd (snd (step dm st o)) (fst (step dm st o))) cl = track_dac dm st o cl.
Proof. exact otrack_dac_view. Qed.
Print Assumptions C18_otrack_dac_is_track.

(* the framed invariant as evaluated on observations (Corr.framed_obs_awg / framed_obs_dac) accepts the model's view
   after EVERY history (raising calls included) on every bench that contains the recorded devices: a rejection on the
   implementation's observation is a disagreement with the proved invariant, never an artefact of the boolean check *)
Theorem C18_framed_obs_accepts_model : forall dm h na nd e,
  let t := trun dm tinit h in
  (forall n r, lookup n (regs (t_st t)) = Some r ->
     (forall a, In a (r_awgs r) -> (N.to_nat a < na)%nat) /\ (forall d, In d (r_dacs r) -> (N.to_nat d < nd)%nat)) ->
  framed_obs_awg dm (t_awg t) (view na nd e (t_st t)) = true
  /\ framed_obs_dac (t_dac t) (view na nd e (t_st t)) = true.
Proof. exact framed_obs_histories. Qed.
Print Assumptions C18_framed_obs_accepts_model.

(* towards a status per (generator, name): a set_channel / rm_channel on a channel id that leaves the members of its
   wiring on generator a as they were (the id is moved / extended / cut on OTHER generators) keeps the three clean
   clauses (held => registered, uses a, tuples as wired; registered and uses a => held; record names a iff it uses a)
   of every name at generator a.  Single step, any state; the per-(generator, name) status over histories is open. *)
Theorem C18_rewire_frame_per_device : forall dm st o id st' e n a,
  (o = ORmChannel id \/ exists arg allow, o = OSetChannel id arg allow) ->
  step dm st o = (st', e) ->
  same_members sch_full_eqb (on_awg a (get_set id (chmap st))) (on_awg a (get_set id (chmap st'))) = true ->
  clean_at dm st n a -> clean_at dm st' n a.
Proof. exact rewire_frame_per_device. Qed.
Print Assumptions C18_rewire_frame_per_device.

(* clean_at is the per-generator reading of the clean clauses of the framed invariant *)
Theorem C18_clean_at_all_generators : forall dm st n,
  clean_ok dm st n <-> forall a, clean_at dm st n a.
Proof. exact clean_ok_at. Qed.
Print Assumptions C18_clean_at_all_generators.

(* ================================================================================================================ *)
(* Round 4 *)

(* status per (name, generator), threaded through EVERY history (raising calls included): `prun` lists the dirty pairs
   (n, a) = a channel id used by name n was re-wired ON generator a since the last (re-)registration of n.  For every
   name that is not lost and every generator at which it is not dirty the three routing clauses of the name hold at
   that generator (held => registered, uses a, channel ids / transformations at the wired outputs of a; registered and
   uses a => held; the record names a iff the program uses a) - even when the name is "covered" on the generator side
   because its wiring changed on OTHER generators. *)
Theorem C18_clean_at_histories : forall dm h n a,
  is_lost (t_awg (trun dm tinit h)) n = false ->
  memNN (n, a) (prun dm init_state [] h) = false ->
  clean_at dm (t_st (trun dm tinit h)) n a.
Proof. exact clean_at_histories. Qed.
Print Assumptions C18_clean_at_histories.

(* non-vacuity: name 0 uses channel id 1 on generators 0 and 1; the output on generator 1 is moved: the name is covered,
   the pair (0, generator 0) is not dirty, (0, generator 1) is *)
Theorem C18_per_device_example :
  is_cov (t_awg (trun pd_dims tinit pd_history)) 0%N = true
  /\ is_lost (t_awg (trun pd_dims tinit pd_history)) 0%N = false
  /\ has_key 0%N (regs (t_st (trun pd_dims tinit pd_history))) = true
  /\ memNN (0%N, 0%N) (prun pd_dims init_state [] pd_history) = false
  /\ memNN (0%N, 1%N) (prun pd_dims init_state [] pd_history) = true.
Proof. exact perdev_example. Qed.
Print Assumptions C18_per_device_example.

(* the same per (name, acquisition device): `prun_dac` lists the pairs (n, d) = a measurement name used by n was re-wired
   ON device d (another set of (device, mask name) pairs on d) since the last (re-)registration of n.  Not lost and not
   dirty at d => the three routing clauses hold at d (held windows => registered, uses d, exactly the wired masks of d
   with the program's own windows; registered and uses d => held; the record names d iff the program uses d) *)
Theorem C18_dclean_at_histories : forall dm h n d,
  is_lost (t_dac (trun dm tinit h)) n = false ->
  memNN (n, d) (prun_dac dm init_state [] h) = false ->
  dclean_at (t_st (trun dm tinit h)) n d.
Proof. exact dclean_at_histories. Qed.
Print Assumptions C18_dclean_at_histories.

Theorem C18_per_device_example_dac :
  is_cov (t_dac (trun pdd_dims tinit pdd_history)) 0%N = true
  /\ is_lost (t_dac (trun pdd_dims tinit pdd_history)) 0%N = false
  /\ has_key 0%N (regs (t_st (trun pdd_dims tinit pdd_history))) = true
  /\ has_key 0%N (d_wins (dac_of (t_st (trun pdd_dims tinit pdd_history)) 0%N)) = true
  /\ has_key 0%N (d_wins (dac_of (t_st (trun pdd_dims tinit pdd_history)) 1%N)) = true
  /\ memNN (0%N, 0%N) (prun_dac pdd_dims init_state [] pdd_history) = false
  /\ memNN (0%N, 1%N) (prun_dac pdd_dims init_state [] pdd_history) = true.
Proof. exact perdev_dac_example. Qed.
Print Assumptions C18_per_device_example_dac.

(* per-device clauses are the per-name clauses read device by device *)
Theorem C18_dclean_at_all_devices : forall st n, dclean_ok st n <-> forall d, dclean_at st n d.
Proof. exact dclean_ok_at. Qed.
Print Assumptions C18_dclean_at_all_devices.

(* the observation-level check evaluates the per-(name, device) status: its trackers are Spec.ptrack_awg / ptrack_dac on
   the model's own views, and its per-device clauses (Corr.perdev_obs_awg / perdev_obs_dac: every name that is not lost,
   at every device of the bench where it is not dirty, satisfies the routing clauses - covered names included) accept
   the model's view after EVERY history *)
Theorem C18_optrack_awg_is_ptrack : forall dm na nd st o e0 dl,
  optrack_awg o (view na nd e0 st) (view na nd (snd (step dm st o)) (fst (step dm st o))) dl = ptrack_awg dm st o dl.
Proof. exact optrack_awg_view. Qed.
Print Assumptions C18_optrack_awg_is_ptrack.

Theorem C18_optrack_dac_is_ptrack : forall dm na nd st o e0 dl,
  optrack_dac o (view na nd e0 st) (view na nd (snd (step dm st o)) (fst (step dm st o))) dl = ptrack_dac dm st o dl.
Proof. exact optrack_dac_view. Qed.
Print Assumptions C18_optrack_dac_is_ptrack.

Theorem C18_perdev_obs_accepts_model : forall dm h na nd e,
  let t := trun dm tinit h in
  perdev_obs_awg dm (t_awg t) (prun dm init_state [] h) (view na nd e (t_st t)) = true
  /\ perdev_obs_dac (t_dac t) (prun_dac dm init_state [] h) (view na nd e (t_st t)) = true.
Proof. exact perdev_obs_histories. Qed.
Print Assumptions C18_perdev_obs_accepts_model.

(* the post-condition clauses of the observation-level framed check (Corr.fpost_ok: remove / clear / arm / run /
   update_parameters by status, register: the record is the program just given, other records untouched; Corr.logs_ok:
   only run_program calls a callback, only update_parameters hands out parameters) accept the model's own views for
   every normally returning call after EVERY history of well-formed operations (op_wf: the measurement mapping of a
   program has distinct keys) *)
Theorem C18_fpost_accepts_model : forall dm h na nd o e0,
  forallb op_wf h = true -> op_wf o = true ->
  let t := trun dm tinit h in
  snd (step dm (t_st t) o) = None ->
  (forall n r, lookup n (regs (fst (step dm (t_st t) o))) = Some r -> forall a, In a (r_awgs r) -> (N.to_nat a < na)%nat) ->
  fpost_ok o (track_awg dm (t_st t) o (t_awg t)) (track_dac dm (t_st t) o (t_dac t))
           (view na nd e0 (t_st t)) (view na nd None (fst (step dm (t_st t) o))) = true
  /\ logs_ok o (view na nd e0 (t_st t)) (view na nd None (fst (step dm (t_st t) o))) = true.
Proof. intros dm h na nd o e0 Hw Ho t He Hr. exact (fpost_model dm h na nd Hw o e0 Ho He Hr). Qed.
Print Assumptions C18_fpost_accepts_model.

(* ... hence Corr.check_framed AS A WHOLE (status tracking per name and per (name, device), framed invariant, per-device
   clauses, post-conditions, call logs; it keeps
   speaking after raising calls) accepts the model's own trace of every history of well-formed operations on a bench
   that contains every recorded device: a VIOLATION verdict of the framed check on the implementation's observations
   is always a disagreement with a proved statement about the model, never an artefact of the boolean check *)
Theorem C18_check_framed_accepts_model : forall dl nd h,
  forallb op_wf h = true ->
  bench_ok (dims_of dl) (length dl) nd init_state h = true ->
  check_framed (CHist dl nd (model_steps (dims_of dl) (length dl) nd init_state h)) = true.
Proof. exact check_framed_accepts_model. Qed.
Print Assumptions C18_check_framed_accepts_model.

(* non-vacuity: both hypotheses hold for a history with a covered name, update re-registration, arm, run,
   update_parameters, remove and clear *)
Theorem C18_check_framed_example :
  forallb op_wf post_example_history = true
  /\ bench_ok (dims_of post_example_dl) 2 2 init_state post_example_history = true
  /\ is_cov (t_awg (trun (dims_of post_example_dl) tinit restore_history)) 0%N = true
  /\ check_framed (CHist post_example_dl 2 (model_steps (dims_of post_example_dl) 2 2 init_state post_example_history)) = true.
Proof. exact post_example. Qed.
Print Assumptions C18_check_framed_example.

(* ================================================================================================================ *)
(* Round 5 (clause audit): "arming ... disarms ALL OTHER generators".  C18_arm_awg only speaks about wired generators
   (Spec.awg_arm_post says nothing about a generator outside known_awgs).  Under the guard the clause holds for EVERY
   generator id, wired or not: after arm_program(name) a generator is armed with the name iff the program uses one of its
   channels, and is not armed at all otherwise (an un-wired generator cannot be armed: armed => held => used => wired).
   Without the guard this is false for un-wired generators (they keep their state: part of C18-rewire-stale, see
   C18_arm_awg_covered / C18_arm_by_record). *)
Theorem C18_arm_awg_exact : forall dm h name st',
  guard_C18_rewire dm init_state h = true ->
  arm_program (run dm init_state h) name = (st', None) ->
  exists r, lookup name (regs st') = Some r
            /\ forall a, a_armed (awg_of st' a) = if uses_awg (chmap st') (r_chans r) a then Some name else None.
Proof. exact arm_exact_awg. Qed.
Print Assumptions C18_arm_awg_exact.

Theorem C18_arm_awg_exact_example :
  guard_C18_rewire rewire_dims init_state arm_exact_history = true
  /\ snd (arm_program (run rewire_dims init_state arm_exact_history) 0%N) = None
  /\ map (fun a => a_armed (awg_of (fst (arm_program (run rewire_dims init_state arm_exact_history) 0%N)) a)) [0%N; 1%N; 7%N]
     = [Some 0%N; None; None].
Proof. exact arm_exact_example. Qed.
Print Assumptions C18_arm_awg_exact_example.

(* ================================================================================================================ *)
(* Round 6: clause S4 "... equal to the program's own windows".  Until now the windows a registration works with
   (p_meas) were an input of the model; that they are the Loop object's own windows was tested only.  Heap.v models the
   setup's per-object memory (_take_measurements: id()-keyed table, weak reference + identity test, `if windows` store)
   on a heap with object death and address reuse.  For EVERY history of allocations, attachments, takes and deaths (the
   weak reference callback may or may not run) _take_measurements returns, for a live object, exactly everything that was
   ever attached to this very object (ghost list h_own, collected per name in order of first appearance) - however
   often the setup has stripped it before and whatever a dead object at the same address left in the table. *)
Theorem C18_take_own_windows : forall h o ob,
  lookup o (live (hrun h)) = Some ob -> snd (take (hrun h) o) = collect (h_own ob).
Proof. exact take_own_windows. Qed.
Print Assumptions C18_take_own_windows.

(* handing the very same object in again yields the same windows (the defect repaired by bc650d0) *)
Theorem C18_take_twice : forall h o ob,
  lookup o (live (hrun h)) = Some ob -> snd (take (fst (take (hrun h) o)) o) = snd (take (hrun h) o).
Proof. exact take_twice. Qed.
Print Assumptions C18_take_twice.

(* composed with the routing model: in every history of the combined machine (heap events, every Model operation,
   registrations of heap objects) a register_program call that reaches _take_measurements IS Model.register_program on
   the object's own windows, and if it returns normally the record holds this object and its own windows (what the
   acquisition devices hold relative to the record is dac_entry_ok of the S3/S4 theorems above). *)
Theorem C18_register_own_windows : forall dm ch name o chans cb update order ob,
  lookup o (live (fst (crun dm ch))) = Some ob ->
  reaches_take (chmap (snd (crun dm ch))) chans cb = true ->
  let own := collect (h_own ob) in
  let res := register_program dm (snd (crun dm ch)) name {| p_tag := o; p_chans := chans; p_meas := own |} cb update order in
  snd (cstep dm (crun dm ch) (CRegObj name o chans cb update order)) = fst res
  /\ (snd res = None -> exists r, lookup name (regs (fst res)) = Some r /\ r_tag r = o /\ r_meas r = own).
Proof. exact register_own_windows. Qed.
Print Assumptions C18_register_own_windows.

(* a call that does not reach _take_measurements raises without effect, whatever the measurements are *)
Theorem C18_register_not_reached : forall dm st name o chans m cb update order,
  reaches_take (chmap st) chans cb = false ->
  snd (register_program dm st name {| p_tag := o; p_chans := chans; p_meas := m |} cb update order) <> None
  /\ fst (register_program dm st name {| p_tag := o; p_chans := chans; p_meas := m |} cb update order) = st.
Proof. exact not_reached_raises. Qed.
Print Assumptions C18_register_not_reached.

(* non-vacuity: object 1 dies and leaves its table entry behind (no callback), object 2 is allocated at the same address,
   gets windows of two names, is stripped by a take and gets a further window attached afterwards *)
Theorem C18_take_own_windows_example :
  exists ob, lookup 2%N (live (hrun heap_example)) = Some ob
    /\ snd (take (hrun heap_example) 2) = [(7%N, ([3#1; 0#1], [1#1; 2#1])); (8%N, w3)].
Proof. exact heap_example_ok. Qed.
Print Assumptions C18_take_own_windows_example.
