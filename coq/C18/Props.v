(* C18 — property theorems (statements only; proofs live in Proofs*.v). *)
From Coq Require Import List ZArith NArith QArith Bool.
Require Import QV.C18.Model QV.C18.Spec QV.C18.Proofs.
Import ListNotations.

(* Generator side of the routing invariant, for arbitrary finite histories of operations (calls that raise included)
   that respect guard_C18_rewire (no re-wiring of a channel / measurement name while a registered program uses it):
   every generator holds exactly the registered programs that use one of its channels, each with the program object
   of the last registration and every channel id / transformation at the wired output position (Spec.awg_exact);
   the participation record of every registered program names exactly the generators the wiring gives; a generator
   is only ever armed with a program it holds. *)
Theorem C18_routing_invariant_awg : forall dm h,
  guard_C18_rewire dm init_state h = true -> routing_inv_awg dm (run dm init_state h).
Proof. exact Proofs_inv.inv_awg_histories. Qed.
Print Assumptions C18_routing_invariant_awg.

(* Without the guard the invariant is false for the unchanged code (known finding C18-rewire-stale): three calls
   that all return normally leave a program on a generator none of whose outputs the program's channel is wired to. *)
Theorem C18_routing_invariant_refuted :
  exists dm h, ~ routing_inv_awg dm (run dm init_state h).
Proof. exists rewire_dims, rewire_history. exact rewire_refutes. Qed.
Print Assumptions C18_routing_invariant_refuted.

(* the guard is satisfiable by a history that registers on two generators, updates onto one, arms, runs and removes *)
Theorem C18_guard_example :
  guard_C18_rewire rewire_dims init_state guard_example_history = true
  /\ keys (regs (run rewire_dims init_state guard_example_history)) = [1%N]
  /\ keys (a_progs (awg_of (run rewire_dims init_state guard_example_history) 1%N)) = [1%N].
Proof. exact guard_example. Qed.
Print Assumptions C18_guard_example.

(* arm_program that returns normally arms every participating generator with the program and disarms every other
   wired generator *)
Theorem C18_arm_awg : forall dm h name st',
  guard_C18_rewire dm init_state h = true ->
  arm_program (run dm init_state h) name = (st', None) ->
  exists r, lookup name (regs st') = Some r
            /\ forall a, awg_arm_post (chmap st') name (r_chans r) a (awg_of st' a) = true.
Proof. exact arm_post_awg. Qed.
Print Assumptions C18_arm_awg.

(* a removed program is gone from every generator; after clear_programs every generator is empty *)
Theorem C18_removed_awg : forall dm h name a,
  guard_C18_rewire dm init_state h = true ->
  awg_gone name (awg_of (fst (remove_program (run dm init_state h) name)) a) = true.
Proof. exact removed_gone_awg. Qed.
Print Assumptions C18_removed_awg.

Theorem C18_cleared_awg : forall dm h a,
  guard_C18_rewire dm init_state h = true ->
  a_progs (awg_of (fst (clear_programs (run dm init_state h))) a) = [].
Proof. exact cleared_empty_awg. Qed.
Print Assumptions C18_cleared_awg.

(* a call that raises anything but ProgramOverwriteException leaves every object as it was *)
Theorem C18_failed_call_no_effect : forall dm st o st' e,
  step dm st o = (st', Some e) -> e <> EOverwrite -> st' = st.
Proof. exact failed_step_no_effect. Qed.
Print Assumptions C18_failed_call_no_effect.

(* Acquisition-device side of the routing invariant, same quantification and guard: every DAC holds exactly the
   registered programs one of whose measurements is wired to one of its masks; for each such program exactly the wired
   masks, each with the program's own windows of a measurement wired to it (Spec.dac_exact / dac_entry_ok); the
   participation record names exactly those DACs; a DAC is only ever armed with a program whose windows it holds. *)
Theorem C18_routing_invariant_dac : forall dm h,
  guard_C18_rewire dm init_state h = true -> routing_inv_dac (run dm init_state h).
Proof. exact Proofs_dacinv.inv_dac_histories. Qed.
Print Assumptions C18_routing_invariant_dac.

Theorem C18_arm_dac : forall dm h name st',
  guard_C18_rewire dm init_state h = true ->
  arm_program (run dm init_state h) name = (st', None) ->
  exists r, lookup name (regs st') = Some r
            /\ forall d, dac_arm_post (mmap st') name (r_meas r) d (dac_of st' d) = true.
Proof. exact arm_post_dac. Qed.
Print Assumptions C18_arm_dac.

Theorem C18_removed_dac : forall dm h name d,
  guard_C18_rewire dm init_state h = true ->
  dac_gone name (dac_of (fst (remove_program (run dm init_state h) name)) d) = true.
Proof. exact removed_gone_dac. Qed.
Print Assumptions C18_removed_dac.

Theorem C18_cleared_dac : forall dm h d,
  guard_C18_rewire dm init_state h = true ->
  d_wins (dac_of (fst (clear_programs (run dm init_state h))) d) = [].
Proof. exact cleared_empty_dac. Qed.
Print Assumptions C18_cleared_dac.
