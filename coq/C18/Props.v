(* C18 — property theorems (statements only; proofs live in Proofs*.v). *)
From Coq Require Import List ZArith NArith QArith Bool.
Require Import QV.C18.Model QV.C18.Spec QV.C18.Proofs.
Import ListNotations.

(* a call that raises anything but ProgramOverwriteException leaves every object as it was *)
Theorem C18_failed_call_no_effect : forall dm st o st' e,
  step dm st o = (st', Some e) -> e <> EOverwrite -> st' = st.
Proof. exact failed_step_no_effect. Qed.
Print Assumptions C18_failed_call_no_effect.
