(* C18 — property theorems (statements only; proofs live in Proofs*.v). *)
From Coq Require Import List ZArith NArith QArith Bool.
Require Import QV.C18.Model QV.C18.Spec QV.C18.Proofs QV.C18.Proofs_frame_awg QV.C18.Proofs_frame_dac.
Import ListNotations.

(* Generator side of the routing invariant, for arbitrary finite histories of operations (calls that raise included)
   that respect guard_C18_rewire (no re-wiring of a channel / measurement name while a registered program uses it):
   every generator holds exactly the registered programs that use one of its channels, each with the program object
   of the last registration and every channel id / transformation at the wired output position (Spec.awg_exact);
   the participation record of every registered program names exactly the generators the wiring gives; a generator
   is only ever armed with a program it holds. *)
Theorem C18_routing_invariant_awg : forall dm h,
  guard_C18_rewire dm init_state h = true -> routing_inv_awg dm (run dm init_state h).
Proof. exact Proofs_inv.inv_awg_histories. Qed.
Print Assumptions C18_routing_invariant_awg.

(* Without the guard the invariant is false for the unchanged code (known finding C18-rewire-stale): three calls
   that all return normally leave a program on a generator none of whose outputs the program's channel is wired to. *)
Theorem C18_routing_invariant_refuted :
  exists dm h, ~ routing_inv_awg dm (run dm init_state h).
Proof. exists rewire_dims, rewire_history. exact rewire_refutes. Qed.
Print Assumptions C18_routing_invariant_refuted.

(* the guard is satisfiable by a history that registers on two generators, updates onto one, arms, runs and removes *)
Theorem C18_guard_example :
  guard_C18_rewire rewire_dims init_state guard_example_history = true
  /\ keys (regs (run rewire_dims init_state guard_example_history)) = [1%N]
  /\ keys (a_progs (awg_of (run rewire_dims init_state guard_example_history) 1%N)) = [1%N].
Proof. exact guard_example. Qed.
Print Assumptions C18_guard_example.

(* arm_program that returns normally arms every participating generator with the program and disarms every other
   wired generator *)
Theorem C18_arm_awg : forall dm h name st',
  guard_C18_rewire dm init_state h = true ->
  arm_program (run dm init_state h) name = (st', None) ->
  exists r, lookup name (regs st') = Some r
            /\ forall a, awg_arm_post (chmap st') name (r_chans r) a (awg_of st' a) = true.
Proof. exact arm_post_awg. Qed.
Print Assumptions C18_arm_awg.

(* a removed program is gone from every generator; after clear_programs every generator is empty *)
Theorem C18_removed_awg : forall dm h name a,
  guard_C18_rewire dm init_state h = true ->
  awg_gone name (awg_of (fst (remove_program (run dm init_state h) name)) a) = true.
Proof. exact removed_gone_awg. Qed.
Print Assumptions C18_removed_awg.

Theorem C18_cleared_awg : forall dm h a,
  guard_C18_rewire dm init_state h = true ->
  a_progs (awg_of (fst (clear_programs (run dm init_state h))) a) = [].
Proof. exact cleared_empty_awg. Qed.
Print Assumptions C18_cleared_awg.

(* a call that raises anything but ProgramOverwriteException leaves every object as it was *)
Theorem C18_failed_call_no_effect : forall dm st o st' e,
  step dm st o = (st', Some e) -> e <> EOverwrite -> st' = st.
Proof. exact failed_step_no_effect. Qed.
Print Assumptions C18_failed_call_no_effect.

(* Acquisition-device side of the routing invariant, same quantification and guard: every DAC holds exactly the
   registered programs one of whose measurements is wired to one of its masks; for each such program exactly the wired
   masks, each with the program's own windows of a measurement wired to it (Spec.dac_exact / dac_entry_ok); the
   participation record names exactly those DACs; a DAC is only ever armed with a program whose windows it holds. *)
Theorem C18_routing_invariant_dac : forall dm h,
  guard_C18_rewire dm init_state h = true -> routing_inv_dac (run dm init_state h).
Proof. exact Proofs_dacinv.inv_dac_histories. Qed.
Print Assumptions C18_routing_invariant_dac.

Theorem C18_arm_dac : forall dm h name st',
  guard_C18_rewire dm init_state h = true ->
  arm_program (run dm init_state h) name = (st', None) ->
  exists r, lookup name (regs st') = Some r
            /\ forall d, dac_arm_post (mmap st') name (r_meas r) d (dac_of st' d) = true.
Proof. exact arm_post_dac. Qed.
Print Assumptions C18_arm_dac.

Theorem C18_removed_dac : forall dm h name d,
  guard_C18_rewire dm init_state h = true ->
  dac_gone name (dac_of (fst (remove_program (run dm init_state h) name)) d) = true.
Proof. exact removed_gone_dac. Qed.
Print Assumptions C18_removed_dac.

Theorem C18_cleared_dac : forall dm h d,
  guard_C18_rewire dm init_state h = true ->
  d_wins (dac_of (fst (clear_programs (run dm init_state h))) d) = [].
Proof. exact cleared_empty_dac. Qed.
Print Assumptions C18_cleared_dac.

(* ================================================================================================================ *)
(* Round 2: EVERY history, no guard.  `trun` runs the model and, next to it, the executable status of every program
   name on each side (Spec.track_awg / track_dac): clean, covered (wiring of a used name changed after registration;
   copies exactly on the recorded devices), lost (clear_programs while a recorded device was un-wired). *)

Theorem C18_tracked_state : forall dm h, t_st (trun dm tinit h) = run dm init_state h.
Proof. intros dm h. exact (t_st_run dm h tinit). Qed.
Print Assumptions C18_tracked_state.

(* for every history: the routing clauses (exact holders, channel ids / transformations at the wired outputs, exact
   record) for every clean name; registered + copies exactly on the recorded generators for every covered name;
   armed => held for every name that is not lost *)
Theorem C18_framed_invariant_awg : forall dm h,
  framed_inv_awg dm (t_awg (trun dm tinit h)) (t_st (trun dm tinit h)).
Proof. exact framed_awg_histories. Qed.
Print Assumptions C18_framed_invariant_awg.

Theorem C18_framed_invariant_dac : forall dm h,
  framed_inv_dac (t_dac (trun dm tinit h)) (t_st (trun dm tinit h)).
Proof. exact framed_dac_histories. Qed.
Print Assumptions C18_framed_invariant_dac.

(* under the guard of round 1 every name stays clean on both sides: the guarded theorems above are instances *)
Theorem C18_guard_implies_clean : forall dm h,
  guard_C18_rewire dm init_state h = true ->
  t_awg (trun dm tinit h) = ([], []) /\ t_dac (trun dm tinit h) = ([], []).
Proof. intros dm h G. split; [apply guard_clean | apply guard_clean_dac]; exact G. Qed.
Print Assumptions C18_guard_implies_clean.

(* arming a clean name, after any history *)
Theorem C18_arm_awg_any_history : forall dm h name st',
  is_clean (t_awg (trun dm tinit h)) name = true ->
  arm_program (t_st (trun dm tinit h)) name = (st', None) ->
  exists r, lookup name (regs st') = Some r
            /\ forall a, awg_arm_post (chmap st') name (r_chans r) a (awg_of st' a) = true.
Proof. exact framed_arm_awg. Qed.
Print Assumptions C18_arm_awg_any_history.

Theorem C18_arm_dac_any_history : forall dm h name st',
  is_clean (t_dac (trun dm tinit h)) name = true ->
  arm_program (t_st (trun dm tinit h)) name = (st', None) ->
  exists r, lookup name (regs st') = Some r
            /\ forall d, dac_arm_post (mmap st') name (r_meas r) d (dac_of st' d) = true.
Proof. exact framed_arm_dac. Qed.
Print Assumptions C18_arm_dac_any_history.

(* removing a name that is not lost (clean OR covered) removes it from every device, after any history *)
Theorem C18_removed_awg_any_history : forall dm h name a,
  is_lost (t_awg (trun dm tinit h)) name = false ->
  awg_gone name (awg_of (fst (remove_program (t_st (trun dm tinit h)) name)) a) = true.
Proof. exact framed_removed_awg. Qed.
Print Assumptions C18_removed_awg_any_history.

Theorem C18_removed_dac_any_history : forall dm h name d,
  is_lost (t_dac (trun dm tinit h)) name = false ->
  dac_gone name (dac_of (fst (remove_program (t_st (trun dm tinit h)) name)) d) = true.
Proof. exact framed_removed_dac. Qed.
Print Assumptions C18_removed_dac_any_history.

(* after clear_programs, whatever a device still holds is a lost name *)
Theorem C18_cleared_awg_any_history : forall dm h a n,
  has_key n (a_progs (awg_of (t_st (trun dm tinit (h ++ [OClear]))) a)) = true ->
  is_lost (t_awg (trun dm tinit (h ++ [OClear]))) n = true.
Proof. exact framed_cleared_awg. Qed.
Print Assumptions C18_cleared_awg_any_history.

Theorem C18_cleared_dac_any_history : forall dm h d n,
  has_key n (d_wins (dac_of (t_st (trun dm tinit (h ++ [OClear]))) d)) = true ->
  is_lost (t_dac (trun dm tinit (h ++ [OClear]))) n = true.
Proof. exact framed_cleared_dac. Qed.
Print Assumptions C18_cleared_dac_any_history.

(* update_parameters of a clean name hands the parameters to exactly the generators the program uses, each once *)
Theorem C18_update_parameters : forall dm h name ptag st',
  is_clean (t_awg (trun dm tinit h)) name = true ->
  update_parameters (t_st (trun dm tinit h)) name ptag = (st', None) ->
  exists r got rest, lookup name (regs st') = Some r /\ vollog st' = (name, ptag, got) :: rest
                     /\ delivered_ok (chmap st') (r_chans r) got.
Proof. exact framed_update_parameters. Qed.
Print Assumptions C18_update_parameters.

(* non-vacuity of the statuses: re-wiring makes the name covered, register_program(update=True) makes it clean again
   and the device that dropped out is empty; rm_channel + clear_programs loses the copy (still on generator 0);
   a second mask object for the same (device, mask name) keeps the name clean *)
Theorem C18_restore_example :
  is_cov (t_awg (trun restore_dims tinit restore_history)) 0%N = true
  /\ is_clean (t_awg (trun restore_dims tinit (restore_history ++ [restore_update]))) 0%N = true
  /\ keys (a_progs (awg_of (t_st (trun restore_dims tinit (restore_history ++ [restore_update]))) 0%N)) = []
  /\ keys (a_progs (awg_of (t_st (trun restore_dims tinit (restore_history ++ [restore_update]))) 1%N)) = [0%N]
  /\ is_lost (t_awg (trun restore_dims tinit (restore_history ++ [ORmChannel 0; OClear]))) 0%N = true
  /\ keys (a_progs (awg_of (t_st (trun restore_dims tinit (restore_history ++ [ORmChannel 0; OClear]))) 0%N)) = [0%N].
Proof. exact restore_example. Qed.
Print Assumptions C18_restore_example.

Theorem C18_restore_example_dac :
  is_clean (t_dac (trun restore_dims tinit dac_h1)) 0%N = true
  /\ is_cov (t_dac (trun restore_dims tinit dac_h2)) 0%N = true
  /\ is_clean (t_dac (trun restore_dims tinit dac_h3)) 0%N = true
  /\ keys (d_wins (dac_of (t_st (trun restore_dims tinit dac_h3)) 0%N)) = []
  /\ keys (d_wins (dac_of (t_st (trun restore_dims tinit dac_h3)) 1%N)) = [0%N].
Proof. exact dac_restore_example. Qed.
Print Assumptions C18_restore_example_dac.
