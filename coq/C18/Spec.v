(* C18 — the independent specification: what "routed to exactly the right devices" means, written declaratively
   (membership / existence over the wiring), not as the fold the code performs.  All predicates are boolean so that
   they can be evaluated both on the model's state (theorems, for every device id) and on the implementation's
   observation (check_spec). *)
From Coq Require Import List ZArith NArith QArith Bool.
Require Import QV.C18.Model.
Import ListNotations.

(* the output a hardware channel object denotes: Python's indexing convention for the (unchecked) negative indices *)
Definition at_pos (dm : dims) (s : sch) (a : N) (marker : bool) (i : nat) : bool :=
  N.eqb (s_awg s) a && Bool.eqb (s_marker s) marker &&
  match py_index (if marker then snd (dm a) else fst (dm a)) (s_idx s) with
  | Some j => Nat.eqb i j
  | None => false
  end.

(* a program (its channel set) uses generator a / acquisition device d under a wiring *)
Definition uses_awg (cm : list (N * list sch)) (chans : list N) (a : N) : bool :=
  existsb (fun c => existsb (fun s => N.eqb (s_awg s) a) (get_set c cm)) chans.
Definition uses_dac (mm : list (N * list mask)) (meas : list (N * windows)) (d : N) : bool :=
  existsb (fun nw => existsb (fun m => N.eqb (m_dac m) d) (get_set (fst nw) mm)) meas.

(* slot i of an uploaded tuple: None iff no channel of the program is wired to that output; Some c only if c is a
   channel of the program wired to that output (and, for playback outputs, the transformation is the one of that
   hardware channel object).  When several program channels are wired to one output any of them is accepted. *)
Definition slot_ok (dm : dims) (cm : list (N * list sch)) (chans : list N) (a : N) (marker : bool) (i : nat)
           (v vt : option N) : bool :=
  match v with
  | None => negb (existsb (fun c => existsb (fun s => at_pos dm s a marker i) (get_set c cm)) chans)
            && match vt with None => true | Some _ => false end
  | Some c => memN c chans
              && existsb (fun s => at_pos dm s a marker i
                                   && (marker || match vt with Some t => N.eqb t (s_trafo s) | None => false end))
                         (get_set c cm)
  end.

Fixpoint slots_ok (dm : dims) cm chans a (marker : bool) (i : nat) (vs vts : list (option N)) : bool :=
  match vs, vts with
  | [], [] => true
  | v :: vs', vt :: vts' => slot_ok dm cm chans a marker i v vt && slots_ok dm cm chans a marker (S i) vs' vts'
  | _, _ => false
  end.

Definition entry_ok (dm : dims) cm (tag : N) (chans : list N) (a : N) (e : awg_entry) : bool :=
  N.eqb (ae_tag e) tag
  && Nat.eqb (length (ae_ch e)) (Z.to_nat (fst (dm a))) && Nat.eqb (length (ae_mk e)) (Z.to_nat (snd (dm a)))
  && slots_ok dm cm chans a false 0 (ae_ch e) (ae_vt e)
  && slots_ok dm cm chans a true 0 (ae_mk e) (map (fun _ => None) (ae_mk e)).

Definition Qlist_eqb (a b : list Q) : bool :=
  Nat.eqb (length a) (length b) && forallb (fun xy => Qeq_bool (fst xy) (snd xy)) (combine a b).
Definition windows_eqb (a b : windows) : bool := Qlist_eqb (fst a) (fst b) && Qlist_eqb (snd a) (snd b).

(* mask mk of device d for a program: holds w only if w are the program's own windows of a measurement wired to (d, mk) *)
Definition mask_ok (mm : list (N * list mask)) (meas : list (N * windows)) (d mk : N) (w : windows) : bool :=
  existsb (fun nw => windows_eqb (snd nw) w
                     && existsb (fun m => N.eqb (m_dac m) d && N.eqb (m_name m) mk) (get_set (fst nw) mm)) meas.

Definition dac_entry_ok mm (meas : list (N * windows)) (d : N) (wins : list (N * windows)) : bool :=
  nodupN (keys wins)
  && forallb (fun kw => mask_ok mm meas d (fst kw) (snd kw)) wins
  && forallb (fun nw => forallb (fun m => negb (N.eqb (m_dac m) d) || has_key (m_name m) wins) (get_set (fst nw) mm)) meas.

(* ---- the routing invariant, per device ------------------------------------------------------------------------- *)
(* generator a holds exactly the registered programs that use it, each routed as the wiring says *)
Definition awg_exact (dm : dims) cm (rg : list (N * reg)) (a : N) (ast : awg_st) : bool :=
  nodupN (keys (a_progs ast))
  && forallb (fun ne => match lookup (fst ne) rg with
                        | Some r => uses_awg cm (r_chans r) a && entry_ok dm cm (r_tag r) (r_chans r) a (snd ne)
                        | None => false
                        end) (a_progs ast)
  && forallb (fun nr => negb (uses_awg cm (r_chans (snd nr)) a) || has_key (fst nr) (a_progs ast)) rg.

Definition dac_exact mm (rg : list (N * reg)) (d : N) (dst : dac_st) : bool :=
  nodupN (keys (d_wins dst))
  && forallb (fun nw => match lookup (fst nw) rg with
                        | Some r => uses_dac mm (r_meas r) d && dac_entry_ok mm (r_meas r) d (snd nw)
                        | None => false
                        end) (d_wins dst)
  && forallb (fun nr => negb (uses_dac mm (r_meas (snd nr)) d) || has_key (fst nr) (d_wins dst)) rg.

(* an armed device is armed with a program it holds *)
Definition awg_armed_ok (ast : awg_st) : bool :=
  match a_armed ast with None => true | Some n => has_key n (a_progs ast) end.
Definition dac_armed_ok (dst : dac_st) : bool :=
  match d_armed dst with None => true | Some n => has_key n (d_wins dst) end.

(* post-condition of arm_program(name) for the registered record r *)
Definition awg_arm_post cm (name : N) (chans : list N) (a : N) (ast : awg_st) : bool :=
  if uses_awg cm chans a then match a_armed ast with Some n => N.eqb n name | None => false end
  else if memN a (known_awgs cm) then match a_armed ast with None => true | Some _ => false end
  else true.
Definition dac_arm_post mm (name : N) (meas : list (N * windows)) (d : N) (dst : dac_st) : bool :=
  negb (uses_dac mm meas d) || match d_armed dst with Some n => N.eqb n name | None => false end.

(* a name is gone from a device *)
Definition awg_gone (name : N) (ast : awg_st) : bool := negb (has_key name (a_progs ast)).
Definition dac_gone (name : N) (dst : dac_st) : bool := negb (has_key name (d_wins dst)).

(* ---- the invariant over histories (statements of Props.v are phrased with these) -------------------------------- *)
(* generator side of the routing invariant, for every generator id (not only the finitely many of a test bench) *)
Definition routing_inv_awg (dm : dims) (st : state) : Prop :=
  nodupN (keys (regs st)) = true
  /\ (forall a, awg_exact dm (chmap st) (regs st) a (awg_of st a) = true)
  /\ (forall n r, lookup n (regs st) = Some r ->
                  forall a, memN a (r_awgs r) = uses_awg (chmap st) (r_chans r) a)
  /\ (forall a, awg_armed_ok (awg_of st a) = true).

Definition routing_inv_dac (st : state) : Prop :=
  (forall d, dac_exact (mmap st) (regs st) d (dac_of st d) = true)
  /\ (forall n r, lookup n (regs st) = Some r ->
                  forall d, memN d (r_dacs r) = uses_dac (mmap st) (r_meas r) d)
  /\ (forall d, dac_armed_ok (dac_of st d) = true).

(* guard of known finding C18-rewire-stale: the wiring of a name is not changed while a registered program uses it *)
Definition chan_unused (rg : list (N * reg)) (id : N) : bool :=
  forallb (fun nr => negb (memN id (r_chans (snd nr)))) rg.
Definition meas_unused (rg : list (N * reg)) (name : N) : bool :=
  forallb (fun nr => negb (has_key name (r_meas (snd nr)))) rg.
Definition guard_C18_rewire_op (st : state) (o : op) : bool :=
  match o with
  | OSetChannel id _ _ | ORmChannel id => chan_unused (regs st) id
  | OSetMeasurement name _ _ => meas_unused (regs st) name
  | _ => true
  end.
Fixpoint guard_C18_rewire (dm : dims) (st : state) (h : list op) : bool :=
  match h with
  | [] => true
  | o :: r => guard_C18_rewire_op st o && guard_C18_rewire dm (fst (step dm st o)) r
  end.

(* ================================================================================================================ *)
(* Round 2: the invariant for ALL histories (no guard), framed by an executable status of every program name.

   Known finding C18-rewire-stale makes the plain invariant false once the wiring of a used name changes.  The status
   tracks exactly how far the damage goes, separately for the generator side and the acquisition side:
     clean    the routing clauses hold for this name on every device (current wiring);
     covered  the wiring of a name the program uses was changed after its registration: the devices still hold the
              copies of the OLD routing, but exactly on the devices of the participation record.  remove_program,
              register_program(update=True) and clear_programs (when every recorded device is still wired) make the
              name clean again;
     lost     clear_programs ran while a recorded device was no longer wired: a copy may survive without a record.
              Nothing is claimed about a lost name any more.
   A name is "covered" iff it is in the cov list and not in the lost list; "clean" iff in neither. *)

Definition sch_full_eqb (a b : sch) : bool := sch_eqb a b && N.eqb (s_trafo a) (s_trafo b).
(* the routing only reads (dac, mask name) of a mask object: another object for the same pair changes nothing *)
Definition mask_route_eqb (a b : mask) : bool := N.eqb (m_dac a) (m_dac b) && N.eqb (m_name a) (m_name b).
Definition same_members {A} (e : A -> A -> bool) (a b : list A) : bool :=
  forallb (fun x => existsb (e x) b) a && forallb (fun x => existsb (e x) a) b.

Definition users_ch (rg : list (N * reg)) (id : N) : list N :=
  map fst (filter (fun nr => memN id (r_chans (snd nr))) rg).
Definition users_meas (rg : list (N * reg)) (name : N) : list N :=
  map fst (filter (fun nr => has_key name (r_meas (snd nr))) rg).
Definition filter_out (n : N) (l : list N) : list N := filter (fun x => negb (N.eqb x n)) l.

(* (cov, lost) of the generator side after operation o executed in state st *)
Definition track_awg (dm : dims) (st : state) (o : op) (cl : list N * list N) : list N * list N :=
  let (cov, lost) := cl in
  let (st', e) := step dm st o in
  match o with
  | OSetChannel id _ _ | ORmChannel id =>
      if same_members sch_full_eqb (get_set id (chmap st)) (get_set id (chmap st')) then (cov, lost)
      else (users_ch (regs st) id ++ cov, lost)
  | ORegister name _ _ _ _ => match e with None => (filter_out name cov, lost) | Some _ => (cov, lost) end
  | ORemove name => (filter_out name cov, lost)
  | OClear =>
      ([], filter (fun n => match lookup n (regs st) with
                            | Some r => negb (forallb (fun a => memN a (known_awgs (chmap st))) (r_awgs r))
                            | None => true
                            end) cov ++ lost)
  | _ => (cov, lost)
  end.

Definition track_dac (dm : dims) (st : state) (o : op) (cl : list N * list N) : list N * list N :=
  let (cov, lost) := cl in
  let (st', e) := step dm st o in
  match o with
  | OSetMeasurement name _ _ =>
      if same_members mask_route_eqb (get_set name (mmap st)) (get_set name (mmap st')) then (cov, lost)
      else (users_meas (regs st) name ++ cov, lost)
  | ORegister name _ _ _ _ => match e with None => (filter_out name cov, lost) | Some _ => (cov, lost) end
  | ORemove name => (filter_out name cov, lost)
  | OClear =>
      ([], filter (fun n => match lookup n (regs st) with
                            | Some r => negb (forallb (fun d => memN d (known_dacs (mmap st))) (r_dacs r))
                            | None => true
                            end) cov ++ lost)
  | _ => (cov, lost)
  end.

Record tstate := { t_st : state; t_awg : list N * list N; t_dac : list N * list N }.
Definition tinit : tstate := {| t_st := init_state; t_awg := ([], []); t_dac := ([], []) |}.
Definition tstep (dm : dims) (t : tstate) (o : op) : tstate :=
  {| t_st := fst (step dm (t_st t) o);
     t_awg := track_awg dm (t_st t) o (t_awg t);
     t_dac := track_dac dm (t_st t) o (t_dac t) |}.
Definition trun (dm : dims) (t : tstate) (h : list op) : tstate := fold_left (tstep dm) h t.

Definition is_lost (cl : list N * list N) (n : N) : bool := memN n (snd cl).
Definition is_cov (cl : list N * list N) (n : N) : bool := memN n (fst cl) && negb (memN n (snd cl)).
Definition is_clean (cl : list N * list N) (n : N) : bool := negb (memN n (fst cl)) && negb (memN n (snd cl)).

(* generator side, every history *)
Definition framed_inv_awg (dm : dims) (cl : list N * list N) (st : state) : Prop :=
  nodupN (keys (regs st)) = true
  /\ (forall a, nodupN (keys (a_progs (awg_of st a))) = true)
  (* clean names: the three clauses of awg_exact and the exact participation record *)
  /\ (forall a n e, is_clean cl n = true -> lookup n (a_progs (awg_of st a)) = Some e ->
        exists r, lookup n (regs st) = Some r /\ uses_awg (chmap st) (r_chans r) a = true
                  /\ entry_ok dm (chmap st) (r_tag r) (r_chans r) a e = true)
  /\ (forall a n r, is_clean cl n = true -> lookup n (regs st) = Some r ->
        uses_awg (chmap st) (r_chans r) a = true -> has_key n (a_progs (awg_of st a)) = true)
  /\ (forall n r, is_clean cl n = true -> lookup n (regs st) = Some r ->
        forall a, memN a (r_awgs r) = uses_awg (chmap st) (r_chans r) a)
  (* covered names: registered, and the copies sit exactly on the recorded generators *)
  /\ (forall n, is_cov cl n = true ->
        exists r, lookup n (regs st) = Some r
                  /\ forall a, has_key n (a_progs (awg_of st a)) = memN a (r_awgs r))
  (* every name that is not lost: a generator armed with it holds it *)
  /\ (forall a n, is_lost cl n = false -> a_armed (awg_of st a) = Some n ->
        has_key n (a_progs (awg_of st a)) = true).

Definition framed_inv_dac (cl : list N * list N) (st : state) : Prop :=
  (forall d, nodupN (keys (d_wins (dac_of st d))) = true)
  /\ (forall d n w, is_clean cl n = true -> lookup n (d_wins (dac_of st d)) = Some w ->
        exists r, lookup n (regs st) = Some r /\ uses_dac (mmap st) (r_meas r) d = true
                  /\ dac_entry_ok (mmap st) (r_meas r) d w = true)
  /\ (forall d n r, is_clean cl n = true -> lookup n (regs st) = Some r ->
        uses_dac (mmap st) (r_meas r) d = true -> has_key n (d_wins (dac_of st d)) = true)
  /\ (forall n r, is_clean cl n = true -> lookup n (regs st) = Some r ->
        forall d, memN d (r_dacs r) = uses_dac (mmap st) (r_meas r) d)
  /\ (forall n, is_cov cl n = true ->
        exists r, lookup n (regs st) = Some r
                  /\ forall d, has_key n (d_wins (dac_of st d)) = memN d (r_dacs r))
  /\ (forall d n, is_lost cl n = false -> d_armed (dac_of st d) = Some n ->
        has_key n (d_wins (dac_of st d)) = true).

(* update_parameters reaches exactly the generators the program uses *)
Definition delivered_ok cm (chans : list N) (got : list N) : Prop :=
  NoDup got /\ forall a, In a got <-> uses_awg cm chans a = true.

(* ================================================================================================================ *)
(* Round 4: status per (name, device).  A pair (n, a) is "dirty" on the generator side when the members of the wiring of
   a channel id used by n that sit ON generator a were changed since the last (re-)registration of n; likewise (n, d) on
   the acquisition side for the (device, mask name) pairs on device d of a measurement name used by n.  A name that is
   not lost keeps its routing clauses at every device at which it is not dirty (Props.C18_clean_at_histories /
   C18_dclean_at_histories), even when it is "covered" because of a re-wiring on other devices. *)
Definition on_awg (a : N) (l : list sch) : list sch := filter (fun s => N.eqb (s_awg s) a) l.
Definition memNN (p : N * N) (l : list (N * N)) : bool :=
  existsb (fun q => N.eqb (fst p) (fst q) && N.eqb (snd p) (snd q)) l.

(* generators on which the members of the wiring of id differ between two channel maps *)
Definition changed_gens (id : N) (cm cm' : list (N * list sch)) : list N :=
  filter (fun a => negb (same_members sch_full_eqb (on_awg a (get_set id cm)) (on_awg a (get_set id cm'))))
         (map s_awg (get_set id cm ++ get_set id cm')).

(* dirty pairs (name, generator) after operation o executed in state st *)
Definition ptrack_awg (dm : dims) (st : state) (o : op) (dl : list (N * N)) : list (N * N) :=
  let (st', e) := step dm st o in
  match o with
  | OSetChannel id _ _ | ORmChannel id =>
      flat_map (fun n => map (fun a => (n, a)) (changed_gens id (chmap st) (chmap st'))) (users_ch (regs st) id) ++ dl
  | ORegister name _ _ _ _ => match e with None => filter (fun q => negb (N.eqb (fst q) name)) dl | Some _ => dl end
  | ORemove name => filter (fun q => negb (N.eqb (fst q) name)) dl
  | OClear => []
  | _ => dl
  end.

Fixpoint prun (dm : dims) (st : state) (dl : list (N * N)) (h : list op) : list (N * N) :=
  match h with [] => dl | o :: r => prun dm (fst (step dm st o)) (ptrack_awg dm st o dl) r end.

Definition on_dac (d : N) (l : list mask) : list mask := filter (fun m => N.eqb (m_dac m) d) l.

Definition changed_dacs (nm : N) (mm mm' : list (N * list mask)) : list N :=
  filter (fun d => negb (same_members mask_route_eqb (on_dac d (get_set nm mm)) (on_dac d (get_set nm mm'))))
         (map m_dac (get_set nm mm ++ get_set nm mm')).

Definition ptrack_dac (dm : dims) (st : state) (o : op) (dl : list (N * N)) : list (N * N) :=
  let (st', e) := step dm st o in
  match o with
  | OSetMeasurement nm _ _ =>
      flat_map (fun n => map (fun d => (n, d)) (changed_dacs nm (mmap st) (mmap st'))) (users_meas (regs st) nm) ++ dl
  | ORegister name _ _ _ _ => match e with None => filter (fun q => negb (N.eqb (fst q) name)) dl | Some _ => dl end
  | ORemove name => filter (fun q => negb (N.eqb (fst q) name)) dl
  | OClear => []
  | _ => dl
  end.

Fixpoint prun_dac (dm : dims) (st : state) (dl : list (N * N)) (h : list op) : list (N * N) :=
  match h with [] => dl | o :: r => prun_dac dm (fst (step dm st o)) (ptrack_dac dm st o dl) r end.
