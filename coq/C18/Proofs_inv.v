(* C18 — the generator side of the routing invariant is preserved by every operation (under guard_C18_rewire_op) *)
From Coq Require Import List ZArith NArith Bool Lia.
Require Import QV.C18.Model QV.C18.Spec QV.C18.Proofs_alist QV.C18.Proofs_route.
Import ListNotations.

(* ---- Prop reading of awg_exact ---------------------------------------------------------------------------------- *)
Definition awg_exact_P (dm : dims) cm (rg : list (N * reg)) (a : N) (ast : awg_st) : Prop :=
  nodupN (keys (a_progs ast)) = true
  /\ (forall n e, In (n, e) (a_progs ast) ->
        exists r, lookup n rg = Some r /\ uses_awg cm (r_chans r) a = true
                  /\ entry_ok dm cm (r_tag r) (r_chans r) a e = true)
  /\ (forall n r, In (n, r) rg -> uses_awg cm (r_chans r) a = true -> has_key n (a_progs ast) = true).

Lemma awg_exact_iff dm cm rg a ast : awg_exact dm cm rg a ast = true <-> awg_exact_P dm cm rg a ast.
Proof.
  unfold awg_exact, awg_exact_P. rewrite !andb_true_iff, !forallb_forall. split.
  - intros [[A B] C]. split; auto. split.
    + intros n e Hin. specialize (B _ Hin). cbn in B. destruct (lookup n rg) as [r|]; [|discriminate].
      apply andb_true_iff in B. exists r. tauto.
    + intros n r Hin Hu. specialize (C _ Hin). cbn in C. rewrite Hu in C. auto.
  - intros [A [B C]]. split; [split; auto|].
    + intros [n e] Hin. cbn. destruct (B _ _ Hin) as [r [-> [U E]]]. rewrite U, E. auto.
    + intros [n r] Hin. cbn. destruct (uses_awg cm (r_chans r) a) eqn:U; auto. cbn. eapply C; eauto.
Qed.

(* ---- the wiring of names no registered program uses is irrelevant ----------------------------------------------- *)
Lemma uses_awg_cong cm cm' chans a :
  (forall c, In c chans -> get_set c cm' = get_set c cm) -> uses_awg cm' chans a = uses_awg cm chans a.
Proof. intros H. unfold uses_awg. apply existsb_ext_in. intros c Hc. rewrite H; auto. Qed.

Lemma slot_ok_cong dm cm cm' chans a marker i v vt :
  (forall c, In c chans -> get_set c cm' = get_set c cm) ->
  slot_ok dm cm' chans a marker i v vt = slot_ok dm cm chans a marker i v vt.
Proof.
  intros H. unfold slot_ok. destruct v as [c|].
  - destruct (memN c chans) eqn:M; auto. apply memN_In in M. rewrite H; auto.
  - f_equal. f_equal. apply existsb_ext_in. intros c Hc. rewrite H; auto.
Qed.

Lemma slots_ok_cong dm cm cm' chans a marker :
  (forall c, In c chans -> get_set c cm' = get_set c cm) ->
  forall vs vts i, slots_ok dm cm' chans a marker i vs vts = slots_ok dm cm chans a marker i vs vts.
Proof.
  intros H. induction vs as [|v vs IH]; intros [|vt vts] i; cbn; auto.
  rewrite IH, (slot_ok_cong dm cm cm'); auto.
Qed.

Lemma entry_ok_cong dm cm cm' tag chans a e :
  (forall c, In c chans -> get_set c cm' = get_set c cm) ->
  entry_ok dm cm' tag chans a e = entry_ok dm cm tag chans a e.
Proof. intros H. unfold entry_ok. rewrite !(slots_ok_cong dm cm cm'); auto. Qed.

Lemma chan_unused_In rg id n r : chan_unused rg id = true -> In (n, r) rg -> ~ In id (r_chans r).
Proof.
  unfold chan_unused. rewrite forallb_forall. intros H Hin. specialize (H _ Hin). cbn in H.
  apply negb_true_iff in H. apply memN_false in H. auto.
Qed.

Lemma get_set_upsert {A} id (new : list A) cm c : c <> id -> get_set c (upsert id new cm) = get_set c cm.
Proof. intros H. unfold get_set. rewrite lookup_upsert. apply N.eqb_neq in H. rewrite H. auto. Qed.
Lemma get_set_remove {A} id (cm : list (N * list A)) c : c <> id -> get_set c (remove_key id cm) = get_set c cm.
Proof. intros H. unfold get_set. rewrite lookup_remove. apply N.eqb_neq in H. rewrite H. auto. Qed.

(* changing the channel map on names that no registered program uses *)
Lemma inv_awg_rewire dm st cm' :
  (forall n r c, In (n, r) (regs st) -> In c (r_chans r) -> get_set c cm' = get_set c (chmap st)) ->
  routing_inv_awg dm st ->
  routing_inv_awg dm {| chmap := cm'; mmap := mmap st; regs := regs st; awg_of := awg_of st; dac_of := dac_of st;
                        cblog := cblog st; vollog := vollog st |}.
Proof.
  intros Hc [Hnd [Hex [Hrec Harm]]]. unfold routing_inv_awg. cbn. split; auto. split; [|split; auto].
  - intros a. apply awg_exact_iff. specialize (Hex a). apply awg_exact_iff in Hex as [A [B C]].
    split; auto. split.
    + intros n e Hin. destruct (B _ _ Hin) as [r [L [U E]]]. exists r. split; auto.
      pose proof (lookup_In _ _ _ L) as Hr.
      rewrite (uses_awg_cong (chmap st) cm'), (entry_ok_cong dm (chmap st) cm'); eauto.
    + intros n r Hin U. eapply C; eauto. rewrite <- (uses_awg_cong (chmap st) cm'); eauto.
  - intros n r L a. rewrite (uses_awg_cong (chmap st) cm'); eauto using lookup_In.
Qed.

(* ---- known generators ------------------------------------------------------------------------------------------- *)
Lemma uses_known cm chans a : uses_awg cm chans a = true -> memN a (known_awgs cm) = true.
Proof.
  unfold uses_awg. rewrite existsb_exists. intros [c [_ H]]. apply existsb_exists in H as [s [Hs E]].
  apply N.eqb_eq in E. apply memN_In. unfold known_awgs. apply in_flat_map.
  unfold get_set in Hs. destruct (lookup c cm) as [l|] eqn:L; [|destruct Hs].
  exists (c, l). split; [apply lookup_In; auto|]. cbn. apply in_map_iff. exists s. auto.
Qed.

(* ---- pointwise description of the device tables after the folds of the model ------------------------------------ *)
Lemma awg_remove_idem name v : awg_remove (awg_remove v name) name = awg_remove v name.
Proof.
  unfold awg_remove. cbn. f_equal. apply remove_absent. rewrite has_key_remove, N.eqb_refl. auto.
Qed.

Lemma upload_all_spec name tag force infos : forall order aw aw',
  nodupN order = true ->
  upload_all aw name tag force infos order = (aw', true) ->
  (forall x, memN x order = false -> aw' x = aw x)
  /\ (forall x, In x order -> exists i, lookup x infos = Some i
                                        /\ awg_upload (aw x) name (entry_of tag i) force = Some (aw' x)).
Proof.
  induction order as [|a rest IH]; intros aw aw' Hnd H; cbn in H.
  - inversion H. subst. split; auto. intros x [].
  - cbn in Hnd. apply andb_true_iff in Hnd as [Ha Hnd]. apply negb_true_iff in Ha.
    destruct (lookup a infos) as [i|] eqn:L; [|discriminate].
    destruct (awg_upload (aw a) name (entry_of tag i) force) as [ast|] eqn:U; [|discriminate].
    destruct (IH _ _ Hnd H) as [A B]. split.
    + intros x Hx. cbn in Hx. apply orb_false_iff in Hx as [Hx1 Hx2].
      rewrite A by auto. apply upd_other. apply N.eqb_neq. auto.
    + intros x [->|Hx].
      * exists i. split; auto. rewrite A by auto. rewrite upd_same. auto.
      * destruct (B x Hx) as [i' [L' U']]. exists i'. split; auto.
        rewrite upd_other in U'; auto. intros ->. apply memN_false in Ha. auto.
Qed.

Lemma upload_all_total name tag force infos : forall order aw,
  nodupN order = true ->
  (forall x, In x order -> has_key x infos = true) ->
  (forall x, In x order -> has_key name (a_progs (aw x)) = true -> force = true) ->
  exists aw', upload_all aw name tag force infos order = (aw', true).
Proof.
  induction order as [|a rest IH]; intros aw Hnd Hk Hf; cbn.
  - eauto.
  - cbn in Hnd. apply andb_true_iff in Hnd as [Ha Hnd]. apply negb_true_iff in Ha. apply memN_false in Ha.
    specialize (Hk a (or_introl eq_refl)) as Hka. unfold has_key in Hka.
    destruct (lookup a infos) as [i|]; [|discriminate].
    unfold awg_upload. destruct (has_key name (a_progs (aw a))) eqn:K.
    + pose proof (Hf a (or_introl eq_refl) K) as Hforce. subst force.
      apply IH; [assumption | intros x Hx; apply Hk; right; auto
                 | intros x Hx; rewrite upd_other by (intros ->; auto); apply Hf; right; auto].
    + apply IH; [assumption | intros x Hx; apply Hk; right; auto
                 | intros x Hx; rewrite upd_other by (intros ->; auto); apply Hf; right; auto].
Qed.

Lemma awg_upload_progs ast name e force ast' :
  awg_upload ast name e force = Some ast' ->
  a_progs ast' = upsert name e (remove_key name (a_progs ast)) /\ a_armed ast' = a_armed ast.
Proof.
  unfold awg_upload. destruct (has_key name (a_progs ast)) eqn:K.
  - destruct force; [|discriminate]. intros H. inversion H. auto.
  - intros H. inversion H. cbn. rewrite remove_absent; auto.
Qed.

Lemma same_setN_mem a b x : same_setN a b = true -> memN x a = memN x b.
Proof.
  unfold same_setN. rewrite !andb_true_iff, !forallb_forall. intros [[_ A] B].
  destruct (memN x a) eqn:E.
  - symmetry. apply A. apply memN_In. auto.
  - destruct (memN x b) eqn:E2; auto. apply memN_In in E2. apply B in E2. congruence.
Qed.
Lemma same_setN_nodup a b : same_setN a b = true -> nodupN a = true.
Proof. unfold same_setN. rewrite !andb_true_iff. tauto. Qed.

Lemma memN_keys {V} x (l : list (N * V)) : memN x (keys l) = has_key x l.
Proof. apply eq_true_iff_eq. rewrite memN_In, In_keys. tauto. Qed.

(* ---- preservation, operation by operation ----------------------------------------------------------------------- *)
Section Preserve.
  Variable dm : dims.

  Lemma inv_awg_init : routing_inv_awg dm init_state.
  Proof.
    unfold routing_inv_awg. cbn. split; [reflexivity|]. split; [intros; reflexivity|].
    split; [intros n r H; discriminate | intros; reflexivity].
  Qed.

  Lemma inv_awg_set_channel st id a allow st' e :
    routing_inv_awg dm st -> chan_unused (regs st) id = true ->
    set_channel dm st id a allow = (st', e) -> routing_inv_awg dm st'.
  Proof.
    intros Hinv Hg H. unfold set_channel in H.
    destruct (negb (forallb (ctor_ok dm) (charg_channels a))); [inversion H; subst; auto|].
    destruct (match a with ChSingle c => _ | ChMany cs junk => _ | ChNotIterable => None end) as [[new junk]|];
      [|inversion H; subst; auto].
    destruct (negb allow && _); [inversion H; subst; auto|].
    destruct junk; inversion H; subst; auto.
    apply inv_awg_rewire; auto. intros n r c Hin Hc. apply get_set_upsert.
    intros ->. eapply chan_unused_In; eauto.
  Qed.

  Lemma inv_awg_rm_channel st id st' e :
    routing_inv_awg dm st -> chan_unused (regs st) id = true ->
    rm_channel st id = (st', e) -> routing_inv_awg dm st'.
  Proof.
    intros Hinv Hg H. unfold rm_channel in H. destruct (has_key id (chmap st)); inversion H; subst; auto.
    apply inv_awg_rewire; auto. intros n r c Hin Hc. apply get_set_remove.
    intros ->. eapply chan_unused_In; eauto.
  Qed.

  Lemma inv_awg_set_measurement st name a allow st' e :
    routing_inv_awg dm st -> set_measurement st name a allow = (st', e) -> routing_inv_awg dm st'.
  Proof.
    intros Hinv H. unfold set_measurement in H.
    destruct (match a with MSingle m => _ | MMany ms => _ | MNotIterable => None end) as [new|];
      [|inversion H; subst; auto].
    destruct (negb allow && _); inversion H; subst; auto.
  Qed.

  Lemma inv_awg_remove st name st' e :
    routing_inv_awg dm st -> remove_program st name = (st', e) -> routing_inv_awg dm st'.
  Proof.
    intros Hinv H. unfold remove_program in H.
    destruct (lookup name (regs st)) as [r|] eqn:L; [|inversion H; subst; auto].
    inversion H; subst; clear H. destruct Hinv as [Hnd [Hex [Hrec Harm]]].
    assert (forall x, fold_left (fun aw a => upd aw a (awg_remove (aw a) name)) (r_awgs r) (awg_of st) x
                      = if memN x (r_awgs r) then awg_remove (awg_of st x) name else awg_of st x) as Hpt.
    { intros x.
      pose proof (fold_upd_pointwise (fun _ v => awg_remove v name) (fun _ => false) (r_awgs r)
                                     (fun _ v => awg_remove_idem name v) (awg_of st) x) as P.
      cbn in P. rewrite andb_true_r in P. exact P. }
    unfold routing_inv_awg. cbn. split; [apply nodup_remove; auto|]. split; [|split].
    - intros a. rewrite Hpt. apply awg_exact_iff.
      specialize (Hex a). apply awg_exact_iff in Hex as [A [B C]].
      rewrite (Hrec _ _ L a).
      destruct (uses_awg (chmap st) (r_chans r) a) eqn:U.
      + unfold awg_exact_P, awg_remove. cbn [a_progs]. split; [apply nodup_remove; auto|]. split.
        * intros n e Hin. apply In_remove in Hin as [Hne Hin]; auto.
          destruct (B _ _ Hin) as [r0 [L0 P]]. exists r0. split; auto.
          rewrite lookup_remove. apply N.eqb_neq in Hne. rewrite Hne. auto.
        * intros n r0 Hin U0. apply In_remove in Hin as [Hne Hin]; auto.
          rewrite has_key_remove. apply N.eqb_neq in Hne. rewrite Hne. cbn. eapply C; eauto.
      + split; auto. split.
        * intros n e Hin. destruct (B _ _ Hin) as [r0 [L0 [U0 E0]]].
          assert (n <> name) as Hne by (intros ->; rewrite L in L0; inversion L0; subst; congruence).
          exists r0. split; auto. rewrite lookup_remove. apply N.eqb_neq in Hne. rewrite Hne. auto.
        * intros n r0 Hin U0. apply In_remove in Hin as [Hne Hin]; auto. eapply C; eauto.
    - intros n r0. rewrite lookup_remove. destruct (N.eqb n name); [discriminate|]. apply Hrec.
    - intros a. rewrite Hpt. destruct (memN a (r_awgs r)); auto.
  Qed.

  Lemma inv_awg_clear st st' e :
    routing_inv_awg dm st -> clear_programs st = (st', e) -> routing_inv_awg dm st'.
  Proof.
    intros [Hnd [Hex [Hrec Harm]]] H. unfold clear_programs in H. inversion H; subst; clear H.
    set (empty := {| a_progs := []; a_armed := None |}).
    assert (forall x, fold_left (fun aw a => upd aw a empty) (known_awgs (chmap st)) (awg_of st) x
                      = if memN x (known_awgs (chmap st)) then empty else awg_of st x) as Hpt.
    { intros x.
      pose proof (fold_upd_pointwise (fun _ _ => empty) (fun _ => false) (known_awgs (chmap st))
                                     (fun _ _ => eq_refl) (awg_of st) x) as P.
      cbn in P. rewrite andb_true_r in P. exact P. }
    assert (forall x, memN x (known_awgs (chmap st)) = false -> a_progs (awg_of st x) = []) as Hempty.
    { intros x Hx. specialize (Hex x). apply awg_exact_iff in Hex as [_ [B _]].
      destruct (a_progs (awg_of st x)) as [|[n e] l]; auto.
      destruct (B n e (or_introl eq_refl)) as [r [_ [U _]]]. apply uses_known in U. congruence. }
    unfold routing_inv_awg. cbn. split; auto. split; [|split].
    - intros a. fold empty. rewrite Hpt. destruct (memN a (known_awgs (chmap st))) eqn:K; [reflexivity|].
      unfold awg_exact. rewrite (Hempty a K). reflexivity.
    - intros n r H. discriminate.
    - intros a. fold empty. rewrite Hpt. destruct (memN a (known_awgs (chmap st))); auto.
  Qed.

  Lemma inv_awg_arm_devices st name r :
    routing_inv_awg dm st -> lookup name (regs st) = Some r -> routing_inv_awg dm (arm_devices st name r).
  Proof.
    intros [Hnd [Hex [Hrec Harm]]] L.
    set (g := fun (a : N) (v : awg_st) =>
                {| a_progs := a_progs v; a_armed := if memN a (r_awgs r) then Some name else None |}).
    assert (forall x, awg_of (arm_devices st name r) x
                      = if memN x (known_awgs (chmap st)) then g x (awg_of st x) else awg_of st x) as Hpt.
    { intros x. unfold arm_devices. cbn.
      pose proof (fold_upd_pointwise g (fun _ => false) (known_awgs (chmap st))
                                     (fun _ _ => eq_refl) (awg_of st) x) as P.
      cbn in P. rewrite andb_true_r in P. exact P. }
    unfold routing_inv_awg. split; [exact Hnd|]. split; [|split].
    - intros a. rewrite Hpt. change (chmap (arm_devices st name r)) with (chmap st).
      change (regs (arm_devices st name r)) with (regs st).
      destruct (memN a (known_awgs (chmap st))); auto. apply Hex.
    - exact Hrec.
    - intros a. rewrite Hpt. destruct (memN a (known_awgs (chmap st))); auto.
      unfold awg_armed_ok, g. cbn. destruct (memN a (r_awgs r)) eqn:M; auto.
      rewrite (Hrec _ _ L a) in M. specialize (Hex a). apply awg_exact_iff in Hex as [_ [_ C]].
      eapply C; eauto using lookup_In.
  Qed.

  Lemma inv_awg_arm st name st' e :
    routing_inv_awg dm st -> arm_program st name = (st', e) -> routing_inv_awg dm st'.
  Proof.
    intros Hinv H. unfold arm_program in H. destruct (lookup name (regs st)) as [r|] eqn:L; inversion H; subst; auto.
    apply inv_awg_arm_devices; auto.
  Qed.

  Lemma inv_awg_run st name st' e :
    routing_inv_awg dm st -> run_program st name = (st', e) -> routing_inv_awg dm st'.
  Proof.
    intros Hinv H. unfold run_program in H. destruct (lookup name (regs st)) as [r|] eqn:L; inversion H; subst; auto.
    exact (inv_awg_arm_devices st name r Hinv L).
  Qed.

  Lemma inv_awg_register st name p cb update order st' e :
    routing_inv_awg dm st -> register_program dm st name p cb update order = (st', e) -> routing_inv_awg dm st'.
  Proof.
    intros Hinv H. unfold register_program in H.
    destruct cb as [cbt|]; [|inversion H; subst; auto].
    destruct (negb (forallb _ (p_chans p))); [inversion H; subst; auto|].
    destruct (negb (forallb _ (p_meas p))); [inversion H; subst; auto|].
    destruct (channel_info dm (chmap st) (p_chans p)) as [infos|] eqn:CI; [|inversion H; subst; auto].
    destruct (negb (same_setN order (keys infos))) eqn:SS; [inversion H; subst; auto|].
    apply negb_false_iff in SS.
    destruct (has_key name (regs st) && negb update) eqn:G; [inversion H; subst; auto|].
    destruct Hinv as [Hnd [Hex [Hrec Harm]]].
    pose proof (same_setN_nodup _ _ SS) as Hond.
    assert (forall x, memN x order = uses_awg (chmap st) (p_chans p) x) as Hord.
    { intros x. rewrite (same_setN_mem _ _ x SS), memN_keys. eapply channel_info_keys; eauto. }
    (* the upload loop cannot fail in a state that satisfies the invariant *)
    destruct (upload_all_total name (p_tag p) update infos order (awg_of st)) as [aw Hup]; auto.
    { intros x Hx. apply memN_In in Hx. rewrite (same_setN_mem _ _ x SS), memN_keys in Hx. auto. }
    { intros x Hx K. specialize (Hex x). apply awg_exact_iff in Hex as [_ [B _]].
      unfold has_key in K. destruct (lookup name (a_progs (awg_of st x))) as [e0|] eqn:L0; [|discriminate].
      destruct (B _ _ (lookup_In _ _ _ L0)) as [r0 [Lr _]].
      unfold has_key in G. rewrite Lr in G. cbn in G. apply negb_false_iff in G. auto. }
    rewrite Hup in H. cbn in H. inversion H; subst; clear H.
    destruct (upload_all_spec _ _ _ _ _ _ _ Hond Hup) as [Hout Hin].
    set (old_awgs := match lookup name (regs st) with Some r => r_awgs r | None => [] end).
    assert (forall x, fold_left (fun aw0 a => if memN a order then aw0 else upd aw0 a (awg_remove (aw0 a) name))
                                old_awgs aw x
                      = if memN x old_awgs && negb (memN x order) then awg_remove (aw x) name else aw x) as Hpt.
    { intros x. exact (fold_upd_pointwise (fun _ v => awg_remove v name) (fun a => memN a order) old_awgs
                                          (fun _ v => awg_remove_idem name v) aw x). }
    set (r' := {| r_tag := p_tag p; r_chans := p_chans p; r_meas := p_meas p; r_cb := cbt; r_awgs := order;
                  r_dacs := keys (affected_dacs (mmap st) (p_meas p)) |}).
    unfold routing_inv_awg. cbn. fold old_awgs. fold r'.
    split; [apply nodup_upsert; auto|]. split; [|split].
    - intros x. rewrite Hpt. apply awg_exact_iff.
      pose proof (Hex x) as Hx. apply awg_exact_iff in Hx as [A [B C]].
      destruct (memN x order) eqn:Mo.
      + (* x takes part in the new registration *)
        rewrite andb_false_r. apply memN_In in Mo as Hino. destruct (Hin x Hino) as [i [Li Ui]].
        apply awg_upload_progs in Ui as [Pe _]. unfold awg_exact_P. rewrite Pe. split; [apply nodup_upsert, nodup_remove; auto|]. split.
        * intros n e Hine. apply In_upsert in Hine; [|apply nodup_remove; auto].
          destruct Hine as [[-> ->]|[Hne Hine]].
          -- exists r'. rewrite lookup_upsert, N.eqb_refl. split; auto. unfold r'; cbn [r_chans r_tag].
             rewrite <- Hord, Mo. split; auto.
             eapply channel_info_entry; eauto.
          -- apply In_remove in Hine as [_ Hine]; auto. destruct (B _ _ Hine) as [r0 [L0 P]].
             exists r0. rewrite lookup_upsert. apply N.eqb_neq in Hne. rewrite Hne. auto.
        * intros n r0 Hinr U0. rewrite has_key_upsert, has_key_remove.
          destruct (N.eqb n name) eqn:En; auto. cbn.
          apply In_upsert in Hinr; auto. destruct Hinr as [[-> _]|[_ Hinr]]; [rewrite N.eqb_refl in En; discriminate|].
          eapply C; eauto.
      + (* x does not take part in the new registration *)
        rewrite andb_true_r, (Hout x Mo).
        assert (forall n r0, In (n, r0) (upsert name r' (regs st)) ->
                             uses_awg (chmap st) (r_chans r0) x = true -> n <> name /\ In (n, r0) (regs st)) as Hothers.
        { intros n r0 Hinr U0. apply In_upsert in Hinr; auto. destruct Hinr as [[-> ->]|[Hne Hinr]]; auto.
          unfold r' in U0; cbn [r_chans] in U0. rewrite <- Hord, Mo in U0. discriminate. }
        destruct (memN x old_awgs) eqn:Mold.
        * (* dropped out: the name is removed *)
          unfold awg_exact_P, awg_remove. cbn [a_progs]. split; [apply nodup_remove; auto|]. split.
          -- intros n e Hine. apply In_remove in Hine as [Hne Hine]; auto.
             destruct (B _ _ Hine) as [r0 [L0 P]]. exists r0. rewrite lookup_upsert.
             apply N.eqb_neq in Hne. rewrite Hne. auto.
          -- intros n r0 Hinr U0. destruct (Hothers _ _ Hinr U0) as [Hne Hinr'].
             rewrite has_key_remove. apply N.eqb_neq in Hne. rewrite Hne. cbn. eapply C; eauto.
        * (* never held the name *)
          split; auto. split.
          -- intros n e Hine. destruct (B _ _ Hine) as [r0 [L0 [U0 E0]]].
             assert (n <> name) as Hne.
             { intros ->. unfold old_awgs in Mold. rewrite L0 in Mold. rewrite (Hrec _ _ L0 x) in Mold. congruence. }
             exists r0. rewrite lookup_upsert. apply N.eqb_neq in Hne. rewrite Hne. auto.
          -- intros n r0 Hinr U0. destruct (Hothers _ _ Hinr U0) as [Hne Hinr']. eapply C; eauto.
    - intros n r0. rewrite lookup_upsert. destruct (N.eqb n name) eqn:En.
      + intros E. inversion E. subst r0. unfold r'; cbn [r_chans r_awgs]. apply Hord.
      + apply Hrec.
    - intros x. rewrite Hpt. destruct (memN x old_awgs && negb (memN x order)); [reflexivity|].
      destruct (memN x order) eqn:Mo.
      + apply memN_In in Mo. destruct (Hin x Mo) as [i [Li Ui]]. apply awg_upload_progs in Ui as [Pe Ae].
        specialize (Harm x). unfold awg_armed_ok in *. rewrite Ae, Pe.
        destruct (a_armed (awg_of st x)) as [n|]; auto.
        rewrite has_key_upsert, has_key_remove. destruct (N.eqb n name); auto.
      + rewrite (Hout x Mo). apply Harm.
  Qed.

  Lemma inv_awg_step st o :
    routing_inv_awg dm st -> guard_C18_rewire_op st o = true -> routing_inv_awg dm (fst (step dm st o)).
  Proof.
    intros Hinv Hg. destruct (step dm st o) as [st' e] eqn:H. cbn. destruct o; cbn in H, Hg.
    - eapply inv_awg_set_channel; eauto.
    - eapply inv_awg_set_measurement; eauto.
    - eapply inv_awg_rm_channel; eauto.
    - eapply inv_awg_register; eauto.
    - eapply inv_awg_remove; eauto.
    - eapply inv_awg_clear; eauto.
    - eapply inv_awg_arm; eauto.
    - eapply inv_awg_run; eauto.
    - unfold update_parameters in H. destruct (lookup name (regs st)); inversion H; subst; auto.
  Qed.

  Lemma inv_awg_run_history : forall h st,
    routing_inv_awg dm st -> guard_C18_rewire dm st h = true -> routing_inv_awg dm (run dm st h).
  Proof.
    induction h as [|o h IH]; intros st Hinv Hg; cbn; auto.
    cbn in Hg. apply andb_true_iff in Hg as [G1 G2]. apply IH; auto. apply inv_awg_step; auto.
  Qed.
End Preserve.

Theorem inv_awg_histories dm h :
  guard_C18_rewire dm init_state h = true -> routing_inv_awg dm (run dm init_state h).
Proof. intros. apply inv_awg_run_history; auto. apply inv_awg_init. Qed.
