(* C18 — the acquisition-device side of the routing invariant is preserved by every operation (under the guard) *)
From Coq Require Import List ZArith NArith QArith Bool Lia.
Require Import QV.C18.Model QV.C18.Spec QV.C18.Proofs_alist QV.C18.Proofs_dacroute.
Import ListNotations.

Definition dac_exact_P mm (rg : list (N * reg)) (d : N) (dst : dac_st) : Prop :=
  nodupN (keys (d_wins dst)) = true
  /\ (forall n w, In (n, w) (d_wins dst) ->
        exists r, lookup n rg = Some r /\ uses_dac mm (r_meas r) d = true /\ dac_entry_ok mm (r_meas r) d w = true)
  /\ (forall n r, In (n, r) rg -> uses_dac mm (r_meas r) d = true -> has_key n (d_wins dst) = true).

Lemma dac_exact_iff mm rg d dst : dac_exact mm rg d dst = true <-> dac_exact_P mm rg d dst.
Proof.
  unfold dac_exact, dac_exact_P. rewrite !andb_true_iff, !forallb_forall. split.
  - intros [[A B] C]. split; auto. split.
    + intros n w Hin. specialize (B _ Hin). cbn in B. destruct (lookup n rg) as [r|]; [|discriminate].
      apply andb_true_iff in B. exists r. tauto.
    + intros n r Hin Hu. specialize (C _ Hin). cbn in C. rewrite Hu in C. auto.
  - intros [A [B C]]. split; [split; auto|].
    + intros [n w] Hin. cbn. destruct (B _ _ Hin) as [r [-> [U E]]]. rewrite U, E. auto.
    + intros [n r] Hin. cbn. destruct (uses_dac mm (r_meas r) d) eqn:U; auto. cbn. eapply C; eauto.
Qed.

Definition inv_dac (st : state) : Prop := nodupN (keys (regs st)) = true /\ routing_inv_dac st.

(* ---- wiring of measurement names no registered program uses is irrelevant ---------------------------------------- *)
Lemma uses_dac_cong mm mm' (meas : list (N * windows)) d :
  (forall nw, In nw meas -> get_set (fst nw) mm' = get_set (fst nw) mm) -> uses_dac mm' meas d = uses_dac mm meas d.
Proof. intros H. unfold uses_dac. apply existsb_ext_in. intros nw Hnw. rewrite H; auto. Qed.

Lemma dac_entry_ok_cong mm mm' (meas : list (N * windows)) d wins :
  (forall nw, In nw meas -> get_set (fst nw) mm' = get_set (fst nw) mm) ->
  dac_entry_ok mm' meas d wins = dac_entry_ok mm meas d wins.
Proof.
  intros H. unfold dac_entry_ok. f_equal; [f_equal|].
  - apply forallb_ext_in. intros kw _. unfold mask_ok. apply existsb_ext_in. intros nw Hnw. rewrite H; auto.
  - apply forallb_ext_in. intros nw Hnw. rewrite H; auto.
Qed.

Lemma meas_unused_In rg name n r nw :
  meas_unused rg name = true -> In (n, r) rg -> In nw (r_meas r) -> fst nw <> name.
Proof.
  unfold meas_unused. rewrite forallb_forall. intros H Hin Hnw E. specialize (H _ Hin). cbn in H.
  apply negb_true_iff in H. destruct nw as [k w]. cbn in E. subst k.
  rewrite (In_has_key _ _ _ Hnw) in H. discriminate.
Qed.

Lemma get_set_upsert' {A} id (new : list A) cm c : c <> id -> get_set c (upsert id new cm) = get_set c cm.
Proof. intros H. unfold get_set. rewrite lookup_upsert. apply N.eqb_neq in H. rewrite H. auto. Qed.

Lemma uses_known_dac mm meas d : uses_dac mm meas d = true -> memN d (known_dacs mm) = true.
Proof.
  unfold uses_dac. rewrite existsb_exists. intros [nw [_ H]]. apply existsb_exists in H as [m [Hm E]].
  apply N.eqb_eq in E. apply memN_In. unfold known_dacs. apply in_flat_map.
  unfold get_set in Hm. destruct (lookup (fst nw) mm) as [l|] eqn:L; [|destruct Hm].
  exists (fst nw, l). split; [apply lookup_In; auto|]. cbn. apply in_map_iff. exists m. auto.
Qed.

Lemma dac_delete_idem name v : dac_delete (dac_delete v name) name = dac_delete v name.
Proof.
  unfold dac_delete. cbn. f_equal.
  - apply remove_absent. rewrite has_key_remove, N.eqb_refl. auto.
  - destruct (d_armed v) as [k|]; auto. destruct (N.eqb k name) eqn:E; auto. rewrite E. auto.
Qed.

Lemma memN_keys' {V} x (l : list (N * V)) : memN x (keys l) = has_key x l.
Proof. apply eq_true_iff_eq. rewrite memN_In, In_keys. tauto. Qed.

Lemma register_dacs_pointwise name : forall aff dc x,
  nodupN (keys aff) = true ->
  register_dacs dc name aff x
  = match lookup x aff with
    | Some w => {| d_wins := upsert name w (d_wins (dc x)); d_armed := d_armed (dc x) |}
    | None => dc x
    end.
Proof.
  unfold register_dacs. induction aff as [|[k w] rest IH]; intros dc x Hnd; cbn; auto.
  cbn in Hnd. apply andb_true_iff in Hnd as [Hk Hnd]. apply negb_true_iff in Hk.
  rewrite IH by auto. destruct (N.eqb x k) eqn:E.
  - apply N.eqb_eq in E. subst x.
    assert (lookup k rest = None) as L.
    { destruct (lookup k rest) eqn:L; auto. apply lookup_In in L. apply In_has_key in L.
      rewrite <- memN_keys' in L. unfold keys in L. congruence. }
    rewrite L, upd_same. auto.
  - assert (x <> k) by (apply N.eqb_neq; auto). rewrite upd_other by auto. auto.
Qed.

Lemma dac_armed_delete v name : dac_armed_ok v = true -> dac_armed_ok (dac_delete v name) = true.
Proof.
  unfold dac_armed_ok, dac_delete. cbn. destruct (d_armed v) as [k|]; auto.
  destruct (N.eqb k name) eqn:E; auto. rewrite has_key_remove, E. auto.
Qed.

(* ---- preservation ------------------------------------------------------------------------------------------------ *)
Lemma inv_dac_init : inv_dac init_state.
Proof.
  split; [reflexivity|]. unfold routing_inv_dac. cbn. split; [intros; reflexivity|].
  split; [intros n r H; discriminate | intros; reflexivity].
Qed.

Lemma inv_dac_same st st' :
  mmap st' = mmap st -> regs st' = regs st -> dac_of st' = dac_of st -> inv_dac st -> inv_dac st'.
Proof. unfold inv_dac, routing_inv_dac. intros -> -> ->. auto. Qed.

Lemma inv_dac_set_channel dm st id a allow st' e :
  inv_dac st -> set_channel dm st id a allow = (st', e) -> inv_dac st'.
Proof.
  intros Hinv H. unfold set_channel in H.
  destruct (negb (forallb (ctor_ok dm) (charg_channels a))); [inversion H; subst; auto|].
  destruct (match a with ChSingle c => _ | ChMany cs junk => _ | ChNotIterable => None end) as [[new junk]|];
    [|inversion H; subst; auto].
  destruct (negb allow && _); [inversion H; subst; auto|].
  destruct junk; inversion H; subst; auto.
Qed.

Lemma inv_dac_rm_channel st id st' e : inv_dac st -> rm_channel st id = (st', e) -> inv_dac st'.
Proof. intros Hinv H. unfold rm_channel in H. destruct (has_key id (chmap st)); inversion H; subst; auto. Qed.

Lemma inv_dac_set_measurement st name a allow st' e :
  inv_dac st -> meas_unused (regs st) name = true -> set_measurement st name a allow = (st', e) -> inv_dac st'.
Proof.
  intros Hinv Hg H. unfold set_measurement in H.
  destruct (match a with MSingle m => _ | MMany ms => _ | MNotIterable => None end) as [new|];
    [|inversion H; subst; auto].
  destruct (negb allow && _); inversion H; subst; auto. clear H.
  destruct Hinv as [Hnd [Hex [Hrec Harm]]]. split; auto. unfold routing_inv_dac. cbn.
  assert (forall n r nw, In (n, r) (regs st) -> In nw (r_meas r) ->
                         get_set (fst nw) (upsert name new (mmap st)) = get_set (fst nw) (mmap st)) as Hc.
  { intros n r nw Hin Hnw. apply get_set_upsert'. eapply meas_unused_In; eauto. }
  split; [|split; auto].
  - intros d. apply dac_exact_iff. specialize (Hex d). apply dac_exact_iff in Hex as [A [B C]].
    split; auto. split.
    + intros n w Hin. destruct (B _ _ Hin) as [r [L [U E]]]. exists r. split; auto.
      pose proof (lookup_In _ _ _ L) as Hr.
      rewrite (uses_dac_cong (mmap st)), (dac_entry_ok_cong (mmap st)); eauto.
    + intros n r Hin U. eapply C; eauto. rewrite <- (uses_dac_cong (mmap st) (upsert name new (mmap st))); eauto.
  - intros n r L d. rewrite (uses_dac_cong (mmap st)); eauto using lookup_In.
Qed.

Lemma inv_dac_remove st name st' e : inv_dac st -> remove_program st name = (st', e) -> inv_dac st'.
Proof.
  intros Hinv H. unfold remove_program in H.
  destruct (lookup name (regs st)) as [r|] eqn:L; [|inversion H; subst; auto].
  inversion H; subst; clear H. destruct Hinv as [Hnd [Hex [Hrec Harm]]].
  assert (forall x, fold_left (fun dc d => upd dc d (dac_delete (dc d) name)) (r_dacs r) (dac_of st) x
                    = if memN x (r_dacs r) then dac_delete (dac_of st x) name else dac_of st x) as Hpt.
  { intros x.
    pose proof (fold_upd_pointwise (fun _ v => dac_delete v name) (fun _ => false) (r_dacs r)
                                   (fun _ v => dac_delete_idem name v) (dac_of st) x) as P.
    cbn in P. rewrite andb_true_r in P. exact P. }
  split; [cbn; apply nodup_remove; auto|]. unfold routing_inv_dac. cbn. split; [|split].
  - intros d. rewrite Hpt. apply dac_exact_iff.
    specialize (Hex d). apply dac_exact_iff in Hex as [A [B C]].
    rewrite (Hrec _ _ L d).
    destruct (uses_dac (mmap st) (r_meas r) d) eqn:U.
    + unfold dac_exact_P, dac_delete. cbn [d_wins]. split; [apply nodup_remove; auto|]. split.
      * intros n w Hin. apply In_remove in Hin as [Hne Hin]; auto.
        destruct (B _ _ Hin) as [r0 [L0 P]]. exists r0. split; auto.
        rewrite lookup_remove. apply N.eqb_neq in Hne. rewrite Hne. auto.
      * intros n r0 Hin U0. apply In_remove in Hin as [Hne Hin]; auto.
        rewrite has_key_remove. apply N.eqb_neq in Hne. rewrite Hne. cbn. eapply C; eauto.
    + split; auto. split.
      * intros n w Hin. destruct (B _ _ Hin) as [r0 [L0 [U0 E0]]].
        assert (n <> name) as Hne by (intros ->; rewrite L in L0; inversion L0; subst; congruence).
        exists r0. split; auto. rewrite lookup_remove. apply N.eqb_neq in Hne. rewrite Hne. auto.
      * intros n r0 Hin U0. apply In_remove in Hin as [Hne Hin]; auto. eapply C; eauto.
  - intros n r0. rewrite lookup_remove. destruct (N.eqb n name); [discriminate|]. apply Hrec.
  - intros d. rewrite Hpt. destruct (memN d (r_dacs r)); auto. apply dac_armed_delete. auto.
Qed.

Lemma inv_dac_clear st st' e : inv_dac st -> clear_programs st = (st', e) -> inv_dac st'.
Proof.
  intros [Hnd [Hex [Hrec Harm]]] H. unfold clear_programs in H. inversion H; subst; clear H.
  set (empty := {| d_wins := []; d_armed := None |}).
  assert (forall x, fold_left (fun dc d => upd dc d empty) (known_dacs (mmap st)) (dac_of st) x
                    = if memN x (known_dacs (mmap st)) then empty else dac_of st x) as Hpt.
  { intros x.
    pose proof (fold_upd_pointwise (fun _ _ => empty) (fun _ => false) (known_dacs (mmap st))
                                   (fun _ _ => eq_refl) (dac_of st) x) as P.
    cbn in P. rewrite andb_true_r in P. exact P. }
  assert (forall x, memN x (known_dacs (mmap st)) = false -> d_wins (dac_of st x) = []) as Hempty.
  { intros x Hx. specialize (Hex x). apply dac_exact_iff in Hex as [_ [B _]].
    destruct (d_wins (dac_of st x)) as [|[n w] l]; auto.
    destruct (B n w (or_introl eq_refl)) as [r [_ [U _]]]. apply uses_known_dac in U. congruence. }
  split; [reflexivity|]. unfold routing_inv_dac. cbn. split; [|split].
  - intros d. fold empty. rewrite Hpt. destruct (memN d (known_dacs (mmap st))) eqn:K; [reflexivity|].
    unfold dac_exact. rewrite (Hempty d K). reflexivity.
  - intros n r H. discriminate.
  - intros d. fold empty. rewrite Hpt. destruct (memN d (known_dacs (mmap st))); auto.
Qed.

Lemma inv_dac_arm_devices st name r :
  inv_dac st -> lookup name (regs st) = Some r -> inv_dac (arm_devices st name r).
Proof.
  intros [Hnd [Hex [Hrec Harm]]] L.
  set (g := fun (_ : N) (v : dac_st) => {| d_wins := d_wins v; d_armed := Some name |}).
  assert (forall x, dac_of (arm_devices st name r) x
                    = if memN x (r_dacs r) then g x (dac_of st x) else dac_of st x) as Hpt.
  { intros x. unfold arm_devices. cbn.
    pose proof (fold_upd_pointwise g (fun _ => false) (r_dacs r) (fun _ _ => eq_refl) (dac_of st) x) as P.
    cbn in P. rewrite andb_true_r in P. exact P. }
  split; [exact Hnd|]. unfold routing_inv_dac. split; [|split].
  - intros d. rewrite Hpt. change (mmap (arm_devices st name r)) with (mmap st).
    change (regs (arm_devices st name r)) with (regs st).
    destruct (memN d (r_dacs r)); auto. apply Hex.
  - exact Hrec.
  - intros d. rewrite Hpt. destruct (memN d (r_dacs r)) eqn:M; auto.
    unfold dac_armed_ok, g. cbn.
    rewrite (Hrec _ _ L d) in M. specialize (Hex d). apply dac_exact_iff in Hex as [_ [_ C]].
    eapply C; eauto using lookup_In.
Qed.

Lemma inv_dac_arm st name st' e : inv_dac st -> arm_program st name = (st', e) -> inv_dac st'.
Proof.
  intros Hinv H. unfold arm_program in H. destruct (lookup name (regs st)) as [r|] eqn:L; inversion H; subst; auto.
  apply inv_dac_arm_devices; auto.
Qed.

Lemma inv_dac_run st name st' e : inv_dac st -> run_program st name = (st', e) -> inv_dac st'.
Proof.
  intros Hinv H. unfold run_program in H. destruct (lookup name (regs st)) as [r|] eqn:L; inversion H; subst; auto.
  exact (inv_dac_arm_devices st name r Hinv L).
Qed.

Lemma inv_dac_register dm st name p cb update order st' e :
  inv_dac st -> register_program dm st name p cb update order = (st', e) -> inv_dac st'.
Proof.
  intros Hinv H. unfold register_program in H.
  destruct cb as [cbt|]; [|inversion H; subst; auto].
  destruct (negb (forallb _ (p_chans p))); [inversion H; subst; auto|].
  destruct (negb (forallb _ (p_meas p))); [inversion H; subst; auto|].
  destruct (channel_info dm (chmap st) (p_chans p)) as [infos|]; [|inversion H; subst; auto].
  destruct (negb (same_setN order (keys infos))); [inversion H; subst; auto|].
  destruct (has_key name (regs st) && negb update); [inversion H; subst; auto|].
  destruct (upload_all (awg_of st) name (p_tag p) update infos order) as [aw ok].
  destruct ok; cbn in H; inversion H; subst; clear H.
  2: { eapply inv_dac_same; [| | |exact Hinv]; reflexivity. }
  destruct Hinv as [Hnd [Hex [Hrec Harm]]].
  set (aff := affected_dacs (mmap st) (p_meas p)).
  pose proof (affected_nodup (mmap st) (p_meas p)) as Haffnd. fold aff in Haffnd.
  assert (forall x, memN x (keys aff) = uses_dac (mmap st) (p_meas p) x) as Hord.
  { intros x. rewrite memN_keys'. apply affected_keys. }
  set (old_dacs := match lookup name (regs st) with Some r => r_dacs r | None => [] end).
  set (dc1 := register_dacs (dac_of st) name aff).
  assert (forall x, fold_left (fun dc d => if memN d (keys aff) then dc else upd dc d (dac_delete (dc d) name))
                              old_dacs dc1 x
                    = if memN x old_dacs && negb (memN x (keys aff)) then dac_delete (dc1 x) name else dc1 x) as Hpt.
  { intros x. exact (fold_upd_pointwise (fun _ v => dac_delete v name) (fun d => memN d (keys aff)) old_dacs
                                        (fun _ v => dac_delete_idem name v) dc1 x). }
  set (r' := {| r_tag := p_tag p; r_chans := p_chans p; r_meas := p_meas p; r_cb := cbt; r_awgs := order;
                r_dacs := keys aff |}).
  split; [cbn; apply nodup_upsert; auto|].
  unfold routing_inv_dac. cbn. fold aff. fold old_dacs. fold dc1. fold r'. split; [|split].
  - intros x. rewrite Hpt. apply dac_exact_iff.
    pose proof (Hex x) as Hx. apply dac_exact_iff in Hx as [A [B C]].
    unfold dc1 at 1 2. rewrite (register_dacs_pointwise name aff (dac_of st) x Haffnd).
    destruct (memN x (keys aff)) eqn:Mo.
    + rewrite andb_false_r. pose proof Mo as K. rewrite memN_keys' in K. unfold has_key in K.
      destruct (lookup x aff) as [w|] eqn:Lw; [|discriminate].
      unfold dac_exact_P. cbn [d_wins]. split; [apply nodup_upsert; auto|]. split.
      * intros n w0 Hinw. apply In_upsert in Hinw; auto. destruct Hinw as [[-> ->]|[Hne Hinw]].
        -- exists r'. rewrite lookup_upsert, N.eqb_refl. split; auto. unfold r'; cbn [r_meas].
           rewrite <- Hord, Mo. split; auto. apply affected_entry. exact Lw.
        -- destruct (B _ _ Hinw) as [r0 [L0 P]]. exists r0. rewrite lookup_upsert.
           apply N.eqb_neq in Hne. rewrite Hne. auto.
      * intros n r0 Hinr U0. rewrite has_key_upsert. destruct (N.eqb n name) eqn:En; auto. cbn.
        apply In_upsert in Hinr; auto. destruct Hinr as [[-> _]|[_ Hinr]]; [rewrite N.eqb_refl in En; discriminate|].
        eapply C; eauto.
    + rewrite andb_true_r. pose proof Mo as K. rewrite memN_keys' in K. unfold has_key in K.
      destruct (lookup x aff) as [w|] eqn:Lw; [discriminate|].
      assert (forall n r0, In (n, r0) (upsert name r' (regs st)) ->
                           uses_dac (mmap st) (r_meas r0) x = true -> n <> name /\ In (n, r0) (regs st)) as Hothers.
      { intros n r0 Hinr U0. apply In_upsert in Hinr; auto. destruct Hinr as [[-> ->]|[Hne Hinr]]; auto.
        unfold r' in U0; cbn [r_meas] in U0. rewrite <- Hord, Mo in U0. discriminate. }
      destruct (memN x old_dacs) eqn:Mold.
      * unfold dac_exact_P, dac_delete. cbn [d_wins]. split; [apply nodup_remove; auto|]. split.
        -- intros n w0 Hinw. apply In_remove in Hinw as [Hne Hinw]; auto.
           destruct (B _ _ Hinw) as [r0 [L0 P]]. exists r0. rewrite lookup_upsert.
           apply N.eqb_neq in Hne. rewrite Hne. auto.
        -- intros n r0 Hinr U0. destruct (Hothers _ _ Hinr U0) as [Hne Hinr'].
           rewrite has_key_remove. apply N.eqb_neq in Hne. rewrite Hne. cbn. eapply C; eauto.
      * split; auto. split.
        -- intros n w0 Hinw. destruct (B _ _ Hinw) as [r0 [L0 [U0 E0]]].
           assert (n <> name) as Hne.
           { intros ->. unfold old_dacs in Mold. rewrite L0 in Mold. rewrite (Hrec _ _ L0 x) in Mold. congruence. }
           exists r0. rewrite lookup_upsert. apply N.eqb_neq in Hne. rewrite Hne. auto.
        -- intros n r0 Hinr U0. destruct (Hothers _ _ Hinr U0) as [Hne Hinr']. eapply C; eauto.
  - intros n r0. rewrite lookup_upsert. destruct (N.eqb n name) eqn:En.
    + intros E. inversion E. subst r0. unfold r'; cbn [r_meas r_dacs]. apply Hord.
    + apply Hrec.
  - intros x. rewrite Hpt.
    assert (dac_armed_ok (dc1 x) = true) as Hd1.
    { unfold dc1. rewrite (register_dacs_pointwise name aff (dac_of st) x Haffnd).
      destruct (lookup x aff); [|apply Harm].
      specialize (Harm x). unfold dac_armed_ok in *. cbn. destruct (d_armed (dac_of st x)) as [k|]; auto.
      rewrite has_key_upsert, Harm. apply orb_true_r. }
    destruct (memN x old_dacs && negb (memN x (keys aff))); auto. apply dac_armed_delete. auto.
Qed.

Lemma inv_dac_step dm st o :
  inv_dac st -> guard_C18_rewire_op st o = true -> inv_dac (fst (step dm st o)).
Proof.
  intros Hinv Hg. destruct (step dm st o) as [st' e] eqn:H. cbn. destruct o; cbn in H, Hg.
  - eapply inv_dac_set_channel; eauto.
  - eapply inv_dac_set_measurement; eauto.
  - eapply inv_dac_rm_channel; eauto.
  - eapply inv_dac_register; eauto.
  - eapply inv_dac_remove; eauto.
  - eapply inv_dac_clear; eauto.
  - eapply inv_dac_arm; eauto.
  - eapply inv_dac_run; eauto.
  - unfold update_parameters in H. destruct (lookup name (regs st)); inversion H; subst; auto.
Qed.

Lemma inv_dac_run_history dm : forall h st,
  inv_dac st -> guard_C18_rewire dm st h = true -> inv_dac (run dm st h).
Proof.
  induction h as [|o h IH]; intros st Hinv Hg; cbn; auto.
  cbn in Hg. apply andb_true_iff in Hg as [G1 G2]. apply IH; auto. apply inv_dac_step; auto.
Qed.

Theorem inv_dac_histories dm h :
  guard_C18_rewire dm init_state h = true -> routing_inv_dac (run dm init_state h).
Proof. intros G. apply (inv_dac_run_history dm h init_state inv_dac_init G). Qed.
