(* C10 — the interface (parameter names, measurement names, defined channels) does not depend on object identities, hence
   a template that loads back equal up to identity declares the same interface. *)
From Coq Require Import String List ZArith QArith Bool.
Require Import QV.C10.Model QV.C10.Spec QV.C10.Iface QV.C10.Proofs QV.C10.Proofs_store.
Import ListNotations.
Open Scope string_scope.

Lemma map_erase_ext {A} (f : pt -> A) subs : Forall (fun c => f (erase c) = f c) subs -> map f (map erase subs) = map f subs.
Proof. induction 1; cbn; [reflexivity|]. now f_equal. Qed.

Lemma params_erase vt : forall p, params vt (erase p) = params vt p.
Proof.
  induction p using pt_ind2; cbn [erase params]; try reflexivity.
  - now rewrite map_erase_ext.
  - now rewrite IHp.
  - now rewrite IHp.
  - now rewrite IHp.
  - now rewrite map_erase_ext.
  - now rewrite IHp.
  - now rewrite IHp.
  - now rewrite IHp1, IHp2.
  - exact IHp.
Qed.

Lemma mnames_erase : forall p, mnames (erase p) = mnames p.
Proof.
  induction p using pt_ind2; cbn [erase mnames]; try reflexivity.
  - now rewrite map_erase_ext.
  - now rewrite IHp.
  - now rewrite IHp.
  - now rewrite IHp.
  - now rewrite map_erase_ext.
  - exact IHp.
  - exact IHp.
  - now rewrite IHp1, IHp2.
  - exact IHp.
Qed.

Lemma chans_erase : forall p, chans (erase p) = chans p.
Proof.
  induction p using pt_ind2; cbn [erase chans]; try reflexivity.
  - destruct H as [|c0 r0 Hc0 Hr0]; [reflexivity|exact Hc0].
  - exact IHp.
  - exact IHp.
  - now rewrite IHp.
  - now rewrite map_erase_ext.
  - now rewrite IHp.
  - exact IHp.
  - now rewrite IHp1, IHp2.
  - exact IHp.
Qed.

Lemma iface_erase vt p : iface_of vt (erase p) = iface_of vt p.
Proof. unfold iface_of. now rewrite params_erase, mnames_erase, chans_erase. Qed.

Lemma iface_roundtrip vt p p' : erase p' = erase p -> iface_of vt p' = iface_of vt p.
Proof. intros H. rewrite <- (iface_erase vt p'), H. apply iface_erase. Qed.

Lemma storage_interface : forall vt P s' i, wf P = true -> consistent P -> pt_id P = Some i ->
  store (empty_s []) P = Ok s' ->
  exists p' st', load (length (nodes P)) (s_be s') fresh_l i = Ok (p', st') /\ erase p' = erase P /\
                 iface_of vt p' = iface_of vt P.
Proof.
  intros vt P s' i Hw Hc Hi E. destruct (storage_statement P s' i Hw Hc Hi E) as (p' & st' & L & Ee).
  exists p', st'. split; [assumption|]. split; [assumption|]. now apply iface_roundtrip.
Qed.
