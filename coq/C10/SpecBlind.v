(* C10 — round 6: definitions used by the statements about identity-blind observations (no proofs). *)
From Coq Require Import String List ZArith QArith Bool.
Require Import QV.C10.Model QV.C10.Spec.
Import ListNotations.
Open Scope string_scope.

(* the documents a store of p writes for its named nodes (identifier, document), in traversal order *)
Definition named_docs (p : pt) : list (string * json) := map (fun kn => (fst kn, to_data (snd kn))) (named_nodes p).

(* an observation of a template that does not read Python object identities *)
Definition identity_blind {A} (obs : pt -> A) : Prop := forall p, obs (erase p) = obs p.
